(** * The history of the MichaelHashSet model (LV.Model.MichaelSet) and its bucket projections, every schedule.

    [gfold] is C13's history function [MichaelListProofs.fstep] run on the product trace, keeping the bucket tag of every
    history event.  Forgetting the tags gives exactly C13's history of the untagged trace ([gfold_untag], unconditional).
    For every reachable configuration ([hist_inv_reach], proof rule [Conc.safe] with a trace-only invariant and the
    syntactic shape of [MichaelList.run_op] from Proofs/MichaelSetShape.v):
      - the tagged history is sequential per thread, every invocation carries the bucket of its key ([hseq]),
      - its sub-history with tag [b] is C13's history of the trace bucket [b] has seen ([full_hist (projb b tr)]) —
        including the deletion of the invocation of an [unlink] that returned false.  *)
From Coq Require Import ZArith List Bool Arith PeanoNat Lia String.
From LV Require Import Base.Conc Base.Events Base.Lin Spec.Specs Proofs.LinProofs.
From LV Require Import Model.MichaelList Model.Product Model.MichaelSet.
From LV Require Import Proofs.MichaelListInv Proofs.MichaelListProofs Proofs.PartitionLin Proofs.MichaelSetShape.
Import ListNotations.

(** ** list facts *)
Lemma filter_rev' {A} (q : A -> bool) l : filter q (rev l) = rev (filter q l).
Proof.
  induction l as [|x l IH]; cbn [rev filter]; [reflexivity|]. rewrite filter_app, IH. cbn [filter].
  destruct (q x); cbn [rev]; [reflexivity|apply app_nil_r].
Qed.

Lemma map_rm_first {A B} (f : A -> B) p l : map f (rm_first (fun x => p (f x)) l) = rm_first p (map f l).
Proof. induction l as [|x l IH]; cbn [rm_first map]; [reflexivity|]. destruct (p (f x)); [reflexivity|cbn [map]; now rewrite IH]. Qed.
Lemma map_rm_last {A B} (f : A -> B) p l : map f (rm_last (fun x => p (f x)) l) = rm_last p (map f l).
Proof. unfold rm_last. rewrite map_rev, map_rm_first, map_rev. reflexivity. Qed.

Lemma filter_rm_first_in {A} (p q : A -> bool) l :
  (forall x, p x = true -> q x = true) -> filter q (rm_first p l) = rm_first p (filter q l).
Proof.
  intros H. induction l as [|x l IH]; cbn [rm_first filter]; [reflexivity|].
  destruct (p x) eqn:Ep.
  - rewrite (H x Ep). cbn [rm_first]. now rewrite Ep.
  - cbn [filter]. destruct (q x); cbn [rm_first]; [rewrite Ep|]; now rewrite IH.
Qed.
Lemma filter_rm_first_out {A} (p q : A -> bool) l :
  (forall x, p x = true -> q x = false) -> filter q (rm_first p l) = filter q l.
Proof.
  intros H. induction l as [|x l IH]; cbn [rm_first filter]; [reflexivity|].
  destruct (p x) eqn:Ep.
  - now rewrite (H x Ep).
  - cbn [filter]. now rewrite IH.
Qed.
Lemma filter_rm_first_hit {A} (p q : A -> bool) l x :
  find p l = Some x -> q x = true -> filter q (rm_first p l) = rm_first p (filter q l).
Proof.
  intros Hf Hq. induction l as [|y l IH]; cbn [rm_first filter find] in *; [reflexivity|].
  destruct (p y) eqn:Ep.
  - inversion Hf; subst y. rewrite Hq. cbn [rm_first]. now rewrite Ep.
  - cbn [filter]. destruct (q y); cbn [rm_first]; [rewrite Ep|]; now rewrite (IH Hf).
Qed.
Lemma filter_rm_first_miss {A} (p q : A -> bool) l x :
  find p l = Some x -> q x = false -> filter q (rm_first p l) = filter q l.
Proof.
  intros Hf Hq. induction l as [|y l IH]; cbn [rm_first filter find] in *; [reflexivity|].
  destruct (p y) eqn:Ep.
  - inversion Hf; subst y. now rewrite Hq.
  - cbn [filter]. now rewrite (IH Hf).
Qed.
Lemma find_filter {A} (p q : A -> bool) l : (forall x, p x = true -> q x = true) -> find p (filter q l) = find p l.
Proof.
  intros H. induction l as [|x l IH]; cbn [filter find]; [reflexivity|].
  destruct (p x) eqn:Ep.
  - rewrite (H x Ep). cbn [find]. now rewrite Ep.
  - destruct (q x); cbn [find]; [rewrite Ep|]; exact IH.
Qed.

Lemma filter_rm_last_in {A} (p q : A -> bool) l :
  (forall x, p x = true -> q x = true) -> filter q (rm_last p l) = rm_last p (filter q l).
Proof. intros H. unfold rm_last. rewrite filter_rev', (filter_rm_first_in _ _ _ H), filter_rev'. reflexivity. Qed.
Lemma filter_rm_last_out {A} (p q : A -> bool) l :
  (forall x, p x = true -> q x = false) -> filter q (rm_last p l) = filter q l.
Proof. intros H. unfold rm_last. rewrite filter_rev', (filter_rm_first_out _ _ _ H), filter_rev', rev_involutive. reflexivity. Qed.
Lemma filter_rm_last_hit {A} (p q : A -> bool) l x :
  find p (rev l) = Some x -> q x = true -> filter q (rm_last p l) = rm_last p (filter q l).
Proof. intros H1 H2. unfold rm_last. rewrite filter_rev', (filter_rm_first_hit _ _ _ _ H1 H2), filter_rev'. reflexivity. Qed.
Lemma filter_rm_last_miss {A} (p q : A -> bool) l x :
  find p (rev l) = Some x -> q x = false -> filter q (rm_last p l) = filter q l.
Proof. intros H1 H2. unfold rm_last. rewrite filter_rev', (filter_rm_first_miss _ _ _ _ H1 H2), filter_rev', rev_involutive. reflexivity. Qed.

(** ** the tagged history *)
Notation tev := (nat * hev SetSpec)%type.
Definition gstate := (list tev * list (nat * (nat * Z)))%type.
Definition isinv_t (t : nat) (x : tev) : bool := is_hinv t (snd x).

Definition gstep (s : gstate) (te : nat * (nat * ev)) : gstate :=
  let (out, pend) := s in
  match te with
  | (t, (b, EvCli name args)) =>
      if String.eqb name "inv" then
        match args with
        | [c; k; x; _] => (out ++ [(b, @HInv SetSpec t (MichaelListInv.spec_op c k x))], (b, (t, c)) :: pend)
        | _ => s
        end
      else if String.eqb name "ret" then
        match args, last_inv_op t (map snd out) None with
        | [a; r], Some o =>
            if andb (Z.eqb (code_of t (map snd pend)) 6%Z) (Z.eqb a 0%Z) then (rm_last (isinv_t t) out, pend)
            else (out ++ [(b, @HRes SetSpec t (MichaelListInv.res_of o a r))], pend)
        | _, _ => s
        end
      else s
  | (_, (_, EvAcc _ _ _)) => s
  end.
Definition gfold (TR : list (nat * (nat * ev))) : gstate := fold_left gstep TR ([], []).
Definition unt (s : gstate) : hist * list (nat * Z) := (map snd (fst s), map snd (snd s)).
Definition untag (TR : list (nat * (nat * ev))) : list (nat * ev) := map (fun x => (fst x, snd (snd x))) TR.

Lemma gstep_untag s t b e : fstep (unt s) (t, e) = unt (gstep s (t, (b, e))).
Proof.
  destruct s as [out pend]. destruct e as [k o ok|name args]; cbn [fstep gstep unt fst snd]; [reflexivity|].
  destruct (String.eqb name "inv").
  - destruct args as [|c [|k [|x [|y [|z args]]]]]; try reflexivity. unfold unt. cbn [fst snd]. rewrite map_app. reflexivity.
  - destruct (String.eqb name "ret"); [|reflexivity].
    destruct args as [|a [|r [|z args]]]; try reflexivity.
    destruct (last_inv_op t (map snd out) None) as [o|]; [|reflexivity].
    destruct (andb (Z.eqb (code_of t (map snd pend)) 6%Z) (Z.eqb a 0%Z)); unfold unt; cbn [fst snd].
    + rewrite <- (map_rm_last snd (is_hinv t) out). reflexivity.
    + rewrite map_app. reflexivity.
Qed.

Lemma gfold_untag_from TR : forall s, fold_left fstep (untag TR) (unt s) = unt (fold_left gstep TR s).
Proof.
  induction TR as [|[t [b e]] TR IH]; intros s; cbn [untag map fold_left fst snd]; [reflexivity|].
  rewrite gstep_untag with (b := b). apply IH.
Qed.

(** forgetting the tags of the tagged history = C13's history of the untagged trace *)
Theorem gfold_untag TR : full_hist (untag TR) = map snd (fst (gfold TR)).
Proof. unfold full_hist, gfold. change (@nil (hev SetSpec), @nil (nat * Z)) with (unt ([], [])). rewrite gfold_untag_from. reflexivity. Qed.

Lemma gstep_quiet s t b e : qev e = true -> gstep s (t, (b, e)) = s.
Proof.
  destruct s as [out pend]. destruct e as [k o ok|name args]; cbn [gstep qev]; [reflexivity|].
  intros H. apply andb_true_iff in H. destruct H as [H1 H2].
  destruct (String.eqb name "inv"); [discriminate|]. destruct (String.eqb name "ret"); [discriminate|reflexivity].
Qed.
Lemma fstep_quiet s t e : qev e = true -> fstep s (t, e) = s.
Proof.
  destruct s as [out pend]. destruct e as [k o ok|name args]; cbn [fstep qev]; [reflexivity|].
  intros H. apply andb_true_iff in H. destruct H as [H1 H2].
  destruct (String.eqb name "inv"); [discriminate|]. destruct (String.eqb name "ret"); [discriminate|reflexivity].
Qed.

Lemma projb_app {E} b (l1 l2 : list (nat * (nat * E))) : projb b (l1 ++ l2) = projb b l1 ++ projb b l2.
Proof.
  induction l1 as [|[t [b' e]] l1 IH]; cbn [app projb]; [reflexivity|].
  destruct (Nat.eqb b' b); [cbn [app]; f_equal|]; exact IH.
Qed.

(** ** per-thread view of the tagged history *)
Definition hthr (e : hev SetSpec) : nat := match e with HInv t _ => t | HRes t _ => t end.
Definition tsub (t : nat) (l : list tev) : list tev := filter (fun x => Nat.eqb (hthr (snd x)) t) l.
Definition bfil {A} (b : nat) (l : list (nat * A)) : list (nat * A) := filter (fun x => Nat.eqb (fst x) b) l.

Lemma hfilter_bfil b (l : list tev) : hfilter b l = map snd (bfil b l).
Proof. reflexivity. Qed.

Lemma lio_tsub t : forall (l : list tev) acc, last_inv_op t (map snd l) acc = last_inv_op t (map snd (tsub t l)) acc.
Proof.
  induction l as [|[b [u o|u r]] l IH]; intros acc; cbn [map snd tsub filter hthr last_inv_op]; [reflexivity| |].
  - fold (tsub t l). destruct (Nat.eqb u t) eqn:E; cbn [map snd last_inv_op]; [rewrite E|]; apply IH.
  - fold (tsub t l). destruct (Nat.eqb u t) eqn:E; cbn [map snd last_inv_op]; apply IH.
Qed.

Lemma tsub_bfil t b (l : list tev) : tsub t (bfil b l) = bfil b (tsub t l).
Proof.
  unfold tsub, bfil. induction l as [|x l IH]; cbn [filter]; [reflexivity|].
  destruct (Nat.eqb (fst x) b) eqn:E1; destruct (Nat.eqb (hthr (snd x)) t) eqn:E2; cbn [filter]; rewrite ?E1, ?E2, IH; reflexivity.
Qed.

Lemma tsub_app t l1 l2 : tsub t (l1 ++ l2) = tsub t l1 ++ tsub t l2.
Proof. apply filter_app. Qed.
Lemma bfil_app {A} b (l1 l2 : list (nat * A)) : bfil b (l1 ++ l2) = bfil b l1 ++ bfil b l2.
Proof. apply filter_app. Qed.

Lemma tsub_rm_last_same t (l : list tev) : tsub t (rm_last (isinv_t t) l) = rm_last (isinv_t t) (tsub t l).
Proof.
  apply filter_rm_last_in. intros [b [u o|u r]]; unfold isinv_t; cbn; [|discriminate]. auto.
Qed.
Lemma tsub_rm_last_other t u (l : list tev) : u <> t -> tsub u (rm_last (isinv_t t) l) = tsub u l.
Proof.
  intros Hu. apply filter_rm_last_out. intros [b [w o|w r]]; unfold isinv_t; cbn; [|discriminate].
  intros H. apply Nat.eqb_eq in H. subst w. apply Nat.eqb_neq. auto.
Qed.

(** the last invocation of [t] when [t]'s events end with the invocation [x] *)
Lemma find_last_inv t (l l1 : list tev) x :
  tsub t l = l1 ++ [x] -> isinv_t t x = true -> find (isinv_t t) (rev l) = Some x.
Proof.
  intros H Hx.
  transitivity (find (isinv_t t) (rev (tsub t l))).
  - unfold tsub. rewrite <- filter_rev'. symmetry. apply find_filter.
    intros [b [u o|u r]]; unfold isinv_t; cbn; [auto|discriminate].
  - rewrite H, rev_app_distr. cbn [rev app find]. now rewrite Hx.
Qed.

Lemma hfilter_snoc b' (out : list tev) b e :
  hfilter b' (out ++ [(b, e)]) = if Nat.eqb b b' then hfilter b' out ++ [e] else hfilter b' out.
Proof.
  unfold hfilter. rewrite filter_app, map_app. cbn [filter fst]. destruct (Nat.eqb b b'); cbn [map snd]; [reflexivity|apply app_nil_r].
Qed.

Section Hist.
  Variables (nb : nat) (hs : list Z).
  Hypothesis Hnb : 0 < nb.
  Notation bk := (MichaelSet.bucket nb hs).

  Lemma bucket_lt_nb k : bk k < nb.
  Proof. unfold bucket. destruct (Nat.ltb_spec (Z.to_nat (Z.land (hash hs k) (Z.of_nat nb - 1))) nb); [assumption|exact Hnb]. Qed.

  (** alternation invocation / response of the events of one thread *)
  Fixpoint altf (opn : bool) (l : list tev) : Prop :=
    match l with
    | [] => True
    | (b, HInv _ o) :: r => opn = false /\ op_bucket bk o = Some b /\ altf true r
    | (b, HRes _ _) :: r => opn = true /\ altf false r
    end.
  Fixpoint endst (opn : bool) (l : list tev) : bool :=
    match l with
    | [] => opn
    | (_, HInv _ _) :: r => endst true r
    | (_, HRes _ _) :: r => endst false r
    end.

  Lemma endst_app : forall l1 l2 opn, endst opn (l1 ++ l2) = endst (endst opn l1) l2.
  Proof. induction l1 as [|[b [u o|u r]] l1 IH]; intros l2 opn; cbn [app endst]; auto. Qed.
  Lemma altf_app : forall l1 l2 opn, altf opn (l1 ++ l2) <-> altf opn l1 /\ altf (endst opn l1) l2.
  Proof.
    induction l1 as [|[b [u o|u r]] l1 IH]; intros l2 opn; cbn [app altf endst].
    - tauto.
    - rewrite IH. tauto.
    - rewrite IH. tauto.
  Qed.

  Lemma hseq_of_alt : forall (gl : list tev) opn, (forall t, altf (opn t) (tsub t gl)) -> hseq bk opn gl.
  Proof.
    induction gl as [|[b [t o|t r]] gl IH]; intros opn H; cbn [hseq]; [exact I| |].
    - pose proof (H t) as Ht. unfold tsub in Ht. cbn [filter snd hthr] in Ht. rewrite Nat.eqb_refl in Ht.
      cbn [altf] in Ht. destruct Ht as (H1 & H2 & H3). split; [exact H1|]. split; [exact H2|].
      apply IH. intros u. destruct (Nat.eqb_spec u t) as [->|Hu]; [exact H3|].
      specialize (H u). unfold tsub in H. cbn [filter snd hthr] in H.
      destruct (Nat.eqb_spec t u) as [->|_]; [congruence|exact H].
    - pose proof (H t) as Ht. unfold tsub in Ht. cbn [filter snd hthr] in Ht. rewrite Nat.eqb_refl in Ht.
      cbn [altf] in Ht. destruct Ht as (H1 & H3). split; [exact H1|].
      apply IH. intros u. destruct (Nat.eqb_spec u t) as [->|Hu]; [exact H3|].
      specialize (H u). unfold tsub in H. cbn [filter snd hthr] in H.
      destruct (Nat.eqb_spec t u) as [->|_]; [congruence|exact H].
  Qed.

  (** what thread [t] (idle: [None]; inside an operation on bucket [b]: [Some b]) knows about its own events *)
  Definition TI (t : nat) (a : option nat) (l : list tev) : Prop :=
    altf false l /\
    match a with
    | None => endst false l = false
    | Some b => exists l1 o, l = l1 ++ [(b, @HInv SetSpec t o)] /\ op_bucket bk o = Some b
    end.

  Definition GI (A : nat -> option nat) (TR : list (nat * (nat * ev))) : Prop :=
    let s := gfold TR in
    (forall t, TI t (A t) (tsub t (fst s))) /\
    (forall t b, A t = Some b -> code_of t (map snd (snd s)) = code_of t (map snd (bfil b (snd s)))) /\
    (forall b, fold_left fstep (projb b TR) ([], []) = (hfilter b (fst s), map snd (bfil b (snd s)))) /\
    Forall (fun te => fst (snd te) < nb) TR.

  Definition updA (A : nat -> option nat) (t : nat) (x : option nat) : nat -> option nat :=
    fun u => if Nat.eqb u t then x else A u.

  Lemma gfold_snoc TR x : gfold (TR ++ [x]) = gstep (gfold TR) x.
  Proof. unfold gfold. rewrite fold_left_app. reflexivity. Qed.

  Lemma GI_init : GI (fun _ => None) [].
  Proof.
    unfold GI, gfold. cbn [fold_left fst snd]. repeat split; auto.
  Qed.

  Lemma GI_quiet1 A TR t b e : GI A TR -> qev e = true -> b < nb -> GI A (TR ++ [(t, (b, e))]).
  Proof.
    intros (G1 & G2 & G3 & G4) He Hb. unfold GI. rewrite gfold_snoc, gstep_quiet by exact He.
    split; [exact G1|]. split; [exact G2|]. split.
    - intros b'. rewrite projb_app, fold_left_app, G3. cbn [projb]. destruct (Nat.eqb b b'); cbn [fold_left]; [apply fstep_quiet; exact He|reflexivity].
    - apply Forall_app. split; [exact G4|]. constructor; [exact Hb|constructor].
  Qed.

  Lemma GI_quiet A t b : forall es TR, GI A TR -> forallb qev es = true -> b < nb -> GI A (TR ++ Conc.tag t (map (pair b) es)).
  Proof.
    induction es as [|e es IH]; intros TR HG He Hb; cbn [map Conc.tag].
    - rewrite app_nil_r. exact HG.
    - cbn [forallb] in He. apply andb_true_iff in He. destruct He as [He1 He2].
      change ((t, (b, e)) :: map (pair t) (map (pair b) es)) with ([(t, (b, e))] ++ Conc.tag t (map (pair b) es)).
      rewrite app_assoc. apply IH; [apply GI_quiet1; assumption|exact He2|exact Hb].
  Qed.

  Lemma op_bucket_spec c k x : op_bucket bk (MichaelListInv.spec_op c k x) = Some (bk k).
  Proof.
    unfold op_bucket, MichaelListInv.spec_op.
    destruct (Z.eqb c 1 || Z.eqb c 2); [reflexivity|]. destruct (Z.eqb c 3); [reflexivity|].
    destruct (Z.leb 4 c && Z.leb c 7); reflexivity.
  Qed.

  Lemma GI_inv A TR t o :
    GI A TR -> A t = None ->
    GI (updA A t (Some (bk (nth 1 o 0%Z)))) (TR ++ [(t, (bk (nth 1 o 0%Z), ev_inv o))]).
  Proof.
    intros (G1 & G2 & G3 & G4) HA. set (b := bk (nth 1 o 0%Z)). unfold GI. rewrite gfold_snoc.
    destruct (gfold TR) as [out pend] eqn:EG. cbn [fst snd] in *.
    unfold ev_inv. cbn [gstep String.eqb Ascii.eqb Bool.eqb]. cbn [fst snd].
    set (y := (b, @HInv SetSpec t (MichaelListInv.spec_op (nth 0 o 0%Z) (nth 1 o 0%Z) (nth 2 o 0%Z)))).
    split; [|split; [|split]].
    - intros u. unfold updA. rewrite tsub_app. destruct (Nat.eqb_spec u t) as [->|Hu].
      + unfold tsub at 2. cbn [filter y snd hthr]. rewrite Nat.eqb_refl.
        destruct (G1 t) as [K1 K2]. rewrite HA in K2. split.
        * apply altf_app. split; [exact K1|]. rewrite K2. cbn [altf y]. split; [reflexivity|]. split; [apply op_bucket_spec|exact I].
        * exists (tsub t out), (MichaelListInv.spec_op (nth 0 o 0%Z) (nth 1 o 0%Z) (nth 2 o 0%Z)). split; [reflexivity|apply op_bucket_spec].
      + unfold tsub at 2. cbn [filter y snd hthr]. destruct (Nat.eqb_spec t u) as [E|_]; [congruence|]. rewrite app_nil_r. apply G1.
    - intros u b'. unfold updA. cbn [map snd]. unfold bfil. cbn [filter fst]. fold (bfil b' pend).
      destruct (Nat.eqb_spec u t) as [->|Hu].
      + intros E. inversion E; subst b'. rewrite Nat.eqb_refl. cbn [map snd code_of]. rewrite Nat.eqb_refl. reflexivity.
      + intros E. cbn [code_of]. destruct (Nat.eqb_spec t u) as [E'|_]; [congruence|].
        destruct (Nat.eqb b b'); cbn [map snd code_of]; [destruct (Nat.eqb_spec t u) as [E'|_]; [congruence|]|]; apply G2; exact E.
    - intros b'. rewrite projb_app, fold_left_app, G3. cbn [projb]. unfold y. rewrite hfilter_snoc. unfold bfil at 2. cbn [filter fst]. fold (bfil b' pend).
      destruct (Nat.eqb b b'); cbn [fold_left fstep String.eqb Ascii.eqb Bool.eqb map snd]; reflexivity.
    - apply Forall_app. split; [exact G4|]. constructor; [|constructor]. cbn. apply bucket_lt_nb.
  Qed.

  Lemma GI_ret A TR t b a r :
    GI A TR -> A t = Some b -> b < nb -> GI (updA A t None) (TR ++ [(t, (b, ev_ret a r))]).
  Proof.
    intros (G1 & G2 & G3 & G4) HA Hb. unfold GI. rewrite gfold_snoc.
    destruct (gfold TR) as [out pend] eqn:EG. cbn [fst snd] in *.
    destruct (G1 t) as [K1 K2]. rewrite HA in K2. destruct K2 as (l1 & o & K2 & K3).
    set (x := (b, @HInv SetSpec t o)) in *.
    assert (Hx : isinv_t t x = true) by (unfold isinv_t, x; cbn; apply Nat.eqb_refl).
    assert (L1 : last_inv_op t (map snd out) None = Some o).
    { rewrite lio_tsub, K2, map_app, last_inv_op_app. cbn [map snd x last_inv_op]. rewrite (Nat.eqb_refl t). reflexivity. }
    assert (L2 : last_inv_op t (hfilter b out) None = Some o).
    { rewrite hfilter_bfil, lio_tsub, tsub_bfil, K2. unfold bfil. rewrite filter_app, map_app, last_inv_op_app.
      cbn [filter fst x]. rewrite (Nat.eqb_refl b). cbn [map snd x last_inv_op]. rewrite (Nat.eqb_refl t). reflexivity. }
    assert (Hend : altf false l1 /\ endst false l1 = false).
    { rewrite K2 in K1. apply altf_app in K1. destruct K1 as [K1 K1']. split; [exact K1|]. cbn [altf x] in K1'. apply K1'. }
    assert (HF : Forall (fun te => fst (snd te) < nb) (TR ++ [(t, (b, ev_ret a r))])).
    { apply Forall_app. split; [exact G4|]. constructor; [exact Hb|constructor]. }
    assert (HG2 : forall u b', updA A t None u = Some b' -> code_of u (map snd pend) = code_of u (map snd (bfil b' pend))).
    { intros u b'. unfold updA. destruct (Nat.eqb_spec u t); [discriminate|apply G2]. }
    unfold ev_ret. cbn [gstep String.eqb Ascii.eqb Bool.eqb]. rewrite L1.
    destruct (andb (Z.eqb (code_of t (map snd pend)) 6%Z) (Z.eqb a 0%Z)) eqn:Ec; cbn [fst snd].
    - (* an unlink that returned false: its invocation is deleted *)
      pose proof (find_last_inv t out l1 x K2 Hx) as Hf.
      split; [|split; [exact HG2|split; [|exact HF]]].
      + intros u. unfold updA. destruct (Nat.eqb_spec u t) as [->|Hu].
        * rewrite tsub_rm_last_same, K2. rewrite (rm_last_app_hit (isinv_t t) l1 x []); [|intros z []|exact Hx].
          rewrite app_nil_r. exact Hend.
        * rewrite tsub_rm_last_other by exact Hu. apply G1.
      + intros b'. rewrite projb_app, fold_left_app, G3. cbn [projb].
        destruct (Nat.eqb_spec b b') as [<-|Hne]; cbn [fold_left].
        * cbn [fstep String.eqb Ascii.eqb Bool.eqb]. rewrite L2, <- (G2 t b HA), Ec. f_equal.
          rewrite !hfilter_bfil. unfold bfil. rewrite (filter_rm_last_hit _ _ _ _ Hf) by (cbn; apply Nat.eqb_refl).
          rewrite <- (map_rm_last snd (is_hinv t)). reflexivity.
        * f_equal. rewrite !hfilter_bfil. unfold bfil. rewrite (filter_rm_last_miss _ _ _ _ Hf); [reflexivity|].
          cbn. apply Nat.eqb_neq. exact Hne.
    - (* the response is appended *)
      split; [|split; [exact HG2|split; [|exact HF]]].
      + intros u. unfold updA. rewrite tsub_app. destruct (Nat.eqb_spec u t) as [->|Hu].
        * unfold tsub at 2. cbn [filter snd hthr]. rewrite (Nat.eqb_refl t). rewrite K2. destruct Hend as [He1 He2]. split.
          -- apply altf_app. split; [rewrite <- K2; exact K1|]. rewrite endst_app, He2. cbn [endst x altf]. auto.
          -- rewrite !endst_app. reflexivity.
        * unfold tsub at 2. cbn [filter snd hthr]. destruct (Nat.eqb_spec t u) as [E|_]; [congruence|]. rewrite app_nil_r. apply G1.
      + intros b'. rewrite projb_app, fold_left_app, G3. cbn [projb]. rewrite hfilter_snoc.
        destruct (Nat.eqb_spec b b') as [<-|Hne]; cbn [fold_left]; [|reflexivity].
        cbn [fstep String.eqb Ascii.eqb Bool.eqb]. rewrite L2, <- (G2 t b HA), Ec. reflexivity.
  Qed.

  (** ** the invariant holds for every schedule: proof rule Conc.safe, local view = the bucket of the operation in progress *)
  Notation safeS := (@Conc.safe GP MichaelList.V (nat * ev) (nat -> option nat) (option nat) (fun A t => A t) (fun _ A tr => GI A tr)).

  Definition Qop {X} (r : option X) (l' : option nat) : Prop := match r with Some _ => l' = None | None => True end.

  Lemma safeS_quiet {R} (p : MichaelList.prog R) t b : b < nb -> quiet p -> forall l, safeS t (lift b p) l (fun _ l' => l' = l).
  Proof.
    intros Hb. induction p as [r|es k IH|f k IH]; intros Hq l; cbn [lift Conc.safe quiet] in *.
    - reflexivity.
    - destruct Hq as [H1 H2]. intros g a tr HI Hv. exists a. split; [apply GI_quiet; assumption|].
      split; [intros t' _; reflexivity|]. rewrite Hv. apply IH; exact H2.
    - destruct Hq as [H1 H2]. intros g a tr HI Hv. exists a. unfold lift_act. pose proof (H1 (g b)) as H1'.
      destruct (f (g b)) as [[g1 v] es]. cbn [fst snd] in *. split; [apply GI_quiet; assumption|].
      split; [intros t' _; reflexivity|]. rewrite Hv. apply IH. apply H2.
  Qed.

  Lemma safeS_tail (p : MichaelList.prog (out lstate)) t b : b < nb -> tail p -> safeS t (lift b p) (Some b) Qop.
  Proof.
    intros Hb. induction p as [r|es k IH|f k IH]; intros Hq; cbn [lift Conc.safe tail] in *.
    - subst r. exact I.
    - intros g a tr HI Hv. destruct Hq as [[H1 H2]|(x & y & r & -> & ->)].
      + exists a. split; [apply GI_quiet; assumption|]. split; [intros t' _; reflexivity|]. rewrite Hv. apply IH; exact H2.
      + exists (updA a t None). split; [apply GI_ret; assumption|]. split.
        * intros t' Ht'. unfold updA. destruct (Nat.eqb_spec t' t); [contradiction|reflexivity].
        * cbn [lift Conc.safe]. unfold Qop, updA. now rewrite Nat.eqb_refl.
    - destruct Hq as [H1 H2]. intros g a tr HI Hv. exists a. unfold lift_act. pose proof (H1 (g b)) as H1'.
      destruct (f (g b)) as [[g1 v] es]. cbn [fst snd] in *. split; [apply GI_quiet; assumption|].
      split; [intros t' _; reflexivity|]. rewrite Hv. apply IH. apply H2.
  Qed.

  Lemma safeS_run_opP fuel sf ic t o lsm : safeS t (run_opP nb hs fuel sf ic t o lsm) None Qop.
  Proof.
    unfold run_opP. set (b := bk (nth 1 o 0%Z)). assert (Hb : b < nb) by apply bucket_lt_nb.
    apply Conc.safe_bind.
    destruct (run_op_shape fuel sf ic t o (lsm b)) as [(ls' & ->)|(k & -> & Hk)]; cbn [lift Conc.safe map].
    - reflexivity.
    - intros g a tr HI Hv. exists (updA a t (Some b)). split; [apply GI_inv; assumption|]. split.
      + intros t' Ht'. unfold updA. destruct (Nat.eqb_spec t' t); [contradiction|reflexivity].
      + replace (updA a t (Some b) t) with (Some b) by (unfold updA; now rewrite Nat.eqb_refl).
        eapply Conc.safe_weaken; [|apply safeS_tail; assumption].
        intros [ls'|] l' H; cbn in *; [exact H|exact I].
  Qed.

  Lemma safeS_run_opsP fuel sf ic t : forall os lsm, safeS t (run_opsP nb hs fuel sf ic t os lsm) None (fun _ _ => True).
  Proof.
    induction os as [|o r IH]; intros lsm; cbn [run_opsP]; [exact I|].
    apply Conc.safe_bind. eapply Conc.safe_weaken; [|apply safeS_run_opP].
    intros [lsm'|] l' H; cbn in H; [subst l'; apply IH|exact I].
  Qed.

  Lemma safeS_thread fuel sf ic t os : safeS t (thread_progP nb hs fuel sf ic t os) None (@Conc.QTrue (option nat)).
  Proof.
    unfold thread_progP. apply Conc.safe_bind.
    eapply Conc.safe_weaken; [|apply (safeS_quiet (Act a_begin (fun _ => Ret tt)) t 0 Hnb)].
    - intros r l' ->. eapply Conc.safe_weaken; [|apply safeS_run_opsP]. intros; exact I.
    - cbn. split; [apply qact_begin|intros; exact I].
  Qed.

  Lemma nth_thread_progsP' fuel sf ic : forall ths t0 t p,
    nth_error (thread_progsP nb hs fuel sf ic t0 ths) t = Some p -> exists os, p = thread_progP nb hs fuel sf ic (t0 + t) os.
  Proof.
    induction ths as [|os r IH]; intros t0 t p H; cbn [thread_progsP] in H.
    - destruct t; discriminate.
    - destruct t as [|t]; cbn in H.
      + inversion H; subst. exists os. rewrite Nat.add_0_r. reflexivity.
      + destruct (IH (S t0) t p H) as (os' & ->). exists os'. f_equal. lia.
  Qed.

  Lemma init_okS fuel sf ic ths :
    Conc.cfg_ok (fun (A : nat -> option nat) t => A t) (fun (_ : GP) A tr => GI A tr) (init_cfgP nb hs fuel sf ic ths).
  Proof.
    exists (fun _ => None). split; [apply GI_init|].
    intros t p Hp. cbn [init_cfgP Conc.threads] in Hp. destruct (nth_thread_progsP' _ _ _ _ _ _ _ Hp) as (os & ->).
    apply safeS_thread.
  Qed.

  Lemma projb_out b : forall TR : list (nat * (nat * ev)), Forall (fun te => fst (snd te) < nb) TR -> nb <= b -> projb b TR = [].
  Proof.
    induction TR as [|[t [b' e]] TR IH]; intros H Hb; cbn [projb]; [reflexivity|].
    inversion H as [|x l' H1 H2]; subst. cbn [fst snd] in H1. destruct (Nat.eqb_spec b' b); [lia|]. apply IH; assumption.
  Qed.

  (** the tagged history of every reachable configuration: sequential per thread with the right bucket tags, its
      [b]-tagged part is the history of bucket [b], forgetting the tags gives the history of the whole set *)
  Theorem hist_inv_reach fuel sf ic ths c :
    Conc.reach (init_cfgP nb hs fuel sf ic ths) c ->
    let gl := fst (gfold (Conc.trace c)) in
    hseq bk (fun _ => false) gl /\
    (forall b, hfilter b gl = full_hist (projb b (Conc.trace c))) /\
    (forall b, nb <= b -> hfilter b gl = []) /\
    map snd gl = full_hist (untag (Conc.trace c)).
  Proof.
    intros Hr. destruct (Conc.reach_Inv (init_okS fuel sf ic ths) Hr) as (A & G1 & G2 & G3 & G4). cbn zeta.
    split; [|split; [|split]].
    - apply hseq_of_alt. intros t. apply (G1 t).
    - intros b. unfold full_hist. rewrite G3. reflexivity.
    - intros b Hb. assert (E : hfilter b (fst (gfold (Conc.trace c))) = full_hist (projb b (Conc.trace c))) by (unfold full_hist; rewrite G3; reflexivity).
      rewrite E, (projb_out b _ G4 Hb). reflexivity.
    - symmetry. apply gfold_untag.
  Qed.
End Hist.
