(** * [Inv3] (HpLiveInplaceInv) is preserved by the sub-programs of the HP model, both scans ([rsafe] / [rsafe1] proofs,
      to be paired with the [Conc.safe] lemmas of HpSafe.v in HpLiveInplaceGlue.v). *)
From Coq Require Import ZArith List String Bool Lia PeanoNat.
From LV Require Import Base.Conc Base.Events Model.Hp Proofs.HpTrace Proofs.HpInv Proofs.HpSteps Proofs.HpLocal
  Proofs.HpSafe Proofs.HpProofs Proofs.HpLiveCopyRule Proofs.HpLiveCopyInv Proofs.HpLiveInplaceRule Proofs.HpLiveInplaceInv.
Import ListNotations.
Local Open Scope string_scope.
Local Open Scope list_scope.

Section Safe3.
  Variable c : cfgT.

  Definition rs {R} (t : nat) (p : prog R) (l : view3T) (Q : R -> view3T -> Prop) : Prop :=
    rsafe G V ev Aux (Inv c) Aux3 view3T view3 (Inv3 c) t p l Q.
  Definition rs1 {R} (t : nat) (l1 : lview) (p : prog R) (l : view3T) (Q : R -> view3T -> Prop) : Prop :=
    rsafe1 G V ev Aux lview view (Inv c) Aux3 view3T view3 (Inv3 c) t l1 p l Q.
  Definition II (g : G) (tr : trace) : Prop := I1 G ev Aux (Inv c) g tr.

  Lemma rs_bind {A B} t (p : prog A) (q : A -> prog B) Q l :
    rs t p l (fun r l' => rs t (q r) l' Q) -> rs t (Conc.bind p q) l Q.
  Proof. apply rsafe_bind. Qed.

  Lemma II_facts g tr : II g tr ->
    (forall r j, slot_at tr r j = gslot g r j) /\
    (forall r j, r_owner (get_rec g r) = false -> gslot g r j = 0%Z) /\
    (forall r j, ~ In r (g_list g) -> gslot g r j = 0%Z) /\
    (forall r j, cH c <= j -> gslot g r j = 0%Z).
  Proof.
    intros (a1 & HI). split; [exact (i_slot _ _ _ _ HI)|]. split; [exact (i_zero_unowned _ _ _ _ HI)|].
    split; [exact (i_zero_unlisted _ _ _ _ HI)|exact (i_zero_hi _ _ _ _ HI)].
  Qed.

  (** ** quiet steps *)
  Lemma rs_qact {R} t (f : action) (k : V -> prog R) l Q :
    (forall g e, In e (snd (f g)) -> q3 e = true) -> v3_cp l = CNone ->
    (forall v, rs t (k v) l Q) -> rs t (Act f k) l Q.
  Proof.
    intros Hq Hcp Hk. unfold rs. cbn [rsafe]. intros g a tr HI Hv _ _. unfold view3 in Hv.
    exists a. split; [apply (inv3_quiet c g); [exact HI|apply Hq|now rewrite Hv]|].
    split; [apply frame3_refl|]. unfold view3. rewrite Hv. apply Hk.
  Qed.
  Lemma rs_qemit {R} t es (k : prog R) l Q :
    (forall e, In e es -> q3 e = true) -> v3_cp l = CNone -> rs t k l Q -> rs t (Emit es k) l Q.
  Proof.
    intros Hq Hcp Hk. unfold rs. cbn [rsafe]. intros g a tr HI Hv _ _. unfold view3 in Hv.
    exists a. split; [apply (inv3_quiet c g); [exact HI|apply Hq|now rewrite Hv]|].
    split; [apply frame3_refl|]. unfold view3. rewrite Hv. apply Hk.
  Qed.

  Ltac qa :=
    let g := fresh "g" in let e := fresh "e" in let He := fresh "He" in
    intros g e He; unfold a_cas_owner, a_cas_head in He; cbn in He;
    repeat match type of He with context [if ?b then _ else _] => destruct b; cbn in He end;
    repeat (destruct He as [He|He]; [subst e; reflexivity|]); contradiction.
  Ltac qe :=
    let e := fresh "e" in let He := fresh "He" in
    intros e He; cbn in He; repeat (destruct He as [He|He]; [subst e; reflexivity|]); contradiction.
  Ltac qact := apply rs_qact; [qa|reflexivity|].
  Ltac qemit := apply rs_qemit; [qe|reflexivity|].

  (** ** the scans *)
  Definition SV3 (arr : option (list Z)) (acc : list Z) (td : option (list nat)) (cur : option (nat * nat)) : view3T :=
    mkV3 (Some (mkS2 acc td cur)) CNone arr.
  Definition cl (st : scan2) (n r : nat) (p : Z) (f : nat -> nat) : Prop :=
    In p (s_coll st) \/
    match s_todo st with
    | None => True
    | Some td => In r td \/ exists k, s_cur st = Some (r, k) /\ k <= f n
    end.
  Definition cur_done (cur : option (nat * nat)) : Prop := cur = None \/ exists r, cur = Some (r, cH c).

  Lemma scan_step g g' a tr t es st st' arr arr' :
    Inv3 c g a tr -> a t = mkV3 (Some st) CNone arr -> (forall e, In e es -> q3 e = true) ->
    (forall l, arr' = Some l -> arr = Some l \/ arr_ok tr l) ->
    (forall s r p f, last_sb tr t = Some s -> s < List.length tr -> p <> 0%Z ->
       chain_w (tr ++ Conc.tag t es) s r p f -> chain_w tr s r p f -> cl st (List.length tr) r p f ->
       cl st' (List.length (tr ++ Conc.tag t es)) r p f) ->
    Inv3 c g' (upd3 a t (mkV3 (Some st') CNone arr')) (tr ++ Conc.tag t es).
  Proof.
    intros HI Hv Hq Harr Hstep. apply (inv3_upd c g); [exact HI|intros e He; apply q3_q2; now apply Hq| |exact I|].
    - cbn [v3_scan]. intros st0 E. inversion E; subst st0.
      destruct (k_scan _ _ _ _ HI t st) as (s & Hs & Hc); [now rewrite Hv|].
      exists s. split; [rewrite last_sb_nosb; [exact Hs|intros e He; apply q3_nosb; now apply Hq]|].
      intros r p f Hp Hch. pose proof (chain_w_prefix _ _ _ _ _ _ Hch) as Hch0.
      apply (Hstep s r p f Hs (last_sb_lt _ _ _ Hs) Hp Hch Hch0). apply Hc; assumption.
    - cbn [v3_arr]. intros l E. apply arr_ok_ext. destruct (Harr l E) as [E'|H]; [|exact H].
      apply (k_arr _ _ _ _ HI t). now rewrite Hv.
  Qed.

  Lemma chain_mono_len (tr : trace) es s r p f :
    chain_w (tr ++ es) s r p f -> s <= List.length tr -> f (List.length tr) <= f (List.length (tr ++ es)).
  Proof. intros (_ & Hm) Hs. apply Hm; rewrite ?app_length; lia. Qed.

  Lemma rs_slots_loop t arr r' l' n : forall k acc (Q : list Z -> view3T -> Prop),
    (forall acc', Q acc' (SV3 arr acc' (Some l') (Some (r', k + n)))) ->
    rs t (slots_loop r' (seq k n) acc) (SV3 arr acc (Some l') (Some (r', k))) Q.
  Proof.
    induction n as [|n IH]; intros k acc Q HQ; cbn [seq slots_loop].
    - unfold rs. cbn [rsafe]. specialize (HQ acc). now rewrite Nat.add_0_r in HQ.
    - unfold rs. cbn [rsafe]. intros g a tr HI Hv Hb _. unfold view3 in Hv. cbn [a_ld_slot fst snd vZ].
      destruct (II_facts g tr Hb) as (Fs & _ & _ & _).
      set (v := gslot g r' k). set (acc' := if (v =? 0)%Z then acc else acc ++ [v]).
      exists (upd3 a t (SV3 arr acc' (Some l') (Some (r', S k)))). split; [|split; [apply frame_upd3|]].
      + apply (scan_step g g a tr t _ (mkS2 acc (Some l') (Some (r', k))) _ arr);
          [exact HI|exact Hv|intros e [<-|[]]; reflexivity|intros l E; now left|].
        intros s r p f Hs Hlt Hp Hch Hch0 Hc. unfold cl in *. cbn [s_coll s_todo s_cur] in *.
        assert (Hacc : In p acc -> In p acc') by (intros Hin; unfold acc'; destruct (v =? 0)%Z; [exact Hin|apply in_or_app; now left]).
        destruct Hc as [Hc|[Hc|(k0 & E & Hle)]]; [left; auto|right; now left|].
        inversion E; subst r k0.
        destruct (Nat.eq_dec (f (List.length tr)) k) as [Ek|Nk].
        * left. pose proof (chain_w_now _ _ _ _ _ Hch0 ltac:(lia)) as Hnow. rewrite Ek, Fs in Hnow. fold v in Hnow.
          unfold acc'. rewrite Hnow. destruct (Z.eqb_spec p 0); [congruence|]. apply in_or_app. right. now left.
        * right. right. exists (S k). split; [reflexivity|].
          pose proof (chain_mono_len _ _ _ _ _ _ Hch ltac:(lia)). lia.
      + unfold view3. rewrite upd3_same. fold v. fold acc'. apply IH. intros acc2. specialize (HQ acc2).
        now rewrite Nat.add_succ_r in HQ.
  Qed.

  Lemma rs_recs_loop t arr : forall l acc cur (Q : list Z -> view3T -> Prop),
    cur_done cur ->
    (forall acc' cur', cur_done cur' -> Q acc' (SV3 arr acc' (Some []) cur')) ->
    rs t (recs_loop c l acc) (SV3 arr acc (Some l) cur) Q.
  Proof.
    induction l as [|r' l' IH]; intros acc cur Q Hcd HQ; cbn [recs_loop].
    - unfold rs. cbn [rsafe]. now apply HQ.
    - unfold rs. cbn [rsafe]. intros g a tr HI Hv Hb _. unfold view3 in Hv. cbn [a_ld_owner fst snd vB].
      destruct (II_facts g tr Hb) as (Fs & Fo & _ & Fh).
      assert (Hcommon : forall s r p f, s < List.length tr -> p <> 0%Z -> chain_w tr s r p f ->
                cl (mkS2 acc (Some (r' :: l')) cur) (List.length tr) r p f ->
                In p acc \/ r = r' \/ In r l').
      { intros s r p f Hlt Hp Hch0 Hc. unfold cl in Hc. cbn [s_coll s_todo s_cur] in Hc.
        destruct Hc as [Hc|[[Hc|Hc]|(k0 & E & Hle)]]; [now left|right; left; congruence|right; now right|].
        exfalso. destruct Hcd as [->|(r0 & ->)]; [discriminate|]. inversion E; subst r0 k0.
        pose proof (chain_w_now _ _ _ _ _ Hch0 ltac:(lia)) as Hnow. rewrite Fs, Fh in Hnow by exact Hle. congruence. }
      destruct (r_owner (get_rec g r')) eqn:Eo.
      + exists (upd3 a t (SV3 arr acc (Some l') (Some (r', 0)))). split; [|split; [apply frame_upd3|]].
        * apply (scan_step g g a tr t _ (mkS2 acc (Some (r' :: l')) cur) _ arr);
            [exact HI|exact Hv|intros e [<-|[]]; reflexivity|intros l E; now left|].
          intros s r p f Hs Hlt Hp Hch Hch0 Hc. destruct (Hcommon s r p f Hlt Hp Hch0 Hc) as [H|[H|H]]; unfold cl; cbn [s_coll s_todo s_cur].
          -- now left.
          -- right. right. exists 0. split; [now rewrite H|lia].
          -- right. now left.
        * unfold view3. rewrite upd3_same. apply rs_bind. apply (rs_slots_loop t arr r' l' (cH c) 0 acc).
          intros acc'. cbn [Nat.add]. apply IH; [right; eauto|exact HQ].
      + exists (upd3 a t (SV3 arr acc (Some l') None)). split; [|split; [apply frame_upd3|]].
        * apply (scan_step g g a tr t _ (mkS2 acc (Some (r' :: l')) cur) _ arr);
            [exact HI|exact Hv|intros e [<-|[]]; reflexivity|intros l E; now left|].
          intros s r p f Hs Hlt Hp Hch Hch0 Hc. destruct (Hcommon s r p f Hlt Hp Hch0 Hc) as [H|[H|H]]; unfold cl; cbn [s_coll s_todo s_cur].
          -- now left.
          -- exfalso. subst r. pose proof (chain_w_now _ _ _ _ _ Hch0 ltac:(lia)) as Hnow.
             rewrite Fs, (Fo r' _ Eo) in Hnow. congruence.
          -- right. now left.
        * unfold view3. rewrite upd3_same. apply IH; [now left|exact HQ].
  Qed.

  (** stage 1 of both scans: thread_list_.load() and the walk *)
  Lemma rs_stage1 {A} t arr (K : list Z -> prog A) (Q : A -> view3T -> Prop) :
    (forall hs cur, cur_done cur -> rs t (K hs) (SV3 arr hs (Some []) cur) Q) ->
    rs t (Act a_ld_head (fun v => Conc.bind (recs_loop c (vR v) []) K)) (SV3 arr [] None None) Q.
  Proof.
    intros HK. unfold rs. cbn [rsafe]. intros g a tr HI Hv Hb _. unfold view3 in Hv.
    cbn [a_ld_head fst snd vR]. destruct (II_facts g tr Hb) as (Fs & _ & Fl & _).
    exists (upd3 a t (SV3 arr [] (Some (g_list g)) None)). split; [|split; [apply frame_upd3|]].
    { apply (scan_step g g a tr t _ (mkS2 [] None None) _ arr); [exact HI|exact Hv|intros e [<-|[]]; reflexivity|intros l E; now left|].
      intros s r0 p f Hs Hlt Hp Hch Hch0 _. unfold cl. cbn [s_coll s_todo s_cur]. right. left.
      destruct (in_dec Nat.eq_dec r0 (g_list g)) as [Hin|Hnin]; [exact Hin|exfalso].
      pose proof (chain_w_now _ _ _ _ _ Hch0 ltac:(lia)) as Hnow. rewrite Fs, (Fl r0 _ Hnin) in Hnow. congruence. }
    unfold view3. rewrite upd3_same. apply rs_bind. apply rs_recs_loop; [now left|].
    intros hs cur Hcd. apply HK. exact Hcd.
  Qed.

  Lemma firstn_app_exact {A} (l l' : list A) k : firstn (List.length l + k) (l ++ l') = l ++ firstn k l'.
  Proof. apply firstn_app_2. Qed.

  Lemma last_sb_dispose_prefix (tr : trace) t l k :
    last_sb (tr ++ firstn k (Conc.tag t (map ev_dispose l))) t = last_sb tr t.
  Proof.
    unfold Conc.tag. rewrite !firstn_map. fold (Conc.tag t (map ev_dispose (firstn k l))).
    apply last_sb_nosb. intros e He. apply in_map_iff in He. destruct He as (x & <- & _). reflexivity.
  Qed.

  (** stage 2 of both scans: the disposer calls and the store of current_.  [Hfr]: what is freed was not collected --
      for the in-place scan given that the array loaded has no duplicate, which [k_arr] and retire-once give *)
  Lemma rs_stage2 t r arr hs cur freed kept (Q : list Z -> view3T -> Prop) :
    cur_done cur ->
    (forall tr1, (forall l, arr = Some l -> arr_ok tr1 l) ->
       forall p, In p freed -> (cInplace c = true -> retire_once tr1) -> ~ In p hs) ->
    (forall st arr', Q kept (mkV3 (Some st) CNone arr')) ->
    rs t (Emit (map ev_dispose freed) (Act (a_st_cur r kept) (fun _ => Ret kept))) (SV3 arr hs (Some []) cur) Q.
  Proof.
    intros Hcd Hfr HQ. unfold rs. cbn [rsafe]. intros g1 a1 tr1 HI1 Hv1 Hb1 _. unfold view3 in Hv1.
    destruct (II_facts g1 tr1 Hb1) as (Fs1 & _ & _ & Fh1).
    exists (upd3 a1 t (a1 t)). split; [|split; [apply frame_upd3|]].
    - destruct (k_scan _ _ _ _ HI1 t (mkS2 hs (Some []) cur)) as (s & Hs & Hc); [now rewrite Hv1|].
      assert (Hnosb : forall e, In e (map ev_dispose freed) -> is_cli_named "g_scan_begin" e = false).
      { intros e He. apply in_map_iff in He. destruct He as (x & <- & _). reflexivity. }
      apply (inv3_upd_gen c g1); [exact HI1| | | | |].
      + intros st Hst. apply scan_ok_nosb; [exact Hnosb|]. now apply (k_scan _ _ _ _ HI1).
      + rewrite Hv1. exact I.
      + intros l Hl. apply arr_ok_ext. now apply (k_arr _ _ _ _ HI1 t).
      + intros k p Hk s' Hs' Hro Hp r0 (f & Hch).
        assert (Hin : In p freed).
        { apply nth_error_In in Hk. apply in_map_iff in Hk. destruct Hk as (x & E & Hx). inversion E; subst x. exact Hx. }
        rewrite firstn_app_exact in Hs', Hro.
        assert (Es : s' = s) by (rewrite last_sb_dispose_prefix in Hs'; congruence).
        subst s'. replace (S (List.length tr1 + k)) with (List.length tr1 + S k) in Hch by lia. rewrite firstn_app_exact in Hch.
        pose proof (chain_w_prefix _ _ _ _ _ _ Hch) as Hch0. pose proof (last_sb_lt _ _ _ Hs) as Hlt.
        destruct (Hc r0 p f Hp Hch0) as [Hc1|Hc1]; cbn [s_coll s_todo s_cur] in Hc1.
        * apply (Hfr tr1) with (p := p); [|exact Hin| |exact Hc1].
          -- intros l E. apply (k_arr _ _ _ _ HI1 t). now rewrite Hv1.
          -- intros Hip. eapply retire_once_prefix. exact (Hro Hip).
        * destruct Hc1 as [[]|(k0 & E & Hle)]. destruct Hcd as [->|(r1 & ->)]; [discriminate|]. inversion E; subst r1 k0.
          pose proof (chain_w_now _ _ _ _ _ Hch0 ltac:(lia)) as Hnow. rewrite Fs1, Fh1 in Hnow by exact Hle. congruence.
      + intros k Hk. exfalso. apply nth_error_In in Hk. apply in_map_iff in Hk. destruct Hk as (x & E & _). discriminate.
    - unfold view3. rewrite upd3_same, Hv1.
      change (rs t (Act (a_st_cur r kept) (fun _ => Ret kept)) (SV3 arr hs (Some []) cur) Q).
      qact. intros _. unfold rs. cbn [rsafe]. apply HQ.
  Qed.

  Lemma rs_classic_scan t r arr (Q : list Z -> view3T -> Prop) :
    (forall kept st arr', Q kept (mkV3 (Some st) CNone arr')) -> rs t (classic_scan c r) (SV3 arr [] None None) Q.
  Proof.
    intros HQ. unfold classic_scan. apply rs_stage1. intros plist cur Hcd. qact. intros v2. cbv zeta.
    apply rs_stage2; [exact Hcd| |intros; apply HQ].
    intros tr1 _ p Hp _. now apply classic_freed_notin in Hp.
  Qed.

  (** inplace_scan, entered with the knowledge of the view [l1] of [HpInv.Inv]: the thread is attached to [r] and
      holds no claim on it ([safe_inplace_scan]), or holds the claim of the push that filled the array
      ([safe_inplace_scan_held]) *)
  Definition scan_entry (l1 : lview) (r : nat) : Prop :=
    (v_rec l1 = Some r /\ no_claim_on l1 r) \/ (exists l rest, v_cl l1 = ClAct r l l :: rest).

  Lemma rs1_inplace_scan t r l1 (Q : list Z -> view3T -> Prop) :
    cInplace c = true -> scan_entry l1 r ->
    (forall kept st arr', Q kept (mkV3 (Some st) CNone arr')) ->
    rs1 t l1 (inplace_scan c r) (SV3 None [] None None) Q.
  Proof.
    intros Hip Hent HQ. unfold inplace_scan, rs1. cbn [rsafe1]. intros g a tr HI Hv (a1 & HI1 & Hv1) _. unfold view3 in Hv.
    cbn [a_ld_cur fst snd vL]. set (l := r_ret (get_rec g r)).
    assert (Harr : arr_ok tr l).
    { destruct Hent as [(Hrec & Hno)|(l' & rest & Hcl)].
      - apply (arr_bound_fresh c g a1 tr t r HI1); rewrite Hv1; assumption.
      - destruct (arr_bound_held c g a1 tr t r l' HI1) as (E & H); [rewrite Hv1, Hcl; now left|]. unfold l. now rewrite E. }
    exists (upd3 a t (SV3 (Some l) [] None None)). split; [|split; [apply frame_upd3|]].
    { apply (scan_step g g a tr t _ (mkS2 [] None None) _ None); [exact HI|exact Hv|intros e [<-|[]]; reflexivity| |].
      - intros l0 E. inversion E; subst l0. now right.
      - intros s r0 p f _ _ _ _ _ Hc. unfold cl in *. cbn [s_coll s_todo s_cur] in *. exact Hc. }
    unfold view3. rewrite upd3_same. clearbody l. clear Harr g a tr HI Hv a1 HI1 Hv1.
    destruct l as [|x0 l0]; [unfold rs; cbn [rsafe]; apply HQ|]. set (l := x0 :: l0) in *.
    destruct (existsb Z.odd l).
    - apply rs_classic_scan. exact HQ.
    - apply rs_stage1. intros hs cur Hcd. cbv zeta.
      apply rs_stage2; [exact Hcd| |intros; apply HQ].
      intros tr1 Ha p Hp Hro. apply (inplace_freed_notin hs l p); [|exact Hp].
      apply count_le1_NoDup. intros q. pose proof (Ha l eq_refl q) as H1. pose proof (Hro Hip q) as H2. lia.
  Qed.
End Safe3.
