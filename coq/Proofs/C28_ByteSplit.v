(** * C28_ByteSplit — the GENERATED cds::algo::split_bitstring<T,N,unsigned> and byte_splitter<T,N,unsigned>
    functions (Gen_feldman) meet [splitter_spec] on an N-byte hash object (1 <= N <= 8) for every count up to 32
    (= sizeof(UInt)*8, the documented maximum of one cut); [is_correct] accepts more (see the _refuted lemmas). *)
Require Import ZArith Lia List Bool.
Require Import LV.Base.CInt LV.Model.FeldmanPath LV.Proofs.C28_Digits LV.Proofs.C28_Path LV.Proofs.C28_NumSplit.
Import ListNotations.
Local Open Scope Z_scope.

Module G := LV.Gen.Gen_feldman.

(** little-endian value of the hash object *)
Fixpoint le_val (mem : list Z) : Z :=
  match mem with
  | [] => 0
  | b :: r => b + 256 * le_val r
  end.

Definition is_byte (b : Z) : Prop := 0 <= b < 256.
Definition valid_bytes (N : Z) (mem : list Z) : Prop := Z.of_nat (length mem) = N /\ Forall is_byte mem.

Lemma le_val_range mem : Forall is_byte mem -> 0 <= le_val mem < 2 ^ (8 * Z.of_nat (length mem)).
Proof.
  induction 1 as [|b r Hb Hr IH]; [simpl; lia|].
  cbn [le_val length]. rewrite Nat2Z.inj_succ.
  replace (8 * Z.succ (Z.of_nat (length r))) with (8 + 8 * Z.of_nat (length r)) by lia.
  rewrite Z.pow_add_r by lia. change (2 ^ 8) with 256. unfold is_byte in Hb. nia.
Qed.

Lemma le_val_inj m1 m2 : length m1 = length m2 -> Forall is_byte m1 -> Forall is_byte m2 ->
  le_val m1 = le_val m2 -> m1 = m2.
Proof.
  revert m2. induction m1 as [|a m1 IH]; intros [|b m2] Hl H1 H2 E; simpl in Hl; try discriminate; [reflexivity|].
  inversion H1 as [|? ? Ha H1']; subst. inversion H2 as [|? ? Hb H2']; subst.
  cbn [le_val] in E. unfold is_byte in *.
  assert (a = b) by lia. subst. f_equal. apply IH; auto. lia.
Qed.

Lemma bytes_eqb_eq a b : bytes_eqb a b = true <-> a = b.
Proof.
  revert b. induction a as [|x a IH]; intros [|y b]; simpl; split; intros E; try discriminate; try reflexivity.
  - apply andb_true_iff in E as [E1 E2]. apply Z.eqb_eq in E1. apply IH in E2. congruence.
  - injection E as -> ->. rewrite Z.eqb_refl. simpl. now apply IH.
Qed.

(** bits of byte [cur] are bits of the value *)
Lemma le_val_slice mem : Forall is_byte mem -> forall cur b off bits,
  c_index mem cur = Some b -> 0 <= off -> 0 <= bits -> off + bits <= 8 ->
  slice (le_val mem) (8 * cur + off) bits = slice b off bits.
Proof.
  induction 1 as [|b0 r Hb Hr IH]; intros cur b off bits Hi Hoff Hbits Hle.
  - unfold c_index in Hi. destruct (cur <? 0); [discriminate|]. now destruct (Z.to_nat cur).
  - pose proof Hi as Hi0. apply c_index_inv in Hi0. unfold c_index in Hi.
    replace (cur <? 0) with false in Hi by (symmetry; apply Z.ltb_ge; lia).
    cbn [le_val]. unfold is_byte in Hb.
    destruct (Z.eq_dec cur 0) as [->|Hne].
    + simpl in Hi. injection Hi as ->. simpl (8 * 0 + off).
      rewrite <- (slice_mod 8 (b + 256 * le_val r)) by lia.
      f_equal. change (2 ^ 8) with 256. replace (b + 256 * le_val r) with (b + le_val r * 256) by lia.
      rewrite Z.mod_add by lia. apply Z.mod_small. lia.
    + replace (Z.to_nat cur) with (Datatypes.S (Z.to_nat (cur - 1))) in Hi by lia. simpl in Hi.
      rewrite <- (IH (cur - 1) b off bits); try assumption.
      * unfold slice. f_equal.
        replace (8 * cur + off) with (8 + (8 * (cur - 1) + off)) by lia.
        rewrite Z.pow_add_r by lia. rewrite <- Z.div_div by (try apply pow2_pos'; lia). f_equal.
        change (2 ^ 8) with 256. replace (b0 + 256 * le_val r) with (b0 + le_val r * 256) by lia.
        rewrite Z.div_add by lia. rewrite Z.div_small by lia. lia.
      * unfold c_index. replace (cur - 1 <? 0) with false by (symmetry; apply Z.ltb_ge; lia). exact Hi.
Qed.

Lemma byte_slice_full b : is_byte b -> slice b 0 8 = b.
Proof. intros. apply slice_full. exact H. Qed.

Lemma c_index_some_byte N mem cur : valid_bytes N mem -> 0 <= cur < N ->
  exists b, c_index mem cur = Some b /\ is_byte b.
Proof.
  intros [Hl Hb] Hc. destruct (c_index_some mem cur ltac:(lia)) as (b & E). exists b. split; [exact E|].
  unfold c_index in E. destruct (cur <? 0); [discriminate|]. apply nth_error_In in E.
  rewrite Forall_forall in Hb. auto.
Qed.

Lemma usub_u32_small a b : 0 <= b <= a -> a < 2 ^ 32 -> usub u32 a b = a - b.
Proof. intros. unfold usub. simpl ibits. apply Z.mod_small. lia. Qed.

Lemma uadd_u32_small a b : 0 <= a -> 0 <= b -> a + b < 2 ^ 32 -> uadd u32 a b = a + b.
Proof. intros. unfold uadd. simpl ibits. apply Z.mod_small. lia. Qed.

Lemma p32 : 2 ^ 32 = 4294967296. Proof. reflexivity. Qed.

(** ** split_bitstring::cut *)

Lemma sb_loop_spec mem N count : valid_bytes N mem -> 0 < count <= 32 ->
  forall (k : nat) fuel cur offset result done,
    (k < fuel)%nat -> 0 <= cur -> 0 <= offset < 8 -> 0 <= done <= count -> count - done <= Z.of_nat k ->
    8 * cur + offset + (count - done) <= 8 * N -> done <= 8 * cur + offset ->
    result = slice (le_val mem) (8 * cur + offset - done) done ->
    exists cur' offset',
      G.sb_cut_loop1 fuel mem count cur offset result done
        = Some (cur', offset', slice (le_val mem) (8 * cur + offset - done) count, count)
      /\ 0 <= cur' /\ 0 <= offset' < 8 /\ 8 * cur' + offset' = 8 * cur + offset - done + count.
Proof.
  intros Hvb Hcount. pose proof Hvb as [Hlen Hbytes].
  induction k as [|k IH]; intros fuel cur offset result done Hk Hcur Hoff Hdone Hrem Hfit Hp0 Hres;
    (destruct fuel as [|fuel]; [lia|]); cbn [G.sb_cut_loop1]; unfold c_lt.
  - (* no bits remain *)
    assert (done = count) by lia. subst done.
    replace (count <? count) with false by (symmetry; apply Z.ltb_irrefl).
    exists cur, offset. rewrite Hres. repeat split; try lia.
  - destruct (done <? count) eqn:Elt.
    2:{ apply Z.ltb_ge in Elt. assert (done = count) by lia. subst done.
        exists cur, offset. rewrite Hres. repeat split; try lia. }
    apply Z.ltb_lt in Elt.
    rewrite (usub_u32_small count done) by (rewrite ?p32; lia).
    rewrite (usub_u32_small 8 offset) by (rewrite ?p32; lia).
    set (bits := Z.min (count - done) (8 - offset)).
    assert (Ebits : (if c_gt (count - done) (8 - offset) then Some (8 - offset) else Some (count - done)) = Some bits).
    { unfold c_gt, bits. destruct (8 - offset <? count - done) eqn:E;
        [apply Z.ltb_lt in E | apply Z.ltb_ge in E]; f_equal; lia. }
    rewrite Ebits. cbn [obind].
    assert (Hb1 : 1 <= bits <= 8) by (unfold bits; lia).
    assert (Hcn : 0 <= cur < N) by lia.
    destruct (c_index_some_byte N mem cur Hvb Hcn) as (b & Eb & Hb).
    unfold load. rewrite Eb. cbn [obind].
    rewrite c_shr_ok by (apply shift_ok_spec; simpl; lia). cbn [obind].
    rewrite shl_i32_one by lia. cbn [obind]. rewrite ssub_i32_pow by lia. cbn [obind].
    unfold c_and. rewrite land_mask, shr_slice by lia.
    pose proof (slice_range b offset bits ltac:(lia)) as Hpr.
    assert (Hp8 : 2 ^ bits <= 2 ^ 8) by (apply pow2_le; lia). change (2 ^ 8) with 256 in Hp8.
    rewrite (cast_unsigned u32) by reflexivity. simpl ibits.
    rewrite (Z.mod_small (slice b offset bits)) by (rewrite p32; lia).
    (* the piece shifted into place *)
    assert (Hsh : Z.shiftl (slice b offset bits) done < 2 ^ 32).
    { rewrite Z.shiftl_mul_pow2 by lia.
      apply Z.lt_le_trans with (2 ^ bits * 2 ^ done); [apply Z.mul_lt_mono_pos_r; [apply pow2_pos'|]; lia|].
      rewrite <- Z.pow_add_r by lia. apply pow2_le. unfold bits. lia. }
    rewrite c_shl_u_ok by (try reflexivity; apply shift_ok_spec; simpl; lia). simpl ibits. cbn [obind].
    rewrite (Z.mod_small (Z.shiftl _ _)) by (split; [apply Z.shiftl_nonneg|]; lia).
    unfold c_or.
    set (p0 := 8 * cur + offset - done) in *.
    assert (Hpiece : slice b offset bits = slice (le_val mem) (p0 + done) bits).
    { replace (p0 + done) with (8 * cur + offset) by (unfold p0; lia).
      symmetry. apply le_val_slice; auto; lia. }
    assert (Hres' : Z.lor result (Z.shiftl (slice b offset bits) done) = slice (le_val mem) p0 (done + bits)).
    { rewrite lor_shiftl_add; [| lia | rewrite Hres; apply slice_range; lia | lia].
      rewrite Hres, Hpiece. symmetry. apply slice_app; lia. }
    rewrite Hres'.
    rewrite (uadd_u32_small offset bits) by (rewrite ?p32; lia).
    rewrite (uadd_u32_small done bits) by (rewrite ?p32; lia).
    assert (Hbd : bits = Z.min (count - done) (8 - offset)) by reflexivity.
    assert (Hp0d : p0 = 8 * cur + offset - done) by reflexivity. clearbody bits p0.
    unfold c_eq. destruct (offset + bits =? 8) eqn:E8.
    + apply Z.eqb_eq in E8. unfold ptr_add.
      replace ((0 <=? cur + 1) && (cur + 1 <=? Z.of_nat (length mem))) with true
        by (symmetry; apply andb_true_iff; split; apply Z.leb_le; lia).
      cbn [obind].
      destruct (IH fuel (cur + 1) 0 (slice (le_val mem) p0 (done + bits)) (done + bits))
        as (cur' & offset' & Hloop & Hc' & Ho' & Hpos'); try lia; [f_equal; lia|].
      exists cur', offset'. replace (8 * (cur + 1) + 0 - (done + bits)) with p0 in Hloop, Hpos' by lia.
      rewrite Hloop. repeat split; lia.
    + apply Z.eqb_neq in E8. cbn [obind].
      destruct (IH fuel cur (offset + bits) (slice (le_val mem) p0 (done + bits)) (done + bits))
        as (cur' & offset' & Hloop & Hc' & Ho' & Hpos'); try lia; [f_equal; lia|].
      exists cur', offset'. replace (8 * cur + (offset + bits) - (done + bits)) with p0 in Hloop, Hpos' by lia.
      rewrite Hloop. repeat split; lia.
Qed.

Definition sb_inv (N : Z) (s : G.sb) : Prop :=
  G.sb_first_ s = 0 /\ G.sb_last_ s = N /\ 0 <= G.sb_cur_ s /\ 0 <= G.sb_offset_ s < 8 /\
  8 * G.sb_cur_ s + G.sb_offset_ s <= 8 * N.
Definition sb_pos (s : G.sb) : Z := 8 * G.sb_cur_ s + G.sb_offset_ s.

Lemma sb_cut_spec fuel mem N s c : (32 < fuel)%nat -> valid_bytes N mem -> sb_inv N s -> 0 < c <= 32 ->
  sb_pos s + c <= 8 * N ->
  exists s', G.sb_cut fuel mem s c = Some (slice (le_val mem) (sb_pos s) c, s') /\ sb_inv N s' /\
             sb_pos s' = sb_pos s + c.
Proof.
  intros Hf Hvb (Hfirst & Hlast & Hcur & Hoff & Hfit) Hc Hsc. unfold sb_pos in *.
  destruct s as [cur offset first last]. cbn [G.sb_cur_ G.sb_offset_ G.sb_first_ G.sb_last_] in *. subst first last.
  unfold G.sb_cut. cbn [G.sb_cur_ G.sb_offset_ G.sb_first_ G.sb_last_].
  destruct (sb_loop_spec mem N c Hvb Hc (Z.to_nat c) fuel cur offset 0 0) as (cur' & offset' & Hloop & Hc' & Ho' & Hpos');
    try lia.
  { now rewrite slice_zero_width. }
  rewrite Hloop. cbn [obind]. rewrite Z.sub_0_r in *.
  eexists. split; [reflexivity|]. unfold sb_inv. cbn [G.sb_cur_ G.sb_offset_ G.sb_first_ G.sb_last_].
  repeat split; lia.
Qed.

Lemma sb_spec fuel N : (32 < fuel)%nat -> 1 <= N <= 8 ->
  splitter_spec (sb_splitter fuel N) (8 * N) (valid_bytes N) le_val
    (fun c => G.sb_is_correct c = Some true /\ c <= 32) (fun _ => sb_inv N) sb_pos.
Proof.
  intros Hf HN. constructor.
  - reflexivity.
  - intros h [Hl Hb]. rewrite <- Hl. now apply le_val_range.
  - intros h1 h2 [Hl1 Hb1] [Hl2 Hb2] E. apply le_val_inj; auto. lia.
  - intros h1 h2 _ _. apply bytes_eqb_eq.
  - intros c [Hc _]. exact Hc.
  - intros h Hv. unfold sb_inv, sb_pos. cbn [sp_init sb_splitter G.sb_cur_ G.sb_offset_ G.sb_first_ G.sb_last_].
    repeat split; lia.
  - intros h s Hv (Hfirst & Hlast & Hcur & Hoff & Hfit) Hlt. unfold sb_pos in *.
    cbn [sp_init_at sb_splitter]. unfold sb_inv. cbn [G.sb_cur_ G.sb_offset_ G.sb_first_ G.sb_last_].
    set (p := 8 * G.sb_cur_ s + G.sb_offset_ s) in *.
    pose proof (Z.div_mod p 8 ltac:(lia)). pose proof (Z.mod_pos_bound p 8 ltac:(lia)).
    assert (0 <= p / 8) by (apply Z.div_pos; lia).
    repeat split; lia.
  - intros h s (Hfirst & Hlast & Hcur & Hoff & Hfit). unfold sb_pos. lia.
  - intros h s Hv (Hfirst & Hlast & Hcur & Hoff & Hfit). unfold sb_pos.
    cbn [sp_eos sb_splitter]. unfold G.sb_eos, c_ge. rewrite Hlast. f_equal.
    destruct (N <=? G.sb_cur_ s) eqn:E; [apply Z.leb_le in E | apply Z.leb_gt in E]; symmetry;
      [apply Z.leb_le | apply Z.leb_gt]; lia.
  - intros h s Hv (Hfirst & Hlast & Hcur & Hoff & Hfit). unfold sb_pos.
    cbn [sp_bit_offset sb_splitter]. unfold G.sb_bit_offset. rewrite Hfirst.
    unfold ssub, smul, sadd. rewrite Z.sub_0_r.
    rewrite !checked_some by (unfold in_range, imin, imax; simpl; lia). cbn [obind].
    rewrite !checked_some by (unfold in_range, imin, imax; simpl; lia). cbn [obind].
    rewrite !checked_some by (unfold in_range, imin, imax; simpl; lia). cbn [obind].
    rewrite (cast_unsigned u64) by reflexivity. simpl ibits. rewrite Z.mod_small by (change (2 ^ 64) with 18446744073709551616; lia).
    f_equal. lia.
  - intros h s c Hv Hinv [_ Hc32] Hc Hsc. cbn [sp_cut sb_splitter].
    apply (sb_cut_spec fuel h N s c Hf Hv Hinv); lia.
Qed.

(** ** byte_splitter::cut *)

Lemma mult8 x : x mod 8 = 0 -> x = 8 * (x / 8).
Proof. intros. pose proof (Z.div_mod x 8 ltac:(lia)). lia. Qed.

Lemma bs_loop_spec mem N count : valid_bytes N mem -> 0 < count <= 32 -> count mod 8 = 0 ->
  forall (k : nat) fuel cur result i,
    (k < fuel)%nat -> 0 <= cur -> 0 <= i <= count -> i mod 8 = 0 -> count - i <= 8 * Z.of_nat k ->
    8 * cur + (count - i) <= 8 * N -> i <= 8 * cur ->
    result = slice (le_val mem) (8 * cur - i) i ->
    exists cur', G.bs_cut_loop1 fuel mem count cur result i
                 = Some (cur', slice (le_val mem) (8 * cur - i) count, count)
                 /\ 8 * cur' = 8 * cur - i + count.
Proof.
  intros Hvb Hcount Hc8. pose proof Hvb as [Hlen Hbytes]. pose proof (mult8 count Hc8) as Hcm.
  induction k as [|k IH]; intros fuel cur result i Hk Hcur Hi Hi8 Hrem Hfit Hp0 Hres;
    (destruct fuel as [|fuel]; [lia|]); cbn [G.bs_cut_loop1]; unfold c_lt.
  - assert (i = count) by lia. subst i.
    replace (count <? count) with false by (symmetry; apply Z.ltb_irrefl).
    exists cur. rewrite Hres. split; [reflexivity | lia].
  - destruct (i <? count) eqn:Elt.
    2:{ apply Z.ltb_ge in Elt. assert (i = count) by lia. subst i.
        exists cur. rewrite Hres. split; [reflexivity | lia]. }
    apply Z.ltb_lt in Elt. pose proof (mult8 i Hi8) as Him.
    assert (Hi8' : i + 8 <= count) by lia.
    assert (Hcn : 0 <= cur < N) by lia.
    destruct (c_index_some_byte N mem cur Hvb Hcn) as (b & Eb & Hb).
    unfold load. rewrite Eb. cbn [obind]. unfold is_byte in Hb.
    assert (Hsh : Z.shiftl b i < 2 ^ 32).
    { rewrite Z.shiftl_mul_pow2 by lia.
      apply Z.lt_le_trans with (2 ^ 8 * 2 ^ i); [apply Z.mul_lt_mono_pos_r; [apply pow2_pos'|]; change (2 ^ 8) with 256; lia|].
      rewrite <- Z.pow_add_r by lia. apply pow2_le. lia. }
    rewrite c_shl_u_ok by (try reflexivity; apply shift_ok_spec; simpl; lia). simpl ibits. cbn [obind].
    rewrite (Z.mod_small (Z.shiftl _ _)) by (split; [apply Z.shiftl_nonneg|]; lia).
    unfold c_or. unfold ptr_add.
    replace ((0 <=? cur + 1) && (cur + 1 <=? Z.of_nat (length mem))) with true
      by (symmetry; apply andb_true_iff; split; apply Z.leb_le; lia).
    cbn [obind].
    rewrite (uadd_u32_small i 8) by (rewrite ?p32; lia).
    set (p0 := 8 * cur - i) in *.
    assert (Hpiece : b = slice (le_val mem) (p0 + i) 8).
    { replace (p0 + i) with (8 * cur + 0) by (unfold p0; lia).
      rewrite (le_val_slice mem Hbytes cur b 0 8 Eb) by lia. symmetry. now apply byte_slice_full. }
    assert (Hres' : Z.lor result (Z.shiftl b i) = slice (le_val mem) p0 (i + 8)).
    { rewrite lor_shiftl_add; [| lia | rewrite Hres; apply slice_range; lia | lia].
      rewrite Hres. rewrite Hpiece at 1. symmetry. apply slice_app; unfold p0; lia. }
    rewrite Hres'.
    assert (Hp0d : p0 = 8 * cur - i) by reflexivity. clearbody p0.
    destruct (IH fuel (cur + 1) (slice (le_val mem) p0 (i + 8)) (i + 8)) as (cur' & Hloop & Hpos'); try lia.
    { replace (i + 8) with (i + 1 * 8) by lia. now rewrite Z.mod_add by lia. }
    { f_equal. lia. }
    exists cur'. replace (8 * (cur + 1) - (i + 8)) with p0 in Hloop, Hpos' by lia.
    rewrite Hloop. split; [reflexivity | lia].
Qed.

Definition bs_inv (N : Z) (s : G.bs) : Prop := G.bs_first_ s = 0 /\ G.bs_last_ s = N /\ 0 <= G.bs_cur_ s <= N.
Definition bs_pos (s : G.bs) : Z := 8 * G.bs_cur_ s.

Lemma bs_is_correct_mod c : 0 <= c -> G.bs_is_correct c = Some true -> c mod 8 = 0.
Proof.
  intros Hc. unfold G.bs_is_correct, c_rem. simpl (8 =? 0).
  destruct (in_rangeb u32 (Z.quot c 8)); [|discriminate]. cbn [obind]. unfold c_eq.
  intros [= E]. apply Z.eqb_eq in E. now rewrite <- Z.rem_mod_nonneg by lia.
Qed.

Lemma bs_cut_spec fuel mem N s c : (32 < fuel)%nat -> valid_bytes N mem -> bs_inv N s -> 0 < c <= 32 ->
  c mod 8 = 0 -> bs_pos s + c <= 8 * N ->
  exists s', G.bs_cut fuel mem s c = Some (slice (le_val mem) (bs_pos s) c, s') /\ bs_inv N s' /\
             bs_pos s' = bs_pos s + c.
Proof.
  intros Hf Hvb (Hfirst & Hlast & Hcur) Hc Hc8 Hsc. unfold bs_pos in *.
  destruct s as [cur first last]. cbn [G.bs_cur_ G.bs_first_ G.bs_last_] in *. subst first last.
  unfold G.bs_cut. cbn [G.bs_cur_ G.bs_first_ G.bs_last_].
  destruct (bs_loop_spec mem N c Hvb Hc Hc8 (Z.to_nat c) fuel cur 0 0) as (cur' & Hloop & Hpos'); try lia.
  { reflexivity. }
  { now rewrite slice_zero_width. }
  rewrite Hloop. cbn [obind]. rewrite Z.sub_0_r in *.
  eexists. split; [reflexivity|]. unfold bs_inv. cbn [G.bs_cur_ G.bs_first_ G.bs_last_].
  repeat split; lia.
Qed.

Lemma bs_spec fuel N : (32 < fuel)%nat -> 1 <= N <= 8 ->
  splitter_spec (bs_splitter fuel N) (8 * N) (valid_bytes N) le_val
    (fun c => G.bs_is_correct c = Some true /\ c <= 32) (fun _ => bs_inv N) bs_pos.
Proof.
  intros Hf HN. constructor.
  - reflexivity.
  - intros h [Hl Hb]. rewrite <- Hl. now apply le_val_range.
  - intros h1 h2 [Hl1 Hb1] [Hl2 Hb2] E. apply le_val_inj; auto. lia.
  - intros h1 h2 _ _. apply bytes_eqb_eq.
  - intros c [Hc _]. exact Hc.
  - intros h Hv. unfold bs_inv, bs_pos. cbn [sp_init bs_splitter G.bs_cur_ G.bs_first_ G.bs_last_].
    repeat split; lia.
  - intros h s Hv (Hfirst & Hlast & Hcur) Hlt. unfold bs_pos in *.
    cbn [sp_init_at bs_splitter]. unfold bs_inv. cbn [G.bs_cur_ G.bs_first_ G.bs_last_].
    rewrite Z.mul_comm, Z.div_mul by lia. repeat split; lia.
  - intros h s (Hfirst & Hlast & Hcur). unfold bs_pos. lia.
  - intros h s Hv (Hfirst & Hlast & Hcur). unfold bs_pos.
    cbn [sp_eos bs_splitter]. unfold G.bs_eos, c_ge. rewrite Hlast. f_equal.
    destruct (N <=? G.bs_cur_ s) eqn:E; [apply Z.leb_le in E | apply Z.leb_gt in E]; symmetry;
      [apply Z.leb_le | apply Z.leb_gt]; lia.
  - intros h s Hv (Hfirst & Hlast & Hcur). unfold bs_pos.
    cbn [sp_bit_offset bs_splitter]. unfold G.bs_bit_offset. rewrite Hfirst.
    unfold ssub, smul. rewrite Z.sub_0_r.
    rewrite !checked_some by (unfold in_range, imin, imax; simpl; lia). cbn [obind].
    rewrite !checked_some by (unfold in_range, imin, imax; simpl; lia). cbn [obind].
    rewrite (cast_unsigned u64) by reflexivity. simpl ibits. rewrite Z.mod_small by (change (2 ^ 64) with 18446744073709551616; lia).
    f_equal. lia.
  - intros h s c Hv Hinv [Hok Hc32] Hc Hsc. cbn [sp_cut bs_splitter].
    apply (bs_cut_spec fuel h N s c Hf Hv Hinv); try lia. apply bs_is_correct_mod; [lia | exact Hok].
Qed.
