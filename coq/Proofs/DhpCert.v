(** * DhpCert: a certificate for every DHP program, per allocator instance [f]: the program is built by
      sequencing from nodes that do not concern [f] ([qG], [qE]) and from a few "special" programs (those that
      call the allocator of [f] or write / follow block pointers of kind [f]).  The invariants of the free-list
      composition (FreeListOpen*: DInv; DhpInvX: JX) and the syntactic condition of the knot are all derived from
      this one certificate. *)
From Coq Require Import ZArith NArith List String Bool Lia PeanoNat.
From LV Require Import Base.Conc Base.Events Model.FreeList Model.DhpLang Model.Dhp Proofs.DhpBase Proofs.DhpHist
  Proofs.DhpLangProofs Proofs.FreeListBase Proofs.FreeListOpenRules Proofs.FreeListOpenDhp Proofs.FreeListOpenDhpRules
  Proofs.FreeListOpenDhpThm Proofs.DhpCertBase Proofs.DhpStepsB9 Proofs.DhpProgB4.
Import ListNotations.

Section Cert.
  Variable f : fl.

  Definition trunc_block (c : cfg) (r : nat) : P unit := xbind (loc (trunc_f c r)) (fun fb => trunc_go c r (c_spin c) fb).

  Inductive Sp : forall {Y}, P Y -> Prop :=
  | Sp_hp_extend c r : f = FHp -> Sp (hp_extend c r)
  | Sp_hp_clear c r det : f = FHp -> qE f det -> Sp (hp_clear c r det)
  | Sp_rt_init c r : f = FRt -> Sp (rt_init c r)
  | Sp_rt_fini c r : f = FRt -> Sp (rt_fini c r)
  | Sp_rt_extend c r : f = FRt -> Sp (rt_extend c r)
  | Sp_trunc c r : f = FRt -> Sp (trunc_block c r).

  (** programs of type [P Y]: the result [None] means "out of fuel" and ends the thread *)
  Inductive PC : forall {Y}, P Y -> Prop :=
  | PC_ret Y (r : option Y) : PC (DRet r)
  | PC_emit Y es (k : P Y) : qE f es -> PC k -> PC (DEmit es k)
  | PC_loc Y X (fn : Dhp.G -> Dhp.G * X) (k : X -> P Y) : (forall g, qG f g (fst (fn g))) -> (forall x, PC (k x)) -> PC (DLoc fn k)
  | PC_act Y X (fa : Dhp.A X) (k : X -> P Y) :
      (forall g, qG f g (fst (fst (fa g))) /\ qE f (snd (fa g))) -> (forall x, PC (k x)) -> PC (DAct fa k)
  | PC_xbind X Y (p : P X) (q : X -> P Y) : PC p -> (forall x, PC (q x)) -> PC (xbind p q)
  | PC_sp Y (p : P Y) : Sp p -> PC p.

  Definition QAc {X} (a : Dhp.A X) : Prop := forall g, qG f g (fst (fst (a g))) /\ qE f (snd (a g)).

  Lemma PC_ret' {X} (x : X) : PC (ret x). Proof. apply PC_ret. Qed.
  Lemma PC_act' {X} (a : Dhp.A X) : QAc a -> PC (act a). Proof. intros H. unfold act. apply PC_act; auto. intros x. apply PC_ret. Qed.
  Lemma PC_loc' {X} (fn : Dhp.G -> Dhp.G * X) : (forall g, qG f g (fst (fn g))) -> PC (loc fn).
  Proof. intros H. unfold loc. apply PC_loc; auto. intros x. apply PC_ret. Qed.
  Lemma PC_emit' es : qE f es -> PC (emit es). Proof. intros H. unfold emit. apply PC_emit; auto. apply PC_ret. Qed.
  Lemma PC_fuel_out {X} : PC (@fuel_out X).
  Proof. unfold fuel_out. apply PC_emit; [|apply PC_ret]. apply qE_cons; [reflexivity|apply qE_nil]. Qed.

  (** ** accesses *)
  Ltac kp := intros []; cbn; repeat split; apply keepo_refl.
  Ltac qs := first [ apply qG_refl | apply qS_qG; first [ apply qS_upd_rec; kp | apply qS_upd_gb; kp | apply qS_upd_rb; kp
                                                        | apply qS_set_tlist | apply qS_set_srcs | apply qS_set_oob | apply qS_refl ] ].

  Lemma qa_begin : QAc a_begin.
  Proof. intros g. cbn. split; [qs|]. apply qE_cons; [reflexivity|apply qE_nil]. Qed.
  Lemma qa_ld_tlist : QAc a_ld_tlist. Proof. intros g. cbn. split; [qs|apply qE_tlist]. Qed.
  Lemma qa_st_tlist v : QAc (a_st_tlist v). Proof. intros g. cbn. split; [qs|apply qE_tlist]. Qed.
  Lemma qa_cas_tlist e n : QAc (a_cas_tlist e n).
  Proof. intros g. unfold a_cas_tlist. destruct (oeqb _ _); cbn; (split; [qs|apply qE_tlist]). Qed.
  Lemma qa_ld_tid r : QAc (a_ld_tid r). Proof. intros g. cbn. split; [qs|apply qE_rec]. Qed.
  Lemma qa_st_tid r v : QAc (a_st_tid r v). Proof. intros g. cbn. split; [qs|apply qE_rec]. Qed.
  Lemma qa_cas_tid r e n : QAc (a_cas_tid r e n).
  Proof. intros g. unfold a_cas_tid. destruct (Nat.eqb _ _); cbn; (split; [qs|apply qE_rec]). Qed.
  Lemma qa_ld_free r : QAc (a_ld_free r). Proof. intros g. cbn. split; [qs|apply qE_rec]. Qed.
  Lemma qa_st_free r v : QAc (a_st_free r v). Proof. intros g. cbn. split; [qs|apply qE_rec]. Qed.
  Lemma qa_faa_sync r : QAc (a_faa_sync r). Proof. intros g. cbn. split; [qs|apply qE_rec]. Qed.
  Lemma qa_ld_ext r : QAc (a_ld_ext r). Proof. intros g. cbn. split; [qs|apply qE_rec]. Qed.
  Lemma qa_st_ext_none r : QAc (a_st_ext r None).
  Proof. intros g. cbn. split; [|apply qE_rec]. apply qS_qG. apply qS_upd_rec. intros []; cbn. split; [now right|apply keepo_refl]. Qed.
  Lemma qa_ld_slot s : QAc (a_ld_slot s). Proof. intros g. cbn. split; [qs|apply qE_slot]. Qed.
  Lemma qS_slot_set g s v : qS g (slot_set g s v).
  Proof. destruct s; cbn; [apply qS_upd_rec|apply qS_upd_gb]; kp. Qed.
  Lemma qS_snext_set g s v : qS g (snext_set g s v).
  Proof. destruct s; cbn; [apply qS_upd_rec|apply qS_upd_gb]; kp. Qed.
  Lemma qa_st_slot s v : QAc (a_st_slot s v).
  Proof.
    intros g. unfold a_st_slot. cbn [fst snd]. split; [apply qS_qG, qS_slot_set|]. apply qE_app; [apply qE_slot|].
    destruct (slot_valid g s); [|apply qE_nil]. apply qE_cons; [|apply qE_nil]. unfold clsf. rewrite classify_slot. destruct s; reflexivity.
  Qed.
  Lemma qa_ld_src k : QAc (a_ld_src k). Proof. intros g. cbn. split; [qs|apply qE_src]. Qed.
  Lemma qa_st_src k v : QAc (a_st_src k v). Proof. intros g. cbn. split; [qs|apply qE_src]. Qed.

  (** the free-list accesses of the other instance *)
  Section Other.
    Variable f0 : fl.
    Hypothesis Hne : f0 <> f.
    Lemma qa_ld_head : QAc (a_ld_head f0). Proof. intros g. cbn. split; [apply qG_refl|now apply qE_head]. Qed.
    Lemma qa_cas_head e n : QAc (a_cas_head f0 e n).
    Proof. intros g. unfold a_cas_head. destruct (oeqb _ _); cbn [fst snd]; (split; [first [now apply qG_fl_head|apply qG_refl]|now apply qE_head]). Qed.
    Lemma qa_ld_refs n : QAc (a_ld_refs f0 n). Proof. intros g. cbn. split; [apply qG_refl|now apply qE_node]. Qed.
    Lemma qa_st_refs n v : QAc (a_st_refs f0 n v). Proof. intros g. cbn [a_st_refs fst snd]. split; [now apply qG_fl_refs|now apply qE_node]. Qed.
    Lemma qa_cas_refs n e v : QAc (a_cas_refs f0 n e v).
    Proof. intros g. unfold a_cas_refs. destruct (N.eqb _ _); cbn [fst snd]; (split; [first [now apply qG_fl_refs|apply qG_refl]|now apply qE_node]). Qed.
    Lemma qa_faa_refs n d : QAc (a_faa_refs f0 n d). Proof. intros g. cbn [a_faa_refs fst snd]. split; [now apply qG_fl_refs|now apply qE_node]. Qed.
    Lemma qa_fas_refs n d : QAc (a_fas_refs f0 n d). Proof. intros g. cbn [a_fas_refs fst snd]. split; [now apply qG_fl_refs|now apply qE_node]. Qed.
    Lemma qa_ld_flnext n : QAc (a_ld_flnext f0 n). Proof. intros g. cbn. split; [apply qG_refl|now apply qE_node]. Qed.
    Lemma qa_st_flnext n v : QAc (a_st_flnext f0 n v). Proof. intros g. cbn [a_st_flnext fst snd]. split; [now apply qG_fl_next|now apply qE_node]. Qed.
  End Other.
End Cert.
