(** * Pop phases of MSPriorityQueue under the PHASE discipline: the hand-over-hand frontier invariant, and its
      hand-over with the push-phase invariant at quiescent points.

    This is LV.Proofs.MsPqPop restated for ANY number of alternating phases.  [scan_of tr] reads the discipline off the
    trace: [pp] = threads with a pending push, [qq] = threads with a pending pop, [bad] = a push was invoked while a pop
    was pending or vice versa; [phased tr] = not bad.  [dq tr] / [dp tr] = "the claims about push phases / pop phases
    are suspended" (bad, or a pop / a push is pending).  While [dp tr = false], for EVERY schedule ([PopFacts], [PL]):
      - a node lock is held by at most one pop, and a cell is only modified by the holder of its lock;
      - the "dirty" cells are the pParent cells of the pops inside heapify_after_pop (each is locked by its pop);
      - every cell in use is not larger than ANY of its non-dirty ancestors; no cell is tagged with a thread id;
      - the LP-annotated trace is valid for BPQueue and the specification state (+ what linearized pops still owe) is
        a permutation of the priorities in the cells (+ the item in transit).
    At quiescence both this and the push-phase claims ([MsPqPhasesPush.Ext] instantiated with [dq], [Pq]) hold; the
    transitions: last pending push returns -- [PExt_ret_push] (PopFacts from W/B/A by [PF_first], PL from
    [spec_quiescent], which the layer LV.Proofs.MsPqPhasesSpec supplies); last pending pop returns -- [Ext_ret_pop]
    (W/B/A from PopFacts by [WBA_quiescent]) and [quiescent_spec] (the specification state for MsPqPhasesSpec).

    The invariant is a third auxiliary component on top of MsPqInv.Inv and MsPqPhasesPush.Ext ([TInv]); the pop program
    is walked for the triple, the push program lifts (nothing is claimed about pops while a push is pending); the client
    operations are exposed step by step ([TInv_inv_push], [tpush_body], [TInv_ret_push], [TInv_inv_pop], [tsafe_pop],
    [TInv_ret_pop]) because the combination with MsPqPhasesSpec (LV.Proofs.MsPqPhasesStack) interleaves the two layers
    at the return events. *)
From Coq Require Import ZArith List String Bool Lia PeanoNat Permutation.
From LV Require Import Base.Conc Base.Events Base.Lin Spec.Specs Model.MsPq Proofs.LinProofs
  Proofs.MsPqBrc Proofs.MsPqInv Proofs.MsPqSteps Proofs.MsPqProofs Proofs.MsPqHeap Proofs.MsPqPhase Proofs.MsPqPush Proofs.MsPqPushLin Proofs.MsPqPhasesPush.
Import ListNotations.
Local Open Scope string_scope.
Local Open Scope list_scope.

(** ** the phase discipline, read off the trace: no push is pending while a pop is pending and vice versa *)
Record scan := mkS { pp : list nat;      (* threads with a pending push *)
                     qq : list nat;      (* threads with a pending pop *)
                     bad : bool }.       (* the discipline was broken *)
Definition del (t : nat) (l : list nat) : list nat := filter (fun u => negb (Nat.eqb u t)) l.
Definition ne (l : list nat) : bool := match l with [] => false | _ => true end.
Definition scan_step (s : scan) (te : nat * ev) : scan :=
  match snd te with
  | EvCli n _ =>
      if String.eqb n "inv_push" then mkS (fst te :: pp s) (qq s) (bad s || ne (qq s))
      else if String.eqb n "ret_push" then mkS (del (fst te) (pp s)) (qq s) (bad s)
      else if String.eqb n "inv_pop" then mkS (pp s) (fst te :: qq s) (bad s || ne (pp s))
      else if String.eqb n "ret_pop" then mkS (pp s) (del (fst te) (qq s)) (bad s)
      else s
  | _ => s
  end.
Definition scan_of (tr : list (nat * ev)) : scan := fold_left scan_step tr (mkS [] [] false).
Lemma scan_app tr tr' : scan_of (tr ++ tr') = fold_left scan_step tr' (scan_of tr).
Proof. apply fold_left_app. Qed.

Definition phased (tr : list (nat * ev)) : bool := negb (bad (scan_of tr)).
(** the claims about push phases / pop phases are suspended *)
Definition dq (tr : list (nat * ev)) : bool := bad (scan_of tr) || ne (qq (scan_of tr)).
Definition dp (tr : list (nat * ev)) : bool := bad (scan_of tr) || ne (pp (scan_of tr)).

Lemma in_del t l u : In u (del t l) <-> u <> t /\ In u l.
Proof. unfold del. rewrite filter_In, negb_true_iff, Nat.eqb_neq. tauto. Qed.
Lemma ne_in l u : In u l -> ne l = true.
Proof. destruct l; [intros []|reflexivity]. Qed.

(** events that the scan ignores *)
Definition sn (e : ev) : bool :=
  match e with
  | EvAcc _ _ _ => true
  | EvCli n _ => negb (String.eqb n "inv_push" || String.eqb n "ret_push" || String.eqb n "inv_pop" || String.eqb n "ret_pop")
  end.
Lemma scan_neutral t es s : forallb sn es = true -> fold_left scan_step (Conc.tag t es) s = s.
Proof.
  revert s. induction es as [|e es IH]; intros s; cbn [forallb]; [reflexivity|]. rewrite andb_true_iff. intros [He Hes].
  unfold Conc.tag in *. cbn [map fold_left]. rewrite IH by exact Hes. unfold scan_step. cbn [snd].
  destruct e as [| n args]; [reflexivity|]. cbn in He. rewrite negb_true_iff, !orb_false_iff in He.
  destruct He as [[[H1 H2] H3] H4]. rewrite H1, H2, H3, H4. reflexivity.
Qed.
Lemma scan_neutral_app tr t es : forallb sn es = true -> scan_of (tr ++ Conc.tag t es) = scan_of tr.
Proof. intros H. rewrite scan_app. apply scan_neutral. exact H. Qed.
Lemma scan_snoc tr t e : scan_of (tr ++ Conc.tag t [e]) = scan_step (scan_of tr) (t, e).
Proof. rewrite scan_app. reflexivity. Qed.

(** events of a push leave the pending pops and [dq] alone; events of a pop leave the pending pushes and [dp] alone *)
Definition popev (e : ev) : bool :=
  match e with
  | EvAcc _ _ _ => true
  | EvCli n _ => negb (String.eqb n "inv_push" || String.eqb n "ret_push")
  end.
Lemma pushev_step s t e : pushev e = true ->
  qq (scan_step s (t, e)) = qq s /\ (bad (scan_step s (t, e)) || ne (qq s)) = (bad s || ne (qq s)).
Proof.
  unfold scan_step. cbn [snd fst]. destruct e as [| n args]; [auto|]. cbn. rewrite negb_true_iff, orb_false_iff. intros [H1 H2]. rewrite H1, H2.
  destruct (String.eqb n "inv_push"); [cbn; split; [reflexivity|]; destruct (bad s), (ne (qq s)); reflexivity|].
  destruct (String.eqb n "ret_push"); auto.
Qed.
Lemma pushev_scan t es : forall s, forallb pushev es = true ->
  qq (fold_left scan_step (Conc.tag t es) s) = qq s /\ (bad (fold_left scan_step (Conc.tag t es) s) || ne (qq s)) = (bad s || ne (qq s)).
Proof.
  induction es as [|e es IH]; intros s; cbn [forallb]; [auto|]. rewrite andb_true_iff. intros [He Hes].
  unfold Conc.tag in *. cbn [map fold_left]. destruct (pushev_step s t e He) as [Q1 Q2]. destruct (IH (scan_step s (t, e)) Hes) as [R1 R2].
  rewrite Q1 in R1, R2. split; [exact R1|]. rewrite R2. exact Q2.
Qed.
Lemma dq_pushev tr t es : forallb pushev es = true -> dq (tr ++ Conc.tag t es) = dq tr.
Proof. intros H. unfold dq. rewrite scan_app. destruct (pushev_scan t es (scan_of tr) H) as [Q1 Q2]. rewrite Q1. exact Q2. Qed.
Lemma qq_pushev tr t es : forallb pushev es = true -> qq (scan_of (tr ++ Conc.tag t es)) = qq (scan_of tr).
Proof. intros H. rewrite scan_app. apply (pushev_scan t es (scan_of tr) H). Qed.

Lemma popev_step s t e : popev e = true ->
  pp (scan_step s (t, e)) = pp s /\ (bad (scan_step s (t, e)) || ne (pp s)) = (bad s || ne (pp s)).
Proof.
  unfold scan_step. cbn [snd fst]. destruct e as [| n args]; [auto|]. cbn. rewrite negb_true_iff, orb_false_iff. intros [H1 H2]. rewrite H1, H2.
  destruct (String.eqb n "inv_pop"); [cbn; split; [reflexivity|]; destruct (bad s), (ne (pp s)); reflexivity|].
  destruct (String.eqb n "ret_pop"); auto.
Qed.
Lemma popev_scan t es : forall s, forallb popev es = true ->
  pp (fold_left scan_step (Conc.tag t es) s) = pp s /\ (bad (fold_left scan_step (Conc.tag t es) s) || ne (pp s)) = (bad s || ne (pp s)).
Proof.
  induction es as [|e es IH]; intros s; cbn [forallb]; [auto|]. rewrite andb_true_iff. intros [He Hes].
  unfold Conc.tag in *. cbn [map fold_left]. destruct (popev_step s t e He) as [Q1 Q2]. destruct (IH (scan_step s (t, e)) Hes) as [R1 R2].
  rewrite Q1 in R1, R2. split; [exact R1|]. rewrite R2. exact Q2.
Qed.
Lemma dp_popev tr t es : forallb popev es = true -> dp (tr ++ Conc.tag t es) = dp tr.
Proof. intros H. unfold dp. rewrite scan_app. destruct (popev_scan t es (scan_of tr) H) as [Q1 Q2]. rewrite Q1. exact Q2. Qed.
Lemma pp_popev tr t es : forallb popev es = true -> pp (scan_of (tr ++ Conc.tag t es)) = pp (scan_of tr).
Proof. intros H. rewrite scan_app. apply (popev_scan t es (scan_of tr) H). Qed.

(** as long as the discipline holds, pushes and pops are not pending together *)
Lemma scan_excl tr : bad (scan_of tr) = false -> pp (scan_of tr) = [] \/ qq (scan_of tr) = [].
Proof.
  induction tr as [|e tr IH] using rev_ind; [left; reflexivity|]. rewrite scan_app. cbn [fold_left]. set (s := scan_of tr) in *.
  unfold scan_step. destruct (snd e) as [| n args]; [exact IH|].
  destruct (String.eqb n "inv_push"); [cbn; intros H; apply orb_false_iff in H; destruct H as [_ H]; right; destruct (qq s); [reflexivity|discriminate]|].
  destruct (String.eqb n "ret_push"); [cbn; intros H; destruct (IH H) as [E|E]; [left; rewrite E; reflexivity|right; exact E]|].
  destruct (String.eqb n "inv_pop"); [cbn; intros H; apply orb_false_iff in H; destruct H as [_ H]; left; destruct (pp s); [reflexivity|discriminate]|].
  destruct (String.eqb n "ret_pop"); [cbn; intros H; destruct (IH H) as [E|E]; [left; exact E|right; rewrite E; reflexivity]|exact IH].
Qed.

(** no pop invoked so far: a (first) push phase *)
Lemma no_pop_scan tr : pop_invoked tr = false -> bad (scan_of tr) = false /\ qq (scan_of tr) = [].
Proof.
  induction tr as [|e tr IH] using rev_ind; [auto|]. rewrite pop_invoked_app, scan_app. cbn [fold_left pop_invoked existsb].
  rewrite orb_false_r. intros H. apply orb_false_iff in H. destruct H as [H1 H2]. destruct (IH H1) as [B Q]. set (s := scan_of tr) in *.
  unfold scan_step. unfold is_cli in H2. destruct (snd e) as [| n args]; [auto|].
  destruct (String.eqb n "inv_push"); [cbn; rewrite B, Q; auto|]. destruct (String.eqb n "ret_push"); [cbn; auto|].
  rewrite H2. destruct (String.eqb n "ret_pop"); [cbn; rewrite Q; auto|auto].
Qed.

(** two phases: a push phase followed by a pop phase (no push invoked after the first pop) *)
Record scan2 := mkS2 { pp2 : list nat; seen2 : bool; bad2 : bool }.
Definition scan2_step (s : scan2) (te : nat * ev) : scan2 :=
  match snd te with
  | EvCli n _ =>
      if String.eqb n "inv_push" then mkS2 (fst te :: pp2 s) (seen2 s) (bad2 s || seen2 s)
      else if String.eqb n "ret_push" then mkS2 (del (fst te) (pp2 s)) (seen2 s) (bad2 s)
      else if String.eqb n "inv_pop" then mkS2 (pp2 s) true (bad2 s || ne (pp2 s))
      else s
  | _ => s
  end.
Definition scan2_of (tr : list (nat * ev)) : scan2 := fold_left scan2_step tr (mkS2 [] false false).
Definition twophase (tr : list (nat * ev)) : bool := negb (bad2 (scan2_of tr)).
Lemma twophase_phased tr : twophase tr = true -> phased tr = true.
Proof.
  unfold twophase, phased. rewrite !negb_true_iff.
  assert (H : bad2 (scan2_of tr) = false -> bad (scan_of tr) = false /\ pp (scan_of tr) = pp2 (scan2_of tr) /\ (seen2 (scan2_of tr) = false -> qq (scan_of tr) = [])); [|tauto].
  induction tr as [|e tr IH] using rev_ind; [auto|]. unfold scan2_of, scan_of in *. rewrite !fold_left_app. cbn [fold_left].
  set (s := fold_left scan_step tr _) in *. set (s2 := fold_left scan2_step tr _) in *.
  unfold scan2_step, scan_step. destruct (snd e) as [| n args]; [exact IH|].
  destruct (String.eqb n "inv_push").
  { cbn. intros H. apply orb_false_iff in H. destruct H as [H1 H2]. destruct (IH H1) as (A & B & C). rewrite A, B, (C H2). auto. }
  destruct (String.eqb n "ret_push"); [cbn; intros H; destruct (IH H) as (A & B & C); rewrite B; auto|].
  destruct (String.eqb n "inv_pop").
  { cbn. intros H. apply orb_false_iff in H. destruct H as [H1 H2]. destruct (IH H1) as (A & B & C). rewrite A, B, H2. split; [reflexivity|]. split; [reflexivity|discriminate]. }
  destruct (String.eqb n "ret_pop"); [cbn; intros H; destruct (IH H) as (A & B & C); split; [exact A|]; split; [exact B|]; intros K; rewrite (C K); reflexivity|exact IH].
Qed.

(** ** the third auxiliary component *)
(** [Owing]: linearized (dec() done under the size lock), the top item not yet taken *)
Inductive pstat := NotLin | Owing | Done.
Record pv := mkP { pin : bool;               (* inside a pop *)
                   psh : bool;               (* inside a push *)
                   plk : list nat;           (* node locks held by this pop *)
                   pdirty : option nat;      (* its pParent cell in heapify_after_pop *)
                   pch : option nat;         (* the child chosen at R2 (the larger one) *)
                   pst : pstat }.            (* where this pop stands with respect to its linearization point *)
Definition Aux3 := nat -> pv.
Definition upd3 (a3 : Aux3) (t : nat) (v : pv) : Aux3 := fun u => if Nat.eqb u t then v else a3 u.
Lemma upd3_same a3 t v : upd3 a3 t v t = v.
Proof. unfold upd3. rewrite Nat.eqb_refl. reflexivity. Qed.
Lemma upd3_other a3 t v u : u <> t -> upd3 a3 t v u = a3 u.
Proof. unfold upd3. intros H. destruct (Nat.eqb_spec u t); congruence. Qed.
Definition idle3 : pv := mkP false false [] None None NotLin.
Definition Vstart : pv := mkP true false [] None None NotLin.
Definition Vdone : pv := mkP true false [] None None Done.

Definition isdirty (a3 : Aux3) (j : nat) : Prop := exists t, pdirty (a3 t) = Some j.

(** [ch] is a child of [p] and no child of [p] is larger *)
Definition IsMaxG (g : G) (p ch : nat) : Prop :=
  (ch = 2 * p \/ ch = S (2 * p)) /\
  (forall k x m, 2 <= k -> Nat.div2 k = p -> cellv g k = Some x -> cellv g ch = Some m -> (prio x <= prio m)%Z).

Lemma anc_down j k : anc j k -> (Nat.div2 k = j /\ 2 <= k) \/ exists c, Nat.div2 c = j /\ 2 <= c /\ anc c k.
Proof.
  induction 1 as [k Hk|j k Hk H IH]; [left; auto|]. right. destruct IH as [[E H2]|(c & E & H2 & Hc)].
  - exists (Nat.div2 k). split; [exact E|]. split; [exact H2|]. apply anc1. exact Hk.
  - exists c. split; [exact E|]. split; [exact H2|]. apply ancS; assumption.
Qed.

Lemma nlock_set_cell g i tg v l : nlock (heap (set_cell g i tg v) l) = nlock (heap g l).
Proof. unfold set_cell, set_node. cbn. destruct (Nat.eqb_spec l i) as [->|]; reflexivity. Qed.
Lemma nlock_set_lockbit g l0 b l : l0 <> 0 -> nlock (heap (set_lockbit g l0 b) l) = if Nat.eqb l l0 then b else nlock (heap g l).
Proof. intros H. destruct l0; [congruence|]. unfold set_lockbit, set_node. cbn [heap]. destruct (Nat.eqb l (S l0)); reflexivity. Qed.
Lemma nlock_set_lockbit0 g b l : nlock (heap (set_lockbit g 0 b) l) = nlock (heap g l).
Proof. reflexivity. Qed.
Lemma nlock_set_ctr g s l : nlock (heap (set_ctr g s) l) = nlock (heap g l).
Proof. reflexivity. Qed.

Lemma IsMaxG_ext g g' p ch : (forall i, cellv g' i = cellv g i) -> IsMaxG g p ch -> IsMaxG g' p ch.
Proof.
  intros H (A & C). split; [exact A|]. intros k x m. rewrite !H. apply C.
Qed.

Lemma isdirty_upd3 a3 t v' j : isdirty (upd3 a3 t v') j <-> pdirty v' = Some j \/ exists u, u <> t /\ pdirty (a3 u) = Some j.
Proof.
  split.
  - intros [u Hu]. destruct (Nat.eq_dec u t) as [->|N]; [rewrite upd3_same in Hu; auto|]. rewrite upd3_other in Hu by exact N. right. eauto.
  - intros [H|(u & N & Hu)]; [exists t; rewrite upd3_same; exact H|exists u; rewrite upd3_other by exact N; exact Hu].
Qed.

(** ** the frontier invariant *)
Record PopFacts (g : G) (a1 : Aux) (a3 : Aux3) : Prop := mkPF {
  k1 : forall t l, In l (plk (a3 t)) -> l <> 0 /\ nlock (heap g l) = true;
  k2 : forall t t' l, In l (plk (a3 t)) -> In l (plk (a3 t')) -> t = t';
  k3 : forall i u, cellt g i <> TOwner u;
  k4 : forall t d, pdirty (a3 t) = Some d -> In d (plk (a3 t)) /\ cellv g d <> None;
  k5 : forall k j x, anc j k -> cellv g k = Some x ->
         exists y, cellv g j = Some y /\ (~ isdirty a3 j -> (prio x <= prio y)%Z);
  k6 : forall t, pstore (tvs a1 t) = None;
  k7 : forall t p ch, pdirty (a3 t) = Some p -> pch (a3 t) = Some ch ->
         In (2 * p) (plk (a3 t)) /\ In (S (2 * p)) (plk (a3 t)) /\ IsMaxG g p ch;
  k8 : forall t, pin (a3 t) = true -> inop (tvs a1 t) = true;
  k9 : forall t, pin (a3 t) = false -> plk (a3 t) = [] /\ pdirty (a3 t) = None /\ pclear (tvs a1 t) = None /\ hs (tvs a1 t) = false }.

(** steps that leave the cells alone *)
Lemma PF_gen g g' a1 a1' a3 t v' :
  PopFacts g a1 a3 ->
  (forall i, cellv g' i = cellv g i) -> (forall i, cellt g' i = cellt g i) ->
  (forall u, u <> t -> tvs a1' u = tvs a1 u) -> pstore (tvs a1' t) = None ->
  (pin v' = true -> inop (tvs a1' t) = true) ->
  (pin v' = false -> plk v' = [] /\ pdirty v' = None /\ pclear (tvs a1' t) = None /\ hs (tvs a1' t) = false) ->
  (forall l, In l (plk v') -> l <> 0 /\ nlock (heap g' l) = true /\ forall u, u <> t -> ~ In l (plk (a3 u))) ->
  (forall u l, u <> t -> In l (plk (a3 u)) -> nlock (heap g' l) = true) ->
  pdirty v' = pdirty (a3 t) -> (forall d, pdirty v' = Some d -> In d (plk v')) ->
  (forall p ch, pdirty v' = Some p -> pch v' = Some ch -> In (2 * p) (plk v') /\ In (S (2 * p)) (plk v') /\ IsMaxG g p ch) ->
  PopFacts g' a1' (upd3 a3 t v').
Proof.
  intros [K1 K2 K3 K4 K5 K6 K7 K8 K9] Hv Ht Hoth Hps Hin Hout Hl Hlo Hd Hdin H7.
  assert (Hdirty : forall j, isdirty (upd3 a3 t v') j -> isdirty a3 j).
  { intros j Hj. apply isdirty_upd3 in Hj. destruct Hj as [Hj|(u & N & Hu)]; [exists t; rewrite <- Hd; exact Hj|exists u; exact Hu]. }
  assert (Hdirty' : forall j, isdirty a3 j -> isdirty (upd3 a3 t v') j).
  { intros j [u Hu]. apply isdirty_upd3. destruct (Nat.eq_dec u t) as [->|N]; [left; rewrite Hd; exact Hu|right; eauto]. }
  constructor.
  - intros u l Hin'. destruct (Nat.eq_dec u t) as [->|N].
    + rewrite upd3_same in Hin'. destruct (Hl l Hin') as (A & B & _). auto.
    + rewrite upd3_other in Hin' by exact N. split; [apply (K1 u l Hin')|apply (Hlo u l N Hin')].
  - intros u u' l H1 H2. destruct (Nat.eq_dec u t) as [->|N]; destruct (Nat.eq_dec u' t) as [->|N']; [reflexivity| | |].
    + rewrite upd3_same in H1. rewrite upd3_other in H2 by exact N'. destruct (Hl l H1) as (_ & _ & C). exfalso. apply (C u' N' H2).
    + rewrite upd3_same in H2. rewrite upd3_other in H1 by exact N. destruct (Hl l H2) as (_ & _ & C). exfalso. apply (C u N H1).
    + rewrite upd3_other in H1, H2 by assumption. apply (K2 u u' l H1 H2).
  - intros i u. rewrite Ht. apply K3.
  - intros u d Hu. rewrite Hv. destruct (Nat.eq_dec u t) as [->|N].
    + rewrite upd3_same in *. split; [apply Hdin; exact Hu|]. rewrite Hd in Hu. apply (K4 t d Hu).
    + rewrite upd3_other in * by exact N. apply (K4 u d Hu).
  - intros k j x Ha Hx. rewrite Hv in Hx. destruct (K5 k j x Ha Hx) as (y & Hy & Hle). exists y. rewrite Hv. split; [exact Hy|].
    intros Hnd. apply Hle. intros Hdj. apply Hnd. apply Hdirty'. exact Hdj.
  - intros u. destruct (Nat.eq_dec u t) as [->|N]; [exact Hps|rewrite Hoth by exact N; apply K6].
  - intros u p ch Hp Hc. destruct (Nat.eq_dec u t) as [->|N].
    + rewrite upd3_same in *. destruct (H7 p ch Hp Hc) as (A & B & C). split; [exact A|]. split; [exact B|]. apply (IsMaxG_ext g g'); assumption.
    + rewrite upd3_other in * by exact N. destruct (K7 u p ch Hp Hc) as (A & B & C). split; [exact A|]. split; [exact B|]. apply (IsMaxG_ext g g'); assumption.
  - intros u Hu. destruct (Nat.eq_dec u t) as [->|N].
    + rewrite upd3_same in Hu. apply Hin. exact Hu.
    + rewrite upd3_other in Hu by exact N. rewrite Hoth by exact N. apply K8. exact Hu.
  - intros u Hu. destruct (Nat.eq_dec u t) as [->|N].
    + rewrite upd3_same in *. apply Hout. exact Hu.
    + rewrite upd3_other in * by exact N. rewrite Hoth by exact N. apply K9. exact Hu.
Qed.

(** the auxiliary state of the thread changes, nothing else *)
Lemma PF_a1 g g' a1 a1' a3 t :
  PopFacts g a1 a3 ->
  (forall i, cellv g' i = cellv g i) -> (forall i, cellt g' i = cellt g i) -> (forall l, nlock (heap g' l) = nlock (heap g l)) ->
  (forall u, u <> t -> tvs a1' u = tvs a1 u) -> pstore (tvs a1' t) = None -> inop (tvs a1' t) = true -> pin (a3 t) = true ->
  PopFacts g' a1' a3.
Proof.
  intros F Hv Ht Hn Hoth Hps Hin Hp.
  assert (E : forall u, upd3 a3 t (a3 t) u = a3 u) by (intros u; unfold upd3; destruct (Nat.eqb_spec u t) as [->|]; reflexivity).
  pose proof F as [K1 K2 K3 K4 K5 K6 K7 K8 K9].
  pose proof (PF_gen g g' a1 a1' a3 t (a3 t) F Hv Ht Hoth Hps (fun _ => Hin) ltac:(intros; congruence)) as G.
  assert (G' : PopFacts g' a1' (upd3 a3 t (a3 t))).
  { apply G.
    - intros l Hl. destruct (K1 t l Hl) as [A B]. split; [exact A|]. split; [rewrite Hn; exact B|]. intros u N Hu. apply N. apply (K2 u t l Hu Hl).
    - intros u l _ Hl. rewrite Hn. apply (K1 u l Hl).
    - reflexivity.
    - intros d Hd. apply (K4 t d Hd).
    - intros p ch Hd Hc. apply (K7 t p ch Hd Hc). }
  destruct G' as [L1 L2 L3 L4 L5 L6 L7 L8 L9].
  constructor.
  - intros u l. rewrite <- E. apply L1.
  - intros u u' l. rewrite <- (E u), <- (E u'). apply L2.
  - exact L3.
  - intros u d. rewrite <- E. apply L4.
  - intros k j x Ha Hx. destruct (L5 k j x Ha Hx) as (y & Hy & Hle). exists y. split; [exact Hy|]. intros Hnd. apply Hle.
    intros [u Hu]. apply Hnd. exists u. rewrite <- E. exact Hu.
  - exact L6.
  - intros u p ch. rewrite <- E. apply L7.
  - intros u. rewrite <- E. apply L8.
  - intros u. rewrite <- E. apply L9.
Qed.

(** entering / leaving a pop *)
Lemma PF_io g a1 a1' a3 t v' :
  PopFacts g a1 a3 -> plk (a3 t) = [] -> pdirty (a3 t) = None -> plk v' = [] -> pdirty v' = None ->
  (forall u, u <> t -> tvs a1' u = tvs a1 u) -> pstore (tvs a1' t) = None ->
  (pin v' = true -> inop (tvs a1' t) = true) -> (pin v' = false -> pclear (tvs a1' t) = None /\ hs (tvs a1' t) = false) ->
  PopFacts g a1' (upd3 a3 t v').
Proof.
  intros F H1 H2 H3 H4 Hoth Hps Hin Hout. pose proof F as [K1 K2 K3 K4 K5 K6 K7 K8 K9].
  apply (PF_gen g g a1 a1' a3 t v' F).
  - reflexivity.
  - reflexivity.
  - exact Hoth.
  - exact Hps.
  - exact Hin.
  - intros E. destruct (Hout E). auto.
  - intros l Hl. rewrite H3 in Hl. destruct Hl.
  - intros u l _ Hl. apply (K1 u l Hl).
  - congruence.
  - intros d Hd. congruence.
  - intros p ch Hd. congruence.
Qed.

Lemma PF_lock g a1 a3 t l0 v' :
  PopFacts g a1 a3 -> l0 <> 0 -> nlock (heap g l0) = false -> pin (a3 t) = true -> pin v' = true ->
  plk v' = l0 :: plk (a3 t) -> pdirty v' = pdirty (a3 t) ->
  (forall p ch, pdirty v' = Some p -> pch v' = Some ch -> In (2 * p) (plk v') /\ In (S (2 * p)) (plk v') /\ IsMaxG g p ch) ->
  PopFacts (set_lockbit g l0 true) a1 (upd3 a3 t v').
Proof.
  intros F Hl0 Hfree Hp Hp' Hplk Hd H7. pose proof F as [K1 K2 K3 K4 K5 K6 K7 K8 K9].
  assert (Hnone : forall u, ~ In l0 (plk (a3 u))) by (intros u Hu; destruct (K1 u l0 Hu) as [_ B]; congruence).
  apply (PF_gen g _ a1 a1 a3 t v' F).
  - intros i. apply cellv_set_lockbit.
  - intros i. apply cellt_set_lockbit.
  - reflexivity.
  - apply K6.
  - intros _. apply K8. exact Hp.
  - intros E. congruence.
  - intros l Hl. rewrite Hplk in Hl. rewrite nlock_set_lockbit by exact Hl0. destruct Hl as [<-|Hl].
    + rewrite Nat.eqb_refl. split; [exact Hl0|]. split; [reflexivity|]. intros u _. apply Hnone.
    + destruct (K1 t l Hl) as [A B]. split; [exact A|]. split; [destruct (Nat.eqb l l0); [reflexivity|exact B]|].
      intros u N Hu. apply N. apply (K2 u t l Hu Hl).
  - intros u l _ Hl. rewrite nlock_set_lockbit by exact Hl0. destruct (Nat.eqb l l0); [reflexivity|apply (K1 u l Hl)].
  - exact Hd.
  - intros d Hd'. rewrite Hplk. right. rewrite Hd in Hd'. apply (K4 t d Hd').
  - exact H7.
Qed.

Lemma PF_unlock g a1 a3 t l0 v' :
  PopFacts g a1 a3 -> l0 <> 0 -> In l0 (plk (a3 t)) -> pin (a3 t) = true -> pin v' = true ->
  (forall l, In l (plk v') -> In l (plk (a3 t)) /\ l <> l0) -> pdirty v' = pdirty (a3 t) ->
  (forall d, pdirty v' = Some d -> In d (plk v')) -> pch v' = None ->
  PopFacts (set_lockbit g l0 false) a1 (upd3 a3 t v').
Proof.
  intros F Hl0 Hheld Hp Hp' Hplk Hd Hdin Hc. pose proof F as [K1 K2 K3 K4 K5 K6 K7 K8 K9].
  apply (PF_gen g _ a1 a1 a3 t v' F).
  - intros i. apply cellv_set_lockbit.
  - intros i. apply cellt_set_lockbit.
  - reflexivity.
  - apply K6.
  - intros _. apply K8. exact Hp.
  - intros E. congruence.
  - intros l Hl. destruct (Hplk l Hl) as [A B]. rewrite nlock_set_lockbit by exact Hl0. destruct (K1 t l A) as [C D].
    split; [exact C|]. split; [destruct (Nat.eqb_spec l l0); [contradiction|exact D]|]. intros u N Hu. apply N. apply (K2 u t l Hu A).
  - intros u l N Hl. rewrite nlock_set_lockbit by exact Hl0. destruct (Nat.eqb_spec l l0) as [->|]; [|apply (K1 u l Hl)].
    exfalso. apply N. apply (K2 u t l0 Hl Hheld).
  - exact Hd.
  - exact Hdin.
  - intros p ch _ E. congruence.
Qed.

(** the bottom cell is emptied *)
Lemma PF_take g a1 a3 t b :
  PopFacts g a1 a3 -> In b (plk (a3 t)) -> pdirty (a3 t) = None -> (forall k, anc b k -> cellv g k = None) ->
  PopFacts (set_cell g b TEmpty None) a1 a3.
Proof.
  intros [K1 K2 K3 K4 K5 K6 K7 K8 K9] Hb Hd Hdesc. constructor; auto.
  - intros u l Hl. rewrite nlock_set_cell. apply (K1 u l Hl).
  - intros i u. rewrite cellt_set_cell. destruct (Nat.eqb i b); [discriminate|apply K3].
  - intros u d Hu. destruct (K4 u d Hu) as [A B]. split; [exact A|]. rewrite cellv_set_cell.
    destruct (Nat.eqb_spec d b) as [->|]; [|exact B]. exfalso. pose proof (K2 u t b A Hb). subst u. congruence.
  - intros k j x Ha Hx. rewrite cellv_set_cell in Hx. destruct (Nat.eqb_spec k b) as [->|Nk]; [discriminate|].
    destruct (K5 k j x Ha Hx) as (y & Hy & Hle). exists y. rewrite cellv_set_cell.
    destruct (Nat.eqb_spec j b) as [->|Nj]; [rewrite (Hdesc k Ha) in Hx; discriminate|]. split; [exact Hy|exact Hle].
  - intros u p ch Hp Hc. destruct (K7 u p ch Hp Hc) as (A & B & C). split; [exact A|]. split; [exact B|].
    destruct C as (C1 & C3). assert (Nu : u <> t) by (intros ->; congruence).
    assert (Nb : forall c, c = 2 * p \/ c = S (2 * p) -> c <> b).
    { intros c [->| ->] E; apply Nu; [apply (K2 u t b); [rewrite <- E; exact A|exact Hb]|apply (K2 u t b); [rewrite <- E; exact B|exact Hb]]. }
    split; [exact C1|].
    + intros k x m Hk Hdk Hx Hm. rewrite !cellv_set_cell in *.
      destruct (Nat.eqb_spec ch b) as [E|]; [exfalso; apply (Nb ch C1 E)|].
      destruct (Nat.eqb_spec k b); [discriminate|]. apply (C3 k x m Hk Hdk Hx Hm).
Qed.

Lemma child_ge p c : 1 <= p -> c = 2 * p \/ c = S (2 * p) -> 2 <= c /\ c <> p /\ Nat.div2 c = p.
Proof. intros Hp [->| ->]; (split; [lia|]); (split; [lia|]); [apply div2_double|apply div2_succ_double]. Qed.

(** the bottom item is put into the top cell: the top becomes the frontier of this pop *)
Lemma PF_poptop g a1 a3 t y v' :
  PopFacts g a1 a3 -> In 1 (plk (a3 t)) -> pdirty (a3 t) = None -> pin (a3 t) = true ->
  v' = mkP true (psh (a3 t)) (plk (a3 t)) (Some 1) None (pst (a3 t)) ->
  PopFacts (set_cell g 1 TAvail (Some y)) a1 (upd3 a3 t v').
Proof.
  intros [K1 K2 K3 K4 K5 K6 K7 K8 K9] H1 Hd Hp ->.
  assert (Hplk : forall u, plk (upd3 a3 t (mkP true (psh (a3 t)) (plk (a3 t)) (Some 1) None (pst (a3 t))) u) = plk (a3 u)).
  { intros u. destruct (Nat.eq_dec u t) as [->|N]; [rewrite upd3_same; reflexivity|rewrite upd3_other by exact N; reflexivity]. }
  constructor.
  - intros u l. rewrite Hplk, nlock_set_cell. apply K1.
  - intros u u' l. rewrite !Hplk. apply K2.
  - intros i u. rewrite cellt_set_cell. destruct (Nat.eqb i 1); [discriminate|apply K3].
  - intros u d Hu. rewrite Hplk, cellv_set_cell. destruct (Nat.eq_dec u t) as [->|N].
    + rewrite upd3_same in Hu. cbn in Hu. inversion Hu; subst d. split; [exact H1|]. cbn. discriminate.
    + rewrite upd3_other in Hu by exact N. destruct (K4 u d Hu) as [A B]. split; [exact A|].
      destruct (Nat.eqb_spec d 1) as [->|]; [|exact B]. exfalso. apply N. apply (K2 u t 1 A H1).
  - intros k j x Ha Hx. pose proof (anc_lt _ _ Ha) as Hlt. rewrite cellv_set_cell in Hx.
    destruct (Nat.eqb_spec k 1) as [->|Nk]; [lia|]. destruct (K5 k j x Ha Hx) as (y0 & Hy & Hle). rewrite cellv_set_cell.
    destruct (Nat.eqb_spec j 1) as [->|Nj].
    + exists y. split; [reflexivity|]. intros Hnd. exfalso. apply Hnd. exists t. rewrite upd3_same. reflexivity.
    + exists y0. split; [exact Hy|]. intros Hnd. apply Hle. intros [u Hu]. apply Hnd.
      assert (N : u <> t) by (intros ->; congruence). exists u. rewrite upd3_other by exact N. exact Hu.
  - exact K6.
  - intros u p ch Hu Hc. destruct (Nat.eq_dec u t) as [->|N]; [rewrite upd3_same in Hc; discriminate|].
    rewrite upd3_other in * by exact N. destruct (K7 u p ch Hu Hc) as (A & B & C1 & C3). split; [exact A|]. split; [exact B|].
    assert (Hp1 : 1 <= p) by (destruct (K4 u p Hu) as [Q _]; destruct (K1 u p Q); lia).
    split; [exact C1|].
    + intros k x m Hk Hdk. rewrite !cellv_set_cell. destruct (Nat.eqb_spec ch 1); [lia|]. destruct (Nat.eqb_spec k 1); [lia|]. apply C3; assumption.
  - intros u Hu. destruct (Nat.eq_dec u t) as [->|N]; [apply K8; exact Hp|]. rewrite upd3_other in Hu by exact N. apply K8. exact Hu.
  - intros u Hu. destruct (Nat.eq_dec u t) as [->|N]; [rewrite upd3_same in Hu; discriminate|]. rewrite upd3_other in * by exact N. apply K9. exact Hu.
Qed.

(** cells held by the thread are not the frontier of anybody else *)
Lemma held_not_dirty g a1 a3 t p j :
  PopFacts g a1 a3 -> pdirty (a3 t) = Some p -> In j (plk (a3 t)) -> j <> p -> ~ isdirty a3 j.
Proof.
  intros [K1 K2 K3 K4 K5 K6 K7 K8 K9] Hd Hj Hne [u Hu]. destruct (K4 u j Hu) as [A _]. pose proof (K2 u t j A Hj). subst u. congruence.
Qed.

(** the larger child is larger than the frontier: swap, the frontier moves down *)
Lemma PF_swap g a1 a3 t p ch y m v' :
  PopFacts g a1 a3 -> pin (a3 t) = true -> pdirty (a3 t) = Some p -> In ch (plk (a3 t)) -> IsMaxG g p ch ->
  cellv g p = Some y -> cellv g ch = Some m -> (prio m > prio y)%Z ->
  (forall c', c' = 2 * p \/ c' = S (2 * p) -> In c' (plk (a3 t)) \/ cellv g c' = None) ->
  v' = mkP true (psh (a3 t)) (plk (a3 t)) (Some ch) None (pst (a3 t)) ->
  PopFacts (set_cell (set_cell g p (cellt g ch) (Some m)) ch (cellt g p) (Some y)) a1 (upd3 a3 t v').
Proof.
  intros F Hp Hd Hch HM Hy Hm Hgt Hsib ->. pose proof F as [K1 K2 K3 K4 K5 K6 K7 K8 K9].
  destruct HM as (M1 & M3).
  destruct (K4 t p Hd) as [Hpl _]. assert (Hp1 : 1 <= p) by (destruct (K1 t p Hpl); lia).
  destruct (child_ge p ch Hp1 M1) as (Hch2 & Hchp & Hdch).
  set (w := mkP true (psh (a3 t)) (plk (a3 t)) (Some ch) None (pst (a3 t))).
  assert (Hplk : forall u, plk (upd3 a3 t w u) = plk (a3 u)).
  { intros u. destruct (Nat.eq_dec u t) as [->|N]; [rewrite upd3_same; reflexivity|rewrite upd3_other by exact N; reflexivity]. }
  assert (Hkeep : forall j, j <> p -> isdirty a3 j -> isdirty (upd3 a3 t w) j).
  { intros j Nj [u Hu]. assert (N : u <> t) by (intros ->; congruence). exists u. rewrite upd3_other by exact N. exact Hu. }
  assert (Hnew : isdirty (upd3 a3 t w) ch) by (exists t; rewrite upd3_same; reflexivity).
  assert (ND : forall j, In j (plk (a3 t)) -> j <> p -> ~ isdirty a3 j) by (intros j; apply (held_not_dirty g a1 a3 t p j F Hd)).
  constructor.
  - intros u l. rewrite Hplk, !nlock_set_cell. apply K1.
  - intros u u' l. rewrite !Hplk. apply K2.
  - intros i u. rewrite !cellt_set_cell. destruct (Nat.eqb i ch); [apply K3|]. destruct (Nat.eqb i p); apply K3.
  - intros u d Hu. rewrite Hplk, !cellv_set_cell. destruct (Nat.eq_dec u t) as [->|N].
    + rewrite upd3_same in Hu. cbn in Hu. inversion Hu; subst d. split; [exact Hch|]. rewrite Nat.eqb_refl. discriminate.
    + rewrite upd3_other in Hu by exact N. destruct (K4 u d Hu) as [A B]. split; [exact A|].
      destruct (Nat.eqb_spec d ch) as [->|]; [exfalso; apply N; apply (K2 u t ch A Hch)|].
      destruct (Nat.eqb_spec d p) as [->|]; [exfalso; apply N; apply (K2 u t p A Hpl)|exact B].
  - intros k j x Ha Hx. pose proof (anc_lt _ _ Ha) as Hlt. rewrite !cellv_set_cell in *.
    destruct (Nat.eqb_spec k ch) as [->|Nkc].
    + (* the old frontier value, now at ch *)
      inversion Hx; subst x. destruct (anc_inv _ _ Ha) as [_ [E|Ha']]; rewrite Hdch in *.
      * subst j. destruct (Nat.eqb_spec p ch); [lia|]. rewrite Nat.eqb_refl. exists m. split; [reflexivity|]. intros _. lia.
      * pose proof (anc_lt _ _ Ha') as Hl'. destruct (Nat.eqb_spec j ch); [lia|]. destruct (Nat.eqb_spec j p); [lia|].
        destruct (K5 p j y Ha' Hy) as (y0 & Hy0 & Hle). exists y0. split; [exact Hy0|]. intros Hnd. apply Hle. intros Hdj. apply Hnd. apply Hkeep; [lia|exact Hdj].
    + destruct (Nat.eqb_spec k p) as [->|Nkp].
      * inversion Hx; subst x. destruct (Nat.eqb_spec j ch); [lia|]. destruct (Nat.eqb_spec j p); [lia|].
        assert (Ha' : anc j ch) by (apply ancS; [exact Hch2|rewrite Hdch; exact Ha]).
        destruct (K5 ch j m Ha' Hm) as (y0 & Hy0 & Hle). exists y0. split; [exact Hy0|]. intros Hnd. apply Hle. intros Hdj. apply Hnd. apply Hkeep; [lia|exact Hdj].
      * destruct (K5 k j x Ha Hx) as (y0 & Hy0 & Hle).
        destruct (Nat.eqb_spec j ch) as [->|Njc]; [exists y; split; [reflexivity|intros Hnd; exfalso; apply Hnd; exact Hnew]|].
        destruct (Nat.eqb_spec j p) as [->|Njp].
        -- exists m. split; [reflexivity|]. intros _.
           destruct (anc_down _ _ Ha) as [[E H2]|(c & E & H2 & Hc)].
           ++ apply (M3 k x m H2 E Hx Hm).
           ++ destruct (K5 k c x Hc Hx) as (z & Hz & Hlz). destruct (Nat.eq_dec c ch) as [->|Ncc].
              ** rewrite Hm in Hz. inversion Hz; subst z. apply Hlz. apply ND; [exact Hch|exact Hchp].
              ** pose proof (div2_children c p Hp1 E) as Hcc. destruct (Hsib c Hcc) as [Hin|Hnone]; [|congruence].
                 pose proof (M3 c z m H2 E Hz Hm). assert (prio x <= prio z)%Z; [|lia]. apply Hlz. apply ND; [exact Hin|]. destruct (child_ge p c Hp1 Hcc) as (_ & Q & _). exact Q.
        -- exists y0. split; [exact Hy0|]. intros Hnd. apply Hle. intros Hdj. apply Hnd. apply Hkeep; [exact Njp|exact Hdj].
  - exact K6.
  - intros u p' ch' Hu Hc. destruct (Nat.eq_dec u t) as [->|N]; [rewrite upd3_same in Hc; discriminate|].
    rewrite upd3_other in * by exact N. destruct (K7 u p' ch' Hu Hc) as (A & B & C1 & C3). split; [exact A|]. split; [exact B|].
    assert (Hp1' : 1 <= p') by (destruct (K4 u p' Hu) as [Q _]; destruct (K1 u p' Q); lia).
    assert (Nb : forall c, c = 2 * p' \/ c = S (2 * p') -> c <> ch /\ c <> p).
    { intros c Hc'. assert (Hin : In c (plk (a3 u))) by (destruct Hc' as [->| ->]; assumption).
      split; intros ->; apply N; [apply (K2 u t ch Hin Hch)|apply (K2 u t p Hin Hpl)]. }
    split; [exact C1|]. destruct (Nb ch' C1) as [Q1 Q2].
    + intros k x m' Hk Hdk. destruct (Nb k (div2_children k p' Hp1' Hdk)) as [Q3 Q4]. rewrite !cellv_set_cell.
      destruct (Nat.eqb_spec ch' ch); [contradiction|]. destruct (Nat.eqb_spec ch' p); [contradiction|].
      destruct (Nat.eqb_spec k ch); [contradiction|]. destruct (Nat.eqb_spec k p); [contradiction|]. apply C3; assumption.
  - intros u Hu. destruct (Nat.eq_dec u t) as [->|N]; [apply K8; exact Hp|]. rewrite upd3_other in Hu by exact N. apply K8. exact Hu.
  - intros u Hu. destruct (Nat.eq_dec u t) as [->|N]; [rewrite upd3_same in Hu; discriminate|]. rewrite upd3_other in * by exact N. apply K9. exact Hu.
Qed.

(** no child is larger than the frontier: the frontier of this pop disappears *)
Lemma PF_clear g a1 a3 t p y v' :
  PopFacts g a1 a3 -> pin (a3 t) = true -> pdirty (a3 t) = Some p -> cellv g p = Some y ->
  (forall c', c' = 2 * p \/ c' = S (2 * p) ->
     (In c' (plk (a3 t)) \/ cellv g c' = None) /\ forall x, cellv g c' = Some x -> (prio x <= prio y)%Z) ->
  v' = mkP true (psh (a3 t)) (plk (a3 t)) None None (pst (a3 t)) ->
  PopFacts g a1 (upd3 a3 t v').
Proof.
  intros F Hp Hd Hy Hsib ->. pose proof F as [K1 K2 K3 K4 K5 K6 K7 K8 K9].
  destruct (K4 t p Hd) as [Hpl _]. assert (Hp1 : 1 <= p) by (destruct (K1 t p Hpl); lia).
  set (w := mkP true (psh (a3 t)) (plk (a3 t)) None None (pst (a3 t))).
  assert (Hplk : forall u, plk (upd3 a3 t w u) = plk (a3 u)).
  { intros u. destruct (Nat.eq_dec u t) as [->|N]; [rewrite upd3_same; reflexivity|rewrite upd3_other by exact N; reflexivity]. }
  assert (ND : forall j, In j (plk (a3 t)) -> j <> p -> ~ isdirty a3 j) by (intros j; apply (held_not_dirty g a1 a3 t p j F Hd)).
  constructor.
  - intros u l. rewrite Hplk. apply K1.
  - intros u u' l. rewrite !Hplk. apply K2.
  - exact K3.
  - intros u d Hu. rewrite Hplk. destruct (Nat.eq_dec u t) as [->|N]; [rewrite upd3_same in Hu; discriminate|].
    rewrite upd3_other in Hu by exact N. apply (K4 u d Hu).
  - intros k j x Ha Hx. destruct (K5 k j x Ha Hx) as (y0 & Hy0 & Hle). exists y0. split; [exact Hy0|]. intros Hnd.
    destruct (Nat.eq_dec j p) as [->|Nj].
    + rewrite Hy in Hy0. inversion Hy0; subst y0.
      destruct (anc_down _ _ Ha) as [[E H2]|(c & E & H2 & Hc)].
      * apply (proj2 (Hsib k (div2_children k p Hp1 E)) x Hx).
      * destruct (K5 k c x Hc Hx) as (z & Hz & Hlz). pose proof (div2_children c p Hp1 E) as Hcc.
        destruct (Hsib c Hcc) as [[Hin|Hnone] Hz']; [|congruence]. specialize (Hz' z Hz).
        assert (prio x <= prio z)%Z; [|lia]. apply Hlz. apply ND; [exact Hin|]. destruct (child_ge p c Hp1 Hcc) as (_ & Q & _). exact Q.
    + apply Hle. intros [u Hu]. apply Hnd. assert (N : u <> t) by (intros ->; congruence). exists u. rewrite upd3_other by exact N. exact Hu.
  - exact K6.
  - intros u p' ch' Hu Hc. destruct (Nat.eq_dec u t) as [->|N]; [rewrite upd3_same in Hc; discriminate|].
    rewrite upd3_other in * by exact N. apply (K7 u p' ch' Hu Hc).
  - intros u Hu. destruct (Nat.eq_dec u t) as [->|N]; [apply K8; exact Hp|]. rewrite upd3_other in Hu by exact N. apply K8. exact Hu.
  - intros u Hu. destruct (Nat.eq_dec u t) as [->|N]; [rewrite upd3_same in Hu; discriminate|]. rewrite upd3_other in * by exact N. apply K9. exact Hu.
Qed.

Section Pop.
  Variable cap : nat.
  Hypothesis OK : slots_ok cap = true.
  Hypothesis SH : shape_ok cap = true.
  Variable bsz : nat.
  Hypothesis Hbsz : cap < bsz.
  Notation Inv := (MsPqInv.Inv cap).

  (** *** what the invariant of MsPqInv says about the cells in use when no push is in flight *)
  Lemma occ_le g a1 tr k :
    Inv g a1 tr -> (forall t, pstore (tvs a1 t) = None) -> cellv g k <> None ->
    exists j, 1 <= j <= S (count g) /\ j <= cap /\ slot j = k.
  Proof.
    intros Hi H6 Hk. pose proof (Z_in_range cap g k (iZ _ _ _ _ Hi) Hk) as Rk.
    destruct (slot_surj cap OK k Rk) as (j & Hj & E). exists j. split; [|split; [lia|exact E]]. split; [lia|].
    destruct (Nat.le_gt_cases j (count g)) as [|Hgt]; [lia|].
    destruct (iO _ _ _ _ Hi) as (O1 & _ & O3). destruct (O1 j Hj) as [_ K]. destruct (K Hgt) as [K1|[u K1]]; [rewrite E in K1; congruence|].
    destruct (O3 u _ K1) as (_ & _ & E' & Hc). apply (slot_inj cap OK) in E'; lia.
  Qed.

  Lemma occ_ge g a1 tr j :
    Inv g a1 tr -> (forall t, pstore (tvs a1 t) = None) -> 1 <= j <= count g -> cellv g (slot j) <> None.
  Proof.
    intros Hi H6 Hj. pose proof (iC _ _ _ _ Hi) as [_ Hc]. destruct (iO _ _ _ _ Hi) as (O1 & _ & _).
    destruct (O1 j ltac:(lia)) as [K _]. destruct (K ltac:(lia)) as [K1|[u K1]]; [exact K1|]. rewrite H6 in K1. discriminate.
  Qed.

  Lemma no_desc_bottom g a1 tr t b :
    Inv g a1 tr -> (forall t, pstore (tvs a1 t) = None) -> pclear (tvs a1 t) = Some b -> forall k, anc b k -> cellv g k = None.
  Proof.
    intros Hi H6 Hb k Ha. destruct (cellv g k) as [x|] eqn:E; [|reflexivity]. exfalso.
    destruct (iO _ _ _ _ Hi) as (_ & _ & O3). destruct (O3 t b Hb) as (_ & _ & Eb & Hc).
    destruct (occ_le g a1 tr k Hi H6 ltac:(congruence)) as (j & Hj & Hjc & Ej). subst b. rewrite <- Ej in Ha.
    pose proof (anc_slot_lt cap OK SH bsz Hbsz (S (count g)) j ltac:(lia) ltac:(lia) Ha). lia.
  Qed.

  Lemma right_empty g a1 tr p :
    Inv g a1 tr -> (forall t, pstore (tvs a1 t) = None) -> 1 <= p -> cellv g (2 * p) = None -> cellv g (S (2 * p)) = None.
  Proof.
    intros Hi H6 Hp Hl. destruct (cellv g (S (2 * p))) as [x|] eqn:E; [|reflexivity]. exfalso.
    destruct (occ_le g a1 tr (S (2 * p)) Hi H6 ltac:(congruence)) as (j & Hj & Hjc & Ej).
    assert (Ho : Nat.odd (slot j) = true) by (rewrite Ej, Nat.odd_succ, Nat.even_mul; reflexivity).
    destruct (slot_left cap SH j ltac:(lia) Ho ltac:(lia)) as (m & Hm & E').
    apply (occ_ge g a1 tr m Hi H6 ltac:(lia)). rewrite E', Ej. replace (S (2 * p) - 1) with (2 * p) by lia. exact Hl.
  Qed.

  Lemma beyond g a1 tr i : Inv g a1 tr -> cap < i -> cellv g i = None.
  Proof. intros Hi H. apply (iZ _ _ _ _ Hi). right. exact H. Qed.


  (** *** the linkage to the specification (pop phase)

      Linearization point of a pop = the step that acquires m_Lock and calls dec() ("g_dec") or finds the heap
      empty ("g_emp").  A linearized pop that has not yet taken the top item OWES the specification the result the
      specification computed (the maximum [r]).  Such a pop holds m_Lock or the lock of the top cell, so there are at
      most two: [oS] (holds m_Lock, not yet the top lock: [r] is not smaller than anything left in the specification
      state) and [o1] (holds the top lock: the top cell holds an item of priority [r]). *)
  Notation Sp := (BPQueue cap).
  Notation POP := (Pop : Op Sp).

  Definition stat3 (st : status Sp) (v : pv) (h : option item) : Prop :=
    if pin v then
      match pst v with
      | NotLin => st = Pending POP
      | Owing => exists r, st = Linearized POP (RVal (Some r) : Res Sp)
      | Done => st = Linearized POP (RVal (option_map prio h) : Res Sp)
      end
    else st = Lin.Idle.
  Definition optr (o : option (nat * Z)) : list Z := match o with Some (_, r) => [r] | None => [] end.
  Definition transit (a1 : Aux) (o : option (nat * Z)) : list Z :=
    match o with Some (t, _) => map prio (olist (hand (tvs a1 t))) | None => [] end.

  Definition slotS (a1 : Aux) (a3 : Aux3) (s : list Z) (stt : nat -> status Sp) (oS : option (nat * Z)) : Prop :=
    forall t r, oS = Some (t, r) ->
      pst (a3 t) = Owing /\ pin (a3 t) = true /\ stt t = Linearized POP (RVal (Some r) : Res Sp) /\
      hs (tvs a1 t) = true /\ ~ In 1 (plk (a3 t)) /\ hand (tvs a1 t) = None /\ forall x, In x s -> (x <= r)%Z.
  Definition slot1 (g : G) (a3 : Aux3) (stt : nat -> status Sp) (o1 : option (nat * Z)) : Prop :=
    forall t r, o1 = Some (t, r) ->
      pst (a3 t) = Owing /\ pin (a3 t) = true /\ stt t = Linearized POP (RVal (Some r) : Res Sp) /\
      In 1 (plk (a3 t)) /\ exists z, cellv g 1 = Some z /\ prio z = r.
  Definition cover (a3 : Aux3) (oS o1 : option (nat * Z)) : Prop :=
    forall t, pin (a3 t) = true -> pst (a3 t) = Owing -> (exists r, oS = Some (t, r)) \/ (exists r, o1 = Some (t, r)).

  Definition PL (g : G) (a1 : Aux) (a3 : Aux3) (tr : list (nat * ev)) : Prop :=
    exists (s : list Z) (stt : nat -> status Sp) (oS o1 : option (nat * Z)),
      lp_run lp_init (atrace cap tr) = Some (s, stt) /\
      List.length s = count g /\
      (forall t, stat3 (stt t) (a3 t) (hand (tvs a1 t))) /\
      slotS a1 a3 s stt oS /\ slot1 g a3 stt o1 /\ cover a3 oS o1 /\
      Permutation (s ++ optr oS ++ optr o1) (prios cap (cellv g) ++ transit a1 o1).

  Lemma PL_quiet g a1 a3 tr t es : forallb quiet1 es = true -> PL g a1 a3 tr -> PL g a1 a3 (tr ++ Conc.tag t es).
  Proof.
    intros Hq (s & stt & oS & o1 & Hrun & R). exists s, stt, oS, o1. split; [|exact R].
    rewrite atrace_app, (proj1 (quiet_tag cap t es Hq)), app_nil_r. exact Hrun.
  Qed.

  Lemma transit_same a1 a1' o : (forall u, hand (tvs a1' u) = hand (tvs a1 u)) -> transit a1' o = transit a1 o.
  Proof. intros H. destruct o as [[u r]|]; [|reflexivity]. cbn. rewrite H. reflexivity. Qed.

  Lemma PL_same g g' a1 a1' a3 a3' tr t :
    (forall i, cellv g' i = cellv g i) -> count g' = count g ->
    (forall u, u <> t -> tvs a1' u = tvs a1 u) -> (forall u, u <> t -> a3' u = a3 u) ->
    hand (tvs a1' t) = hand (tvs a1 t) -> pin (a3' t) = pin (a3 t) -> pst (a3' t) = pst (a3 t) ->
    (pst (a3 t) = Owing -> hs (tvs a1' t) = hs (tvs a1 t) /\ (In 1 (plk (a3' t)) <-> In 1 (plk (a3 t)))) ->
    PL g a1 a3 tr -> PL g' a1' a3' tr.
  Proof.
    intros Hcv Hc Ho1 Ho3 Hhand Hpin Hpst Hown (s & stt & oS & o1 & Hrun & Hlen & Hst & HS & H1 & Hcov & HM).
    assert (Hh : forall u, hand (tvs a1' u) = hand (tvs a1 u)).
    { intros u. destruct (Nat.eq_dec u t) as [->|N]; [exact Hhand|rewrite Ho1 by exact N; reflexivity]. }
    exists s, stt, oS, o1. split; [exact Hrun|]. split; [rewrite Hc; exact Hlen|]. split; [|split; [|split; [|split]]].
    - intros u. rewrite Hh. destruct (Nat.eq_dec u t) as [->|N]; [|rewrite Ho3 by exact N; apply Hst].
      specialize (Hst t). unfold stat3 in *. rewrite Hpin, Hpst. exact Hst.
    - intros u r E. destruct (HS u r E) as (A1 & A2 & A3 & A4 & A5 & A6 & A7). rewrite Hh.
      destruct (Nat.eq_dec u t) as [->|N].
      + destruct (Hown A1) as [Hhs Hin]. rewrite Hpst, Hpin, Hhs.
        split; [exact A1|]. split; [exact A2|]. split; [exact A3|]. split; [exact A4|]. split; [|split; [exact A6|exact A7]].
        intros K. apply A5. apply Hin. exact K.
      + rewrite Ho3, Ho1 by exact N. split; [exact A1|]. split; [exact A2|]. split; [exact A3|]. split; [exact A4|]. split; [exact A5|]. split; [exact A6|exact A7].
    - intros u r E. destruct (H1 u r E) as (A1 & A2 & A3 & A4 & A5). rewrite Hcv.
      destruct (Nat.eq_dec u t) as [->|N].
      + destruct (Hown A1) as [Hhs Hin]. rewrite Hpst, Hpin.
        split; [exact A1|]. split; [exact A2|]. split; [exact A3|]. split; [apply Hin; exact A4|exact A5].
      + rewrite Ho3 by exact N. split; [exact A1|]. split; [exact A2|]. split; [exact A3|]. split; [exact A4|exact A5].
    - intros u Hp Ho. apply Hcov; destruct (Nat.eq_dec u t) as [->|N]; try congruence; rewrite <- Ho3 by exact N; assumption.
    - rewrite (prios_ext cap OK SH (cellv g) (cellv g') Hcv), (transit_same a1 a1' o1 Hh). exact HM.
  Qed.

  (** two cells held by a pop that owes nothing are exchanged *)
  Lemma PL_swap g g' a1 a3 a3' tr t i j :
    PopFacts g a1 a3 -> 1 <= i <= cap -> 1 <= j <= cap -> i <> j -> In i (plk (a3 t)) -> In j (plk (a3 t)) -> pst (a3 t) <> Owing ->
    (forall k, cellv g' k = MsPqHeap.upd (MsPqHeap.upd (cellv g) i (cellv g j)) j (cellv g i) k) -> count g' = count g ->
    (forall u, u <> t -> a3' u = a3 u) -> pin (a3' t) = pin (a3 t) -> pst (a3' t) = pst (a3 t) ->
    PL g a1 a3 tr -> PL g' a1 a3' tr.
  Proof.
    intros F Hi Hj Hij Hini Hinj Hne Hcv Hc Ho3 Hpin Hpst (s & stt & oS & o1 & Hrun & Hlen & Hst & HS & H1 & Hcov & HM).
    exists s, stt, oS, o1. split; [exact Hrun|]. split; [rewrite Hc; exact Hlen|]. split; [|split; [|split; [|split]]].
    - intros u. destruct (Nat.eq_dec u t) as [->|N]; [|rewrite Ho3 by exact N; apply Hst].
      specialize (Hst t). unfold stat3 in *. rewrite Hpin, Hpst. exact Hst.
    - intros u r E. destruct (HS u r E) as (A1 & A2 & A3 & A4 & A5 & A6 & A7).
      destruct (Nat.eq_dec u t) as [->|N]; [contradiction|]. rewrite Ho3 by exact N. auto 10.
    - intros u r E. destruct (H1 u r E) as (A1 & A2 & A3 & A4 & A5).
      destruct (Nat.eq_dec u t) as [->|N]; [contradiction|]. rewrite Ho3 by exact N.
      assert (N1 : 1 <> i /\ 1 <> j).
      { split; intros <-; apply N; [apply (k2 _ _ _ F u t 1 A4 Hini)|apply (k2 _ _ _ F u t 1 A4 Hinj)]. }
      rewrite Hcv. rewrite !MsPqHeap.upd_other by (destruct N1; auto). auto 10.
    - intros u Hp Ho. apply Hcov; destruct (Nat.eq_dec u t) as [->|N]; try congruence; rewrite <- Ho3 by exact N; assumption.
    - rewrite (prios_ext cap OK SH _ (cellv g') Hcv). rewrite (prios_swap cap OK SH (cellv g) i j Hi Hj Hij). exact HM.
  Qed.

  Lemma anc_root : forall k, 2 <= k -> anc 1 k.
  Proof.
    intros k. induction k as [k IH] using lt_wf_ind. intros Hk.
    destruct (Nat.eq_dec (Nat.div2 k) 1) as [E|N]; [rewrite <- E; apply anc1; exact Hk|].
    assert (Hd : Nat.div2 k < k) by (apply div2_lt; lia).
    assert (Hd2 : 2 <= Nat.div2 k). { destruct k as [|[|[|[|k]]]]; cbn in *; try lia. }
    apply ancS; [exact Hk|]. apply IH; assumption.
  Qed.

  Lemma prios_in h k x : 1 <= k <= cap -> h k = Some x -> In (prio x) (prios cap h).
  Proof.
    intros Hk Hx. eapply Permutation_in; [apply Permutation_sym; apply (prios_take cap OK SH h k x Hk Hx)|]. left. reflexivity.
  Qed.

  (** the spec's pop on a non-empty state *)
  Lemma pq_pop_nonempty (s : list Z) : s <> [] ->
    exists m s', pq_pop s = (s', RVal (Some m)) /\ Permutation s (m :: s') /\ (forall x, In x s' -> (x <= m)%Z) /\ S (List.length s') = List.length s.
  Proof.
    destruct s as [|x l]; [congruence|]. intros _. unfold pq_pop. set (m := zmax x l).
    pose proof (zmax_in cap OK SH x l) as Hin. fold m in Hin. destruct (zmax_ge cap OK SH x l) as [G1 G2]. fold m in G1, G2.
    exists m, (remove_one m (x :: l)). split; [reflexivity|]. pose proof (remove_one_perm cap OK SH m (x :: l) Hin) as Hp.
    split; [exact Hp|]. split; [|apply (remove_one_length cap OK SH m (x :: l) Hin)].
    intros y Hy. assert (In y (x :: l)) by (eapply Permutation_in; [apply Permutation_sym; exact Hp|right; exact Hy]).
    destruct H as [<-|H]; [exact G1|apply G2; exact H].
  Qed.

  (** Q1 of pop, the heap is not empty: the linearization point *)
  Lemma PL_lp g g' a1 a1' a3 tr t :
    slock g = false -> S_ok g a1 -> 1 <= count g -> count g' = pred (count g) -> (forall i, cellv g' i = cellv g i) ->
    a3 t = Vstart -> hand (tvs a1 t) = None ->
    (forall u, u <> t -> tvs a1' u = tvs a1 u) -> hs (tvs a1' t) = true -> hand (tvs a1' t) = None ->
    PL g a1 a3 tr ->
    PL g' a1' (upd3 a3 t (mkP true false [] None None Owing)) (tr ++ Conc.tag t [EvAcc KXchg (obj_lock 0) true; EvCli "g_dec" []]).
  Proof.
    intros Hfree HSok Hge Hc Hcv Hv Hh0 Ho1 Hhs Hhand (s & stt & oS & o1 & Hrun & Hlen & Hst & HS & H1 & Hcov & HM).
    assert (HoS : oS = None).
    { destruct oS as [[u r]|]; [|reflexivity]. destruct (HS u r eq_refl) as (_ & _ & _ & A4 & _). destruct HSok as [S1 _]. rewrite (S1 u A4) in Hfree. discriminate. }
    subst oS. destruct (pq_pop_nonempty s ltac:(intros ->; cbn in Hlen; lia)) as (m & s' & Epop & Hperm & Hmax & Hl').
    pose proof (Hst t) as Ht. unfold stat3 in Ht. rewrite Hv in Ht. cbn in Ht.
    assert (Hh : forall u, hand (tvs a1' u) = hand (tvs a1 u)).
    { intros u. destruct (Nat.eq_dec u t) as [->|N]; [congruence|rewrite Ho1 by exact N; reflexivity]. }
    assert (Ht1 : forall r, o1 <> Some (t, r)).
    { intros r E. destruct (H1 t r E) as (A1 & _). rewrite Hv in A1. discriminate. }
    exists s', (Lin.upd stt t (Linearized POP (RVal (Some m) : Res Sp))), (Some (t, m)), o1.
    split; [|split; [|split; [|split; [|split; [|split]]]]].
    - unfold Conc.tag. cbn [map]. rewrite atrace_app. cbn [atrace flat_map aev_of snd fst]. cbn. rewrite ?app_nil_r.
      apply (lp_snoc cap _ _ _ _ _ Hrun). cbn [lp_step]. rewrite Ht. cbn [sstep BPQueue mkSpec bpq_step]. rewrite Epop. reflexivity.
    - rewrite Hc. lia.
    - intros u. rewrite Hh. destruct (Nat.eq_dec u t) as [->|N].
      + rewrite LinProofs.upd_same, upd3_same. unfold stat3. cbn. eauto.
      + rewrite LinProofs.upd_other, upd3_other by exact N. apply Hst.
    - intros u r E. inversion E; subst u r. rewrite LinProofs.upd_same, upd3_same. cbn.
      split; [reflexivity|]. split; [reflexivity|]. split; [reflexivity|]. split; [exact Hhs|]. split; [tauto|]. split; [exact Hhand|exact Hmax].
    - intros u r E. destruct (H1 u r E) as (A1 & A2 & A3 & A4 & A5).
      assert (N : u <> t) by (intros ->; apply (Ht1 r E)).
      rewrite LinProofs.upd_other, upd3_other by exact N. rewrite Hcv. auto 10.
    - intros u Hp Ho. destruct (Nat.eq_dec u t) as [->|N]; [left; eauto|]. rewrite upd3_other in * by exact N.
      destruct (Hcov u Hp Ho) as [[r E]|[r E]]; [discriminate|right; eauto].
    - rewrite (prios_ext cap OK SH (cellv g) (cellv g') Hcv), (transit_same a1 a1' o1 Hh). cbn [optr app] in *.
      rewrite <- HM. rewrite Hperm. cbn [app]. apply Permutation_sym. apply Permutation_middle.
  Qed.

  (** Q1 of pop, the heap is empty *)
  Lemma PL_emp g g' a1 a1' a3 tr t :
    count g = 0 -> count g' = count g -> (forall i, cellv g' i = cellv g i) ->
    a3 t = Vstart -> hand (tvs a1 t) = None ->
    (forall u, u <> t -> tvs a1' u = tvs a1 u) -> hand (tvs a1' t) = None ->
    PL g a1 a3 tr ->
    PL g' a1' (upd3 a3 t Vdone) (tr ++ Conc.tag t [EvAcc KXchg (obj_lock 0) true; EvCli "g_emp" []]).
  Proof.
    intros Hz Hc Hcv Hv Hh0 Ho1 Hhand (s & stt & oS & o1 & Hrun & Hlen & Hst & HS & H1 & Hcov & HM).
    assert (Es : s = []) by (destruct s; [reflexivity|cbn in Hlen; lia]). subst s.
    pose proof (Hst t) as Ht. unfold stat3 in Ht. rewrite Hv in Ht. cbn in Ht.
    assert (Hh : forall u, hand (tvs a1' u) = hand (tvs a1 u)).
    { intros u. destruct (Nat.eq_dec u t) as [->|N]; [congruence|rewrite Ho1 by exact N; reflexivity]. }
    assert (HtS : forall r, oS <> Some (t, r)) by (intros r E; destruct (HS t r E) as (A1 & _); rewrite Hv in A1; discriminate).
    assert (Ht1 : forall r, o1 <> Some (t, r)) by (intros r E; destruct (H1 t r E) as (A1 & _); rewrite Hv in A1; discriminate).
    exists [], (Lin.upd stt t (Linearized POP (RVal None : Res Sp))), oS, o1.
    split; [|split; [|split; [|split; [|split; [|split]]]]].
    - unfold Conc.tag. cbn [map]. rewrite atrace_app. cbn [atrace flat_map aev_of snd fst]. cbn. rewrite ?app_nil_r.
      apply (lp_snoc cap _ _ _ _ _ Hrun). cbn [lp_step]. rewrite Ht. reflexivity.
    - rewrite Hc. exact Hlen.
    - intros u. rewrite Hh. destruct (Nat.eq_dec u t) as [->|N].
      + rewrite LinProofs.upd_same, upd3_same. unfold stat3. cbn. rewrite Hh0. reflexivity.
      + rewrite LinProofs.upd_other, upd3_other by exact N. apply Hst.
    - intros u r E. destruct (HS u r E) as (A1 & A2 & A3 & A4 & A5 & A6 & A7).
      assert (N : u <> t) by (intros ->; apply (HtS r E)).
      rewrite LinProofs.upd_other, upd3_other, Hh by exact N. rewrite Ho1 by exact N. auto 10.
    - intros u r E. destruct (H1 u r E) as (A1 & A2 & A3 & A4 & A5).
      assert (N : u <> t) by (intros ->; apply (Ht1 r E)).
      rewrite LinProofs.upd_other, upd3_other by exact N. rewrite Hcv. auto 10.
    - intros u Hp Ho. destruct (Nat.eq_dec u t) as [->|N]; [rewrite upd3_same in Ho; discriminate|]. rewrite upd3_other in * by exact N. apply Hcov; assumption.
    - rewrite (prios_ext cap OK SH (cellv g) (cellv g') Hcv), (transit_same a1 a1' o1 Hh). exact HM.
  Qed.

  Lemma count_set_lockbit g l b : count (set_lockbit g l b) = count g.
  Proof. unfold count. rewrite ctr_set_lockbit. reflexivity. Qed.

  (** Q2: the pop that holds m_Lock obtains the top lock: the top cell holds the maximum it owes *)
  Lemma PL_lock1 g a1 a3 tr t v' :
    PopFacts g a1 a3 -> Inv g a1 tr -> nlock (heap g 1) = false -> pin (a3 t) = true -> pst (a3 t) = Owing ->
    pin v' = true -> pst v' = Owing -> In 1 (plk v') ->
    PL g a1 a3 tr -> PL (set_lockbit g 1 true) a1 (upd3 a3 t v') tr.
  Proof.
    intros F Hi Hfree Hp Ho Hp' Ho' Hin' (s & stt & oS & o1 & Hrun & Hlen & Hst & HS & H1 & Hcov & HM).
    assert (Hnone : forall u, ~ In 1 (plk (a3 u))) by (intros u Hu; destruct (k1 _ _ _ F u 1 Hu) as [_ B]; congruence).
    assert (Eo1 : o1 = None) by (destruct o1 as [[u r]|]; [destruct (H1 u r eq_refl) as (_ & _ & _ & A4 & _); destruct (Hnone u A4)|reflexivity]).
    subst o1. destruct (Hcov t Hp Ho) as [[r E]|[r E]]; [|discriminate]. subst oS.
    destruct (HS t r eq_refl) as (A1 & A2 & A3 & A4 & A5 & A6 & A7). cbn [optr transit app] in HM. rewrite app_nil_r in HM.
    assert (Hnd : ~ isdirty a3 1) by (intros [u Hu]; destruct (k4 _ _ _ F u 1 Hu) as [Q _]; apply (Hnone u Q)).
    assert (Hz : exists z, cellv g 1 = Some z /\ prio z = r).
    { assert (Hr : In r (prios cap (cellv g))) by (eapply Permutation_in; [exact HM|apply in_or_app; right; left; reflexivity]).
      destruct (in_prios cap OK SH _ _ Hr) as (k & x & Hx & Ex).
      pose proof (Z_in_range cap g k (iZ _ _ _ _ Hi) ltac:(congruence)) as Rk.
      destruct (Nat.eq_dec k 1) as [->|Nk]; [exists x; auto|].
      destruct (k5 _ _ _ F k 1 x (anc_root k ltac:(lia)) Hx) as (y & Hy & Hle). specialize (Hle Hnd). exists y. split; [exact Hy|].
      assert (Hy' : In (prio y) (s ++ [r])).
      { eapply Permutation_in; [apply Permutation_sym; exact HM|]. apply (prios_in (cellv g) 1 y); [lia|exact Hy]. }
      apply in_app_or in Hy'. destruct Hy' as [Hy'|[Hy'|[]]]; [pose proof (A7 _ Hy'); lia|congruence]. }
    exists s, stt, None, (Some (t, r)). split; [exact Hrun|]. split; [rewrite count_set_lockbit; exact Hlen|]. split; [|split; [|split; [|split]]].
    - intros u. destruct (Nat.eq_dec u t) as [->|N]; [|rewrite upd3_other by exact N; apply Hst].
      rewrite upd3_same. unfold stat3. rewrite Hp', Ho'. eauto.
    - intros u r' E. discriminate.
    - intros u r' E. inversion E; subst u r'. rewrite upd3_same. split; [exact Ho'|]. split; [exact Hp'|]. split; [exact A3|]. split; [exact Hin'|].
      destruct Hz as (z & Hz1 & Hz2). exists z. rewrite cellv_set_lockbit. auto.
    - intros u Hpu Hou. destruct (Nat.eq_dec u t) as [->|N]; [right; eauto|]. rewrite upd3_other in * by exact N.
      destruct (Hcov u Hpu Hou) as [[r' E]|[r' E]]; [inversion E; congruence|discriminate].
    - rewrite (prios_ext cap OK SH (cellv g) _ (cellv_set_lockbit g 1 true)). cbn [optr transit app]. rewrite A6. cbn. rewrite app_nil_r. exact HM.
  Qed.

  (** Q4: the bottom item goes into the hand of the pop that holds the top lock *)
  Lemma PL_take g g' a1 a1' a3 tr t b y :
    1 <= b <= cap -> b <> 1 -> cellv g b = Some y -> (forall k, cellv g' k = MsPqHeap.upd (cellv g) b None k) -> count g' = count g ->
    pin (a3 t) = true -> pst (a3 t) = Owing -> In 1 (plk (a3 t)) -> hand (tvs a1 t) = None ->
    (forall u, u <> t -> tvs a1' u = tvs a1 u) -> hand (tvs a1' t) = Some y ->
    PL g a1 a3 tr -> PL g' a1' a3 tr.
  Proof.
    intros Hb Hb1 Hy Hcv Hc Hp Ho Hin Hh0 Ho1 Hh' (s & stt & oS & o1 & Hrun & Hlen & Hst & HS & H1 & Hcov & HM).
    assert (Eo1 : exists r, o1 = Some (t, r)).
    { destruct (Hcov t Hp Ho) as [[r E]|[r E]]; [|eauto]. destruct (HS t r E) as (_ & _ & _ & _ & A5 & _). contradiction. }
    destruct Eo1 as [r ->].
    exists s, stt, oS, (Some (t, r)). split; [exact Hrun|]. split; [rewrite Hc; exact Hlen|]. split; [|split; [|split; [|split]]].
    - intros u. destruct (Nat.eq_dec u t) as [->|N]; [|rewrite Ho1 by exact N; apply Hst].
      specialize (Hst t). unfold stat3 in *. rewrite Hp, Ho in *. exact Hst.
    - intros u r' E. destruct (HS u r' E) as (A1 & A2 & A3 & A4 & A5 & A6 & A7).
      assert (N : u <> t) by (intros ->; contradiction). rewrite Ho1 by exact N. auto 10.
    - intros u r' E. destruct (H1 u r' E) as (A1 & A2 & A3 & A4 & z & Hz1 & Hz2). split; [exact A1|]. split; [exact A2|]. split; [exact A3|]. split; [exact A4|].
      exists z. rewrite Hcv, MsPqHeap.upd_other by (intros K; apply Hb1; symmetry; exact K). auto.
    - exact Hcov.
    - rewrite (prios_ext cap OK SH _ (cellv g') Hcv). cbn [transit] in *. rewrite Hh', Hh0 in *. cbn [olist map] in *. rewrite app_nil_r in HM.
      rewrite HM. rewrite (prios_take cap OK SH (cellv g) b y Hb Hy). apply Permutation_cons_append.
  Qed.

  (** Q5: the top item is exchanged with the item in the hand: the debt is paid *)
  Lemma PL_poptop g g' a1 a1' a3 tr t y z v' :
    1 <= cap -> cellv g 1 = Some z -> (forall k, cellv g' k = MsPqHeap.upd (cellv g) 1 (Some y) k) -> count g' = count g ->
    pin (a3 t) = true -> pst (a3 t) = Owing -> In 1 (plk (a3 t)) -> hand (tvs a1 t) = Some y ->
    (forall u, u <> t -> tvs a1' u = tvs a1 u) -> hand (tvs a1' t) = Some z -> pin v' = true -> pst v' = Done ->
    PL g a1 a3 tr -> PL g' a1' (upd3 a3 t v') tr.
  Proof.
    intros Hcap Hz Hcv Hc Hp Ho Hin Hhy Ho1 Hh' Hp' Hd' (s & stt & oS & o1 & Hrun & Hlen & Hst & HS & H1 & Hcov & HM).
    assert (Eo1 : exists r, o1 = Some (t, r)).
    { destruct (Hcov t Hp Ho) as [[r E]|[r E]]; [|eauto]. destruct (HS t r E) as (_ & _ & _ & _ & A5 & _). contradiction. }
    destruct Eo1 as [r ->]. destruct (H1 t r eq_refl) as (B1 & B2 & B3 & B4 & z' & Hz1 & Hz2). rewrite Hz in Hz1. inversion Hz1; subst z'.
    exists s, stt, oS, None. split; [exact Hrun|]. split; [rewrite Hc; exact Hlen|]. split; [|split; [|split; [|split]]].
    - intros u. destruct (Nat.eq_dec u t) as [->|N]; [|rewrite upd3_other, Ho1 by exact N; apply Hst].
      rewrite upd3_same. unfold stat3. rewrite Hp', Hd', Hh'. cbn. rewrite Hz2. exact B3.
    - intros u r' E. destruct (HS u r' E) as (A1 & A2 & A3 & A4 & A5 & A6 & A7).
      assert (N : u <> t) by (intros ->; contradiction). rewrite upd3_other, Ho1 by exact N. auto 10.
    - intros u r' E. discriminate.
    - intros u Hpu Hou. destruct (Nat.eq_dec u t) as [->|N]; [rewrite upd3_same in Hou; congruence|]. rewrite upd3_other in * by exact N.
      destruct (Hcov u Hpu Hou) as [[r' E]|[r' E]]; [left; eauto|inversion E; congruence].
    - rewrite (prios_ext cap OK SH _ (cellv g') Hcv). cbn [transit optr] in *. rewrite Hhy in HM. cbn [olist map] in HM. rewrite !app_nil_r.
      apply Permutation_app_inv_r with (l := [r]). rewrite <- app_assoc. rewrite HM. rewrite <- Hz2.
      rewrite <- Permutation_middle, app_nil_r. rewrite <- (Permutation_middle (prios cap _) [] (prio z)), app_nil_r.
      apply Permutation_sym. apply (prios_replace cap OK SH (cellv g) 1 y z ltac:(lia) Hz).
  Qed.

  (** nBottom = 1: the top item is taken directly *)
  Lemma PL_taketop g g' a1 a1' a3 tr t z v' :
    1 <= cap -> cellv g 1 = Some z -> (forall k, cellv g' k = MsPqHeap.upd (cellv g) 1 None k) -> count g' = count g ->
    pin (a3 t) = true -> pst (a3 t) = Owing -> In 1 (plk (a3 t)) -> hand (tvs a1 t) = None ->
    (forall u, u <> t -> tvs a1' u = tvs a1 u) -> hand (tvs a1' t) = Some z -> pin v' = true -> pst v' = Done ->
    PL g a1 a3 tr -> PL g' a1' (upd3 a3 t v') tr.
  Proof.
    intros Hcap Hz Hcv Hc Hp Ho Hin Hh0 Ho1 Hh' Hp' Hd' (s & stt & oS & o1 & Hrun & Hlen & Hst & HS & H1 & Hcov & HM).
    assert (Eo1 : exists r, o1 = Some (t, r)).
    { destruct (Hcov t Hp Ho) as [[r E]|[r E]]; [|eauto]. destruct (HS t r E) as (_ & _ & _ & _ & A5 & _). contradiction. }
    destruct Eo1 as [r ->]. destruct (H1 t r eq_refl) as (B1 & B2 & B3 & B4 & z' & Hz1 & Hz2). rewrite Hz in Hz1. inversion Hz1; subst z'.
    exists s, stt, oS, None. split; [exact Hrun|]. split; [rewrite Hc; exact Hlen|]. split; [|split; [|split; [|split]]].
    - intros u. destruct (Nat.eq_dec u t) as [->|N]; [|rewrite upd3_other, Ho1 by exact N; apply Hst].
      rewrite upd3_same. unfold stat3. rewrite Hp', Hd', Hh'. cbn. rewrite Hz2. exact B3.
    - intros u r' E. destruct (HS u r' E) as (A1 & A2 & A3 & A4 & A5 & A6 & A7).
      assert (N : u <> t) by (intros ->; contradiction). rewrite upd3_other, Ho1 by exact N. auto 10.
    - intros u r' E. discriminate.
    - intros u Hpu Hou. destruct (Nat.eq_dec u t) as [->|N]; [rewrite upd3_same in Hou; congruence|]. rewrite upd3_other in * by exact N.
      destruct (Hcov u Hpu Hou) as [[r' E]|[r' E]]; [left; eauto|inversion E; congruence].
    - rewrite (prios_ext cap OK SH _ (cellv g') Hcv). cbn [transit optr] in *. rewrite Hh0 in HM. cbn [olist map] in HM. rewrite !app_nil_r in *.
      apply Permutation_app_inv_r with (l := [r]). rewrite <- app_assoc. rewrite HM. rewrite <- Hz2.
      rewrite <- Permutation_middle, app_nil_r. apply (prios_take cap OK SH (cellv g) 1 z ltac:(lia) Hz).
  Qed.

  Lemma PL_inv_pop g a1 a1' a3 tr t :
    pin (a3 t) = false -> (forall u, u <> t -> tvs a1' u = tvs a1 u) ->
    PL g a1 a3 tr -> PL g a1' (upd3 a3 t Vstart) (tr ++ Conc.tag t [EvCli "inv_pop" []]).
  Proof.
    intros Hp Ho1 (s & stt & oS & o1 & Hrun & Hlen & Hst & HS & H1 & Hcov & HM).
    pose proof (Hst t) as Ht. unfold stat3 in Ht. rewrite Hp in Ht.
    assert (HtS : forall r, oS <> Some (t, r)) by (intros r E; destruct (HS t r E) as (_ & A2 & _); congruence).
    assert (Ht1 : forall r, o1 <> Some (t, r)) by (intros r E; destruct (H1 t r E) as (_ & A2 & _); congruence).
    exists s, (Lin.upd stt t (Pending POP)), oS, o1. split; [|split; [exact Hlen|split; [|split; [|split; [|split]]]]].
    - unfold Conc.tag. cbn [map]. rewrite atrace_app. cbn [atrace flat_map aev_of snd fst]. cbn. rewrite ?app_nil_r.
      apply (lp_snoc cap _ _ _ _ _ Hrun). cbn [lp_step]. rewrite Ht. reflexivity.
    - intros u. destruct (Nat.eq_dec u t) as [->|N].
      + rewrite LinProofs.upd_same, upd3_same. reflexivity.
      + rewrite LinProofs.upd_other, upd3_other, Ho1 by exact N. apply Hst.
    - intros u r E. destruct (HS u r E) as (A1 & A2 & A3 & A4 & A5 & A6 & A7).
      assert (N : u <> t) by (intros ->; apply (HtS r E)). rewrite LinProofs.upd_other, upd3_other, Ho1 by exact N. auto 10.
    - intros u r E. destruct (H1 u r E) as (A1 & A2 & A3 & A4 & A5).
      assert (N : u <> t) by (intros ->; apply (Ht1 r E)). rewrite LinProofs.upd_other, upd3_other by exact N. auto 10.
    - intros u Hpu Hou. destruct (Nat.eq_dec u t) as [->|N]; [rewrite upd3_same in Hou; discriminate|]. rewrite upd3_other in * by exact N. apply Hcov; assumption.
    - assert (E : transit a1' o1 = transit a1 o1).
      { destruct o1 as [[u r]|]; [|reflexivity]. cbn. rewrite Ho1; [reflexivity|]. intros ->. apply (Ht1 r eq_refl). }
      rewrite E. exact HM.
  Qed.

  (** the first pop after a quiescent push phase *)
  Lemma PL_first g a1' a3 tr t s (stt : nat -> status Sp) :
    lp_run lp_init (atrace cap tr) = Some (s, stt) -> List.length s = count g -> (forall u, stt u = Lin.Idle) ->
    Permutation s (prios cap (cellv g)) -> (forall u, pin (a3 u) = false) ->
    PL g a1' (upd3 a3 t Vstart) (tr ++ Conc.tag t [EvCli "inv_pop" []]).
  Proof.
    intros Hrun Hlen Hidle HM Hp.
    exists s, (Lin.upd stt t (Pending POP)), None, None. split; [|split; [exact Hlen|split; [|split; [|split; [|split]]]]].
    - unfold Conc.tag. cbn [map]. rewrite atrace_app. cbn [atrace flat_map aev_of snd fst]. cbn. rewrite ?app_nil_r.
      apply (lp_snoc cap _ _ _ _ _ Hrun). cbn [lp_step]. rewrite Hidle. reflexivity.
    - intros u. destruct (Nat.eq_dec u t) as [->|N].
      + rewrite LinProofs.upd_same, upd3_same. reflexivity.
      + rewrite LinProofs.upd_other, upd3_other by exact N. unfold stat3. rewrite Hp. apply Hidle.
    - intros u r E. discriminate.
    - intros u r E. discriminate.
    - intros u Hpu Hou. destruct (Nat.eq_dec u t) as [->|N]; [rewrite upd3_same in Hou; discriminate|]. rewrite upd3_other in * by exact N. rewrite Hp in Hpu. discriminate.
    - cbn. rewrite !app_nil_r. exact HM.
  Qed.

  Lemma PL_ret_pop g a1 a1' a3 tr t args rv :
    a3 t = Vdone -> aev_of cap (t, EvCli "ret_pop" args) = [@ARes Sp t (RVal rv : Res Sp)] -> option_map prio (hand (tvs a1 t)) = rv ->
    (forall u, u <> t -> tvs a1' u = tvs a1 u) ->
    PL g a1 a3 tr -> PL g a1' (upd3 a3 t idle3) (tr ++ Conc.tag t [EvCli "ret_pop" args]).
  Proof.
    intros Hv Hae Hrv Ho1 (s & stt & oS & o1 & Hrun & Hlen & Hst & HS & H1 & Hcov & HM).
    pose proof (Hst t) as Ht. unfold stat3 in Ht. rewrite Hv in Ht. cbn in Ht. rewrite Hrv in Ht.
    assert (HtS : forall r, oS <> Some (t, r)) by (intros r E; destruct (HS t r E) as (A1 & _); rewrite Hv in A1; discriminate).
    assert (Ht1 : forall r, o1 <> Some (t, r)) by (intros r E; destruct (H1 t r E) as (A1 & _); rewrite Hv in A1; discriminate).
    exists s, (Lin.upd stt t Lin.Idle), oS, o1. split; [|split; [exact Hlen|split; [|split; [|split; [|split]]]]].
    - unfold Conc.tag. cbn [map]. rewrite atrace_app. unfold atrace at 2. cbn [flat_map]. rewrite Hae. cbn [app].
      apply (lp_snoc cap _ _ _ _ _ Hrun). cbn [lp_step]. rewrite Ht.
      assert (E : res_eqb Sp (RVal rv : Res Sp) (RVal rv : Res Sp) = true) by (apply res_eqb_spec; reflexivity). rewrite E. reflexivity.
    - intros u. destruct (Nat.eq_dec u t) as [->|N].
      + rewrite LinProofs.upd_same, upd3_same. reflexivity.
      + rewrite LinProofs.upd_other, upd3_other, Ho1 by exact N. apply Hst.
    - intros u r E. destruct (HS u r E) as (A1 & A2 & A3 & A4 & A5 & A6 & A7).
      assert (N : u <> t) by (intros ->; apply (HtS r E)). rewrite LinProofs.upd_other, upd3_other, Ho1 by exact N. auto 10.
    - intros u r E. destruct (H1 u r E) as (A1 & A2 & A3 & A4 & A5).
      assert (N : u <> t) by (intros ->; apply (Ht1 r E)). rewrite LinProofs.upd_other, upd3_other by exact N. auto 10.
    - intros u Hpu Hou. destruct (Nat.eq_dec u t) as [->|N]; [rewrite upd3_same in Hou; discriminate|]. rewrite upd3_other in * by exact N. apply Hcov; assumption.
    - assert (E : transit a1' o1 = transit a1 o1).
      { destruct o1 as [[u r]|]; [|reflexivity]. cbn. rewrite Ho1; [reflexivity|]. intros ->. apply (Ht1 r eq_refl). }
      rewrite E. exact HM.
  Qed.

  (** a pop that owes nothing changes only its own ghost state and node locks *)
  Lemma PL_node g g' a1 a3 a3' tr t :
    (forall i, cellv g' i = cellv g i) -> count g' = count g -> (forall u, u <> t -> a3' u = a3 u) ->
    pin (a3' t) = pin (a3 t) -> pst (a3' t) = pst (a3 t) -> pst (a3 t) <> Owing ->
    PL g a1 a3 tr -> PL g' a1 a3' tr.
  Proof.
    intros Hcv Hc Ho3 Hpin Hpst Hne L. apply (PL_same g g' a1 a1 a3 a3' tr t); auto. intros E. contradiction.
  Qed.

  (** *** the third component of the invariant *)
  (** the phase discipline of MsPqPush instantiated *)
  Definition Pq (tr : list (nat * ev)) (t : nat) : Prop := In t (qq (scan_of tr)).
  Lemma HDq : forall tr t es, forallb pushev es = true -> dq (tr ++ Conc.tag t es) = dq tr.
  Proof. exact dq_pushev. Qed.
  Lemma HPq : forall tr t es u, forallb pushev es = true -> Pq tr u -> Pq (tr ++ Conc.tag t es) u.
  Proof. intros tr t es u H. unfold Pq. rewrite (qq_pushev tr t es H). auto. Qed.
  Lemma HPDq : forall tr u, Pq tr u -> dq tr = true.
  Proof. intros tr u H. unfold dq. rewrite (ne_in _ _ H). apply orb_true_r. Qed.
  Notation Ext := (MsPqPhasesPush.Ext dq Pq).
  Notation JInv := (MsPqPhasesPush.JInv cap dq Pq).

  Lemma sn_pushev es : forallb sn es = true -> forallb pushev es = true.
  Proof.
    induction es as [|e es IH]; cbn [forallb]; [auto|]. rewrite !andb_true_iff. intros [He Hes]. split; [|apply IH; exact Hes].
    destruct e as [| n args]; [reflexivity|]. cbn in *. rewrite negb_true_iff, !orb_false_iff in *. tauto.
  Qed.
  Lemma sn_popev es : forallb sn es = true -> forallb popev es = true.
  Proof.
    induction es as [|e es IH]; cbn [forallb]; [auto|]. rewrite !andb_true_iff. intros [He Hes]. split; [|apply IH; exact Hes].
    destruct e as [| n args]; [reflexivity|]. cbn in *. rewrite negb_true_iff, !orb_false_iff in *. tauto.
  Qed.

  Definition PExt (g : G) (a1 : Aux) (a3 : Aux3) (tr : list (nat * ev)) : Prop :=
    (forall t, psh (a3 t) = true -> In t (pp (scan_of tr))) /\
    (forall t, pin (a3 t) = true -> In t (qq (scan_of tr))) /\
    (forall t, inop (tvs a1 t) = true -> psh (a3 t) = true \/ pin (a3 t) = true) /\
    (forall t, pin (a3 t) = false -> plk (a3 t) = [] /\ pdirty (a3 t) = None /\ pst (a3 t) = NotLin) /\
    (dp tr = false -> PopFacts g a1 a3 /\ PL g a1 a3 tr).

  Definition TAux := ((Aux * Aux2) * Aux3)%type.
  Definition tview (a : TAux) (t : nat) : (tv * tv2) * pv := (jview (fst a) t, snd a t).
  Definition TInv (g : G) (a : TAux) (tr : list (nat * ev)) : Prop :=
    JInv g (fst a) tr /\ PExt g (fst (fst a)) (snd a) tr.
  Notation jsafe := (@Conc.safe G V ev JAux (tv * tv2) jview JInv).
  Notation tsafe := (@Conc.safe G V ev TAux ((tv * tv2) * pv) tview TInv).

  (** *** while this thread is inside a push nothing is claimed by [PExt]: programs that emit only scan-neutral
          events lift from [jsafe] *)
  Fixpoint quietp {R} (p : prog R) : Prop :=
    match p with
    | Ret _ => True
    | Emit es k => forallb sn es = true /\ quietp k
    | Act f k => (forall g, forallb sn (snd (f g)) = true) /\ forall v, quietp (k v)
    end.

  Lemma PExt_push g g' a1 a1' a3 tr t es :
    psh (a3 t) = true -> forallb sn es = true -> (forall u, u <> t -> tvs a1' u = tvs a1 u) ->
    PExt g a1 a3 tr -> PExt g' a1' a3 (tr ++ Conc.tag t es).
  Proof.
    intros Hp Hes Hoth (U1 & U3 & U4 & U6 & U5). unfold PExt, dp. rewrite (scan_neutral_app tr t es Hes).
    split; [exact U1|]. split; [exact U3|]. split; [|split; [exact U6|]].
    - intros u Hu. destruct (Nat.eq_dec u t) as [->|N]; [left; exact Hp|]. rewrite Hoth in Hu by exact N. apply (U4 u Hu).
    - intros Hb. rewrite (ne_in _ _ (U1 t Hp)), orb_true_r in Hb. discriminate.
  Qed.

  Lemma lift_psh {R} (p : prog R) : forall t l (Q : R -> tv * tv2 -> Prop) P3,
    psh P3 = true -> quietp p -> jsafe t p l Q -> tsafe t p (l, P3) (fun r l' => Q r (fst l') /\ snd l' = P3).
  Proof.
    induction p as [r|es k IH|f k IH]; intros t l Q P3 Hv Hq H; cbn [Conc.safe quietp] in *.
    - auto.
    - destruct Hq as [Hq1 Hq2]. intros g [a12 a3] tr [Hi He] Hvw. unfold tview in Hvw. cbn [fst snd] in *. inversion Hvw as [[V1 V2]].
      destruct (H g a12 tr Hi V1) as (a12' & K1 & K2 & K3). exists (a12', a3). split; [|split].
      + split; [exact K1|]. cbn [fst snd]. apply (PExt_push g g (fst a12) (fst a12') a3 tr t es); [rewrite V2; exact Hv|exact Hq1| |exact He].
        intros u Hu. pose proof (K2 u Hu) as E. unfold jview in E. inversion E. reflexivity.
      + intros u Hu. unfold tview. cbn [fst snd]. f_equal. apply (K2 u Hu).
      + unfold tview. cbn [fst snd]. rewrite V2. apply IH; assumption.
    - destruct Hq as [Hq1 Hq2]. intros g [a12 a3] tr [Hi He] Hvw. unfold tview in Hvw. cbn [fst snd] in *. inversion Hvw as [[V1 V2]].
      destruct (H g a12 tr Hi V1) as (a12' & K1 & K2 & K3). exists (a12', a3). split; [|split].
      + split; [exact K1|]. cbn [fst snd]. apply (PExt_push g _ (fst a12) (fst a12') a3 tr t _); [rewrite V2; exact Hv|apply Hq1| |exact He].
        intros u Hu. pose proof (K2 u Hu) as E. unfold jview in E. inversion E. reflexivity.
      + intros u Hu. unfold tview. cbn [fst snd]. f_equal. apply (K2 u Hu).
      + unfold tview. cbn [fst snd]. rewrite V2. apply IH; [exact Hv|apply Hq2|exact K3].
  Qed.

  (** *** a step of a pop *)
  Lemma PExt_pop g g' a1 a1' a3 a3' tr t es :
    pin (a3 t) = true -> pin (a3' t) = true -> psh (a3' t) = psh (a3 t) ->
    (forall u, u <> t -> tvs a1' u = tvs a1 u) -> (forall u, u <> t -> a3' u = a3 u) -> forallb sn es = true ->
    (PopFacts g a1 a3 -> PL g a1 a3 tr -> PopFacts g' a1' a3' /\ PL g' a1' a3' (tr ++ Conc.tag t es)) ->
    PExt g a1 a3 tr -> PExt g' a1' a3' (tr ++ Conc.tag t es).
  Proof.
    intros Hp Hp' Hs Hoth1 Hoth Hes HF (U1 & U3 & U4 & U6 & U5). unfold PExt, dp. rewrite (scan_neutral_app tr t es Hes).
    assert (Hpsh : forall u, psh (a3' u) = psh (a3 u)) by (intros u; destruct (Nat.eq_dec u t) as [->|N]; [exact Hs|rewrite Hoth by exact N; reflexivity]).
    split; [intros u; rewrite Hpsh; apply U1|].
    split; [intros u Hu; destruct (Nat.eq_dec u t) as [->|N]; [apply U3; exact Hp|rewrite Hoth in Hu by exact N; apply U3; exact Hu]|].
    split; [|split].
    - intros u Hu. destruct (Nat.eq_dec u t) as [->|N]; [right; exact Hp'|]. rewrite Hoth1 in Hu by exact N. rewrite Hoth by exact N. rewrite <- (Hpsh u), Hoth by exact N. apply (U4 u Hu).
    - intros u Hu. destruct (Nat.eq_dec u t) as [->|N]; [congruence|]. rewrite Hoth in * by exact N. apply U6. exact Hu.
    - intros Hb. destruct (U5 Hb) as [F L]. apply HF; assumption.
  Qed.

  Lemma PExt_pop_id g a1 a3 tr t es :
    pin (a3 t) = true -> forallb sn es = true -> forallb quiet1 es = true -> PExt g a1 a3 tr -> PExt g a1 a3 (tr ++ Conc.tag t es).
  Proof.
    intros Hp H1 H2. apply (PExt_pop g g a1 a1 a3 a3 tr t es); auto. intros F L. split; [exact F|apply PL_quiet; assumption].
  Qed.

  (** the second component under a step of a thread inside a pop *)
  Lemma Ext_pop g g' a1 a1' a2 tr t es :
    a2 t = mkT2 None true -> forallb sn es = true -> (forall u, u <> t -> tvs a1' u = tvs a1 u) ->
    Ext g a1 a2 tr -> Ext g' a1' a2 (tr ++ Conc.tag t es).
  Proof.
    intros V2 Hes Hoth He. apply (Ext_susp dq Pq HPDq g g' a1 a1' a2 tr _ t); auto; try (rewrite V2; reflexivity).
    intros u. unfold Pq. rewrite (scan_neutral_app tr t es Hes). auto.
  Qed.

  Definition optQ3 {R} (Q : R -> (tv * tv2) * pv -> Prop) : option R -> (tv * tv2) * pv -> Prop :=
    fun r l => match r with Some x => Q x l | None => True end.

  (** the shape of every view of a thread inside a pop *)
  Definition PV (P1 : tv) (P3 : pv) : (tv * tv2) * pv := ((P1, mkT2 None true), P3).

  Lemma tsafe_stop_err {R} t c P1 P3 (Q0 : R -> (tv * tv2) * pv -> Prop) :
    pin P3 = true -> tsafe t (@stop_err R c) (PV P1 P3) (optQ3 Q0).
  Proof.
    intros Hp. unfold stop_err. destruct c as [|[|c]]; cbn [Conc.safe]; intros g [[a1 a2] a3] tr [[Hi He] Hx] Hv;
      unfold tview, jview, PV in Hv; cbn [fst snd] in *; inversion Hv as [[V1 V2 V3]]; assert (Hpt : pin (a3 t) = true) by (rewrite V3; exact Hp); exists ((a1, a2), a3);
      (split; [split; [split; [apply Inv_irrelevant; [reflexivity|exact Hi]|cbn [fst snd]; apply (Ext_pop g g a1 a1 a2 tr t _ V2); [reflexivity|intros; reflexivity|exact He]]|
                       cbn [fst snd]; apply (PExt_pop_id g a1 a3 tr t); auto]
              |split; [intros u Hu; reflexivity|exact I]]).
  Qed.

  Lemma tsafe_checked {R} t v (k : prog (option R)) P1 P3 (Q0 : R -> (tv * tv2) * pv -> Prop) :
    pin P3 = true -> (verr v = 0 -> tsafe t k (PV P1 P3) (optQ3 Q0)) -> tsafe t (checked v k) (PV P1 P3) (optQ3 Q0).
  Proof.
    intros Hp H. unfold checked. destruct (verr v) as [|c] eqn:E; [apply H; reflexivity|apply tsafe_stop_err; exact Hp].
  Qed.

  Lemma tframe t a1 a1' (a2 : Aux2) a3 a3' :
    (forall u, u <> t -> tvs a1' u = tvs a1 u) -> (forall u, u <> t -> a3' u = a3 u) ->
    Conc.frame tview t ((a1, a2), a3) ((a1', a2), a3').
  Proof. intros H1 H3 u Hu. unfold tview, jview. cbn [fst snd]. rewrite H1, H3 by exact Hu. reflexivity. Qed.

  Lemma tsafe_lock {R} lf t l bd (k : V -> prog (option R)) P1 P3 (Q0 : R -> (tv * tv2) * pv -> Prop) :
    pin P3 = true ->
    (forall g a1 a3 tr, Inv g a1 tr -> tvs a1 t = P1 -> a3 t = P3 -> lockbit g l = false ->
       exists a1' a3',
         Inv (fst (fst (bd (set_lockbit g l true)))) a1'
             (tr ++ Conc.tag t (EvAcc KXchg (obj_lock l) true :: snd (bd (set_lockbit g l true)))) /\
         forallb sn (snd (bd (set_lockbit g l true))) = true /\
         (forall u, u <> t -> tvs a1' u = tvs a1 u) /\ (forall u, u <> t -> a3' u = a3 u) /\
         pin (a3' t) = true /\ psh (a3' t) = psh P3 /\
         (PopFacts g a1 a3 -> PL g a1 a3 tr ->
          PopFacts (fst (fst (bd (set_lockbit g l true)))) a1' a3' /\
          PL (fst (fst (bd (set_lockbit g l true)))) a1' a3' (tr ++ Conc.tag t (EvAcc KXchg (obj_lock l) true :: snd (bd (set_lockbit g l true))))) /\
         (verr (snd (fst (bd (set_lockbit g l true)))) = 0 ->
          tsafe t (k (unbusy (snd (fst (bd (set_lockbit g l true)))))) (PV (tvs a1' t) (a3' t)) (optQ3 Q0))) ->
    tsafe t (lock_ lf l bd k) (PV P1 P3) (optQ3 Q0).
  Proof.
    intros Hp H. unfold lock_, obind. apply Conc.safe_bind.
    set (Qmid := fun (r : option V) (l' : (tv * tv2) * pv) =>
           tsafe t (match r with Some x => checked x (k x) | None => Ret None end) l' (optQ3 Q0)).
    change (tsafe t (lock_outer lf l bd) (PV P1 P3) Qmid).
    assert (Both : tsafe t (lock_outer lf l bd) (PV P1 P3) Qmid /\ tsafe t (lock_inner lf l bd) (PV P1 P3) Qmid).
    { induction lf as [|f [IHo IHi]]; [split; exact I|]. split.
      - cbn [lock_outer Conc.safe]. intros g [[a1 a2] a3] tr [[Hi He] Hx] Hv.
        unfold tview, jview, PV in Hv; cbn [fst snd] in *; inversion Hv as [[V1 V2 V3]]; assert (Hpt : pin (a3 t) = true) by (rewrite V3; exact Hp).
        unfold a_lock. destruct (lockbit g l) eqn:Hl.
        + exists ((a1, a2), a3). cbn [fst snd]. split; [split; [split; [apply Inv_irrelevant; [reflexivity|exact Hi]|]|]|].
          * cbn [fst snd]. apply (Ext_pop g g a1 a1 a2 tr t _ V2); [reflexivity|intros; reflexivity|exact He].
          * cbn [fst snd]. apply (PExt_pop_id g a1 a3 tr t); auto.
          * split; [intros u Hu; reflexivity|]. cbn [vbusy vbusyV]. unfold tview, jview. cbn [fst snd]. rewrite V1, V2, V3. exact IHi.
        + destruct (H g a1 a3 tr Hi V1 V3 Hl) as (a1' & a3' & K1 & K2 & K3 & K4 & K5 & K6 & K7 & K8).
          destruct (bd (set_lockbit g l true)) as [[g' v] es]. cbn [fst snd] in *.
          exists ((a1', a2), a3'). split; [split; [split; [exact K1|]|]|].
          * cbn [fst snd]. apply (Ext_pop g g' a1 a1' a2 tr t _ V2); [cbn [forallb sn]; exact K2|exact K3|exact He].
          * cbn [fst snd]. apply (PExt_pop g g' a1 a1' a3 a3' tr t); auto. rewrite V3; exact K6.
          * split; [apply tframe; assumption|]. cbn [vbusy unbusy Conc.safe]. unfold tview, jview. cbn [fst snd]. rewrite V2.
            apply tsafe_checked; [exact K5|exact K8].
      - cbn [lock_inner Conc.safe]. intros g [[a1 a2] a3] tr [[Hi He] Hx] Hv.
        unfold tview, jview, PV in Hv; cbn [fst snd] in *; inversion Hv as [[V1 V2 V3]]; assert (Hpt : pin (a3 t) = true) by (rewrite V3; exact Hp).
        unfold a_load. cbn [fst snd]. exists ((a1, a2), a3).
        split; [split; [split; [apply Inv_irrelevant; [reflexivity|exact Hi]|]|]|].
        + cbn [fst snd]. apply (Ext_pop g g a1 a1 a2 tr t _ V2); [reflexivity|intros; reflexivity|exact He].
        + cbn [fst snd]. apply (PExt_pop_id g a1 a3 tr t); auto.
        + split; [intros u Hu; reflexivity|]. unfold tview, jview. cbn [fst snd]. rewrite V1, V2, V3.
          destruct (lockbit g l); cbn [vbusy vbusyV v0]; assumption. }
    apply Both.
  Qed.

  Lemma tsafe_unlock {R} t l bd (k : V -> prog (option R)) P1 P3 (Q0 : R -> (tv * tv2) * pv -> Prop) :
    pin P3 = true ->
    (forall g a1 a3 tr, Inv g a1 tr -> tvs a1 t = P1 -> a3 t = P3 ->
       exists a1' a3',
         Inv (set_lockbit (fst (fst (bd g))) l false) a1' (tr ++ Conc.tag t (EvAcc KSt (obj_lock l) true :: snd (bd g))) /\
         forallb sn (snd (bd g)) = true /\
         (forall u, u <> t -> tvs a1' u = tvs a1 u) /\ (forall u, u <> t -> a3' u = a3 u) /\
         pin (a3' t) = true /\ psh (a3' t) = psh P3 /\
         (PopFacts g a1 a3 -> PL g a1 a3 tr ->
          PopFacts (set_lockbit (fst (fst (bd g))) l false) a1' a3' /\
          PL (set_lockbit (fst (fst (bd g))) l false) a1' a3' (tr ++ Conc.tag t (EvAcc KSt (obj_lock l) true :: snd (bd g)))) /\
         (verr (snd (fst (bd g))) = 0 -> tsafe t (k (snd (fst (bd g)))) (PV (tvs a1' t) (a3' t)) (optQ3 Q0))) ->
    tsafe t (unlock_ l bd k) (PV P1 P3) (optQ3 Q0).
  Proof.
    intros Hp H. unfold unlock_, unlock. cbn [Conc.bind Conc.safe]. intros g [[a1 a2] a3] tr [[Hi He] Hx] Hv.
    unfold tview, jview, PV in Hv; cbn [fst snd] in *; inversion Hv as [[V1 V2 V3]]; assert (Hpt : pin (a3 t) = true) by (rewrite V3; exact Hp).
    destruct (H g a1 a3 tr Hi V1 V3) as (a1' & a3' & K1 & K2 & K3 & K4 & K5 & K6 & K7 & K8). unfold a_unlock.
    destruct (bd g) as [[g' v] es]. cbn [fst snd] in *. exists ((a1', a2), a3').
    split; [split; [split; [exact K1|]|]|].
    - cbn [fst snd]. apply (Ext_pop g _ a1 a1' a2 tr t _ V2); [cbn [forallb sn]; exact K2|exact K3|exact He].
    - cbn [fst snd]. apply (PExt_pop g _ a1 a1' a3 a3' tr t); auto. rewrite V3; exact K6.
    - split; [apply tframe; assumption|]. unfold tview, jview. cbn [fst snd]. rewrite V2. apply tsafe_checked; [exact K5|exact K8].
  Qed.

  (** node locks: the first two components do not move *)
  Lemma tsafe_lock_node {R} lf t l bd (k : V -> prog (option R)) P1 P3 (Q0 : R -> (tv * tv2) * pv -> Prop) :
    l <> 0 -> pin P3 = true ->
    (forall g a1 a3 tr, Inv g a1 tr -> tvs a1 t = P1 -> a3 t = P3 -> nlock (heap g l) = false ->
       exists a3',
         Inv (fst (fst (bd (set_lockbit g l true)))) a1 tr /\ snd (bd (set_lockbit g l true)) = [] /\
         (forall u, u <> t -> a3' u = a3 u) /\ pin (a3' t) = true /\ psh (a3' t) = psh P3 /\
         (PopFacts g a1 a3 -> PL g a1 a3 tr ->
          PopFacts (fst (fst (bd (set_lockbit g l true)))) a1 a3' /\ PL (fst (fst (bd (set_lockbit g l true)))) a1 a3' tr) /\
         (verr (snd (fst (bd (set_lockbit g l true)))) = 0 ->
          tsafe t (k (unbusy (snd (fst (bd (set_lockbit g l true)))))) (PV P1 (a3' t)) (optQ3 Q0))) ->
    tsafe t (lock_ lf l bd k) (PV P1 P3) (optQ3 Q0).
  Proof.
    intros Hl Hp H. apply tsafe_lock; [exact Hp|]. intros g a1 a3 tr Hi V1 V3 Hfree.
    assert (Hf : nlock (heap g l) = false) by (destruct l; [congruence|exact Hfree]).
    destruct (H g a1 a3 tr Hi V1 V3 Hf) as (a3' & K1 & K2 & K3 & K4 & K5 & K6 & K7).
    exists a1, a3'. rewrite K2. split; [apply Inv_irrelevant; [reflexivity|exact K1]|]. split; [reflexivity|].
    split; [intros; reflexivity|]. split; [exact K3|]. split; [exact K4|]. split; [exact K5|]. split; [|rewrite V1; exact K7].
    intros F L. destruct (K6 F L) as [F' L']. split; [exact F'|]. apply PL_quiet; [reflexivity|exact L'].
  Qed.

  Lemma tsafe_unlock_node {R} t l bd (k : V -> prog (option R)) P1 P3 (Q0 : R -> (tv * tv2) * pv -> Prop) :
    l <> 0 -> pin P3 = true ->
    (forall g a1 a3 tr, Inv g a1 tr -> tvs a1 t = P1 -> a3 t = P3 ->
       exists a3',
         Inv (fst (fst (bd g))) a1 tr /\ snd (bd g) = [] /\
         (forall u, u <> t -> a3' u = a3 u) /\ pin (a3' t) = true /\ psh (a3' t) = psh P3 /\
         (PopFacts g a1 a3 -> PL g a1 a3 tr ->
          PopFacts (set_lockbit (fst (fst (bd g))) l false) a1 a3' /\ PL (set_lockbit (fst (fst (bd g))) l false) a1 a3' tr) /\
         (verr (snd (fst (bd g))) = 0 -> tsafe t (k (snd (fst (bd g)))) (PV P1 (a3' t)) (optQ3 Q0))) ->
    tsafe t (unlock_ l bd k) (PV P1 P3) (optQ3 Q0).
  Proof.
    intros Hl Hp H. apply tsafe_unlock; [exact Hp|]. intros g a1 a3 tr Hi V1 V3.
    destruct (H g a1 a3 tr Hi V1 V3) as (a3' & K1 & K2 & K3 & K4 & K5 & K6 & K7).
    exists a1, a3'. rewrite K2. split; [apply Inv_irrelevant; [reflexivity|apply Inv_nodelock; assumption]|]. split; [reflexivity|].
    split; [intros; reflexivity|]. split; [exact K3|]. split; [exact K4|]. split; [exact K5|]. split; [|rewrite V1; exact K7].
    intros F L. destruct (K6 F L) as [F' L']. split; [exact F'|]. apply PL_quiet; [reflexivity|exact L'].
  Qed.

  Lemma tsafe_lock_plain {R} lf t l (k : V -> prog (option R)) P1 L D st0 (Q0 : R -> (tv * tv2) * pv -> Prop) :
    l <> 0 -> (st0 = Owing -> l <> 1) -> tsafe t (k v0) (PV P1 (mkP true false (l :: L) D None st0)) (optQ3 Q0) ->
    tsafe t (lock_ lf l body_none k) (PV P1 (mkP true false L D None st0)) (optQ3 Q0).
  Proof.
    intros Hl Hl1 H. apply tsafe_lock_node; [exact Hl|reflexivity|]. intros g a1 a3 tr Hi V1 V3 Hfree. cbn [body_none fst snd].
    exists (upd3 a3 t (mkP true false (l :: L) D None st0)). split; [apply Inv_nodelock; assumption|]. split; [reflexivity|].
    split; [intros u Hu; apply upd3_other; exact Hu|]. rewrite upd3_same. split; [reflexivity|]. split; [reflexivity|]. split; [|intros _; exact H].
    intros F PLh. split.
    - apply (PF_lock g a1 a3 t l _ F Hl Hfree); rewrite ?V3; try reflexivity. intros p ch _ E. discriminate.
    - apply (PL_same g _ a1 a1 a3 _ tr t); auto; try (rewrite upd3_same, V3; reflexivity).
      + intros i. apply cellv_set_lockbit.
      + apply count_set_lockbit.
      + intros u Hu. apply upd3_other. exact Hu.
      + rewrite upd3_same, V3. cbn [pst plk]. intros E. split; [reflexivity|]. specialize (Hl1 E). split; [intros [K|K]; [congruence|exact K]|intros K; right; exact K].
  Qed.

  Lemma tsafe_unlock_plain {R} t l (k : V -> prog (option R)) P1 L L' D st0 (Q0 : R -> (tv * tv2) * pv -> Prop) :
    l <> 0 -> st0 <> Owing -> In l L -> (forall x, In x L' -> In x L /\ x <> l) -> (forall d, D = Some d -> In d L') ->
    tsafe t (k v0) (PV P1 (mkP true false L' D None st0)) (optQ3 Q0) ->
    tsafe t (unlock_ l body_none k) (PV P1 (mkP true false L D None st0)) (optQ3 Q0).
  Proof.
    intros Hl Hst0 Hin HL HD H. apply tsafe_unlock_node; [exact Hl|reflexivity|]. intros g a1 a3 tr Hi V1 V3. cbn [body_none fst snd].
    exists (upd3 a3 t (mkP true false L' D None st0)). split; [exact Hi|]. split; [reflexivity|].
    split; [intros u Hu; apply upd3_other; exact Hu|]. rewrite upd3_same. split; [reflexivity|]. split; [reflexivity|]. split; [|intros _; exact H].
    intros F PLh. split.
    - apply (PF_unlock g a1 a3 t l _ F Hl); rewrite ?V3; cbn [plk pin pdirty pch]; auto.
    - apply (PL_node g _ a1 a3 _ tr t); try (rewrite ?upd3_same, V3; reflexivity); auto.
      + intros i. apply cellv_set_lockbit.
      + apply count_set_lockbit.
      + intros u Hu. apply upd3_other. exact Hu.
      + rewrite V3. exact Hst0.
  Qed.

  (** *** heapify_after_pop *)
  Lemma children_c p c c' : c = 2 * p -> c' = 2 * p \/ c' = S (2 * p) -> c' = c \/ c' = S c.
  Proof. intros ->. tauto. Qed.

  Lemma cellv_swapped g p ch y m tg1 tg2 : cellv g p = Some y -> cellv g ch = Some m ->
    forall k, cellv (set_cell (set_cell g p tg1 (Some m)) ch tg2 (Some y)) k = MsPqHeap.upd (MsPqHeap.upd (cellv g) p (cellv g ch)) ch (cellv g p) k.
  Proof. intros Ey Em k. rewrite !cellv_set_cell. unfold MsPqHeap.upd. rewrite Ey, Em. reflexivity. Qed.

  Ltac pln VV Hst0 L :=
    first [ exact L | assumption
          | (let i := fresh "i" in intros i; apply cellv_set_lockbit)
          | (let i := fresh "i" in intros i; rewrite ?cellv_set_lockbit; reflexivity)
          | apply count_set_lockbit | reflexivity
          | (let u := fresh "u" in let Hu := fresh "Hu" in intros u Hu; rewrite ?upd3_other by exact Hu; reflexivity)
          | (rewrite ?upd3_same, ?VV; reflexivity)
          | (rewrite ?upd3_same, ?VV; exact Hst0) ].

  Lemma tsafe_heapify_pop lf t P1 st0 : st0 <> Owing -> forall hf p c, 1 <= p -> c = 2 * p ->
    tsafe t (heapify_pop hf lf bsz p c) (PV P1 (mkP true false [p] (Some p) None st0))
          (optQ3 (fun _ l' => l' = PV P1 (mkP true false [] None None st0))).
  Proof.
    intros Hst0. induction hf as [|hf IH]; intros p c Hp Hc; [exact I|]. cbn [heapify_pop].
    assert (Hc0 : c <> 0) by lia. assert (Hp0 : p <> 0) by lia. assert (Hpc : p <> c) by lia.
    (* releasing the last two locks *)
    assert (Hrel : forall x, x = c \/ x = S c ->
              tsafe t (unlock_ x body_none (fun _ => unlock_ p body_none (fun _ => Ret (Some tt))))
                    (PV P1 (mkP true false [x; p] None None st0)) (optQ3 (fun (_ : unit) l' => l' = PV P1 (mkP true false [] None None st0)))).
    { intros x Hx. apply (tsafe_unlock_plain t x _ P1 [x; p] [p] None st0); [lia|exact Hst0|left; reflexivity| |discriminate|].
      - intros z [<-|[]]. split; [right; left; reflexivity|lia].
      - apply (tsafe_unlock_plain t p _ P1 [p] [] None st0); [lia|exact Hst0|left; reflexivity|intros z []|discriminate|]. reflexivity. }
    (* after a swap with child x: release the parent, go on below x *)
    assert (Hdown : forall x, x = c \/ x = S c ->
              tsafe t (unlock_ p body_none (fun _ => heapify_pop hf lf bsz x (2 * x)))
                    (PV P1 (mkP true false [x; p] (Some x) None st0)) (optQ3 (fun (_ : unit) l' => l' = PV P1 (mkP true false [] None None st0)))).
    { intros x Hx. apply (tsafe_unlock_plain t p _ P1 [x; p] [x] (Some x) st0); [lia|exact Hst0|right; left; reflexivity| | |].
      - intros z [<-|[]]. split; [left; reflexivity|lia].
      - intros d E; inversion E; subst; cbn; auto.
      - apply IH; [lia|reflexivity]. }
    destruct (Nat.ltb c bsz) eqn:Ecb.
    - apply tsafe_lock_node; [exact Hc0|reflexivity|]. intros g a1 a3 tr Hi V1 V3 Hfree.
      set (g1 := set_lockbit g c true).
      assert (Hi1 : Inv g1 a1 tr) by (apply Inv_nodelock; assumption).
      assert (Hcv : forall i, cellv g1 i = cellv g i) by (intros i; apply cellv_set_lockbit).
      destruct (child_inv cap bsz g1 a1 tr p c Hpc Hi1) as [C1 C2].
      set (v1 := mkP true false [c; p] (Some p) None st0).
      assert (F1 : PopFacts g a1 a3 -> PopFacts g1 a1 (upd3 a3 t v1)).
      { intros F. apply (PF_lock g a1 a3 t c v1 F Hc0 Hfree); rewrite ?V3; try reflexivity. intros p' ch' _ E; discriminate. }
      assert (Hoth1 : forall u, u <> t -> upd3 a3 t v1 u = a3 u) by (intros u Hu; apply upd3_other; exact Hu).
      assert (Hne3 : pst (a3 t) <> Owing) by (rewrite V3; exact Hst0).
      assert (L1 : PL g a1 a3 tr -> PL g1 a1 (upd3 a3 t v1) tr).
      { intros L. apply (PL_node g g1 a1 a3 _ tr t); pln V3 Hst0 L. }
      unfold body_child in *. change (ntag (heap g1 c)) with (cellt g1 c) in *.
      destruct (tag_eqb (cellt g1 c) TEmpty) eqn:Et.
      + (* the left child is not in use: the frontier item stays *)
        apply tag_eqb_eq in Et. cbn [fst snd] in *.
        set (v2 := mkP true false [c; p] None None st0).
        exists (upd3 (upd3 a3 t v1) t v2). split; [exact C1|]. split; [reflexivity|].
        split; [intros u Hu; rewrite !upd3_other by exact Hu; reflexivity|]. rewrite upd3_same.
        split; [reflexivity|]. split; [reflexivity|]. split; [|intros _; cbn [vn unbusy]; apply Hrel; left; reflexivity].
        intros F L. split.
        * pose proof (F1 F) as F'.
          destruct (k4 _ _ _ F' t p ltac:(rewrite upd3_same; reflexivity)) as [_ Hpv]. destruct (cellv g1 p) as [y|] eqn:Ey; [|congruence].
          apply (PF_clear g1 a1 (upd3 a3 t v1) t p y v2 F'); rewrite ?upd3_same; try reflexivity; [exact Ey|].
          assert (Hcn : cellv g1 c = None) by (apply (iT _ _ _ _ Hi1); exact Et).
          assert (Hrn : cellv g1 (S c) = None) by (subst c; apply (right_empty g1 a1 tr p Hi1 (k6 _ _ _ F') Hp Hcn)).
          intros c' Hc'. destruct (children_c p c c' Hc Hc') as [->| ->]; (split; [right; assumption|intros x Hx; congruence]).
        * apply (PL_node g g1 a1 a3 _ tr t); pln V3 Hst0 L.
      + destruct (Nat.ltb (S c) bsz) eqn:Esb.
        * (* the right sibling is locked next *)
          cbn [fst snd] in *. exists (upd3 a3 t v1). split; [exact C1|]. split; [reflexivity|]. split; [exact Hoth1|]. rewrite upd3_same.
          split; [reflexivity|]. split; [reflexivity|]. split; [intros F L; split; [exact (F1 F)|exact (L1 L)]|]. intros _. cbn [vn unbusy].
          apply tsafe_lock_node; [discriminate|reflexivity|]. intros g2 b1 b3 tr2 Hi2 W1 W3 Hfree2.
          set (g3 := set_lockbit g2 (S c) true).
          assert (Hi3 : Inv g3 b1 tr2) by (apply Inv_nodelock; [discriminate|assumption]).
          assert (Hcv3 : forall i, cellv g3 i = cellv g2 i) by (intros i; apply cellv_set_lockbit).
          destruct (right_inv cap g3 b1 tr2 c Hi3) as [R1 R2].
          (* the tail of the iteration, for either choice *)
          assert (Htail : forall b : bool,
                    tsafe t (unlock_ (if b then c else S c) (cmp_swap p (if b then S c else c))
                              (fun u => if vb u then unlock_ p body_none (fun _ => heapify_pop hf lf bsz (if b then S c else c) (2 * (if b then S c else c)))
                                        else unlock_ (if b then S c else c) body_none (fun _ => unlock_ p body_none (fun _ => Ret (Some tt)))))
                          (PV P1 (mkP true false [S c; c; p] (Some p) (Some (if b then S c else c)) st0))
                          (optQ3 (fun (_ : unit) l' => l' = PV P1 (mkP true false [] None None st0)))).
          { intros b. set (chosen := if b then S c else c). set (other := if b then c else S c).
            assert (Hch : chosen = c \/ chosen = S c) by (destruct b; auto).
            assert (Hot : other = c \/ other = S c) by (destruct b; auto).
            assert (Hco : chosen <> other) by (destruct b; subst chosen other; lia).
            apply tsafe_unlock_node; [lia|reflexivity|]. intros g4 d1 d3 tr4 Hi4 X1 X3.
            destruct (cmp_swap_inv cap g4 d1 tr4 p chosen ltac:(lia) Hi4) as [S1 S2].
            assert (Hplk : plk (d3 t) = [S c; c; p]) by (rewrite X3; reflexivity).
            assert (Hinch : In chosen (plk (d3 t))) by (rewrite Hplk; destruct b; subst chosen; cbn; auto).
            assert (Hinot : In other (plk (d3 t))) by (rewrite Hplk; destruct b; subst other; cbn; auto).
            assert (Hinp : In p (plk (d3 t))) by (rewrite Hplk; cbn; auto).
            assert (Hsib : forall c', c' = 2 * p \/ c' = S (2 * p) -> In c' (plk (d3 t))).
            { intros c' Hc'. rewrite Hplk. destruct (children_c p c c' Hc Hc') as [->| ->]; cbn; auto. }
            assert (Hne4 : pst (d3 t) <> Owing) by (rewrite X3; exact Hst0).
            set (w2 := mkP true false [chosen; p] (Some p) None st0).
            assert (Hsub : forall x, In x [chosen; p] -> In x (plk (d3 t)) /\ x <> other).
            { intros x [<-|[<-|[]]]; (split; [|lia]); [exact Hinch|rewrite Hplk; cbn; auto]. }
            unfold cmp_swap in *. change (nval (heap g4 chosen)) with (cellv g4 chosen) in *. change (nval (heap g4 p)) with (cellv g4 p) in *.
            assert (Herr : forall g' , g' = g4 ->
                      PopFacts g4 d1 d3 -> PL g4 d1 d3 tr4 ->
                      PopFacts (set_lockbit g' other false) d1 (upd3 d3 t w2) /\ PL (set_lockbit g' other false) d1 (upd3 d3 t w2) tr4).
            { intros g' -> F L. split.
              - apply (PF_unlock g4 d1 d3 t other w2 F); rewrite ?X3; cbn [plk pin pdirty pch]; try reflexivity; try lia; auto.
                + rewrite <- Hplk. exact Hinot.
                + intros x Hx. rewrite <- Hplk. apply Hsub. exact Hx.
                + intros d E; inversion E; subst; cbn; auto.
              - apply (PL_node g4 _ d1 d3 _ tr4 t); pln X3 Hst0 L. }
            destruct (cellv g4 chosen) as [m|] eqn:Em;
              [|exists (upd3 d3 t w2); cbn [fst snd verr] in *; split; [exact S1|split; [reflexivity|split; [intros u Hu; apply upd3_other; exact Hu|
                 rewrite upd3_same; split; [reflexivity|split; [reflexivity|split; [apply Herr; reflexivity|discriminate]]]]]]].
            destruct (cellv g4 p) as [y|] eqn:Ey;
              [|exists (upd3 d3 t w2); cbn [fst snd verr] in *; split; [exact S1|split; [reflexivity|split; [intros u Hu; apply upd3_other; exact Hu|
                 rewrite upd3_same; split; [reflexivity|split; [reflexivity|split; [apply Herr; reflexivity|discriminate]]]]]]].
            assert (Rp : 1 <= p <= cap) by (apply (Z_in_range cap g4 p (iZ _ _ _ _ Hi4)); congruence).
            assert (Rc : 1 <= chosen <= cap) by (apply (Z_in_range cap g4 chosen (iZ _ _ _ _ Hi4)); congruence).
            destruct (Z.gtb_spec (prio m) (prio y)) as [Hgt|Hle]; cbn [fst snd verr vb] in *.
            - (* swap *)
              set (w3 := mkP true false [S c; c; p] (Some chosen) None st0). set (w4 := mkP true false [chosen; p] (Some chosen) None st0).
              exists (upd3 (upd3 d3 t w3) t w4). split; [exact S1|]. split; [reflexivity|].
              split; [intros u Hu; rewrite !upd3_other by exact Hu; reflexivity|]. rewrite upd3_same.
              split; [reflexivity|]. split; [reflexivity|]. split; [|intros _; apply Hdown; exact Hch].
              intros F L. destruct (k7 _ _ _ F t p chosen ltac:(rewrite X3; reflexivity) ltac:(rewrite X3; reflexivity)) as (_ & _ & HM).
              set (gS := set_cell (set_cell g4 p (cellt g4 chosen) (Some m)) chosen (cellt g4 p) (Some y)).
              assert (F2 : PopFacts gS d1 (upd3 d3 t w3)).
              { apply (PF_swap g4 d1 d3 t p chosen y m w3 F); [rewrite X3; reflexivity|rewrite X3; reflexivity|exact Hinch|exact HM|exact Ey|exact Em|lia| |rewrite X3; reflexivity].
                intros c' Hc'. left. apply Hsib. exact Hc'. }
              assert (L2 : PL gS d1 (upd3 d3 t w3) tr4).
              { apply (PL_swap g4 gS d1 d3 _ tr4 t p chosen F Rp Rc ltac:(lia) Hinp Hinch Hne4); try (rewrite ?upd3_same, X3; reflexivity).
                - apply (cellv_swapped g4 p chosen y m _ _ Ey Em).
                - reflexivity.
                - intros u Hu. apply upd3_other. exact Hu.
                - exact L. }
              split.
              + apply (PF_unlock _ d1 (upd3 d3 t w3) t other w4 F2); rewrite ?upd3_same; cbn [plk pin pdirty pch w3 w4]; try reflexivity; try lia.
                * rewrite <- Hplk. exact Hinot.
                * intros x Hx. rewrite <- Hplk. apply Hsub. exact Hx.
                * intros d E; inversion E; subst; cbn; auto.
              + apply (PL_node gS _ d1 (upd3 d3 t w3) _ tr4 t); pln X3 Hst0 L2.
            - (* no swap: the frontier of this pop disappears *)
              set (w3 := mkP true false [S c; c; p] None None st0). set (w4 := mkP true false [chosen; p] None None st0).
              exists (upd3 (upd3 d3 t w3) t w4). split; [exact S1|]. split; [reflexivity|].
              split; [intros u Hu; rewrite !upd3_other by exact Hu; reflexivity|]. rewrite upd3_same.
              split; [reflexivity|]. split; [reflexivity|]. split; [|intros _; apply Hrel; exact Hch].
              intros F L. split.
              + destruct (k7 _ _ _ F t p chosen ltac:(rewrite X3; reflexivity) ltac:(rewrite X3; reflexivity)) as (_ & _ & _ & M3).
                assert (F2 : PopFacts g4 d1 (upd3 d3 t w3)).
                { apply (PF_clear g4 d1 d3 t p y w3 F); [rewrite X3; reflexivity|rewrite X3; reflexivity|exact Ey| |rewrite X3; reflexivity].
                  intros c' Hc'. split; [left; apply Hsib; exact Hc'|]. intros x Hx.
                  assert (H2 : 2 <= c' /\ Nat.div2 c' = p) by (destruct (child_ge p c' Hp Hc') as (A & _ & B); auto).
                  pose proof (M3 c' x m (proj1 H2) (proj2 H2) Hx Em). lia. }
                apply (PF_unlock _ d1 (upd3 d3 t w3) t other w4 F2); rewrite ?upd3_same; cbn [plk pin pdirty pch w3 w4]; try reflexivity; try lia.
                * rewrite <- Hplk. exact Hinot.
                * intros x Hx. rewrite <- Hplk. apply Hsub. exact Hx.
                * intros d E. discriminate.
              + apply (PL_node g4 _ d1 d3 _ tr4 t); pln X3 Hst0 L. }
          (* R2 *)
          assert (Hlk : forall o, PopFacts g2 b1 b3 -> PL g2 b1 b3 tr2 -> (forall ch, o = Some ch -> IsMaxG g2 p ch) ->
                      PopFacts g3 b1 (upd3 b3 t (mkP true false [S c; c; p] (Some p) o st0)) /\
                      PL g3 b1 (upd3 b3 t (mkP true false [S c; c; p] (Some p) o st0)) tr2).
          { intros o F L Ho. split.
            - apply (PF_lock g2 b1 b3 t (S c) _ F ltac:(discriminate) Hfree2); rewrite ?W3; try reflexivity.
              cbn [pdirty pch plk]. intros p' ch E1 E2. inversion E1; subst p'. rewrite <- Hc. split; [right; left; reflexivity|]. split; [left; reflexivity|]. apply Ho. exact E2.
            - apply (PL_node g2 g3 b1 b3 _ tr2 t); pln W3 Hst0 L. }
          unfold body_right in *. change (ntag (heap g3 (S c))) with (cellt g3 (S c)) in *.
          change (nval (heap g3 (S c))) with (cellv g3 (S c)) in *. change (nval (heap g3 c)) with (cellv g3 c) in *.
          assert (Hkids : forall k, 2 <= k -> Nat.div2 k = p -> k = c \/ k = S c).
          { intros k _ Hk. apply (children_c p c k Hc). apply div2_children; assumption. }
          destruct (negb (tag_eqb (cellt g3 (S c)) TEmpty)) eqn:Er.
          -- destruct (cellv g3 (S c)) as [a|] eqn:Ea;
               [|exists (upd3 b3 t (mkP true false [S c; c; p] (Some p) None st0)); cbn [fst snd verr] in *; split; [exact R1|split; [reflexivity|split; [intros u Hu; apply upd3_other; exact Hu|
                  rewrite upd3_same; split; [reflexivity|split; [reflexivity|split; [intros F L; apply Hlk; [exact F|exact L|discriminate]|discriminate]]]]]]].
             destruct (cellv g3 c) as [b|] eqn:Eb;
               [|exists (upd3 b3 t (mkP true false [S c; c; p] (Some p) None st0)); cbn [fst snd verr] in *; split; [exact R1|split; [reflexivity|split; [intros u Hu; apply upd3_other; exact Hu|
                  rewrite upd3_same; split; [reflexivity|split; [reflexivity|split; [intros F L; apply Hlk; [exact F|exact L|discriminate]|discriminate]]]]]]].
             cbn [fst snd verr vb unbusy] in *. rewrite Hcv3 in Ea, Eb.
             exists (upd3 b3 t (mkP true false [S c; c; p] (Some p) (Some (if Z.gtb (prio a) (prio b) then S c else c)) st0)).
             split; [exact R1|]. split; [reflexivity|]. split; [intros u Hu; apply upd3_other; exact Hu|]. rewrite upd3_same.
             split; [reflexivity|]. split; [reflexivity|]. split; [|intros _; apply Htail].
             intros F L. apply Hlk; [exact F|exact L|]. intros ch E. inversion E; subst ch. split; [destruct (Z.gtb (prio a) (prio b)); lia|].
             intros k x m Hk Hdk Hx Hm. destruct (Z.gtb (prio a) (prio b)) eqn:Egt.
             ++ rewrite Ea in Hm. inversion Hm; subst m. destruct (Hkids k Hk Hdk) as [->| ->]; [rewrite Eb in Hx; inversion Hx; subst x; lia|rewrite Ea in Hx; inversion Hx; lia].
             ++ rewrite Eb in Hm. inversion Hm; subst m. destruct (Hkids k Hk Hdk) as [->| ->]; [rewrite Eb in Hx; inversion Hx; lia|rewrite Ea in Hx; inversion Hx; subst x; lia].
          -- cbn [fst snd verr vb unbusy] in *. apply negb_false_iff in Er. apply tag_eqb_eq in Er.
             assert (Hrn : cellv g2 (S c) = None) by (rewrite <- Hcv3; apply (iT _ _ _ _ Hi3); exact Er).
             exists (upd3 b3 t (mkP true false [S c; c; p] (Some p) (Some c) st0)).
             split; [exact R1|]. split; [reflexivity|]. split; [intros u Hu; apply upd3_other; exact Hu|]. rewrite upd3_same.
             split; [reflexivity|]. split; [reflexivity|]. split; [|intros _; apply (Htail false)].
             intros F L. apply Hlk; [exact F|exact L|]. intros ch E. inversion E; subst ch. split; [lia|].
             intros k x m Hk Hdk Hx Hm. destruct (Hkids k Hk Hdk) as [->| ->]; [rewrite Hx in Hm; inversion Hm; lia|congruence].
        * (* no right sibling inside the buffer: compare with the only child *)
          apply Nat.ltb_ge in Esb.
          assert (Hrn : cellv g1 (S c) = None) by (apply (beyond g1 a1 tr (S c) Hi1); lia).
          unfold cmp_swap in *. change (nval (heap g1 c)) with (cellv g1 c) in *. change (nval (heap g1 p)) with (cellv g1 p) in *.
          destruct (cellv g1 c) as [m|] eqn:Em;
            [|exists (upd3 a3 t v1); cbn [fst snd verr] in *; split; [exact C1|split; [reflexivity|split; [exact Hoth1|
               rewrite upd3_same; split; [reflexivity|split; [reflexivity|split; [intros F L; split; [exact (F1 F)|exact (L1 L)]|discriminate]]]]]]].
          destruct (cellv g1 p) as [y|] eqn:Ey;
            [|exists (upd3 a3 t v1); cbn [fst snd verr] in *; split; [exact C1|split; [reflexivity|split; [exact Hoth1|
               rewrite upd3_same; split; [reflexivity|split; [reflexivity|split; [intros F L; split; [exact (F1 F)|exact (L1 L)]|discriminate]]]]]]].
          assert (Rp : 1 <= p <= cap) by (apply (Z_in_range cap g1 p (iZ _ _ _ _ Hi1)); congruence).
          assert (Rc : 1 <= c <= cap) by (apply (Z_in_range cap g1 c (iZ _ _ _ _ Hi1)); congruence).
          destruct (Z.gtb_spec (prio m) (prio y)) as [Hgt|Hle]; cbn [fst snd verr vb vn unbusy] in *.
          -- set (v2 := mkP true false [c; p] (Some c) None st0).
             exists (upd3 (upd3 a3 t v1) t v2). split; [exact C1|]. split; [reflexivity|].
             split; [intros u Hu; rewrite !upd3_other by exact Hu; reflexivity|]. rewrite upd3_same.
             split; [reflexivity|]. split; [reflexivity|]. split; [|intros _; apply Hdown; left; reflexivity].
             intros F L. pose proof (F1 F) as F'. split.
             ++ apply (PF_swap g1 a1 (upd3 a3 t v1) t p c y m v2 F'); rewrite ?upd3_same; try reflexivity; auto; [left; reflexivity| |lia|].
                ** split; [lia|]. intros k x m' Hk Hdk Hx Hm'. pose proof (children_c p c k Hc (div2_children k p Hp Hdk)) as [->| ->]; [rewrite Hx in Hm'; inversion Hm'; lia|congruence].
                ** intros c' Hc'. destruct (children_c p c c' Hc Hc') as [->| ->]; [left; left; reflexivity|right; exact Hrn].
             ++ apply (PL_swap g1 _ a1 (upd3 a3 t v1) _ tr t p c F' Rp Rc Hpc); rewrite ?upd3_same; try reflexivity; [right; left; reflexivity|left; reflexivity|exact Hst0| | |exact (L1 L)].
                ** apply (cellv_swapped g1 p c y m _ _ Ey Em).
                ** intros u Hu. rewrite !upd3_other by exact Hu. reflexivity.
          -- set (v2 := mkP true false [c; p] None None st0).
             exists (upd3 (upd3 a3 t v1) t v2). split; [exact C1|]. split; [reflexivity|].
             split; [intros u Hu; rewrite !upd3_other by exact Hu; reflexivity|]. rewrite upd3_same.
             split; [reflexivity|]. split; [reflexivity|]. split; [|intros _; apply Hrel; left; reflexivity].
             intros F L. pose proof (F1 F) as F'. split.
             ++ apply (PF_clear g1 a1 (upd3 a3 t v1) t p y v2 F'); rewrite ?upd3_same; try reflexivity; auto.
                intros c' Hc'. destruct (children_c p c c' Hc Hc') as [->| ->].
                ** split; [left; left; reflexivity|]. intros x Hx. rewrite Em in Hx. inversion Hx; subst x. lia.
                ** split; [right; exact Hrn|]. intros x Hx. congruence.
             ++ apply (PL_node g g1 a1 a3 _ tr t); pln V3 Hst0 L.
    - (* no child inside the buffer *)
      apply Nat.ltb_ge in Ecb. apply tsafe_unlock_node; [exact Hp0|reflexivity|]. intros g a1 a3 tr Hi V1 V3. cbn [body_none fst snd].
      set (v1 := mkP true false [p] None None st0). set (v2 := mkP true false [] None None st0).
      exists (upd3 (upd3 a3 t v1) t v2). split; [exact Hi|]. split; [reflexivity|].
      split; [intros u Hu; rewrite !upd3_other by exact Hu; reflexivity|]. rewrite upd3_same.
      split; [reflexivity|]. split; [reflexivity|]. split; [|intros _; reflexivity].
      intros F L. split.
      + destruct (k4 _ _ _ F t p ltac:(rewrite V3; reflexivity)) as [_ Hpv]. destruct (cellv g p) as [y|] eqn:Ey; [|congruence].
        assert (F2 : PopFacts g a1 (upd3 a3 t v1)).
        { apply (PF_clear g a1 a3 t p y v1 F); rewrite ?V3; try reflexivity; auto.
          intros c' Hc'. assert (Hn : cellv g c' = None) by (apply (beyond g a1 tr c' Hi); destruct (children_c p c c' Hc Hc'); lia).
          split; [right; exact Hn|intros x Hx; congruence]. }
        apply (PF_unlock g a1 (upd3 a3 t v1) t p v2 F2 Hp0); rewrite ?upd3_same;
          [left; reflexivity|reflexivity|reflexivity|intros x []|reflexivity|intros d E; discriminate|reflexivity].
      + apply (PL_node g _ a1 a3 _ tr t); pln V3 Hst0 L.
  Qed.

  (** *** pop *)
  Definition Qtpop : option item -> (tv * tv2) * pv -> Prop := fun r l' => l' = PV (mkTv false r None None true false) Vdone.

  Lemma upd3_twice a3 t v w u : upd3 (upd3 a3 t v) t w u = upd3 a3 t w u.
  Proof. unfold upd3. destruct (Nat.eqb u t); reflexivity. Qed.

  Lemma PF_eqv g a1 a3 a3' : (forall u, a3' u = a3 u) -> PopFacts g a1 a3 -> PopFacts g a1 a3'.
  Proof.
    intros E [K1 K2 K3 K4 K5 K6 K7 K8 K9]. constructor; try assumption.
    - intros u l. rewrite E. apply K1.
    - intros u u' l. rewrite !E. apply K2.
    - intros u d. rewrite E. apply K4.
    - intros k j x Ha Hx. destruct (K5 k j x Ha Hx) as (y & Hy & Hle). exists y. split; [exact Hy|]. intros Hnd. apply Hle.
      intros [u Hu]. apply Hnd. exists u. rewrite E. exact Hu.
    - intros u p ch. rewrite E. apply K7.
    - intros u. rewrite E. apply K8.
    - intros u. rewrite E. apply K9.
  Qed.

  Lemma PL_eqv g a1 a3 a3' tr : (forall u, a3' u = a3 u) -> PL g a1 a3 tr -> PL g a1 a3' tr.
  Proof.
    intros E L. apply (PL_same g g a1 a1 a3 a3' tr 0); auto; try (rewrite E; reflexivity). intros _. rewrite E. tauto.
  Qed.

  Lemma PL_done g g' a1 a1' a3 tr t :
    (forall i, cellv g' i = cellv g i) -> count g' = count g -> (forall u, u <> t -> tvs a1' u = tvs a1 u) ->
    hand (tvs a1' t) = hand (tvs a1 t) -> pst (a3 t) <> Owing -> PL g a1 a3 tr -> PL g' a1' a3 tr.
  Proof. intros Hcv Hc Ho Hh Hne L. apply (PL_same g g' a1 a1' a3 a3 tr t); auto. intros E. contradiction. Qed.

  Lemma PL_top_occupied g a1 a3 tr t :
    PL g a1 a3 tr -> pin (a3 t) = true -> pst (a3 t) = Owing -> In 1 (plk (a3 t)) -> cellv g 1 <> None.
  Proof.
    intros (s & stt & oS & o1 & Hrun & Hlen & Hst & HS & H1 & Hcov & HM) Hp Ho Hin.
    destruct (Hcov t Hp Ho) as [[r E]|[r E]].
    - destruct (HS t r E) as (_ & _ & _ & _ & A5 & _). contradiction.
    - destruct (H1 t r E) as (_ & _ & _ & _ & z & Hz & _). congruence.
  Qed.

  Lemma PF_a1_same g a1 a1' a3 t :
    PopFacts g a1 a3 -> (forall u, u <> t -> tvs a1' u = tvs a1 u) -> pstore (tvs a1' t) = None -> inop (tvs a1' t) = true ->
    pin (a3 t) = true -> PopFacts g a1' a3.
  Proof. intros F H1 H2 H3 H4. apply (PF_a1 g g a1 a1' a3 t F); auto. Qed.

  Lemma PF_size g g' a1 a1' a3 t :
    PopFacts g a1 a3 -> (forall i, heap g' i = heap g i) ->
    (forall u, u <> t -> tvs a1' u = tvs a1 u) -> pstore (tvs a1' t) = None -> inop (tvs a1' t) = true ->
    pin (a3 t) = true -> PopFacts g' a1' a3.
  Proof.
    intros F Hh H1 H2 H3 H4. apply (PF_a1 g g' a1 a1' a3 t F); auto; intros i; unfold cellv, cellt; rewrite Hh; reflexivity.
  Qed.

  Lemma cellv_heap g g' : (forall i, heap g' i = heap g i) -> forall i, cellv g' i = cellv g i.
  Proof. intros H i. unfold cellv. rewrite H. reflexivity. Qed.

  Lemma tsafe_pop hf lf t : tsafe t (pop bsz hf lf) (PV Vpop Vstart) (optQ3 Qtpop).
  Proof.
    unfold pop. apply tsafe_lock; [reflexivity|]. intros g a a3 tr Hi Hv V3 Hfree. cbn [lockbit] in Hfree.
    pose proof (Inv_acq0 cap g a tr t Vpop Hv eq_refl Hfree Hi) as H1. cbn [set_hs Vpop hs hand pstore pclear inop pfail] in H1.
    set (g1 := set_lockbit g 0 true) in *. set (P1 := mkTv true None None None true false) in *.
    set (a1 := updv a t P1) in *.
    assert (Hv1 : tvs a1 t = P1) by apply tvs_updv_same.
    assert (Hpin : pin (a3 t) = true) by (rewrite V3; reflexivity).
    assert (Hh0 : hand (tvs a t) = None) by (rewrite Hv; reflexivity).
    unfold body_pop_size. destruct (Z.eqb (bc (ctr g1)) 0) eqn:Eempty.
    - (* empty *)
      cbn [fst snd]. exists a1, (upd3 a3 t Vdone). split; [apply Inv_irrelevant; [reflexivity|exact H1]|]. split; [reflexivity|].
      split; [intros u Hu; apply tvs_updv_other; exact Hu|]. split; [intros u Hu; apply upd3_other; exact Hu|]. rewrite upd3_same. split; [reflexivity|]. split; [reflexivity|].
      split.
      { intros F L. split.
        - assert (F1 : PopFacts g1 a1 a3) by (apply (PF_size g g1 a a1 a3 t F); auto; [intros u Hu; apply tvs_updv_other; exact Hu|rewrite Hv1; reflexivity|rewrite Hv1; reflexivity]).
          apply (PF_io g1 a1 a1 a3 t Vdone F1); rewrite ?V3, ?Hv1; try reflexivity; auto; try (intros E; discriminate E).
        - apply Z.eqb_eq in Eempty.
          assert (Hz : count g = 0) by (unfold count; change (ctr g) with (ctr g1); rewrite Eempty; reflexivity).
          apply (PL_emp g g1 a a1 a3 tr t Hz eq_refl (fun i => eq_refl) V3 Hh0); [intros u Hu; apply tvs_updv_other; exact Hu|rewrite Hv1; reflexivity|exact L]. }
      intros _. rewrite Hv1. cbn [unbusy vb vn vi verr].
      apply tsafe_unlock; [reflexivity|]. intros g2 a2 b3 tr2 Hi2 Hv2 W3. cbn [body_none fst snd].
      pose proof (Inv_rel0 cap g2 a2 tr2 t _ Hv2 eq_refl eq_refl eq_refl Hi2) as H4. cbn [set_hs P1 hs hand pstore pclear inop pfail] in H4.
      exists (updv a2 t (mkTv false None None None true false)), b3. split; [apply Inv_irrelevant; [reflexivity|exact H4]|]. split; [reflexivity|].
      split; [intros u Hu; apply tvs_updv_other; exact Hu|]. split; [reflexivity|]. split; [rewrite W3; reflexivity|]. split; [rewrite W3; reflexivity|].
      split.
      { intros F L. split.
        - apply (PF_size g2 _ a2 _ b3 t F); auto; [intros u Hu; apply tvs_updv_other; exact Hu|rewrite tvs_updv_same; reflexivity|rewrite tvs_updv_same; reflexivity|rewrite W3; reflexivity].
        - apply PL_quiet; [reflexivity|]. apply (PL_done g2 _ a2 _ b3 tr2 t); auto; [intros u Hu; apply tvs_updv_other; exact Hu|rewrite tvs_updv_same, Hv2; reflexivity|rewrite W3; discriminate]. }
      intros _. rewrite tvs_updv_same, W3. reflexivity.
    - (* the bottom cell is claimed *)
      apply Z.eqb_neq in Eempty.
      assert (Hge : 1 <= count g1).
      { pose proof (iC _ _ _ _ H1) as [C1 C2]. unfold count in *. rewrite C1 in Eempty at 1. rewrite bc_st in Eempty. rewrite C1, bc_st. lia. }
      destruct (Inv_dec cap OK g1 a1 tr t P1 Hv1 eq_refl eq_refl eq_refl Hge H1) as [Hslot H2].
      assert (Hcnt : count (set_ctr g1 (snd (brc_dec (ctr g1)))) = pred (count g)).
      { pose proof (iC _ _ _ _ H1) as [C1 C2]. unfold count at 1. cbn [ctr set_ctr]. rewrite C1. rewrite (MsPqBrc.dec_st cap OK (count g1)) by lia. rewrite count_st. reflexivity. }
      destruct (brc_dec (ctr g1)) as [s c'] eqn:Edec. cbn [fst snd] in *.
      set (b := slot (count g1)) in *. rewrite Hslot.
      assert (Rb : 1 <= b <= cap) by (apply (slot_range cap OK); pose proof (iC _ _ _ _ H1) as [_ C2]; lia).
      assert (Hin : Nat.ltb b bsz = true) by (apply Nat.ltb_lt; lia). rewrite Hin.
      cbn [set_pclear P1 hs hand pstore pclear inop pfail] in H2.
      set (P2 := mkTv true None None (Some b) true false) in *.
      set (w0 := mkP true false [] None None Owing).
      exists (updv a1 t P2), (upd3 a3 t w0). split; [apply Inv_irrelevant; [reflexivity|exact H2]|]. split; [reflexivity|].
      split; [intros u Hu; unfold a1; rewrite !tvs_updv_other by exact Hu; reflexivity|]. split; [intros u Hu; apply upd3_other; exact Hu|]. rewrite upd3_same. split; [reflexivity|]. split; [reflexivity|].
      split.
      { intros F L. split.
        - assert (F1 : PopFacts (set_ctr g1 c') (updv a1 t P2) a3) by (apply (PF_size g _ a _ a3 t F); auto; [intros u Hu; unfold a1; rewrite !tvs_updv_other by exact Hu; reflexivity|rewrite tvs_updv_same; reflexivity|rewrite tvs_updv_same; reflexivity]).
          apply (PF_io _ _ (updv a1 t P2) a3 t w0 F1); rewrite ?V3, ?tvs_updv_same; try reflexivity; auto; try (intros E; discriminate E).
        - apply (PL_lp g (set_ctr g1 c') a (updv a1 t P2) a3 tr t Hfree (iS _ _ _ _ Hi) Hge Hcnt (fun i => eq_refl) V3 Hh0);
            [intros u Hu; unfold a1; rewrite !tvs_updv_other by exact Hu; reflexivity|rewrite tvs_updv_same; reflexivity|rewrite tvs_updv_same; reflexivity|exact L]. }
      intros _. rewrite tvs_updv_same. cbn [unbusy vb vn vi verr].
      destruct (Nat.eqb_spec b 1) as [Eb|Nb].
      + (* nBottom = 1: the top cell itself is emptied *)
        apply tsafe_lock; [reflexivity|]. intros g2 a2 b3 tr2 Hi2 Hv2 W3 Hfree2. cbn [body_take fst snd]. cbn [lockbit] in Hfree2.
        pose proof (Inv_nodelock cap g2 a2 tr2 1 true ltac:(discriminate) Hi2) as Hi2'.
        destruct (Inv_take cap OK _ a2 tr2 t _ 1 Hv2 ltac:(cbn; rewrite Eb; reflexivity) eq_refl eq_refl eq_refl Hi2') as (y & Hy & H3).
        pose proof Hy as Hy0. unfold cellv in Hy. rewrite Hy.
        cbn [set_hand set_pclear P2 hs hand pstore pclear inop pfail] in H3.
        set (c1 := set_held _ _) in H3.
        assert (Hvc : tvs c1 t = mkTv true (Some y) None None true false) by (subst c1; cbn; rewrite Nat.eqb_refl; reflexivity).
        assert (Hoc : forall u, u <> t -> tvs c1 u = tvs a2 u) by (intros u Hu; subst c1; cbn; destruct (Nat.eqb_spec u t); congruence).
        set (wo := mkP true false [1] None None Owing). set (w1 := mkP true false [1] None None Done).
        exists c1, (upd3 b3 t w1). split; [apply Inv_irrelevant; [reflexivity|exact H3]|]. split; [reflexivity|].
        split; [exact Hoc|]. split; [intros u Hu; apply upd3_other; exact Hu|]. rewrite upd3_same. split; [reflexivity|]. split; [reflexivity|]. split.
        * intros F L. split.
          -- assert (F2 : PopFacts (set_lockbit g2 1 true) a2 (upd3 b3 t w1)).
             { apply (PF_lock g2 a2 b3 t 1 w1 F ltac:(discriminate) Hfree2); rewrite ?W3; try reflexivity. intros p ch _ E. discriminate. }
             assert (F3 : PopFacts (set_cell (set_lockbit g2 1 true) 1 TEmpty None) a2 (upd3 b3 t w1)).
             { apply (PF_take _ a2 _ t 1 F2); rewrite ?upd3_same; [left; reflexivity|reflexivity|].
               apply (no_desc_bottom _ a2 tr2 t 1 Hi2' (k6 _ _ _ F2)). rewrite Hv2. cbn. rewrite Eb. reflexivity. }
             apply (PF_a1_same _ a2 c1 _ t F3 Hoc); rewrite ?Hvc, ?upd3_same; reflexivity.
          -- apply PL_quiet; [reflexivity|].
             assert (L2 : PL (set_lockbit g2 1 true) a2 (upd3 b3 t wo) tr2).
             { apply (PL_lock1 g2 a2 b3 tr2 t wo F Hi2 Hfree2); rewrite ?W3; try reflexivity; [left; reflexivity|exact L]. }
             apply (PL_eqv _ c1 (upd3 (upd3 b3 t wo) t w1)); [intros u; symmetry; apply upd3_twice|].
             apply (PL_taketop (set_lockbit g2 1 true) _ a2 c1 (upd3 b3 t wo) tr2 t y w1); rewrite ?upd3_same; try reflexivity; auto; try lia.
             ++ intros k. rewrite cellv_set_cell. reflexivity.
             ++ left. reflexivity.
             ++ rewrite Hv2. reflexivity.
             ++ rewrite Hvc. reflexivity.
        * intros _. rewrite Hvc. cbn [unbusy vb vn vi verr].
          apply (tsafe_unlock_plain t 1 _ _ [1] [] None Done); [discriminate|discriminate|left; reflexivity|intros x []|discriminate|].
          apply tsafe_unlock; [reflexivity|]. intros g4 a4 b4 tr4 Hi4 Hv4 W4. cbn [body_none fst snd].
          pose proof (Inv_rel0 cap g4 a4 tr4 t _ Hv4 eq_refl eq_refl eq_refl Hi4) as H5. cbn [set_hs hs hand pstore pclear inop pfail] in H5.
          exists (updv a4 t (mkTv false (Some y) None None true false)), b4. split; [apply Inv_irrelevant; [reflexivity|exact H5]|]. split; [reflexivity|].
          split; [intros u Hu; apply tvs_updv_other; exact Hu|]. split; [reflexivity|]. split; [rewrite W4; reflexivity|]. split; [rewrite W4; reflexivity|].
          split.
          { intros F L. split.
            - apply (PF_size g4 _ a4 _ b4 t F); auto; [intros u Hu; apply tvs_updv_other; exact Hu|rewrite tvs_updv_same; reflexivity|rewrite tvs_updv_same; reflexivity|rewrite W4; reflexivity].
            - apply PL_quiet; [reflexivity|]. apply (PL_done g4 _ a4 _ b4 tr4 t); auto; [intros u Hu; apply tvs_updv_other; exact Hu|rewrite tvs_updv_same, Hv4; reflexivity|rewrite W4; discriminate]. }
          intros _. rewrite tvs_updv_same, W4. reflexivity.
      + (* Q2: the top lock *)
        apply tsafe_lock_node; [discriminate|reflexivity|]. intros g2 a2 b3 tr2 Hi2 Hv2 W3 Hfree2. cbn [body_none fst snd].
        set (wo := mkP true false [1] None None Owing).
        exists (upd3 b3 t wo). split; [apply Inv_nodelock; [discriminate|exact Hi2]|]. split; [reflexivity|].
        split; [intros u Hu; apply upd3_other; exact Hu|]. rewrite upd3_same. split; [reflexivity|]. split; [reflexivity|]. split.
        { intros F L. split.
          - apply (PF_lock g2 a2 b3 t 1 wo F ltac:(discriminate) Hfree2); rewrite ?W3; try reflexivity. intros p ch _ E. discriminate.
          - apply (PL_lock1 g2 a2 b3 tr2 t wo F Hi2 Hfree2); rewrite ?W3; try reflexivity; [left; reflexivity|exact L]. }
        intros _. cbn [v0 unbusy].
        apply tsafe_lock_plain; [lia|intros _; exact Nb|].
        apply tsafe_unlock; [reflexivity|]. intros g3 a4 b4 tr3 Hi3 Hv3 W4. cbn [body_take fst snd].
        destruct (Inv_take cap OK g3 a4 tr3 t _ b Hv3 eq_refl eq_refl eq_refl eq_refl Hi3) as (y & Hy & H3).
        pose proof Hy as Hy0. unfold cellv in Hy. rewrite Hy.
        cbn [set_hand set_pclear P2 hs hand pstore pclear inop pfail] in H3.
        set (c1 := set_held _ _) in H3.
        assert (Hvc : tvs c1 t = mkTv true (Some y) None None true false) by (subst c1; cbn; rewrite Nat.eqb_refl; reflexivity).
        assert (Hoc : forall u, u <> t -> tvs c1 u = tvs a4 u) by (intros u Hu; subst c1; cbn; destruct (Nat.eqb_spec u t); congruence).
        pose proof (Inv_rel0 cap _ c1 tr3 t _ Hvc eq_refl eq_refl eq_refl H3) as H4. cbn [set_hs hs hand pstore pclear inop pfail] in H4.
        set (P3 := mkTv false (Some y) None None true false) in *.
        assert (Hoc' : forall u, u <> t -> tvs (updv c1 t P3) u = tvs a4 u) by (intros u Hu; rewrite tvs_updv_other by exact Hu; apply Hoc; exact Hu).
        exists (updv c1 t P3), b4. split; [apply Inv_irrelevant; [reflexivity|exact H4]|]. split; [reflexivity|].
        split; [exact Hoc'|]. split; [reflexivity|]. split; [rewrite W4; reflexivity|]. split; [rewrite W4; reflexivity|]. split.
        * intros F L. split.
          -- assert (F3 : PopFacts (set_cell g3 b TEmpty None) a4 b4).
             { apply (PF_take g3 a4 b4 t b F); rewrite ?W4; [left; reflexivity|reflexivity|].
               apply (no_desc_bottom g3 a4 tr3 t b Hi3 (k6 _ _ _ F)). rewrite Hv3. reflexivity. }
             apply (PF_size _ _ a4 _ b4 t F3); auto; [rewrite tvs_updv_same; reflexivity|rewrite tvs_updv_same; reflexivity|rewrite W4; reflexivity].
          -- apply PL_quiet; [reflexivity|].
             apply (PL_take g3 _ a4 _ b4 tr3 t b y Rb Nb Hy0); rewrite ?W4, ?tvs_updv_same; try reflexivity; auto.
             ++ intros k. rewrite cellv_set_lockbit, cellv_set_cell. reflexivity.
             ++ right. left. reflexivity.
             ++ rewrite Hv3. reflexivity.
        * intros _. rewrite tvs_updv_same, W4. cbn [vb vn vi verr].
          apply tsafe_unlock; [reflexivity|]. intros g5 a5 b5 tr5 Hi5 Hv5 W5. unfold body_pop_top.
          destruct (tag_eqb (ntag (heap g5 1)) TEmpty) eqn:Etop; cbn [fst snd].
          -- set (w1 := mkP true false [1] None None Done).
             exists a5, (upd3 b5 t w1). split; [apply Inv_irrelevant; [reflexivity|apply Inv_nodelock; [lia|exact Hi5]]|]. split; [reflexivity|].
             split; [intros; reflexivity|]. split; [intros u Hu; apply upd3_other; exact Hu|]. rewrite upd3_same. split; [reflexivity|]. split; [reflexivity|]. split.
             ++ intros F L. split.
                ** apply (PF_unlock g5 a5 b5 t b w1 F); rewrite ?W5; [lia|left; reflexivity|reflexivity|reflexivity| |reflexivity|intros d E; discriminate|reflexivity].
                   intros x [<-|[]]. split; [right; left; reflexivity|lia].
                ** exfalso. apply (PL_top_occupied g5 a5 b5 tr5 t L); rewrite ?W5; try reflexivity; [right; left; reflexivity|].
                   apply (iT _ _ _ _ Hi5). apply tag_eqb_eq in Etop. exact Etop.
             ++ intros _. rewrite Hv5. cbn [vb vn vi verr].
                apply (tsafe_unlock_plain t 1 _ _ [1] [] None Done); [discriminate|discriminate|left; reflexivity|intros x []|discriminate|]. reflexivity.
          -- assert (Hz : cellv g5 1 <> None).
             { apply T_some; [apply (iT _ _ _ _ Hi5)|]. intros E. unfold cellt in E. rewrite E in Etop. discriminate. }
             destruct (cellv g5 1) as [z|] eqn:Ez; [|congruence]. pose proof Ez as Ez0. unfold cellv in Ez. rewrite Ez.
             pose proof (Inv_poptop cap g5 a5 tr5 t _ y z Hv5 eq_refl Ez Hi5) as H6.
             cbn [set_hand P3 hs hand pstore pclear inop pfail] in H6. set (a6 := set_held _ _) in H6.
             assert (Hv6 : tvs a6 t = mkTv false (Some z) None None true false) by (subst a6; cbn; rewrite Nat.eqb_refl; reflexivity).
             assert (Ho6 : forall u, u <> t -> tvs a6 u = tvs a5 u) by (intros u Hu; subst a6; cbn; destruct (Nat.eqb_spec u t); congruence).
             set (w1 := mkP true false [b; 1] (Some 1) None Owing). set (w2 := mkP true false [1] (Some 1) None Done).
             exists a6, (upd3 b5 t w2). split; [apply Inv_irrelevant; [reflexivity|apply Inv_nodelock; [lia|exact H6]]|]. split; [reflexivity|].
             split; [exact Ho6|]. split; [intros u Hu; apply upd3_other; exact Hu|]. rewrite upd3_same. split; [reflexivity|]. split; [reflexivity|]. split.
             ++ intros F L. split.
                ** assert (F2 : PopFacts (set_cell g5 1 TAvail (Some y)) a5 (upd3 b5 t w1)).
                   { apply (PF_poptop g5 a5 b5 t y w1 F); rewrite ?W5; [right; left; reflexivity|reflexivity|reflexivity|reflexivity]. }
                   assert (F3 : PopFacts (set_lockbit (set_cell g5 1 TAvail (Some y)) b false) a5 (upd3 (upd3 b5 t w1) t w2)).
                   { apply (PF_unlock _ a5 _ t b w2 F2); rewrite ?upd3_same; [lia|left; reflexivity|reflexivity|reflexivity| |reflexivity|intros d E; inversion E; subst; left; reflexivity|reflexivity].
                     intros x [<-|[]]. split; [right; left; reflexivity|lia]. }
                   apply (PF_eqv _ a6 (upd3 (upd3 b5 t w1) t w2)); [intros u; symmetry; apply upd3_twice|].
                   apply (PF_a1_same _ a5 a6 _ t F3 Ho6); rewrite ?Hv6, ?upd3_same; reflexivity.
                ** apply PL_quiet; [reflexivity|].
                   apply (PL_poptop g5 _ a5 a6 b5 tr5 t y z w2 ltac:(lia) Ez0);
                     [intros k; rewrite cellv_set_lockbit, cellv_set_cell; reflexivity|rewrite count_set_lockbit; reflexivity
                     |rewrite W5; reflexivity|rewrite W5; reflexivity|rewrite W5; right; left; reflexivity|rewrite Hv5; reflexivity
                     |exact Ho6|rewrite Hv6; reflexivity|reflexivity|reflexivity|exact L].
             ++ intros _. rewrite Hv6. cbn [vb vn vi verr]. unfold obind. apply Conc.safe_bind.
                eapply Conc.safe_weaken; [|apply (tsafe_heapify_pop lf t _ Done ltac:(discriminate) hf 1 2); [lia|reflexivity]].
                intros [[]|] l' Hl'; cbn in Hl' |- *; [rewrite Hl'; reflexivity|exact I].
  Qed.
  (** *** the events at the boundaries of the operations *)
  Lemma PL_quiescent g a1 a3 tr s (stt : nat -> status Sp) :
    lp_run lp_init (atrace cap tr) = Some (s, stt) -> List.length s = count g -> (forall u, stt u = Lin.Idle) ->
    Permutation s (prios cap (cellv g)) -> (forall u, pin (a3 u) = false) -> PL g a1 a3 tr.
  Proof.
    intros Hrun Hlen Hidle HM Hp. exists s, stt, None, None. split; [exact Hrun|]. split; [exact Hlen|]. split; [|split; [|split; [|split]]].
    - intros u. unfold stat3. rewrite Hp. apply Hidle.
    - intros u r E. discriminate.
    - intros u r E. discriminate.
    - intros u Hpu. rewrite Hp in Hpu. discriminate.
    - cbn. rewrite !app_nil_r. exact HM.
  Qed.

  Lemma PExt_idle g a1 a3 tr t es : forallb sn es = true -> forallb quiet1 es = true -> PExt g a1 a3 tr -> PExt g a1 a3 (tr ++ Conc.tag t es).
  Proof.
    intros Hes Hq (U1 & U3 & U4 & U6 & U5). unfold PExt, dp. rewrite (scan_neutral_app tr t es Hes).
    split; [exact U1|]. split; [exact U3|]. split; [exact U4|]. split; [exact U6|].
    intros Hb. destruct (U5 Hb) as [F L]. split; [exact F|apply PL_quiet; assumption].
  Qed.

  Lemma PExt_inv_push g a1 a1' a3 tr t args :
    (forall u, u <> t -> tvs a1' u = tvs a1 u) -> PExt g a1 a3 tr ->
    PExt g a1' (upd3 a3 t (mkP false true [] None None NotLin)) (tr ++ Conc.tag t [EvCli "inv_push" args]).
  Proof.
    intros Hoth (U1 & U3 & U4 & U6 & U5). unfold PExt, dp. rewrite scan_snoc.
    change (scan_step (scan_of tr) (t, EvCli "inv_push" args))
      with (mkS (t :: pp (scan_of tr)) (qq (scan_of tr)) (bad (scan_of tr) || ne (qq (scan_of tr)))).
    cbn [pp qq bad]. set (s := scan_of tr) in *.
    split; [|split; [|split; [|split]]].
    - intros u Hu. destruct (Nat.eq_dec u t) as [->|N]; [left; reflexivity|]. rewrite upd3_other in Hu by exact N. right. apply U1. exact Hu.
    - intros u Hu. destruct (Nat.eq_dec u t) as [->|N]; [rewrite upd3_same in Hu; discriminate|]. rewrite upd3_other in Hu by exact N. apply U3. exact Hu.
    - intros u Hu. destruct (Nat.eq_dec u t) as [->|N]; [left; rewrite upd3_same; reflexivity|]. rewrite upd3_other by exact N. apply U4. rewrite <- Hoth by exact N. exact Hu.
    - intros u Hu. destruct (Nat.eq_dec u t) as [->|N]; [rewrite upd3_same; repeat split|]. rewrite upd3_other in * by exact N. apply U6. exact Hu.
    - intros Hb. cbn in Hb. rewrite orb_true_r in Hb. discriminate.
  Qed.

  Lemma Inv_quiescent_perm g a1 tr :
    Inv g a1 tr -> (forall t, inop (tvs a1 t) = false) -> Permutation (heap_items cap g ++ given_back tr) (invoked tr).
  Proof.
    intros Hi Hq. destruct (iH _ _ _ _ Hi) as (H1 & H2 & H3).
    assert (Hh : held a1 = []).
    { destruct (held a1) as [|[t x] r] eqn:E; [reflexivity|]. exfalso.
      assert (Hin : hand (tvs a1 t) = Some x) by (apply H2; left; reflexivity).
      pose proof (H3 t ltac:(rewrite Hin; discriminate)) as K. rewrite Hq in K. discriminate. }
    apply (Permutation_count_occ item_eq_dec). intros x. rewrite !count_occ_app. pose proof (iM _ _ _ _ Hi x) as E.
    unfold hcount in E. rewrite Hh in E. cbn in E. lia.
  Qed.

  (** what the layer that follows the specification state through push phases hands over *)
  Definition spec_quiescent (g : G) (tr : list (nat * ev)) : Prop :=
    exists (s : list Z) (stt : nat -> status Sp), lp_run lp_init (atrace cap tr) = Some (s, stt) /\ List.length s = count g /\
      (forall u, stt u = Lin.Idle) /\ Permutation (s ++ map prio (given_back tr)) (map prio (invoked tr)).

  Lemma spec_cells g a1 tr s :
    Inv g a1 tr -> (forall t, inop (tvs a1 t) = false) ->
    Permutation (s ++ map prio (given_back tr)) (map prio (invoked tr)) -> Permutation s (prios cap (cellv g)).
  Proof.
    intros Hi Hidle HM. pose proof (Inv_quiescent_perm g a1 tr Hi Hidle) as HP. apply (Permutation_map prio) in HP. rewrite map_app in HP.
    apply Permutation_app_inv_r with (l := map prio (given_back tr)). rewrite HM. apply Permutation_sym. exact HP.
  Qed.

  (** ancestors of a cell in use are in use (push phase, quiescent) *)
  Lemma anc_occupied g a1 a2 tr : MsPqInv.Inv cap g a1 tr -> A_ok a1 a2 -> forall j k, anc j k -> cellv g k <> None -> cellv g j <> None.
  Proof.
    intros Hi HA j k Ha. induction Ha as [k Hk|j k Hk Ha IH]; intros Hv.
    - apply T_some; [apply (iT _ _ _ _ Hi)|]. apply (parent_in_use cap OK SH bsz Hbsz g a1 a2 tr k Hi HA Hk Hv).
    - apply IH. apply T_some; [apply (iT _ _ _ _ Hi)|]. apply (parent_in_use cap OK SH bsz Hbsz g a1 a2 tr k Hi HA Hk Hv).
  Qed.

  (** the first pop finds the heap the push phase left behind *)
  Lemma PF_first g a1 a2 a3 tr :
    Inv g a1 tr -> W_ok g a2 -> B_ok g -> A_ok a1 a2 -> (forall u, inop (tvs a1 u) = false) ->
    (forall u, pin (a3 u) = false /\ plk (a3 u) = [] /\ pdirty (a3 u) = None) -> PopFacts g a1 a3.
  Proof.
    intros Hi HW HB HA Hidle Hclean. pose proof HA as [A1 A2].
    assert (Hown : forall u, own (a2 u) = None).
    { intros u. destruct (own (a2 u)) eqn:E; [|reflexivity]. pose proof (A2 u ltac:(right; right; congruence)) as K. rewrite Hidle in K. discriminate. }
    assert (Hps : forall u, pstore (tvs a1 u) = None).
    { intros u. destruct (pstore (tvs a1 u)) eqn:E; [|reflexivity]. pose proof (A2 u ltac:(right; left; congruence)). rewrite Hidle in H. discriminate. }
    assert (Htag : forall i u, cellt g i <> TOwner u) by (intros i u E; apply HW in E; rewrite Hown in E; discriminate).
    constructor.
    - intros u l Hl. destruct (Hclean u) as (_ & E & _). rewrite E in Hl. destruct Hl.
    - intros u u' l Hl. destruct (Hclean u) as (_ & E & _). rewrite E in Hl. destruct Hl.
    - exact Htag.
    - intros u d Hd. destruct (Hclean u) as (_ & _ & E). congruence.
    - intros k j x Ha Hx.
      assert (Hj : cellv g j <> None) by (apply (anc_occupied g a1 a2 tr Hi HA j k Ha); congruence).
      destruct (cellv g j) as [y|] eqn:Ey; [|congruence]. exists y. split; [reflexivity|]. intros _.
      apply (HB k j x y Ha); [|exact Hx|exact Ey].
      destruct (cellt g k) as [| |u] eqn:Et; [|reflexivity|exfalso; apply (Htag k u Et)].
      exfalso. assert (cellv g k = None) by (apply (iT _ _ _ _ Hi); exact Et). congruence.
    - exact Hps.
    - intros u p ch Hd. destruct (Hclean u) as (_ & _ & E). congruence.
    - intros u Hu. destruct (Hclean u) as (E & _). congruence.
    - intros u _. destruct (Hclean u) as (_ & E1 & E2). split; [exact E1|]. split; [exact E2|]. split; [apply A1|].
      destruct (hs (tvs a1 u)) eqn:E; [|reflexivity]. pose proof (A2 u (or_introl E)) as K. rewrite Hidle in K. discriminate.
  Qed.

  (** the last pending push returns: the pop-phase claims are established *)
  Lemma PExt_ret_push g a1 a1' a2 a3 tr t args :
    a3 t = mkP false true [] None None NotLin -> (forall u, u <> t -> tvs a1' u = tvs a1 u) -> tvs a1' t = idle ->
    Inv g a1' (tr ++ Conc.tag t [EvCli "ret_push" args]) -> Ext g a1' a2 (tr ++ Conc.tag t [EvCli "ret_push" args]) ->
    (dp (tr ++ Conc.tag t [EvCli "ret_push" args]) = false -> spec_quiescent g (tr ++ Conc.tag t [EvCli "ret_push" args])) ->
    PExt g a1 a3 tr ->
    PExt g a1' (upd3 a3 t idle3) (tr ++ Conc.tag t [EvCli "ret_push" args]).
  Proof.
    intros Hv Hoth Hid Hi' He' Hfirst (U1 & U3 & U4 & U6 & U5). set (tr' := tr ++ Conc.tag t [EvCli "ret_push" args]) in *.
    assert (Es : scan_of tr' = mkS (del t (pp (scan_of tr))) (qq (scan_of tr)) (bad (scan_of tr))) by (unfold tr'; rewrite scan_snoc; reflexivity).
    unfold PExt. split; [|split; [|split; [|split]]].
    - intros u Hu. rewrite Es. cbn [pp]. destruct (Nat.eq_dec u t) as [->|N]; [rewrite upd3_same in Hu; discriminate|]. rewrite upd3_other in Hu by exact N.
      apply in_del. split; [exact N|apply U1; exact Hu].
    - intros u Hu. rewrite Es. cbn [qq]. destruct (Nat.eq_dec u t) as [->|N]; [rewrite upd3_same in Hu; discriminate|]. rewrite upd3_other in Hu by exact N. apply (U3 u Hu).
    - intros u Hu. destruct (Nat.eq_dec u t) as [->|N]; [rewrite Hid in Hu; discriminate|]. rewrite upd3_other by exact N. apply U4. rewrite <- Hoth by exact N. exact Hu.
    - intros u Hu. destruct (Nat.eq_dec u t) as [->|N]; [rewrite upd3_same; repeat split|]. rewrite upd3_other in * by exact N. apply U6. exact Hu.
    - intros Hb. pose proof Hb as Hb0. unfold dp in Hb. rewrite Es in Hb. cbn [pp bad] in Hb. apply orb_false_iff in Hb. destruct Hb as [Hbad Hpp].
      assert (Hdel : del t (pp (scan_of tr)) = []) by (destruct (del t (pp (scan_of tr))); [reflexivity|discriminate]).
      assert (Htin : In t (pp (scan_of tr))) by (apply U1; rewrite Hv; reflexivity).
      assert (Hqq : qq (scan_of tr) = []) by (destruct (scan_excl tr Hbad) as [E|E]; [rewrite E in Htin; destruct Htin|exact E]).
      assert (Hdq : dq tr' = false) by (unfold dq; rewrite Es; cbn [qq bad]; rewrite Hbad, Hqq; reflexivity).
      destruct He' as (_ & E2 & _). destruct (E2 Hdq) as (HW & HB & HA).
      assert (Hpin : forall u, pin (upd3 a3 t idle3 u) = false).
      { intros u. destruct (Nat.eq_dec u t) as [->|N]; [rewrite upd3_same; reflexivity|]. rewrite upd3_other by exact N.
        destruct (pin (a3 u)) eqn:E; [|reflexivity]. pose proof (U3 u E) as K. rewrite Hqq in K. destruct K. }
      assert (Hidle : forall u, inop (tvs a1' u) = false).
      { intros u. destruct (Nat.eq_dec u t) as [->|N]; [rewrite Hid; reflexivity|]. rewrite Hoth by exact N.
        destruct (inop (tvs a1 u)) eqn:E; [|reflexivity]. destruct (U4 u E) as [K|K].
        - pose proof (U1 u K) as K'. assert (In u (del t (pp (scan_of tr)))) by (apply in_del; auto). rewrite Hdel in H. destruct H.
        - pose proof (U3 u K) as K'. rewrite Hqq in K'. destruct K'. }
      assert (F : PopFacts g a1' (upd3 a3 t idle3)).
      { apply (PF_first g a1' a2 _ tr' Hi' HW HB HA Hidle). intros u. split; [apply Hpin|].
        destruct (Nat.eq_dec u t) as [->|N]; [rewrite upd3_same; split; reflexivity|]. rewrite upd3_other by exact N.
        specialize (Hpin u). rewrite upd3_other in Hpin by exact N. destruct (U6 u Hpin) as (Q1 & Q2 & _). auto. }
      split; [exact F|]. destruct (Hfirst Hb0) as (s & stt & Hrun & Hlen & Hst & HM).
      apply (PL_quiescent g a1' _ tr' s stt Hrun Hlen Hst); [|exact Hpin]. apply (spec_cells g a1' tr' s Hi' Hidle HM).
  Qed.

  Lemma PExt_ret_pop g a1 a1' a3 tr t args rv :
    a3 t = Vdone -> (forall u, u <> t -> tvs a1' u = tvs a1 u) -> tvs a1' t = idle ->
    aev_of cap (t, EvCli "ret_pop" args) = [@ARes Sp t (RVal rv : Res Sp)] -> option_map prio (hand (tvs a1 t)) = rv ->
    PExt g a1 a3 tr ->
    PExt g a1' (upd3 a3 t idle3) (tr ++ Conc.tag t [EvCli "ret_pop" args]).
  Proof.
    intros Hv Hoth Hid Hae Hrv (U1 & U3 & U4 & U6 & U5). set (tr' := tr ++ Conc.tag t [EvCli "ret_pop" args]) in *.
    assert (Es : scan_of tr' = mkS (pp (scan_of tr)) (del t (qq (scan_of tr))) (bad (scan_of tr))) by (unfold tr'; rewrite scan_snoc; reflexivity).
    unfold PExt. split; [|split; [|split; [|split]]].
    - intros u Hu. rewrite Es. cbn [pp]. destruct (Nat.eq_dec u t) as [->|N]; [rewrite upd3_same in Hu; discriminate|]. rewrite upd3_other in Hu by exact N. apply (U1 u Hu).
    - intros u Hu. rewrite Es. cbn [qq]. destruct (Nat.eq_dec u t) as [->|N]; [rewrite upd3_same in Hu; discriminate|]. rewrite upd3_other in Hu by exact N.
      apply in_del. split; [exact N|apply U3; exact Hu].
    - intros u Hu. destruct (Nat.eq_dec u t) as [->|N]; [rewrite Hid in Hu; discriminate|]. rewrite upd3_other by exact N. apply U4. rewrite <- Hoth by exact N. exact Hu.
    - intros u Hu. destruct (Nat.eq_dec u t) as [->|N]; [rewrite upd3_same; repeat split|]. rewrite upd3_other in * by exact N. apply U6. exact Hu.
    - intros Hb. unfold dp in Hb. rewrite Es in Hb. cbn [pp bad] in Hb. destruct (U5 Hb) as [F L]. split.
      + apply (PF_io g a1 a1' a3 t idle3 F); rewrite ?Hv, ?Hid; try reflexivity; [exact Hoth|discriminate|intros _; split; reflexivity].
      + apply (PL_ret_pop g a1 a1' a3 tr t args rv Hv Hae Hrv Hoth L).
  Qed.

  Lemma PExt_inv_pop g a1 a1' a3 tr t :
    a3 t = idle3 -> (forall u, u <> t -> tvs a1' u = tvs a1 u) -> pstore (tvs a1' t) = None -> inop (tvs a1' t) = true ->
    PExt g a1 a3 tr -> PExt g a1' (upd3 a3 t Vstart) (tr ++ Conc.tag t [EvCli "inv_pop" []]).
  Proof.
    intros Hid Hoth Hps Hin (U1 & U3 & U4 & U6 & U5). unfold PExt, dp. rewrite scan_snoc.
    change (scan_step (scan_of tr) (t, EvCli "inv_pop" []))
      with (mkS (pp (scan_of tr)) (t :: qq (scan_of tr)) (bad (scan_of tr) || ne (pp (scan_of tr)))).
    cbn [pp qq bad].
    split; [|split; [|split; [|split]]].
    - intros u Hu. destruct (Nat.eq_dec u t) as [->|N]; [rewrite upd3_same in Hu; discriminate|]. rewrite upd3_other in Hu by exact N. apply (U1 u Hu).
    - intros u Hu. destruct (Nat.eq_dec u t) as [->|N]; [left; reflexivity|]. rewrite upd3_other in Hu by exact N. right. apply (U3 u Hu).
    - intros u Hu. destruct (Nat.eq_dec u t) as [->|N]; [right; rewrite upd3_same; reflexivity|]. rewrite upd3_other by exact N. apply U4. rewrite <- Hoth by exact N. exact Hu.
    - intros u Hu. destruct (Nat.eq_dec u t) as [->|N]; [rewrite upd3_same in Hu; discriminate|]. rewrite upd3_other in * by exact N. apply U6. exact Hu.
    - intros Hb. assert (Hb' : dp tr = false) by (unfold dp; destruct (bad (scan_of tr)), (ne (pp (scan_of tr))); cbn in *; congruence).
      destruct (U5 Hb') as [F L]. split.
      + apply (PF_io g a1 a1' a3 t Vstart F); rewrite ?Hid; try reflexivity; auto. discriminate.
      + apply (PL_inv_pop g a1 a1' a3 tr t); [rewrite Hid; reflexivity|exact Hoth|exact L].
  Qed.

  (** the second component at the boundaries of a pop *)
  Lemma Ext_inv_pop g a1 a1' a2 tr t :
    a2 t = idle2 -> (forall u, u <> t -> tvs a1' u = tvs a1 u) -> Ext g a1 a2 tr ->
    Ext g a1' (upd2 a2 t (mkT2 None true)) (tr ++ Conc.tag t [EvCli "inv_pop" []]).
  Proof.
    intros V2 Hoth (E1 & E2 & E3).
    assert (Es : qq (scan_of (tr ++ Conc.tag t [EvCli "inv_pop" []])) = t :: qq (scan_of tr)) by (rewrite scan_snoc; reflexivity).
    apply (Ext_dead dq Pq).
    - intros u Hu. unfold Pq. rewrite Es. destruct (Nat.eq_dec u t) as [->|N]; [left; reflexivity|]. rewrite upd2_other in Hu by exact N. right. apply (E1 u Hu).
    - intros u Hu. destruct (Nat.eq_dec u t) as [->|N]; [rewrite upd2_same in Hu; cbn in Hu; congruence|]. rewrite upd2_other in Hu by exact N. rewrite Hoth by exact N. apply (E3 u Hu).
    - unfold dq. rewrite Es. apply orb_true_r.
  Qed.

  (** quiescent heap after pops: the claims of the push layer hold *)
  Lemma WBA_quiescent g a1 a2 a3 tr :
    Inv g a1 tr -> PopFacts g a1 a3 -> (forall u, pin (a3 u) = false) -> (forall u, own (a2 u) = None) ->
    W_ok g a2 /\ B_ok g /\ A_ok a1 a2.
  Proof.
    intros Hi F Hp Ho. split; [|split; [|split]].
    - intros i u. split; [intros E; exfalso; apply (k3 _ _ _ F i u E)|intros E; rewrite Ho in E; discriminate].
    - intros k j x y Ha _ Hx Hy. destruct (k5 _ _ _ F k j x Ha Hx) as (y' & Hy' & Hle). rewrite Hy in Hy'. inversion Hy'; subst y'.
      apply Hle. intros [u Hu]. destruct (k9 _ _ _ F u (Hp u)) as (_ & E & _). congruence.
    - intros u. destruct (k9 _ _ _ F u (Hp u)) as (_ & _ & E & _). exact E.
    - intros u [K|[K|K]]; exfalso.
      + destruct (k9 _ _ _ F u (Hp u)) as (_ & _ & _ & E). congruence.
      + apply K. apply (k6 _ _ _ F).
      + apply K. apply Ho.
  Qed.

  Lemma Ext_ret_pop g a1 a1' a2 a3' tr t args :
    a2 t = mkT2 None true -> (forall u, u <> t -> tvs a1' u = tvs a1 u) -> inop (tvs a1' t) = false ->
    Inv g a1' (tr ++ Conc.tag t [EvCli "ret_pop" args]) -> PExt g a1' a3' (tr ++ Conc.tag t [EvCli "ret_pop" args]) ->
    Ext g a1 a2 tr ->
    Ext g a1' (upd2 a2 t idle2) (tr ++ Conc.tag t [EvCli "ret_pop" args]).
  Proof.
    intros V2 Hoth Hid Hi' (U1 & U3 & U4 & U6 & U5) (E1 & E2 & E3). set (tr' := tr ++ Conc.tag t [EvCli "ret_pop" args]) in *.
    assert (Es : scan_of tr' = mkS (pp (scan_of tr)) (del t (qq (scan_of tr))) (bad (scan_of tr))) by (unfold tr'; rewrite scan_snoc; reflexivity).
    assert (E3' : forall u, own (upd2 a2 t idle2 u) <> None -> inop (tvs a1' u) = true).
    { intros u Hu. destruct (Nat.eq_dec u t) as [->|N]; [rewrite upd2_same in Hu; cbn in Hu; congruence|]. rewrite upd2_other in Hu by exact N. rewrite Hoth by exact N. apply (E3 u Hu). }
    split; [|split; [|exact E3']].
    - intros u Hu. unfold Pq. rewrite Es. cbn [qq]. destruct (Nat.eq_dec u t) as [->|N]; [rewrite upd2_same in Hu; discriminate|]. rewrite upd2_other in Hu by exact N.
      apply in_del. split; [exact N|apply (E1 u Hu)].
    - intros Hf. unfold dq in Hf. rewrite Es in Hf. cbn [qq bad] in Hf. apply orb_false_iff in Hf. destruct Hf as [Hbad Hq].
      assert (Hdel : del t (qq (scan_of tr)) = []) by (destruct (del t (qq (scan_of tr))); [reflexivity|discriminate]).
      assert (Htin : In t (qq (scan_of tr))) by (apply (E1 t); rewrite V2; reflexivity).
      assert (Hpp : pp (scan_of tr) = []) by (destruct (scan_excl tr Hbad) as [E|E]; [exact E|rewrite E in Htin; destruct Htin]).
      assert (Hdp : dp tr' = false) by (unfold dp; rewrite Es; cbn [pp bad]; rewrite Hbad, Hpp; reflexivity).
      destruct (U5 Hdp) as [F _].
      assert (Hpin : forall u, pin (a3' u) = false).
      { intros u. destruct (pin (a3' u)) eqn:E; [|reflexivity]. pose proof (U3 u E) as K. rewrite Es in K. cbn [qq] in K. rewrite Hdel in K. destruct K. }
      assert (Hidle : forall u, inop (tvs a1' u) = false).
      { intros u. destruct (inop (tvs a1' u)) eqn:E; [|reflexivity]. destruct (U4 u E) as [K|K].
        - pose proof (U1 u K) as K'. rewrite Es in K'. cbn [pp] in K'. rewrite Hpp in K'. destruct K'.
        - rewrite Hpin in K. discriminate. }
      apply (WBA_quiescent g a1' _ a3' tr' Hi' F Hpin). intros u. destruct (own (upd2 a2 t idle2 u)) eqn:E; [|reflexivity].
      pose proof (E3' u ltac:(rewrite E; discriminate)) as K. rewrite Hidle in K. discriminate.
  Qed.

  Lemma ret_pop_quiescent tr t args :
    In t (qq (scan_of tr)) -> dq (tr ++ Conc.tag t [EvCli "ret_pop" args]) = false -> dp (tr ++ Conc.tag t [EvCli "ret_pop" args]) = false.
  Proof.
    intros Hin. unfold dq, dp. rewrite scan_snoc.
    change (scan_step (scan_of tr) (t, EvCli "ret_pop" args)) with (mkS (pp (scan_of tr)) (del t (qq (scan_of tr))) (bad (scan_of tr))).
    cbn [pp qq bad]. intros H. apply orb_false_iff in H. destruct H as [Hb _]. rewrite Hb.
    destruct (scan_excl tr Hb) as [E|E]; [rewrite E; reflexivity|rewrite E in Hin; destruct Hin].
  Qed.
  Lemma ret_push_quiescent tr t args :
    In t (pp (scan_of tr)) -> dp (tr ++ Conc.tag t [EvCli "ret_push" args]) = false -> dq (tr ++ Conc.tag t [EvCli "ret_push" args]) = false.
  Proof.
    intros Hin. unfold dq, dp. rewrite scan_snoc.
    change (scan_step (scan_of tr) (t, EvCli "ret_push" args)) with (mkS (del t (pp (scan_of tr))) (qq (scan_of tr)) (bad (scan_of tr))).
    cbn [pp qq bad]. intros H. apply orb_false_iff in H. destruct H as [Hb _]. rewrite Hb.
    destruct (scan_excl tr Hb) as [E|E]; [rewrite E in Hin; destruct Hin|rewrite E; reflexivity].
  Qed.

  (** *** push is scan-neutral *)
  Lemma quietp_bind {A B} (p : prog A) (q : A -> prog B) : quietp p -> (forall r, quietp (q r)) -> quietp (Conc.bind p q).
  Proof.
    induction p as [r|es k IH|f k IH]; cbn [Conc.bind quietp]; intros Hp Hq.
    - apply Hq.
    - destruct Hp. split; auto.
    - destruct Hp as [H1 H2]. split; [exact H1|]. intros v. apply IH; auto.
  Qed.

  Definition qbody (bd : body) : Prop := forall g, forallb sn (snd (bd g)) = true.

  Lemma quietp_lock_oi l bd : qbody bd -> forall f, quietp (lock_outer f l bd) /\ quietp (lock_inner f l bd).
  Proof.
    intros Hb. induction f as [|f [IHo IHi]]; [split; exact I|]. split.
    - cbn [lock_outer quietp]. split.
      + intros g. unfold a_lock. destruct (lockbit g l); [reflexivity|]. specialize (Hb (set_lockbit g l true)).
        destruct (bd (set_lockbit g l true)) as [[g' v] es]. cbn [snd] in *. cbn [forallb sn]. exact Hb.
      + intros v. destruct (vbusy v); [exact IHi|exact I].
    - cbn [lock_inner quietp]. split; [intros g; reflexivity|]. intros v. destruct (vbusy v); assumption.
  Qed.

  Lemma quietp_checked {A} v (k : prog (option A)) : quietp k -> quietp (checked v k).
  Proof. intros H. unfold checked. destruct (verr v) as [|[|c]]; [exact H| |]; cbn; auto. Qed.

  Lemma quietp_lock_ {A} lf l bd (k : V -> prog (option A)) : qbody bd -> (forall v, quietp (k v)) -> quietp (lock_ lf l bd k).
  Proof.
    intros Hb Hk. unfold lock_, obind. apply quietp_bind; [apply (quietp_lock_oi l bd Hb lf)|].
    intros [v|]; [apply quietp_checked; apply Hk|exact I].
  Qed.

  Lemma quietp_unlock_ {A} l bd (k : V -> prog (option A)) : qbody bd -> (forall v, quietp (k v)) -> quietp (unlock_ l bd k).
  Proof.
    intros Hb Hk. unfold unlock_, unlock. cbn [Conc.bind quietp]. split.
    - intros g. unfold a_unlock. specialize (Hb g). destruct (bd g) as [[g' v] es]. cbn [snd] in *. cbn [forallb sn]. exact Hb.
    - intros v. apply quietp_checked. apply Hk.
  Qed.

  Lemma qbody_none : qbody body_none.
  Proof. intros g. reflexivity. Qed.

  Lemma quietp_heapify_push lf t : forall hf i, quietp (heapify_push hf lf t i).
  Proof.
    induction hf as [|hf IH]; intros i; [exact I|]. cbn [heapify_push]. destruct (Nat.ltb 1 i).
    - apply quietp_lock_; [apply qbody_none|]. intros _. apply quietp_lock_.
      + intros g. unfold body_sift_up. destruct (_ && _); [destruct (nval _); [destruct (nval _); [destruct (Z.gtb _ _)|]|]|destruct (tag_eqb _ _); [|destruct (negb _)]]; reflexivity.
      + intros v. apply quietp_unlock_; [apply qbody_none|]. intros _. apply quietp_unlock_; [apply qbody_none|]. intros _. apply IH.
    - destruct (Nat.eqb i 1); [|exact I]. apply quietp_lock_.
      + intros g. unfold body_push_top. destruct (tag_eqb _ _); reflexivity.
      + intros _. apply quietp_unlock_; [apply qbody_none|]. intros _. exact I.
  Qed.

  Lemma quietp_push hf lf t x : quietp (push cap bsz hf lf t x).
  Proof.
    unfold push. apply quietp_lock_.
    - intros g. unfold body_push_size. destruct (Z.leb _ _); [reflexivity|]. destruct (brc_inc (ctr g)). reflexivity.
    - intros v. destruct (vb v).
      + apply quietp_unlock_; [apply qbody_none|]. intros _. exact I.
      + apply quietp_lock_; [apply qbody_none|]. intros _. apply quietp_unlock_; [intros g; reflexivity|]. intros _.
        apply quietp_unlock_; [apply qbody_none|]. intros _. unfold obind. apply quietp_bind; [apply quietp_heapify_push|]. intros [[]|]; exact I.
  Qed.



  Lemma quietp_heapify_pop lf : forall hf p c, quietp (heapify_pop hf lf bsz p c).
  Proof.
    induction hf as [|hf IH]; intros p c; [exact I|]. cbn [heapify_pop]. destruct (Nat.ltb c bsz).
    - apply quietp_lock_.
      + intros g. unfold body_child. destruct (tag_eqb _ _); [reflexivity|]. destruct (Nat.ltb _ _); [reflexivity|].
        unfold cmp_swap. destruct (nval _); [destruct (nval _); [destruct (Z.gtb _ _)|]|]; reflexivity.
      + intros v. destruct (vn v) as [|[|[|n]]].
        * apply quietp_unlock_; [apply qbody_none|]. intros _. apply quietp_unlock_; [apply qbody_none|]. intros _. exact I.
        * apply quietp_lock_.
          -- intros g. unfold body_right. destruct (negb _); [destruct (nval _); [destruct (nval _)|]|]; reflexivity.
          -- intros w. apply quietp_unlock_.
             ++ intros g. unfold cmp_swap. destruct (nval _); [destruct (nval _); [destruct (Z.gtb _ _)|]|]; reflexivity.
             ++ intros u. destruct (vb u).
                ** apply quietp_unlock_; [apply qbody_none|]. intros _. apply IH.
                ** apply quietp_unlock_; [apply qbody_none|]. intros _. apply quietp_unlock_; [apply qbody_none|]. intros _. exact I.
        * apply quietp_unlock_; [apply qbody_none|]. intros _. apply IH.
        * apply quietp_unlock_; [apply qbody_none|]. intros _. apply quietp_unlock_; [apply qbody_none|]. intros _. exact I.
    - apply quietp_unlock_; [apply qbody_none|]. intros _. exact I.
  Qed.

  Lemma quietp_pop hf lf : quietp (pop bsz hf lf).
  Proof.
    unfold pop. apply quietp_lock_.
    - intros g. unfold body_pop_size. destruct (Z.eqb _ _); [reflexivity|]. destruct (brc_dec (ctr g)). reflexivity.
    - intros v. destruct (vb v).
      + apply quietp_unlock_; [apply qbody_none|]. intros _. exact I.
      + destruct (Nat.eqb (vn v) 1).
        * apply quietp_lock_; [intros g; reflexivity|]. intros w. apply quietp_unlock_; [apply qbody_none|]. intros _.
          apply quietp_unlock_; [apply qbody_none|]. intros _. exact I.
        * apply quietp_lock_; [apply qbody_none|]. intros _. apply quietp_lock_; [apply qbody_none|]. intros _.
          apply quietp_unlock_; [intros g; reflexivity|]. intros w. apply quietp_unlock_.
          -- intros g. unfold body_pop_top. destruct (tag_eqb _ _); reflexivity.
          -- intros u. destruct (vb u).
             ++ apply quietp_unlock_; [apply qbody_none|]. intros _. exact I.
             ++ unfold obind. apply quietp_bind; [apply quietp_heapify_pop|]. intros [[]|]; exact I.
  Qed.

  (** *** client operations, step by step *)
  Definition tidle : (tv * tv2) * pv := ((idle, idle2), idle3).
  Definition wpush : pv := mkP false true [] None None NotLin.

  Lemma tframe2 t a1 a1' (a2 a2' : Aux2) a3 a3' :
    (forall u, u <> t -> tvs a1' u = tvs a1 u) -> (forall u, u <> t -> a2' u = a2 u) -> (forall u, u <> t -> a3' u = a3 u) ->
    Conc.frame tview t ((a1, a2), a3) ((a1', a2'), a3').
  Proof. intros H1 H2 H3 u Hu. unfold tview, jview. cbn [fst snd]. rewrite H1, H2, H3 by exact Hu. reflexivity. Qed.

  Lemma Ext_quiet g a1 a2 tr t es : forallb sn es = true -> Ext g a1 a2 tr -> Ext g a1 a2 (tr ++ Conc.tag t es).
  Proof.
    intros Hes (E1 & E2 & E3). split; [|split; [|exact E3]].
    - intros u Hu. unfold Pq. rewrite (scan_neutral_app tr t es Hes). apply (E1 u Hu).
    - unfold dq. rewrite (scan_neutral_app tr t es Hes). exact E2.
  Qed.

  Lemma TInv_quiet g a tr t es :
    forallb irrelevant es = true -> forallb sn es = true -> forallb quiet1 es = true -> TInv g a tr -> TInv g a (tr ++ Conc.tag t es).
  Proof.
    intros H1 H2 H3 [[Hi He] Hx]. split; [split; [apply Inv_irrelevant; assumption|apply Ext_quiet; assumption]|apply PExt_idle; assumption].
  Qed.

  Lemma TInv_inv_push g a tr t x :
    TInv g a tr -> tview a t = tidle ->
    exists a', TInv g a' (tr ++ Conc.tag t [EvCli "inv_push" (zitem x)]) /\ Conc.frame tview t a a' /\
               tview a' t = ((Vpush x, mkT2 None false), wpush).
  Proof.
    destruct a as [[a1 a2] a3]. intros [[Hi He] Hx] Hv. unfold tview, jview, tidle in Hv. cbn [fst snd] in *. inversion Hv as [[V1 V2 V3]].
    pose proof (Inv_inv_push cap g a1 tr t idle x V1 eq_refl eq_refl eq_refl Hi) as H1.
    cbn [set_inop set_hand idle hs hand pstore pclear inop pfail] in H1. set (b1 := set_held _ _) in H1.
    assert (Hv1 : tvs b1 t = Vpush x) by (subst b1; cbn; rewrite Nat.eqb_refl; reflexivity).
    assert (Hoth1 : forall u, u <> t -> tvs b1 u = tvs a1 u) by (intros u Hu; subst b1; cbn; destruct (Nat.eqb_spec u t); congruence).
    exists ((b1, a2), upd3 a3 t wpush). split; [split; [split; [exact H1|]|]|split].
    - cbn [fst snd]. apply (Ext_same dq Pq HDq HPq g g a1 b1 a2 tr _ t); auto; rewrite ?Hv1; try reflexivity; try (intros _; reflexivity).
    - cbn [fst snd]. apply (PExt_inv_push g a1 b1 a3 tr t (zitem x) Hoth1 Hx).
    - apply tframe2; [exact Hoth1|intros; reflexivity|intros u Hu; apply upd3_other; exact Hu].
    - unfold tview, jview. cbn [fst snd]. rewrite Hv1, V2, upd3_same. reflexivity.
  Qed.

  Lemma tpush_body hf lf t x :
    tsafe t (push cap bsz hf lf t x) ((Vpush x, mkT2 None false), wpush) (fun r l' => optQ2 (Qjpush x) r (fst l') /\ snd l' = wpush).
  Proof. apply (lift_psh _ t _ _ wpush eq_refl (quietp_push hf lf t x) (jsafe_push cap OK SH bsz Hbsz dq Pq HDq HPq hf lf t x)). Qed.

  Lemma TInv_ret_push g a tr t x (b : bool) :
    TInv g a tr -> Qjpush x b (fst (tview a t)) -> snd (tview a t) = wpush ->
    (dp (tr ++ Conc.tag t [EvCli "ret_push" ((if b then 1 else 0)%Z :: zitem x)]) = false ->
     spec_quiescent g (tr ++ Conc.tag t [EvCli "ret_push" ((if b then 1 else 0)%Z :: zitem x)])) ->
    exists a', TInv g a' (tr ++ Conc.tag t [EvCli "ret_push" ((if b then 1 else 0)%Z :: zitem x)]) /\ Conc.frame tview t a a' /\ tview a' t = tidle.
  Proof.
    destruct a as [[c1 c2] c3]. intros [[Hi2 He2] Hx2] [E1 E2] W3 Hfirst. unfold tview, jview in *. cbn [fst snd] in *. unfold Qpush in E1.
    set (c1' := set_held (updv c1 t idle) (hdel t (held c1))).
    assert (Hv1' : tvs c1' t = idle) by (subst c1'; cbn; rewrite Nat.eqb_refl; reflexivity).
    assert (Hoth' : forall u, u <> t -> tvs c1' u = tvs c1 u) by (intros u Hu; subst c1'; cbn; destruct (Nat.eqb_spec u t); congruence).
    assert (Hi' : Inv g c1' (tr ++ Conc.tag t [EvCli "ret_push" ((if b then 1 else 0)%Z :: zitem x)])).
    { destruct b.
      - pose proof (Inv_ret cap g c1 tr t _ "ret_push" 1%Z x false E1 eq_refl eq_refl eq_refl eq_refl (or_introl eq_refl) eq_refl) as H2.
        apply H2; [destruct x; reflexivity|destruct x; discriminate|exact Hi2].
      - pose proof (Inv_ret cap g c1 tr t _ "ret_push" 0%Z x true E1 eq_refl eq_refl eq_refl eq_refl (or_introl eq_refl) eq_refl) as H2.
        apply H2; [destruct x; reflexivity|reflexivity|exact Hi2]. }
    assert (He' : Ext g c1' c2 (tr ++ Conc.tag t [EvCli "ret_push" ((if b then 1 else 0)%Z :: zitem x)])).
    { apply (Ext_same dq Pq HDq HPq g g c1 c1' c2 tr _ t); auto; rewrite ?Hv1'; try reflexivity. rewrite E2. cbn. intros [K|[K|K]]; congruence. }
    exists ((c1', c2), upd3 c3 t idle3). split; [split; [split; [exact Hi'|exact He']|]|split].
    - cbn [fst snd]. apply (PExt_ret_push g c1 c1' c2 c3 tr t _ W3 Hoth' Hv1' Hi' He' Hfirst Hx2).
    - apply tframe2; [exact Hoth'|intros; reflexivity|intros u Hu; apply upd3_other; exact Hu].
    - unfold tview, jview, tidle. cbn [fst snd]. rewrite Hv1', E2, upd3_same. reflexivity.
  Qed.

  Lemma TInv_stopped_push g a tr t :
    TInv g a tr -> psh (snd (tview a t)) = true -> TInv g a (tr ++ Conc.tag t [EvCli "stopped" []]).
  Proof.
    destruct a as [[c1 c2] c3]. intros [[Hi2 He2] Hx2] W3. unfold tview in W3. cbn [fst snd] in *.
    split; [split; [apply Inv_irrelevant; [reflexivity|exact Hi2]|apply Ext_quiet; [reflexivity|exact He2]]|].
    cbn [fst snd]. apply (PExt_push g g c1 c1 c3 tr t _); [exact W3|reflexivity|intros; reflexivity|exact Hx2].
  Qed.

  Lemma TInv_inv_pop g a tr t :
    TInv g a tr -> tview a t = tidle ->
    exists a', TInv g a' (tr ++ Conc.tag t [EvCli "inv_pop" []]) /\ Conc.frame tview t a a' /\ tview a' t = PV Vpop Vstart.
  Proof.
    destruct a as [[a1 a2] a3]. intros [[Hi He] Hx] Hv. unfold tview, jview, tidle in Hv. cbn [fst snd] in *. inversion Hv as [[V1 V2 V3]].
    pose proof (Inv_inv_pop cap g a1 tr t idle V1 eq_refl eq_refl Hi) as H1.
    cbn [set_inop idle hs hand pstore pclear inop pfail] in H1.
    set (b1 := updv a1 t (mkTv false None None None true false)) in *.
    set (b2 := upd2 a2 t (mkT2 None true)).
    assert (Hoth1 : forall u, u <> t -> tvs b1 u = tvs a1 u) by (intros u Hu; apply tvs_updv_other; exact Hu).
    exists ((b1, b2), upd3 a3 t Vstart). split; [split; [split; [exact H1|]|]|split].
    - cbn [fst snd]. apply (Ext_inv_pop g a1 b1 a2 tr t V2 Hoth1 He).
    - cbn [fst snd]. apply (PExt_inv_pop g a1 b1 a3 tr t V3 Hoth1); [| |exact Hx]; unfold b1; rewrite tvs_updv_same; reflexivity.
    - apply tframe2; [exact Hoth1|intros u Hu; apply upd2_other; exact Hu|intros u Hu; apply upd3_other; exact Hu].
    - unfold tview, jview, PV. cbn [fst snd]. unfold b1, b2. rewrite tvs_updv_same, upd2_same, upd3_same. reflexivity.
  Qed.

  Definition ret_pop_args (r : option item) : list Z := match r with Some x => 1%Z :: zitem x | None => [0; 0; 0]%Z end.

  Lemma TInv_ret_pop g a tr t (r : option item) :
    TInv g a tr -> tview a t = PV (mkTv false r None None true false) Vdone ->
    exists a', TInv g a' (tr ++ Conc.tag t [EvCli "ret_pop" (ret_pop_args r)]) /\ Conc.frame tview t a a' /\ tview a' t = tidle.
  Proof.
    destruct a as [[c1 c2] c3]. intros [[Hi2 He2] Hx2] Hv2. unfold tview, jview, PV in Hv2. cbn [fst snd] in *. inversion Hv2 as [[W1 W2 W3]].
    set (c1' := set_held (updv c1 t idle) (hdel t (held c1))).
    assert (Hv1' : tvs c1' t = idle) by (subst c1'; cbn; rewrite Nat.eqb_refl; reflexivity).
    assert (Hoth' : forall u, u <> t -> tvs c1' u = tvs c1 u) by (intros u Hu; subst c1'; cbn; destruct (Nat.eqb_spec u t); congruence).
    assert (Hi' : Inv g c1' (tr ++ Conc.tag t [EvCli "ret_pop" (ret_pop_args r)])).
    { destruct r as [x|]; cbn [ret_pop_args].
      - pose proof (Inv_ret cap g c1 tr t _ "ret_pop" 1%Z x true W1 eq_refl eq_refl eq_refl eq_refl (or_intror eq_refl) eq_refl) as H2.
        apply H2; [destruct x; reflexivity|destruct x; discriminate|exact Hi2].
      - pose proof (Inv_ret cap g c1 tr t _ "ret_pop" 0%Z (0%Z, 0%Z) false W1 eq_refl eq_refl eq_refl eq_refl (or_intror eq_refl) eq_refl) as H2.
        apply H2; [reflexivity|discriminate|exact Hi2]. }
    assert (Hx' : PExt g c1' (upd3 c3 t idle3) (tr ++ Conc.tag t [EvCli "ret_pop" (ret_pop_args r)])).
    { apply (PExt_ret_pop g c1 c1' c3 tr t _ (option_map prio r) W3 Hoth' Hv1'); [destruct r as [[p i]|]; reflexivity|rewrite W1; reflexivity|exact Hx2]. }
    exists ((c1', upd2 c2 t idle2), upd3 c3 t idle3). split; [split; [split; [exact Hi'|]|exact Hx']|split].
    - cbn [fst snd]. apply (Ext_ret_pop g c1 c1' c2 _ tr t _ W2 Hoth' ltac:(rewrite Hv1'; reflexivity) Hi' Hx' He2).
    - apply tframe2; [exact Hoth'|intros u Hu; apply upd2_other; exact Hu|intros u Hu; apply upd3_other; exact Hu].
    - unfold tview, jview, tidle. cbn [fst snd]. rewrite Hv1', upd2_same, upd3_same. reflexivity.
  Qed.

  (** at a quiescent point of a disciplined run the specification state is known *)
  Lemma quiescent_spec g a tr :
    TInv g a tr -> dq tr = false -> dp tr = false -> spec_quiescent g tr /\ (forall u, pend tr u = false).
  Proof.
    destruct a as [[a1 a2] a3]. intros [[Hi He] (U1 & U3 & U4 & U6 & U5)] Hq Hp. cbn [fst snd] in *.
    destruct (U5 Hp) as [F (s & stt & oS & o1 & Hrun & Hlen & Hst & HS & H1 & Hcov & HM)].
    unfold dq in Hq. apply orb_false_iff in Hq. destruct Hq as [Hbad Hqq]. unfold dp in Hp. apply orb_false_iff in Hp. destruct Hp as [_ Hpp].
    assert (Eq : qq (scan_of tr) = []) by (destruct (qq (scan_of tr)); [reflexivity|discriminate]).
    assert (Ep : pp (scan_of tr) = []) by (destruct (pp (scan_of tr)); [reflexivity|discriminate]).
    assert (Hpin : forall u, pin (a3 u) = false) by (intros u; destruct (pin (a3 u)) eqn:E; [pose proof (U3 u E) as K; rewrite Eq in K; destruct K|reflexivity]).
    assert (Hidle : forall u, inop (tvs a1 u) = false).
    { intros u. destruct (inop (tvs a1 u)) eqn:E; [|reflexivity]. destruct (U4 u E) as [K|K]; [pose proof (U1 u K) as K'; rewrite Ep in K'; destruct K'|rewrite Hpin in K; discriminate]. }
    assert (EoS : oS = None) by (destruct oS as [[u r]|]; [destruct (HS u r eq_refl) as (_ & A2 & _); rewrite Hpin in A2; discriminate|reflexivity]).
    assert (Eo1 : o1 = None) by (destruct o1 as [[u r]|]; [destruct (H1 u r eq_refl) as (_ & A2 & _); rewrite Hpin in A2; discriminate|reflexivity]).
    subst oS o1. cbn in HM. rewrite !app_nil_r in HM. split.
    - exists s, stt. split; [exact Hrun|]. split; [exact Hlen|]. split.
      + intros u. specialize (Hst u). unfold stat3 in Hst. rewrite Hpin in Hst. exact Hst.
      + pose proof (Inv_quiescent_perm g a1 tr Hi Hidle) as HP. apply (Permutation_map prio) in HP. rewrite map_app in HP.
        rewrite <- HP. apply Permutation_app_tail. exact HM.
    - intros u. rewrite (iP _ _ _ _ Hi u). apply Hidle.
  Qed.

  Lemma PF_init a1 a3 : (forall t, tvs a1 t = idle) -> (forall t, a3 t = idle3) -> PopFacts init a1 a3.
  Proof.
    intros H1 H3. constructor.
    - intros t l Hl. rewrite H3 in Hl. destruct Hl.
    - intros t t' l Hl. rewrite H3 in Hl. destruct Hl.
    - intros i u. cbn. discriminate.
    - intros t d Hd. rewrite H3 in Hd. discriminate.
    - intros k j x _ Hx. discriminate.
    - intros t. rewrite H1. reflexivity.
    - intros t p ch Hd. rewrite H3 in Hd. discriminate.
    - intros t Hp. rewrite H3 in Hp. discriminate.
    - intros t _. rewrite H3, H1. repeat split.
  Qed.

  Lemma prios_empty h : (forall i, h i = None) -> prios cap h = [].
  Proof.
    intros H. unfold prios, items. induction (seq 1 cap) as [|i l IH]; [reflexivity|]. cbn [flat_map]. rewrite H. cbn. exact IH.
  Qed.

  Lemma tinit : TInv init ((mkA (fun _ => idle) [], fun _ => idle2), fun _ => idle3) [].
  Proof.
    split; [split; [apply Inv_init|]|]; cbn [fst snd].
    - split; [intros t H; discriminate|]. split; [|intros t H; cbn in H; congruence]. intros _. split; [|split; [|split]].
      + intros i t. cbn. split; discriminate.
      + intros k j x y _ _ Hx. discriminate.
      + intros t. reflexivity.
      + intros t [H|[H|H]]; cbn in H; congruence.
    - unfold PExt. split; [intros t H; discriminate|]. split; [intros t H; discriminate|]. split; [intros t H; discriminate|].
      split; [intros t _; repeat split|]. intros _. split; [apply PF_init; reflexivity|].
      apply (PL_quiescent init _ _ [] [] (fun _ => Lin.Idle)); try reflexivity. rewrite prios_empty; [reflexivity|reflexivity].
  Qed.
End Pop.
