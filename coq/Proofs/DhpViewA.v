(** * DhpViewA: changing only the bookkeeping fields [va_e] / [va_node] of one thread's view. *)
From Coq Require Import ZArith NArith List String Bool Lia PeanoNat.
From LV Require Import Base.Conc Base.Events Model.DhpLang Model.Dhp Proofs.DhpBase Proofs.DhpHist
  Proofs.DhpLangProofs Proofs.DhpInvA Proofs.DhpStepsA Proofs.DhpScanA Proofs.DhpAllocA.
Import ListNotations.

Definition with_en (l : VA) (e : option (option nat * bool)) (n : option nat) : VA :=
  mkVA (va_tls l) (va_unpub l) (va_hold l) (va_help l) n (va_blk l) e (va_limbo l) (va_scan l).

Section ViewA.
  Variable c : cfg.

  Lemma JA_view_en g a h t l e n :
    JA c g a h -> views a t = l ->
    (forall e0 f, e = Some (e0, f) -> exists r, va_tls l = Some r /\ r_ext (grec g r) = e0 /\
                                        (f = true -> exists b, va_blk l = Some b /\ gb_nextb (ggb g b) = e0)) ->
    (forall n0, n = Some n0 -> after g (tlist g) n0) ->
    JA c g (upd_aux a t (with_en l e n) (bown a)) h.
  Proof.
    intros J Hv He Hn. destruct J as [J1 J2 J3 J4 J5 J6 J7 J8 J9 J10 J11 J12 J15 J16 J17 J18 J13 J14].
    set (a' := upd_aux a t (with_en l e n) (bown a)).
    assert (V : forall t', va_tls (views a' t') = va_tls (views a t') /\ va_unpub (views a' t') = va_unpub (views a t') /\
                           va_hold (views a' t') = va_hold (views a t') /\ va_help (views a' t') = va_help (views a t') /\
                           va_blk (views a' t') = va_blk (views a t') /\
                           va_limbo (views a' t') = va_limbo (views a t') /\ va_scan (views a' t') = va_scan (views a t')).
    { intros t'. unfold a'. vcase t' t; [subst l; cbn; repeat split; reflexivity|repeat split; reflexivity]. }
    assert (B : bown a' = bown a) by reflexivity.
    constructor; rewrite ?B; auto.
    - intros r t' k Ha. destruct (V t') as (E&_). rewrite E. auto.
    - intros t' r Ht. destruct (V t') as (E&_). rewrite E in Ht. auto.
    - intros t' r bt Ht. destruct (V t') as (_&E&_). rewrite E in Ht. destruct (J5 t' r bt Ht) as (X1&X2&X3&X4&X5&X6). repeat split; auto.
      intros t'' bt' Ht''. destruct (V t'') as (_&E'&_). rewrite E' in Ht''. eauto.
    - intros t' r Ht. destruct (V t') as (_&_&E&_&_&E6&_). rewrite E in Ht. rewrite E6. auto.
    - intros t' r Ht. destruct (V t') as (_&_&E3&E4&_). rewrite E4 in Ht. rewrite E3. auto.
    - intros r Hr Ha. destruct (J8 r Hr Ha) as [X|(t' & X1 & X2)]; [now left|right]. exists t'.
      destruct (V t') as (_&_&E3&_&_&E6&_). rewrite E3, E6. auto.
    - intros t' b' Ht. destruct (V t') as (_&_&_&_&E5&E6&_). rewrite E5 in Ht. rewrite E6. auto.
    - intros t' o lb Ht. destruct (V t') as (_&_&_&_&_&E6&_). rewrite E6 in Ht. auto.
    - intros t' e' f Ht. destruct (Nat.eq_dec t' t) as [->|N].
      + unfold a' in *. rewrite upd_aux_same in *. cbn in Ht. cbn [va_tls va_blk with_en]. eauto.
      + unfold a' in *. rewrite upd_aux_other in * by exact N. eauto.
    - intros t' n' Ht. destruct (Nat.eq_dec t' t) as [->|N].
      + unfold a' in *. rewrite upd_aux_same in *. cbn in Ht. eauto.
      + unfold a' in *. rewrite upd_aux_other in * by exact N. eauto.
    - intros t'. destruct (V t') as (_&_&_&_&_&_&E8). rewrite E8. apply J14.
  Qed.
End ViewA.
