(** * Flat-combining kernel, part C: publication records are not used after they were freed.

    The invariant of part B (LV.Proofs.FcKernelShape: the ghost publication list and what every thread knows
    about it) extended with the ghost ALLOCATED list (m_pAllocatedHead, pNextAllocated) and the set of freed
    records: a record is freed (loop 2 of compact_list) only when it has no owner any more, is not in the
    publication list (is_published returned false) and is unlinked from the allocated list by the same CAS;
    every access of the kernel is to the thread's own record, to a record of the publication list or of the
    allocated list while holding the combiner lock, or to a record completed by fc_process that was visited in
    the same pass.  Hence the model event "uaf" (an atomic access to a freed record) never occurs.

    The file repeats part B's development (the two invariants cannot be layered: the continuation of a step
    is stated for the view the step produces) and adds the F-part ([GlobF], [KnowF]) to every step. *)

From Coq Require Import ZArith List String Bool Lia PeanoNat.
From LV Require Import Base.Conc Base.Events Model.FcKernel Proofs.FcKernelProofs.
Import ListNotations.
Local Open Scope string_scope.
Local Open Scope list_scope.

Set Implicit Arguments.

(** ** lists: successor and suffix *)
Definition ptr (o : option nat) : nat := match o with None => 0 | Some y => S y end.

Fixpoint succ_of (l : list nat) (q : nat) : option nat :=
  match l with
  | [] => None
  | x :: l' => if Nat.eqb q x then hd_error l' else succ_of l' q
  end.

Fixpoint suffix_from (q : nat) (l : list nat) : list nat :=
  match l with
  | [] => []
  | x :: l' => if Nat.eqb q x then l else suffix_from q l'
  end.

Lemma sf_in q l v : In v (suffix_from q l) -> In v l.
Proof.
  induction l as [|x l IH]; cbn; auto. destruct (Nat.eqb q x); auto.
Qed.

Lemma sf_self q l : In q l -> In q (suffix_from q l).
Proof.
  induction l as [|x l IH]; cbn; auto. destruct (Nat.eqb_spec q x) as [->|Hne]; [intros _; left; reflexivity|].
  intros [E|H]; [congruence|auto].
Qed.

Lemma succ_in l q y : succ_of l q = Some y -> In y l.
Proof.
  induction l as [|x l IH]; cbn; [discriminate|]. destruct (Nat.eqb q x).
  - destruct l; cbn; [discriminate|]. intros E; inversion E. right; left; reflexivity.
  - intros H. right. auto.
Qed.

Lemma succ_notin l q : ~ In q l -> succ_of l q = None.
Proof.
  induction l as [|x l IH]; cbn; auto. intros H. destruct (Nat.eqb_spec q x) as [->|Hne]; [exfalso; apply H; left; reflexivity|].
  apply IH. intros Hin. apply H. right; exact Hin.
Qed.

(** the elements after [q] in a duplicate-free list are the elements from its successor on *)
Lemma sf_succ l : NoDup l -> forall q v, In v (suffix_from q l) -> v <> q ->
  exists y, succ_of l q = Some y /\ In v (suffix_from y l).
Proof.
  induction l as [|x l IH]; intros Hnd q v Hin Hne; cbn in *; [destruct Hin|].
  apply NoDup_cons_iff in Hnd. destruct Hnd as [Hx Hnd].
  destruct (Nat.eqb_spec q x) as [->|Hqx].
  - destruct Hin as [E|Hin]; [congruence|]. destruct l as [|y l']; [destruct Hin|]. exists y. split; [reflexivity|].
    cbn. destruct (Nat.eqb_spec y x) as [->|]; [exfalso; apply Hx; left; reflexivity|]. rewrite Nat.eqb_refl. exact Hin.
  - destruct (IH Hnd q v Hin Hne) as (y & Hs & Hv). exists y. split; [exact Hs|].
    destruct (Nat.eqb_spec y x) as [->|]; [|exact Hv]. exfalso. apply Hx. eapply succ_in; exact Hs.
Qed.

Lemma sf_last l : forall q v, In v (suffix_from q l) -> succ_of l q = None -> v = q.
Proof.
  induction l as [|x l IH]; intros q v Hin Hs; cbn in *; [destruct Hin|].
  destruct (Nat.eqb_spec q x) as [->|Hqx].
  - destruct l; cbn in Hs; [|discriminate]. destruct Hin as [E|[]]. congruence.
  - auto.
Qed.

(** inserting [r] right after the first element *)
Lemma succ_insert h r l q : h <> r -> ~ In r l ->
  succ_of (h :: r :: l) q = if Nat.eqb q h then Some r else if Nat.eqb q r then hd_error l else succ_of (h :: l) q.
Proof.
  intros Hhr Hr. cbn. destruct (Nat.eqb_spec q h) as [->|Hqh]; [reflexivity|].
  destruct (Nat.eqb_spec q r) as [->|Hqr]; reflexivity.
Qed.

Lemma sf_insert h r l q : q <> r -> q <> h -> suffix_from q (h :: r :: l) = suffix_from q (h :: l).
Proof.
  intros H1 H2. cbn. destruct (Nat.eqb_spec q h); [congruence|]. destruct (Nat.eqb_spec q r); [congruence|]. reflexivity.
Qed.

(** removing [r] (not the first element) *)
Definition del (r : nat) (l : list nat) : list nat := filter (fun x => negb (Nat.eqb x r)) l.

Lemma in_del r l x : In x (del r l) <-> In x l /\ x <> r.
Proof. unfold del. rewrite filter_In. destruct (Nat.eqb_spec x r); cbn; intuition congruence. Qed.

Lemma NoDup_del r l : NoDup l -> NoDup (del r l).
Proof. unfold del. apply NoDup_filter. Qed.

Lemma hd_del r l : NoDup l -> hd_error (del r l) = match hd_error l with
                                                   | Some x => if Nat.eqb x r then hd_error (tl l) else Some x
                                                   | None => None end.
Proof.
  destruct l as [|x l]; cbn; auto. intros Hnd. apply NoDup_cons_iff in Hnd. destruct Hnd as [Hx _].
  destruct (Nat.eqb_spec x r) as [->|]; cbn; auto.
  destruct l as [|y l]; cbn; auto. destruct (Nat.eqb_spec y r) as [->|]; cbn; auto. exfalso. apply Hx. left; reflexivity.
Qed.

Lemma del_cons r x l : del r (x :: l) = if Nat.eqb x r then del r l else x :: del r l.
Proof. unfold del. cbn. destruct (Nat.eqb x r); reflexivity. Qed.

Lemma succ_del l : NoDup l -> forall r q, q <> r ->
  succ_of (del r l) q = match succ_of l q with
                        | Some y => if Nat.eqb y r then succ_of l r else Some y
                        | None => None end.
Proof.
  induction l as [|x l IH]; intros Hnd r q Hqr; [reflexivity|].
  apply NoDup_cons_iff in Hnd. destruct Hnd as [Hx Hnd].
  rewrite del_cons. cbn [succ_of]. destruct (Nat.eqb_spec x r) as [->|Hxr].
  - (* the removed element is the first one *)
    destruct (Nat.eqb_spec q r); [congruence|]. rewrite Nat.eqb_refl. rewrite IH by assumption.
    destruct (succ_of l q) as [y|] eqn:Hs; auto. destruct (Nat.eqb_spec y r) as [->|]; auto.
    exfalso. apply Hx. eapply succ_in; exact Hs.
  - cbn [succ_of]. destruct (Nat.eqb_spec q x) as [->|Hqx].
    + rewrite hd_del by assumption. destruct l as [|y l']; cbn; auto.
      destruct (Nat.eqb_spec y r) as [->|]; auto. rewrite Nat.eqb_refl.
      destruct (Nat.eqb_spec r x); [congruence|]. reflexivity.
    + destruct (Nat.eqb_spec r x); [congruence|]. rewrite IH by assumption. reflexivity.
Qed.

Lemma succ_not_first h l q y : NoDup (h :: l) -> succ_of (h :: l) q = Some y -> In y l.
Proof.
  intros Hnd Hs. cbn in Hs. destruct (Nat.eqb q h).
  - destruct l; cbn in Hs; [discriminate|]. inversion Hs. left; reflexivity.
  - eapply succ_in; exact Hs.
Qed.

Lemma succ_inj l : NoDup l -> forall q x y, succ_of l q = Some y -> succ_of l x = Some y -> q = x.
Proof.
  induction l as [|a l IH]; intros Hnd q x y Hq Hx; cbn in *; [discriminate|].
  apply NoDup_cons_iff in Hnd. destruct Hnd as [Ha Hnd].
  destruct (Nat.eqb_spec q a) as [Hqa|Hqa]; destruct (Nat.eqb_spec x a) as [Hxa|Hxa]; [congruence| | |].
  - destruct l as [|b l']; cbn in Hq; [discriminate|]. inversion Hq; subst b.
    exfalso. cbn in Hx. destruct (Nat.eqb_spec x y) as [Hxy|Hxy]; [rewrite Hxy in *|].
    + apply NoDup_cons_iff in Hnd. destruct Hnd as [Hy _]. destruct l'; cbn in Hx; [discriminate|]. inversion Hx; subst. apply Hy. left; reflexivity.
    + apply NoDup_cons_iff in Hnd. destruct Hnd as [Hy _]. apply Hy. eapply succ_in; exact Hx.
  - destruct l as [|b l']; cbn in Hx; [discriminate|]. inversion Hx; subst b.
    exfalso. cbn in Hq. destruct (Nat.eqb_spec q y) as [Hqy|Hqy]; [rewrite Hqy in *|].
    + apply NoDup_cons_iff in Hnd. destruct Hnd as [Hy _]. destruct l'; cbn in Hq; [discriminate|]. inversion Hq; subst. apply Hy. left; reflexivity.
    + apply NoDup_cons_iff in Hnd. destruct Hnd as [Hy _]. apply Hy. eapply succ_in; exact Hq.
  - eapply IH; eauto.
Qed.

Lemma succ_ne l : NoDup l -> forall q y, succ_of l q = Some y -> y <> q.
Proof.
  induction l as [|a l IH]; intros Hnd q y Hs; cbn in Hs; [discriminate|].
  apply NoDup_cons_iff in Hnd. destruct Hnd as [Ha Hnd].
  destruct (Nat.eqb_spec q a) as [E|E].
  - destruct l as [|b l']; cbn in Hs; [discriminate|]. inversion Hs; subst b. intros E2. apply Ha. left. congruence.
  - eapply IH; eauto.
Qed.

Lemma del_LL h r l : h <> r -> del r (h :: l) = h :: del r l.
Proof. intros H. rewrite del_cons. destruct (Nat.eqb_spec h r); [congruence|reflexivity]. Qed.

Lemma ptr_inj o1 o2 : ptr o1 = ptr o2 -> o1 = o2.
Proof. destruct o1, o2; cbn; intros H; congruence. Qed.


Section Free.
  Variables (C Rs : Type) (rs0 : Rs) (rs_enc : Rs -> list Z).
  Variable capply : C -> nat -> Z -> C * Rs.
  Variable P : Type.
  Variable pinit : P.
  Variable pvisit : P -> C -> nat -> nat -> nat -> Z -> P * C * list (nat * Rs).
  (** what fc_process remembers between two records (itPrev): the records it may still complete *)
  Variable pheldr : P -> list nat.
  Hypothesis pinit_held : pheldr pinit = [].
  Hypothesis pvisit_recs : forall p c r op tid arg p' c' cs, pvisit p c r op tid arg = (p', c', cs) ->
    (forall q, In q (map fst cs) -> q = r \/ In q (pheldr p)) /\ (forall q, In q (pheldr p') -> q = r \/ In q (pheldr p)).


  Notation G := (FcKernel.G C Rs).
  Notation V := (FcKernel.V Rs P).
  Notation prog := (Conc.prog G V ev).
  Notation vN n := (@VN Rs P n).

  Definition nxt (g : G) (r : nat) : nat := r_next (g_recs g r).
  Definition stt (g : G) (r : nat) : nat := r_state (g_recs g r).
  Definition rq (g : G) (r : nat) : nat := r_req (g_recs g r).

  (** ** auxiliary state: the ghost publication list and what each thread knows *)
  Inductive ownst := OUnk | OUnl | OPub.

  Record sview := mkSV {
    w_my : option nat;
    w_own : ownst;
    w_mynx : option nat;
    w_wait : bool;
    w_done : bool;
    w_hold : bool;
    w_link : bool;
    w_cur : option nat;
    w_tgt : option nat;
    w_pp : option nat;
    w_nx : option (nat * nat);
    w_deact : option nat;
    w_cand : option nat;
    w_vic : option nat;
    w_anew : bool;
    w_mynxa : option nat;
    w_acur : option nat;
    w_app : option nat;
    w_anx : option (nat * nat);
    w_vis : list nat }.

  Definition set_my (l : sview) (x : option nat) : sview := mkSV x (w_own l) (w_mynx l) (w_wait l) (w_done l) (w_hold l) (w_link l) (w_cur l) (w_tgt l) (w_pp l) (w_nx l) (w_deact l) (w_cand l) (w_vic l) (w_anew l) (w_mynxa l) (w_acur l) (w_app l) (w_anx l) (w_vis l).
  Definition set_own (l : sview) (x : ownst) : sview := mkSV (w_my l) x (w_mynx l) (w_wait l) (w_done l) (w_hold l) (w_link l) (w_cur l) (w_tgt l) (w_pp l) (w_nx l) (w_deact l) (w_cand l) (w_vic l) (w_anew l) (w_mynxa l) (w_acur l) (w_app l) (w_anx l) (w_vis l).
  Definition set_mynx (l : sview) (x : option nat) : sview := mkSV (w_my l) (w_own l) x (w_wait l) (w_done l) (w_hold l) (w_link l) (w_cur l) (w_tgt l) (w_pp l) (w_nx l) (w_deact l) (w_cand l) (w_vic l) (w_anew l) (w_mynxa l) (w_acur l) (w_app l) (w_anx l) (w_vis l).
  Definition set_wait (l : sview) (x : bool) : sview := mkSV (w_my l) (w_own l) (w_mynx l) x (w_done l) (w_hold l) (w_link l) (w_cur l) (w_tgt l) (w_pp l) (w_nx l) (w_deact l) (w_cand l) (w_vic l) (w_anew l) (w_mynxa l) (w_acur l) (w_app l) (w_anx l) (w_vis l).
  Definition set_done (l : sview) (x : bool) : sview := mkSV (w_my l) (w_own l) (w_mynx l) (w_wait l) x (w_hold l) (w_link l) (w_cur l) (w_tgt l) (w_pp l) (w_nx l) (w_deact l) (w_cand l) (w_vic l) (w_anew l) (w_mynxa l) (w_acur l) (w_app l) (w_anx l) (w_vis l).
  Definition set_hold (l : sview) (x : bool) : sview := mkSV (w_my l) (w_own l) (w_mynx l) (w_wait l) (w_done l) x (w_link l) (w_cur l) (w_tgt l) (w_pp l) (w_nx l) (w_deact l) (w_cand l) (w_vic l) (w_anew l) (w_mynxa l) (w_acur l) (w_app l) (w_anx l) (w_vis l).
  Definition set_link (l : sview) (x : bool) : sview := mkSV (w_my l) (w_own l) (w_mynx l) (w_wait l) (w_done l) (w_hold l) x (w_cur l) (w_tgt l) (w_pp l) (w_nx l) (w_deact l) (w_cand l) (w_vic l) (w_anew l) (w_mynxa l) (w_acur l) (w_app l) (w_anx l) (w_vis l).
  Definition set_cur (l : sview) (x : option nat) : sview := mkSV (w_my l) (w_own l) (w_mynx l) (w_wait l) (w_done l) (w_hold l) (w_link l) x (w_tgt l) (w_pp l) (w_nx l) (w_deact l) (w_cand l) (w_vic l) (w_anew l) (w_mynxa l) (w_acur l) (w_app l) (w_anx l) (w_vis l).
  Definition set_tgt (l : sview) (x : option nat) : sview := mkSV (w_my l) (w_own l) (w_mynx l) (w_wait l) (w_done l) (w_hold l) (w_link l) (w_cur l) x (w_pp l) (w_nx l) (w_deact l) (w_cand l) (w_vic l) (w_anew l) (w_mynxa l) (w_acur l) (w_app l) (w_anx l) (w_vis l).
  Definition set_pp (l : sview) (x : option nat) : sview := mkSV (w_my l) (w_own l) (w_mynx l) (w_wait l) (w_done l) (w_hold l) (w_link l) (w_cur l) (w_tgt l) x (w_nx l) (w_deact l) (w_cand l) (w_vic l) (w_anew l) (w_mynxa l) (w_acur l) (w_app l) (w_anx l) (w_vis l).
  Definition set_nx (l : sview) (x : option (nat * nat)) : sview := mkSV (w_my l) (w_own l) (w_mynx l) (w_wait l) (w_done l) (w_hold l) (w_link l) (w_cur l) (w_tgt l) (w_pp l) x (w_deact l) (w_cand l) (w_vic l) (w_anew l) (w_mynxa l) (w_acur l) (w_app l) (w_anx l) (w_vis l).
  Definition set_deact (l : sview) (x : option nat) : sview := mkSV (w_my l) (w_own l) (w_mynx l) (w_wait l) (w_done l) (w_hold l) (w_link l) (w_cur l) (w_tgt l) (w_pp l) (w_nx l) x (w_cand l) (w_vic l) (w_anew l) (w_mynxa l) (w_acur l) (w_app l) (w_anx l) (w_vis l).
  Definition set_cand (l : sview) (x : option nat) : sview := mkSV (w_my l) (w_own l) (w_mynx l) (w_wait l) (w_done l) (w_hold l) (w_link l) (w_cur l) (w_tgt l) (w_pp l) (w_nx l) (w_deact l) x (w_vic l) (w_anew l) (w_mynxa l) (w_acur l) (w_app l) (w_anx l) (w_vis l).
  Definition set_vic (l : sview) (x : option nat) : sview := mkSV (w_my l) (w_own l) (w_mynx l) (w_wait l) (w_done l) (w_hold l) (w_link l) (w_cur l) (w_tgt l) (w_pp l) (w_nx l) (w_deact l) (w_cand l) x (w_anew l) (w_mynxa l) (w_acur l) (w_app l) (w_anx l) (w_vis l).
  Definition set_anew (l : sview) (x : bool) : sview := mkSV (w_my l) (w_own l) (w_mynx l) (w_wait l) (w_done l) (w_hold l) (w_link l) (w_cur l) (w_tgt l) (w_pp l) (w_nx l) (w_deact l) (w_cand l) (w_vic l) x (w_mynxa l) (w_acur l) (w_app l) (w_anx l) (w_vis l).
  Definition set_mynxa (l : sview) (x : option nat) : sview := mkSV (w_my l) (w_own l) (w_mynx l) (w_wait l) (w_done l) (w_hold l) (w_link l) (w_cur l) (w_tgt l) (w_pp l) (w_nx l) (w_deact l) (w_cand l) (w_vic l) (w_anew l) x (w_acur l) (w_app l) (w_anx l) (w_vis l).
  Definition set_acur (l : sview) (x : option nat) : sview := mkSV (w_my l) (w_own l) (w_mynx l) (w_wait l) (w_done l) (w_hold l) (w_link l) (w_cur l) (w_tgt l) (w_pp l) (w_nx l) (w_deact l) (w_cand l) (w_vic l) (w_anew l) (w_mynxa l) x (w_app l) (w_anx l) (w_vis l).
  Definition set_app (l : sview) (x : option nat) : sview := mkSV (w_my l) (w_own l) (w_mynx l) (w_wait l) (w_done l) (w_hold l) (w_link l) (w_cur l) (w_tgt l) (w_pp l) (w_nx l) (w_deact l) (w_cand l) (w_vic l) (w_anew l) (w_mynxa l) (w_acur l) x (w_anx l) (w_vis l).
  Definition set_anx (l : sview) (x : option (nat * nat)) : sview := mkSV (w_my l) (w_own l) (w_mynx l) (w_wait l) (w_done l) (w_hold l) (w_link l) (w_cur l) (w_tgt l) (w_pp l) (w_nx l) (w_deact l) (w_cand l) (w_vic l) (w_anew l) (w_mynxa l) (w_acur l) (w_app l) x (w_vis l).
  Definition set_vis (l : sview) (x : list nat) : sview := mkSV (w_my l) (w_own l) (w_mynx l) (w_wait l) (w_done l) (w_hold l) (w_link l) (w_cur l) (w_tgt l) (w_pp l) (w_nx l) (w_deact l) (w_cand l) (w_vic l) (w_anew l) (w_mynxa l) (w_acur l) (w_app l) (w_anx l) x.

  Record aux := mkSA { s_pl : list nat; s_v : nat -> sview; s_al : list nat }.
  Definition view (a : aux) (t : nat) : sview := s_v a t.
  Definition upd {A} (f : nat -> A) (t : nat) (x : A) : nat -> A := fun u => if Nat.eqb u t then x else f u.
  Definition setv (a : aux) (t : nat) (l : sview) : aux := mkSA (s_pl a) (upd (s_v a) t l) (s_al a).
  Definition setpl (a : aux) (pl : list nat) : aux := mkSA pl (s_v a) (s_al a).
  Definition setal (a : aux) (al : list nat) : aux := mkSA (s_pl a) (s_v a) al.

  Lemma upd_same {A} (f : nat -> A) t x : upd f t x t = x.
  Proof. unfold upd. now rewrite Nat.eqb_refl. Qed.
  Lemma upd_other {A} (f : nat -> A) t x u : u <> t -> upd f t x u = f u.
  Proof. unfold upd. intros H. destruct (Nat.eqb_spec u t); congruence. Qed.

  Lemma view_setv a t l : view (setv a t l) t = l.
  Proof. unfold view, setv; cbn. apply upd_same. Qed.
  Lemma frame_setv a t l : Conc.frame view t a (setv a t l).
  Proof. intros u Hu. unfold view, setv; cbn. now apply upd_other. Qed.
  Lemma frame_refl a t : Conc.frame view t a a.
  Proof. intros u Hu. reflexivity. Qed.
  Lemma frame_setpl a t pl : Conc.frame view t a (setpl a pl).
  Proof. intros u Hu. reflexivity. Qed.
  Lemma frame_trans t a b c : Conc.frame view t a b -> Conc.frame view t b c -> Conc.frame view t a c.
  Proof. intros H1 H2 u Hu. rewrite (H2 u Hu). apply H1; exact Hu. Qed.

  Lemma frame_setal a t al : Conc.frame view t a (setal a al).
  Proof. intros u Hu. reflexivity. Qed.

  Definition unowned (a : aux) (r : nat) : Prop := forall t, w_my (s_v a t) <> Some r.
  Definition LL (a : aux) : list nat := head :: s_pl a.

  Record Glob (g : G) (a : aux) : Prop := {
    gl_free : g_lock g = false -> forall t, w_hold (s_v a t) = false;
    gl_uniq : forall t t', w_hold (s_v a t) = true -> w_hold (s_v a t') = true -> t = t';
    gl_inj : forall t t' r, w_my (s_v a t) = Some r -> w_my (s_v a t') = Some r -> t = t';
    gl_link : forall q, In q (LL a) -> nxt g q = ptr (succ_of (LL a) q);
    gl_nodup : NoDup (LL a);
    gl_pl : forall r, In r (s_pl a) -> r < g_nrec g /\ stt g r <> st_inactive;
    gl_act : forall r, stt g r = st_active ->
               In r (s_pl a) \/ (exists t, w_my (s_v a t) = Some r /\ w_own (s_v a t) = OPub) \/
               (exists t, w_deact (s_v a t) = Some r) \/ unowned a r;
    gl_rem : forall r, stt g r = st_removed -> unowned a r;
    gl_fresh : forall r, g_nrec g <= r -> stt g r <> st_removed;
    gl_head : stt g head <> st_removed /\ 1 <= g_nrec g;
    gl_st : forall r, stt g r <= 2 }.

  Record Know (g : G) (a : aux) (l : sview) : Prop := {
    k_my : forall r, w_my l = Some r -> 1 <= r < g_nrec g;
    k_unl : w_own l <> OUnk -> forall r, w_my l = Some r -> ~ In r (s_pl a);
    k_pub : w_own l = OPub -> forall r, w_my l = Some r -> stt g r = st_active;
    k_mynx : forall p, w_mynx l = Some p -> w_own l <> OUnk -> forall r, w_my l = Some r -> nxt g r = p;
    k_wait : w_wait l = true -> forall r, w_my l = Some r -> rq g r <> req_Empty;
    k_done : w_done l = true -> forall r, w_my l = Some r -> rq g r = req_Response;
    k_link : w_link l = true -> w_hold l = true /\ forall r, w_my l = Some r -> In r (s_pl a) /\ stt g r = st_active;
    k_cur : forall q, w_cur l = Some q ->
              w_hold l = true /\ In q (LL a) /\
              (forall v, w_tgt l = Some v -> In v (s_pl a) -> In v (suffix_from q (LL a))) /\
              (w_pp l <> None -> In q (s_pl a));
    k_pp : forall x, w_pp l = Some x -> w_hold l = true /\ In x (LL a);
    k_nx : forall r n, w_nx l = Some (r, n) -> w_hold l = true /\ In r (s_pl a) /\ nxt g r = n;
    k_deact : forall r, w_deact l = Some r ->
              w_hold l = true /\ ~ In r (s_pl a) /\ r < g_nrec g /\
              forall t0, w_my (s_v a t0) = Some r -> w_own (s_v a t0) = OUnk /\ stt g r = st_active;
    k_cand : forall r, w_cand l = Some r -> unowned a r /\ r < g_nrec g /\ r <> head;
    k_vic : forall r, w_vic l = Some r -> unowned a r /\ r < g_nrec g /\ r <> head /\ ~ In r (s_pl a);
    k_tgt : forall v, w_tgt l = Some v -> w_my l = Some v \/ (unowned a v /\ v < g_nrec g) }.

  Definition Inv0 (g : G) (a : aux) (tr : list (nat * ev)) : Prop :=
    has_lost tr = false /\ Glob g a /\ forall t, Know g a (s_v a t).

  (** ** the F-part: the allocated list and the freed records *)
  Definition nxa (g : G) (r : nat) : nat := r_nexta (g_recs g r).
  Definition frd (g : G) (r : nat) : bool := r_freed (g_recs g r).
  Definition AL (a : aux) : list nat := head :: s_al a.

  Record GlobF (g : G) (a : aux) : Prop := {
    gf_link : forall q, In q (AL a) -> nxa g q = ptr (succ_of (AL a) q);
    gf_nodup : NoDup (AL a);
    gf_al : forall r, In r (AL a) -> r < g_nrec g /\ frd g r = false;
    gf_pll : forall r, In r (LL a) -> frd g r = false;
    gf_freed : forall r, frd g r = true -> unowned a r /\ r < g_nrec g }.

  Record KnowF (g : G) (a : aux) (l : sview) : Prop := {
    kf_new : w_anew l = true -> forall r, w_my l = Some r -> ~ In r (AL a);
    kf_mynxa : forall p, w_mynxa l = Some p -> w_anew l = true -> forall r, w_my l = Some r -> nxa g r = p;
    kf_cur : w_hold l = true -> forall q, w_acur l = Some q -> In q (s_al a);
    kf_pp : w_hold l = true -> forall x, w_app l = Some x -> In x (AL a);
    kf_nx : w_hold l = true -> forall r n, w_anx l = Some (r, n) -> In r (s_al a) /\ nxa g r = n;
    kf_deact : w_hold l = true -> forall r, w_deact l = Some r -> frd g r = false;
    kf_vis : w_hold l = true -> forall q, In q (w_vis l) -> frd g q = false }.

  Definition has_uaf (tr : list (nat * ev)) : bool := existsb (is_ev "uaf") tr.

  Definition FInv (g : G) (a : aux) (tr : list (nat * ev)) : Prop :=
    has_uaf tr = false /\ GlobF g a /\ forall t, KnowF g a (s_v a t).

  Definition Inv (g : G) (a : aux) (tr : list (nat * ev)) : Prop := Inv0 g a tr /\ FInv g a tr.

  Notation safe := (@Conc.safe G V ev aux sview view Inv).

  (** ** steps that change nothing the invariant reads *)
  Definition same_shape (g g' : G) : Prop :=
    g_lock g' = g_lock g /\ g_nrec g' = g_nrec g /\
    forall r, nxt g' r = nxt g r /\ stt g' r = stt g r /\ rq g' r = rq g r.

  Lemma Glob_ext g g' a : same_shape g g' -> Glob g a -> Glob g' a.
  Proof.
    intros (El & En & Hr) H. destruct H. split; auto.
    - rewrite El. auto.
    - intros q Hq. destruct (Hr q) as (E & _). rewrite E. auto.
    - intros r Hin. destruct (Hr r) as (_ & E & _). rewrite E, En. auto.
    - intros r Hs. destruct (Hr r) as (_ & E & _). rewrite E in Hs. auto.
    - intros r Hs. destruct (Hr r) as (_ & E & _). rewrite E in Hs. auto.
    - intros r Hle. destruct (Hr r) as (_ & E & _). rewrite E. apply gl_fresh0. rewrite <- En. exact Hle.
    - destruct (Hr head) as (_ & E & _). rewrite E, En. auto.
    - intros r. destruct (Hr r) as (_ & E & _). rewrite E. auto.
  Qed.

  Definition same_recs (g g' : G) : Prop :=
    g_nrec g' = g_nrec g /\ forall r, nxt g' r = nxt g r /\ stt g' r = stt g r /\ rq g' r = rq g r.

  Lemma Know_recs g g' a l : same_recs g g' -> Know g a l -> Know g' a l.
  Proof.
    intros (En & Hr) H. destruct H. split.
    - intros r Hm. rewrite En. auto.
    - auto.
    - intros Ho r Hm. destruct (Hr r) as (_ & E & _). rewrite E. auto.
    - intros p Hp Ho r Hm. destruct (Hr r) as (E & _). rewrite E. eauto.
    - intros Hw r Hm. destruct (Hr r) as (_ & _ & E). rewrite E. auto.
    - intros Hw r Hm. destruct (Hr r) as (_ & _ & E). rewrite E. auto.
    - intros Hk. destruct (k_link0 Hk) as [A B]. split; auto. intros r Hm. destruct (Hr r) as (_ & E & _). rewrite E. auto.
    - auto.
    - auto.
    - intros r n Hn. destruct (k_nx0 r n Hn) as (A & B & D). destruct (Hr r) as (E & _). rewrite E. auto.
    - intros r Hd. destruct (k_deact0 r Hd) as (A & B & B' & D). split; auto. split; auto. split; [rewrite En; exact B'|].
      intros t0 Ht0. destruct (Hr r) as (_ & E & _). rewrite E. auto.
    - intros r Hc. rewrite En. auto.
    - intros r Hc. rewrite En. auto.
    - rewrite En. auto.
  Qed.

  Lemma Know_ext g g' a l : same_shape g g' -> Know g a l -> Know g' a l.
  Proof. intros (_ & H). apply Know_recs. exact H. Qed.
  (** *** events *)
  Definition nolost (es : list ev) : Prop := Forall (fun e => is_cli "lost" e = false) es.

  Lemma nolost_tag tr t es : has_lost tr = false -> nolost es -> has_lost (tr ++ Conc.tag t es) = false.
  Proof.
    intros H He. rewrite has_lost_app, H. cbn. induction He as [|e es He _ IH]; [reflexivity|].
    change (has_lost (Conc.tag t (e :: es))) with (is_ev "lost" (t, e) || has_lost (Conc.tag t es)).
    unfold is_ev; cbn. rewrite He, IH. reflexivity.
  Qed.

  Lemma nolost_acc (g : G) k r f ok : nolost (acc g k r f ok).
  Proof. unfold acc. constructor; [reflexivity|]. destruct (r_freed (g_recs g r)); repeat constructor. Qed.

  (** *** changing only the stepping thread's view, its record / ownership / lock status unchanged *)
  Lemma unowned_setv a t l' r : w_my l' = w_my (s_v a t) -> (unowned (setv a t l') r <-> unowned a r).
  Proof.
    intros E. unfold unowned, setv; cbn. split; intros H u; specialize (H u); unfold upd in *;
      (destruct (Nat.eqb_spec u t) as [E1|E1]; [rewrite E1 in *|]); congruence.
  Qed.

  Lemma Know_setv g a t l' l0 :
    w_my l' = w_my (s_v a t) -> w_own l' = w_own (s_v a t) -> Know g a l0 -> Know g (setv a t l') l0.
  Proof.
    intros Em Eo H. destruct H. split; auto.
    - intros r Hd. destruct (k_deact0 r Hd) as (A & B & B' & D). split; auto. split; auto. split; auto.
      intros t0 Ht0. cbn in *. unfold upd in *. destruct (Nat.eqb_spec t0 t) as [E1|E1]; [|auto].
      rewrite Eo. apply D. rewrite <- E1. congruence.
    - intros r Hc. destruct (k_cand0 r Hc) as (A & B). split; auto. apply unowned_setv; auto.
    - intros r Hc. destruct (k_vic0 r Hc) as (A & B). split; auto. apply unowned_setv; auto.
    - intros v Hc. destruct (k_tgt0 v Hc) as [A|[A B]]; [left; exact A|right; split; [apply unowned_setv; auto|exact B]].
  Qed.

  Lemma Glob_setv g a t l' :
    w_my l' = w_my (s_v a t) -> w_own l' = w_own (s_v a t) -> w_hold l' = w_hold (s_v a t) ->
    (forall r, w_deact (s_v a t) = Some r -> stt g r = st_active -> ~ In r (s_pl a) -> w_deact l' = Some r) ->
    Glob g a -> Glob g (setv a t l').
  Proof.
    intros Em Eo Eh Ed H. destruct H. split; auto.
    - intros Hf u. cbn. unfold upd. destruct (Nat.eqb_spec u t) as [E1|E1]; [rewrite Eh, <- E1|]; auto.
    - intros u u' H1 H2. cbn in *. unfold upd in *. apply gl_uniq0;
        [destruct (Nat.eqb_spec u t) as [E1|E1]|destruct (Nat.eqb_spec u' t) as [E1|E1]]; congruence.
    - intros u u' r H1 H2. cbn in *. unfold upd in *. apply (gl_inj0 u u' r);
        [destruct (Nat.eqb_spec u t) as [E1|E1]|destruct (Nat.eqb_spec u' t) as [E1|E1]]; congruence.
    - intros r Hs. destruct (gl_act0 r Hs) as [A|[(u & A & B)|[(u & A)|A]]]; auto.
      + right. left. exists u. cbn. unfold upd. destruct (Nat.eqb_spec u t) as [E1|E1]; [rewrite Em, Eo, <- E1|]; auto.
      + destruct (in_dec Nat.eq_dec r (s_pl a)) as [Hin|Hnin]; [left; exact Hin|].
        right. right. left. exists u. cbn. unfold upd. destruct (Nat.eqb_spec u t) as [E1|E1]; [|exact A].
        apply Ed; [rewrite <- E1; exact A|exact Hs|exact Hnin].
      + right. right. right. apply unowned_setv; auto.
    - intros r Hs. apply unowned_setv; auto.
  Qed.

  (** *** the F-part: events, unchanged F-state, the frame lemma *)
  Definition nouaf (es : list ev) : Prop := Forall (fun e => is_cli "uaf" e = false) es.

  Lemma has_uaf_app tr1 tr2 : has_uaf (tr1 ++ tr2) = has_uaf tr1 || has_uaf tr2.
  Proof. unfold has_uaf. apply existsb_app. Qed.

  Lemma nouaf_tag tr t es : has_uaf tr = false -> nouaf es -> has_uaf (tr ++ Conc.tag t es) = false.
  Proof.
    intros H He. rewrite has_uaf_app, H. cbn. induction He as [|e es He _ IH]; [reflexivity|].
    change (has_uaf (Conc.tag t (e :: es))) with (is_ev "uaf" (t, e) || has_uaf (Conc.tag t es)).
    unfold is_ev; cbn. rewrite He, IH. reflexivity.
  Qed.

  Lemma nouaf_acc (g : G) k r f ok : frd g r = false -> nouaf (acc g k r f ok).
  Proof. intros H. unfold acc. unfold frd in H. rewrite H. constructor; [reflexivity|constructor]. Qed.

  Definition sameF (g g' : G) : Prop :=
    g_nrec g' = g_nrec g /\ forall x, nxa g' x = nxa g x /\ frd g' x = frd g x.

  Lemma sameF_refl (g : G) : sameF g g.
  Proof. split; [reflexivity|]. intros x. split; reflexivity. Qed.

  Lemma sameF_fld (g : G) r f v : f <> FNextA -> sameF g (upd_rec g r (set_fld (g_recs g r) f v)).
  Proof.
    intros Hf. split; [reflexivity|]. intros x. unfold nxa, frd, upd_rec; cbn.
    destruct (Nat.eqb_spec x r) as [E|E]; [rewrite E|]; auto. destruct f; cbn; auto. congruence.
  Qed.

  Lemma KnowF_ext g g' a a' l : sameF g g' -> s_al a' = s_al a -> KnowF g a l -> KnowF g' a' l.
  Proof.
    intros (_ & Hx) Ea K. destruct K. split; unfold AL in *; rewrite ?Ea.
    - auto.
    - intros p Hp Hn r Hm. destruct (Hx r) as [E _]. rewrite E. eauto.
    - auto.
    - auto.
    - intros Hh r n Hn. destruct (kf_nx0 Hh r n Hn) as [A B]. destruct (Hx r) as [E _]. rewrite E. auto.
    - intros Hh r Hd. destruct (Hx r) as [_ E]. rewrite E. auto.
    - intros Hh q Hq. destruct (Hx q) as [_ E]. rewrite E. auto.
  Qed.

  Lemma live_my g a t r : GlobF g a -> w_my (s_v a t) = Some r -> frd g r = false.
  Proof.
    intros HG Hm. destruct (frd g r) eqn:E; [|reflexivity]. exfalso.
    destruct (gf_freed HG _ E) as [Hu _]. apply (Hu t). exact Hm.
  Qed.

  Lemma F_frame g g' a tr t es l' pl' :
    FInv g a tr -> nouaf es -> sameF g g' ->
    (forall x, In x pl' -> In x (s_pl a) \/ w_my (s_v a t) = Some x) ->
    (w_my l' = w_my (s_v a t) \/ w_my l' = None) ->
    KnowF g a l' ->
    FInv g' (setv (setpl a pl') t l') (tr ++ Conc.tag t es).
  Proof.
    intros (Hu & HG & HK) He Hs Hpl Hmy Hk. pose proof Hs as (En & Hx). assert (Hlm : forall r, w_my (s_v a t) = Some r -> frd g r = false) by (intros r; apply live_my; exact HG).
    split; [apply nouaf_tag; assumption|]. split.
    - destruct HG. split; unfold AL, LL; cbn [s_al s_pl setv setpl].
      + intros q Hq. destruct (Hx q) as [E _]. rewrite E. apply gf_link0. exact Hq.
      + exact gf_nodup0.
      + intros r Hr. rewrite En. destruct (Hx r) as [_ E]. rewrite E. apply gf_al0. exact Hr.
      + intros r Hr. destruct (Hx r) as [_ E2]. rewrite E2. destruct Hr as [E|Hr].
        * apply gf_pll0. left. exact E.
        * destruct (Hpl r Hr) as [A|A]; [apply gf_pll0; right; exact A|apply Hlm; exact A].
      + intros r Hf. destruct (Hx r) as [_ E]. rewrite E in Hf. destruct (gf_freed0 r Hf) as [A B]. split; [|rewrite En; exact B].
        intros u. cbn. unfold upd. destruct (Nat.eqb_spec u t) as [E1|E1]; [|apply A].
        destruct Hmy as [E2|E2]; rewrite E2; [apply A|discriminate].
    - intros u. apply KnowF_ext with (g := g) (a := a); [exact Hs|reflexivity|]. cbn. unfold upd. destruct (Nat.eqb_spec u t); [exact Hk|apply HK].
  Qed.

  (** which record an access may touch: the thread's own, m_pHead, or - under the combiner lock - a record it
      reached through one of the two lists *)
  Definition Live (l : sview) (o : option nat) : Prop :=
    match o with
    | None => True
    | Some r => r = head \/ w_my l = Some r \/
                (w_hold l = true /\ (w_cur l = Some r \/ w_pp l = Some r \/ (exists n, w_nx l = Some (r, n)) \/ w_deact l = Some r \/
                                     In r (w_vis l) \/ w_acur l = Some r \/ w_app l = Some r))
    end.
  Definition live_at (g : G) (o : option nat) : Prop := match o with None => True | Some r => frd g r = false end.

  Lemma live_sound g a tr t l o : Inv g a tr -> s_v a t = l -> Live l o -> live_at g o.
  Proof.
    intros [(Hl & HG & HK) (Hu & HGF & HKF)] Hv H. destruct o as [r|]; [|exact I]. cbn in *.
    pose proof (HK t) as K0. pose proof (HKF t) as F0. rewrite Hv in K0, F0.
    destruct H as [->|[Hm|(Hh & H)]].
    - apply (gf_pll HGF). left. reflexivity.
    - eapply live_my; [exact HGF|rewrite Hv; exact Hm].
    - destruct H as [H|[H|[(n & H)|[H|[H|[H|H]]]]]].
      + apply (gf_pll HGF). apply (k_cur K0 H).
      + apply (gf_pll HGF). apply (k_pp K0 H).
      + apply (gf_pll HGF). right. apply (k_nx K0 H).
      + apply (kf_deact F0 Hh H).
      + apply (kf_vis F0 Hh _ H).
      + apply (gf_al HGF). right. apply (kf_cur F0 Hh H).
      + apply (gf_al HGF). apply (kf_pp F0 Hh H).
  Qed.

  (** a step that does not change the shared state's shape and moves the stepping thread's view from [l] to
      [l'], where [l'] is justified by the invariant *)
  Definition GhostOK0 (t : nat) (l l' : sview) : Prop :=
    w_my l' = w_my l /\ w_own l' = w_own l /\ w_hold l' = w_hold l /\
    (forall r, w_deact l = Some r -> w_deact l' = Some r) /\
    forall g a, Glob g a -> (forall u, Know g a (s_v a u)) -> s_v a t = l -> Know g a l'.

  Lemma Inv_ghost0 g g' a tr t es l l' :
    Inv0 g a tr -> view a t = l -> same_shape g g' -> nolost es -> GhostOK0 t l l' ->
    Inv0 g' (setv a t l') (tr ++ Conc.tag t es).
  Proof.
    intros (Hl & HG & HK) Hv Hs He (Em & Eo & Eh & Ed & Hk). unfold view in Hv. subst l.
    split; [apply nolost_tag; assumption|]. split.
    - apply Glob_setv; auto. eapply Glob_ext; eauto.
    - intros u. apply Know_setv; auto. eapply Know_ext; [exact Hs|].
      cbn. unfold upd. destruct (Nat.eqb_spec u t) as [E1|E1]; [eapply Hk; eauto|apply HK].
  Qed.

  Lemma GhostOK0_refl t l : GhostOK0 t l l.
  Proof.
    unfold GhostOK0. split; [reflexivity|]. split; [reflexivity|]. split; [reflexivity|]. split; [auto|].
    intros g0 a0 _ HK0 E0. rewrite <- E0. apply HK0.
  Qed.

  Definition GhostF (t : nat) (l l' : sview) : Prop :=
    forall g a tr, Inv g a tr -> s_v a t = l -> KnowF g a l'.
  Definition GhostOK (t : nat) (l l' : sview) : Prop := GhostOK0 t l l' /\ GhostF t l l'.

  Lemma Inv_ghost g g' a tr t es l l' :
    Inv g a tr -> view a t = l -> same_shape g g' -> sameF g g' -> nolost es -> nouaf es -> GhostOK t l l' ->
    Inv g' (setv a t l') (tr ++ Conc.tag t es).
  Proof.
    intros Hi Hv Hs Hsf He Hu [H0 HF]. pose proof Hi as [Hi0 HiF]. split; [eapply Inv_ghost0; eauto|].
    unfold view in Hv. change (setv a t l') with (setv (setpl a (s_pl a)) t l').
    eapply F_frame; eauto. left. rewrite Hv. apply H0.
  Qed.

  Lemma GhostF_refl t l : GhostF t l l.
  Proof. intros g a tr [_ (_ & _ & HK)] Hv. rewrite <- Hv. apply HK. Qed.

  Lemma GhostOK_refl t l : GhostOK t l l.
  Proof. split; [apply GhostOK0_refl|apply GhostF_refl]. Qed.

  Definition quiet (es : list ev) : Prop := nolost es /\ nouaf es.

  Definition neutral_b (f : G -> G * V * list ev) (o : option nat) : Prop :=
    forall g, same_shape g (fst (fst (f g))) /\ sameF g (fst (fst (f g))) /\ nolost (snd (f g)) /\
              (live_at g o -> nouaf (snd (f g))).

  Lemma safe_nbg R t f o (k : V -> prog R) l l' Q :
    neutral_b f o -> Live l o -> GhostOK t l l' -> (forall v, safe t (k v) l' Q) -> safe t (Act f k) l Q.
  Proof.
    intros Hn Hlv Hg K. cbn [Conc.safe]. intros g a tr Hi Hv. destruct (Hn g) as (H1 & H2 & H3 & H4).
    exists (setv a t l'). split; [eapply Inv_ghost; eauto; apply H4; eapply live_sound; eauto|].
    split; [apply frame_setv|]. rewrite view_setv. apply K.
  Qed.

  Lemma safe_nb R t f o (k : V -> prog R) l Q :
    neutral_b f o -> Live l o -> (forall v, safe t (k v) l Q) -> safe t (Act f k) l Q.
  Proof. intros Hn Hl K. eapply safe_nbg; eauto. apply GhostOK_refl. Qed.

  Lemma sameF_refl' (g : G) : sameF g g /\ True.
  Proof. split; [apply sameF_refl|exact I]. Qed.

  Lemma safe_emit_g R t es (k : prog R) l l' Q :
    quiet es -> GhostOK t l l' -> safe t k l' Q -> safe t (Emit es k) l Q.
  Proof.
    intros [He Hu] Hg K. cbn [Conc.safe]. intros g a tr Hi Hv.
    exists (setv a t l'). split; [eapply Inv_ghost; eauto; [repeat split; auto|apply sameF_refl]|]. split; [apply frame_setv|]. rewrite view_setv. exact K.
  Qed.
  (** *** neutral accesses *)
  Lemma same_shape_refl (g : G) : same_shape g g.
  Proof. repeat split. Qed.

  Lemma upd_fld_shape (g : G) r f v : f = FAge \/ f = FNextA -> same_shape g (upd_rec g r (set_fld (g_recs g r) f v)).
  Proof.
    intros Hf. split; [reflexivity|]. split; [reflexivity|]. intros x. unfold nxt, stt, rq, upd_rec; cbn.
    destruct (Nat.eqb_spec x r) as [E|E]; [rewrite E|]; auto. destruct Hf as [-> | ->]; cbn; auto.
  Qed.

  Lemma nb_begin : neutral_b (@a_begin C Rs P) None.
  Proof. intros g. split; [apply same_shape_refl|]. split; [apply sameF_refl|]. split; [repeat constructor|intros _; repeat constructor]. Qed.
  Lemma nb_ld r f : neutral_b (@a_ld C Rs P r f) (Some r).
  Proof. intros g. split; [apply same_shape_refl|]. split; [apply sameF_refl|]. split; [apply nolost_acc|apply nouaf_acc]. Qed.
  Lemma nb_ldcount : neutral_b (@a_ldcount C Rs P) None.
  Proof. intros g. split; [apply same_shape_refl|]. split; [apply sameF_refl|]. split; [repeat constructor|intros _; repeat constructor]. Qed.
  Lemma nb_faacount : neutral_b (@a_faacount C Rs P) None.
  Proof. intros g. split; [repeat split|]. split; [repeat split|]. split; [repeat constructor|intros _; repeat constructor]. Qed.
  Lemma nb_st_age r v : neutral_b (@a_st C Rs P r FAge v) (Some r).
  Proof.
    intros g. split; [apply upd_fld_shape; left; reflexivity|]. split; [apply sameF_fld; discriminate|].
    split; [apply nolost_acc|apply nouaf_acc].
  Qed.

  Lemma nb_apply r : neutral_b (@a_apply C Rs rs_enc capply P r) (Some r).
  Proof.
    intros g. unfold a_apply. destruct (capply (g_cont g) (r_req (g_recs g r)) (r_arg (g_recs g r))) as [c' rs]. cbn [fst snd].
    split; [|split; [|split]].
    - split; [reflexivity|]. split; [reflexivity|]. intros x. unfold nxt, stt, rq, set_cont, upd_rec; cbn.
      destruct (Nat.eqb_spec x r) as [E|E]; [rewrite E|]; auto.
    - split; [reflexivity|]. intros x. unfold nxa, frd, set_cont, upd_rec; cbn.
      destruct (Nat.eqb_spec x r) as [E|E]; [rewrite E|]; auto.
    - unfold nolost. apply Forall_app. split; [apply nolost_acc|repeat constructor].
    - intros Hl. unfold nouaf. apply Forall_app. split; [apply nouaf_acc; exact Hl|repeat constructor].
  Qed.

  Lemma write_comps_shape comps : forall (g : G),
    same_shape g (fst (write_comps rs_enc g comps)) /\ sameF g (fst (write_comps rs_enc g comps)) /\
    nolost (snd (write_comps rs_enc g comps)) /\ nouaf (snd (write_comps rs_enc g comps)).
  Proof.
    induction comps as [|[q rs] rest IH]; intros g; cbn [write_comps].
    { split; [apply same_shape_refl|]. split; [apply sameF_refl|]. split; constructor. }
    specialize (IH (upd_rec g q (set_res (g_recs g q) rs))).
    destruct (write_comps rs_enc (upd_rec g q (set_res (g_recs g q) rs)) rest) as [g' es]. cbn [fst snd] in *.
    destruct IH as [(A & B & D) [(F1 & F2) [E E']]]. split; [|split; [|split; (constructor; [reflexivity|assumption])]].
    - split; [rewrite A; reflexivity|]. split; [rewrite B; reflexivity|]. intros x. destruct (D x) as (D1 & D2 & D3).
      rewrite D1, D2, D3. unfold nxt, stt, rq, upd_rec; cbn. destruct (Nat.eqb_spec x q) as [E1|E1]; [rewrite E1|]; auto.
    - split; [rewrite F1; reflexivity|]. intros x. destruct (F2 x) as (D1 & D2). rewrite D1, D2.
      unfold nxa, frd, upd_rec; cbn. destruct (Nat.eqb_spec x q) as [E1|E1]; [rewrite E1|]; auto.
  Qed.

  Lemma nb_visit p r : neutral_b (@a_visit C Rs rs_enc P pvisit p r) (Some r).
  Proof.
    intros g. unfold a_visit.
    destruct (pvisit p (g_cont g) r (r_req (g_recs g r)) (r_tid (g_recs g r)) (r_arg (g_recs g r))) as [[p' c'] comps].
    pose proof (write_comps_shape comps g) as (A & B & D & E). destruct (write_comps rs_enc g comps) as [g' es]. cbn [fst snd] in *.
    split; [|split; [|split]].
    - destruct A as (A1 & A2 & A3). split; [exact A1|]. split; [exact A2|]. exact A3.
    - destruct B as (B1 & B2). split; [exact B1|exact B2].
    - unfold nolost; apply Forall_app; split; [apply nolost_acc|exact D].
    - intros Hl. unfold nouaf; apply Forall_app; split; [apply nouaf_acc; exact Hl|exact E].
  Qed.

  Lemma quiet_acc (g : G) k r f ok : frd g r = false -> quiet (acc g k r f ok).
  Proof. intros H. split; [apply nolost_acc|apply nouaf_acc; exact H]. Qed.

  Ltac lv := match goal with
             | |- frd ?g ?r = false =>
                 change (live_at g (Some r)); eapply live_sound; [eassumption|eassumption|first [eassumption|unfold Live; cbn; tauto]]
             end.
  (* KnowF of the new view from KnowF of the old one, F-fields unchanged *)
  Ltac kF := match goal with
             | HF : FInv ?g ?a _, Hv : s_v ?a ?t = ?l |- KnowF ?g ?a _ =>
                 let F0 := fresh "F0" in
                 pose proof (proj2 (proj2 HF) t) as F0; rewrite Hv in F0; destruct F0; split; cbn; auto; try (intros; discriminate)
             end.

  Ltac fin_view := try (match goal with
                        | |- KnowF _ _ _ => kF
                        | |- quiet _ => apply quiet_acc; lv
                        end).
  Lemma GlobF_ext g g' a : sameF g g' -> GlobF g a -> GlobF g' a.
  Proof.
    intros (En & Hx) H. destruct H. split.
    - intros q Hq. destruct (Hx q) as [E _]. rewrite E. auto.
    - auto.
    - intros r Hr. rewrite En. destruct (Hx r) as [_ E]. rewrite E. auto.
    - intros r Hr. destruct (Hx r) as [_ E]. rewrite E. auto.
    - intros r Hf. destruct (Hx r) as [_ E]. rewrite E in Hf. rewrite En. auto.
  Qed.

  Lemma FInv_same g g' a tr t es : FInv g a tr -> nouaf es -> sameF g g' -> FInv g' a (tr ++ Conc.tag t es).
  Proof.
    intros (Hu & HG & HK) He Hs. split; [apply nouaf_tag; assumption|]. split; [eapply GlobF_ext; eauto|].
    intros u. eapply KnowF_ext; eauto.
  Qed.

  (** a view update of the stepping thread alone *)
  Lemma F_view g g' a tr t es l' :
    FInv g a tr -> nouaf es -> sameF g g' -> (w_my l' = w_my (s_v a t) \/ w_my l' = None) -> KnowF g a l' ->
    FInv g' (setv a t l') (tr ++ Conc.tag t es).
  Proof.
    intros HF He Hs Hm Hk. change (setv a t l') with (setv (setpl a (s_pl a)) t l'). eapply F_frame; eauto.
  Qed.

  (** *** the lock *)
  Lemma Know_lock g a l b : Know g a l -> Know (set_lock g b) a l.
  Proof. apply Know_recs. repeat split. Qed.

  Definition clrF (l : sview) : sview := set_vis (set_anx (set_app (set_acur l None) None) None) [].

  Lemma sameF_lock (g : G) b : sameF g (set_lock g b).
  Proof. split; [reflexivity|]. intros x. split; reflexivity. Qed.

  Lemma safe_xchg_b R t (k : V -> prog R) l Q :
    safe t (k (vN 1)) l Q -> safe t (k (vN 0)) (set_hold (clrF l) true) Q -> safe t (Act (@a_xchg C Rs P) k) l Q.
  Proof.
    intros K1 K0. cbn [Conc.safe]. intros g a tr Hi Hv. pose proof Hi as [(Hl & HG & HK) HF]. unfold a_xchg; cbn [fst snd].
    assert (He : nolost [EvAcc KXchg obj_lock true]) by (repeat constructor).
    assert (Hu : nouaf [EvAcc KXchg obj_lock true]) by (repeat constructor).
    destruct (g_lock g) eqn:El.
    - exists a. split; [|split; [apply frame_refl|rewrite Hv; exact K1]].
      split; [|eapply FInv_same; eauto; apply sameF_lock].
      split; [apply nolost_tag; assumption|]. split; [eapply Glob_ext; [|exact HG]; repeat split; cbn; auto|].
      intros u. apply Know_lock. apply HK.
    - exists (setv a t (set_hold (clrF l) true)). split; [|split; [apply frame_setv|rewrite view_setv; exact K0]].
      unfold view in Hv. pose proof (gl_free HG El) as Hfree.
      split.
      2:{ eapply F_view; eauto; [apply sameF_lock|left; subst l; reflexivity|].
          pose proof (HK t) as K0'. rewrite Hv in K0'.
          pose proof (proj2 (proj2 HF) t) as F0. rewrite Hv in F0. destruct F0. split; cbn; auto; try (intros; discriminate).
          - intros _ r Hd. exfalso. destruct (k_deact K0' Hd) as (Hh & _). pose proof (Hfree t) as X. rewrite Hv in X. congruence.
          - intros _ q []. }
      split; [apply nolost_tag; assumption|]. split.
      + assert (HG1 : Glob (set_lock g true) a) by (destruct HG; split; auto; cbn; discriminate).
        destruct HG1. split; auto.
        * cbn. discriminate.
        * intros u u' H1 H2. cbn in *. unfold upd in *.
          destruct (Nat.eqb_spec u t) as [E1|E1]; destruct (Nat.eqb_spec u' t) as [E2|E2]; try congruence;
            try (rewrite Hfree in H2; discriminate); try (rewrite Hfree in H1; discriminate).
        * intros u u' r H1 H2. cbn in *. unfold upd in *. apply (gl_inj0 u u' r);
            [destruct (Nat.eqb_spec u t) as [E1|E1]|destruct (Nat.eqb_spec u' t) as [E1|E1]]; subst; auto.
        * intros r Hs. destruct (gl_act0 r Hs) as [A|[(u & A & B)|[(u & A)|A]]]; auto.
          -- right. left. exists u. cbn. unfold upd. destruct (Nat.eqb_spec u t) as [E1|E1]; subst; auto.
          -- right. right. left. exists u. cbn. unfold upd. destruct (Nat.eqb_spec u t) as [E1|E1]; subst; auto.
          -- right. right. right. apply unowned_setv; [subst l; reflexivity|]. exact A.
        * intros r Hs. apply unowned_setv; [subst l; reflexivity|]. auto.
      + intros u. apply Know_setv; [subst l; reflexivity|subst l; reflexivity|]. apply Know_lock.
        cbn. unfold upd. destruct (Nat.eqb_spec u t) as [E1|E1]; [|apply HK].
        specialize (HK t). rewrite Hv in HK. destruct HK. split; auto.
        * intros Hk. destruct (k_link0 Hk) as [A B]. split; auto.
        * intros q Hq. destruct (k_cur0 q Hq) as (A & B). split; auto.
        * intros x Hx. destruct (k_pp0 x Hx) as (A & B). split; auto.
        * intros r n Hn. destruct (k_nx0 r n Hn) as (A & B). split; auto.
        * intros r Hd. destruct (k_deact0 r Hd) as (A & B). split; auto.
  Qed.
  (** *** how the knowledge of the OTHER threads survives a step of thread [t] *)

  (** [t] writes fields of its own record [r] *)
  Lemma Know_own_write g g' a t r l' u :
    Glob g a -> (forall v, Know g a (s_v a v)) -> u <> t ->
    w_my (s_v a t) = Some r -> (w_my l' = Some r \/ w_my l' = None) ->
    g_nrec g' = g_nrec g ->
    (forall x, x <> r -> nxt g' x = nxt g x /\ stt g' x = stt g x /\ rq g' x = rq g x) ->
    (nxt g' r <> nxt g r -> ~ In r (s_pl a)) ->
    ((exists u', w_deact (s_v a u') = Some r) -> w_my l' = Some r -> w_own l' = OUnk /\ stt g' r = stt g r) ->
    Know g' (setv a t l') (s_v a u).
  Proof.
    intros HG HK Hne Hm Hm' En Hx Hnx Hown. pose proof (HK u) as K. destruct K.
    assert (Hr0 : forall r0, w_my (s_v a u) = Some r0 -> r0 <> r).
    { intros r0 H0 ->. apply Hne. eapply (gl_inj HG); eauto. }
    assert (Hun : forall x, unowned a x -> unowned (setv a t l') x).
    { intros x H v. cbn. unfold upd. destruct (Nat.eqb_spec v t) as [E|E]; [|apply H].
      destruct Hm' as [E'|E']; rewrite E'; [|discriminate]. intros E2; inversion E2; subst x. apply (H t). exact Hm. }
    split; cbn [s_pl setv].
    - intros r0 H0. rewrite En. auto.
    - auto.
    - intros Ho r0 H0. destruct (Hx r0 (Hr0 r0 H0)) as (_ & E & _). rewrite E. auto.
    - intros p Hp Ho r0 H0. destruct (Hx r0 (Hr0 r0 H0)) as (E & _). rewrite E. eauto.
    - intros Hw r0 H0. destruct (Hx r0 (Hr0 r0 H0)) as (_ & _ & E). rewrite E. auto.
    - intros Hw r0 H0. destruct (Hx r0 (Hr0 r0 H0)) as (_ & _ & E). rewrite E. auto.
    - intros Hk. destruct (k_link0 Hk) as [A B]. split; auto. intros r0 H0.
      destruct (Hx r0 (Hr0 r0 H0)) as (_ & E & _). rewrite E. auto.
    - auto.
    - auto.
    - intros r0 n Hn. destruct (k_nx0 r0 n Hn) as (A & B & D). split; auto. split; auto.
      destruct (Nat.eq_dec r0 r) as [->|Hd]; [|destruct (Hx r0 Hd) as (E & _); rewrite E; exact D].
      destruct (Nat.eq_dec (nxt g' r) (nxt g r)) as [E|E]; [rewrite E; exact D|]. exfalso. apply (Hnx E). exact B.
    - intros r0 Hd. destruct (k_deact0 r0 Hd) as (A & B & B' & D). split; auto. split; auto. split; [rewrite En; exact B'|].
      intros t0 Ht0. cbn in Ht0. unfold upd in *. destruct (Nat.eqb_spec t0 t) as [E|E].
      + destruct Hm' as [E'|E']; rewrite E' in Ht0; [|discriminate]. inversion Ht0; subst r0.
        destruct (D t Hm) as [D1 D2]. destruct (Hown (ex_intro _ u Hd) E') as [O1 O2]. split; [cbn; unfold upd; rewrite E, Nat.eqb_refl; exact O1|rewrite O2; exact D2].
      + destruct (D t0 Ht0) as [D1 D2]. split; [cbn; unfold upd; destruct (Nat.eqb_spec t0 t); [contradiction|exact D1]|].
        destruct (Nat.eq_dec r0 r) as [->|Hd']; [|destruct (Hx r0 Hd') as (_ & E2 & _); rewrite E2; exact D2].
        exfalso. apply E. eapply (gl_inj HG); eauto.
    - intros x Hc. destruct (k_cand0 x Hc) as (A & B). rewrite En. split; auto.
    - intros x Hc. destruct (k_vic0 x Hc) as (A & B). rewrite En. split; auto.
    - intros v Hc. rewrite En. destruct (k_tgt0 v Hc) as [A|[A B]]; auto.
  Qed.

  (** [t] holds the combiner lock and unlinks / deactivates / answers / frees *)
  Lemma Know_holder_step g g' a t pl' l' u :
    Glob g a -> (forall v, Know g a (s_v a v)) -> u <> t ->
    w_hold (s_v a t) = true -> w_my l' = w_my (s_v a t) -> w_own l' = w_own (s_v a t) ->
    g_nrec g' = g_nrec g -> (forall x, In x pl' -> In x (s_pl a)) ->
    (forall x, nxt g' x <> nxt g x -> In x (LL a) \/ unowned a x) ->
    (forall x, stt g' x <> stt g x -> forall v, w_my (s_v a v) = Some x -> w_own (s_v a v) = OUnk) ->
    (forall x, rq g' x <> rq g x -> rq g' x = req_Response \/ unowned a x) ->
    Know g' (setv (setpl a pl') t l') (s_v a u).
  Proof.
    intros HG HK Hne Hh Em Eo En Hsub Hnx Hst Hrq. pose proof (HK u) as K. destruct K.
    assert (Hnh : w_hold (s_v a u) = false).
    { destruct (w_hold (s_v a u)) eqn:E; auto. exfalso. apply Hne. eapply (gl_uniq HG); eauto. }
    assert (Hun : forall x, unowned a x <-> unowned (setv (setpl a pl') t l') x).
    { intros x. unfold unowned; cbn. split; intros H v; specialize (H v); unfold upd in *;
        (destruct (Nat.eqb_spec v t) as [E|E]; [rewrite E in *|]); congruence. }
    split; cbn [s_pl setv setpl].
    - intros r0 H0. rewrite En. auto.
    - intros Ho r0 H0 Hin. eapply k_unl0; eauto.
    - intros Ho r0 H0. destruct (Nat.eq_dec (stt g' r0) (stt g r0)) as [E|E]; [rewrite E; auto|].
      pose proof (Hst r0 E u H0). congruence.
    - intros p Hp Ho r0 H0. destruct (Nat.eq_dec (nxt g' r0) (nxt g r0)) as [E|E]; [rewrite E; eauto|].
      exfalso. destruct (Hnx r0 E) as [[E1|Hin]|Hu].
      + destruct (k_my0 r0 H0). unfold head in E1. lia.
      + eapply k_unl0; eauto.
      + apply (Hu u). exact H0.
    - intros Hw r0 H0. destruct (Nat.eq_dec (rq g' r0) (rq g r0)) as [E|E]; [rewrite E; auto|].
      destruct (Hrq r0 E) as [E1|Hu]; [rewrite E1; unfold req_Response, req_Empty; lia|exfalso; apply (Hu u); exact H0].
    - intros Hw r0 H0. destruct (Nat.eq_dec (rq g' r0) (rq g r0)) as [E|E]; [rewrite E; auto|].
      destruct (Hrq r0 E) as [E1|Hu]; [exact E1|exfalso; apply (Hu u); exact H0].
    - intros Hk. destruct (k_link0 Hk) as [A B]. congruence.
    - intros q Hq. destruct (k_cur0 q Hq) as (A & _). congruence.
    - intros x Hx. destruct (k_pp0 x Hx) as (A & _). congruence.
    - intros r0 n Hn. destruct (k_nx0 r0 n Hn) as (A & _). congruence.
    - intros r0 Hd. destruct (k_deact0 r0 Hd) as (A & _). congruence.
    - intros x Hc. destruct (k_cand0 x Hc) as (A & B). rewrite En. split; [apply Hun; exact A|exact B].
    - intros x Hc. destruct (k_vic0 x Hc) as (A & B & D & E). rewrite En. split; [apply Hun; exact A|]. repeat split; auto.
    - intros v Hc. rewrite ?En. destruct (k_tgt0 v Hc) as [A|[A B]]; [left; exact A|right; split; [apply Hun; exact A|exact B]].
  Qed.
  (** *** one field of one record *)
  Lemma upd_fields (g : G) r f v x :
    nxt (upd_rec g r (set_fld (g_recs g r) f v)) x = (if Nat.eqb x r then match f with FNext => v | _ => nxt g x end else nxt g x) /\
    stt (upd_rec g r (set_fld (g_recs g r) f v)) x = (if Nat.eqb x r then match f with FState => v | _ => stt g x end else stt g x) /\
    rq (upd_rec g r (set_fld (g_recs g r) f v)) x = (if Nat.eqb x r then match f with FReq => v | _ => rq g x end else rq g x).
  Proof.
    unfold nxt, stt, rq, upd_rec; cbn. destruct (Nat.eqb_spec x r) as [E|E]; [rewrite E|]; destruct f; cbn; auto.
  Qed.

  Lemma upd_other_rec (g : G) r f v x : x <> r ->
    nxt (upd_rec g r (set_fld (g_recs g r) f v)) x = nxt g x /\
    stt (upd_rec g r (set_fld (g_recs g r) f v)) x = stt g x /\
    rq (upd_rec g r (set_fld (g_recs g r) f v)) x = rq g x.
  Proof. intros H. destruct (upd_fields g r f v x) as (A & B & D). rewrite A, B, D. destruct (Nat.eqb_spec x r); [congruence|auto]. Qed.

  Lemma Inv_intro0 g a tr : has_lost tr = false -> Glob g a -> (forall u, Know g a (s_v a u)) -> Inv0 g a tr.
  Proof. intros H1 H2 H3. split; [exact H1|]. split; [exact H2|exact H3]. Qed.

  Lemma Glob_same_lists g g' a :
    g_lock g' = g_lock g -> g_nrec g' = g_nrec g -> (forall x, nxt g' x = nxt g x /\ stt g' x = stt g x) ->
    Glob g a -> Glob g' a.
  Proof.
    intros El En Hx H. destruct H. split; auto.
    - rewrite El. auto.
    - intros q Hq. destruct (Hx q) as (E & _). rewrite E. auto.
    - intros r Hin. destruct (Hx r) as (_ & E). rewrite E, En. auto.
    - intros r Hs. destruct (Hx r) as (_ & E). rewrite E in Hs. auto.
    - intros r Hs. destruct (Hx r) as (_ & E). rewrite E in Hs. auto.
    - intros r Hle. destruct (Hx r) as (_ & E). rewrite E. apply gl_fresh0. rewrite <- En. exact Hle.
    - destruct (Hx head) as (_ & E). rewrite E, En. auto.
    - intros r. destruct (Hx r) as (_ & E). rewrite E. auto.
  Qed.

  (** requester: the request word *)
  Lemma safe_request_b R t r op arg (k : V -> prog R) l Q :
    w_my l = Some r -> 2 <= op ->
    (forall v, safe t (k v) (set_done (set_wait l true) false) Q) ->
    safe t (Act (@a_request C Rs P r op t arg) k) l Q.
  Proof.
    intros Hm Hop K. cbn [Conc.safe]. intros g a tr Hi Hv. pose proof Hi as [(Hl & HG & HK) HF]. unfold view in Hv. unfold a_request; cbn [fst snd].
    set (g' := upd_rec g r (set_request (g_recs g r) op t arg)).
    set (l' := set_done (set_wait l true) false).
    exists (setv a t l'). split; [|split; [apply frame_setv|rewrite view_setv; apply K]].
    assert (Hf : forall x, nxt g' x = nxt g x /\ stt g' x = stt g x /\ (x <> r -> rq g' x = rq g x) /\ rq g' r = op).
    { intros x. unfold g', nxt, stt, rq, upd_rec; cbn. destruct (Nat.eqb_spec x r) as [E|E]; [rewrite E|]; cbn; rewrite ?Nat.eqb_refl; repeat split; auto; congruence. }
    split.
    2:{ eapply F_view; eauto; [apply nouaf_acc; lv| |left; subst l; reflexivity|kF].
        split; [reflexivity|]. intros x. unfold g', nxa, frd, upd_rec; cbn. destruct (Nat.eqb_spec x r) as [E|E]; [rewrite E|]; auto. }
    apply Inv_intro0; [apply nolost_tag; [exact Hl|apply nolost_acc]| |].
    - apply Glob_setv; try (subst l; reflexivity); [subst l; auto|].
      apply Glob_same_lists with (g := g); [reflexivity|reflexivity| |exact HG]. intros x. destruct (Hf x) as (A & B & _). auto.
    - intros u. cbn. unfold upd. destruct (Nat.eqb_spec u t) as [E|E].
      + apply Know_setv; try (subst l; reflexivity). pose proof (HK t) as K0. rewrite Hv in K0. destruct K0. split; cbn; auto.
        * intros Ho r0 H0. destruct (Hf r0) as (_ & B & _). rewrite B. auto.
        * intros p Hp Ho r0 H0. destruct (Hf r0) as (A & _). rewrite A. eauto.
        * intros _ r0 H0. assert (r0 = r) by congruence. subst r0. destruct (Hf r) as (_ & _ & _ & D). rewrite D. unfold req_Empty. lia.
        * discriminate.
        * intros Hk. destruct (k_link0 Hk) as [A B]. split; auto. intros r0 H0. destruct (Hf r0) as (_ & B0 & _). rewrite B0. auto.
        * intros r0 n Hn. destruct (k_nx0 r0 n Hn) as (A & B & D). destruct (Hf r0) as (A0 & _). rewrite A0. auto.
        * intros r0 Hd. destruct (k_deact0 r0 Hd) as (A & B & B' & D). repeat split; auto; destruct (D t0 H) as [D1 D2]; auto.
          destruct (Hf r0) as (_ & B0 & _). rewrite B0. exact D2.
      + assert (Hm0 : w_my (s_v a t) = Some r) by (rewrite Hv; exact Hm).
        refine (@Know_own_write g g' a t r l' u HG HK E Hm0 (or_introl Hm) eq_refl _ _ _).
        * intros x Hx. destruct (Hf x) as (A & B & D & _). auto.
        * intros Hn. destruct (Hf r) as (A & _). congruence.
        * intros (u' & Hd) _. destruct (Hf r) as (_ & B & _). split; [|exact B].
          destruct (k_deact (HK u') Hd) as (_ & _ & _ & D). destruct (D t Hm0) as [D1 _]. rewrite Hv in D1. exact D1.
  Qed.
  (** *** generic step: thread [t] writes fields of its own record [r] *)
  Lemma own_step g g' a tr t l l' r es :
    Inv g a tr -> s_v a t = l -> w_my l = Some r -> (w_my l' = Some r \/ w_my l' = None) ->
    w_hold l' = w_hold l -> w_deact l' = w_deact l ->
    g_lock g' = g_lock g -> g_nrec g' = g_nrec g ->
    (forall x, x <> r -> nxt g' x = nxt g x /\ stt g' x = stt g x /\ rq g' x = rq g x) ->
    (nxt g' r <> nxt g r -> ~ In r (s_pl a)) ->
    quiet es ->
    (In r (s_pl a) -> stt g' r <> st_inactive) ->
    (stt g' r = st_active -> In r (s_pl a) \/ (w_my l' = Some r /\ w_own l' = OPub) \/ (exists u, w_deact (s_v a u) = Some r)) ->
    (stt g' r = st_removed -> w_my l' = None) ->
    stt g' r <= 2 ->
    (w_own l' = OPub -> w_own l = OPub \/ stt g' r = st_active) ->
    ((exists u', w_deact (s_v a u') = Some r) -> w_my l' = Some r -> w_own l' = OUnk /\ stt g' r = stt g r) ->
    (Glob g' (setv a t l') -> Know g' (setv a t l') l') ->
    sameF g g' -> KnowF g a l' ->
    Inv g' (setv a t l') (tr ++ Conc.tag t es).
  Proof.
    intros [(Hl & HG & HK) HF] Hv Hm Hm' Eh Ed El En Hx Hnx [He Hua] O1 O2 O3 O4 O5 Hown Hkt HsF HkF.
    assert (Hm0 : w_my (s_v a t) = Some r) by (rewrite Hv; exact Hm).
    destruct (k_my (HK t) Hm0) as [Hr1 Hr2].
    assert (Hxs : forall x, x <> r -> stt g' x = stt g x) by (intros x Hne; apply (Hx x Hne)).
    assert (Hun : forall x, unowned a x -> unowned (setv a t l') x).
    { intros x H v. cbn. unfold upd. destruct (Nat.eqb_spec v t) as [E|E]; [|apply H].
      destruct Hm' as [E'|E']; rewrite E'; [|discriminate]. intros E2; inversion E2; subst x. apply (H t). exact Hm0. }
    assert (HG' : Glob g' (setv a t l')).
    { destruct HG. split.
      - rewrite El. intros Hf u. cbn. unfold upd. destruct (Nat.eqb_spec u t) as [E|E]; [rewrite Eh, <- Hv, <- E|]; auto.
      - intros u u' H1 H2. cbn in *. unfold upd in *. apply gl_uniq0;
          [destruct (Nat.eqb_spec u t) as [E|E]|destruct (Nat.eqb_spec u' t) as [E|E]]; subst; congruence.
      - intros u u' r0 H1 H2. cbn in *. unfold upd in *.
        destruct (Nat.eqb_spec u t) as [E1|E1]; destruct (Nat.eqb_spec u' t) as [E2|E2]; try congruence.
        + apply (gl_inj0 u u' r0); [|exact H2]. rewrite E1, Hm0. destruct Hm' as [E'|E']; congruence.
        + apply (gl_inj0 u u' r0); [exact H1|]. rewrite E2, Hm0. destruct Hm' as [E'|E']; congruence.
        + eapply gl_inj0; eauto.
      - intros q Hq. cbn [LL s_pl setv] in *. fold (LL a). rewrite <- gl_link0 by exact Hq.
        destruct (Nat.eq_dec q r) as [->|Hne]; [|apply (Hx q Hne)].
        destruct (Nat.eq_dec (nxt g' r) (nxt g r)) as [E|E]; [exact E|]. exfalso.
        destruct Hq as [Hq|Hq]; [unfold head in Hq; lia|]. exact (Hnx E Hq).
      - exact gl_nodup0.
      - intros x Hin. cbn in Hin. rewrite En. destruct (gl_pl0 x Hin) as [A B]. split; [exact A|].
        destruct (Nat.eq_dec x r) as [->|Hne]; [auto|rewrite (Hxs x Hne); exact B].
      - intros x Hs. cbn [s_pl setv].
        assert (Hd' : forall u, w_deact (s_v a u) = Some x -> exists u0, w_deact (s_v (setv a t l') u0) = Some x).
        { intros u Hu. exists u. cbn. unfold upd. destruct (Nat.eqb_spec u t) as [E|E]; [rewrite Ed, <- Hv, <- E|]; exact Hu. }
        destruct (Nat.eq_dec x r) as [->|Hne].
        + destruct (O2 Hs) as [A|[[A B]|(u & A)]]; [auto| |right; right; left; eauto].
          right. left. exists t. cbn. rewrite upd_same. auto.
        + rewrite (Hxs x Hne) in Hs. destruct (gl_act0 x Hs) as [A|[(u & A & B)|[(u & A)|A]]]; [auto| |right; right; left; eauto|right; right; right; apply Hun; exact A].
          right. left. exists u. cbn. unfold upd. destruct (Nat.eqb_spec u t) as [E|E]; [|auto]. subst u. congruence.
      - intros x Hs. destruct (Nat.eq_dec x r) as [->|Hne].
        + pose proof (O3 Hs) as E0. intros v. cbn. unfold upd. destruct (Nat.eqb_spec v t) as [E|E]; [rewrite E0; discriminate|].
          intros Hv'. apply E. eapply gl_inj0; eauto.
        + apply Hun. apply gl_rem0. rewrite <- (Hxs x Hne). exact Hs.
      - intros x Hle. rewrite En in Hle. rewrite Hxs by lia. auto.
      - rewrite En. destruct gl_head0 as [A B]. split; [|exact B]. rewrite Hxs by (unfold head; lia). exact A.
      - intros x. destruct (Nat.eq_dec x r) as [->|Hne]; [exact O4|rewrite (Hxs x Hne); auto]. }
    split.
    2:{ eapply F_view; eauto. destruct Hm' as [E'|E']; [left; congruence|right; exact E']. }
    apply Inv_intro0; [apply nolost_tag; assumption|exact HG'|].
    intros u. cbn. unfold upd. destruct (Nat.eqb_spec u t) as [E|E]; [apply Hkt; exact HG'|].
    exact (@Know_own_write g g' a t r l' u HG HK E Hm0 Hm' En Hx Hnx Hown).
  Qed.
  Ltac own_fields g r f v :=
    let H := fresh "Hf" in
    assert (H : forall x, nxt (upd_rec g r (set_fld (g_recs g r) f v)) x = (if Nat.eqb x r then match f with FNext => v | _ => nxt g x end else nxt g x) /\
                          stt (upd_rec g r (set_fld (g_recs g r) f v)) x = (if Nat.eqb x r then match f with FState => v | _ => stt g x end else stt g x) /\
                          rq (upd_rec g r (set_fld (g_recs g r) f v)) x = (if Nat.eqb x r then match f with FReq => v | _ => rq g x end else rq g x))
      by (intros ?x; apply upd_fields).

  (** Know for the stepping thread when only fields of its own record [r] changed *)
  Lemma Know_t_own g g' a t l l' r :
    Know g a l -> w_my l = Some r -> g_nrec g' = g_nrec g ->
    w_my l' = w_my l -> w_hold l' = w_hold l -> w_link l' = w_link l -> w_cur l' = w_cur l -> w_tgt l' = w_tgt l ->
    w_pp l' = w_pp l -> w_nx l' = w_nx l -> w_deact l' = w_deact l -> w_cand l' = w_cand l -> w_vic l' = w_vic l ->
    (forall x, x <> r -> nxt g' x = nxt g x /\ stt g' x = stt g x) ->
    (nxt g' r <> nxt g r -> ~ In r (s_pl a)) ->
    (w_link l = true -> stt g' r = stt g r) ->
    (w_deact l = Some r -> stt g' r = stt g r /\ w_own l' = w_own l) ->
    (w_own l' <> OUnk -> ~ In r (s_pl a)) ->
    (w_own l' = OPub -> stt g' r = st_active) ->
    (forall p, w_mynx l' = Some p -> w_own l' <> OUnk -> nxt g' r = p) ->
    (w_wait l' = true -> rq g' r <> req_Empty) ->
    (w_done l' = true -> rq g' r = req_Response) ->
    s_v a t = l ->
    Know g' (setv a t l') l'.
  Proof.
    intros K Hm En Em Eh Ek Ec Et Ep Enx Ed Eca Evi Hx Hnx Hlk Hde Hunl Hpub Hmynx Hwait Hdone Hv. destruct K.
    assert (Hun : forall x, unowned a x <-> unowned (setv a t l') x).
    { intros x. unfold unowned; cbn. split; intros H v; specialize (H v); unfold upd in *;
        (destruct (Nat.eqb_spec v t) as [E|E]; [rewrite E in *|]); congruence. }
    split; cbn [s_pl setv]; fold (LL a).
    - intros r0 H0. rewrite En. apply k_my0. congruence.
    - intros Ho r0 H0. assert (r0 = r) by congruence. subst r0. auto.
    - intros Ho r0 H0. assert (r0 = r) by congruence. subst r0. auto.
    - intros p Hp Ho r0 H0. assert (r0 = r) by congruence. subst r0. auto.
    - intros Hw r0 H0. assert (r0 = r) by congruence. subst r0. auto.
    - intros Hw r0 H0. assert (r0 = r) by congruence. subst r0. auto.
    - rewrite Ek, Eh. intros Hk. destruct (k_link0 Hk) as [A B]. split; auto. intros r0 H0. assert (r0 = r) by congruence. subst r0.
      rewrite (Hlk Hk). apply B. exact Hm.
    - rewrite Ec, Eh, Et, Ep. exact k_cur0.
    - rewrite Ep, Eh. exact k_pp0.
    - rewrite Enx, Eh. intros r0 n Hn. destruct (k_nx0 r0 n Hn) as (A & B & D). split; auto. split; auto.
      destruct (Nat.eq_dec r0 r) as [->|Hne]; [|destruct (Hx r0 Hne) as (E & _); rewrite E; exact D].
      destruct (Nat.eq_dec (nxt g' r) (nxt g r)) as [E|E]; [rewrite E; exact D|]. exfalso. exact (Hnx E B).
    - rewrite Ed, Eh. intros r0 Hd. destruct (k_deact0 r0 Hd) as (A & B & B' & D). split; auto. split; auto. split; [rewrite En; exact B'|].
      intros t0 Ht0. cbn in Ht0. unfold upd in *. cbn. unfold upd. destruct (Nat.eqb_spec t0 t) as [E|E].
      + assert (r0 = r) by congruence. subst r0. destruct (Hde Hd) as [E1 E2]. rewrite E1, E2.
        rewrite <- Hv. apply (D t). rewrite Hv. exact Hm.
      + destruct (D t0 Ht0) as [D1 D2]. split; auto.
        destruct (Nat.eq_dec r0 r) as [->|Hne]; [|destruct (Hx r0 Hne) as (_ & E2); rewrite E2; exact D2].
        destruct (Hde Hd) as [E1 _]. rewrite E1. exact D2.
    - rewrite Eca, En. intros x Hc. destruct (k_cand0 x Hc) as (A & B). split; [apply Hun; exact A|exact B].
    - rewrite Evi, En. intros x Hc. destruct (k_vic0 x Hc) as (A & B). split; [apply Hun; exact A|exact B].
    - rewrite Et, Em, En. intros v Hc. destruct (k_tgt0 v Hc) as [A|[A B]]; [left; exact A|right; split; [apply Hun; exact A|exact B]].
  Qed.
  Ltac fields_of Hf x := let A := fresh "A" in let B := fresh "B" in let D := fresh "D" in
    destruct (Hf x) as (A & B & D); rewrite ?A, ?B, ?D; clear A B D.

  (** release_record: the request is known to be answered, so the model event "lost" is not emitted *)
  Lemma safe_release_b R t r (k : V -> prog R) l Q :
    w_my l = Some r -> w_done l = true ->
    (forall v, safe t (k v) (set_done (set_wait l false) false) Q) ->
    safe t (Act (@a_release C Rs P r) k) l Q.
  Proof.
    intros Hm Hd K. cbn [Conc.safe]. intros g a tr Hi Hv. unfold view in Hv. unfold a_release; cbn [fst snd].
    pose proof Hi as [(Hl & HG & HK) HF]. pose proof (HK t) as K0. rewrite Hv in K0.
    pose proof (k_done K0 Hd Hm) as Hrq. unfold rq in Hrq. rewrite Hrq, Nat.eqb_refl, app_nil_r.
    own_fields g r FReq req_Empty. set (g' := upd_rec g r (set_fld (g_recs g r) FReq req_Empty)) in *.
    exists (setv a t (set_done (set_wait l false) false)). split; [|split; [apply frame_setv|rewrite view_setv; apply K]].
    assert (Hxo : forall x, x <> r -> nxt g' x = nxt g x /\ stt g' x = stt g x /\ rq g' x = rq g x).
    { intros x Hne. fields_of Hf x. destruct (Nat.eqb_spec x r); [congruence|auto]. }
    assert (Hr : nxt g' r = nxt g r /\ stt g' r = stt g r).
    { fields_of Hf r. rewrite Nat.eqb_refl. auto. }
    destruct Hr as [Hr1 Hr2].
    refine (@own_step g g' a tr t l (set_done (set_wait l false) false) r _ Hi Hv Hm (or_introl _) eq_refl eq_refl eq_refl eq_refl Hxo _ _ _ _ _ _ _ _ _ _ _).
    - exact Hm.
    - congruence.
    - apply quiet_acc; lv.
    - rewrite Hr2. intros Hin. apply (gl_pl HG). exact Hin.
    - rewrite Hr2. intros Hs. destruct (gl_act HG _ Hs) as [A|[(u & A & B)|[(u & A)|A]]]; [auto| |right; right; eauto|exfalso; apply (A t); rewrite Hv; exact Hm].
      assert (u = t) by (apply (gl_inj HG u t A); rewrite Hv; exact Hm). subst u. rewrite Hv in B. right. left. cbn. auto.
    - rewrite Hr2. intros Hs. exfalso. apply (gl_rem HG Hs t). rewrite Hv. exact Hm.
    - rewrite Hr2. apply (gl_st HG).
    - cbn. intros Hp. left. exact Hp.
    - intros (u' & Hd') _. split; [|exact Hr2]. destruct (k_deact (HK u') Hd') as (_ & _ & _ & D).
      destruct (D t) as [D1 _]; [rewrite Hv; exact Hm|]. rewrite Hv in D1. exact D1.
    - intros _. refine (@Know_t_own g g' a t l (set_done (set_wait l false) false) r K0 Hm eq_refl eq_refl eq_refl eq_refl eq_refl eq_refl eq_refl eq_refl eq_refl eq_refl eq_refl _ _ _ _ _ _ _ _ _ Hv); cbn.
      + intros x Hne. destruct (Hxo x Hne) as (A & B & _). auto.
      + congruence.
      + intros _. exact Hr2.
      + intros _. split; [exact Hr2|reflexivity].
      + intros Ho. apply (k_unl K0 Ho Hm).
      + intros Ho. rewrite Hr2. apply (k_pub K0 Ho Hm).
      + intros p Hp Ho. rewrite Hr1. eapply (k_mynx K0); eauto.
      + discriminate.
      + discriminate.
    - apply sameF_fld; discriminate.
    - kF.
  Qed.
  (** publish: pRec->nState.store( active ) on a record known to be unlinked *)
  Lemma safe_st_active_b R t r (k : V -> prog R) l Q :
    w_my l = Some r -> w_own l = OUnl ->
    (forall v, safe t (k v) (set_own l OPub) Q) ->
    safe t (Act (@a_st C Rs P r FState st_active) k) l Q.
  Proof.
    intros Hm Ho K. cbn [Conc.safe]. intros g a tr Hi Hv. unfold view in Hv. unfold a_st; cbn [fst snd].
    pose proof Hi as [(Hl & HG & HK) HF]. pose proof (HK t) as K0. rewrite Hv in K0.
    own_fields g r FState st_active. set (g' := upd_rec g r (set_fld (g_recs g r) FState st_active)) in *.
    exists (setv a t (set_own l OPub)). split; [|split; [apply frame_setv|rewrite view_setv; apply K]].
    assert (Hxo : forall x, x <> r -> nxt g' x = nxt g x /\ stt g' x = stt g x /\ rq g' x = rq g x).
    { intros x Hne. fields_of Hf x. destruct (Nat.eqb_spec x r); [congruence|auto]. }
    assert (Hr : nxt g' r = nxt g r /\ stt g' r = st_active /\ rq g' r = rq g r).
    { fields_of Hf r. rewrite Nat.eqb_refl. auto. }
    destruct Hr as (Hr1 & Hr2 & Hr3).
    assert (Hnin : ~ In r (s_pl a)) by (apply (k_unl K0); [rewrite Ho; discriminate|exact Hm]).
    refine (@own_step g g' a tr t l (set_own l OPub) r _ Hi Hv Hm (or_introl _) eq_refl eq_refl eq_refl eq_refl Hxo _ _ _ _ _ _ _ _ _ _ _).
    - exact Hm.
    - congruence.
    - apply quiet_acc; lv.
    - intros Hin. contradiction.
    - intros _. right. left. cbn. auto.
    - rewrite Hr2. unfold st_active, st_removed. discriminate.
    - rewrite Hr2. unfold st_active. lia.
    - intros _. right. exact Hr2.
    - intros (u' & Hd') _. exfalso. pose proof (k_deact (HK u') Hd') as (_ & _ & _ & D).
      destruct (D t) as [D1 _]; [rewrite Hv; exact Hm|]. rewrite Hv in D1. congruence.
    - intros _. refine (@Know_t_own g g' a t l (set_own l OPub) r K0 Hm eq_refl eq_refl eq_refl eq_refl eq_refl eq_refl eq_refl eq_refl eq_refl eq_refl eq_refl _ _ _ _ _ _ _ _ _ Hv); cbn.
      + intros x Hne. destruct (Hxo x Hne) as (A & B & _). auto.
      + congruence.
      + intros Hk. exfalso. destruct (k_link K0 Hk) as [_ B]. destruct (B r Hm). contradiction.
      + intros Hd. exfalso. pose proof (k_deact K0 Hd) as (_ & _ & _ & D).
        destruct (D t) as [D1 _]; [rewrite Hv; exact Hm|]. rewrite Hv in D1. congruence.
      + intros _. exact Hnin.
      + intros _. exact Hr2.
      + intros p Hp _. rewrite Hr1. eapply (k_mynx K0); eauto. rewrite Ho. discriminate.
      + intros Hw. rewrite Hr3. apply (k_wait K0 Hw Hm).
      + intros Hw. rewrite Hr3. apply (k_done K0 Hw Hm).
    - apply sameF_fld; discriminate.
    - kF.
  Qed.

  (** publish: pRec->pNext.store( p ) on the unlinked record *)
  Lemma safe_st_next_b R t r p (k : V -> prog R) l Q :
    w_my l = Some r -> w_own l <> OUnk ->
    (forall v, safe t (k v) (set_mynx l (Some p)) Q) ->
    safe t (Act (@a_st C Rs P r FNext p) k) l Q.
  Proof.
    intros Hm Ho K. cbn [Conc.safe]. intros g a tr Hi Hv. unfold view in Hv. unfold a_st; cbn [fst snd].
    pose proof Hi as [(Hl & HG & HK) HF]. pose proof (HK t) as K0. rewrite Hv in K0.
    own_fields g r FNext p. set (g' := upd_rec g r (set_fld (g_recs g r) FNext p)) in *.
    exists (setv a t (set_mynx l (Some p))). split; [|split; [apply frame_setv|rewrite view_setv; apply K]].
    assert (Hxo : forall x, x <> r -> nxt g' x = nxt g x /\ stt g' x = stt g x /\ rq g' x = rq g x).
    { intros x Hne. fields_of Hf x. destruct (Nat.eqb_spec x r); [congruence|auto]. }
    assert (Hr : nxt g' r = p /\ stt g' r = stt g r /\ rq g' r = rq g r).
    { fields_of Hf r. rewrite Nat.eqb_refl. auto. }
    destruct Hr as (Hr1 & Hr2 & Hr3).
    assert (Hnin : ~ In r (s_pl a)) by (apply (k_unl K0); assumption).
    refine (@own_step g g' a tr t l (set_mynx l (Some p)) r _ Hi Hv Hm (or_introl _) eq_refl eq_refl eq_refl eq_refl Hxo _ _ _ _ _ _ _ _ _ _ _).
    - exact Hm.
    - intros _. exact Hnin.
    - apply quiet_acc; lv.
    - intros Hin. contradiction.
    - rewrite Hr2. intros Hs. pose proof (gl_act HG) as X. destruct (X r Hs) as [A|[(u & A & B)|[(u & A)|A]]]; [auto| |right; right; eauto|exfalso; apply (A t); rewrite Hv; exact Hm].
      assert (u = t) by (apply (gl_inj HG u t A); rewrite Hv; exact Hm). subst u. rewrite Hv in B. right. left. cbn. auto.
    - rewrite Hr2. intros Hs. exfalso. pose proof (gl_rem HG) as X. apply (X r Hs t). rewrite Hv. exact Hm.
    - rewrite Hr2. apply (gl_st HG).
    - cbn. intros Hp. left. exact Hp.
    - intros (u' & Hd') _. exfalso. pose proof (k_deact (HK u') Hd') as (_ & _ & _ & D).
      destruct (D t) as [D1 _]; [rewrite Hv; exact Hm|]. rewrite Hv in D1. congruence.
    - intros _. refine (@Know_t_own g g' a t l (set_mynx l (Some p)) r K0 Hm eq_refl eq_refl eq_refl eq_refl eq_refl eq_refl eq_refl eq_refl eq_refl eq_refl eq_refl _ _ _ _ _ _ _ _ _ Hv); cbn.
      + intros x Hne. destruct (Hxo x Hne) as (A & B & _). auto.
      + intros _. exact Hnin.
      + intros _. exact Hr2.
      + intros _. split; [exact Hr2|reflexivity].
      + intros _. exact Hnin.
      + intros Hp. rewrite Hr2. apply (k_pub K0 Hp Hm).
      + intros p0 Hp _. congruence.
      + intros Hw. rewrite Hr3. apply (k_wait K0 Hw Hm).
      + intros Hw. rewrite Hr3. apply (k_done K0 Hw Hm).
    - apply sameF_fld; discriminate.
    - kF.
  Qed.
  Lemma Inv_trace g a tr t es : Inv g a tr -> quiet es -> Inv g a (tr ++ Conc.tag t es).
  Proof.
    intros [(Hl & HG & HK) HF] [He Hu]. split; [apply Inv_intro0; auto; apply nolost_tag; assumption|].
    eapply FInv_same; eauto. apply sameF_refl.
  Qed.

  Lemma Inv_view g a tr t es l l' :
    Inv g a tr -> s_v a t = l -> w_my l' = w_my l -> w_own l' = w_own l -> w_hold l' = w_hold l ->
    (forall r, w_deact l = Some r -> w_deact l' = Some r) -> Know g a l' -> KnowF g a l' -> quiet es ->
    Inv g (setv a t l') (tr ++ Conc.tag t es).
  Proof.
    intros [(Hl & HG & HK) HF] Hv Em Eo Eh Ed Hk HkF [He Hu]. subst l. split.
    2:{ eapply F_view; eauto; try apply sameF_refl. }
    apply Inv_intro0; [apply nolost_tag; assumption| |].
    - apply Glob_setv; auto.
    - intros u. apply Know_setv; auto. cbn. unfold upd. destruct (Nat.eqb_spec u t) as [E1|E1]; [exact Hk|apply HK].
  Qed.

  Ltac ivw := eapply Inv_view; eauto; fin_view.
  Ltac ghF := let g0 := fresh "g" in let a0 := fresh "a" in let tr0 := fresh "tr" in let Hi0 := fresh "Hi" in let Hv0 := fresh "Hv" in let HF0 := fresh "HF" in
              intros g0 a0 tr0 Hi0 Hv0; pose proof Hi0 as [_ HF0]; kF.

  (** the owner reads nState of its record: `inactive` means "not linked, and only I can link it";
      `active` read while holding the combiner lock means "linked" *)
  Lemma safe_ld_state_own_b R t r (k : V -> prog R) l Q :
    w_my l = Some r -> w_own l = OUnk -> w_deact l = None -> w_mynx l = None ->
    safe t (k (vN st_active)) (if w_hold l then set_link l true else l) Q ->
    (forall v, v <> st_active -> safe t (k (vN v)) (set_own l OUnl) Q) ->
    safe t (Act (@a_ld C Rs P r FState) k) l Q.
  Proof.
    intros Hm Ho Hd Hnx K1 K2. cbn [Conc.safe]. intros g a tr Hi Hv. unfold view in Hv. unfold a_ld; cbn [fst snd get_fld].
    pose proof Hi as [(Hl & HG & HK) HF]. pose proof (HK t) as K0. rewrite Hv in K0.
    assert (Hm0 : w_my (s_v a t) = Some r) by (rewrite Hv; exact Hm).
    fold (stt g r). destruct (Nat.eq_dec (stt g r) st_active) as [Ea|Ea].
    - rewrite Ea. destruct (w_hold l) eqn:Eh.
      + exists (setv a t (set_link l true)). split; [|split; [apply frame_setv|rewrite view_setv; exact K1]].
        ivw.
        destruct K0. split; cbn; auto. intros _. split; [exact Eh|]. intros r0 H0. assert (r0 = r) by congruence. subst r0.
        split; [|exact Ea]. pose proof (gl_act HG) as X. destruct (X r Ea) as [A|[(u & A & B)|[(u & A)|A]]]; [exact A| | |exfalso; apply (A t); exact Hm0].
        * exfalso. assert (u = t) by (apply (gl_inj HG u t A); exact Hm0). subst u. rewrite Hv in B. congruence.
        * exfalso. pose proof (k_deact (HK u) A) as (Hh & _). assert (u = t).
          { apply (gl_uniq HG u t Hh). pose proof (f_equal w_hold Hv) as Hx. cbn in Hx. congruence. }
          subst u. rewrite Hv in A. congruence.
      + exists a. split; [|split; [apply frame_refl|unfold view; rewrite Hv; exact K1]]. apply Inv_trace; [exact Hi|apply quiet_acc; lv].
    - exists (setv a t (set_own l OUnl)). split; [|split; [apply frame_setv|rewrite view_setv; apply K2; exact Ea]].
      assert (Hnin : ~ In r (s_pl a)).
      { intros Hin. destruct (gl_pl HG _ Hin) as [_ Hs]. pose proof (gl_st HG r) as H2.
        assert (stt g r = st_removed) by (unfold st_active, st_inactive, st_removed in *; lia).
        pose proof (gl_rem HG) as X. apply (X r H t). exact Hm0. }
      refine (@own_step g g a tr t l (set_own l OUnl) r _ Hi Hv Hm (or_introl _) eq_refl eq_refl eq_refl eq_refl _ _ _ _ _ _ _ _ _ _ (sameF_refl g) _).
      + exact Hm.
      + intros; auto.
      + congruence.
      + apply quiet_acc; lv.
      + intros Hin. contradiction.
      + intros Hs. contradiction.
      + intros Hs. exfalso. pose proof (gl_rem HG) as X. apply (X r Hs t). exact Hm0.
      + apply (gl_st HG).
      + cbn. discriminate.
      + intros (u' & Hd') _. exfalso. pose proof (k_deact (HK u') Hd') as (_ & _ & _ & D).
        destruct (D t Hm0) as [_ D2]. contradiction.
      + intros _.
        refine (@Know_t_own g g a t l (set_own l OUnl) r K0 Hm eq_refl eq_refl eq_refl eq_refl eq_refl eq_refl eq_refl eq_refl eq_refl eq_refl eq_refl _ _ _ _ _ _ _ _ _ Hv); cbn.
        * intros; auto.
        * congruence.
        * auto.
        * rewrite Hd. discriminate.
        * intros _. exact Hnin.
        * discriminate.
        * rewrite Hnx. discriminate.
        * intros Hw. apply (k_wait K0 Hw Hm).
        * intros Hw. apply (k_done K0 Hw Hm).
      + kF.
  Qed.
  (** *** the link CAS: m_pHead->pNext.compare_exchange( p, pRec ) *)
  Lemma in_LL_insert a r q : In q (LL a) -> In q (head :: r :: s_pl a).
  Proof. intros [E|H]; [left; exact E|right; right; exact H]. Qed.

  Lemma Know_link_step g g' a t r l' u :
    Glob g a -> (forall v, Know g a (s_v a v)) -> u <> t ->
    w_my (s_v a t) = Some r -> w_own (s_v a t) = OPub -> w_my l' = Some r ->
    g_nrec g' = g_nrec g ->
    (forall x, stt g' x = stt g x /\ rq g' x = rq g x /\ (x <> head -> nxt g' x = nxt g x)) ->
    Know g' (setv (setpl a (r :: s_pl a)) t l') (s_v a u).
  Proof.
    intros HG HK Hne Hm Ho Hm' En Hx. pose proof (HK u) as K. destruct K.
    destruct (k_my (HK t) Hm) as [Hr1 Hr2]. pose proof (k_unl (HK t)) as Hnin. rewrite Ho in Hnin.
    specialize (Hnin ltac:(discriminate) r Hm).
    assert (Hr0 : forall r0, w_my (s_v a u) = Some r0 -> r0 <> r).
    { intros r0 H0 ->. apply Hne. eapply (gl_inj HG); eauto. }
    assert (Hun : forall x, unowned a x <-> unowned (setv (setpl a (r :: s_pl a)) t l') x).
    { intros x. unfold unowned; cbn. split; intros H v; specialize (H v); unfold upd in *;
        (destruct (Nat.eqb_spec v t) as [E|E]; [rewrite E in *|]); congruence. }
    assert (Hpl : forall x, In x (s_pl a) -> x <> head /\ x <> r).
    { intros x Hin. split; [|intros ->; contradiction]. intros ->. pose proof (gl_nodup HG) as Hnd.
      unfold LL in Hnd. apply NoDup_cons_iff in Hnd. destruct Hnd as [Hh _]. contradiction. }
    split; cbn [s_pl setv setpl LL].
    - intros r0 H0. rewrite En. auto.
    - intros Hou r0 H0 [E|Hin]; [apply (Hr0 r0 H0); congruence|eapply k_unl0; eauto].
    - intros Hou r0 H0. destruct (Hx r0) as (E & _). rewrite E. auto.
    - intros p Hp Hou r0 H0. destruct (Hx r0) as (_ & _ & E). rewrite E; [eauto|]. destruct (k_my0 r0 H0). unfold head. lia.
    - intros Hw r0 H0. destruct (Hx r0) as (_ & E & _). rewrite E. auto.
    - intros Hw r0 H0. destruct (Hx r0) as (_ & E & _). rewrite E. auto.
    - intros Hk. destruct (k_link0 Hk) as [A B]. split; auto. intros r0 H0. destruct (B r0 H0) as [B1 B2].
      destruct (Hx r0) as (E & _). rewrite E. split; [right; exact B1|exact B2].
    - intros q Hq. destruct (k_cur0 q Hq) as (A & B & D & Fp). split; auto. split; [apply in_LL_insert; exact B|].
      split; [|intros Hp; right; apply Fp; exact Hp].
      intros v Hv [E|Hin].
      + exfalso. subst v. destruct (k_tgt0 r Hv) as [F|[F _]]; [apply (Hr0 r F); reflexivity|apply (F t); exact Hm].
      + specialize (D v Hv Hin). destruct B as [E|B].
        * subst q. unfold LL. cbn. right. right. exact Hin.
        * destruct (Hpl q B) as [Q1 Q2]. unfold LL in *. cbn [s_pl setv setpl] in *. rewrite sf_insert by assumption. exact D.
    - intros x Hxp. destruct (k_pp0 x Hxp) as (A & B). split; auto. apply in_LL_insert; exact B.
    - intros r0 n Hn. destruct (k_nx0 r0 n Hn) as (A & B & D). split; auto. split; [right; exact B|].
      destruct (Hx r0) as (_ & _ & E). rewrite E; [exact D|]. apply (Hpl r0 B).
    - intros r0 Hd. destruct (k_deact0 r0 Hd) as (A & B & B' & D). split; auto.
      assert (r0 <> r). { intros ->. destruct (D t Hm) as [D1 _]. congruence. }
      split; [intros [E|Hin]; [congruence|contradiction]|]. split; [rewrite En; exact B'|].
      intros t0 Ht0. cbn in Ht0. unfold upd in *. cbn. unfold upd. destruct (Nat.eqb_spec t0 t) as [E|E]; [congruence|].
      destruct (D t0 Ht0) as [D1 D2]. destruct (Hx r0) as (E2 & _). rewrite E2. auto.
    - intros x Hc. destruct (k_cand0 x Hc) as (A & B). rewrite En. split; [apply Hun; exact A|exact B].
    - intros x Hc. destruct (k_vic0 x Hc) as (A & B & D & E). rewrite En. split; [apply Hun; exact A|]. split; auto. split; auto.
      intros [F|Hin]; [|contradiction]. subst x. apply (A t). exact Hm.
    - intros v Hc. rewrite ?En. destruct (k_tgt0 v Hc) as [A|[A B]]; [left; exact A|right; split; [apply Hun; exact A|exact B]].
  Qed.
  Lemma safe_cas_link_b R t r p (k : V -> prog R) l Q :
    w_my l = Some r -> w_own l = OPub -> w_mynx l = Some p -> w_link l = false -> w_deact l = None ->
    w_cur l = None -> w_pp l = None -> w_nx l = None ->
    (forall v, v <> p -> safe t (k (vN v)) l Q) ->
    safe t (k (vN p)) (set_link (set_mynx (set_own l OUnk) None) (w_hold l)) Q ->
    safe t (Act (@a_cas C Rs P head FNext p (Datatypes.S r)) k) l Q.
  Proof.
    intros Hm Ho Hnx Hlk Hde Hcu Hpp Hn K1 K2. cbn [Conc.safe]. intros g a tr Hi Hv. unfold view in Hv. unfold a_cas.
    pose proof Hi as [(Hl & HG & HK) HF]. pose proof (HK t) as K0. rewrite Hv in K0.
    assert (Hm0 : w_my (s_v a t) = Some r) by (rewrite Hv; exact Hm).
    assert (Ho0 : w_own (s_v a t) = OPub) by (rewrite Hv; exact Ho).
    change (get_fld (g_recs g head) FNext) with (nxt g head).
    destruct (Nat.eqb_spec (nxt g head) p) as [Ep|Ep]; cbn [fst snd].
    2:{ exists a. split; [apply Inv_trace; [exact Hi|apply quiet_acc; lv]|]. split; [apply frame_refl|].
        unfold view. rewrite Hv. apply K1. exact Ep. }
    rewrite Ep.
    own_fields g head FNext (Datatypes.S r). set (g' := upd_rec g head (set_fld (g_recs g head) FNext (Datatypes.S r))) in *.
    set (l' := set_link (set_mynx (set_own l OUnk) None) (w_hold l)).
    exists (setv (setpl a (r :: s_pl a)) t l').
    split; [|split; [eapply frame_trans; [apply frame_setpl|apply frame_setv]|unfold view; cbn; rewrite upd_same; exact K2]].
    destruct (k_my K0 Hm) as [Hr1 Hr2].
    assert (Hnin : ~ In r (s_pl a)) by (apply (k_unl K0); [rewrite Ho; discriminate|exact Hm]).
    assert (Hact : stt g r = st_active) by (apply (k_pub K0 Ho Hm)).
    assert (Hnr : nxt g r = p) by (apply (k_mynx K0 Hnx); [rewrite Ho; discriminate|exact Hm]).
    assert (Hhr : head <> r) by (unfold head; lia).
    assert (Hx : forall x, stt g' x = stt g x /\ rq g' x = rq g x /\ (x <> head -> nxt g' x = nxt g x)).
    { intros x. fields_of Hf x. destruct (Nat.eqb_spec x head); repeat split; auto; congruence. }
    assert (Hh : nxt g' head = Datatypes.S r) by (fields_of Hf head; rewrite Nat.eqb_refl; reflexivity).
    assert (Hun : forall x, unowned a x <-> unowned (setv (setpl a (r :: s_pl a)) t l') x).
    { intros x. unfold unowned; cbn. split; intros H v; specialize (H v); unfold upd in *;
        (destruct (Nat.eqb_spec v t) as [E|E]; [rewrite E in *|]); subst l'; cbn in *; congruence. }
    split.
    2:{ eapply F_frame; eauto; [apply nouaf_acc; lv|apply sameF_fld; discriminate| | |subst l'; kF].
        - intros x [E|Hin]; [right; congruence|left; exact Hin].
        - left. subst l'. cbn. congruence. }
    apply Inv_intro0; [apply nolost_tag; [exact Hl|apply nolost_acc]| |].
    - destruct HG. split; unfold LL; cbn [s_pl setv setpl].
      + cbn. intros Hfr u. cbn. unfold upd. destruct (Nat.eqb_spec u t) as [E|E]; [subst l'; cbn; rewrite <- Hv, <- E|]; auto.
      + intros u u' H1 H2. cbn in *. unfold upd in *. apply gl_uniq0;
          [destruct (Nat.eqb_spec u t) as [E|E]|destruct (Nat.eqb_spec u' t) as [E|E]]; subst; subst l'; cbn in *; congruence.
      + intros u u' r0 H1 H2. cbn in *. unfold upd in *. apply (gl_inj0 u u' r0);
          [destruct (Nat.eqb_spec u t) as [E|E]|destruct (Nat.eqb_spec u' t) as [E|E]]; subst; subst l'; cbn in *; congruence.
      + intros q Hq. rewrite succ_insert by assumption. unfold LL in gl_link0.
        destruct (Nat.eqb_spec q head) as [->|Hqh]; [exact Hh|].
        destruct (Hx q) as (_ & _ & E). rewrite (E Hqh).
        destruct (Nat.eqb_spec q r) as [->|Hqr].
        * rewrite Hnr, <- Ep. rewrite (gl_link0 head (or_introl eq_refl)). cbn. reflexivity.
        * apply gl_link0. destruct Hq as [E1|[E1|Hin]]; [congruence|congruence|right; exact Hin].
      + unfold LL in gl_nodup0. apply NoDup_cons_iff in gl_nodup0. destruct gl_nodup0 as [A B].
        constructor; [intros [E|Hin]; [congruence|contradiction]|]. constructor; assumption.
      + intros x [E|Hin].
        * subst x. destruct (Hx r) as (E & _). rewrite E, Hact. split; [exact Hr2|unfold st_active, st_inactive; discriminate].
        * destruct (Hx x) as (E & _). rewrite E. apply gl_pl0. exact Hin.
      + intros x Hs. destruct (Hx x) as (E & _). rewrite E in Hs. destruct (gl_act0 x Hs) as [A|[(u & A & B)|[(u & A)|A]]].
        * left. right. exact A.
        * destruct (Nat.eq_dec u t) as [->|Hne].
          -- left. left. congruence.
          -- right. left. exists u. cbn. rewrite upd_other by exact Hne. auto.
        * right. right. left. exists u. cbn. unfold upd. destruct (Nat.eqb_spec u t) as [E1|E1]; [|exact A].
          subst u. rewrite Hv in A. congruence.
        * right. right. right. apply Hun. exact A.
      + intros x Hs. apply Hun. apply gl_rem0. destruct (Hx x) as (E & _). rewrite <- E. exact Hs.
      + intros x Hle. destruct (Hx x) as (E & _). rewrite E. apply gl_fresh0. exact Hle.
      + destruct (Hx head) as (E & _). rewrite E. exact gl_head0.
      + intros x. destruct (Hx x) as (E & _). rewrite E. apply gl_st0.
    - intros u. cbn. unfold upd. destruct (Nat.eqb_spec u t) as [E|E].
      2:{ exact (@Know_link_step g g' a t r l' u HG HK E Hm0 Ho0 Hm eq_refl Hx). }
      destruct K0. subst l'. split; cbn.
      + exact k_my0.
      + intros F. exfalso. apply F. reflexivity.
      + discriminate.
      + discriminate.
      + intros Hw r0 H0. destruct (Hx r0) as (_ & E2 & _). rewrite E2. auto.
      + intros Hw r0 H0. destruct (Hx r0) as (_ & E2 & _). rewrite E2. auto.
      + intros Hh'. split; [exact Hh'|]. intros r0 H0. assert (r0 = r) by congruence. subst r0.
        destruct (Hx r) as (E2 & _). rewrite E2. split; [left; reflexivity|exact Hact].
      + rewrite Hcu. discriminate.
      + rewrite Hpp. discriminate.
      + rewrite Hn. discriminate.
      + rewrite Hde. discriminate.
      + intros x Hc. destruct (k_cand0 x Hc) as (A & B). split; [apply Hun; exact A|exact B].
      + intros x Hc. destruct (k_vic0 x Hc) as (A & B & D & F). split; [apply Hun; exact A|]. split; auto. split; auto.
        intros [E2|Hin]; [|contradiction]. subst x. apply (A t). exact Hm0.
      + intros v Hc. destruct (k_tgt0 v Hc) as [A|[A B]]; [left; exact A|right; split; [apply Hun; exact A|exact B]].
  Qed.
  (** *** New(): a fresh record *)
  Lemma safe_new_b R t (k : V -> prog R) l Q :
    w_my l = None -> w_own l = OUnk -> w_mynx l = None -> w_wait l = false -> w_done l = false -> w_link l = false ->
    (forall r, 1 <= r -> safe t (k (vN r)) (set_mynxa (set_anew (set_own (set_my l (Some r)) OUnl) true) None) Q) ->
    safe t (Act (@a_new C Rs rs0 P) k) l Q.
  Proof.
    intros Hm Ho Hnx Hw Hdn Hlk K. cbn [Conc.safe]. intros g a tr Hi Hv. unfold view in Hv. unfold a_new; cbn [fst snd].
    pose proof Hi as [(Hl & HG & HK) HF]. pose proof (HK t) as K0. rewrite Hv in K0.
    set (r := g_nrec g).
    set (g' := mkG (g_count g) (g_lock g) (fun i => if Nat.eqb i r then rec0 rs0 else g_recs g i) (Datatypes.S r) (g_cont g)).
    set (l' := set_mynxa (set_anew (set_own (set_my l (Some r)) OUnl) true) None).
    assert (Hr1 : 1 <= r) by (apply (gl_head HG)).
    exists (setv a t l'). split; [|split; [apply frame_setv|rewrite view_setv; apply K; exact Hr1]].
    assert (Hx : forall x, x <> r -> nxt g' x = nxt g x /\ stt g' x = stt g x /\ rq g' x = rq g x).
    { intros x Hne. unfold g', nxt, stt, rq; cbn. destruct (Nat.eqb_spec x r); [congruence|auto]. }
    assert (Hnew : nxt g' r = 0 /\ stt g' r = 0 /\ rq g' r = 0).
    { unfold g', nxt, stt, rq; cbn. rewrite Nat.eqb_refl. auto. }
    destruct Hnew as (N1 & N2 & N3).
    assert (Hmy : forall u r0, w_my (s_v a u) = Some r0 -> r0 < r) by (intros u r0 H0; apply (k_my (HK u) H0)).
    assert (Hpl : forall x, In x (s_pl a) -> x < r) by (intros x Hin; apply (gl_pl HG _ Hin)).
    assert (Hun : forall x, x <> r -> unowned a x -> unowned (setv a t l') x).
    { intros x Hne H v. cbn. unfold upd. destruct (Nat.eqb_spec v t) as [E|E]; [subst l'; cbn; congruence|apply H]. }
    split.
    2:{ assert (HxF : forall x, x <> r -> nxa g' x = nxa g x /\ frd g' x = frd g x).
        { intros x Hne. unfold g', nxa, frd; cbn. destruct (Nat.eqb_spec x r); [congruence|auto]. }
        assert (HrF : frd g' r = false) by (unfold g', frd; cbn; rewrite Nat.eqb_refl; reflexivity).
        assert (HfF : forall x, frd g' x = true -> frd g x = true /\ x <> r).
        { intros x Hf. destruct (Nat.eq_dec x r) as [->|Hne]; [congruence|]. destruct (HxF x Hne) as [_ E]. rewrite <- E. auto. }
        assert (HfF2 : forall x, frd g x = false -> frd g' x = false).
        { intros x Hf. destruct (Nat.eq_dec x r) as [->|Hne]; [exact HrF|]. destruct (HxF x Hne) as [_ E]. rewrite E. exact Hf. }
        destruct HF as (Hu & HGF & HKF).
        assert (Hal : forall x, In x (AL a) -> x <> r) by (intros x Hin; destruct (gf_al HGF Hin); unfold r; lia).
        split; [apply nouaf_tag; [exact Hu|repeat constructor]|]. split.
        - destruct HGF. split; unfold AL, LL in *; cbn [s_al s_pl setv].
          + intros q Hq. destruct (HxF q (Hal q Hq)) as [E _]. rewrite E. auto.
          + auto.
          + intros x Hx0. destruct (gf_al0 x Hx0) as [A B]. split; [cbn; lia|apply HfF2; exact B].
          + intros x Hx0. apply HfF2. auto.
          + intros x Hf. destruct (HfF x Hf) as [A B]. destruct (gf_freed0 x A) as [D E]. split; [apply Hun; assumption|cbn; lia].
        - intros u. cbn. unfold upd. destruct (Nat.eqb_spec u t) as [E|E].
          + pose proof (HKF t) as F0. rewrite Hv in F0. destruct F0. subst l'. split; cbn.
            * intros _ r0 H0. inversion H0; subst r0. intros Hin. apply (Hal _ Hin). reflexivity.
            * discriminate.
            * auto.
            * auto.
            * intros Hh r0 n Hn. destruct (kf_nx0 Hh r0 n Hn) as [A B]. split; [exact A|]. destruct (HxF r0) as [E2 _]; [apply Hal; right; exact A|]. rewrite E2. exact B.
            * intros Hh r0 Hd. apply HfF2. eauto.
            * intros Hh q Hq. apply HfF2. eauto.
          + pose proof (HKF u) as F0. destruct F0. split; cbn.
            * auto.
            * intros p Hp Hn r0 H0. destruct (HxF r0) as [E2 _]; [apply Hmy in H0; lia|]. rewrite E2. eauto.
            * auto.
            * auto.
            * intros Hh r0 n Hn. destruct (kf_nx0 Hh r0 n Hn) as [A B]. split; [exact A|]. destruct (HxF r0) as [E2 _]; [apply Hal; right; exact A|]. rewrite E2. exact B.
            * intros Hh r0 Hd. apply HfF2. eauto.
            * intros Hh q Hq. apply HfF2. eauto. }
    apply Inv_intro0; [apply nolost_tag; [exact Hl|repeat constructor]| |].
    - destruct HG. split; unfold LL; cbn [s_pl setv setpl].
      + intros Hfr u. cbn. unfold upd. destruct (Nat.eqb_spec u t) as [E|E]; [subst l'; cbn; rewrite <- Hv, <- E|]; auto.
      + intros u u' H1 H2. cbn in *. unfold upd in *. apply gl_uniq0;
          [destruct (Nat.eqb_spec u t) as [E|E]|destruct (Nat.eqb_spec u' t) as [E|E]]; subst; subst l'; cbn in *; congruence.
      + intros u u' r0 H1 H2. cbn in *. unfold upd in *.
        destruct (Nat.eqb_spec u t) as [E1|E1]; destruct (Nat.eqb_spec u' t) as [E2|E2]; try congruence.
        * subst l'; cbn in H1. inversion H1; subst r0. apply Hmy in H2. lia.
        * subst l'; cbn in H2. inversion H2; subst r0. apply Hmy in H1. lia.
        * eapply gl_inj0; eauto.
      + intros q Hq. unfold LL in gl_link0. rewrite <- (gl_link0 q Hq). apply Hx.
        destruct Hq as [E|Hin]; [unfold head in E; lia|apply Hpl in Hin; lia].
      + exact gl_nodup0.
      + intros x Hin. destruct (gl_pl0 x Hin) as [A B]. cbn. split; [unfold r; lia|]. destruct (Hx x) as (_ & E & _); [apply Hpl in Hin; lia|]. rewrite E. exact B.
      + intros x Hs. destruct (Nat.eq_dec x r) as [->|Hne]; [rewrite N2 in Hs; discriminate|].
        destruct (Hx x Hne) as (_ & E & _). rewrite E in Hs. destruct (gl_act0 x Hs) as [A|[(u & A & B)|[(u & A)|A]]]; [auto| | |right; right; right; apply Hun; assumption].
        * right. left. exists u. cbn. unfold upd. destruct (Nat.eqb_spec u t) as [E1|E1]; [|auto]. subst u. rewrite Hv in A. congruence.
        * right. right. left. exists u. cbn. unfold upd. destruct (Nat.eqb_spec u t) as [E1|E1]; [|auto]. subst u. subst l'. cbn. rewrite <- Hv. exact A.
      + intros x Hs. destruct (Nat.eq_dec x r) as [->|Hne]; [rewrite N2 in Hs; discriminate|].
        destruct (Hx x Hne) as (_ & E & _). rewrite E in Hs. apply Hun; auto.
      + intros x Hle. cbn in Hle. destruct (Hx x) as (_ & E & _); [lia|]. rewrite E. apply gl_fresh0. unfold r in *. lia.
      + cbn. destruct gl_head0 as [A B]. destruct (Hx head) as (_ & E & _); [unfold head; lia|]. rewrite E. split; [exact A|lia].
      + intros x. destruct (Nat.eq_dec x r) as [->|Hne]; [rewrite N2; lia|]. destruct (Hx x Hne) as (_ & E & _). rewrite E. auto.
    - intros u. cbn. unfold upd. destruct (Nat.eqb_spec u t) as [E|E].
      + destruct K0. subst l'. split; cbn.
        * intros r0 H0. inversion H0; subst r0. unfold r. lia.
        * intros _ r0 H0. inversion H0; subst r0. intros Hin. apply Hpl in Hin. lia.
        * discriminate.
        * rewrite Hnx. discriminate.
        * rewrite Hw. discriminate.
        * rewrite Hdn. discriminate.
        * rewrite Hlk. discriminate.
        * exact k_cur0.
        * exact k_pp0.
        * intros r0 n Hn. destruct (k_nx0 r0 n Hn) as (A & B & D). split; auto. split; auto.
          destruct (Hx r0) as (E2 & _); [apply Hpl in B; lia|]. rewrite E2. exact D.
        * intros r0 Hd. destruct (k_deact0 r0 Hd) as (A & B & B' & D). split; auto. split; auto. split; [unfold r; lia|].
          intros t0 Ht0. unfold upd in *. destruct (Nat.eqb_spec t0 t) as [E2|E2]; [cbn in Ht0; inversion Ht0; unfold r in *; lia|].
          destruct (D t0 Ht0) as [D1 D2]. split; auto. destruct (Hx r0) as (_ & E3 & _); [unfold r; lia|]. rewrite E3. exact D2.
        * intros x Hc. destruct (k_cand0 x Hc) as (A & B & D). split; [apply Hun; [unfold r; lia|exact A]|]. split; [unfold r; lia|exact D].
        * intros x Hc. destruct (k_vic0 x Hc) as (A & B & D & F). split; [apply Hun; [unfold r; lia|exact A]|]. repeat split; auto; unfold r; lia.
        * intros v Hc. destruct (k_tgt0 v Hc) as [A|[A B]]; [congruence|]. right. split; [apply Hun; [unfold r; lia|exact A]|unfold r; lia].
      + pose proof (HK u) as Ku. destruct Ku.
        assert (Hr0 : forall r0, w_my (s_v a u) = Some r0 -> r0 <> r) by (intros r0 H0; apply Hmy in H0; lia).
        split; cbn [s_pl setv].
        * intros r0 H0. cbn. destruct (k_my0 r0 H0). unfold r. lia.
        * auto.
        * intros Hou r0 H0. destruct (Hx r0 (Hr0 r0 H0)) as (_ & E2 & _). rewrite E2. auto.
        * intros p Hp Hou r0 H0. destruct (Hx r0 (Hr0 r0 H0)) as (E2 & _). rewrite E2. eauto.
        * intros Hw' r0 H0. destruct (Hx r0 (Hr0 r0 H0)) as (_ & _ & E2). rewrite E2. auto.
        * intros Hw' r0 H0. destruct (Hx r0 (Hr0 r0 H0)) as (_ & _ & E2). rewrite E2. auto.
        * intros Hk. destruct (k_link0 Hk) as [A B]. split; auto. intros r0 H0. destruct (Hx r0 (Hr0 r0 H0)) as (_ & E2 & _). rewrite E2. auto.
        * exact k_cur0.
        * exact k_pp0.
        * intros r0 n Hn. destruct (k_nx0 r0 n Hn) as (A & B & D). split; auto. split; auto.
          destruct (Hx r0) as (E2 & _); [apply Hpl in B; lia|]. rewrite E2. exact D.
        * intros r0 Hd. destruct (k_deact0 r0 Hd) as (A & B & B' & D). split; auto. split; auto. split; [cbn; unfold r in *; lia|].
          intros t0 Ht0. cbn in Ht0. unfold upd in *. cbn. unfold upd. destruct (Nat.eqb_spec t0 t) as [E2|E2].
          -- subst l'. cbn in Ht0. inversion Ht0. unfold r in *. lia.
          -- destruct (D t0 Ht0) as [D1 D2]. split; auto. destruct (Hx r0) as (_ & E3 & _); [unfold r; lia|]. rewrite E3. exact D2.
        * intros x Hc. destruct (k_cand0 x Hc) as (A & B & D). split; [apply Hun; [unfold r; lia|exact A]|]. split; [cbn; unfold r; lia|exact D].
        * intros x Hc. destruct (k_vic0 x Hc) as (A & B & D & F). split; [apply Hun; [unfold r; lia|exact A]|]. repeat split; auto; cbn; unfold r; lia.
        * intros v Hc. destruct (k_tgt0 v Hc) as [A|[A B]]; [left; exact A|]. right. split; [apply Hun; [unfold r; lia|exact A]|cbn; unfold r; lia].
  Qed.
  (** *** thread exit *)
  Lemma safe_exit_b R t r (k : V -> prog R) l Q :
    w_my l = Some r -> w_own l = OUnk -> w_hold l = false -> w_link l = false ->
    (forall v, safe t (k v) (set_my l None) Q) ->
    safe t (Act (@a_st C Rs P r FState st_removed) k) l Q.
  Proof.
    intros Hm Ho Hh Hlk K. cbn [Conc.safe]. intros g a tr Hi Hv. unfold view in Hv. unfold a_st; cbn [fst snd].
    pose proof Hi as [(Hl & HG & HK) HF]. pose proof (HK t) as K0. rewrite Hv in K0.
    assert (Hm0 : w_my (s_v a t) = Some r) by (rewrite Hv; exact Hm).
    own_fields g r FState st_removed. set (g' := upd_rec g r (set_fld (g_recs g r) FState st_removed)) in *.
    exists (setv a t (set_my l None)). split; [|split; [apply frame_setv|rewrite view_setv; apply K]].
    assert (Hxo : forall x, x <> r -> nxt g' x = nxt g x /\ stt g' x = stt g x /\ rq g' x = rq g x).
    { intros x Hne. fields_of Hf x. destruct (Nat.eqb_spec x r); [congruence|auto]. }
    assert (Hr : nxt g' r = nxt g r /\ stt g' r = st_removed /\ rq g' r = rq g r).
    { fields_of Hf r. rewrite Nat.eqb_refl. auto. }
    destruct Hr as (Hr1 & Hr2 & Hr3).
    refine (@own_step g g' a tr t l (set_my l None) r _ Hi Hv Hm (or_intror _) eq_refl eq_refl eq_refl eq_refl Hxo _ _ _ _ _ _ _ _ _ _ _).
    - reflexivity.
    - congruence.
    - apply quiet_acc; lv.
    - rewrite Hr2. unfold st_removed, st_inactive. discriminate.
    - rewrite Hr2. unfold st_removed, st_active. discriminate.
    - reflexivity.
    - rewrite Hr2. unfold st_removed. lia.
    - cbn. rewrite Ho. discriminate.
    - cbn. discriminate.
    - intros HG'. destruct K0.
      assert (Hun : forall x, unowned a x -> unowned (setv a t (set_my l None)) x).
      { intros x H v. cbn. unfold upd. destruct (Nat.eqb_spec v t) as [E|E]; [cbn; discriminate|apply H]. }
      split; cbn; try discriminate.
      + rewrite Hlk. discriminate.
      + intros q Hq. destruct (k_cur0 q Hq) as (A & _). congruence.
      + intros x Hx. destruct (k_pp0 x Hx) as (A & _). congruence.
      + intros r0 n Hn. destruct (k_nx0 r0 n Hn) as (A & _). congruence.
      + intros r0 Hd. destruct (k_deact0 r0 Hd) as (A & _). congruence.
      + intros x Hc. destruct (k_cand0 x Hc) as (A & B). split; [apply Hun; exact A|exact B].
      + intros x Hc. destruct (k_vic0 x Hc) as (A & B). split; [apply Hun; exact A|exact B].
      + intros v Hc. right. destruct (k_tgt0 v Hc) as [A|[A B]].
        * assert (v = r) by congruence. subst v. split; [|apply (k_my0 r Hm)].
          intros u. cbn. unfold upd. destruct (Nat.eqb_spec u t) as [E|E]; [cbn; discriminate|].
          intros Hu. apply E. apply (gl_inj HG u t Hu Hm0).
        * split; [apply Hun; exact A|exact B].
    - apply sameF_fld; discriminate.
    - kF.
  Qed.

  (** *** generic step of the lock holder *)
  Lemma holder_step0 g g' a tr t l l' pl' es :
    Inv0 g a tr -> s_v a t = l -> w_hold l = true -> w_my l' = w_my l -> w_own l' = w_own l -> w_hold l' = true ->
    g_nrec g' = g_nrec g -> (forall x, In x pl' -> In x (s_pl a)) ->
    (forall x, nxt g' x <> nxt g x -> In x (LL a) \/ unowned a x) ->
    (forall x, stt g' x <> stt g x -> forall v, w_my (s_v a v) = Some x -> w_own (s_v a v) = OUnk) ->
    (forall x, rq g' x <> rq g x -> rq g' x = req_Response \/ unowned a x) ->
    nolost es ->
    Glob g' (setv (setpl a pl') t l') ->
    Know g' (setv (setpl a pl') t l') l' ->
    Inv0 g' (setv (setpl a pl') t l') (tr ++ Conc.tag t es).
  Proof.
    intros (Hl & HG & HK) Hv Hh Em Eo Eh En Hsub Hnx Hst Hrq He HG' Hkt.
    apply Inv_intro0; [apply nolost_tag; assumption|exact HG'|].
    intros u. cbn. unfold upd. destruct (Nat.eqb_spec u t) as [E|E]; [exact Hkt|].
    refine (@Know_holder_step g g' a t pl' l' u HG HK E _ _ _ En Hsub Hnx Hst Hrq); rewrite Hv; assumption.
  Qed.

  Lemma holder_step g g' a tr t l l' pl' es :
    Inv g a tr -> s_v a t = l -> w_hold l = true -> w_my l' = w_my l -> w_own l' = w_own l -> w_hold l' = true ->
    g_nrec g' = g_nrec g -> (forall x, In x pl' -> In x (s_pl a)) ->
    (forall x, nxt g' x <> nxt g x -> In x (LL a) \/ unowned a x) ->
    (forall x, stt g' x <> stt g x -> forall v, w_my (s_v a v) = Some x -> w_own (s_v a v) = OUnk) ->
    (forall x, rq g' x <> rq g x -> rq g' x = req_Response \/ unowned a x) ->
    quiet es ->
    Glob g' (setv (setpl a pl') t l') ->
    Know g' (setv (setpl a pl') t l') l' ->
    sameF g g' -> KnowF g a l' ->
    Inv g' (setv (setpl a pl') t l') (tr ++ Conc.tag t es).
  Proof.
    intros [Hi0 HF] Hv Hh Em Eo Eh En Hsub Hnx Hst Hrq [He Hu] HG' Hkt HsF HkF.
    split; [eapply holder_step0; eauto|]. eapply F_frame; eauto. left. rewrite Hv. exact Em.
  Qed.
  (** operation_done by the combiner *)
  Definition done_if (l : sview) (q : nat) : sview :=
    match w_my l with Some r => if Nat.eqb r q then set_tgt (set_done l true) None else l | None => l end.

  Lemma done_if_same l q : w_my (done_if l q) = w_my l /\ w_own (done_if l q) = w_own l /\ w_hold (done_if l q) = w_hold l /\
    w_deact (done_if l q) = w_deact l /\ w_link (done_if l q) = w_link l /\ w_cur (done_if l q) = w_cur l /\
    (w_tgt (done_if l q) = w_tgt l \/ w_tgt (done_if l q) = None) /\ w_pp (done_if l q) = w_pp l /\ w_nx (done_if l q) = w_nx l /\
    w_cand (done_if l q) = w_cand l /\ w_vic (done_if l q) = w_vic l /\ w_mynx (done_if l q) = w_mynx l /\
    w_wait (done_if l q) = w_wait l.
  Proof. unfold done_if. destruct (w_my l) as [r|] eqn:E; [destruct (Nat.eqb r q)|]; cbn; rewrite ?E; repeat split; auto. Qed.

  Lemma safe_done_b R t q (k : V -> prog R) l Q :
    w_hold l = true -> Live l (Some q) ->
    (forall v, safe t (k v) (done_if l q) Q) ->
    safe t (Act (@a_st C Rs P q FReq req_Response) k) l Q.
  Proof.
    intros Hh Hlive K. cbn [Conc.safe]. intros g a tr Hi Hv. unfold view in Hv. unfold a_st; cbn [fst snd].
    pose proof Hi as [(Hl & HG & HK) HF]. pose proof (HK t) as K0. rewrite Hv in K0.
    own_fields g q FReq req_Response. set (g' := upd_rec g q (set_fld (g_recs g q) FReq req_Response)) in *.
    destruct (done_if_same l q) as (D1 & D2 & D3 & D4 & D5 & D6 & D7 & D8 & D9 & D10 & D11 & D12 & D13).
    exists (setv (setpl a (s_pl a)) t (done_if l q)).
    split; [|split; [eapply frame_trans; [apply frame_setpl|apply frame_setv]|unfold view; cbn; rewrite upd_same; apply K]].
    assert (Hx : forall x, nxt g' x = nxt g x /\ stt g' x = stt g x /\ (x <> q -> rq g' x = rq g x) /\ rq g' q = req_Response).
    { intros x. fields_of Hf x. fields_of Hf q. rewrite Nat.eqb_refl. destruct (Nat.eqb_spec x q); repeat split; auto; congruence. }
    assert (Hun : forall x, unowned a x <-> unowned (setv (setpl a (s_pl a)) t (done_if l q)) x).
    { intros x. unfold unowned; cbn. split; intros H v; specialize (H v); unfold upd in *;
        (destruct (Nat.eqb_spec v t) as [E|E]; [rewrite E in *|]); congruence. }
    eapply holder_step with (l := l); eauto; try congruence.
    - intros x Hne. exfalso. apply Hne. apply (Hx x).
    - intros x Hne. exfalso. apply Hne. apply (Hx x).
    - intros x Hne. left. destruct (Nat.eq_dec x q) as [->|Hq]; [apply (Hx q)|exfalso; apply Hne; apply (Hx x); exact Hq].
    - apply quiet_acc. exact (@live_sound g a tr t l (Some q) Hi Hv Hlive).
    - assert (HG1 : Glob g' a) by (apply Glob_same_lists with (g := g); auto; intros x; destruct (Hx x) as (A & B & _); auto).
      assert (HG2 : Glob g' (setv a t (done_if l q))) by (apply Glob_setv; auto; try congruence; intros r0 Hd _ _; congruence).
      destruct HG2. split; auto.
    - destruct K0. split; cbn [s_pl setv setpl]; rewrite ?D1, ?D2, ?D3, ?D4, ?D5, ?D6, ?D8, ?D9, ?D10, ?D11, ?D12, ?D13; auto.
      + intros Ho r0 H0. destruct (Hx r0) as (_ & B & _). rewrite B. auto.
      + intros p Hp Ho r0 H0. destruct (Hx r0) as (A & _). rewrite A. eauto.
      + intros Hw r0 H0. destruct (Nat.eq_dec r0 q) as [->|Hq]; [destruct (Hx q) as (_ & _ & _ & E); rewrite E; unfold req_Response, req_Empty; lia|].
        destruct (Hx r0) as (_ & _ & E & _). rewrite (E Hq). auto.
      + intros Hw r0 H0. destruct (Nat.eq_dec r0 q) as [->|Hq]; [apply (Hx q)|].
        destruct (Hx r0) as (_ & _ & E & _). rewrite (E Hq). apply k_done0; [|exact H0].
        unfold done_if in Hw. rewrite H0 in Hw. destruct (Nat.eqb_spec r0 q); [contradiction|exact Hw].
      + intros Hk. destruct (k_link0 Hk) as [A B]. split; auto. intros r0 H0. destruct (Hx r0) as (_ & E & _). rewrite E. auto.
      + intros q0 Hq0. destruct (k_cur0 q0 Hq0) as (A & B & D & F). repeat split; auto.
        intros v Hv'. destruct D7 as [E|E]; rewrite E in Hv'; [auto|discriminate].
      + intros r0 n Hn. destruct (k_nx0 r0 n Hn) as (A & B & D). destruct (Hx r0) as (E & _). rewrite E. auto.
      + intros r0 Hd. destruct (k_deact0 r0 Hd) as (A & B & B' & D). split; auto. split; auto. split; auto.
        intros t0 Ht0. cbn in Ht0. unfold upd in *. cbn. unfold upd. destruct (Hx r0) as (_ & E & _). rewrite E.
        destruct (Nat.eqb_spec t0 t) as [E2|E2]; [rewrite D2; rewrite <- Hv; apply D; rewrite Hv; congruence|apply D; exact Ht0].
      + intros x Hc. destruct (k_cand0 x Hc) as (A & B). split; [apply Hun; exact A|exact B].
      + intros x Hc. destruct (k_vic0 x Hc) as (A & B). split; [apply Hun; exact A|exact B].
      + intros v Hc. destruct D7 as [E|E]; rewrite E in Hc; [|discriminate]. destruct (k_tgt0 v Hc) as [A|[A B]]; [left; exact A|right; split; [apply Hun; exact A|exact B]].
    - apply sameF_fld; discriminate.
    - unfold done_if. destruct (w_my l); [destruct (Nat.eqb _ _)|]; kF.
  Qed.
  (** the requester reads its request word *)
  Lemma safe_ld_req_own_b R t r (k : V -> prog R) l Q :
    w_my l = Some r -> w_wait l = true ->
    safe t (k (vN req_Response)) (set_tgt (set_done l true) None) Q ->
    (forall v, v <> req_Response -> v <> req_Empty -> safe t (k (vN v)) l Q) ->
    safe t (Act (@a_ld C Rs P r FReq) k) l Q.
  Proof.
    intros Hm Hw K1 K2. cbn [Conc.safe]. intros g a tr Hi Hv. unfold view in Hv. unfold a_ld; cbn [fst snd get_fld].
    pose proof Hi as [(Hl & HG & HK) HF]. pose proof (HK t) as K0. rewrite Hv in K0. fold (rq g r).
    pose proof (k_wait K0 Hw Hm) as Hne.
    destruct (Nat.eq_dec (rq g r) req_Response) as [E|E].
    - rewrite E. exists (setv a t (set_tgt (set_done l true) None)). split; [|split; [apply frame_setv|rewrite view_setv; exact K1]].
      ivw. destruct K0. split; cbn; auto; try discriminate.
      + intros _ r0 H0. assert (r0 = r) by congruence. subst r0. exact E.
      + intros q0 Hq0. destruct (k_cur0 q0 Hq0) as (A & B & D & F). repeat split; auto. discriminate.
    - exists a. split; [apply Inv_trace; [exact Hi|apply quiet_acc; lv]|]. split; [apply frame_refl|]. unfold view. rewrite Hv. apply K2; assumption.
  Qed.

  (** publish reads m_pHead->pNext: it cannot point to the (unlinked) record being published *)
  Lemma safe_ld_head_next_pub_b R t r (k : V -> prog R) l Q :
    w_my l = Some r -> w_own l <> OUnk ->
    (forall v, v <> Datatypes.S r -> safe t (k (vN v)) l Q) ->
    safe t (Act (@a_ld C Rs P head FNext) k) l Q.
  Proof.
    intros Hm Ho K. cbn [Conc.safe]. intros g a tr Hi Hv. unfold view in Hv. unfold a_ld; cbn [fst snd get_fld].
    pose proof Hi as [(Hl & HG & HK) HF]. pose proof (HK t) as K0. rewrite Hv in K0. fold (nxt g head).
    exists a. split; [apply Inv_trace; [exact Hi|apply quiet_acc; lv]|]. split; [apply frame_refl|]. unfold view. rewrite Hv. apply K.
    assert (Hin : In head (LL a)) by (left; reflexivity). rewrite (gl_link HG Hin). unfold LL. cbn. destruct (s_pl a) as [|y pl] eqn:Epl; cbn; [discriminate|].
    intros E. inversion E; subst y. apply (k_unl K0 Ho Hm). rewrite Epl. left; reflexivity.
  Qed.

  (** m_Mutex.unlock() *)
  Lemma safe_unlock_b R t (k : V -> prog R) l Q :
    w_hold l = true -> w_link l = false -> w_cur l = None -> w_pp l = None -> w_nx l = None -> w_deact l = None ->
    (forall v, safe t (k v) (set_hold l false) Q) ->
    safe t (Act (@a_unlock C Rs P) k) l Q.
  Proof.
    intros Hh Hlk Hc Hp Hn Hd K. cbn [Conc.safe]. intros g a tr Hi Hv. pose proof Hi as [(Hl & HG & HK) HF]. unfold view in Hv. unfold a_unlock; cbn [fst snd].
    exists (setv a t (set_hold l false)). split; [|split; [apply frame_setv|rewrite view_setv; apply K]].
    assert (Hoth : forall u, u <> t -> w_hold (s_v a u) = false).
    { intros u Hne. destruct (w_hold (s_v a u)) eqn:E; auto. exfalso. apply Hne. apply (gl_uniq HG u t E). rewrite Hv. exact Hh. }
    split.
    2:{ eapply F_view; eauto; [repeat constructor|apply sameF_lock|left; subst l; reflexivity|kF]. }
    apply Inv_intro0; [apply nolost_tag; [exact Hl|repeat constructor]| |].
    - destruct HG. split; auto.
      + intros _ u. cbn. unfold upd. destruct (Nat.eqb_spec u t) as [E|E]; [reflexivity|apply Hoth; exact E].
      + intros u u' H1 H2. cbn in *. unfold upd in *.
        destruct (Nat.eqb_spec u t) as [E1|E1]; [cbn in H1; discriminate|]. rewrite (Hoth u E1) in H1. discriminate.
      + intros u u' r H1 H2. cbn in *. unfold upd in *. apply (gl_inj0 u u' r);
          [destruct (Nat.eqb_spec u t) as [E|E]|destruct (Nat.eqb_spec u' t) as [E|E]]; subst; auto.
      + intros r Hs. destruct (gl_act0 r Hs) as [A|[(u & A & B)|[(u & A)|A]]]; auto.
        * right. left. exists u. cbn. unfold upd. destruct (Nat.eqb_spec u t) as [E|E]; subst; auto.
        * right. right. left. exists u. cbn. unfold upd. destruct (Nat.eqb_spec u t) as [E|E]; subst; auto.
        * right. right. right. apply unowned_setv; [subst l; reflexivity|]. exact A.
      + intros r Hs. apply unowned_setv; [subst l; reflexivity|]. auto.
    - intros u. apply Know_setv; [subst l; reflexivity|subst l; reflexivity|]. apply Know_lock.
      cbn. unfold upd. destruct (Nat.eqb_spec u t) as [E|E]; [|apply HK].
      specialize (HK t). rewrite Hv in HK. destruct HK. split; cbn; auto.
      + rewrite Hlk. discriminate.
      + rewrite Hc. discriminate.
      + rewrite Hp. discriminate.
      + rewrite Hn. discriminate.
      + rewrite Hd. discriminate.
  Qed.
  (** *** walks along the publication list *)
  Definition tgt_of (v : nat) : option nat := match v with O => None | Datatypes.S y => Some y end.

  (** starting at m_pHead *)
  Lemma GhostOK_start t l tg :
    w_hold l = true -> w_pp l = None -> (forall v, tg = Some v -> w_my l = Some v) ->
    GhostOK t l (set_tgt (set_cur l (Some head)) tg).
  Proof.
    intros Hh Hp Htg. split; [|ghF]. unfold GhostOK0. split; [reflexivity|]. split; [reflexivity|]. split; [reflexivity|]. split; [auto|].
    intros g a HG HK Hv. pose proof (HK t) as K0. rewrite Hv in K0. destruct K0. split; cbn; auto.
    - intros q Hq. inversion Hq; subst q. split; [exact Hh|]. split; [left; reflexivity|]. split; [|rewrite Hp; intros F; exfalso; apply F; reflexivity].
      intros v Hv' Hin. unfold LL. cbn. right. exact Hin.
  Qed.

  (** reading pNext of the current record, nothing being looked for *)
  Lemma safe_ld_next_walk_b R t q (k : V -> prog R) l Q :
    w_cur l = Some q -> w_tgt l = None -> w_pp l = None ->
    (forall v, safe t (k (vN v)) (set_cur l (tgt_of v)) Q) ->
    safe t (Act (@a_ld C Rs P q FNext) k) l Q.
  Proof.
    intros Hc Ht Hp K. cbn [Conc.safe]. intros g a tr Hi Hv. unfold view in Hv. unfold a_ld; cbn [fst snd get_fld].
    pose proof Hi as [(Hl & HG & HK) HF]. pose proof (HK t) as K0. rewrite Hv in K0. fold (nxt g q).
    exists (setv a t (set_cur l (tgt_of (nxt g q)))). split; [|split; [apply frame_setv|rewrite view_setv; apply K]].
    destruct (k_cur K0 Hc) as (Hh & Hin & _).
    ivw.
    rewrite (gl_link HG Hin). destruct (succ_of (LL a) q) as [y'|] eqn:Es; cbn [ptr tgt_of].
    - apply succ_in in Es. remember (LL a) as L0. destruct K0. split; cbn; auto.
      intros y Hy. inversion Hy; subst y'.
      split; [exact Hh|]. split; [rewrite HeqL0 in Es; exact Es|]. split; [rewrite Ht; discriminate|rewrite Hp; intros F; exfalso; apply F; reflexivity].
    - remember (LL a) as L0. destruct K0. split; cbn; auto. discriminate.
  Qed.

  (** reading pNext of the current record while looking for the combiner's own (linked) record [r] *)
  Lemma safe_ld_next_seek_b R t q r (k : V -> prog R) l Q :
    w_cur l = Some q -> w_tgt l = Some r -> w_my l = Some r -> w_link l = true -> w_pp l = None -> q <> r ->
    (forall y, safe t (k (vN (Datatypes.S y))) (set_cur l (Some y)) Q) ->
    safe t (Act (@a_ld C Rs P q FNext) k) l Q.
  Proof.
    intros Hc Ht Hm Hlk Hp Hne K. cbn [Conc.safe]. intros g a tr Hi Hv. unfold view in Hv. unfold a_ld; cbn [fst snd get_fld].
    pose proof Hi as [(Hl & HG & HK) HF]. pose proof (HK t) as K0. rewrite Hv in K0. fold (nxt g q).
    destruct (k_cur K0 Hc) as (Hh & Hin & Hsf & _). destruct (k_link K0 Hlk) as [_ Hlr]. destruct (Hlr r Hm) as [Hrin _].
    specialize (Hsf r Ht Hrin).
    destruct (@sf_succ _ (gl_nodup HG) q r Hsf (not_eq_sym Hne)) as (y & Es & Hy).
    rewrite (gl_link HG Hin), Es. cbn [ptr].
    exists (setv a t (set_cur l (Some y))). split; [|split; [apply frame_setv|rewrite view_setv; apply K]].
    ivw.
    apply succ_in in Es. remember (LL a) as L0. destruct K0. split; cbn; auto.
    intros y' Hy'. inversion Hy'; subst y'. split; [exact Hh|]. split; [rewrite HeqL0 in Es; exact Es|].
    split; [|rewrite Hp; intros F; exfalso; apply F; reflexivity].
    intros v Hv' Hvin. rewrite Ht in Hv'. inversion Hv'; subst v. rewrite HeqL0 in Hy. exact Hy.
  Qed.

  (** is_published( victim ): reading pNext of the current record; the victim, if linked, is further on *)
  Lemma safe_ld_next_pub_b R t q vi (k : V -> prog R) l Q :
    w_cur l = Some q -> w_tgt l = Some vi -> w_cand l = Some vi -> w_pp l = None -> q <> vi ->
    safe t (k (vN 0)) (set_vic (set_tgt (set_cur l None) None) (Some vi)) Q ->
    (forall y, safe t (k (vN (Datatypes.S y))) (set_cur l (Some y)) Q) ->
    safe t (Act (@a_ld C Rs P q FNext) k) l Q.
  Proof.
    intros Hc Ht Hca Hp Hne K0' K1. cbn [Conc.safe]. intros g a tr Hi Hv. unfold view in Hv. unfold a_ld; cbn [fst snd get_fld].
    pose proof Hi as [(Hl & HG & HK) HF]. pose proof (HK t) as K0. rewrite Hv in K0. fold (nxt g q).
    destruct (k_cur K0 Hc) as (Hh & Hin & Hsf & _). specialize (Hsf vi Ht).
    rewrite (gl_link HG Hin). destruct (succ_of (LL a) q) as [y|] eqn:Es; cbn [ptr].
    - exists (setv a t (set_cur l (Some y))). split; [|split; [apply frame_setv|rewrite view_setv; apply K1]].
      ivw.
      assert (Hsf2 : In vi (s_pl a) -> In vi (suffix_from y (LL a))).
      { intros Hvin. destruct (@sf_succ _ (gl_nodup HG) q vi (Hsf Hvin) (not_eq_sym Hne)) as (y2 & Es2 & Hy2). congruence. }
      apply succ_in in Es. remember (LL a) as L0. destruct K0. split; cbn; auto.
      intros y' Hy'. inversion Hy'; subst y'. split; [exact Hh|]. split; [rewrite HeqL0 in Es; exact Es|].
      split; [|rewrite Hp; intros F; exfalso; apply F; reflexivity].
      intros v Hv' Hvin. rewrite Ht in Hv'. inversion Hv'; subst v. specialize (Hsf2 Hvin). rewrite HeqL0 in Hsf2. exact Hsf2.
    - exists (setv a t (set_vic (set_tgt (set_cur l None) None) (Some vi))).
      split; [|split; [apply frame_setv|rewrite view_setv; exact K0']].
      ivw.
      destruct (k_cand K0 Hca) as (Hu & Hlt & Hnh).
      assert (Hnv : ~ In vi (s_pl a)).
      { intros Hvin. apply Hne. symmetry. eapply sf_last; [apply Hsf; exact Hvin|exact Es]. }
      remember (LL a) as L0. destruct K0. split; cbn; auto; try discriminate.
      intros x Hx. inversion Hx; subst x. repeat split; auto.
  Qed.
  (** *** compact_list, loop 1 *)

  (** the combiner reads nState of its own linked record: it is active *)
  Lemma safe_ld_state_linked_b R t r (k : V -> prog R) l Q :
    w_my l = Some r -> w_link l = true ->
    safe t (k (vN st_active)) l Q -> safe t (Act (@a_ld C Rs P r FState) k) l Q.
  Proof.
    intros Hm Hlk K. cbn [Conc.safe]. intros g a tr Hi Hv. unfold view in Hv. unfold a_ld; cbn [fst snd get_fld].
    pose proof Hi as [(Hl & HG & HK) HF]. pose proof (HK t) as K0. rewrite Hv in K0. fold (stt g r).
    destruct (k_link K0 Hlk) as [_ B]. destruct (B r Hm) as [_ Ea]. rewrite Ea.
    exists a. split; [apply Inv_trace; [exact Hi|apply quiet_acc; lv]|]. split; [apply frame_refl|unfold view; rewrite Hv; exact K].
  Qed.

  (** pPrev = x; p = x->pNext.load() *)
  Lemma safe_ld_next_pp_b R t x (k : V -> prog R) l Q :
    w_hold l = true -> (x = head \/ w_cur l = Some x) -> w_tgt l = None ->
    (forall v, safe t (k (vN v)) (set_link (set_nx (set_cur (set_pp l (Some x)) (tgt_of v)) None) false) Q) ->
    safe t (Act (@a_ld C Rs P x FNext) k) l Q.
  Proof.
    intros Hh Hx Ht K. cbn [Conc.safe]. intros g a tr Hi Hv. unfold view in Hv. unfold a_ld; cbn [fst snd get_fld].
    pose proof Hi as [(Hl & HG & HK) HF]. pose proof (HK t) as K0. rewrite Hv in K0. fold (nxt g x).
    assert (Hin : In x (LL a)).
    { destruct Hx as [E|Hc]; [subst x; left; reflexivity|]. apply (k_cur K0 Hc). }
    exists (setv a t (set_link (set_nx (set_cur (set_pp l (Some x)) (tgt_of (nxt g x))) None) false)).
    split; [|split; [apply frame_setv|rewrite view_setv; apply K]].
    ivw.
    rewrite (gl_link HG Hin). destruct (succ_of (LL a) x) as [y|] eqn:Es; cbn [ptr tgt_of].
    - pose proof (@succ_not_first head (s_pl a) x y (gl_nodup HG) Es) as Hy. apply succ_in in Es.
      remember (LL a) as L0. destruct K0. split; cbn; auto; try discriminate.
      + intros y' Hy'. inversion Hy'; subst y'. split; [exact Hh|]. split; [rewrite HeqL0 in Es; exact Es|].
        split; [rewrite Ht; discriminate|intros _; exact Hy].
      + intros x' Hx'. inversion Hx'; subst x'. split; [exact Hh|rewrite HeqL0 in Hin; exact Hin].
    - remember (LL a) as L0. destruct K0. split; cbn; auto; try discriminate.
      intros x' Hx'. inversion Hx'; subst x'. split; [exact Hh|rewrite HeqL0 in Hin; exact Hin].
  Qed.

  (** pNext = p->pNext.load() before the unlink CAS *)
  Lemma safe_ld_next_nx_b R t r (k : V -> prog R) l Q :
    w_cur l = Some r -> w_pp l <> None ->
    (forall v, safe t (k (vN v)) (set_nx l (Some (r, v))) Q) ->
    safe t (Act (@a_ld C Rs P r FNext) k) l Q.
  Proof.
    intros Hc Hp K. cbn [Conc.safe]. intros g a tr Hi Hv. unfold view in Hv. unfold a_ld; cbn [fst snd get_fld].
    pose proof Hi as [(Hl & HG & HK) HF]. pose proof (HK t) as K0. rewrite Hv in K0. fold (nxt g r).
    destruct (k_cur K0 Hc) as (Hh & _ & _ & Hrin). specialize (Hrin Hp).
    exists (setv a t (set_nx l (Some (r, nxt g r)))). split; [|split; [apply frame_setv|rewrite view_setv; apply K]].
    ivw.
    destruct K0. split; cbn; auto. intros r0 n Hn. inversion Hn; subst r0 n. auto.
  Qed.
  (** the unlink CAS of compact_list: pPrev->pNext.compare_exchange( p, pNext ) *)
  Lemma safe_cas_unlink_b R t x r n (act : bool) (k : V -> prog R) l Q :
    w_pp l = Some x -> w_cur l = Some r -> w_nx l = Some (r, n) -> w_deact l = None -> w_tgt l = None -> w_own l = OUnk ->
    (act = false -> w_cand l = Some r) ->
    (forall v, v <> Datatypes.S r -> safe t (k (vN v)) (set_nx (set_cur l (tgt_of v)) None) Q) ->
    safe t (k (vN (Datatypes.S r)))
         (set_link (set_deact (set_nx (set_cur l (tgt_of n)) None) (if act then Some r else None)) false) Q ->
    safe t (Act (@a_cas C Rs P x FNext (Datatypes.S r) n) k) l Q.
  Proof.
    intros Hp Hc Hn Hd Ht Ho Hcand K1 K2. cbn [Conc.safe]. intros g a tr Hi Hv. unfold view in Hv. unfold a_cas.
    pose proof Hi as [(Hl & HG & HK) HF]. pose proof (HK t) as K0. rewrite Hv in K0.
    change (get_fld (g_recs g x) FNext) with (nxt g x).
    destruct (k_pp K0 Hp) as (Hh & Hxin).
    assert (Hpn : w_pp l <> None) by (rewrite Hp; discriminate).
    destruct (k_cur K0 Hc) as (_ & _ & _ & Hrin). specialize (Hrin Hpn).
    destruct (k_nx K0 Hn) as (_ & _ & Hnr).
    pose proof (gl_nodup HG) as Hnd.
    destruct (Nat.eqb_spec (nxt g x) (Datatypes.S r)) as [Ex|Ex]; cbn [fst snd].
    2:{ (* the CAS failed: p takes the observed value *)
        exists (setv a t (set_nx (set_cur l (tgt_of (nxt g x))) None)).
        split; [|split; [apply frame_setv|rewrite view_setv; apply K1; exact Ex]].
        ivw.
        rewrite (gl_link HG Hxin). destruct (succ_of (LL a) x) as [y|] eqn:Es; cbn [ptr tgt_of].
        - pose proof (@succ_not_first head (s_pl a) x y Hnd Es) as Hy. apply succ_in in Es.
          remember (LL a) as L0. destruct K0. split; cbn; auto; try discriminate.
          intros y' Hy'. inversion Hy'; subst y'. split; [exact Hh|]. split; [rewrite HeqL0 in Es; exact Es|].
          split; [rewrite Ht; discriminate|intros _; exact Hy].
        - remember (LL a) as L0. destruct K0. split; cbn; auto; discriminate. }
    (* the CAS succeeded: r is unlinked *)
    rewrite Ex.
    assert (Esx : succ_of (LL a) x = Some r).
    { pose proof (gl_link HG Hxin) as E. rewrite Ex in E. change (Datatypes.S r) with (ptr (Some r)) in E. apply ptr_inj in E. congruence. }
    assert (Hxr : x <> r) by (intros E; apply (@succ_ne _ Hnd x r Esx); congruence).
    assert (Hhr : head <> r).
    { intros E. unfold LL in Hnd. apply NoDup_cons_iff in Hnd. destruct Hnd as [A _]. apply A. rewrite E. exact Hrin. }
    assert (Hrl : In r (LL a)) by (right; exact Hrin).
    pose proof (gl_link HG Hrl) as Enr. rewrite Hnr in Enr.
    own_fields g x FNext n. set (g' := upd_rec g x (set_fld (g_recs g x) FNext n)) in *.
    assert (Hx : forall q, stt g' q = stt g q /\ rq g' q = rq g q /\ (q <> x -> nxt g' q = nxt g q) /\ nxt g' x = n).
    { intros q. fields_of Hf q. fields_of Hf x. rewrite Nat.eqb_refl. destruct (Nat.eqb_spec q x); repeat split; auto; congruence. }
    set (pl' := del r (s_pl a)).
    set (l' := set_link (set_deact (set_nx (set_cur l (tgt_of n)) None) (if act then Some r else None)) false).
    assert (HL' : head :: pl' = del r (LL a)) by (unfold LL, pl'; rewrite del_LL by exact Hhr; reflexivity).
    exists (setv (setpl a pl') t l').
    split; [|split; [eapply frame_trans; [apply frame_setpl|apply frame_setv]|unfold view; cbn; rewrite upd_same; exact K2]].
    assert (Hun : forall y, unowned a y <-> unowned (setv (setpl a pl') t l') y).
    { intros y. unfold unowned; cbn. split; intros H v; specialize (H v); unfold upd in *;
        (destruct (Nat.eqb_spec v t) as [E|E]; [rewrite E in *|]); subst l'; cbn in *; congruence. }
    assert (Hown : forall t0, w_my (s_v a t0) = Some r -> w_own (s_v a t0) = OUnk /\ stt g r = st_active).
    { intros t0 Ht0. split.
      - destruct (w_own (s_v a t0)) eqn:E; auto; exfalso; apply (k_unl (HK t0)) with (r := r); auto; rewrite E; discriminate.
      - destruct (gl_pl HG _ Hrin) as [_ Hni]. pose proof (gl_st HG r) as H2.
        destruct (Nat.eq_dec (stt g r) st_removed) as [E|E]; [exfalso; apply (gl_rem HG E t0); exact Ht0|].
        unfold st_active, st_inactive, st_removed in *. lia. }
    refine (@holder_step g g' a tr t l l' pl' _ Hi Hv Hh _ _ _ eq_refl _ _ _ _ _ _ _ _ _).
    - subst l'. reflexivity.
    - subst l'. reflexivity.
    - subst l'. cbn. exact Hh.
    - intros y Hy. apply in_del in Hy. apply Hy.
    - intros q Hne. left. destruct (Nat.eq_dec q x) as [->|Hq]; [exact Hxin|]. exfalso. apply Hne. apply (Hx q). exact Hq.
    - intros q Hne. exfalso. apply Hne. apply (Hx q).
    - intros q Hne. exfalso. apply Hne. apply (Hx q).
    - apply quiet_acc; lv.
    - (* Glob *)
      destruct HG. split; unfold LL; cbn [s_pl setv setpl].
      + intros Hfr u. cbn. unfold upd. destruct (Nat.eqb_spec u t) as [E|E]; [exfalso; pose proof (gl_free0 Hfr t) as F; rewrite Hv in F; congruence|auto].
      + intros u u' H1 H2. cbn in *. unfold upd in *. apply gl_uniq0;
          [destruct (Nat.eqb_spec u t) as [E|E]|destruct (Nat.eqb_spec u' t) as [E|E]]; subst; subst l'; cbn in *; congruence.
      + intros u u' r0 H1 H2. cbn in *. unfold upd in *. apply (gl_inj0 u u' r0);
          [destruct (Nat.eqb_spec u t) as [E|E]|destruct (Nat.eqb_spec u' t) as [E|E]]; subst; subst l'; cbn in *; congruence.
      + intros q Hq. rewrite HL' in Hq |- *. apply in_del in Hq. destruct Hq as [Hq Hqr].
        rewrite (succ_del Hnd Hqr). destruct (Nat.eq_dec q x) as [->|Hqx].
        * rewrite Esx, Nat.eqb_refl. destruct (Hx x) as (_ & _ & _ & E). rewrite E. exact Enr.
        * destruct (Hx q) as (_ & _ & E & _). rewrite (E Hqx), (gl_link0 q Hq).
          destruct (succ_of (LL a) q) as [y|] eqn:Es; [|reflexivity].
          destruct (Nat.eqb_spec y r) as [E2|E2]; [|reflexivity]. exfalso. apply Hqx. subst y. eapply (@succ_inj _ Hnd); eauto.
      + rewrite HL'. apply NoDup_del. exact gl_nodup0.
      + intros y Hy. apply in_del in Hy. destruct Hy as [Hy _]. destruct (Hx y) as (E & _). rewrite E. apply gl_pl0. exact Hy.
      + intros y Hs. destruct (Hx y) as (E & _). rewrite E in Hs.
        destruct (Nat.eq_dec y r) as [->|Hyr].
        * destruct act.
          -- right. right. left. exists t. cbn. rewrite upd_same. subst l'. reflexivity.
          -- right. right. right. apply Hun. apply (k_cand K0 (Hcand eq_refl)).
        * destruct (gl_act0 y Hs) as [A|[(u & A & B)|[(u & A)|A]]].
          -- left. apply in_del. auto.
          -- right. left. exists u. cbn. unfold upd. destruct (Nat.eqb_spec u t) as [E1|E1]; [|auto].
             subst u. subst l'. cbn. rewrite <- Hv. auto.
          -- right. right. left. exists u. cbn. unfold upd. destruct (Nat.eqb_spec u t) as [E1|E1]; [|exact A].
             subst u. rewrite Hv in A. congruence.
          -- right. right. right. apply Hun. exact A.
      + intros y Hs. apply Hun. apply gl_rem0. destruct (Hx y) as (E & _). rewrite <- E. exact Hs.
      + intros y Hle. destruct (Hx y) as (E & _). rewrite E. apply gl_fresh0. exact Hle.
      + destruct (Hx head) as (E & _). rewrite E. exact gl_head0.
      + intros y. destruct (Hx y) as (E & _). rewrite E. apply gl_st0.
    - (* Know of the combiner *)
      assert (Hcur : forall y, tgt_of n = Some y -> In y (head :: pl') /\ In y pl').
      { intros y Hy. rewrite Enr in Hy. destruct (succ_of (LL a) r) as [y'|] eqn:Es; cbn in Hy; [|discriminate].
        inversion Hy; subst y'. pose proof (@succ_not_first head (s_pl a) r y Hnd Es) as Hyp.
        assert (y <> r) by (apply (@succ_ne _ Hnd r y Es)).
        split; [right|]; apply in_del; auto. }
      destruct K0. subst l'. split; cbn [s_pl setv setpl LL]; cbn.
      + exact k_my0.
      + rewrite Ho. intros F. exfalso. apply F. reflexivity.
      + rewrite Ho. discriminate.
      + rewrite Ho. intros p _ F. exfalso. apply F. reflexivity.
      + intros Hw r0 H0. destruct (Hx r0) as (_ & E & _). rewrite E. auto.
      + intros Hw r0 H0. destruct (Hx r0) as (_ & E & _). rewrite E. auto.
      + discriminate.
      + intros y Hy. destruct (Hcur y Hy) as [A B]. split; [exact Hh|]. split; [exact A|]. split; [rewrite Ht; discriminate|intros _; exact B].
      + intros x' Hx'. rewrite Hp in Hx'. inversion Hx'; subst x'. split; [exact Hh|].
        destruct Hxin as [E|Hin]; [left; exact E|right; apply in_del; auto].
      + discriminate.
      + intros r0 Hr0. destruct act; [|discriminate]. inversion Hr0; subst r0.
        split; [exact Hh|]. split; [intros Hin; apply in_del in Hin; apply (proj2 Hin); reflexivity|].
        split; [apply (gl_pl HG _ Hrin)|].
        intros t0 Ht0. cbn in Ht0. unfold upd in *. cbn. unfold upd. destruct (Hx r) as (E & _). rewrite E.
        destruct (Nat.eqb_spec t0 t) as [E2|E2].
        * cbn. rewrite Ho. split; [reflexivity|]. apply (Hown t). rewrite Hv. exact Ht0.
        * apply Hown. exact Ht0.
      + intros y Hy. destruct (k_cand0 y Hy) as (A & B). split; [apply Hun; exact A|exact B].
      + intros y Hy. destruct (k_vic0 y Hy) as (A & B & D & F). split; [apply Hun; exact A|]. repeat split; auto.
        intros Hin. apply in_del in Hin. apply F. apply Hin.
      + rewrite Ht. discriminate.
    - apply sameF_fld; discriminate.
    - pose proof (proj2 (proj2 HF) t) as F0. rewrite Hv in F0. destruct F0. subst l'. split; cbn; auto.
      intros _ r0 Hr0. destruct act; [|discriminate]. inversion Hr0; subst r0. apply (gf_pll (proj1 (proj2 HF))). exact Hrl.
  Qed.
  (** p->nState.store( inactive ) after the unlink *)
  Lemma safe_st_inactive_b R t r (k : V -> prog R) l Q :
    w_deact l = Some r -> w_hold l = true -> w_link l = false ->
    (forall v, safe t (k v) (set_deact l None) Q) ->
    safe t (Act (@a_st C Rs P r FState st_inactive) k) l Q.
  Proof.
    intros Hd Hh Hlk K. cbn [Conc.safe]. intros g a tr Hi Hv. unfold view in Hv. unfold a_st; cbn [fst snd].
    pose proof Hi as [(Hl & HG & HK) HF]. pose proof (HK t) as K0. rewrite Hv in K0.
    destruct (k_deact K0 Hd) as (_ & Hnin & Hlt & Hown).
    own_fields g r FState st_inactive. set (g' := upd_rec g r (set_fld (g_recs g r) FState st_inactive)) in *.
    assert (Hx : forall q, nxt g' q = nxt g q /\ rq g' q = rq g q /\ (q <> r -> stt g' q = stt g q) /\ stt g' r = st_inactive).
    { intros q. fields_of Hf q. fields_of Hf r. rewrite Nat.eqb_refl. destruct (Nat.eqb_spec q r); repeat split; auto; congruence. }
    set (l' := set_deact l None).
    exists (setv (setpl a (s_pl a)) t l').
    split; [|split; [eapply frame_trans; [apply frame_setpl|apply frame_setv]|unfold view; cbn; rewrite upd_same; apply K]].
    assert (Hun : forall y, unowned a y <-> unowned (setv (setpl a (s_pl a)) t l') y).
    { intros y. unfold unowned; cbn. split; intros H v; specialize (H v); unfold upd in *;
        (destruct (Nat.eqb_spec v t) as [E|E]; [rewrite E in *|]); subst l'; cbn in *; congruence. }
    refine (@holder_step g g' a tr t l l' (s_pl a) _ Hi Hv Hh _ _ _ eq_refl _ _ _ _ _ _ _ _ _).
    - reflexivity.
    - reflexivity.
    - exact Hh.
    - auto.
    - intros q Hne. exfalso. apply Hne. apply (Hx q).
    - intros q Hne v Hv0. destruct (Nat.eq_dec q r) as [E|E]; [subst q; apply (Hown v Hv0)|exfalso; apply Hne; apply (Hx q); exact E].
    - intros q Hne. exfalso. apply Hne. apply (Hx q).
    - apply quiet_acc; lv.
    - destruct HG. split; unfold LL; cbn [s_pl setv setpl].
      + intros Hfr u. cbn. unfold upd. destruct (Nat.eqb_spec u t) as [E|E]; [exfalso; pose proof (gl_free0 Hfr t) as F; rewrite Hv in F; congruence|auto].
      + intros u u' H1 H2. cbn in *. unfold upd in *. apply gl_uniq0;
          [destruct (Nat.eqb_spec u t) as [E|E]|destruct (Nat.eqb_spec u' t) as [E|E]]; subst; subst l'; cbn in *; congruence.
      + intros u u' r0 H1 H2. cbn in *. unfold upd in *. apply (gl_inj0 u u' r0);
          [destruct (Nat.eqb_spec u t) as [E|E]|destruct (Nat.eqb_spec u' t) as [E|E]]; subst; subst l'; cbn in *; congruence.
      + intros q Hq. destruct (Hx q) as (E & _). rewrite E. apply gl_link0. exact Hq.
      + exact gl_nodup0.
      + intros y Hy. destruct (gl_pl0 y Hy) as [A B]. split; [exact A|]. destruct (Hx y) as (_ & _ & E & _). rewrite E; [exact B|]. intros ->. contradiction.
      + intros y Hs. destruct (Nat.eq_dec y r) as [->|Hyr]; [destruct (Hx r) as (_ & _ & _ & E); rewrite E in Hs; discriminate|].
        destruct (Hx y) as (_ & _ & E & _). rewrite (E Hyr) in Hs.
        destruct (gl_act0 y Hs) as [A|[(u & A & B)|[(u & A)|A]]].
        * left. exact A.
        * right. left. exists u. cbn. unfold upd. destruct (Nat.eqb_spec u t) as [E1|E1]; [|auto]. subst u. subst l'. cbn. rewrite <- Hv. auto.
        * right. right. left. exists u. cbn. unfold upd. destruct (Nat.eqb_spec u t) as [E1|E1]; [|exact A].
          subst u. rewrite Hv in A. congruence.
        * right. right. right. apply Hun. exact A.
      + intros y Hs. apply Hun. apply gl_rem0. destruct (Nat.eq_dec y r) as [->|Hyr]; [destruct (Hx r) as (_ & _ & _ & E); rewrite E in Hs; discriminate|].
        destruct (Hx y) as (_ & _ & E & _). rewrite <- (E Hyr). exact Hs.
      + intros y Hle. destruct (Hx y) as (_ & _ & E & _). rewrite E; [apply gl_fresh0; exact Hle|]. intros E2. subst y. unfold g' in Hle. cbn in Hle. lia.
      + destruct gl_head0 as [A B]. split; [|exact B]. destruct (Nat.eq_dec head r) as [E0|E0].
        * rewrite E0. destruct (Hx r) as (_ & _ & _ & E). rewrite E. unfold st_inactive, st_removed. discriminate.
        * destruct (Hx head) as (_ & _ & E & _). rewrite (E E0). exact A.
      + intros y. destruct (Nat.eq_dec y r) as [->|Hyr]; [destruct (Hx r) as (_ & _ & _ & E); rewrite E; unfold st_inactive; lia|].
        destruct (Hx y) as (_ & _ & E & _). rewrite (E Hyr). apply gl_st0.
    - destruct K0. subst l'. split; cbn [s_pl setv setpl LL]; cbn; auto.
      + intros Ho r0 H0. destruct (Nat.eq_dec r0 r) as [->|Hne].
        * exfalso. destruct (Hown t) as [D1 _]; [rewrite Hv; exact H0|]. rewrite Hv in D1. congruence.
        * destruct (Hx r0) as (_ & _ & E & _). rewrite (E Hne). auto.
      + intros p Hp Ho r0 H0. destruct (Hx r0) as (E & _). rewrite E. eauto.
      + intros Hw r0 H0. destruct (Hx r0) as (_ & E & _). rewrite E. auto.
      + intros Hw r0 H0. destruct (Hx r0) as (_ & E & _). rewrite E. auto.
      + rewrite Hlk. discriminate.
      + intros r0 n Hn. destruct (k_nx0 r0 n Hn) as (A & B & D). destruct (Hx r0) as (E & _). rewrite E. auto.
      + discriminate.
      + intros y Hy. destruct (k_cand0 y Hy) as (A & B). split; [apply Hun; exact A|exact B].
      + intros y Hy. destruct (k_vic0 y Hy) as (A & B). split; [apply Hun; exact A|exact B].
      + intros v Hc. destruct (k_tgt0 v Hc) as [A|[A B]]; [left; exact A|right; split; [apply Hun; exact A|exact B]].
    - apply sameF_fld; discriminate.
    - subst l'. kF.
  Qed.
  (** reading nState = removed: the record has no owner any more *)
  Lemma safe_ld_state_cand_b R t r (k : V -> prog R) l Q : Live l (Some r) ->
    (forall v, v <> st_removed -> safe t (k (vN v)) l Q) ->
    safe t (k (vN st_removed)) (set_cand l (Some r)) Q ->
    safe t (Act (@a_ld C Rs P r FState) k) l Q.
  Proof.
    intros Hlive K1 K2. cbn [Conc.safe]. intros g a tr Hi Hv. unfold view in Hv. unfold a_ld; cbn [fst snd get_fld].
    pose proof Hi as [(Hl & HG & HK) HF]. pose proof (HK t) as K0. rewrite Hv in K0. fold (stt g r).
    destruct (Nat.eq_dec (stt g r) st_removed) as [E|E].
    - rewrite E. exists (setv a t (set_cand l (Some r))). split; [|split; [apply frame_setv|rewrite view_setv; exact K2]].
      ivw. destruct K0. split; cbn; auto.
      intros x Hx. inversion Hx; subst x. split; [apply (gl_rem HG E)|]. split.
      + destruct (le_lt_dec (g_nrec g) r) as [Hle|Hlt]; [|exact Hlt]. exfalso. apply (gl_fresh HG Hle). exact E.
      + intros E2. subst r. apply (proj1 (gl_head HG)). exact E.
    - exists a. split; [apply Inv_trace; [exact Hi|apply quiet_acc; lv]|]. split; [apply frame_refl|unfold view; rewrite Hv; apply K1; exact E].
  Qed.

  (** is_published( victim ) starts: p = m_pHead->pNext.load() *)
  Lemma safe_ld_head_pub_b R t vi (k : V -> prog R) l Q :
    w_hold l = true -> w_cand l = Some vi -> w_pp l = None ->
    safe t (k (vN 0)) (set_vic (set_tgt (set_cur l None) None) (Some vi)) Q ->
    (forall y, safe t (k (vN (Datatypes.S y))) (set_tgt (set_cur l (Some y)) (Some vi)) Q) ->
    safe t (Act (@a_ld C Rs P head FNext) k) l Q.
  Proof.
    intros Hh Hca Hp K0' K1. cbn [Conc.safe]. intros g a tr Hi Hv. unfold view in Hv. unfold a_ld; cbn [fst snd get_fld].
    pose proof Hi as [(Hl & HG & HK) HF]. pose proof (HK t) as K0. rewrite Hv in K0. fold (nxt g head).
    assert (Hin : In head (LL a)) by (left; reflexivity).
    destruct (k_cand K0 Hca) as (Hu & Hlt & Hnh).
    rewrite (gl_link HG Hin). unfold LL at 1. cbn [succ_of]. rewrite Nat.eqb_refl.
    destruct (s_pl a) as [|y pl] eqn:Epl; cbn [hd_error ptr].
    - exists (setv a t (set_vic (set_tgt (set_cur l None) None) (Some vi))).
      split; [|split; [apply frame_setv|rewrite view_setv; exact K0']].
      ivw.
      destruct K0. split; cbn; auto; try discriminate.
      intros x Hx. inversion Hx; subst x. rewrite ?Epl. repeat split; auto.
    - exists (setv a t (set_tgt (set_cur l (Some y)) (Some vi))).
      split; [|split; [apply frame_setv|rewrite view_setv; apply K1]].
      ivw.
      destruct K0. split; cbn; auto.
      + intros y' Hy'. inversion Hy'; subst y'. split; [exact Hh|]. rewrite ?Epl. split; [right; left; reflexivity|].
        split; [|rewrite Hp; intros F; exfalso; apply F; reflexivity].
        intros v Hv' Hvin. unfold LL. rewrite ?Epl. cbn. destruct (Nat.eqb_spec y head) as [E|E].
        * right. exact Hvin.
        * rewrite Nat.eqb_refl. exact Hvin.
      + intros v Hv'. inversion Hv'; subst v. right. split; assumption.
  Qed.
  (** loop 2: unlink from the allocated list and free; the victim is unowned and not in the publication list *)
  Lemma Glob_setal g a al : Glob g a -> Glob g (setal a al).
  Proof. intros H. destruct H. split; assumption. Qed.
  Lemma Know_setal g a al l : Know g a l -> Know g (setal a al) l.
  Proof. intros H. destruct H. split; assumption. Qed.
  Lemma Inv0_setal g a al tr : Inv0 g a tr -> Inv0 g (setal a al) tr.
  Proof. intros (Hl & HG & HK). split; [exact Hl|]. split; [apply Glob_setal; exact HG|]. intros u. apply Know_setal. apply HK. Qed.

  Lemma tgt_ptr o : tgt_of (ptr o) = o.
  Proof. destruct o; reflexivity. Qed.

  Lemma safe_cas_free_b R t pp d vi (k : V -> prog R) l Q :
    w_hold l = true -> w_vic l = Some vi -> w_app l = Some pp -> w_acur l = Some vi -> w_anx l = Some (vi, d) -> w_deact l = None ->
    (forall v, v <> Datatypes.S vi -> safe t (k (vN v)) (set_anx (set_acur l (tgt_of v)) None) Q) ->
    safe t (k (vN (Datatypes.S vi))) (set_vis (set_anx (set_acur (set_vic (set_cand l None) None) (tgt_of d)) None) []) Q ->
    safe t (Act (@a_cas_free C Rs rs0 P pp (Datatypes.S vi) d vi) k) l Q.
  Proof.
    intros Hh Hvi Hpp Hcu Hnx Hde K1 K2. cbn [Conc.safe]. intros g a tr Hi Hv. unfold view in Hv. unfold a_cas_free.
    pose proof Hi as [(Hl & HG & HK) HF]. pose proof (HK t) as K0. rewrite Hv in K0.
    pose proof HF as (Hu0 & HGF & HKF). pose proof (HKF t) as F0. rewrite Hv in F0.
    pose proof (kf_pp F0 Hh Hpp) as Hppin. pose proof (kf_cur F0 Hh Hcu) as Hviin. destruct (kf_nx F0 Hh Hnx) as [_ Hnd].
    pose proof (gf_nodup HGF) as Hnodup.
    change (get_fld (g_recs g pp) FNextA) with (nxa g pp).
    assert (Hfpp : frd g pp = false) by (apply (gf_al HGF Hppin)).
    destruct (Nat.eqb_spec (nxa g pp) (Datatypes.S vi)) as [Ee|Ee]; cbn [fst snd].
    2:{ exists (setv a t (set_anx (set_acur l (tgt_of (nxa g pp))) None)).
        split; [|split; [apply frame_setv|rewrite view_setv; apply K1; exact Ee]].
        eapply Inv_view; eauto; [destruct K0; split; cbn; auto| |apply quiet_acc; exact Hfpp].
        destruct F0. split; cbn; auto; try (intros; discriminate).
        intros _ q Hq. rewrite (gf_link HGF Hppin), tgt_ptr in Hq. eapply succ_not_first; [exact Hnodup|exact Hq]. }
    rewrite Ee.
    assert (Esx : succ_of (AL a) pp = Some vi).
    { pose proof (gf_link HGF Hppin) as E. rewrite Ee in E. change (Datatypes.S vi) with (ptr (Some vi)) in E. apply ptr_inj in E. congruence. }
    assert (Hpv : pp <> vi) by (intros E; apply (@succ_ne _ Hnodup pp vi Esx); congruence).
    assert (Hhv : head <> vi).
    { intros E. unfold AL in Hnodup. apply NoDup_cons_iff in Hnodup. destruct Hnodup as [A _]. apply A. rewrite E. exact Hviin. }
    assert (Hvl : In vi (AL a)) by (right; exact Hviin).
    pose proof (gf_link HGF Hvl) as Env. rewrite Hnd in Env.
    destruct (k_vic K0 Hvi) as (Hu & Hlt & Hnh & Hnin).
    set (g' := upd_rec (upd_rec g pp (set_fld (g_recs g pp) FNextA d)) vi (rec_poison rs0)).
    assert (Hx : forall q, q <> vi -> nxt g' q = nxt g q /\ stt g' q = stt g q /\ rq g' q = rq g q).
    { intros q Hq. unfold g', nxt, stt, rq, upd_rec; cbn. destruct (Nat.eqb_spec q vi); [congruence|].
      destruct (Nat.eqb_spec q pp) as [E|E]; [rewrite E|]; auto. }
    assert (Hz : nxt g' vi = 0 /\ stt g' vi = 0 /\ rq g' vi = 0).
    { unfold g', nxt, stt, rq, upd_rec; cbn. rewrite Nat.eqb_refl. auto. }
    destruct Hz as (Z1 & Z2 & Z3).
    assert (HxF : forall q, q <> vi -> frd g' q = frd g q /\ (q <> pp -> nxa g' q = nxa g q)).
    { intros q Hq. unfold g', nxa, frd, upd_rec; cbn. destruct (Nat.eqb_spec q vi); [congruence|].
      destruct (Nat.eqb_spec q pp) as [E|E]; [rewrite E|]; split; auto; congruence. }
    assert (Hpd : nxa g' pp = d).
    { unfold g', nxa, upd_rec; cbn. destruct (Nat.eqb_spec pp vi); [congruence|]. rewrite Nat.eqb_refl. reflexivity. }
    assert (Hfv : frd g' vi = true) by (unfold g', frd, upd_rec; cbn; rewrite Nat.eqb_refl; reflexivity).
    set (l' := set_vis (set_anx (set_acur (set_vic (set_cand l None) None) (tgt_of d)) None) []).
    set (al' := del vi (s_al a)).
    assert (HL' : head :: al' = del vi (AL a)) by (unfold AL, al'; rewrite del_LL by exact Hhv; reflexivity).
    exists (setal (setv (setpl a (s_pl a)) t l') al').
    split; [|split; [eapply frame_trans; [eapply frame_trans; [apply frame_setpl|apply frame_setv]|apply frame_setal]|unfold view; cbn; rewrite upd_same; exact K2]].
    assert (Hun : forall y, unowned a y <-> unowned (setv (setpl a (s_pl a)) t l') y).
    { intros y. unfold unowned; cbn. split; intros H v; specialize (H v); unfold upd in *;
        (destruct (Nat.eqb_spec v t) as [E|E]; [rewrite E in *|]); subst l'; cbn in *; congruence. }
    assert (Hmy : forall u r0, w_my (s_v a u) = Some r0 -> r0 <> vi) by (intros u r0 H0 E; subst r0; apply (Hu u); exact H0).
    assert (He : nolost (acc g KCas pp FNextA true ++ [EvCli "free" []])).
    { unfold nolost. apply Forall_app. split; [apply nolost_acc|repeat constructor]. }
    assert (Hoth : forall u, u <> t -> w_hold (s_v a u) = false).
    { intros u Hne. destruct (w_hold (s_v a u)) eqn:E; auto. exfalso. apply Hne. apply (gl_uniq HG u t E). rewrite Hv. exact Hh. }
    split.
    2:{ split; [apply nouaf_tag; [exact Hu0|]|].
        { unfold nouaf. apply Forall_app. split; [apply nouaf_acc; exact Hfpp|repeat constructor]. }
        assert (Hmyx : forall u r0, w_my (s_v a u) = Some r0 -> w_anew (s_v a u) = true -> nxa g' r0 = nxa g r0).
        { intros u r0 H0 Hn. destruct (HxF r0 (Hmy u r0 H0)) as [_ E]. apply E. intros ->. apply (kf_new (HKF u) Hn H0). exact Hppin. }
        split.
        - destruct HGF. split; unfold AL, LL; cbn [s_al s_pl setv setpl setal]; fold al'.
          + intros q Hq. rewrite HL' in Hq |- *. apply in_del in Hq. destruct Hq as [Hq Hqv].
            rewrite (succ_del Hnodup Hqv). destruct (Nat.eq_dec q pp) as [->|Hqp].
            * rewrite Esx, Nat.eqb_refl, Hpd. exact Env.
            * destruct (HxF q Hqv) as [_ E]. rewrite (E Hqp), (gf_link0 q Hq).
              destruct (succ_of (AL a) q) as [y|] eqn:Es; [|reflexivity].
              destruct (Nat.eqb_spec y vi) as [E2|E2]; [|reflexivity]. exfalso. apply Hqp. subst y. eapply (@succ_inj _ Hnodup); eauto.
          + rewrite HL'. apply NoDup_del. exact Hnodup.
          + intros x Hx0. rewrite HL' in Hx0. apply in_del in Hx0. destruct Hx0 as [Hx0 Hxv].
            destruct (HxF x Hxv) as [E _]. rewrite E. apply gf_al0. exact Hx0.
          + intros x Hx0. assert (x <> vi) by (intros ->; destruct Hx0 as [E|E]; [congruence|contradiction]).
            destruct (HxF x H) as [E _]. rewrite E. apply gf_pll0. exact Hx0.
          + intros x Hf. destruct (Nat.eq_dec x vi) as [->|Hxv].
            * split; [apply Hun; exact Hu|exact Hlt].
            * destruct (HxF x Hxv) as [E _]. rewrite E in Hf. destruct (gf_freed0 x Hf) as [A B]. split; [apply Hun; exact A|exact B].
        - intros u. cbn [s_v setv setpl setal]. unfold upd. destruct (Nat.eqb_spec u t) as [E|E].
          + destruct F0. subst l'. split; unfold AL; cbn [s_al setv setpl setal]; fold al'; cbn.
            * intros Hn r0 H0 Hin. change (In r0 (head :: al')) in Hin. rewrite HL' in Hin. apply in_del in Hin. destruct Hin as [Hin _]. exact (kf_new0 Hn r0 H0 Hin).
            * intros p Hp Hn r0 H0. rewrite (Hmyx t r0); [eauto|rewrite Hv; exact H0|rewrite Hv; exact Hn].
            * intros _ q Hq. rewrite Env, tgt_ptr in Hq. apply in_del. split.
              -- eapply succ_not_first; [exact Hnodup|exact Hq].
              -- apply (@succ_ne _ Hnodup vi q Hq).
            * intros _ x Hx0. rewrite Hpp in Hx0. inversion Hx0; subst x. change (In pp (head :: al')). rewrite HL'. apply in_del. split; assumption.
            * intros; discriminate.
            * rewrite Hde. intros; discriminate.
            * intros _ q [].
          + pose proof (HKF u) as Fu. pose proof (Hoth u E) as Hhu. destruct Fu. split; unfold AL; cbn [s_al setv setpl setal]; fold al'; try (rewrite Hhu; intros; discriminate).
            * intros Hn r0 H0 Hin. change (In r0 (head :: al')) in Hin. rewrite HL' in Hin. apply in_del in Hin. destruct Hin as [Hin _]. exact (kf_new0 Hn r0 H0 Hin).
            * intros p Hp Hn r0 H0. rewrite (Hmyx u r0 H0 Hn). eauto. }
    apply Inv0_setal.
    refine (@holder_step0 g g' a tr t l l' (s_pl a) _ (proj1 Hi) Hv Hh _ _ _ eq_refl _ _ _ _ He _ _).
    - reflexivity.
    - reflexivity.
    - exact Hh.
    - auto.
    - intros q Hne. right. destruct (Nat.eq_dec q vi) as [E|E]; [subst q; exact Hu|exfalso; apply Hne; apply (Hx q E)].
    - intros q Hne v Hv0. destruct (Nat.eq_dec q vi) as [E|E]; [subst q; exfalso; apply (Hu v); exact Hv0|exfalso; apply Hne; apply (Hx q E)].
    - intros q Hne. right. destruct (Nat.eq_dec q vi) as [E|E]; [subst q; exact Hu|exfalso; apply Hne; apply (Hx q E)].
    - destruct HG. split; unfold LL; cbn [s_pl setv setpl].
      + intros Hfr u. cbn. unfold upd. destruct (Nat.eqb_spec u t) as [E|E]; [exfalso; pose proof (gl_free0 Hfr t) as F; rewrite Hv in F; congruence|auto].
      + intros u u' H1 H2. cbn in *. unfold upd in *. apply gl_uniq0;
          [destruct (Nat.eqb_spec u t) as [E|E]|destruct (Nat.eqb_spec u' t) as [E|E]]; subst; subst l'; cbn in *; congruence.
      + intros u u' r0 H1 H2. cbn in *. unfold upd in *. apply (gl_inj0 u u' r0);
          [destruct (Nat.eqb_spec u t) as [E|E]|destruct (Nat.eqb_spec u' t) as [E|E]]; subst; subst l'; cbn in *; congruence.
      + intros q Hq. destruct (Hx q) as (E & _); [intros ->; destruct Hq as [F|F]; [congruence|contradiction]|]. rewrite E. apply gl_link0. exact Hq.
      + exact gl_nodup0.
      + intros y Hy. destruct (Hx y) as (_ & E & _); [intros ->; contradiction|]. rewrite E. apply gl_pl0. exact Hy.
      + intros y Hs. destruct (Nat.eq_dec y vi) as [->|Hyv]; [rewrite Z2 in Hs; discriminate|].
        destruct (Hx y Hyv) as (_ & E & _). rewrite E in Hs.
        destruct (gl_act0 y Hs) as [A|[(u & A & B)|[(u & A)|A]]].
        * left. exact A.
        * right. left. exists u. cbn. unfold upd. destruct (Nat.eqb_spec u t) as [E1|E1]; [|auto]. subst u. subst l'. cbn. rewrite <- Hv. auto.
        * right. right. left. exists u. cbn. unfold upd. destruct (Nat.eqb_spec u t) as [E1|E1]; [|exact A].
          subst u. subst l'. cbn. rewrite <- Hv. exact A.
        * right. right. right. apply Hun. exact A.
      + intros y Hs. apply Hun. destruct (Nat.eq_dec y vi) as [->|Hyv]; [exact Hu|].
        apply gl_rem0. destruct (Hx y Hyv) as (_ & E & _). rewrite <- E. exact Hs.
      + intros y Hle. destruct (Hx y) as (_ & E & _); [intros ->; unfold g' in Hle; cbn in Hle; lia|]. rewrite E. apply gl_fresh0. exact Hle.
      + destruct gl_head0 as [A B]. split; [|exact B]. destruct (Hx head) as (_ & E & _); [auto|]. rewrite E. exact A.
      + intros y. destruct (Nat.eq_dec y vi) as [->|Hyv]; [rewrite Z2; lia|]. destruct (Hx y Hyv) as (_ & E & _). rewrite E. apply gl_st0.
    - destruct K0. subst l'. split; cbn [s_pl setv setpl LL]; cbn; auto; try discriminate.
      + intros Ho r0 H0. destruct (Hx r0) as (_ & E & _); [apply (Hmy t); rewrite Hv; exact H0|]. rewrite E. auto.
      + intros p Hp Ho r0 H0. destruct (Hx r0) as (E & _); [apply (Hmy t); rewrite Hv; exact H0|]. rewrite E. eauto.
      + intros Hw r0 H0. destruct (Hx r0) as (_ & _ & E); [apply (Hmy t); rewrite Hv; exact H0|]. rewrite E. auto.
      + intros Hw r0 H0. destruct (Hx r0) as (_ & _ & E); [apply (Hmy t); rewrite Hv; exact H0|]. rewrite E. auto.
      + intros Hk. destruct (k_link0 Hk) as [A B]. split; auto. intros r0 H0.
        destruct (Hx r0) as (_ & E & _); [apply (Hmy t); rewrite Hv; exact H0|]. rewrite E. auto.
      + intros r0 n Hn. destruct (k_nx0 r0 n Hn) as (A & B & D). destruct (Hx r0) as (E & _); [intros ->; contradiction|]. rewrite E. auto.
      + intros r0 Hd. destruct (k_deact0 r0 Hd) as (A & B & B' & D). split; auto. split; auto. split; auto.
        intros t0 Ht0. cbn in Ht0. unfold upd in *. cbn. unfold upd.
        assert (Hm0 : w_my (s_v a t0) = Some r0) by (destruct (Nat.eqb_spec t0 t) as [E2|E2]; [rewrite E2, Hv; exact Ht0|exact Ht0]).
        destruct (D t0 Hm0) as [D1 D2]. destruct (Hx r0) as (_ & E & _); [apply (Hmy t0); exact Hm0|]. rewrite E.
        destruct (Nat.eqb_spec t0 t) as [E2|E2]; [cbn; rewrite <- Hv, <- E2; auto|auto].
      + intros v Hc. destruct (k_tgt0 v Hc) as [A|[A B]]; [left; exact A|right; split; [apply Hun; exact A|exact B]].
  Qed.
  (** forgetting what was learnt under the lock is always sound *)
  Definition forget (l : sview) : sview :=
    set_vic (set_cand (set_nx (set_pp (set_tgt (set_cur (set_link l false) None) None) None) None) None) None.

  Lemma GhostOK_forget t l : GhostOK t l (forget l).
  Proof.
    split; [|unfold forget; ghF]. unfold GhostOK0, forget. split; [reflexivity|]. split; [reflexivity|]. split; [reflexivity|]. split; [auto|].
    intros g a HG HK Hv. pose proof (HK t) as K0. rewrite Hv in K0. destruct K0. split; cbn; auto; discriminate.
  Qed.

  (** *** the allocated list *)
  Lemma GhostOK0_F t l l' :
    w_my l' = w_my l -> w_own l' = w_own l -> w_hold l' = w_hold l -> w_deact l' = w_deact l ->
    (forall g a, Know g a l -> Know g a l') -> GhostOK0 t l l'.
  Proof.
    intros E1 E2 E3 E4 Hk. split; [exact E1|]. split; [exact E2|]. split; [exact E3|]. split; [intros r Hr; congruence|].
    intros g a _ HK Hv. apply Hk. rewrite <- Hv. apply HK.
  Qed.

  (** p = x->pNextAllocated.load() with pPrev = x *)
  Lemma safe_ld_nexta_pp_b R t x (k : V -> prog R) l Q :
    w_hold l = true -> (x = head \/ w_acur l = Some x) ->
    (forall v, safe t (k (vN v)) (set_anx (set_acur (set_app (forget l) (Some x)) (tgt_of v)) None) Q) ->
    safe t (Act (@a_ld C Rs P x FNextA) k) l Q.
  Proof.
    intros Hh Hx K. cbn [Conc.safe]. intros g a tr Hi Hv. unfold view in Hv. unfold a_ld; cbn [fst snd get_fld].
    pose proof Hi as [(Hl & HG & HK) HF]. pose proof (HK t) as K0. rewrite Hv in K0.
    pose proof HF as (Hu0 & HGF & HKF). pose proof (HKF t) as F0. rewrite Hv in F0.
    change (r_nexta (g_recs g x)) with (nxa g x).
    assert (Hin : In x (AL a)). { destruct Hx as [->|Hc]; [left; reflexivity|right; apply (kf_cur F0 Hh Hc)]. }
    exists (setv a t (set_anx (set_acur (set_app (forget l) (Some x)) (tgt_of (nxa g x))) None)).
    split; [|split; [apply frame_setv|rewrite view_setv; apply K]].
    eapply Inv_view; eauto; [destruct K0; split; cbn; auto; discriminate| |apply quiet_acc; apply (gf_al HGF Hin)].
    destruct F0. split; cbn; auto; try (intros; discriminate).
    - intros _ q Hq. rewrite (gf_link HGF Hin), tgt_ptr in Hq. eapply succ_not_first; [apply (gf_nodup HGF)|exact Hq].
    - intros _ y Hy. inversion Hy; subst y. exact Hin.
  Qed.

  (** pNext = p->pNextAllocated.load() before the freeing CAS *)
  Lemma safe_ld_nexta_nx_b R t r (k : V -> prog R) l Q :
    w_hold l = true -> w_acur l = Some r ->
    (forall v, safe t (k (vN v)) (set_anx l (Some (r, v))) Q) ->
    safe t (Act (@a_ld C Rs P r FNextA) k) l Q.
  Proof.
    intros Hh Hc K. cbn [Conc.safe]. intros g a tr Hi Hv. unfold view in Hv. unfold a_ld; cbn [fst snd get_fld].
    pose proof Hi as [(Hl & HG & HK) HF]. pose proof (HK t) as K0. rewrite Hv in K0.
    pose proof HF as (Hu0 & HGF & HKF). pose proof (HKF t) as F0. rewrite Hv in F0.
    change (r_nexta (g_recs g r)) with (nxa g r).
    pose proof (kf_cur F0 Hh Hc) as Hin.
    exists (setv a t (set_anx l (Some (r, nxa g r)))).
    split; [|split; [apply frame_setv|rewrite view_setv; apply K]].
    eapply Inv_view; eauto; [destruct K0; split; cbn; auto| |apply quiet_acc; apply (gf_al HGF); right; exact Hin].
    destruct F0. split; cbn; auto.
    intros _ r0 n Hn. inversion Hn; subst r0 n. split; [exact Hin|reflexivity].
  Qed.

  (** New record, not yet in the allocated list: pRec->pNextAllocated.store( p ) *)
  Lemma safe_st_nexta_b R t r p (k : V -> prog R) l Q :
    w_my l = Some r -> w_anew l = true ->
    (forall v, safe t (k v) (set_mynxa l (Some p)) Q) ->
    safe t (Act (@a_st C Rs P r FNextA p) k) l Q.
  Proof.
    intros Hm Hn K. cbn [Conc.safe]. intros g a tr Hi Hv. unfold view in Hv. unfold a_st; cbn [fst snd].
    pose proof Hi as [(Hl & HG & HK) HF]. pose proof (HK t) as K0. rewrite Hv in K0.
    pose proof HF as (Hu0 & HGF & HKF). pose proof (HKF t) as F0. rewrite Hv in F0.
    assert (Hm0 : w_my (s_v a t) = Some r) by (rewrite Hv; exact Hm).
    set (g' := upd_rec g r (set_fld (g_recs g r) FNextA p)).
    set (l' := set_mynxa l (Some p)).
    exists (setv a t l'). split; [|split; [apply frame_setv|rewrite view_setv; apply K]].
    assert (Hnin : ~ In r (AL a)) by (apply (kf_new F0 Hn Hm)).
    assert (Hfr : frd g r = false) by (eapply live_my; eauto).
    assert (HxF : forall x, frd g' x = frd g x /\ (x <> r -> nxa g' x = nxa g x)).
    { intros x. unfold g', nxa, frd, upd_rec; cbn. destruct (Nat.eqb_spec x r) as [E|E]; [rewrite E|]; split; auto; congruence. }
    assert (Hrp : nxa g' r = p) by (unfold g', nxa, upd_rec; cbn; rewrite Nat.eqb_refl; reflexivity).
    split.
    - eapply Inv_ghost0; eauto; [split; [exact Hl|split; [exact HG|exact HK]]|apply upd_fld_shape; right; reflexivity|apply nolost_acc|].
      apply GhostOK0_F; try reflexivity. intros g0 a0 H. destruct H. split; cbn; auto.
    - split; [apply nouaf_tag; [exact Hu0|apply nouaf_acc; exact Hfr]|]. split.
      + destruct HGF. split; unfold AL, LL in *; cbn [s_al s_pl setv].
        * intros q Hq. destruct (HxF q) as [_ E]. rewrite E; [auto|]. intros ->. contradiction.
        * auto.
        * intros x Hx0. destruct (HxF x) as [E _]. rewrite E. apply gf_al0. exact Hx0.
        * intros x Hx0. destruct (HxF x) as [E _]. rewrite E. auto.
        * intros x Hf. destruct (HxF x) as [E _]. rewrite E in Hf. destruct (gf_freed0 x Hf) as [A B]. split; [|exact B].
          apply unowned_setv; [subst l'; cbn; rewrite Hv; reflexivity|exact A].
      + intros u. cbn. unfold upd. destruct (Nat.eqb_spec u t) as [E|E].
        * destruct F0. subst l'. split; unfold AL in *; cbn; auto.
          -- intros p0 Hp _ r0 H0. inversion Hp; subst p0. assert (r0 = r) by congruence. subst r0. exact Hrp.
          -- intros Hh r0 n Hn0. destruct (kf_nx0 Hh r0 n Hn0) as [A B]. split; [exact A|]. destruct (HxF r0) as [_ E2]. rewrite E2; [exact B|].
             intros ->. apply Hnin. right. exact A.
          -- intros Hh r0 Hd. destruct (HxF r0) as [E2 _]. rewrite E2. eauto.
          -- intros Hh q Hq. destruct (HxF q) as [E2 _]. rewrite E2. eauto.
        * pose proof (HKF u) as Fu. destruct Fu. split; unfold AL in *; cbn; auto.
          -- intros p0 Hp Hn0 r0 H0. destruct (HxF r0) as [_ E2]. rewrite E2; [eauto|]. intros ->. apply E. eapply (gl_inj HG); eauto.
          -- intros Hh r0 n Hn0. destruct (kf_nx0 Hh r0 n Hn0) as [A B]. split; [exact A|]. destruct (HxF r0) as [_ E2]. rewrite E2; [exact B|].
             intros ->. apply Hnin. right. exact A.
          -- intros Hh r0 Hd. destruct (HxF r0) as [E2 _]. rewrite E2. eauto.
          -- intros Hh q Hq. destruct (HxF q) as [E2 _]. rewrite E2. eauto.
  Qed.

  (** m_pAllocatedHead->pNextAllocated.compare_exchange( p, pRec ): the new record enters the allocated list *)
  Lemma safe_cas_alink_b R t r p (k : V -> prog R) l Q :
    w_my l = Some r -> w_anew l = true -> w_mynxa l = Some p ->
    (forall v, v <> p -> safe t (k (vN v)) l Q) ->
    safe t (k (vN p)) (set_mynxa (set_anew l false) None) Q ->
    safe t (Act (@a_cas C Rs P head FNextA p (Datatypes.S r)) k) l Q.
  Proof.
    intros Hm Hn Hmx K1 K2. cbn [Conc.safe]. intros g a tr Hi Hv. unfold view in Hv. unfold a_cas.
    pose proof Hi as [(Hl & HG & HK) HF]. pose proof (HK t) as K0. rewrite Hv in K0.
    pose proof HF as (Hu0 & HGF & HKF). pose proof (HKF t) as F0. rewrite Hv in F0.
    assert (Hm0 : w_my (s_v a t) = Some r) by (rewrite Hv; exact Hm).
    change (get_fld (g_recs g head) FNextA) with (nxa g head).
    assert (Hfh : frd g head = false) by (apply (gf_pll HGF); left; reflexivity).
    destruct (Nat.eqb_spec (nxa g head) p) as [Ep|Ep]; cbn [fst snd].
    2:{ exists a. split; [apply Inv_trace; [exact Hi|apply quiet_acc; exact Hfh]|]. split; [apply frame_refl|].
        unfold view. rewrite Hv. apply K1. exact Ep. }
    rewrite Ep.
    set (g' := upd_rec g head (set_fld (g_recs g head) FNextA (Datatypes.S r))).
    set (l' := set_mynxa (set_anew l false) None).
    set (al' := r :: s_al a).
    exists (setal (setv a t l') al').
    split; [|split; [eapply frame_trans; [apply frame_setv|apply frame_setal]|unfold view; cbn; rewrite upd_same; exact K2]].
    destruct (k_my K0 Hm) as [Hr1 Hr2].
    assert (Hnin : ~ In r (AL a)) by (apply (kf_new F0 Hn Hm)).
    assert (Hnr : nxa g r = p) by (apply (kf_mynxa F0 Hmx Hn Hm)).
    assert (Hfr : frd g r = false) by (eapply live_my; eauto).
    assert (Hhr : head <> r) by (unfold head; lia).
    assert (HxF : forall x, frd g' x = frd g x /\ (x <> head -> nxa g' x = nxa g x)).
    { intros x. unfold g', nxa, frd, upd_rec; cbn. destruct (Nat.eqb_spec x head) as [E|E]; [rewrite E|]; split; auto; congruence. }
    assert (Hhp : nxa g' head = Datatypes.S r) by (unfold g', nxa, upd_rec; cbn; reflexivity).
    pose proof (gf_nodup HGF) as Hnd.
    assert (Hsal : forall x, In x (s_al a) -> x <> head /\ x <> r).
    { intros x Hin. split; [|intros ->; apply Hnin; right; exact Hin]. intros ->.
      unfold AL in Hnd. apply NoDup_cons_iff in Hnd. destruct Hnd as [A _]. contradiction. }
    split.
    - apply Inv0_setal. eapply Inv_ghost0; eauto; [split; [exact Hl|split; [exact HG|exact HK]]|apply upd_fld_shape; right; reflexivity|apply nolost_acc|].
      apply GhostOK0_F; try reflexivity. intros g0 a0 H. destruct H. split; cbn; auto.
    - split; [apply nouaf_tag; [exact Hu0|apply nouaf_acc; exact Hfh]|]. split.
      + destruct HGF. split; unfold AL, LL in *; cbn [s_al s_pl setv setal]; fold al'; unfold al'.
        * intros q Hq. rewrite succ_insert by (auto; intros Hin; apply Hnin; right; exact Hin).
          destruct (Nat.eqb_spec q head) as [->|Hqh]; [exact Hhp|].
          destruct (HxF q) as [_ E]. rewrite (E Hqh).
          destruct (Nat.eqb_spec q r) as [->|Hqr].
          -- rewrite Hnr, <- Ep. rewrite (gf_link0 head (or_introl eq_refl)). cbn. reflexivity.
          -- apply gf_link0. destruct Hq as [E1|[E1|Hin]]; [congruence|congruence|right; exact Hin].
        * apply NoDup_cons_iff in Hnd. destruct Hnd as [A B].
          constructor; [intros [E|Hin]; [congruence|contradiction]|]. constructor; [intros Hin; apply Hnin; right; exact Hin|exact B].
        * intros x Hx0. destruct (HxF x) as [E _]. rewrite E. destruct Hx0 as [E1|[E1|Hin]].
          -- apply gf_al0. left. exact E1.
          -- subst x. split; [exact Hr2|exact Hfr].
          -- apply gf_al0. right. exact Hin.
        * intros x Hx0. destruct (HxF x) as [E _]. rewrite E. auto.
        * intros x Hf. destruct (HxF x) as [E _]. rewrite E in Hf. destruct (gf_freed0 x Hf) as [A B]. split; [|exact B].
          intros u. cbn. unfold upd. destruct (Nat.eqb_spec u t) as [E1|E1]; [subst l'; cbn; rewrite <- Hv, <- E1; apply A|apply A].
      + intros u. cbn [s_v setv setal]. unfold upd. destruct (Nat.eqb_spec u t) as [E|E].
        * destruct F0. subst l'. split; unfold AL in *; cbn [s_al setv setal]; fold al'; unfold al'; cbn; auto; try (intros; discriminate).
          -- intros Hh x Hx0. destruct (kf_pp0 Hh x Hx0) as [E1|E1]; auto.
          -- intros Hh r0 n Hn0. destruct (kf_nx0 Hh r0 n Hn0) as [A B]. split; [right; exact A|]. destruct (HxF r0) as [_ E2]. rewrite E2; [exact B|apply (Hsal r0 A)].
          -- intros Hh r0 Hd. destruct (HxF r0) as [E2 _]. rewrite E2. eauto.
          -- intros Hh q Hq. destruct (HxF q) as [E2 _]. rewrite E2. eauto.
        * pose proof (HKF u) as Fu. pose proof (HK u) as Ku. destruct Fu. split; unfold AL in *; cbn [s_al setv setal]; fold al'; unfold al'; cbn; auto.
          -- intros Hn0 r0 H0 [E1|[E1|Hin]].
             ++ apply (kf_new0 Hn0 r0 H0). left. exact E1.
             ++ apply E. subst r0. eapply (gl_inj HG); eauto.
             ++ apply (kf_new0 Hn0 r0 H0). right. exact Hin.
          -- intros p0 Hp Hn0 r0 H0. destruct (HxF r0) as [_ E2]. rewrite E2; [eauto|]. destruct (k_my Ku H0). unfold head. lia.
          -- intros Hh x Hx0. destruct (kf_pp0 Hh x Hx0) as [E1|E1]; auto.
          -- intros Hh r0 n Hn0. destruct (kf_nx0 Hh r0 n Hn0) as [A B]. split; [right; exact A|]. destruct (HxF r0) as [_ E2]. rewrite E2; [exact B|apply (Hsal r0 A)].
          -- intros Hh r0 Hd. destruct (HxF r0) as [E2 _]. rewrite E2. eauto.
          -- intros Hh q Hq. destruct (HxF q) as [E2 _]. rewrite E2. eauto.
  Qed.

  (** ** the programs *)
  Notation kpublish := (@publish C Rs P).
  Notation krepublish := (@republish C Rs P).
  Notation kpush_loop := (@push_loop C Rs P).
  Notation kcpass := (@cpass C Rs rs_enc capply P).
  Notation kpasses := (@passes C Rs rs_enc capply P).
  Notation kskip := (@skip_inactive C Rs P).
  Notation kwalk := (@process_walk C Rs rs_enc P pvisit).
  Notation kfc_process := (@fc_process C Rs rs_enc P pinit pvisit).
  Notation kprocess_passes := (@process_passes C Rs rs_enc P pinit pvisit).
  Notation kis_published := (@is_published C Rs P).
  Notation kcompact1 := (@compact1 C Rs P).
  Notation kcompact2 := (@compact2 C Rs rs0 P true).
  Notation kcompact_list := (@compact_list C Rs rs0 P true).
  Notation kcombining := (@combining C Rs rs0 rs_enc capply P pinit pvisit true).
  Notation kwait := (@wait_for_combining C Rs P).
  Notation ktry := (@try_combining C Rs rs0 rs_enc capply P pinit pvisit true).
  Notation krequest := (@request C Rs rs0 rs_enc capply P pinit pvisit true).
  Notation kacquire := (@acquire_record C Rs rs0 P).
  Notation kexit := (@thread_exit C Rs P).
  Notation krun_ops := (@run_ops C Rs rs0 rs_enc capply P pinit pvisit true).
  Notation kthread_prog := (@thread_prog C Rs rs0 rs_enc capply P pinit pvisit true).

  Definition optQ {A} (Pq : A -> sview -> Prop) : option A -> sview -> Prop :=
    fun o l => match o with None => True | Some x => Pq x l end.

  Lemma safe_obind A B t (p : prog (option A)) (q : A -> prog (option B)) l (Pq : B -> sview -> Prop) :
    safe t p l (optQ (fun x l' => safe t (q x) l' (optQ Pq))) -> safe t (obind p q) l (optQ Pq).
  Proof.
    intros H. unfold obind. apply Conc.safe_bind. eapply Conc.safe_weaken; [|exact H].
    intros [x|] l' Hx; cbn in *; auto.
  Qed.

  Ltac nbs := first [ apply nb_ld | apply nb_begin | apply nb_ldcount | apply nb_faacount | apply nb_apply | apply nb_visit
                    | apply nb_st_age ].
  Ltac live := unfold Live; cbn; tauto.
  Ltac nb := eapply safe_nb; [nbs|live|intros ?v].

  (** the view of a thread: record [r], lock held [h], request outstanding [w], answered [d], own record linked [lk];
      nothing else remembered *)
  Record St (r : nat) (h w d lk : bool) (l : sview) : Prop := {
    st_my : w_my l = Some r; st_own : w_own l = OUnk; st_mynx : w_mynx l = None; st_wait : w_wait l = w;
    st_done : w_done l = d; st_hold : w_hold l = h; st_link : w_link l = lk; st_cur : w_cur l = None;
    st_tgt : w_tgt l = None; st_pp : w_pp l = None; st_nx : w_nx l = None; st_deact : w_deact l = None }.

  Lemma safe_push_loop_a t r (Pq : unit -> sview -> Prop) : forall fuel p l,
    w_my l = Some r -> w_anew l = true -> (forall x, Pq tt (set_mynxa (set_anew (set_mynxa l x) false) None)) ->
    safe t (kpush_loop fuel FNextA r p) l (optQ Pq).
  Proof.
    induction fuel as [|fu IH]; intros p l Hm Hn HQ; cbn [push_loop]; [exact I|].
    apply safe_st_nexta_b; [exact Hm|exact Hn|]. intros v.
    apply safe_cas_alink_b with (r := r) (p := p); try (cbn; auto; fail).
    - intros v0 Hne. cbn [vn]. destruct (Nat.eqb_spec v0 p); [contradiction|]. apply IH; try (cbn; auto; fail); intros x; exact (HQ x).
    - cbn [vn]. rewrite Nat.eqb_refl. exact (HQ (Some p)).
  Qed.

  (** the link loop of publish *)
  Lemma safe_push_loop_n t r h w d : forall fuel p l,
    w_my l = Some r -> w_own l = OPub -> w_wait l = w -> w_done l = d -> w_hold l = h -> w_link l = false ->
    w_cur l = None -> w_tgt l = None -> w_pp l = None -> w_nx l = None -> w_deact l = None ->
    safe t (kpush_loop fuel FNext r p) l (optQ (fun _ l' => St r h w d h l')).
  Proof.
    induction fuel as [|fu IH]; intros p l Hm Ho Hw Hd Hh Hlk Hc Ht Hp Hn Hde; cbn [push_loop]; [exact I|].
    apply safe_st_next_b; [exact Hm|rewrite Ho; discriminate|]. intros v.
    apply safe_cas_link_b with (r := r) (p := p); cbn; auto.
    - intros v0 Hne. cbn [vn]. destruct (Nat.eqb_spec v0 p); [contradiction|]. apply IH; cbn; auto.
    - cbn [vn]. rewrite Nat.eqb_refl. cbn. split; cbn; auto.
  Qed.

  Lemma safe_publish_b t fuel r h w d l : 1 <= r ->
    w_my l = Some r -> w_own l = OUnl -> w_mynx l = None -> w_wait l = w -> w_done l = d -> w_hold l = h -> w_link l = false ->
    w_cur l = None -> w_tgt l = None -> w_pp l = None -> w_nx l = None -> w_deact l = None ->
    safe t (kpublish fuel r) l (optQ (fun _ l' => St r h w d h l')).
  Proof.
    intros Hr Hm Ho Hmn Hw Hd Hh Hlk Hc Ht Hp Hn Hde. unfold publish. nb. nb.
    apply safe_st_active_b; [exact Hm|exact Ho|]. intros v1.
    destruct (Nat.eqb_spec r head) as [E|E]; [unfold head in E; lia|].
    apply safe_ld_head_next_pub_b with (r := r); [exact Hm|cbn; discriminate|]. intros v2 Hv2. cbn [vn].
    destruct (Nat.eqb_spec v2 (Datatypes.S r)); [contradiction|].
    apply safe_push_loop_n; cbn; auto.
  Qed.

  Lemma safe_republish_b t fuel r h w d l : 1 <= r -> St r h w d false l ->
    safe t (krepublish fuel r) l (optQ (fun _ l' => St r h w d h l')).
  Proof.
    intros Hr H. destruct H. unfold republish.
    apply safe_ld_state_own_b; auto.
    - cbn [vn]. rewrite Nat.eqb_refl. cbn. rewrite st_hold0. destruct h; split; cbn; auto.
    - intros v Hv. cbn [vn]. destruct (Nat.eqb_spec v st_active); [contradiction|]. apply safe_publish_b; cbn; auto.
  Qed.
  (** *** combining_pass: the combiner reaches its own record *)
  Record W (r : nat) (c tg : option nat) (d : bool) (l : sview) : Prop := {
    w1 : w_my l = Some r; w2 : w_own l = OUnk; w3 : w_mynx l = None; w4 : w_wait l = true; w5 : w_done l = d;
    w6 : w_hold l = true; w7 : w_link l = true; w8 : w_cur l = c; w9 : w_tgt l = tg; w10 : w_pp l = None;
    w11 : w_nx l = None; w12 : w_deact l = None }.

  Ltac live ::= unfold Live; cbn; repeat match goal with | H : W _ _ _ _ _ |- _ => destruct H | H : St _ _ _ _ _ _ |- _ => destruct H end; tauto.

  Lemma W_St r d l : St r true true d true l -> W r None None d l.
  Proof. intros H. destruct H. split; auto. Qed.
  Lemma St_W r c d l : W r c None d l -> St r true true d true (set_cur l None).
  Proof. intros H. destruct H. split; cbn; auto. Qed.

  Lemma done_if_ne l r q : w_my l = Some r -> r <> q -> done_if l q = l.
  Proof. intros Hm Hne. unfold done_if. rewrite Hm. destruct (Nat.eqb_spec r q); [contradiction|reflexivity]. Qed.
  Lemma done_if_eq l r : w_my l = Some r -> done_if l r = set_tgt (set_done l true) None.
  Proof. intros Hm. unfold done_if. rewrite Hm, Nat.eqb_refl. reflexivity. Qed.

  (** the walk state: either still looking for the own record [r] (which is further on), or past it with the
      request answered *)
  Definition WS (r : nat) (p : nat) (l : sview) : Prop :=
    (exists q d, p = Datatypes.S q /\ W r (Some q) (Some r) d l) \/ W r (tgt_of p) None true l.

  Lemma safe_cpass_walk t r age : forall fuel p b l, WS r p l ->
    safe t (kcpass fuel age p b) l (optQ (fun _ l' => W r None None true l')).
  Proof.
    induction fuel as [|fu IH]; intros p b l Hws; cbn [cpass]; [exact I|].
    destruct p as [|q].
    { destruct Hws as [(q & d & E & _)|Hw]; [discriminate|]. cbn. exact Hw. }
    (* the step that reads q->pNext and goes on, in a state where the own record is not q or is behind *)
    assert (Hnext : forall l1 b1, ((exists d, W r (Some q) (Some r) d l1 /\ q <> r) \/ W r (Some q) None true l1) ->
              safe t (Act (@a_ld C Rs P q FNext) (fun n => kcpass fu age (vn n) b1)) l1
                   (optQ (fun _ l' => W r None None true l'))).
    { intros l1 b1 [(d & Hw & Hne)|Hw].
      - destruct Hw as [m1 m2 m3 m4 m5 m6 m7 m8 m9 m10 m11 m12]. eapply safe_ld_next_seek_b with (r := r); eauto. intros y. cbn [vn]. apply IH.
        left. exists y, d. split; [reflexivity|]. split; cbn; auto.
      - destruct Hw as [m1 m2 m3 m4 m5 m6 m7 m8 m9 m10 m11 m12]. eapply safe_ld_next_walk_b; eauto. intros v. cbn [vn]. apply IH. right. split; cbn; auto. }
    destruct Hws as [(q' & d & E & Hw)|Hw].
    - inversion E; subst q'. destruct (Nat.eq_dec q r) as [->|Hne].
      + (* at the own record *)
        pose proof Hw as Hw0. destruct Hw as [m1 m2 m3 m4 m5 m6 m7 m8 m9 m10 m11 m12].
        apply safe_ld_state_linked_b with (r := r); auto. cbn [vn]. rewrite Nat.eqb_refl.
        apply safe_ld_req_own_b with (r := r); auto.
        * cbn [vn]. cbn. apply Hnext. right. split; cbn; auto.
        * intros v Hv1 Hv0. cbn [vn]. destruct (Nat.leb_spec req_Operation v); [|unfold req_Operation, req_Response, req_Empty in *; lia].
          nb. nb. apply safe_done_b; [exact m6|live|]. intros v2. rewrite (done_if_eq _ m1).
          apply Hnext. right. split; cbn; auto.
      + nb. assert (Hn : forall b1, safe t (Act (@a_ld C Rs P q FNext) (fun n => kcpass fu age (vn n) b1)) l (optQ (fun _ l' => W r None None true l'))).
        { intros b1. apply Hnext. left. exists d. split; assumption. }
        destruct (Nat.eqb (vn v) st_active); [|apply Hn]. nb.
        destruct (Nat.leb req_Operation (vn v0)); [|apply Hn]. nb. nb.
        pose proof Hw as Hw0. destruct Hw as [m1 m2 m3 m4 m5 m6 m7 m8 m9 m10 m11 m12]. apply safe_done_b; [exact m6|live|]. intros v3.
        rewrite (done_if_ne _ m1 (not_eq_sym Hne)). apply Hn.
    - cbn [tgt_of] in Hw. nb.
      assert (Hn : forall b1 l1, W r (Some q) None true l1 -> safe t (Act (@a_ld C Rs P q FNext) (fun n => kcpass fu age (vn n) b1)) l1 (optQ (fun _ l' => W r None None true l'))).
      { intros b1 l1 H1. apply Hnext. right. exact H1. }
      destruct (Nat.eqb (vn v) st_active); [|apply Hn; exact Hw]. nb.
      destruct (Nat.leb req_Operation (vn v0)); [|apply Hn; exact Hw]. nb. nb.
      pose proof Hw as Hw0. destruct Hw as [m1 m2 m3 m4 m5 m6 m7 m8 m9 m10 m11 m12]. apply safe_done_b; [exact m6|live|]. intros v3. apply Hn.
      unfold done_if. rewrite m1. destruct (Nat.eqb r q); [split; cbn; auto|exact Hw0].
  Qed.
  Lemma safe_cpass_top t r age fuel b d l : 1 <= r -> St r true true d true l ->
    safe t (kcpass fuel age (Datatypes.S head) b) l (optQ (fun _ l' => St r true true true true l')).
  Proof.
    intros Hr Hst. eapply Conc.safe_weaken with (Q := optQ (fun _ l' => W r None None true l')).
    { intros [x|] l' Hx; [|exact I]. cbn in *. destruct Hx. split; auto. }
    destruct fuel as [|fu]; cbn [cpass]; [exact I|].
    assert (Hhr : r <> head) by (unfold head; lia).
    set (tg := if d then None else Some r).
    set (l1 := set_tgt (set_cur l (Some head)) tg).
    pose proof Hst as [s1 s2 s3 s4 s5 s6 s7 s8 s9 s10 s11 s12].
    assert (Hws : WS r (Datatypes.S head) l1).
    { unfold WS, l1, tg. destruct d; [right; split; cbn; auto|left; exists head, false; split; [reflexivity|split; cbn; auto]]. }
    assert (Hm1 : w_my l1 = Some r) by exact s1.
    assert (Hh1 : w_hold l1 = true) by exact s6.
    eapply safe_nbg with (l' := l1); [nbs|live|apply GhostOK_start; [exact s6|exact s10|]|].
    { intros v Hv. unfold tg in Hv. destruct d; [discriminate|]. inversion Hv; subst v. exact s1. }
    intros v.
    assert (Hn : forall b1, safe t (Act (@a_ld C Rs P head FNext) (fun n => kcpass fu age (vn n) b1)) l1
                   (optQ (fun _ l' => W r None None true l'))).
    { intros b1. destruct Hws as [(q & d2 & E & Hw)|Hw].
      - inversion E; subst q. destruct Hw as [m1 m2 m3 m4 m5 m6 m7 m8 m9 m10 m11 m12].
        eapply safe_ld_next_seek_b with (r := r); eauto. intros y. cbn [vn]. apply safe_cpass_walk.
        left. exists y, d2. split; [reflexivity|]. split; cbn; auto.
      - cbn [tgt_of] in Hw. destruct Hw as [m1 m2 m3 m4 m5 m6 m7 m8 m9 m10 m11 m12].
        eapply safe_ld_next_walk_b; eauto. intros v0. cbn [vn]. apply safe_cpass_walk. right. split; cbn; auto. }
    destruct (Nat.eqb (vn v) st_active); [|apply Hn]. nb.
    destruct (Nat.leb req_Operation (vn v0)); [|apply Hn]. nb. nb.
    apply safe_done_b; [exact Hh1|live|]. intros v3. rewrite (done_if_ne _ Hm1 Hhr). apply Hn.
  Qed.
  Definition CombAny (r : nat) (l : sview) : Prop := exists d, St r true true d true l.

  Lemma CombAny_done_if r l q : CombAny r l -> CombAny r (done_if l q).
  Proof.
    intros (d & H). destruct H as [s1 s2 s3 s4 s5 s6 s7 s8 s9 s10 s11 s12]. unfold done_if. rewrite s1.
    destruct (Nat.eqb r q); [exists true; split; cbn; auto|exists d; split; auto].
  Qed.

  Lemma safe_passes_b t r fuel age : forall n nE nU d l, 1 <= r -> St r true true d true l -> (d = true \/ 1 <= n) ->
    safe t (kpasses fuel age n nE nU) l (optQ (fun _ l' => St r true true true true l')).
  Proof.
    induction n as [|n IH]; intros nE nU d l Hr Hst Hd; cbn [passes].
    - destruct Hd as [->|Hd]; [exact Hst|lia].
    - apply safe_obind. eapply Conc.safe_weaken; [|eapply safe_cpass_top; eassumption].
      intros [b|] l' Hx; [|exact I]. cbn in Hx. destruct b; [apply IH with (d := true); auto|].
      destruct (Nat.ltb nU (Datatypes.S nE)); [exact Hx|apply IH with (d := true); auto].
  Qed.

  Definition CW (r : nat) (c : option nat) (l : sview) : Prop := exists d, W r c None d l.

  Lemma CW_done_if r c l q : CW r c l -> CW r c (done_if l q).
  Proof.
    intros (d & H). destruct H as [m1 m2 m3 m4 m5 m6 m7 m8 m9 m10 m11 m12]. unfold done_if. rewrite m1.
    destruct (Nat.eqb r q); [exists true; split; cbn; auto|exists d; split; auto].
  Qed.
  Lemma vis_done_if l q : w_vis (done_if l q) = w_vis l.
  Proof. unfold done_if. destruct (w_my l); [destruct (Nat.eqb _ _)|]; reflexivity. Qed.

  (** kernel::iterator::skip_inactive: the iterator stays on the publication list *)
  Lemma safe_skip_b t r : forall fuel p l, CW r (tgt_of p) l ->
    safe t (kskip fuel p) l (optQ (fun it l' => CW r (tgt_of it) l' /\ w_vis l' = w_vis l)).
  Proof.
    induction fuel as [|fu IH]; intros p l Hc; cbn [skip_inactive]; [exact I|].
    destruct p as [|q]; [cbn; split; [exact Hc|reflexivity]|]. cbn [tgt_of] in Hc.
    destruct Hc as (d & Hw). pose proof Hw as Hw0. destruct Hw as [m1 m2 m3 m4 m5 m6 m7 m8 m9 m10 m11 m12].
    assert (Hn : safe t (Act (@a_ld C Rs P q FNext) (fun n => kskip fu (vn n))) l
                   (optQ (fun it l' => CW r (tgt_of it) l' /\ w_vis l' = w_vis l))).
    { eapply safe_ld_next_walk_b; eauto. intros v. cbn [vn].
      eapply Conc.safe_weaken; [|apply IH; exists d; split; cbn; auto].
      intros [it|] l' Hx; [|exact I]. cbn in *. exact Hx. }
    nb. destruct (Nat.eqb (vn v) st_active); [|exact Hn].
    nb. destruct (Nat.leb req_Operation (vn v0)); [|exact Hn].
    cbn. split; [exists d; exact Hw0|reflexivity].
  Qed.

  Lemma safe_skip_top t r fuel l : CombAny r l ->
    safe t (kskip fuel (Datatypes.S head)) l (optQ (fun it l' => CW r (tgt_of it) l' /\ w_vis l' = w_vis l)).
  Proof.
    intros (d & Hst). destruct fuel as [|fu]; cbn [skip_inactive]; [exact I|].
    pose proof Hst as [s1 s2 s3 s4 s5 s6 s7 s8 s9 s10 s11 s12].
    set (l1 := set_tgt (set_cur l (Some head)) None).
    assert (Hw1 : W r (Some head) None d l1) by (split; cbn; auto).
    eapply safe_nbg with (l' := l1); [nbs|live|apply GhostOK_start; [exact s6|exact s10|discriminate]|].
    intros v.
    assert (Hn : safe t (Act (@a_ld C Rs P head FNext) (fun n => kskip fu (vn n))) l1
                   (optQ (fun it l' => CW r (tgt_of it) l' /\ w_vis l' = w_vis l))).
    { pose proof Hw1 as [m1 m2 m3 m4 m5 m6 m7 m8 m9 m10 m11 m12]. eapply safe_ld_next_walk_b; eauto. intros v0. cbn [vn].
      eapply Conc.safe_weaken; [|apply safe_skip_b with (r := r); exists d; split; cbn; auto].
      intros [it|] l' Hx; [|exact I]. cbn in *. exact Hx. }
    destruct (Nat.eqb (vn v) st_active); [|exact Hn].
    nb. destruct (Nat.leb req_Operation (vn v0)); [|exact Hn].
    cbn. split; [exists d; exact Hw1|reflexivity].
  Qed.

  (** operation_done for the records completed by an iteration: they were all visited in this pass *)
  Lemma safe_dones_b R t r c comps : forall (k : prog R) l Q, CW r c l -> (forall x, In x (map fst comps) -> In x (w_vis l)) ->
    (forall l', CW r c l' -> w_vis l' = w_vis l -> safe t k l' Q) -> safe t (dones comps k) l Q.
  Proof.
    induction comps as [|[q rs] rest IH]; intros k l Q Hc Hin K; cbn [dones]; [apply K; [exact Hc|reflexivity]|].
    pose proof Hc as (d & Hw).
    apply safe_done_b; [apply (w6 Hw)| |].
    - unfold Live. right. right. split; [apply (w6 Hw)|]. right. right. right. right. left. apply Hin. left. reflexivity.
    - intros v. apply IH; [apply CW_done_if; exact Hc| |].
      + intros x Hx. rewrite vis_done_if. apply Hin. right. exact Hx.
      + intros l' Hc' Hv'. apply K; [exact Hc'|]. rewrite Hv', vis_done_if. reflexivity.
  Qed.

  (** fc_process loop body: `it->op( acquire )` + the container's decision; the record is remembered as visited *)
  Lemma safe_visit_b R t p q (k : V -> prog R) l Q : w_cur l = Some q -> w_hold l = true ->
    (forall p' comps, (forall x, In x (map fst comps) -> x = q \/ In x (pheldr p)) ->
                      (forall x, In x (pheldr p') -> x = q \/ In x (pheldr p)) ->
                      safe t (k (VV p' comps)) (set_vis l (q :: w_vis l)) Q) ->
    safe t (Act (@a_visit C Rs rs_enc P pvisit p q) k) l Q.
  Proof.
    intros Hc Hh K. cbn [Conc.safe]. intros g a tr Hi Hv. destruct (nb_visit p q g) as (H1 & H2 & H3 & H4).
    unfold view in Hv.
    assert (Hlq : frd g q = false) by lv.
    exists (setv a t (set_vis l (q :: w_vis l))). split; [|split; [apply frame_setv|]].
    - eapply Inv_ghost; [exact Hi|exact Hv|exact H1|exact H2|exact H3|apply H4; exact Hlq|]. split.
      + apply GhostOK0_F; try reflexivity. intros g0 a0 H. destruct H. split; cbn; auto.
      + intros g0 a0 tr0 Hi0 Hv0. pose proof Hi0 as [_ HF0]. pose proof (proj2 (proj2 HF0) t) as F0. rewrite Hv0 in F0.
        destruct F0. split; cbn; auto.
        intros Hh0 x [E|Hx]; [subst x|auto].
        change (live_at g0 (Some q)). eapply live_sound; [exact Hi0|exact Hv0|].
        unfold Live. right. right. split; [exact Hh|left; exact Hc].
    - rewrite view_setv. unfold a_visit.
      destruct (pvisit p (g_cont g) q (r_req (g_recs g q)) (r_tid (g_recs g q)) (r_arg (g_recs g q))) as [[p' c'] comps] eqn:Ep.
      destruct (write_comps rs_enc g comps) as [g' es]. cbn [fst snd].
      destruct (pvisit_recs _ _ _ _ _ _ Ep) as [A B] || destruct (pvisit_recs Ep) as [A B]. apply K; assumption.
  Qed.

  Lemma safe_walk_b t r : forall fuel it p l, CW r (tgt_of it) l -> incl (pheldr p) (w_vis l) ->
    safe t (kwalk fuel it p) l (optQ (fun _ l' => CombAny r l')).
  Proof.
    induction fuel as [|fu IH]; intros it p l Hc Hp; cbn [process_walk]; [exact I|].
    destruct it as [|q].
    { cbn. destruct Hc as (d & Hw). exists d. destruct Hw. split; auto. }
    cbn [tgt_of] in Hc. pose proof Hc as (d & Hw).
    apply safe_visit_b; [apply (w8 Hw)|apply (w6 Hw)|]. intros p' comps Hcs Hp'.
    set (l1 := set_vis l (q :: w_vis l)).
    assert (Hc1 : CW r (Some q) l1) by (exists d; destruct Hw; split; cbn; auto).
    apply safe_dones_b with (r := r) (c := Some q); [exact Hc1| |].
    - intros x Hx. cbn. destruct (Hcs x Hx) as [->|Hin]; [left; reflexivity|right; apply Hp; exact Hin].
    - intros l' (d' & Hw') Hv'. destruct Hw' as [m1 m2 m3 m4 m5 m6 m7 m8 m9 m10 m11 m12].
      eapply safe_ld_next_walk_b; eauto. intros v. cbn [vn]. apply safe_obind.
      eapply Conc.safe_weaken; [|apply safe_skip_b with (r := r); exists d'; split; cbn; auto].
      intros [it'|] l'' Hx; [|exact I]. cbn in Hx. destruct Hx as [Hc'' Hv'']. apply IH; [exact Hc''|].
      intros x Hx. rewrite Hv''. cbn. rewrite Hv'. cbn. destruct (Hp' x Hx) as [->|Hin]; [left; reflexivity|right; apply Hp; exact Hin].
  Qed.

  Lemma safe_fc_process_b t r fuel l : CombAny r l ->
    safe t (kfc_process fuel) l (optQ (fun _ l' => CombAny r l')).
  Proof.
    intros Hc. unfold fc_process. apply safe_obind.
    eapply Conc.safe_weaken; [|apply safe_skip_top; exact Hc].
    intros [it|] l' Hx; [|exact I]. cbn in Hx. destruct Hx as [Hc' _]. apply safe_walk_b; [exact Hc'|].
    rewrite pinit_held. intros x [].
  Qed.

  Lemma safe_process_passes_b t r fuel : forall n l, CombAny r l ->
    safe t (kprocess_passes fuel n) l (optQ (fun _ l' => CombAny r l')).
  Proof.
    induction n as [|n IH]; intros l Hc; cbn [process_passes]; [exact Hc|].
    apply safe_obind. eapply Conc.safe_weaken; [|apply safe_fc_process_b; exact Hc].
    intros [u|] l' Hx; [|exact I]. cbn in Hx. apply IH. exact Hx.
  Qed.
  (** *** compact_list *)
  Record Fin (r : nat) (l : sview) : Prop := {
    f1 : w_my l = Some r; f2 : w_own l = OUnk; f3 : w_mynx l = None; f4 : w_wait l = true; f5 : w_done l = true;
    f6 : w_hold l = true; f7 : w_deact l = None }.

  Ltac live ::= unfold Live; cbn; repeat match goal with | H : W _ _ _ _ _ |- _ => destruct H | H : St _ _ _ _ _ _ |- _ => destruct H | H : Fin _ _ |- _ => destruct H end; tauto.

  Lemma Fin_forget r l : Fin r l -> St r true true true false (forget l).
  Proof. intros [a1 a2 a3 a4 a5 a6 a7]. split; cbn; auto. Qed.
  Lemma St_Fin r lk l : St r true true true lk l -> Fin r l.
  Proof. intros [s1 s2 s3 s4 s5 s6 s7 s8 s9 s10 s11 s12]. split; auto. Qed.

  Lemma safe_compact1_b t r age mask : forall fuel pp p l,
    Fin r l -> w_tgt l = None -> w_pp l = Some pp -> w_cur l = tgt_of p -> w_nx l = None -> w_link l = false ->
    safe t (kcompact1 fuel age mask pp p) l (optQ (fun _ l' => Fin r l' /\ w_tgt l' = None)).
  Proof.
    induction fuel as [|fu IH]; intros pp p l Hf Ht Hp Hc Hn Hlk; cbn [compact1]; [exact I|].
    destruct p as [|q]; [split; assumption|]. cbn [tgt_of] in Hc.
    pose proof Hf as [a1 a2 a3 a4 a5 a6 a7].
    assert (Hpn : w_pp l <> None) by (rewrite Hp; discriminate).
    (* pPrev = q; p = q->pNext.load() and go on *)
    assert (Hadv : forall l1, Fin r l1 -> w_tgt l1 = None -> w_cur l1 = Some q ->
              safe t (Act (@a_ld C Rs P q FNext) (fun n => kcompact1 fu age mask q (vn n))) l1
                   (optQ (fun _ l' => Fin r l' /\ w_tgt l' = None))).
    { intros l1 [b1 b2 b3 b4 b5 b6 b7] Ht1 Hc1. apply safe_ld_next_pp_b; [exact b6|right; exact Hc1|exact Ht1|].
      intros v. cbn [vn]. apply IH; try (cbn; auto; fail). split; cbn; auto. }
    apply safe_ld_state_cand_b; [live| |].
    - intros v Hv. cbn [vn]. destruct (Nat.eqb_spec v st_active) as [Ea|Ea].
      + nb. destruct (Nat.ltb (vn v0 + mask) age); [|apply Hadv; assumption].
        apply safe_ld_next_nx_b; [exact Hc|exact Hpn|]. intros v1. cbn [vn].
        apply safe_cas_unlink_b with (r := q) (act := true); try (cbn; auto; fail); try discriminate.
        * intros v2 Hv2. cbn [vn]. destruct (Nat.eqb_spec v2 (Datatypes.S q)); [contradiction|].
          destruct v2 as [|r']; [exact I|]. cbn [tgt_of].
          apply safe_ld_next_pp_b; try (cbn; auto; fail). intros v3. cbn [vn]. apply IH; try (cbn; auto; fail). split; cbn; auto.
        * cbn [vn]. rewrite Nat.eqb_refl. apply safe_st_inactive_b; try (cbn; auto; fail). intros v2. apply IH; try (cbn; auto; fail). split; cbn; auto.
      + destruct (Nat.eqb_spec v st_removed); [contradiction|]. apply Hadv; assumption.
    - cbn [vn]. unfold st_removed, st_active. cbn [Nat.eqb].
      apply safe_ld_next_nx_b; [cbn; exact Hc|cbn; exact Hpn|]. intros v1. cbn [vn].
      apply safe_cas_unlink_b with (r := q) (act := false); try (cbn; auto; fail).
      + intros v2 Hv2. cbn [vn]. destruct (Nat.eqb_spec v2 (Datatypes.S q)); [contradiction|]. split; [split; cbn; auto|cbn; exact Ht].
      + cbn [vn]. rewrite Nat.eqb_refl. apply IH; try (cbn; auto; fail). split; cbn; auto.
  Qed.
  (** is_published: [true] = found in the list, [false] = the victim is not linked (and never will be) *)
  Lemma safe_is_published_b t r vi ac ap : forall fuel p l,
    Fin r l -> w_pp l = None -> w_acur l = ac -> w_app l = ap ->
    ((exists q, p = Datatypes.S q /\ w_cur l = Some q /\ w_tgt l = Some vi /\ w_cand l = Some vi) \/
     (p = 0 /\ w_vic l = Some vi /\ w_tgt l = None /\ w_cur l = None)) ->
    safe t (kis_published fuel vi p) l
         (optQ (fun pub l' => Fin r l' /\ w_pp l' = None /\ w_acur l' = ac /\ w_app l' = ap /\
                              (pub = false -> w_vic l' = Some vi /\ w_tgt l' = None /\ w_cur l' = None))).
  Proof.
    induction fuel as [|fu IH]; intros p l Hf Hp Hac Hap Hst; cbn [is_published]; [exact I|].
    pose proof Hf as [a1 a2 a3 a4 a5 a6 a7].
    destruct Hst as [(q & E & Hc & Ht & Hca)|(E & Hv & Ht & Hc)]; subst p.
    - destruct (Nat.eqb_spec q vi) as [Eq|Eq].
      + cbn. split; [exact Hf|]. split; [exact Hp|]. split; [exact Hac|]. split; [exact Hap|]. discriminate.
      + apply safe_ld_next_pub_b with (vi := vi); auto.
        * cbn [vn]. apply IH; [split; cbn; auto|cbn; exact Hp|cbn; exact Hac|cbn; exact Hap|]. right. cbn. auto.
        * intros y. cbn [vn]. apply IH; [split; cbn; auto|cbn; exact Hp|cbn; exact Hac|cbn; exact Hap|]. left. exists y. cbn. auto.
    - cbn. split; [exact Hf|]. split; [exact Hp|]. split; [exact Hac|]. split; [exact Hap|]. intros _. auto.
  Qed.

  (** loop 2 of compact_list: the walk along the allocated list *)
  Lemma safe_compact2_b t r : forall fuel pp p l,
    Fin r l -> w_pp l = None -> w_cur l = None -> w_tgt l = None -> w_app l = Some pp -> w_acur l = tgt_of p ->
    safe t (kcompact2 fuel pp p) l (optQ (fun _ l' => Fin r l')).
  Proof.
    induction fuel as [|fu IH]; intros pp p l Hf Hp Hc Ht Hap Hac; cbn [compact2]; [exact I|].
    destruct p as [|q]; [exact Hf|]. cbn [tgt_of] in Hac. pose proof Hf as [a1 a2 a3 a4 a5 a6 a7].
    (* pPrev = x; p = x->pNextAllocated.load(); go on *)
    assert (Hadv : forall x l1, Fin r l1 -> w_acur l1 = Some x ->
              safe t (Act (@a_ld C Rs P x FNextA) (fun n => kcompact2 fu x (vn n))) l1 (optQ (fun _ l' => Fin r l'))).
    { intros x l1 [b1 b2 b3 b4 b5 b6 b7] Hx. apply safe_ld_nexta_pp_b; [exact b6|right; exact Hx|]. intros v. cbn [vn].
      apply IH; try (cbn; auto; fail). split; cbn; auto. }
    apply safe_ld_state_cand_b; [live| |].
    - intros v Hv. cbn [vn]. destruct (Nat.eqb_spec v st_removed); [contradiction|]. apply Hadv; assumption.
    - cbn [vn]. rewrite Nat.eqb_refl.
      assert (Hf1 : Fin r (set_cand l (Some q))) by (split; cbn; auto).
      apply safe_obind.
      eapply Conc.safe_weaken with (Q := optQ (fun pub l' => Fin r l' /\ w_pp l' = None /\ w_acur l' = Some q /\ w_app l' = Some pp /\
                                                            (pub = false -> w_vic l' = Some q /\ w_tgt l' = None /\ w_cur l' = None))).
      2:{ apply safe_ld_head_pub_b with (vi := q); try (cbn; auto; fail).
          - cbn [vn]. apply safe_is_published_b with (r := r); [split; cbn; auto|cbn; exact Hp|cbn; exact Hac|cbn; exact Hap|]. right. cbn. auto.
          - intros y. cbn [vn]. apply safe_is_published_b with (r := r); [split; cbn; auto|cbn; exact Hp|cbn; exact Hac|cbn; exact Hap|]. left. exists y. cbn. auto. }
      intros [pub|] l' Hx; [|exact I]. cbn in Hx. destruct Hx as (Hf' & Hp' & Hac' & Hap' & Hpub). destruct pub.
      + (* still published: keep it for the next compaction *)
        apply Hadv; assumption.
      + destruct (Hpub eq_refl) as (Hv' & Ht' & Hc'). pose proof Hf' as [b1 b2 b3 b4 b5 b6 b7].
        apply safe_ld_nexta_nx_b; [exact b6|exact Hac'|]. intros v0. cbn [vn].
        apply safe_cas_free_b; try (cbn; auto; fail).
        * intros v1 Hv1. cbn [vn]. destruct (Nat.eqb_spec v1 (Datatypes.S q)); [contradiction|].
          destruct v1 as [|r']; [exact I|]. cbn [tgt_of]. apply Hadv; [split; cbn; auto|cbn; reflexivity].
        * cbn [vn]. rewrite Nat.eqb_refl. apply IH; try (cbn; auto; fail). split; cbn; auto.
  Qed.

  Lemma safe_compact_list_b t r fuel age mask : forall tries l,
    Fin r l -> w_tgt l = None ->
    safe t (kcompact_list tries fuel age mask) l (optQ (fun _ l' => Fin r l')).
  Proof.
    induction tries as [|tr IH]; intros l Hf Ht; cbn [compact_list]; [exact I|].
    pose proof Hf as [a1 a2 a3 a4 a5 a6 a7].
    apply safe_ld_next_pp_b; [exact a6|left; reflexivity|exact Ht|]. intros v. cbn [vn].
    apply safe_obind. eapply Conc.safe_weaken; [|apply safe_compact1_b with (r := r); try (cbn; auto; fail); split; cbn; auto].
    intros [fin|] l' Hx; [|exact I]. cbn in Hx. destruct Hx as [Hf' Ht']. destruct fin; [|apply IH; assumption].
    pose proof Hf' as [b1 b2 b3 b4 b5 b6 b7].
    apply safe_ld_nexta_pp_b; [exact b6|left; reflexivity|]. intros v0. cbn [vn].
    apply safe_compact2_b with (r := r); try (cbn; auto; fail). split; cbn; auto.
  Qed.

  Lemma safe_combining_b t r fuel mask npass batch d l : 1 <= r -> (batch = true \/ 1 <= npass) ->
    St r true true d true l ->
    safe t (kcombining fuel mask npass batch) l (optQ (fun _ l' => Fin r l')).
  Proof.
    intros Hr Hnp Hst. unfold combining. nb. apply safe_obind.
    assert (Hend : forall l', St r true true true true l' ->
              safe t (if Nat.eqb (Nat.land (Datatypes.S (vn v)) mask) 0 then kcompact_list fuel fuel (Datatypes.S (vn v)) mask
                      else @ret C Rs P unit tt) l' (optQ (fun _ l'' => Fin r l''))).
    { intros l' Hst'. destruct (Nat.eqb (Nat.land (Datatypes.S (vn v)) mask) 0).
      - apply safe_compact_list_b; [eapply St_Fin; exact Hst'|apply (st_tgt Hst')].
      - cbn. eapply St_Fin; exact Hst'. }
    destruct batch.
    - apply safe_obind. eapply Conc.safe_weaken; [|apply safe_process_passes_b with (r := r); exists d; exact Hst].
      intros [u|] l' Hx; [|exact I]. cbn in Hx. destruct Hx as (d' & Hst').
      apply safe_obind. eapply Conc.safe_weaken; [|eapply safe_cpass_top; eassumption].
      intros [b|] l'' Hx; [|exact I]. cbn in Hx. cbn. apply Hend. exact Hx.
    - eapply Conc.safe_weaken; [|apply safe_passes_b with (r := r) (d := d); auto; destruct Hnp as [E|E]; [discriminate|right; exact E]].
      intros [u|] l' Hx; [|exact I]. cbn in Hx. apply Hend. exact Hx.
  Qed.
  (** *** the client side *)
  Lemma nolost_name name : name <> "lost" -> name <> "uaf" -> quiet [EvCli name []].
  Proof.
    intros H1 H2. split; (constructor; [|constructor]); cbn; apply String.eqb_neq; assumption.
  Qed.
  (** leaving the combiner role: Emit "unlock"; m_Mutex.unlock() *)
  Lemma safe_unlock_emit_b R t l (Q : option R -> sview -> Prop) k :
    safe t k (forget l) Q -> safe t (Emit [EvCli "unlock" []] k) l Q.
  Proof.
    intros H. apply safe_emit_g with (l' := forget l); [apply nolost_name; discriminate|apply GhostOK_forget|]. exact H.
  Qed.
  Lemma safe_unlock_ret_b A (x : A) t r lf (Pq : A -> sview -> Prop) : St r true true true false lf ->
    (forall l', St r false true true false l' -> Pq x l') ->
    safe t (Act (@a_unlock C Rs P) (fun _ => @ret C Rs P A x)) lf (optQ Pq).
  Proof.
    intros Hst HQ. destruct Hst as [s1 s2 s3 s4 s5 s6 s7 s8 s9 s10 s11 s12].
    apply safe_unlock_b; [exact s6|exact s7|exact s8|exact s10|exact s11|exact s12|].
    intros v. unfold ret. cbn [Conc.safe optQ]. apply HQ.
    split; [exact s1|exact s2|exact s3|exact s4|exact s5|reflexivity|exact s7|exact s8|exact s9|exact s10|exact s11|exact s12].
  Qed.
  Lemma safe_unlock_seq_b A (x : A) t r l (Pq : A -> sview -> Prop) : Fin r l ->
    (forall l', St r false true true false l' -> Pq x l') ->
    safe t (Emit [EvCli "unlock" []] (Act (@a_unlock C Rs P) (fun _ => @ret C Rs P A x))) l (optQ Pq).
  Proof.
    intros Hf HQ. apply safe_unlock_emit_b. apply (@safe_unlock_ret_b A x t r (forget l) Pq (Fin_forget Hf) HQ).
  Qed.

  Lemma safe_as_combiner_b t r fuel mask npass batch d l : 1 <= r -> (batch = true \/ 1 <= npass) ->
    St r true true d false l ->
    safe t (@as_combiner C Rs rs0 rs_enc capply P pinit pvisit true fuel mask npass batch r) l
         (optQ (fun _ l' => St r false true true false l')).
  Proof.
    intros Hr Hnp Hst. unfold as_combiner.
    apply safe_emit_g with (l' := l); [apply nolost_name; discriminate|apply GhostOK_refl|].
    apply safe_obind. eapply Conc.safe_weaken; [|apply safe_republish_b; eassumption].
    intros [u|] l1 Hx; [|exact I]. cbn in Hx. apply safe_obind.
    eapply Conc.safe_weaken; [|eapply safe_combining_b; eassumption].
    intros [u2|] l2 Hx2; [|exact I]. cbn in Hx2. apply safe_unlock_seq_b with (r := r); auto.
  Qed.

  Lemma safe_wait_b t r pfuel : forall fuel d l, 1 <= r -> St r false true d false l ->
    safe t (kwait fuel pfuel r) l
         (optQ (fun served l' => if served : bool then St r false true true false l' else exists d', St r true true d' false l')).
  Proof.
    induction fuel as [|fu IH]; intros d l Hr Hst; cbn [wait_for_combining]; [exact I|].
    pose proof Hst as [s1 s2 s3 s4 s5 s6 s7 s8 s9 s10 s11 s12].
    apply safe_ld_req_own_b with (r := r); auto.
    - cbn [vn]. unfold req_Response. cbn. split; cbn; auto.
    - intros v Hv1 Hv0. cbn [vn]. destruct (Nat.eqb_spec v req_Response); [contradiction|].
      apply safe_obind. eapply Conc.safe_weaken; [|apply safe_republish_b; eassumption].
      intros [u|] l1 Hx; [|exact I]. cbn in Hx. pose proof Hx as [q1 q2 q3 q4 q5 q6 q7 q8 q9 q10 q11 q12].
      apply safe_xchg_b.
      + cbn [vn Nat.eqb]. eapply IH; eauto.
      + cbn [vn Nat.eqb].
        apply safe_emit_g with (l' := set_hold (clrF l1) true); [apply nolost_name; discriminate|apply GhostOK_refl|].
        apply safe_ld_req_own_b with (r := r); auto.
        * cbn [vn]. unfold req_Response. cbn [Nat.eqb].
          apply safe_unlock_seq_b with (r := r); [split; cbn; auto|]. intros l' Hl'. exact Hl'.
        * intros v2 Hv21 Hv20. cbn [vn]. destruct (Nat.eqb_spec v2 req_Response); [contradiction|].
          cbn. exists d. split; cbn; auto.
  Qed.

  Lemma safe_try_b t r fuel mask npass batch d l : 1 <= r -> (batch = true \/ 1 <= npass) ->
    St r false true d false l ->
    safe t (ktry fuel mask npass batch r) l (optQ (fun _ l' => St r false true true false l')).
  Proof.
    intros Hr Hnp Hst. unfold try_combining. pose proof Hst as [s1 s2 s3 s4 s5 s6 s7 s8 s9 s10 s11 s12].
    apply safe_xchg_b.
    - cbn [vn Nat.eqb]. apply safe_obind. eapply Conc.safe_weaken; [|eapply safe_wait_b; eassumption].
      intros [served|] l1 Hx; [|exact I]. cbn in Hx. destruct served; [exact Hx|]. destruct Hx as (d' & Hst1).
      apply safe_obind. eapply Conc.safe_weaken; [|apply safe_republish_b; eassumption].
      intros [u|] l2 Hx2; [|exact I]. cbn in Hx2. apply safe_obind.
      eapply Conc.safe_weaken; [|eapply safe_combining_b; eassumption].
      intros [u2|] l3 Hx3; [|exact I]. cbn in Hx3. apply safe_unlock_seq_b with (r := r); auto.
    - cbn [vn Nat.eqb]. eapply safe_as_combiner_b; eauto. split; cbn; auto.
  Qed.
  (** a thread between two operations: [my] = its record if it has one *)
  Record Idl (my : option nat) (l : sview) : Prop := {
    i1 : w_my l = my; i2 : w_own l = OUnk; i3 : w_mynx l = None; i4 : w_wait l = false; i5 : w_done l = false;
    i6 : w_hold l = false; i7 : w_link l = false; i8 : w_cur l = None; i9 : w_tgt l = None; i10 : w_pp l = None;
    i11 : w_nx l = None; i12 : w_deact l = None }.

  Lemma safe_acquire_b t fuel my l : (forall r, my = Some r -> 1 <= r) -> Idl my l ->
    safe t (kacquire fuel my) l (optQ (fun r l' => 1 <= r /\ St r false false false false l')).
  Proof.
    intros Hmy [a1 a2 a3 a4 a5 a6 a7 a8 a9 a10 a11 a12]. destruct my as [r|]; cbn [acquire_record].
    - pose proof (Hmy r eq_refl) as Hr.
      apply safe_ld_state_own_b; auto.
      + cbn [vn]. rewrite Nat.eqb_refl. rewrite a6. cbn. split; [exact Hr|split; auto].
      + intros v Hv. cbn [vn]. destruct (Nat.eqb_spec v st_active); [contradiction|].
        apply safe_obind. eapply Conc.safe_weaken; [|apply safe_publish_b with (h := false) (w := false) (d := false); try (cbn; auto; fail); exact Hr].
        intros [u|] l' Hx; [|exact I]. cbn in Hx. cbn. split; [exact Hr|exact Hx].
    - apply safe_new_b; auto. intros r Hr. cbn [vn]. nb. apply safe_obind.
      apply safe_push_loop_a with (r := r); try (cbn; auto; fail). intros x.
      apply safe_obind. eapply Conc.safe_weaken; [|apply safe_publish_b with (h := false) (w := false) (d := false); try (cbn; auto; fail); exact Hr].
      intros [u|] l' Hx; [|exact I]. cbn in Hx. cbn. split; [exact Hr|exact Hx].
  Qed.

  Lemma safe_krequest_b t fuel mask npass batch my op arg l :
    2 <= op -> (batch = true \/ 1 <= npass) -> (forall r, my = Some r -> 1 <= r) -> Idl my l ->
    safe t (krequest fuel mask npass batch t my op arg) l (optQ (fun r l' => 1 <= r /\ Idl (Some r) l')).
  Proof.
    intros Hop Hnp Hmy Hi. unfold request.
    apply safe_emit_g with (l' := l); [split; (constructor; [reflexivity|constructor])|apply GhostOK_refl|].
    apply safe_obind. eapply Conc.safe_weaken; [|apply safe_acquire_b; eassumption].
    intros [r|] l1 Hx; [|exact I]. cbn in Hx. destruct Hx as [Hr Hst]. pose proof Hst as [s1 s2 s3 s4 s5 s6 s7 s8 s9 s10 s11 s12].
    apply safe_request_b; [exact s1|exact Hop|]. intros v.
    apply safe_obind. eapply Conc.safe_weaken; [|apply safe_try_b with (r := r) (d := false); try assumption; split; cbn; auto].
    intros [u|] l2 Hx; [|exact I]. cbn in Hx. pose proof Hx as [q1 q2 q3 q4 q5 q6 q7 q8 q9 q10 q11 q12].
    apply safe_release_b with (r := r); auto. intros v2.
    apply safe_emit_g with (l' := set_done (set_wait l2 false) false); [|apply GhostOK_refl|].
    { split; (constructor; [|constructor]); destruct v2; reflexivity. }
    cbn. split; [exact Hr|split; cbn; auto].
  Qed.

  Lemma safe_kexit_b t my l : Idl my l -> safe t (kexit my) l (optQ (fun _ l' => Idl None l')).
  Proof.
    intros [a1 a2 a3 a4 a5 a6 a7 a8 a9 a10 a11 a12]. destruct my as [r|]; cbn [thread_exit].
    - apply safe_exit_b; auto. intros v. cbn. split; cbn; auto.
    - cbn. split; auto.
  Qed.

  Definition cop_ge2 (o : cop) : Prop := match o with CReq batch op _ => 2 <= op | CExit => True end.
  Definition cop_pass (npass : nat) (o : cop) : Prop := match o with CReq batch _ _ => batch = true \/ 1 <= npass | CExit => True end.

  Lemma safe_run_ops_b t fuel mask npass : forall os my l,
    Forall cop_ge2 os -> Forall (cop_pass npass) os -> (forall r, my = Some r -> 1 <= r) -> Idl my l ->
    safe t (krun_ops fuel mask npass t my os) l (optQ (fun _ _ => True)).
  Proof.
    induction os as [|o os IH]; intros my l H2 Hp Hmy Hi; cbn [run_ops].
    - eapply Conc.safe_weaken; [|apply safe_kexit_b; exact Hi]. intros [u|] l' Hx; exact I.
    - inversion H2 as [|? ? Ho2 H2']; subst. inversion Hp as [|? ? Hop Hp']; subst. destruct o as [batch op arg|].
      + apply safe_obind. eapply Conc.safe_weaken; [|apply safe_krequest_b; eassumption].
        intros [r|] l' Hx; [|exact I]. cbn in Hx. destruct Hx as [Hr Hi']. apply IH; auto. intros r0 E. inversion E; subst. exact Hr.
      + apply safe_obind. eapply Conc.safe_weaken; [|apply safe_kexit_b; exact Hi].
        intros [u|] l' Hx; [|exact I]. cbn in Hx. apply IH; auto. discriminate.
  Qed.

  Lemma safe_kthread_b t fuel mask npass os l :
    Forall cop_ge2 os -> Forall (cop_pass npass) os -> Idl None l ->
    safe t (kthread_prog fuel mask npass t os) l (@Conc.QTrue sview).
  Proof.
    intros H2 Hp Hi. unfold thread_prog. nb. apply Conc.safe_bind.
    eapply Conc.safe_weaken; [|apply safe_run_ops_b; eauto; discriminate].
    intros [u|] l' _; [exact I|]. apply safe_emit_g with (l' := l'); [apply nolost_name; discriminate|apply GhostOK_refl|exact I].
  Qed.

  (** ** every reachable configuration *)
  Definition sv0 : sview := mkSV None OUnk None false false false false None None None None None None None false None None None None [].
  Definition aux0 : aux := mkSA [] (fun _ => sv0) [].

  Notation kthread_progs := (@thread_progs C Rs rs0 rs_enc capply P pinit pvisit true).
  Notation kinit_cfg := (@init_cfg C Rs rs0 rs_enc capply P pinit pvisit true).

  Lemma nth_error_thread_progs fuel mask npass : forall ths t0 i p,
    nth_error (kthread_progs fuel mask npass t0 ths) i = Some p ->
    exists os, nth_error ths i = Some os /\ p = kthread_prog fuel mask npass (t0 + i) os.
  Proof.
    induction ths as [|os ths IH]; intros t0 i p H; cbn [thread_progs] in H; [destruct i; discriminate|].
    destruct i as [|i]; cbn in H.
    - inversion H; subst. exists os. split; [reflexivity|]. rewrite Nat.add_0_r. reflexivity.
    - destruct (IH _ _ _ H) as (os' & A & B). exists os'. split; [exact A|]. rewrite B. f_equal. lia.
  Qed.

  Definition progs_ok (npass : nat) (ths : list (list cop)) : Prop :=
    Forall (Forall cop_ge2) ths /\ Forall (Forall (cop_pass npass)) ths.

  Lemma init_ok_b fuel mask npass c0 ths : progs_ok npass ths ->
    Conc.cfg_ok view Inv (kinit_cfg fuel mask npass c0 ths).
  Proof.
    intros [H2 Hp]. exists aux0. split.
    - split.
      2:{ split; [reflexivity|]. split.
          - split.
            + intros q [E|[]]. subst q. reflexivity.
            + constructor; [intros []|constructor].
            + intros r0 [E|[]]. subst r0. split; [cbn; unfold head; lia|reflexivity].
            + intros r0 [E|[]]. subst r0. reflexivity.
            + intros r0 H. unfold frd in H; cbn in H. discriminate.
          - intros u. cbn. split; cbn; try discriminate; auto. }
      apply Inv_intro0; [reflexivity| |].
      + split.
        * intros _ u. reflexivity.
        * intros u u' H. cbn in H. discriminate.
        * intros u u' r H. cbn in H. discriminate.
        * intros q [E|[]]. subst q. reflexivity.
        * constructor; [intros []|constructor].
        * intros r [].
        * intros r H. unfold stt in H; cbn in H. discriminate.
        * intros r H. unfold stt in H; cbn in H. discriminate.
        * intros r _. unfold stt; cbn. discriminate.
        * split; [unfold stt; cbn; discriminate|cbn; lia].
        * intros r. unfold stt; cbn. lia.
      + intros u. cbn. split; cbn; try discriminate; auto.
    - intros t p Hpn. cbn [kinit_cfg Conc.threads] in Hpn. destruct (nth_error_thread_progs _ _ _ _ _ _ Hpn) as (os & A & ->).
      cbn [Nat.add]. apply safe_kthread_b.
      + eapply Forall_forall in H2; [exact H2|]. eapply nth_error_In; exact A.
      + eapply Forall_forall in Hp; [exact Hp|]. eapply nth_error_In; exact A.
      + split; reflexivity.
  Qed.

  (** Part C: on the current code (loop 2 of compact_list checks is_published), for every schedule, any number of
      threads, thread exits at any moment, any compact factor: no atomic access of the kernel is to a freed
      publication record (and, as in part B, release_record never meets an unanswered request). *)
  Theorem fc_no_uaf fuel mask npass c0 ths c :
    progs_ok npass ths -> Conc.reach (kinit_cfg fuel mask npass c0 ths) c ->
    has_uaf (Conc.trace c) = false /\ has_lost (Conc.trace c) = false.
  Proof.
    intros Hok Hr. destruct (Conc.reach_Inv (init_ok_b fuel mask c0 Hok) Hr) as (a & (Hl & _) & (Hu & _)). split; assumption.
  Qed.
End Free.
