(** * CachedFreeList: the sequential drain.  A single thread calling the wrapper's get() repeatedly from a
      quiescent state obtains exactly the nodes of the backing list and of the cache slots, each once, and
      then nullptr.  Generic in the backing list (its sequential get() is given by two equations). *)
From Coq Require Import ZArith List String Bool Lia PeanoNat.
From LV Require Import Base.Conc Base.Events Model.FreeList Model.FreeListCached Proofs.FreeListBase.
Import ListNotations.
Local Open Scope nat_scope.

(** sequential execution of a program: one thread running alone *)
Fixpoint gsolo {GG R} (p : Conc.prog GG V ev R) (g : GG) : GG * R :=
  match p with
  | Ret r => (g, r)
  | Emit _ k => gsolo k g
  | Act f k => let '(g', v, _) := f g in gsolo (k v) g'
  end.

Section CDrain.
  Variable G0 : Type.
  Variable get0 : nat -> Conc.prog G0 V ev (option nat).
  Variable sok : G0 -> list nat -> Prop.            (* the backing list is exactly l, sequentially usable *)
  Hypothesis sok_nil : forall f g0, sok g0 [] -> gsolo (get0 (S f)) g0 = (g0, Some O).
  Hypothesis sok_cons : forall f g0 n r, sok g0 (n :: r) ->
    exists g0', gsolo (get0 (S f)) g0 = (g0', Some n) /\ sok g0' r.
  Hypothesis sok_wf : forall g0 l, sok g0 l -> NoDup l /\ ~ In O l.

  Notation CGG := (CG G0).

  Fixpoint cdrain (fuel s c : nat) (g : CGG) : list nat :=
    match c with
    | O => []
    | S c' => match gsolo (cget G0 get0 fuel s) g with
              | (g', Some (S m)) => S m :: cdrain fuel s c' g'
              | _ => []
              end
    end.

  Lemma gsolo_lift R (p : Conc.prog G0 V ev R) : forall g : CGG,
    gsolo (lift G0 p) g = (mkCG G0 (cache G0 g) (fst (gsolo p (back G0 g))), snd (gsolo p (back G0 g))).
  Proof.
    induction p as [r|es k IH|f k IH]; intros g; cbn [lift gsolo].
    - destruct g; reflexivity.
    - apply IH.
    - destruct (f (back G0 g)) as [[g0 v] es] eqn:Ef. rewrite IH. cbn [cache back]. reflexivity.
  Qed.

  Lemma gsolo_take_cell i fail (g : CGG) :
    gsolo (take_cell G0 i fail) g =
    if Nat.eqb (cache G0 g i) 0 then gsolo fail g else (set_cache G0 g i 0, Some (cache G0 g i)).
  Proof.
    unfold take_cell. cbn [gsolo ca_ld_cache vnode fst]. destruct (Nat.eqb_spec (cache G0 g i) 0) as [E|E]; [reflexivity|].
    cbn [gsolo]. unfold ca_cas_cache. rewrite Nat.eqb_refl. cbn [vnode fst]. rewrite Nat.eqb_refl. reflexivity.
  Qed.

  Fixpoint find_slot (g : CGG) (rem i : nat) : option nat :=
    match rem with
    | O => None
    | S r => if Nat.eqb (cache G0 g i) 0 then find_slot g r (S i) else Some i
    end.

  Lemma gsolo_scan last (g : CGG) : forall rem i,
    gsolo (scan G0 rem i last) g =
    match find_slot g rem i with
    | Some j => (set_cache G0 g j 0, Some (cache G0 g j))
    | None => gsolo last g
    end.
  Proof.
    induction rem as [|r IH]; intros i; cbn [scan find_slot]; [reflexivity|].
    rewrite gsolo_take_cell. destruct (Nat.eqb (cache G0 g i) 0); [apply IH|reflexivity].
  Qed.

  Lemma find_slot_some g : forall rem i j, find_slot g rem i = Some j -> i <= j < i + rem /\ cache G0 g j <> 0.
  Proof.
    induction rem as [|r IH]; intros i j H; cbn in H; [discriminate|].
    destruct (Nat.eqb_spec (cache G0 g i) 0) as [E|E].
    - destruct (IH _ _ H). split; [lia|assumption].
    - injection H as <-. split; [lia|exact E].
  Qed.

  Lemma find_slot_none g : forall rem i, find_slot g rem i = None -> forall j, i <= j < i + rem -> cache G0 g j = 0.
  Proof.
    induction rem as [|r IH]; intros i H j Hj; [lia|]. cbn in H.
    destruct (Nat.eqb_spec (cache G0 g i) 0) as [E|E]; [|discriminate].
    destruct (Nat.eq_dec j i) as [->|Hne]; [exact E|]. apply (IH (S i) H). lia.
  Qed.

  (** the nodes the wrapper holds: backing list + non-empty slots *)
  Definition cont (g : CGG) (l : list nat) (n : nat) : Prop :=
    In n l \/ (n <> 0 /\ exists i, i < CACHE_SIZE /\ cache G0 g i = n).

  Definition wfc (g : CGG) (l : list nat) : Prop :=
    forall i, i < CACHE_SIZE -> cache G0 g i <> 0 ->
      ~ In (cache G0 g i) l /\ forall j, j < CACHE_SIZE -> cache G0 g j = cache G0 g i -> j = i.

  Definition nz (g : CGG) : nat :=
    List.length (filter (fun i => negb (Nat.eqb (cache G0 g i) 0)) (seq 0 CACHE_SIZE)).

  Lemma nz_clear g j : j < CACHE_SIZE -> cache G0 g j <> 0 -> S (nz (set_cache G0 g j 0)) = nz g.
  Proof.
    intros Hj Hn. unfold nz, CACHE_SIZE in *. cbn [seq filter set_cache cache].
    assert (E : Nat.eqb (cache G0 g j) 0 = false) by (apply Nat.eqb_neq; exact Hn).
    destruct j as [|[|[|[|j]]]]; [| | | |lia]; cbn [Nat.eqb]; rewrite E; cbn [negb];
      repeat match goal with |- context [Nat.eqb (cache G0 g ?x) 0] => destruct (Nat.eqb (cache G0 g x) 0) end; reflexivity.
  Qed.

  Lemma nz_zero g : nz g = 0 -> forall i, i < CACHE_SIZE -> cache G0 g i = 0.
  Proof.
    unfold nz, CACHE_SIZE. cbn [seq filter]. intros H i Hi.
    destruct i as [|[|[|[|i]]]]; [| | | |lia];
      repeat match type of H with context [Nat.eqb (cache G0 g ?x) 0] => destruct (Nat.eqb_spec (cache G0 g x) 0) end;
      cbn in H; try discriminate; assumption.
  Qed.

  (** one sequential get() of the wrapper *)
  Lemma cget_step f s (g : CGG) l : s < CACHE_SIZE -> sok (back G0 g) l -> wfc g l ->
    (List.length l + nz g = 0 /\ gsolo (cget G0 get0 (S f) s) g = (g, Some O)) \/
    (exists g' n l', gsolo (cget G0 get0 (S f) s) g = (g', Some n) /\ n <> 0 /\
       sok (back G0 g') l' /\ wfc g' l' /\ S (List.length l' + nz g') = List.length l + nz g /\
       ~ cont g' l' n /\ forall x, cont g l x <-> x = n \/ cont g' l' x).
  Proof.
    intros Hs Hok Hw. unfold cget. rewrite gsolo_take_cell.
    assert (Hclear : forall j, j < CACHE_SIZE -> cache G0 g j <> 0 ->
      exists g' n l', (set_cache G0 g j 0, Some (cache G0 g j)) = (g', Some n) /\ n <> 0 /\
        sok (back G0 g') l' /\ wfc g' l' /\ S (List.length l' + nz g') = List.length l + nz g /\
        ~ cont g' l' n /\ forall x, cont g l x <-> x = n \/ cont g' l' x).
    { intros j Hj Hn. exists (set_cache G0 g j 0), (cache G0 g j), l. split; [reflexivity|]. split; [exact Hn|].
      destruct (Hw j Hj Hn) as [Hnl Hinj].
      assert (Hc : forall i, cache G0 (set_cache G0 g j 0) i = if Nat.eqb i j then 0 else cache G0 g i) by reflexivity.
      split; [exact Hok|]. split; [|split; [|split]].
      - intros i Hi Hni. rewrite Hc in Hni |- *. destruct (Nat.eqb_spec i j) as [->|Hij]; [congruence|].
        destruct (Hw i Hi Hni) as [A B]. split; [exact A|]. intros j' Hj' E. rewrite Hc in E.
        destruct (Nat.eqb_spec j' j); [congruence|]. apply B; assumption.
      - rewrite <- (nz_clear g j Hj Hn). lia.
      - intros [Hin|[_ (i & Hi & E)]]; [contradiction|]. rewrite Hc in E.
        destruct (Nat.eqb_spec i j) as [->|Hij]; [congruence|]. apply Hij. apply Hinj; assumption.
      - intros x. unfold cont. split.
        + intros [Hin|[Hx (i & Hi & E)]]; [right; left; exact Hin|].
          destruct (Nat.eq_dec i j) as [->|Hij]; [left; congruence|]. right; right. split; [exact Hx|].
          exists i. split; [exact Hi|]. rewrite Hc. destruct (Nat.eqb_spec i j); [contradiction|exact E].
        + intros [->|[Hin|[Hx (i & Hi & E)]]].
          * right. split; [exact Hn|]. exists j. split; [exact Hj|reflexivity].
          * left; exact Hin.
          * right. split; [exact Hx|]. exists i. split; [exact Hi|]. rewrite Hc in E.
            destruct (Nat.eqb_spec i j); [congruence|exact E]. }
    destruct (Nat.eqb_spec (cache G0 g s) 0) as [Es|Es]; [|right; apply Hclear; assumption].
    cbn [gsolo Conc.bind]. 
    assert (Hb : forall R A (p : Conc.prog CGG V ev A) (q : A -> Conc.prog CGG V ev R) (gg : CGG),
               gsolo (Conc.bind p q) gg = gsolo (q (snd (gsolo p gg))) (fst (gsolo p gg))).
    { intros R A p. induction p as [r|es k IH|ff k IH]; intros q gg; cbn [Conc.bind gsolo]; auto.
      destruct (ff gg) as [[g1 v] es]. apply IH. }
    rewrite Hb, gsolo_lift. cbn [fst snd].
    destruct l as [|n r].
    - rewrite (sok_nil f _ Hok). cbn [fst snd]. rewrite gsolo_scan.
      assert (Eg : mkCG G0 (cache G0 g) (back G0 g) = g) by (destruct g; reflexivity). rewrite Eg.
      destruct (find_slot g CACHE_SIZE 0) as [j|] eqn:Ef.
      + right. destruct (find_slot_some g _ _ _ Ef) as [Hj Hn]. apply Hclear; [lia|exact Hn].
      + left. rewrite gsolo_lift, (sok_nil f _ Hok). cbn [fst snd]. rewrite Eg. split; [|reflexivity].
        cbn [List.length]. destruct (nz g) eqn:En; [reflexivity|]. exfalso.
        assert (Hall : forall i, i < CACHE_SIZE -> cache G0 g i = 0) by (intros i Hi; apply (find_slot_none g _ _ Ef); lia).
        unfold nz, CACHE_SIZE in *. cbn [seq filter] in En.
        rewrite !Hall in En by lia. cbn in En. discriminate.
    - destruct (sok_cons f _ _ _ Hok) as (g0' & E & Hok'). rewrite E. cbn [fst snd].
      destruct (sok_wf _ _ Hok) as [Hnd Hnz]. apply NoDup_cons_iff in Hnd. destruct Hnd as [Hnin Hnd].
      assert (Hn0 : n <> 0) by (intros ->; apply Hnz; left; reflexivity).
      right. destruct n as [|n']; [contradiction|]. exists (mkCG G0 (cache G0 g) g0'), (S n'), r.
      split; [reflexivity|]. split; [exact Hn0|]. cbn [back cache]. split; [exact Hok'|]. split; [|split; [|split]].
      + intros i Hi Hni. cbn [cache] in *. destruct (Hw i Hi Hni) as [A B]. split; [|exact B].
        intros Hin. apply A. right; exact Hin.
      + unfold nz. cbn [cache List.length]. lia.
      + intros [Hin|[_ (i & Hi & Ei)]]; [contradiction|]. cbn [cache] in Ei.
        assert (Hni : cache G0 g i <> 0) by congruence. destruct (Hw i Hi Hni) as [A _]. apply A. rewrite Ei. left; reflexivity.
      + intros x. unfold cont. cbn [cache In]. split.
        * intros [[<-|Hin]|Hc]; [left; reflexivity|right; left; exact Hin|right; right; exact Hc].
        * intros [->|[Hin|Hc]]; [left; left; reflexivity|left; right; exact Hin|right; exact Hc].
  Qed.

  Theorem cdrain_spec f s : s < CACHE_SIZE -> forall m (g : CGG) l c,
    List.length l + nz g = m -> sok (back G0 g) l -> wfc g l -> m < c ->
    NoDup (cdrain (S f) s c g) /\ forall x, In x (cdrain (S f) s c g) <-> cont g l x.
  Proof.
    intros Hs. induction m as [|m IH]; intros g l c Hm Hok Hw Hc; (destruct c as [|c]; [lia|]); cbn [cdrain].
    - destruct (cget_step f s g l Hs Hok Hw) as [[_ E]|(g' & n & l' & _ & _ & _ & _ & Hmeas & _)]; [|lia].
      rewrite E. split; [constructor|]. intros x. split; [intros []|].
      destruct l; [|cbn [List.length] in Hm; lia]. cbn [List.length] in Hm. assert (Hz : nz g = 0) by lia.
      intros [[]|[Hx (i & Hi & Ei)]]. rewrite (nz_zero g Hz i Hi) in Ei. congruence.
    - destruct (cget_step f s g l Hs Hok Hw) as [[Hz _]|(g' & n & l' & E & Hn & Hok' & Hw' & Hmeas & Hnc & Hcont)]; [lia|].
      rewrite E. destruct n as [|n']; [contradiction|].
      destruct (IH g' l' c ltac:(lia) Hok' Hw' ltac:(lia)) as [Hnd Hin]. split.
      + constructor; [|exact Hnd]. intros H. apply Hnc. apply Hin. exact H.
      + intros x. rewrite Hcont. cbn [In]. rewrite Hin. split; intros [A|B]; auto.
  Qed.
End CDrain.
