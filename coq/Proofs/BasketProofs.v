(** * BasketQueue model: chain well-formedness and "no loss, no duplication" for every schedule.

    What takes effect where:
      enqueue   the successful CAS of [t->next] - either null -> new node (the node becomes last) or, in the
                basket branch, s -> new node with new->next = s (the node enters right after [t])
      dequeue   the successful CAS that marks the pointer leaving the boundary node; the thread reached that
                node from its head through marked pointers, which pins its index in the deleted prefix
      free_chain moves head forward inside the deleted prefix (its index strictly grows, so a stale head
                value can never become current again). *)
From Coq Require Import ZArith List String Bool Lia PeanoNat.
From LV Require Import Base.Conc Base.Events Base.Lin Spec.Specs Proofs.LinProofs Model.Basket
  Proofs.MSQueueBase Proofs.BasketBase Proofs.BasketInv.
Import ListNotations.
Local Open Scope string_scope.
Local Open Scope list_scope.

Notation safe := (@Conc.safe G V ev Aux tview view Inv).

Lemma view_auxset a d b l hi t v : view (auxset a d b l hi t v) t = v.
Proof. unfold view, auxset. cbn. apply updv_same. Qed.
Lemma frame_auxset a d b l hi t v : Conc.frame view t a (auxset a d b l hi t v).
Proof. intros t' H. unfold view, auxset. cbn. now apply updv_other. Qed.
Lemma frame_refl t a : Conc.frame view t a a.
Proof. intros ? ?. reflexivity. Qed.

Lemma safe_act {R} t (f : act) (k : V -> prog R) l Q :
  (forall g a tr, Inv g a tr -> views a t = l ->
     exists d b lv hi v', Inv (fst (fst (f g))) (auxset a d b lv hi t v') (tr ++ Conc.tag t (snd (f g))) /\
                          safe t (k (snd (fst (f g)))) v' Q) ->
  safe t (Act f k) l Q.
Proof.
  intros H. cbn [Conc.safe]. intros g a tr HI Hv. destruct (H g a tr HI Hv) as (d & b & lv & hi & v' & A & B).
  exists (auxset a d b lv hi t v'). split; [exact A|]. split; [apply frame_auxset|].
  rewrite view_auxset. exact B.
Qed.

(** a step that changes only the thread's own view *)
Lemma safe_act_v {R} t (f : act) (k : V -> prog R) l Q :
  (forall g a tr, Inv g a tr -> views a t = l ->
     exists v', Inv (fst (fst (f g))) (auxv a t v') (tr ++ Conc.tag t (snd (f g))) /\
                safe t (k (snd (fst (f g)))) v' Q) ->
  safe t (Act f k) l Q.
Proof.
  intros H. apply safe_act. intros g a tr HI Hv. destruct (H g a tr HI Hv) as (v' & A & B).
  exists (dpre a), (bnd a), (live a), (hidx a), v'. split; [exact A|exact B].
Qed.

(** a step after which the thread's view is what it was *)
Lemma safe_act_keep {R} t (f : act) (k : V -> prog R) l Q :
  (forall g a tr, Inv g a tr -> views a t = l ->
     Inv (fst (fst (f g))) a (tr ++ Conc.tag t (snd (f g))) /\ safe t (k (snd (fst (f g)))) l Q) ->
  safe t (Act f k) l Q.
Proof.
  intros H. cbn [Conc.safe]. intros g a tr HI Hv. destruct (H g a tr HI Hv) as (A & B).
  exists a. split; [exact A|]. split; [apply frame_refl|]. rewrite Hv. exact B.
Qed.

Lemma safe_touch {R} t k o (p : prog R) l Q :
  safe t p l Q -> safe t (Act (touch k o) (fun _ => p)) l Q.
Proof.
  intros H. apply safe_act_keep. intros g a tr HI Hv. cbn [touch fst snd]. split; [apply Inv_acc; exact HI|exact H].
Qed.
Lemma safe_hp_assign {R} t s (p : prog R) l Q : safe t p l Q -> safe t (hp_assign t s p) l Q.
Proof. intros H. unfold hp_assign. apply safe_touch. apply safe_touch. exact H. Qed.
Lemma safe_hp_clear {R} t s (p : prog R) l Q : safe t p l Q -> safe t (hp_clear t s p) l Q.
Proof. intros H. unfold hp_clear. apply safe_touch. exact H. Qed.
Lemma safe_hp_copy {R} t d s (p : prog R) l Q : safe t p l Q -> safe t (hp_copy t d s p) l Q.
Proof. intros H. unfold hp_copy. apply safe_touch. apply safe_hp_assign. exact H. Qed.

Lemma safe_with_ic {R} cf t k d (p : prog R) l Q : safe t p l Q -> safe t (with_ic cf k d p) l Q.
Proof.
  intros H. unfold with_ic. destruct (c_ic cf); [|exact H].
  apply safe_act_keep. intros g a tr HI Hv. cbn [a_cnt fst snd].
  split; [apply Inv_acc; apply Inv_cnt; exact HI|exact H].
Qed.

Lemma safe_retire {R} cf t h (p : prog R) l Q : safe t p l Q -> safe t (retire cf t h p) l Q.
Proof.
  intros H. unfold retire. destruct (c_hp cf && negb (Nat.eqb h 0)); [|exact H].
  apply safe_touch. apply safe_touch. exact H.
Qed.

(** ** growing knowledge: [ext l l']: same status and private node, more facts *)
Definition ext (l l' : tview) : Prop :=
  tv_st l' = tv_st l /\ tv_priv l' = tv_priv l /\ tv_pnx l' = tv_pnx l /\
  incl (tv_inG l) (tv_inG l') /\ incl (tv_idx l) (tv_idx l') /\ (tv_hlow l <= tv_hlow l')%nat.

Lemma ext_refl l : ext l l.
Proof. repeat split; auto using incl_refl. Qed.
Lemma ext_trans l1 l2 l3 : ext l1 l2 -> ext l2 l3 -> ext l1 l3.
Proof.
  intros (A1 & A2 & A3 & A4 & A5 & A6) (B1 & B2 & B3 & B4 & B5 & B6).
  repeat split; try congruence; eauto using incl_tran; lia.
Qed.

Definition addG (l : tview) (xs : list nat) : tview :=
  mkTV (tv_st l) (tv_priv l) (tv_pnx l) (xs ++ tv_inG l) (tv_idx l) (tv_hlow l).

Lemma ext_addG l xs : ext l (addG l xs).
Proof. repeat split; cbn; auto using incl_refl, incl_appr. Qed.

(** a load after which the thread adds linked nodes to what it knows *)
Lemma step_addG g a tr t l xs k o b :
  Inv g a tr -> views a t = l -> (forall x, In x xs -> In x (GG a)) ->
  Inv g (auxv a t (addG l xs)) (tr ++ Conc.tag t [EvAcc k o b]).
Proof.
  intros HI Hv Hx. apply Inv_acc.
  pose proof (I_views _ _ _ HI t) as (P1 & P2 & P3 & P4). rewrite Hv in P1, P2, P3, P4.
  apply Inv_setv; try (rewrite Hv; reflexivity); cbn; auto.
  intros m Hm. apply in_app_or in Hm. destruct Hm; auto.
Qed.

Definition olist (p : option nat) : list nat := match p with Some x => [x] | None => [] end.

Lemma succ_in_GG g a tr y : Inv g a tr -> In y (GG a) -> forall x, In x (olist (fst (nxt g y))) -> In x (GG a).
Proof.
  intros HI Hy x Hx. destruct (fst (nxt g y)) as [z|] eqn:E; [|destruct Hx]. destruct Hx as [<-|[]].
  eapply linked_succ; [apply (I_linked _ _ _ HI)|exact Hy|exact E].
Qed.

Lemma inG_GG g a tr t l y : Inv g a tr -> views a t = l -> In y (tv_inG l) -> In y (GG a).
Proof. intros HI Hv Hy. pose proof (I_views _ _ _ HI t) as (_ & P2 & _). rewrite Hv in P2. auto. Qed.

Lemma mp_eqb_eq a b : mp_eqb a b = true -> a = b.
Proof.
  destruct a as [x m], b as [y m']. unfold mp_eqb. cbn [fst snd]. intros H.
  apply andb_prop in H. destruct H as [H1 H2]. apply Bool.eqb_prop in H2. subst m'.
  destruct x as [x|], y as [y|]; cbn in H1; try discriminate; [|reflexivity].
  apply Nat.eqb_eq in H1. now subst.
Qed.

(** ** protect loops that only collect linked nodes *)

(** result of loading [y->next] twice: the value returned is linked if non-null *)
Definition Qm (l : tview) : option mptr -> tview -> Prop :=
  fun r l' => match r with
              | Some pn => ext l l' /\ (forall x, fst pn = Some x -> In x (tv_inG l'))
              | None => True
              end.

Lemma safe_protect_m fuel : forall t s y l,
  In y (tv_inG l) -> safe t (protect_m fuel t s y) l (Qm l).
Proof.
  induction fuel as [|f IH]; intros t s y l Hy; cbn [protect_m]; [exact I|].
  apply safe_act_keep. intros g a tr HI Hv. cbn [a_ld_next fst snd vm]. split; [apply Inv_acc; exact HI|].
  set (r := nxt g y). clearbody r. clear g a tr HI Hv.
  apply safe_hp_assign.
  apply safe_act_v. intros g a tr HI Hv. cbn [a_ld_next fst snd vm].
  exists (addG l (olist (fst (nxt g y)))). split.
  { eapply step_addG; eauto. eapply succ_in_GG; eauto. eapply inG_GG; eauto. }
  destruct (mp_eqb (nxt g y) r) eqn:E.
  - apply mp_eqb_eq in E. subst r. split; [apply ext_addG|].
    intros x Ex. cbn. rewrite Ex. cbn. now left.
  - eapply Conc.safe_weaken; [|apply IH; cbn; apply in_or_app; right; exact Hy].
    intros [pn|] l' Hl; [|exact I]. destruct Hl as (E1 & E2). split; [|exact E2].
    eapply ext_trans; [apply ext_addG|exact E1].
Qed.

Lemma safe_gprotect_m_loop fuel : forall t s y l pcur,
  In y (tv_inG l) -> (forall x, fst pcur = Some x -> In x (tv_inG l)) ->
  safe t (gprotect_m_loop fuel t s y pcur) l (Qm l).
Proof.
  induction fuel as [|f IH]; intros t s y l pcur Hy Hp; cbn [gprotect_m_loop]; [exact I|].
  apply safe_hp_assign.
  apply safe_act_v. intros g a tr HI Hv. cbn [a_ld_next fst snd vm].
  exists (addG l (olist (fst (nxt g y)))). split.
  { eapply step_addG; eauto. eapply succ_in_GG; eauto. eapply inG_GG; eauto. }
  destruct (mp_eqb (nxt g y) pcur) eqn:E.
  - split; [apply ext_addG|]. intros x Ex. cbn. apply in_or_app. right. auto.
  - eapply Conc.safe_weaken; [|apply IH].
    + intros [pn|] l' Hl; [|exact I]. destruct Hl as (E1 & E2). split; [|exact E2].
      eapply ext_trans; [apply ext_addG|exact E1].
    + cbn. apply in_or_app. right. exact Hy.
    + intros x Ex. cbn. rewrite Ex. cbn. now left.
Qed.

Lemma safe_gprotect_m fuel t s y l :
  In y (tv_inG l) -> safe t (gprotect_m fuel t s y) l (Qm l).
Proof.
  intros Hy. unfold gprotect_m.
  apply safe_act_v. intros g a tr HI Hv. cbn [a_ld_next fst snd vm].
  exists (addG l (olist (fst (nxt g y)))). split.
  { eapply step_addG; eauto. eapply succ_in_GG; eauto. eapply inG_GG; eauto. }
  eapply Conc.safe_weaken; [|apply safe_gprotect_m_loop].
  - intros [pn|] l' Hl; [|exact I]. destruct Hl as (E1 & E2). split; [|exact E2].
    eapply ext_trans; [apply ext_addG|exact E1].
  - cbn. apply in_or_app. right. exact Hy.
  - intros x Ex. cbn. rewrite Ex. cbn. now left.
Qed.

(** Guard::protect( m_pTail ): the value returned is linked *)
Definition Qn (l : tview) : option nat -> tview -> Prop :=
  fun r l' => match r with Some x => ext l l' /\ In x (tv_inG l') | None => True end.

Lemma safe_gprotect_tail_loop fuel : forall t s l pcur,
  In pcur (tv_inG l) -> safe t (gprotect_tail_loop fuel t s pcur) l (Qn l).
Proof.
  induction fuel as [|f IH]; intros t s l pcur Hp; cbn [gprotect_tail_loop]; [exact I|].
  apply safe_hp_assign.
  apply safe_act_v. intros g a tr HI Hv. cbn [a_ld_tail fst snd vn].
  exists (addG l [tail g]). split.
  { eapply step_addG; eauto. intros x [<-|[]]. apply (I_tail _ _ _ HI). }
  destruct (Nat.eqb (tail g) pcur).
  - split; [apply ext_addG|]. cbn. right. exact Hp.
  - eapply Conc.safe_weaken; [|apply IH; cbn; now left].
    intros [x|] l' Hl; [|exact I]. destruct Hl as (E1 & E2). split; [|exact E2].
    eapply ext_trans; [apply ext_addG|exact E1].
Qed.

Lemma safe_gprotect_tail fuel t s l : safe t (gprotect_tail fuel t s) l (Qn l).
Proof.
  unfold gprotect_tail.
  apply safe_act_v. intros g a tr HI Hv. cbn [a_ld_tail fst snd vn].
  exists (addG l [tail g]). split.
  { eapply step_addG; eauto. intros x [<-|[]]. apply (I_tail _ _ _ HI). }
  eapply Conc.safe_weaken; [|apply safe_gprotect_tail_loop; cbn; now left].
  intros [x|] l' Hl; [|exact I]. destruct Hl as (E1 & E2). split; [|exact E2].
  eapply ext_trans; [apply ext_addG|exact E1].
Qed.

(** a load of tail / head that teaches nothing *)
Lemma safe_ld_keep {R} t (ld : act) (k : V -> prog R) l Q :
  (forall g, fst (fst (ld g)) = g /\ exists kk o b, snd (ld g) = [EvAcc kk o b]) ->
  (forall v, safe t (k v) l Q) -> safe t (Act ld k) l Q.
Proof.
  intros Hld Hk. apply safe_act_keep. intros g a tr HI Hv.
  destruct (Hld g) as (E1 & kk & o & b & E2). rewrite E1, E2. split; [apply Inv_acc; exact HI|apply Hk].
Qed.

Lemma ld_tail_plain g : fst (fst (a_ld_tail g)) = g /\ exists kk o b, snd (a_ld_tail g) = [EvAcc kk o b].
Proof. cbn. eauto. Qed.
Lemma ld_head_plain g : fst (fst (a_ld_head g)) = g /\ exists kk o b, snd (a_ld_head g) = [EvAcc kk o b].
Proof. cbn. eauto. Qed.
Lemma ld_next_plain y g : fst (fst (a_ld_next y g)) = g /\ exists kk o b, snd (a_ld_next y g) = [EvAcc kk o b].
Proof. cbn. eauto. Qed.

(** ** enqueue *)
Definition shE (v : Z) (n : nat) (l : tview) : Prop := tv_st l = PPend (Enq v) /\ tv_priv l = Some n.
Definition linE (l : tview) : Prop := tv_st l = PLin (RBool true) /\ tv_priv l = None.

Lemma shE_ext v n l l' : shE v n l -> ext l l' -> shE v n l'.
Proof. intros (A & B) (E1 & E2 & _). split; congruence. Qed.

Lemma shE_view v n l : shE v n l -> l = mkTV (PPend (Enq v)) (Some n) (tv_pnx l) (tv_inG l) (tv_idx l) (tv_hlow l).
Proof. destruct l; unfold shE; cbn. intros (E1 & E2). subst. reflexivity. Qed.

(** the node is linked: both kinds of successful CAS on [tl->next] *)
Lemma link_step g a tr t v n l tl pn :
  Inv g a tr -> views a t = l -> shE v n l -> tv_pnx l = pn -> snd pn = false -> In tl (tv_inG l) ->
  nxt g tl = pn ->
  exists d b lv hi v', Inv (set_next g tl (Some n, false)) (auxset a d b lv hi t v') tr /\ linE v' /\ In n (tv_inG v').
Proof.
  intros HI Hv Hs Hp Hm Hin Hnx. rewrite (shE_view _ _ _ Hs) in Hv. rewrite Hp in Hv.
  destruct pn as [[s|] m]; cbn in Hm; subst m.
  - destruct (Inv_link_basket _ _ _ _ _ _ _ _ _ _ _ HI Hv Hin Hnx) as (k & HI').
    do 5 eexists. split; [exact HI'|]. split; [split; reflexivity|cbn; now left].
  - do 5 eexists. split; [eapply Inv_link_end; eauto|]. split; [split; reflexivity|cbn; now left].
Qed.

Definition Qtry (v : Z) (n : nat) : option bool -> tview -> Prop :=
  fun r l' => match r with
              | Some true => linE l'
              | Some false => shE v n l'
              | None => True
              end.

Lemma safe_try_again fuel : forall t s1 tl n v l,
  shE v n l -> In tl (tv_inG l) -> safe t (try_again fuel t s1 tl n) l (Qtry v n).
Proof.
  induction fuel as [|f IH]; intros t s1 tl n v l Hs Hin; cbn [try_again]; [exact I|].
  apply Conc.safe_bind. eapply Conc.safe_weaken; [|apply safe_gprotect_m; exact Hin].
  intros [pn|] l1 Hl; [|exact I]. destruct Hl as (E1 & _).
  pose proof (shE_ext _ _ _ _ Hs E1) as Hs1.
  assert (Hin1 : In tl (tv_inG l1)) by (apply E1; exact Hin).
  apply safe_ld_keep; [apply ld_tail_plain|]. intros r.
  destruct (negb (Nat.eqb (vn r) tl)); [exact Hs1|].
  apply safe_ld_keep; [apply ld_next_plain|]. intros r2.
  destruct (mp_eqb (vm r2) pn && negb (snd pn)) eqn:Ec; [|exact Hs1].
  apply andb_prop in Ec. destruct Ec as [_ Em]. apply negb_true_iff in Em.
  (* pNew->m_pNext.store( pNext ) *)
  apply safe_act_v. intros g a tr HI Hv. cbn [a_st_next fst snd].
  exists (mkTV (PPend (Enq v)) (Some n) pn (tv_inG l1) (tv_idx l1) (tv_hlow l1)). split.
  { apply Inv_acc. rewrite (shE_view _ _ _ Hs1) in Hv. eapply Inv_st_next_priv; eauto. }
  clear g a tr HI Hv.
  (* t->m_pNext.compare_exchange_weak( pNext, pNew ) *)
  apply safe_act. intros g a tr HI Hv. unfold a_cas_next.
  destruct (mp_eqb (nxt g tl) pn) eqn:Ecas; cbn [fst snd vb].
  - apply mp_eqb_eq in Ecas.
    destruct (link_step _ _ _ _ v n _ tl pn HI Hv) as (d & b & lv & hi & v' & HI' & Hl' & _); auto; try (split; reflexivity).
    exists d, b, lv, hi, v'. split; [apply Inv_acc; exact HI'|exact Hl'].
  - exists (dpre a), (bnd a), (live a), (hidx a), (mkTV (PPend (Enq v)) (Some n) pn (tv_inG l1) (tv_idx l1) (tv_hlow l1)).
    split.
    + apply Inv_acc. pose proof (I_views _ _ _ HI t) as (P1 & P2 & P3 & P4). rewrite Hv in P1, P2, P3, P4.
      apply Inv_setv; try (rewrite Hv; reflexivity); auto.
    + apply IH; [split; reflexivity|exact Hin1].
Qed.

Definition Qadv (l : tview) : option (bool * nat) -> tview -> Prop :=
  fun r l' => match r with Some (_, pl) => ext l l' /\ In pl (tv_inG l') | None => True end.

Lemma safe_adv_loop fuel : forall t c d tl pn l,
  In pn (tv_inG l) -> safe t (adv_loop fuel t c d tl pn) l (Qadv l).
Proof.
  induction fuel as [|f IH]; intros t c d tl pn l Hin; cbn [adv_loop]; [exact I|].
  apply safe_act_v. intros g a tr HI Hv. cbn [a_ld_next fst snd vm].
  exists (addG l (olist (fst (nxt g pn)))). split.
  { eapply step_addG; eauto. eapply succ_in_GG; eauto. eapply inG_GG; eauto. }
  assert (Hin' : In pn (tv_inG (addG l (olist (fst (nxt g pn)))))) by (cbn; apply in_or_app; now right).
  destruct (fst (nxt g pn)) as [p|] eqn:Ep.
  2:{ split; [apply ext_addG|exact Hin']. }
  set (l1 := addG l (olist (Some p))) in *.
  set (r := nxt g pn). clearbody r. clear g a tr HI Hv Ep.
  apply safe_ld_keep; [apply ld_tail_plain|]. intros r2.
  destruct (negb (Nat.eqb (vn r2) tl)).
  { split; [apply ext_addG|exact Hin']. }
  apply safe_hp_assign.
  apply safe_ld_keep; [apply ld_next_plain|]. intros r3.
  destruct (negb (mp_eqb (vm r3) r)).
  - eapply Conc.safe_weaken; [|apply IH; exact Hin'].
    intros [[bb pl]|] l' Hl; [|exact I]. destruct Hl as (E1 & E2). split; [|exact E2].
    eapply ext_trans; [apply ext_addG|exact E1].
  - apply safe_hp_copy. eapply Conc.safe_weaken; [|apply (IH t c d tl p l1); cbn; now left].
    intros [[bb pl]|] l' Hl; [|exact I]. destruct Hl as (E1 & E2). split; [|exact E2].
    eapply ext_trans; [apply ext_addG|exact E1].
Qed.

Definition Qenq : option (nat * nat) -> tview -> Prop :=
  fun r l' => match r with Some _ => linE l' | None => True end.

Lemma safe_enq_loop cf fuel : forall t s0 s1 c d n v l,
  shE v n l -> safe t (enq_loop cf fuel t s0 s1 c d n) l Qenq.
Proof.
  induction fuel as [|f IH]; intros t s0 s1 c d n v l Hs; cbn [enq_loop]; [exact I|].
  apply Conc.safe_bind. eapply Conc.safe_weaken; [|apply safe_gprotect_tail].
  intros [tl|] l1 Hl; [|exact I]. destruct Hl as (E1 & Hin1).
  pose proof (shE_ext _ _ _ _ Hs E1) as Hs1.
  (* pNext = t->m_pNext.load() *)
  apply safe_act_v. intros g a tr HI Hv. cbn [a_ld_next fst snd vm].
  exists (addG l1 (olist (fst (nxt g tl)))). split.
  { eapply step_addG; eauto. eapply succ_in_GG; eauto. eapply inG_GG; eauto. }
  assert (Hs2 : shE v n (addG l1 (olist (fst (nxt g tl))))) by (eapply shE_ext; [exact Hs1|apply ext_addG]).
  assert (Hin2 : In tl (tv_inG (addG l1 (olist (fst (nxt g tl)))))) by (cbn; apply in_or_app; now right).
  destruct (nxt g tl) as [[p0|] b0] eqn:Enx; cbn [fst olist] in *.
  - (* tail is misplaced *)
    set (l2 := addG l1 [p0]) in *. clear g a tr HI Hv Enx.
    assert (Hretry : forall c' d', safe t (hp_clear t c (hp_clear t d (enq_loop cf f t s0 s1 c' d' n))) l2 Qenq).
    { intros c' d'. apply safe_hp_clear. apply safe_hp_clear. apply (IH _ _ _ _ _ _ v). exact Hs2. }
    apply safe_hp_assign.
    apply safe_ld_keep; [apply ld_tail_plain|]. intros r2.
    destruct (negb (Nat.eqb (vn r2) tl)); [apply Hretry|].
    apply safe_ld_keep; [apply ld_next_plain|]. intros r3.
    destruct (negb (mp_eqb (vm r3) (Some p0, b0))); [apply Hretry|].
    apply Conc.safe_bind. eapply Conc.safe_weaken; [|apply safe_adv_loop; cbn; now left].
    intros [[bb pl]|] l3 Hl; [|exact I]. destruct Hl as (E3 & Hin3).
    pose proof (shE_ext _ _ _ _ Hs2 E3) as Hs3.
    assert (Hretry3 : forall c' d', safe t (hp_clear t c (hp_clear t d (enq_loop cf f t s0 s1 c' d' n))) l3 Qenq).
    { intros c' d'. apply safe_hp_clear. apply safe_hp_clear. apply (IH _ _ _ _ _ _ v). exact Hs3. }
    destruct bb; [|apply Hretry3].
    apply safe_act_keep. intros g a tr HI Hv. unfold a_cas_tail.
    destruct (Nat.eqb (tail g) tl); cbn [fst snd]; (split; [|apply Hretry3]).
    + apply Inv_acc. apply Inv_tail; [exact HI|]. eapply inG_GG; eauto.
    + apply Inv_acc. exact HI.
  - (* t is the last node: try to link *)
    set (l2 := addG l1 []) in *. clear g a tr HI Hv Enx.
    apply safe_act_v. intros g a tr HI Hv. cbn [a_st_next fst snd].
    exists (mkTV (PPend (Enq v)) (Some n) mnull (tv_inG l2) (tv_idx l2) (tv_hlow l2)). split.
    { apply Inv_acc. rewrite (shE_view _ _ _ Hs2) in Hv. eapply Inv_st_next_priv; eauto. }
    clear g a tr HI Hv.
    set (l3 := mkTV (PPend (Enq v)) (Some n) mnull (tv_inG l2) (tv_idx l2) (tv_hlow l2)).
    assert (Hs3 : shE v n l3) by (split; reflexivity).
    apply safe_act. intros g a tr HI Hv. unfold a_cas_next.
    destruct (mp_eqb (nxt g tl) (None, b0)) eqn:Ecas; cbn [fst snd vb].
    + apply mp_eqb_eq in Ecas.
      exists (dpre a), (bnd a), (live a ++ [n]), (hidx a), (mkTV (PLin (RBool true)) None mnull [n] [] 0). split.
      { apply Inv_acc. eapply Inv_link_end; eauto. }
      clear g a tr HI Hv Ecas.
      apply safe_act_keep. intros g a tr HI Hv. unfold a_cas_tail.
      destruct (Nat.eqb (tail g) tl); cbn [fst snd]; (split; [|split; reflexivity]).
      * apply Inv_acc. apply Inv_tail; [exact HI|]. eapply inG_GG; eauto. cbn. now left.
      * apply Inv_acc. exact HI.
    + exists (dpre a), (bnd a), (live a), (hidx a), l3. split.
      { apply Inv_acc. pose proof (I_views _ _ _ HI t) as (P1 & P2 & P3 & P4). rewrite Hv in P1, P2, P3, P4.
        apply Inv_setv; try (rewrite Hv; reflexivity); auto. }
      apply Conc.safe_bind. eapply Conc.safe_weaken; [|apply (safe_try_again f t s1 tl n v l3 Hs3); exact Hin2].
      intros [[|]|] l4 Hl; cbn in Hl; [exact Hl| |exact I].
      apply (IH _ _ _ _ _ _ v). exact Hl.
Qed.

Definition VPE (v : Z) : tview := mkTV (PPend (Enq v)) None mnull [] [] 0.

Lemma safe_enqueue cf fuel t s0 s1 c d v :
  safe t (enqueue cf fuel t s0 s1 c d v) (VPE v) Qenq.
Proof.
  unfold enqueue. apply safe_act_v. intros g a tr HI Hv.
  exists (mkTV (PPend (Enq v)) (Some (nalloc g)) mnull [] [] 0). split.
  { apply Inv_acc. eapply Inv_alloc; eauto. }
  cbn [a_alloc fst snd vn]. apply Conc.safe_bind.
  eapply Conc.safe_weaken; [|apply (safe_enq_loop cf fuel t s0 s1 c d (nalloc g) v); split; reflexivity].
  intros [cd|] l Hl; cbn in Hl; [|exact I].
  apply safe_with_ic. apply safe_hp_clear. apply safe_hp_clear. exact Hl.
Qed.

(** ** dequeue *)
Definition shD (l : tview) : Prop := tv_st l = PPend Deq /\ tv_priv l = None /\ tv_pnx l = mnull.

Lemma shD_ext l l' : shD l -> ext l l' -> shD l'.
Proof. intros (A & B & C) (E1 & E2 & E3 & _). repeat split; congruence. Qed.

Lemma shD_view l : shD l -> l = mkTV (PPend Deq) None mnull (tv_inG l) (tv_idx l) (tv_hlow l).
Proof. destruct l; unfold shD; cbn. intros (E1 & E2 & E3). subst. reflexivity. Qed.

(** a load after which the thread replaces its facts by a superset *)
Lemma step_facts g a tr t l v' k o b :
  Inv g a tr -> views a t = l ->
  tv_st v' = tv_st l -> tv_priv v' = tv_priv l -> tv_pnx v' = tv_pnx l ->
  (forall m, In m (tv_inG v') -> In m (tv_inG l) \/ In m (GG a)) ->
  (forall x i, In (x, i) (tv_idx v') ->
     In (x, i) (tv_idx l) \/ (nth_error (GG a) i = Some x /\ (i <= List.length (dpre a))%nat)) ->
  (tv_hlow v' <= tv_hlow l \/ tv_hlow v' <= hidx a)%nat ->
  Inv g (auxv a t v') (tr ++ Conc.tag t [EvAcc k o b]).
Proof.
  intros HI Hv E1 E2 E3 F1 F2 F3. apply Inv_acc.
  pose proof (I_views _ _ _ HI t) as (P1 & P2 & P3 & P4). rewrite Hv in P1, P2, P3, P4.
  apply Inv_setv; [exact HI|rewrite Hv; assumption|rewrite Hv; assumption|rewrite Hv; assumption| | |].
  - intros m Hm. destruct (F1 m Hm); auto.
  - intros x i Hx. destruct (F2 x i Hx); auto.
  - destruct F3; lia.
Qed.

Lemma idx_fact g a tr t l x i : Inv g a tr -> views a t = l -> In (x, i) (tv_idx l) ->
  nth_error (GG a) i = Some x /\ (i <= List.length (dpre a))%nat.
Proof. intros HI Hv Hx. pose proof (I_views _ _ _ HI t) as (_ & _ & P3 & _). rewrite Hv in P3. auto. Qed.

Lemma hlow_fact g a tr t l : Inv g a tr -> views a t = l -> (tv_hlow l <= hidx a)%nat.
Proof. intros HI Hv. pose proof (I_views _ _ _ HI t) as (_ & _ & _ & P4). now rewrite Hv in P4. Qed.

(** two indexed facts about the same index / the head *)
Lemma head_idx g a tr x i :
  Inv g a tr -> nth_error (GG a) i = Some x -> head g = x -> hidx a = i.
Proof.
  intros HI Ei Eh. destruct (I_head _ _ _ HI) as (E1 & _).
  apply (proj1 (NoDup_nth_error (GG a)) (I_nodup _ _ _ HI)).
  - apply nth_error_Some. congruence.
  - rewrite E1, Ei. congruence.
Qed.

Definition Qhead (l : tview) : option nat -> tview -> Prop :=
  fun r l' => match r with
              | Some h => ext l l' /\ In h (tv_inG l') /\ exists i, In (h, i) (tv_idx l') /\ (i <= tv_hlow l')%nat
              | None => True
              end.

Lemma safe_protect_head fuel : forall t s l, safe t (protect_n fuel t s a_ld_head) l (Qhead l).
Proof.
  induction fuel as [|f IH]; intros t s l; cbn [protect_n]; [exact I|].
  apply safe_ld_keep; [apply ld_head_plain|]. intros r.
  apply safe_hp_assign.
  apply safe_act_v. intros g a tr HI Hv. cbn [a_ld_head fst snd vn].
  set (l1 := mkTV (tv_st l) (tv_priv l) (tv_pnx l) (head g :: tv_inG l) ((head g, hidx a) :: tv_idx l) (hidx a)).
  assert (E1 : ext l l1).
  { repeat split; cbn; auto using incl_tl, incl_refl. eapply hlow_fact; eauto. }
  exists l1. split.
  { destruct (I_head _ _ _ HI) as (A1 & A2).
    eapply (step_facts g a tr t l l1); [exact HI|exact Hv|reflexivity|reflexivity|reflexivity| | |]; cbn.
    - intros m [<-|Hm]; [right; eapply nth_error_In; eauto|now left].
    - intros x i [E|Hx]; [injection E as <- <-; right; auto|now left].
    - right. lia. }
  destruct (Nat.eqb_spec (head g) (vn r)) as [<-|Hne].
  - split; [exact E1|]. split; [cbn; now left|]. exists (hidx a). split; [cbn; now left|cbn; lia].
  - eapply Conc.safe_weaken; [|apply IH].
    intros [h|] l' Hl; [|exact I]. destruct Hl as (E2 & R). split; [eapply ext_trans; eauto|exact R].
Qed.

Lemma safe_protect_tail fuel : forall t s l, safe t (protect_n fuel t s a_ld_tail) l (Qn l).
Proof.
  induction fuel as [|f IH]; intros t s l; cbn [protect_n]; [exact I|].
  apply safe_ld_keep; [apply ld_tail_plain|]. intros r.
  apply safe_hp_assign.
  apply safe_act_v. intros g a tr HI Hv. cbn [a_ld_tail fst snd vn].
  exists (addG l [tail g]). split.
  { eapply step_addG; eauto. intros x [<-|[]]. apply (I_tail _ _ _ HI). }
  destruct (Nat.eqb_spec (tail g) (vn r)) as [<-|Hne].
  - split; [apply ext_addG|cbn; now left].
  - eapply Conc.safe_weaken; [|apply IH].
    intros [x|] l' Hl; [|exact I]. destruct Hl as (E1 & E2). split; [|exact E2].
    eapply ext_trans; [apply ext_addG|exact E1].
Qed.

(** protect( 2, y->next ) when the index of y in the deleted prefix is known: a marked pointer leads to the
    node at the next index, which is deleted too *)
Definition Qmi (l : tview) (j : nat) : option mptr -> tview -> Prop :=
  fun r l' => match r with
              | Some pn => ext l l' /\ (forall x, fst pn = Some x -> In x (tv_inG l')) /\
                           (forall x, fst pn = Some x -> snd pn = true -> In (x, S j) (tv_idx l'))
              | None => True
              end.

Lemma safe_protect_m_idx fuel : forall t s y j l,
  In y (tv_inG l) -> In (y, j) (tv_idx l) -> safe t (protect_m fuel t s y) l (Qmi l j).
Proof.
  induction fuel as [|f IH]; intros t s y j l Hy Hj; cbn [protect_m]; [exact I|].
  apply safe_ld_keep; [apply ld_next_plain|]. intros r.
  apply safe_hp_assign.
  apply safe_act_v. intros g a tr HI Hv. cbn [a_ld_next fst snd vm].
  set (xi := match nxt g y with (Some x, true) => [(x, S j)] | _ => [] end).
  set (l1 := mkTV (tv_st l) (tv_priv l) (tv_pnx l) (olist (fst (nxt g y)) ++ tv_inG l) (xi ++ tv_idx l) (tv_hlow l)).
  assert (E1 : ext l l1) by (repeat split; cbn; auto using incl_appr, incl_refl).
  exists l1. split.
  { eapply (step_facts g a tr t l l1); [exact HI|exact Hv|reflexivity|reflexivity|reflexivity| | |]; cbn.
    - intros m Hm. apply in_app_or in Hm. destruct Hm as [Hm|Hm]; [right|now left].
      eapply succ_in_GG; eauto. eapply inG_GG; eauto.
    - intros x i Hx. apply in_app_or in Hx. destruct Hx as [Hx|Hx]; [right|now left].
      unfold xi in Hx. destruct (nxt g y) as [[x0|] [|]] eqn:En; cbn in Hx; try contradiction.
      destruct Hx as [Hx|[]]. injection Hx as <- <-.
      destruct (idx_fact _ _ _ _ _ _ _ HI Hv Hj) as (Ej & Lj).
      assert (j <> List.length (dpre a)).
      { intros ->. unfold GG in Ej. rewrite nth_error_app2, Nat.sub_diag in Ej by lia. cbn in Ej. injection Ej as Ej.
        pose proof (I_mpost _ _ _ HI y (or_introl Ej)) as Hm. rewrite En in Hm. discriminate. }
      split; [|lia]. eapply linked_nth; [apply (I_linked _ _ _ HI)|exact Ej|]. unfold nptr. now rewrite En.
    - left. lia. }
  destruct (mp_eqb (nxt g y) (vm r)) eqn:E.
  - apply mp_eqb_eq in E. rewrite <- E. split; [exact E1|]. split.
    + intros x Ex. cbn. rewrite Ex. cbn. now left.
    + intros x Ex Em. cbn. apply in_or_app. left. unfold xi. destruct (nxt g y) as [[x0|] [|]]; cbn in *; try discriminate.
      injection Ex as ->. now left.
  - eapply Conc.safe_weaken; [|apply (IH t s y j l1)].
    + intros [pn|] l' Hl; [|exact I]. destruct Hl as (E2 & R). split; [eapply ext_trans; eauto|exact R].
    + cbn. apply in_or_app. now right.
    + cbn. apply in_or_app. now right.
Qed.

Lemma safe_protect_m_plain fuel : forall t s y l, safe t (protect_m fuel t s y) l (fun _ l' => l' = l).
Proof.
  induction fuel as [|f IH]; intros t s y l; cbn [protect_m]; [reflexivity|].
  apply safe_ld_keep; [apply ld_next_plain|]. intros r. apply safe_hp_assign.
  apply safe_ld_keep; [apply ld_next_plain|]. intros r2.
  destruct (mp_eqb (vm r2) (vm r)); [reflexivity|apply IH].
Qed.

(** *** free_chain *)
Lemma safe_free_loop cf fuel : forall t a b cur nh l, safe t (free_loop cf fuel t a b cur nh) l (fun _ l' => l' = l).
Proof.
  induction fuel as [|f IH]; intros t a b cur nh l; cbn [free_loop]; [reflexivity|].
  destruct (Nat.eqb cur nh); [reflexivity|].
  apply Conc.safe_bind. eapply Conc.safe_weaken; [|apply safe_protect_m_plain].
  intros [pn|] l' ->; [|reflexivity].
  apply safe_retire. apply safe_hp_copy. destruct (fst pn); [apply IH|reflexivity].
Qed.

Lemma safe_free_chain cf fuel t ea eb h i nh j l :
  In (h, i) (tv_idx l) -> In (nh, j) (tv_idx l) -> (i < j)%nat ->
  safe t (free_chain cf fuel t ea eb h nh) l (fun _ l' => l' = l).
Proof.
  intros Hi Hj Hlt. unfold free_chain.
  apply safe_act. intros g a tr HI Hv. unfold a_cas_head.
  destruct (Nat.eqb_spec (head g) h) as [Eh|Hne]; cbn [fst snd vb].
  - exists (dpre a), (bnd a), (live a), j, l. split.
    { apply Inv_acc. rewrite <- Hv. eapply Inv_headcas; eauto; rewrite Hv; eauto. }
    apply safe_hp_assign. apply Conc.safe_bind. eapply Conc.safe_weaken; [|apply safe_free_loop].
    intros [u|] l' ->; [|reflexivity]. apply safe_hp_clear. apply safe_hp_clear. reflexivity.
  - exists (dpre a), (bnd a), (live a), (hidx a), l. split; [|reflexivity].
    apply Inv_acc. pose proof (I_views _ _ _ HI t) as (P1 & P2 & P3 & P4). rewrite Hv in P1, P2, P3, P4.
    apply Inv_setv; try (rewrite Hv; reflexivity); auto.
Qed.

(** *** h == t: look for the last node *)
Lemma safe_fixtail_loop fuel : forall t s2 sg tl pn l,
  In pn (tv_inG l) ->
  safe t (fixtail_loop fuel t s2 sg tl pn) l
       (fun r l' => match r with Some pl => ext l l' /\ In pl (tv_inG l') | None => True end).
Proof.
  induction fuel as [|f IH]; intros t s2 sg tl pn l Hin; cbn [fixtail_loop]; [exact I|].
  apply safe_ld_keep; [apply ld_next_plain|]. intros r.
  destruct (fst (vm r)); [|split; [apply ext_refl|exact Hin]].
  apply safe_ld_keep; [apply ld_tail_plain|]. intros r2.
  destruct (negb (Nat.eqb (vn r2) tl)); [split; [apply ext_refl|exact Hin]|].
  apply Conc.safe_bind. eapply Conc.safe_weaken; [|apply safe_gprotect_m; exact Hin].
  intros [q|] l1 Hl; [|exact I]. destruct Hl as (E1 & Hq).
  apply safe_hp_copy. destruct (fst q) as [x|] eqn:Eq; [|exact I].
  eapply Conc.safe_weaken; [|apply IH; apply Hq; reflexivity].
  intros [pl|] l' Hl; [|exact I]. destruct Hl as (E2 & R). split; [eapply ext_trans; eauto|exact R].
Qed.

(** *** the hop loop *)
Definition Qhop (l : tview) (i tl : nat) : option (nat * mptr * nat) -> tview -> Prop :=
  fun r l' => match r with
              | Some (iter, pn, _) =>
                  ext l l' /\ (forall x, fst pn = Some x -> In x (tv_inG l')) /\
                  (exists j, In (iter, j) (tv_idx l') /\ (i <= j)%nat) /\
                  (snd pn = false \/ fst pn = None \/ iter = tl \/ (i < tv_hlow l')%nat)
              | None => True
              end.

Lemma safe_hop_loop fuel : forall t s2 sg h i tl iter j pn hops l,
  In (h, i) (tv_idx l) -> (i <= tv_hlow l)%nat ->
  In (iter, j) (tv_idx l) -> (i <= j)%nat ->
  (forall x, fst pn = Some x -> In x (tv_inG l)) ->
  (forall x, fst pn = Some x -> snd pn = true -> In (x, S j) (tv_idx l)) ->
  safe t (hop_loop fuel t s2 sg h tl iter pn hops) l (Qhop l i tl).
Proof.
  induction fuel as [|f IH]; intros t s2 sg h i tl iter j pn hops l Hh Hhl Hit Hij Hp1 Hp2; cbn [hop_loop]; [exact I|].
  destruct (fst pn) as [x|] eqn:Ep.
  2:{ cbn. split; [apply ext_refl|]. split; [intros x0 E; congruence|]. split; [eauto|]. right. now left. }
  destruct (snd pn && negb (Nat.eqb iter tl)) eqn:Ec.
  2:{ cbn. split; [apply ext_refl|]. split; [intros x0 E; apply Hp1; congruence|]. split; [eauto|].
      apply andb_false_iff in Ec. destruct Ec as [Ec|Ec]; [now left|].
      right. right. left. apply negb_false_iff in Ec. now apply Nat.eqb_eq in Ec. }
  apply andb_prop in Ec. destruct Ec as [Em _].
  apply safe_act_v. intros g a tr HI Hv. cbn [a_ld_head fst snd vn].
  destruct (Nat.eqb_spec (head g) h) as [Eh|Hne]; cbn [negb].
  - exists l. split.
    { apply Inv_acc. pose proof (I_views _ _ _ HI t) as (P1 & P2 & P3 & P4). rewrite Hv in P1, P2, P3, P4.
      apply Inv_setv; try (rewrite Hv; reflexivity); auto. }
    apply safe_hp_copy. apply Conc.safe_bind.
    eapply Conc.safe_weaken; [|apply (safe_protect_m_idx f t s2 x (S j) l); [apply Hp1; reflexivity|apply Hp2; auto]].
    intros [q|] l1 Hl; [|exact I]. destruct Hl as (E1 & Q1 & Q2).
    pose proof E1 as (X1 & X2 & X3 & X4 & X5 & X6).
    eapply Conc.safe_weaken; [|apply (IH t s2 sg h i tl x (S j) q (S hops) l1);
      [apply X5; exact Hh|lia|apply X5; apply Hp2; auto|lia|exact Q1|exact Q2]].
    intros [[[it' pn'] hp']|] l' Hl; [|exact I]. destruct Hl as (E2 & R). split; [eapply ext_trans; eauto|exact R].
  - (* head has moved: its index is now beyond i *)
    set (l1 := mkTV (tv_st l) (tv_priv l) (tv_pnx l) (tv_inG l) (tv_idx l) (hidx a)).
    assert (Hlt : (i < hidx a)%nat).
    { destruct (idx_fact _ _ _ _ _ _ _ HI Hv Hh) as (Ei & _).
      pose proof (hlow_fact _ _ _ _ _ HI Hv) as Hl.
      destruct (Nat.eq_dec (hidx a) i) as [E|]; [|lia].
      destruct (I_head _ _ _ HI) as (E1 & _). rewrite E in E1. congruence. }
    exists l1. split.
    { eapply (step_facts g a tr t l l1); [exact HI|exact Hv|reflexivity|reflexivity|reflexivity| | |]; cbn; auto. }
    split; [repeat split; cbn; auto using incl_refl; eapply hlow_fact; eauto|].
    split; [cbn; rewrite Ep; exact Hp1|]. split; [cbn; eauto|]. right. right. right. cbn. exact Hlt.
Qed.

(** *** do_dequeue *)
Definition Qdeq : dres -> tview -> Prop :=
  fun d l => match d with
             | DFuel => True
             | DEmpty _ _ => tv_st l = PLin (RVal None) /\ tv_priv l = None
             | DGot _ v _ _ => tv_st l = PLin (RVal (Some v)) /\ tv_priv l = None
             end.

Lemma keep_view g a tr t l k o b : Inv g a tr -> views a t = l -> Inv g (auxv a t l) (tr ++ Conc.tag t [EvAcc k o b]).
Proof.
  intros HI Hv. apply Inv_acc. pose proof (I_views _ _ _ HI t) as (P1 & P2 & P3 & P4). rewrite Hv in P1, P2, P3, P4.
  apply Inv_setv; try (rewrite Hv; reflexivity); auto.
Qed.

Lemma safe_deq_loop cf fuel : forall t s0 s1 s2 sg e f l,
  shD l -> safe t (deq_loop cf fuel t s0 s1 s2 sg e f) l Qdeq.
Proof.
  induction fuel as [|fu IH]; intros t s0 s1 s2 sg e f l Hs; cbn [deq_loop]; [exact I|].
  apply Conc.safe_bind. eapply Conc.safe_weaken; [|apply safe_protect_head].
  intros [h|] l1 Hl; [|exact I]. destruct Hl as (E1 & Hh1 & i & Hi1 & Hil1).
  apply Conc.safe_bind. eapply Conc.safe_weaken; [|apply safe_protect_tail].
  intros [tl|] l2 Hl; [|exact I]. destruct Hl as (E2 & Htl2).
  pose proof E2 as (_ & _ & _ & Y4 & Y5 & Y6).
  apply Conc.safe_bind.
  eapply Conc.safe_weaken; [|apply (safe_protect_m_idx fu t s2 h i l2); [apply Y4; exact Hh1|apply Y5; exact Hi1]].
  intros [pn|] l3 Hl; [|exact I]. destruct Hl as (E3 & Q1 & Q2).
  pose proof E3 as (_ & _ & _ & Z4 & Z5 & Z6).
  assert (Hs3 : shD l3) by (eapply shD_ext; [|exact E3]; eapply shD_ext; [|exact E2]; eapply shD_ext; eauto).
  assert (Hi3 : In (h, i) (tv_idx l3)) by (apply Z5, Y5; exact Hi1).
  assert (Hil3 : (i <= tv_hlow l3)%nat) by lia.
  assert (Htl3 : In tl (tv_inG l3)) by (apply Z4; exact Htl2).
  (* if ( h == m_pHead.load()) *)
  apply safe_act_v. intros g a tr HI Hv. cbn [a_ld_head fst snd vn].
  destruct (Nat.eqb_spec (head g) h) as [Eh|Hne]; cbn [negb].
  2:{ exists l3. split; [eapply keep_view; eauto|apply IH; exact Hs3]. }
  destruct (Nat.eqb_spec h tl) as [Et|Hnt].
  - (* h == t *)
    destruct (fst pn) as [x|] eqn:Ep.
    + exists l3. split; [eapply keep_view; eauto|].
      apply Conc.safe_bind. eapply Conc.safe_weaken; [|apply safe_fixtail_loop; apply Q1; reflexivity].
      intros [pl|] l4 Hl; [|exact I]. destruct Hl as (E4 & Hpl).
      apply safe_hp_clear.
      clear g a tr HI Hv Eh.
      apply safe_act_keep. intros g a tr HI Hv. unfold a_cas_tail.
      destruct (Nat.eqb (tail g) tl); cbn [fst snd]; (split; [|apply IH; eapply shD_ext; eauto]).
      * apply Inv_acc. apply Inv_tail; [exact HI|]. eapply inG_GG; eauto.
      * apply Inv_acc. exact HI.
    + (* the queue is reported empty *)
      exists (mkTV (PLin (RVal None)) None mnull [] [] 0). split; [|split; reflexivity].
      eapply Inv_pev with (e := PEmp t); eauto.
      * rewrite Hv. apply Hs3.
      * intros ff Hf. rewrite Hv in Hf. destruct Hs3 as (S1 & _). rewrite S1 in Hf. cbn [pstep]. rewrite Hf. reflexivity.
  - (* h != t: hop over the deleted nodes *)
    exists l3. split; [eapply keep_view; eauto|].
    clear g a tr HI Hv Eh.
    apply Conc.safe_bind.
    eapply Conc.safe_weaken; [|apply (safe_hop_loop fu t s2 sg h i tl h i pn 0 l3); auto].
    intros [[[iter pn'] hops]|] l4 Hl; [|exact I]. destruct Hl as (E4 & R1 & (j & Hj4 & Hij) & Rexit).
    pose proof E4 as (_ & _ & _ & W4 & W5 & W6).
    assert (Hs4 : shD l4) by (eapply shD_ext; eauto).
    assert (Hi4 : In (h, i) (tv_idx l4)) by (apply W5; exact Hi3).
    apply safe_act_v. intros g a tr HI Hv. cbn [a_ld_head fst snd vn].
    exists l4. split; [eapply keep_view; eauto|].
    destruct (Nat.eqb_spec (head g) h) as [Eh|Hne]; cbn [negb].
    2:{ apply safe_hp_clear. apply IH. exact Hs4. }
    (* head is still h: its index is i, so the bound on head's index cannot exceed i *)
    destruct (idx_fact _ _ _ _ _ _ _ HI Hv Hi4) as (Ei & Li).
    destruct (idx_fact _ _ _ _ _ _ _ HI Hv Hj4) as (Ej & Lj).
    pose proof (head_idx _ _ _ _ _ HI Ei Eh) as Ehi.
    pose proof (hlow_fact _ _ _ _ _ HI Hv) as Hlow.
    assert (Hji : iter <> h -> (i < j)%nat).
    { intros Hd. destruct (Nat.eq_dec i j) as [->|]; [|lia]. congruence. }
    destruct (Nat.eqb_spec iter tl) as [Eit|Hnit].
    + (* all nodes up to tail are deleted: advance head *)
      apply Conc.safe_bind.
      eapply Conc.safe_weaken; [|apply (safe_free_chain cf fu t e f h i iter j l4); auto; apply Hji; congruence].
      intros [[e' f']|] l5 ->; [|exact I]. apply safe_hp_clear. apply IH. exact Hs4.
    + destruct (fst pn') as [x|] eqn:Ep'; [|exact I].
      assert (Hunm : snd pn' = false).
      { destruct Rexit as [R|[R|[R|R]]]; [exact R|discriminate|contradiction|lia]. }
      clear g a tr HI Hv Eh Ei Li Ej Lj Ehi Hlow.
      apply safe_act. intros g a tr HI Hv. unfold a_cas_mark.
      destruct (mp_eqb (nxt g iter) pn') eqn:Ecas; cbn [fst snd vb vz].
      * apply mp_eqb_eq in Ecas.
        assert (Enx : nxt g iter = (Some x, false)) by (rewrite Ecas; destruct pn'; cbn in *; congruence).
        set (l5 := mkTV (PLin (RVal (Some (val g x)))) None mnull [] ((x, S j) :: tv_idx l4) (tv_hlow l4)).
        exists (dpre a ++ [bnd a]), x, (List.tl (live a)), (hidx a), l5. split.
        { apply Inv_acc. rewrite (shD_view _ Hs4) in Hv. eapply Inv_mark; eauto. }
        destruct (Nat.leb 3 hops).
        -- apply Conc.safe_bind.
           eapply Conc.safe_weaken; [|apply (safe_free_chain cf fu t e f h i x (S j) l5); cbn; auto; lia].
           intros [[e' f']|] l6 ->; [|exact I]. apply safe_hp_clear. split; reflexivity.
        -- apply safe_hp_clear. split; reflexivity.
      * exists (dpre a), (bnd a), (live a), (hidx a), l4. split; [eapply keep_view; eauto|].
        apply safe_hp_clear. apply IH. exact Hs4.
Qed.

Definition Qdequeue : option (option Z * nat * nat) -> tview -> Prop :=
  fun r l => match r with
             | None => True
             | Some (None, _, _) => tv_st l = PLin (RVal None) /\ tv_priv l = None
             | Some (Some v, _, _) => tv_st l = PLin (RVal (Some v)) /\ tv_priv l = None
             end.

Definition VDq : tview := mkTV (PPend Deq) None mnull [] [] 0.

Lemma safe_dequeue cf fuel t s0 s1 s2 sg e f :
  safe t (dequeue cf fuel t s0 s1 s2 sg e f) VDq Qdequeue.
Proof.
  unfold dequeue. apply Conc.safe_bind.
  eapply Conc.safe_weaken; [|apply safe_deq_loop; repeat split].
  intros [|e' f'|x v e' f'] l Hl; cbn in Hl; [exact I| |].
  - unfold clear3. apply safe_hp_clear. apply safe_hp_clear. apply safe_hp_clear. exact Hl.
  - apply safe_with_ic. unfold clear3. apply safe_hp_clear. apply safe_hp_clear. apply safe_hp_clear. exact Hl.
Qed.

(** ** client operations *)
Definition Qop : option slots -> tview -> Prop :=
  fun r l => match r with Some _ => l = v_idle | None => True end.

Lemma safe_emit {R} t es (k : prog R) l Q :
  (forall g a tr, Inv g a tr -> views a t = l ->
     exists v', Inv g (auxv a t v') (tr ++ Conc.tag t es) /\ safe t k v' Q) ->
  safe t (Emit es k) l Q.
Proof.
  intros H. cbn [Conc.safe]. intros g a tr HI Hv. destruct (H g a tr HI Hv) as (v' & A & B).
  exists (auxv a t v'). split; [exact A|]. split; [apply (frame_auxset a (dpre a) (bnd a) (live a) (hidx a))|].
  unfold view, auxv. cbn [views]. rewrite updv_same. exact B.
Qed.

Lemma safe_ret {R} t name args (r : res) (x : R) l (Q : R -> tview -> Prop) :
  tv_st l = PLin r -> tv_priv l = None ->
  hist (Conc.tag t [EvCli name args]) = [@HRes Fifo t r] ->
  Q x v_idle ->
  safe t (Emit [EvCli name args] (Ret x)) l Q.
Proof.
  intros Hs Hp He HQ. apply safe_emit. intros g a tr HI Hv.
  exists v_idle. split; [|exact HQ].
  eapply Inv_pev with (e := PRes t r) (s' := PIdle); eauto.
  - now rewrite Hv.
  - intros ff Hf. rewrite Hv, Hs in Hf. cbn [pstep]. rewrite Hf.
    assert (res_beq r r = true) as -> by (now apply res_beq_ok). reflexivity.
Qed.

Lemma safe_outoffuel {R} t (x : R) l (Q : R -> tview -> Prop) :
  (forall l', Q x l') -> safe t (Emit [EvCli "outoffuel" []] (Ret x)) l Q.
Proof.
  intros HQ. cbn [Conc.safe]. intros g a tr HI Hv. exists a.
  split; [apply Inv_cli_other; [reflexivity|exact HI]|]. split; [apply frame_refl|]. apply HQ.
Qed.

Lemma safe_run_op cf fuel t sl o : safe t (run_op cf fuel t sl o) v_idle Qop.
Proof.
  destruct o as [v|]; cbn [run_op].
  - apply safe_emit. intros g a tr HI Hv. exists (VPE v). split.
    { eapply Inv_pev with (e := PInv t (Enq v)) (s' := PPend (Enq v)); eauto.
      - now rewrite Hv.
      - intros ff Hf. rewrite Hv in Hf. cbn [pstep]. cbn in Hf. rewrite Hf. reflexivity. }
    apply Conc.safe_bind. eapply Conc.safe_weaken; [|apply safe_enqueue].
    intros [cd|] l Hl; cbn in Hl.
    + destruct cd as [c d]. destruct Hl as (L1 & L2). eapply safe_ret with (r := RBool true); eauto; reflexivity.
    + apply safe_outoffuel. intros; exact I.
  - apply safe_emit. intros g a tr HI Hv. exists VDq. split.
    { eapply Inv_pev with (e := PInv t Deq) (s' := PPend Deq); eauto.
      - now rewrite Hv.
      - intros ff Hf. rewrite Hv in Hf. cbn [pstep]. cbn in Hf. rewrite Hf. reflexivity. }
    apply Conc.safe_bind. eapply Conc.safe_weaken; [|apply safe_dequeue].
    intros [[[[v|] e'] f']|] l Hl; cbn in Hl.
    + destruct Hl as (L1 & L2). eapply safe_ret with (r := RVal (Some v)); eauto; reflexivity.
    + destruct Hl as (L1 & L2). eapply safe_ret with (r := RVal None); eauto; reflexivity.
    + apply safe_outoffuel. intros; exact I.
Qed.

Lemma safe_run_ops cf fuel t os : forall sl, safe t (run_ops cf fuel t sl os) v_idle (@Conc.QTrue tview).
Proof.
  induction os as [|o r IH]; intros sl; cbn [run_ops]; [exact I|].
  apply Conc.safe_bind. eapply Conc.safe_weaken; [|apply safe_run_op].
  intros [sl'|] l Hl; cbn in Hl; [subst l; apply IH|exact I].
Qed.

Lemma safe_thread cf fuel t os : safe t (thread_prog cf fuel t os) v_idle (@Conc.QTrue tview).
Proof.
  unfold thread_prog. apply safe_act_keep. intros g a tr HI Hv. cbn [a_begin fst snd].
  split; [apply Inv_acc; exact HI|apply safe_run_ops].
Qed.

Lemma nth_error_mapi_from {A B} (f : nat -> A -> B) l : forall i t,
  nth_error (mapi_from f i l) t = option_map (f (i + t)%nat) (nth_error l t).
Proof.
  induction l as [|x r IH]; intros i [|t]; cbn; auto.
  - now rewrite Nat.add_0_r.
  - rewrite IH. now rewrite Nat.add_succ_r.
Qed.

Lemma init_ok cf fuel ths : Conc.cfg_ok view Inv (init_cfg cf fuel ths).
Proof.
  exists aux0. split; [apply Inv_init|].
  intros t p Hp. cbn [init_cfg Conc.threads] in Hp. rewrite nth_error_mapi_from in Hp.
  destruct (nth_error ths t) as [os|]; cbn in Hp; [|discriminate]. injection Hp as <-.
  apply safe_thread.
Qed.

(** ** the theorems *)
Theorem basket_reach_inv cf fuel ths c :
  Conc.reach (init_cfg cf fuel ths) c -> exists a, Inv (Conc.shared c) a (Conc.trace c).
Proof. intros Hr. exact (Conc.reach_Inv (init_ok cf fuel ths) Hr). Qed.

(** chain well-formedness at every instant of every schedule *)
Theorem basket_chain_wellformed cf fuel ths c :
  Conc.reach (init_cfg cf fuel ths) c ->
  let g := Conc.shared c in
  exists (dp : list nat) (b : nat) (lv : list nat) (hi : nat),
    NoDup (dp ++ b :: lv) /\ linked (fun x => fst (nxt g x)) (dp ++ b :: lv) /\
    (forall x, In x dp -> snd (nxt g x) = true) /\ (forall x, In x (b :: lv) -> snd (nxt g x) = false) /\
    nth_error (dp ++ b :: lv) hi = Some (head g) /\ (hi <= List.length dp)%nat /\ In (tail g) (dp ++ b :: lv) /\
    (forall n, In n (dp ++ b :: lv) -> (n < nalloc g)%nat).
Proof.
  intros Hr g. destruct (basket_reach_inv _ _ _ _ Hr) as (a & HI).
  exists (dpre a), (bnd a), (live a), (hidx a). destruct (I_head _ _ _ HI) as (E1 & E2).
  repeat split; auto; try apply HI;
    first [apply (I_nodup _ _ _ HI)|apply (I_linked _ _ _ HI)|apply (I_tail _ _ _ HI)|apply (I_lt _ _ _ HI)].
Qed.

(** no loss, no duplication: the undeleted nodes of the chain carry exactly the items of a pool-valid
    annotated trace of the history (every enqueue entered once, every successful dequeue removed the first
    undeleted item and reports it) *)
Theorem basket_no_loss_no_dup cf fuel ths c :
  Conc.reach (init_cfg cf fuel ths) c ->
  let g := Conc.shared c in
  exists (dp : list nat) (b : nat) (lv : list nat) (atr : list pev) (f : pmap),
    NoDup (dp ++ b :: lv) /\ linked (fun x => fst (nxt g x)) (dp ++ b :: lv) /\
    (forall x, In x (b :: lv) -> snd (nxt g x) = false) /\
    prun pinit atr = Some (map (val g) lv, f) /\ perase atr = hist (Conc.trace c).
Proof.
  intros Hr g. destruct (basket_reach_inv _ _ _ _ Hr) as (a & HI).
  destruct (I_pool _ _ _ HI) as (atr & f & A & B & C).
  exists (dpre a), (bnd a), (live a), atr, f. repeat split; auto;
    first [apply (I_nodup _ _ _ HI)|apply (I_linked _ _ _ HI)|apply (I_mpost _ _ _ HI)].
Qed.

Theorem basket_pool_valid cf fuel ths c :
  Conc.reach (init_cfg cf fuel ths) c ->
  exists atr : list pev, pool_valid atr /\ perase atr = hist (Conc.trace c).
Proof.
  intros Hr. destruct (basket_no_loss_no_dup _ _ _ _ Hr) as (dp & b & lv & atr & f & _ & _ & _ & A & C).
  exists atr. split; [eexists; exact A|exact C].
Qed.

(** "no item is invented" *)
Theorem basket_no_invention cf fuel ths c :
  Conc.reach (init_cfg cf fuel ths) c ->
  forall t v, In (@HRes Fifo t (RVal (Some v))) (hist (Conc.trace c)) -> invoked (hist (Conc.trace c)) v.
Proof.
  intros Hr t v Hin. destruct (basket_pool_valid _ _ _ _ Hr) as (atr & Hv & E). rewrite <- E in *.
  eapply pool_no_invention; eauto.
Qed.
