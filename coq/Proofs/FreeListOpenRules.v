(** * FreeListOpenRules: the open-world rules for one FreeList instance inside an arbitrary system.
    (README for users: at the end of LV.Proofs.FreeListOpenDhpThm.) *)
From Coq Require Import ZArith List String Bool Lia PeanoNat.
From LV Require Import Base.Conc Base.Events Model.FreeList Proofs.FreeListBase Proofs.FreeListInv Proofs.FreeListSteps
  Proofs.FreeListOpen.
Import ListNotations.
Local Open Scope Z_scope.

(** what an event means for the instance: a fresh node is announced / its next pointer is initialised by a
    store / a node obtained from get() is taken over by the client / the client gives a node back (this
    event precedes put()) / nothing *)
Inductive fev := FNew (n : nat) | FInit (n : nat) | FAlloc (n : nat) | FFree (n : nat) | FNone.

(** monitor state: existing nodes, nodes in the custody of the free list, announced-but-uninitialised nodes,
    "get() handed out a node the list did not have" (the property), "the client misbehaved" (the hypothesis) *)
Record mst := mkM { m_ex : nat -> bool; m_fr : nat -> bool; m_pd : nat -> bool; m_abad : bool; m_cbad : bool }.

Definition bset (f : nat -> bool) (n : nat) (v : bool) : nat -> bool := fun x => if Nat.eqb x n then v else f x.
Lemma bset_same f n v : bset f n v n = v.
Proof. unfold bset. now rewrite Nat.eqb_refl. Qed.
Lemma bset_other f n v m : m <> n -> bset f n v m = f m.
Proof. unfold bset. intros H. destruct (Nat.eqb_spec m n); congruence. Qed.

Definition mstep_ev (m : mst) (e : fev) : mst :=
  match e with
  | FNew n => if (Nat.eqb n 0 || m_ex m n)%bool then mkM (m_ex m) (m_fr m) (m_pd m) (m_abad m) true
              else mkM (bset (m_ex m) n true) (m_fr m) (bset (m_pd m) n true) (m_abad m) (m_cbad m)
  | FInit n => if m_pd m n then mkM (m_ex m) (m_fr m) (bset (m_pd m) n false) (m_abad m) (m_cbad m) else m
  | FAlloc n => if m_fr m n then mkM (m_ex m) (bset (m_fr m) n false) (m_pd m) (m_abad m) (m_cbad m)
                else mkM (m_ex m) (m_fr m) (m_pd m) true (m_cbad m)
  | FFree n => if (m_ex m n && negb (m_fr m n) && negb (m_pd m n))%bool
               then mkM (m_ex m) (bset (m_fr m) n true) (m_pd m) (m_abad m) (m_cbad m)
               else mkM (m_ex m) (m_fr m) (m_pd m) (m_abad m) true
  | FNone => m
  end.

Section Rules.
  Variable NR : nat.                          (* threads 0..NR-1; NR is the place holder whose held list is the pool *)
  Hypothesis HN : Z.of_nat (S NR) + 1 < FLAG.
  Variable GG : Type.                         (* the state of the whole system *)
  Variable proj : GG -> G.                    (* the instance: m_Head, and m_freeListRefs / m_freeListNext of every node *)
  Variable cls : ev -> fev.
  Variable m0 : mst.

  Notation N := (S NR).

  Definition mstep (m : mst) (te : nat * ev) : mst := mstep_ev m (cls (snd te)).
  Definition mrun (tr : list (nat * ev)) : mst := fold_left mstep tr m0.

  Lemma mrun_app tr tr' : mrun (tr ++ tr') = fold_left mstep tr' (mrun tr).
  Proof. unfold mrun. apply fold_left_app. Qed.

  Lemma cbad_step m e : m_cbad m = true -> m_cbad (mstep_ev m e) = true.
  Proof.
    intros H. destruct e as [n|n|n|n|]; cbn; auto.
    - destruct (Nat.eqb n 0 || m_ex m n)%bool; auto.
    - destruct (m_pd m n); auto.
    - destruct (m_fr m n); auto.
    - destruct (m_ex m n && negb (m_fr m n) && negb (m_pd m n))%bool; auto.
  Qed.

  Lemma cbad_fold es : forall m, m_cbad m = true -> m_cbad (fold_left mstep es m) = true.
  Proof. induction es as [|e r IH]; intros m H; cbn; [exact H|]. apply IH. apply cbad_step. exact H. Qed.

  Lemma cbad_prefix tr tr' : m_cbad (mrun (tr ++ tr')) = false -> m_cbad (mrun tr) = false.
  Proof.
    rewrite mrun_app. intros H. destruct (m_cbad (mrun tr)) eqn:E; [|reflexivity].
    rewrite (cbad_fold tr' _ E) in H. discriminate.
  Qed.

  Definition infl (s : nstate) : bool := match s with Nil => false | Held t => negb (Nat.eqb t NR) | _ => true end.
  Definition isnil (s : nstate) : bool := match s with Nil => true | _ => false end.

  (** the monitor's view and the invariant's view agree *)
  Definition Cpl (a : Aux) (m : mst) : Prop :=
    (forall n, m_fr m n = infl (st a n)) /\
    (forall n, m_ex m n = (negb (isnil (st a n)) || m_pd m n)%bool) /\
    (forall n, m_pd m n = true -> st a n = Nil /\ n <> O) /\
    (forall t, t <> NR -> hl a t = []) /\
    ph a NR = Idle.

  Definition OJ (gg : GG) (a : Aux) (m : mst) : Prop :=
    (exists v0, v0 O = false /\ InvS N v0 (proj gg) a) /\ Cpl a m.

  (** THE INVARIANT of the instance: as long as the client behaved, the state invariant holds and get() never
      handed out a node the list did not have *)
  Definition OInv (gg : GG) (a : Aux) (tr : list (nat * ev)) : Prop :=
    m_cbad (mrun tr) = false -> OJ gg a (mrun tr) /\ m_abad (mrun tr) = false.

  (** the per-thread view is the phase (what the thread is doing on this instance) *)
  Definition oview (a : Aux) (t : nat) : phase := ph a t.

  Theorem OInv_no_bad_alloc gg a tr : OInv gg a tr -> m_cbad (mrun tr) = false -> m_abad (mrun tr) = false.
  Proof. intros H Hc. apply H. exact Hc. Qed.

  (** ** framing: a step that leaves the instance alone *)
  Definition quiet_es (es : list ev) : Prop := forall e, In e es -> cls e = FNone.

  Lemma quiet_fold t es : quiet_es es -> forall m, fold_left mstep (Conc.tag t es) m = m.
  Proof.
    induction es as [|e r IH]; intros Hq m; cbn; [reflexivity|].
    unfold mstep at 2. cbn [snd]. rewrite (Hq e) by (left; reflexivity). cbn. apply IH. intros x Hx. apply Hq. right; exact Hx.
  Qed.

  Lemma OInv_steps gg gg' a a' tr t es :
    OInv gg a tr ->
    (forall m, OJ gg a m -> fold_left mstep (Conc.tag t es) m = m /\ OJ gg' a' m) ->
    OInv gg' a' (tr ++ Conc.tag t es).
  Proof.
    intros HI Hs Hc. destruct (HI (cbad_prefix _ _ Hc)) as [HJ Ha]. destruct (Hs _ HJ) as [E HJ'].
    rewrite mrun_app, E. split; assumption.
  Qed.

  Lemma OJ_Geq gg gg' a m : Geq (proj gg) (proj gg') -> OJ gg a m -> OJ gg' a m.
  Proof. intros Hg ((v0 & Hv & HS) & HC). split; [|exact HC]. exists v0. split; [exact Hv|]. eapply InvS_Geq; eauto. Qed.

  (** RULE (frame): any step of any thread that does not change head / refs / next of this instance and
      whose events mean nothing to it preserves the invariant, with the same auxiliary state *)
  Theorem OInv_frame gg gg' a tr t es :
    OInv gg a tr -> Geq (proj gg) (proj gg') -> quiet_es es -> OInv gg' a (tr ++ Conc.tag t es).
  Proof.
    intros HI Hg Hq. eapply OInv_steps; eauto. intros m HJ. split; [apply quiet_fold; exact Hq|eapply OJ_Geq; eauto].
  Qed.

  (** ** the atomic accesses of put / get / add_knowing_refcount_is_zero *)
  Lemma cpl_step a m n0 s' l' t p' o :
    Cpl a m -> t <> NR -> infl s' = infl (st a n0) -> isnil s' = isnil (st a n0) ->
    Cpl (step_aux a n0 s' l' t p' (hl a t) o) m.
  Proof.
    intros (C1 & C2 & C3 & C4 & C5) Ht Hi Hn. unfold step_aux. split; [|split; [|split; [|split]]]; cbn [st hl ph].
    - intros n. unfold upd. destruct (Nat.eqb_spec n n0) as [->|_]; [rewrite Hi|]; apply C1.
    - intros n. unfold upd. destruct (Nat.eqb_spec n n0) as [->|_]; [rewrite Hn|]; apply C2.
    - intros n Hp. destruct (C3 n Hp) as [E Hz]. split; [|exact Hz]. unfold upd. destruct (Nat.eqb_spec n n0) as [->|_]; [|exact E].
      rewrite E in Hn. destruct s'; cbn in Hn; try discriminate. reflexivity.
    - intros t' Ht'. unfold upd. destruct (Nat.eqb_spec t' t) as [->|_]; apply C4; assumption.
    - rewrite upd_other by (intros E; apply Ht; symmetry; exact E). exact C5.
  Qed.

  Lemma real_lt t : (t < NR)%nat -> (t < N)%nat /\ t <> NR.
  Proof. lia. Qed.

  Lemma infl_real s t : (t < NR)%nat -> st_owner s = Some t -> infl s = true /\ isnil s = false.
  Proof.
    intros Ht E. destruct s; cbn in *; try discriminate; try (split; reflexivity).
    injection E as ->. split; [|reflexivity]. destruct (Nat.eqb_spec t NR); [lia|reflexivity].
  Qed.

  (** generic wrapper: a step lemma of LV.Proofs.FreeListSteps, through the projection *)
  Lemma OJ_wrap gg gg' a m g1 n0 s' l' t p' :
    OJ gg a m -> (t < NR)%nat -> Geq g1 (proj gg') ->
    (forall v0, InvS N v0 (proj gg) a -> InvS N v0 g1 (step_aux a n0 s' l' t p' (hl a t) (own a))) ->
    infl s' = infl (st a n0) -> isnil s' = isnil (st a n0) ->
    OJ gg' (step_aux a n0 s' l' t p' (hl a t) (own a)) m.
  Proof.
    intros ((v0 & Hv & HS) & HC) Ht Hg Hstep Hi Hn. split.
    - exists v0. split; [exact Hv|]. eapply InvS_Geq; [exact Hg|]. apply Hstep. exact HS.
    - apply cpl_step; auto. lia.
  Qed.

  Ltac unJ HJ v0 Hv HS HC := destruct HJ as ((v0 & Hv & HS) & HC).

  Lemma O_cas_refs gg gg' a m t h r :
    OJ gg a m -> (t < NR)%nat -> ph a t = Busy -> refs (proj gg) h = r -> r mod FLAG <> 0 ->
    Geq (set_refs (proj gg) h (u32 (r + 1))) (proj gg') ->
    OJ gg' (aux_set a h (st a h) t (GRef h)) m.
  Proof.
    intros HJ Ht Hp Hr Hm Hg. eapply OJ_wrap; [exact HJ|exact Ht|exact Hg| |reflexivity|reflexivity].
    intros v0 HS. apply (step_cas_refs N HN v0); auto.
  Qed.

  Lemma O_ld_next gg a m t h :
    OJ gg a m -> (t < NR)%nat -> ph a t = GRef h ->
    OJ gg (aux_set a h (st a h) t (GNext h (next (proj gg) h))) m.
  Proof.
    intros HJ Ht Hp. eapply OJ_wrap; [exact HJ|exact Ht|apply Geq_refl| |reflexivity|reflexivity].
    intros v0 HS. apply (step_ld_next N v0); auto.
  Qed.

  Lemma O_cas_head_get_fail gg a m t h x :
    OJ gg a m -> (t < NR)%nat -> ph a t = GNext h x -> OJ gg (aux_set a h (st a h) t (GFail h)) m.
  Proof.
    intros HJ Ht Hp. eapply OJ_wrap; [exact HJ|exact Ht|apply Geq_refl| |reflexivity|reflexivity].
    intros v0 HS. eapply (step_cas_head_get_fail N v0); eauto.
  Qed.

  Lemma head_onlist v0 g a h : InvS N v0 g a -> head g = h -> h <> O -> st a h = OnList.
  Proof.
    intros HS Hh Hnz. apply (S_lin HS). pose proof (S_chain HS) as Hc.
    destruct (lst a) as [|x r]; cbn in Hc; [congruence|]. destruct Hc as (E & _). left. congruence.
  Qed.

  Lemma O_cas_head_get_ok gg gg' a m t h x :
    OJ gg a m -> (t < NR)%nat -> ph a t = GNext h x -> head (proj gg) = h -> h <> O ->
    Geq (set_head (proj gg) x) (proj gg') ->
    OJ gg' (step_aux a h (Taking t) (tl (lst a)) t (GTook h) (hl a t) (own a)) m.
  Proof.
    intros HJ Ht Hp Hh Hnz Hg. pose proof HJ as HJ0. unJ HJ0 v0 Hv HS HC.
    eapply OJ_wrap; [exact HJ|exact Ht|exact Hg| | |].
    - intros v1 HS1. apply (step_cas_head_get_ok N v1); auto.
    - rewrite (head_onlist v0 _ a h HS Hh Hnz). reflexivity.
    - rewrite (head_onlist v0 _ a h HS Hh Hnz). reflexivity.
  Qed.

  Lemma O_fas2 gg gg' a m t h :
    OJ gg a m -> (t < NR)%nat -> ph a t = GTook h ->
    Geq (set_refs (proj gg) h (u32 (refs (proj gg) h - 2))) (proj gg') ->
    OJ gg' (aux_set a h (Held t) t (PRet h)) m.
  Proof.
    intros HJ Ht Hp Hg. pose proof HJ as HJ0. unJ HJ0 v0 Hv HS HC.
    pose proof (S_ph HS t) as Hx. rewrite Hp in Hx. cbn in Hx.
    destruct (infl_real (Held t) t Ht eq_refl) as [I1 I2]. destruct (infl_real (Taking t) t Ht eq_refl) as [I3 I4].
    eapply OJ_wrap; [exact HJ|exact Ht|exact Hg| |rewrite Hx; congruence|rewrite Hx; congruence].
    intros v1 HS1. apply (step_fas2 N HN v1); auto.
  Qed.

  Lemma flag_states v0 g a n : InvS N v0 g a -> flag_of (st a n) = true -> infl (st a n) = true /\ isnil (st a n) = false.
  Proof. intros _ H. destruct (st a n); cbn in *; try discriminate; split; reflexivity. Qed.

  Lemma O_fas1_readd gg gg' a m t h :
    OJ gg a m -> (t < NR)%nat -> ph a t = GFail h -> refs (proj gg) h = FLAG + 1 ->
    Geq (set_refs (proj gg) h (u32 (refs (proj gg) h - 1))) (proj gg') ->
    OJ gg' (aux_set a h (Adding t) t (AStart h)) m.
  Proof.
    intros HJ Ht Hp Hw Hg. pose proof HJ as HJ0. unJ HJ0 v0 Hv HS HC.
    pose proof (S_refs HS h) as Hr. rewrite Hw in Hr. symmetry in Hr.
    apply enc_eq_flag1 in Hr; [|apply (cnt_bound N HN)]. destruct Hr as [Hf _].
    destruct (flag_states v0 _ a h HS Hf) as [I1 I2].
    eapply OJ_wrap; [exact HJ|exact Ht|exact Hg| |rewrite I1; reflexivity|rewrite I2; reflexivity].
    intros v1 HS1. apply (step_fas1_readd N HN v1); auto.
  Qed.

  Lemma O_fas1_release gg gg' a m t h :
    OJ gg a m -> (t < NR)%nat -> ph a t = GFail h -> refs (proj gg) h <> FLAG + 1 ->
    Geq (set_refs (proj gg) h (u32 (refs (proj gg) h - 1))) (proj gg') ->
    OJ gg' (aux_set a h (st a h) t Busy) m.
  Proof.
    intros HJ Ht Hp Hw Hg. eapply OJ_wrap; [exact HJ|exact Ht|exact Hg| |reflexivity|reflexivity].
    intros v0 HS. apply (step_fas1_release N HN v0); auto.
  Qed.

  Lemma O_put_add gg gg' a m t n :
    OJ gg a m -> (t < NR)%nat -> ph a t = PPut n -> refs (proj gg) n = 0 ->
    Geq (set_refs (proj gg) n (u32 (refs (proj gg) n + FLAG))) (proj gg') ->
    OJ gg' (aux_set a n (Adding t) t (AStart n)) m.
  Proof.
    intros HJ Ht Hp Hw Hg. pose proof HJ as HJ0. unJ HJ0 v0 Hv HS HC.
    pose proof (S_ph HS t) as Hx. rewrite Hp in Hx. cbn in Hx. destruct Hx as [Hx _].
    destruct (infl_real (Held t) t Ht eq_refl) as [I1 I2].
    eapply OJ_wrap; [exact HJ|exact Ht|exact Hg| |rewrite Hx, I1; reflexivity|rewrite Hx; reflexivity].
    intros v1 HS1. apply (step_put_add N HN v1); auto.
  Qed.

  Lemma O_put_pending gg gg' a m t n :
    OJ gg a m -> (t < NR)%nat -> ph a t = PPut n -> refs (proj gg) n <> 0 ->
    Geq (set_refs (proj gg) n (u32 (refs (proj gg) n + FLAG))) (proj gg') ->
    OJ gg' (aux_set a n Pending t Busy) m.
  Proof.
    intros HJ Ht Hp Hw Hg. pose proof HJ as HJ0. unJ HJ0 v0 Hv HS HC.
    pose proof (S_ph HS t) as Hx. rewrite Hp in Hx. cbn in Hx. destruct Hx as [Hx _].
    destruct (infl_real (Held t) t Ht eq_refl) as [I1 I2].
    eapply OJ_wrap; [exact HJ|exact Ht|exact Hg| |rewrite Hx, I1; reflexivity|rewrite Hx; reflexivity].
    intros v1 HS1. apply (step_put_pending N HN v1); auto.
  Qed.

  Lemma O_st_next gg gg' a m t n h :
    OJ gg a m -> (t < NR)%nat -> ph a t = AStart n ->
    Geq (set_next (proj gg) n h) (proj gg') ->
    OJ gg' (aux_set a n (st a n) t (ANxt n h)) m.
  Proof.
    intros HJ Ht Hp Hg. eapply OJ_wrap; [exact HJ|exact Ht|exact Hg| |reflexivity|reflexivity].
    intros v0 HS. apply (step_st_next N v0); auto.
  Qed.

  Lemma O_st_refs gg gg' a m t n h :
    OJ gg a m -> (t < NR)%nat -> ph a t = ANxt n h ->
    Geq (set_refs (proj gg) n 1) (proj gg') ->
    OJ gg' (aux_set a n (Publ t) t (APub n h)) m.
  Proof.
    intros HJ Ht Hp Hg. pose proof HJ as HJ0. unJ HJ0 v0 Hv HS HC.
    pose proof (S_ph HS t) as Hx. rewrite Hp in Hx. cbn in Hx. destruct Hx as [Hx _].
    eapply OJ_wrap; [exact HJ|exact Ht|exact Hg| |rewrite Hx; reflexivity|rewrite Hx; reflexivity].
    intros v1 HS1. apply (step_st_refs N v1); auto.
  Qed.

  Lemma O_cas_head_add_ok gg gg' a m t n h :
    OJ gg a m -> (t < NR)%nat -> ph a t = APub n h -> head (proj gg) = h ->
    Geq (set_head (proj gg) n) (proj gg') ->
    OJ gg' (step_aux a n OnList (n :: lst a) t Busy (hl a t) (own a)) m.
  Proof.
    intros HJ Ht Hp Hh Hg. pose proof HJ as HJ0. unJ HJ0 v0 Hv HS HC.
    pose proof (S_ph HS t) as Hx. rewrite Hp in Hx. cbn in Hx. destruct Hx as [Hx _].
    split.
    - exists v0. split; [exact Hv|]. eapply InvS_Geq; [exact Hg|]. eapply (step_cas_head_add_ok N v0 Hv); eauto.
    - apply cpl_step; auto; [lia|rewrite Hx; reflexivity|rewrite Hx; reflexivity].
  Qed.

  Lemma O_cas_head_add_fail gg a m t n h :
    OJ gg a m -> (t < NR)%nat -> ph a t = APub n h -> OJ gg (aux_set a n (st a n) t (AFail n)) m.
  Proof.
    intros HJ Ht Hp. eapply OJ_wrap; [exact HJ|exact Ht|apply Geq_refl| |reflexivity|reflexivity].
    intros v0 HS. eapply (step_cas_head_add_fail N v0); eauto.
  Qed.

  Lemma O_add_faa_retry gg gg' a m t n :
    OJ gg a m -> (t < NR)%nat -> ph a t = AFail n -> refs (proj gg) n = 1 ->
    Geq (set_refs (proj gg) n (u32 (refs (proj gg) n + (FLAG - 1)))) (proj gg') ->
    OJ gg' (aux_set a n (Adding t) t (AStart n)) m.
  Proof.
    intros HJ Ht Hp Hw Hg. pose proof HJ as HJ0. unJ HJ0 v0 Hv HS HC.
    pose proof (S_ph HS t) as Hx. rewrite Hp in Hx. cbn in Hx.
    eapply OJ_wrap; [exact HJ|exact Ht|exact Hg| |rewrite Hx; reflexivity|rewrite Hx; reflexivity].
    intros v1 HS1. apply (step_add_faa_retry N HN v1); auto.
  Qed.

  Lemma O_add_faa_pending gg gg' a m t n :
    OJ gg a m -> (t < NR)%nat -> ph a t = AFail n -> refs (proj gg) n <> 1 ->
    Geq (set_refs (proj gg) n (u32 (refs (proj gg) n + (FLAG - 1)))) (proj gg') ->
    OJ gg' (aux_set a n Pending t Busy) m.
  Proof.
    intros HJ Ht Hp Hw Hg. pose proof HJ as HJ0. unJ HJ0 v0 Hv HS HC.
    pose proof (S_ph HS t) as Hx. rewrite Hp in Hx. cbn in Hx.
    eapply OJ_wrap; [exact HJ|exact Ht|exact Hg| |rewrite Hx; reflexivity|rewrite Hx; reflexivity].
    intros v1 HS1. apply (step_add_faa_pending N HN v1); auto.
  Qed.

  (** ** the client events *)
  Definition m_free (m : mst) (n : nat) : mst := mkM (m_ex m) (bset (m_fr m) n true) (m_pd m) (m_abad m) (m_cbad m).
  Definition m_alloc (m : mst) (n : nat) : mst := mkM (m_ex m) (bset (m_fr m) n false) (m_pd m) (m_abad m) (m_cbad m).
  Definition m_new (m : mst) (n : nat) : mst := mkM (bset (m_ex m) n true) (m_fr m) (bset (m_pd m) n true) (m_abad m) (m_cbad m).
  Definition m_init (m : mst) (n : nat) : mst := mkM (m_ex m) (m_fr m) (bset (m_pd m) n false) (m_abad m) (m_cbad m).

  Definition aux_free (a : Aux) (t n : nat) : Aux :=
    mkA (upd (st a) n (Held t)) (lst a) (upd (ph a) t (PPut n)) (upd (hl a) NR (remove1 n (hl a NR))) (own a).
  Definition aux_alloc (a : Aux) (t n : nat) : Aux :=
    mkA (upd (st a) n (Held NR)) (lst a) (upd (ph a) t Busy) (upd (hl a) NR (n :: hl a NR)) (own a).
  Definition aux_init (a : Aux) (n : nat) : Aux :=
    mkA (upd (st a) n (Held NR)) (lst a) (ph a) (upd (hl a) NR (n :: hl a NR)) (own a).

  Lemma infl_heldNR : infl (Held NR) = false.
  Proof. cbn. now rewrite Nat.eqb_refl. Qed.
  Lemma infl_heldt t : (t < NR)%nat -> infl (Held t) = true.
  Proof. intros H. cbn. destruct (Nat.eqb_spec t NR); [lia|reflexivity]. Qed.

  (** the client gives node n back (the event that precedes put(n)): n must exist, be out, be initialised *)
  Lemma O_free gg a m t n :
    OJ gg a m -> (t < NR)%nat -> ph a t = Busy ->
    m_ex m n = true -> m_fr m n = false -> m_pd m n = false ->
    OJ gg (aux_free a t n) (m_free m n).
  Proof.
    intros ((v0 & Hv & HS) & (C1 & C2 & C3 & C4 & C5)) Ht Hp Hex Hfr Hpd.
    assert (Hst : st a n = Held NR).
    { pose proof (C1 n) as E1. pose proof (C2 n) as E2. rewrite Hfr in E1. rewrite Hex, Hpd in E2.
      destruct (st a n) as [|tm|tm| | |tm|tm]; cbn in *; try discriminate.
      destruct (Nat.eqb_spec tm NR); [congruence|discriminate]. }
    assert (Hin : In n (hl a NR)).
    { pose proof (S_st HS n) as Ho. unfold st_ok in Ho. rewrite Hst, C5 in Ho. destruct Ho as [Ho|[Ho|Ho]]; [exact Ho|discriminate|discriminate]. }
    split.
    - exists v0. split; [exact Hv|].
      apply transfer2 with (g := proj gg);
        [exact HS|lia|lia|lia|exact C5|intros; reflexivity|rewrite Hp; intros; reflexivity|].
      right. rewrite Hp. repeat split; auto.
    - unfold aux_free, m_free. split; [|split; [|split; [|split]]]; cbn [st hl ph m_fr m_ex m_pd].
      + intros k. unfold upd, bset. destruct (Nat.eqb_spec k n) as [->|_]; [symmetry; apply infl_heldt; exact Ht|apply C1].
      + intros k. unfold upd. destruct (Nat.eqb_spec k n) as [->|_]; [|apply C2]. rewrite Hex, Hpd. reflexivity.
      + intros k Hk. destruct (C3 k Hk) as [E Hz]. split; [|exact Hz]. unfold upd. destruct (Nat.eqb_spec k n) as [->|_]; [congruence|exact E].
      + intros t' Ht'. rewrite upd_other by exact Ht'. apply C4; exact Ht'.
      + rewrite upd_other by lia. exact C5.
  Qed.

  (** the client takes over the node get() returned *)
  Lemma O_alloc gg a m t n :
    OJ gg a m -> (t < NR)%nat -> ph a t = PRet n ->
    m_fr m n = true /\ OJ gg (aux_alloc a t n) (m_alloc m n).
  Proof.
    intros ((v0 & Hv & HS) & (C1 & C2 & C3 & C4 & C5)) Ht Hp.
    pose proof (S_ph HS t) as Hx. rewrite Hp in Hx. cbn in Hx. destruct Hx as [Hst _].
    split; [rewrite C1, Hst; apply infl_heldt; exact Ht|]. split.
    - exists v0. split; [exact Hv|].
      apply transfer2 with (g := proj gg);
        [exact HS|lia|lia|lia|exact C5|intros; reflexivity|rewrite Hp; intros; reflexivity|].
      left. rewrite Hp. repeat split; auto.
    - unfold aux_alloc, m_alloc. split; [|split; [|split; [|split]]]; cbn [st hl ph m_fr m_ex m_pd].
      + intros k. unfold upd, bset. destruct (Nat.eqb_spec k n) as [->|_]; [symmetry; apply infl_heldNR|apply C1].
      + intros k. unfold upd. destruct (Nat.eqb_spec k n) as [->|_]; [|apply C2]. rewrite C2, Hst. reflexivity.
      + intros k Hk. destruct (C3 k Hk) as [E Hz]. split; [|exact Hz]. unfold upd. destruct (Nat.eqb_spec k n) as [->|_]; [congruence|exact E].
      + intros t' Ht'. rewrite upd_other by exact Ht'. apply C4; exact Ht'.
      + rewrite upd_other by lia. exact C5.
  Qed.

  (** a fresh node is announced *)
  Lemma O_new gg a m n :
    OJ gg a m -> n <> O -> m_ex m n = false -> OJ gg a (m_new m n).
  Proof.
    intros (HS & (C1 & C2 & C3 & C4 & C5)) Hnz Hex. split; [exact HS|].
    assert (Hnil : st a n = Nil).
    { pose proof (C2 n) as E. rewrite Hex in E. destruct (st a n); cbn in E; try discriminate. reflexivity. }
    unfold m_new. split; [|split; [|split; [|split]]]; cbn [m_fr m_ex m_pd]; auto.
    - intros k. unfold bset. destruct (Nat.eqb_spec k n) as [->|_]; [rewrite Hnil; reflexivity|apply C2].
    - intros k. unfold bset. destruct (Nat.eqb_spec k n) as [->|_]; [intros _; split; assumption|apply C3].
  Qed.

  (** the store that initialises the next pointer of an announced node: the node now exists, in the pool *)
  Lemma O_init gg gg' a m n v :
    OJ gg a m -> m_pd m n = true -> Geq (set_next (proj gg) n v) (proj gg') ->
    OJ gg' (aux_init a n) (m_init m n).
  Proof.
    intros ((v0 & Hv & HS) & (C1 & C2 & C3 & C4 & C5)) Hpd (Eh & Er & En).
    destruct (C3 n Hpd) as [Hnil Hnz]. split.
    - exists (fun k => if Nat.eqb k n then true else v0 k). split.
      + destruct (Nat.eqb_spec 0 n); [congruence|exact Hv].
      + apply create with (g := proj gg); auto; try lia.
        * intros k. rewrite <- Er. reflexivity.
        * intros k Hk. rewrite <- En. cbn. destruct (Nat.eqb_spec k n); [contradiction|reflexivity].
    - unfold aux_init, m_init. split; [|split; [|split; [|split]]]; cbn [st hl ph m_fr m_ex m_pd].
      + intros k. unfold upd. destruct (Nat.eqb_spec k n) as [->|_]; [|apply C1]. rewrite infl_heldNR, C1, Hnil. reflexivity.
      + intros k. unfold upd, bset. destruct (Nat.eqb_spec k n) as [->|_]; [|apply C2]. rewrite C2, Hpd, Hnil. reflexivity.
      + intros k. unfold bset, upd. destruct (Nat.eqb_spec k n) as [->|_]; [discriminate|apply C3].
      + intros t' Ht'. rewrite upd_other by exact Ht'. apply C4; exact Ht'.
      + exact C5.
  Qed.

  (** ** the same, packaged for the trace invariant.  [es] is the event list of ONE node of a program
         (one atomic access, or one emit); at most one event of it means something to the instance. *)
  Lemma OInv_event gg gg' a a' tr t es e :
    OInv gg a tr ->
    (forall m, fold_left mstep (Conc.tag t es) m = mstep_ev m e) ->
    (forall m, OJ gg a m -> m_abad m = false -> m_cbad (mstep_ev m e) = false ->
               OJ gg' a' (mstep_ev m e) /\ m_abad (mstep_ev m e) = false) ->
    OInv gg' a' (tr ++ Conc.tag t es).
  Proof.
    intros HI Hf Hs Hc. destruct (HI (cbad_prefix _ _ Hc)) as [HJ Ha].
    rewrite mrun_app, Hf in *. apply Hs; assumption.
  Qed.

  Theorem OInv_free gg a tr t es n :
    OInv gg a tr -> (forall m, fold_left mstep (Conc.tag t es) m = mstep_ev m (FFree n)) ->
    (t < NR)%nat -> ph a t = Busy ->
    OInv gg (aux_free a t n) (tr ++ Conc.tag t es).
  Proof.
    intros HI Hf Ht Hp. eapply OInv_event; eauto. intros m HJ Ha Hc. cbn [mstep_ev] in *.
    destruct (m_ex m n && negb (m_fr m n) && negb (m_pd m n))%bool eqn:E; [|cbn in Hc; discriminate].
    apply andb_prop in E. destruct E as [E E3]. apply andb_prop in E. destruct E as [E1 E2].
    apply negb_true_iff in E2, E3. split; [apply O_free; auto|exact Ha].
  Qed.

  Theorem OInv_alloc gg a tr t es n :
    OInv gg a tr -> (forall m, fold_left mstep (Conc.tag t es) m = mstep_ev m (FAlloc n)) ->
    (t < NR)%nat -> ph a t = PRet n ->
    OInv gg (aux_alloc a t n) (tr ++ Conc.tag t es).
  Proof.
    intros HI Hf Ht Hp. eapply OInv_event; eauto. intros m HJ Ha Hc. cbn [mstep_ev] in *.
    destruct (O_alloc gg a m t n HJ Ht Hp) as [Hfr HJ']. rewrite Hfr. split; [exact HJ'|exact Ha].
  Qed.

  Theorem OInv_new gg a tr t es n :
    OInv gg a tr -> (forall m, fold_left mstep (Conc.tag t es) m = mstep_ev m (FNew n)) ->
    OInv gg a (tr ++ Conc.tag t es).
  Proof.
    intros HI Hf. eapply OInv_event; eauto. intros m HJ Ha Hc. cbn [mstep_ev] in *.
    destruct (Nat.eqb_spec n 0) as [->|Hnz]; cbn [orb] in *; [cbn in Hc; discriminate|].
    destruct (m_ex m n) eqn:E; [cbn in Hc; discriminate|]. split; [apply O_new; auto|exact Ha].
  Qed.

  (** the initialising store of a node ([FInit n]): if the node was announced and not yet initialised it
      comes into existence; otherwise (the store of add_knowing_refcount_is_zero on an existing node) use
      [OInv_st_next] below *)
  Theorem OInv_init gg gg' a tr t es n v :
    OInv gg a tr -> (forall m, fold_left mstep (Conc.tag t es) m = mstep_ev m (FInit n)) ->
    m_pd (mrun tr) n = true \/ m_cbad (mrun tr) = true ->
    Geq (set_next (proj gg) n v) (proj gg') ->
    OInv gg' (aux_init a n) (tr ++ Conc.tag t es).
  Proof.
    intros HI Hf Hpd Hg Hc. pose proof (cbad_prefix _ _ Hc) as Hc0. destruct Hpd as [Hpd|Hpd]; [|congruence].
    destruct (HI Hc0) as [HJ Ha]. rewrite mrun_app, Hf. cbn [mstep_ev]. rewrite Hpd.
    split; [eapply O_init; eauto|exact Ha].
  Qed.

  (** accesses of the algorithm: the event list may contain an [FInit n] for a node that exists *)
  Definition algo_es (a : Aux) (es : list ev) : Prop :=
    forall e, In e es -> cls e = FNone \/ exists n, cls e = FInit n /\ st a n <> Nil.

  Lemma algo_fold a m t es : Cpl a m -> algo_es a es -> fold_left mstep (Conc.tag t es) m = m.
  Proof.
    intros HC. revert m HC. induction es as [|e r IH]; intros m HC Hq; cbn; [reflexivity|].
    assert (E : mstep m (t, e) = m).
    { unfold mstep. cbn [snd]. destruct (Hq e (or_introl eq_refl)) as [->|(n & -> & Hn)]; [reflexivity|].
      cbn. destruct (m_pd m n) eqn:Ep; [|reflexivity]. destruct HC as (_ & _ & C3 & _). destruct (C3 n Ep). contradiction. }
    rewrite E. apply IH; [exact HC|]. intros x Hx. apply Hq. right; exact Hx.
  Qed.

  (** RULE (access): [step] is one of the O_... lemmas above *)
  Theorem OInv_access gg gg' a a' tr t es :
    OInv gg a tr -> algo_es a es ->
    (forall m, OJ gg a m -> OJ gg' a' m) ->
    OInv gg' a' (tr ++ Conc.tag t es).
  Proof.
    intros HI Hq Hs. eapply OInv_steps; eauto. intros m HJ. split; [|apply Hs; exact HJ].
    eapply algo_fold; eauto. apply HJ.
  Qed.
End Rules.
