(** * pool_monitor: the steps that do not touch m_RefSpin (lock-object steps, client events, pool steps). *)
From Coq Require Import ZArith List String Bool Lia PeanoNat.
From LV Require Import Base.Conc Base.Events Model.PoolMon Proofs.PoolMonBase Proofs.PoolMonSteps.
Import ListNotations.
Local Open Scope string_scope.

(** ** discipline group *)
Lemma InvD_frame g g' tr t es :
  InvD g tr -> pool g' = pool g -> fresh g' = fresh g ->
  (forall x, acnt x (Conc.tag t es) = 0%Z) -> disc_from tr (Conc.tag t es) -> InvD g' (tr ++ Conc.tag t es).
Proof.
  intros (D1 & D2) Hq Hf Ha Hd. split.
  - apply disc_app. auto.
  - intros x. rewrite acnt_app, Ha, Z.add_0_r, Hq, Hf. apply D2.
Qed.

Lemma ev_ok_quiet pre e : (forall x, is_lacc x e = false) -> (forall x, ad x e = 0%Z) -> ev_ok pre e.
Proof. intros H1 H2 x. rewrite H1, H2. repeat split; intros; discriminate. Qed.

Lemma ad_cli_other x name args :
  String.eqb name "pool_alloc" = false -> String.eqb name "pool_free" = false -> ad x (EvCli name args) = 0%Z.
Proof.
  intros N1 N2. cbn. destruct args as [|y [|z r]]; try reflexivity. rewrite N1, N2.
  destruct (Z.eqb y (Z.of_nat x)); reflexivity.
Qed.

Lemma acnt_cli_other x t name args :
  String.eqb name "pool_alloc" = false -> String.eqb name "pool_free" = false ->
  acnt x (Conc.tag t [EvCli name args]) = 0%Z.
Proof. intros N1 N2. cbn [Conc.tag map acnt]. rewrite ad_cli_other; auto. Qed.

(** an access to something that is not a lock object's spin word *)
Definition not_lock_obj (o : list Z) : Prop := forall x, is_lacc x (EvAcc KLd o true) = false.
Lemma nlo_ref n : not_lock_obj (obj_ref n). Proof. intros x; reflexivity. Qed.
Lemma nlo_data n : not_lock_obj (obj_data n). Proof. intros x; reflexivity. Qed.
Lemma nlo_gate : not_lock_obj obj_gate. Proof. intros x; reflexivity. Qed.
Lemma nlo_nil : not_lock_obj []. Proof. intros x; reflexivity. Qed.

Lemma disc_acc_other tr t k o ok : not_lock_obj o -> disc_from tr (Conc.tag t [EvAcc k o ok]).
Proof.
  intros H. cbn. split; auto. apply ev_ok_quiet; [|reflexivity].
  intros x. specialize (H x). cbn in *. exact H.
Qed.

Lemma is_lacc_lspin x0 k x ok : is_lacc x0 (EvAcc k (obj_lspin x) ok) = Nat.eqb x x0.
Proof.
  cbn. destruct (Z.eqb_spec (Z.of_nat x) (Z.of_nat x0)); destruct (Nat.eqb_spec x x0); try lia; reflexivity.
Qed.

Lemma disc_lacc g tr t k x ok :
  InvD g tr -> ~ In x (pool g) -> x < fresh g -> disc_from tr (Conc.tag t [EvAcc k (obj_lspin x) ok]).
Proof.
  intros (_ & D2) Hp Hf. cbn. split; auto. intros x0. rewrite is_lacc_lspin. cbn [ad].
  repeat split; try discriminate. intros E. apply Nat.eqb_eq in E. subst x0. now apply D2.
Qed.

Lemma disc_cli_other tr t name args :
  String.eqb name "pool_alloc" = false -> String.eqb name "pool_free" = false ->
  disc_from tr (Conc.tag t [EvCli name args]).
Proof.
  intros N1 N2. cbn. split; auto. apply ev_ok_quiet; [reflexivity|]. intros x. now apply ad_cli_other.
Qed.

(** ** a step that changes nothing the invariant reads (loads, failed CAS, failed exchange, client markers) *)
Lemma step_same g g' vs rf tr t es :
  Inv g (vs, rf) tr ->
  (forall n, refspin g' n = refspin g n) -> (forall n, plock g' n = plock g n) ->
  (forall x, lspin g' x = lspin g x) -> pool g' = pool g -> fresh g' = fresh g ->
  (forall n, occ n (Conc.tag t es) = 0%Z) -> (forall x, acnt x (Conc.tag t es) = 0%Z) ->
  disc_from tr (Conc.tag t es) ->
  Inv g' (upd vs t (vs t), rf) (tr ++ Conc.tag t es).
Proof.
  intros (HR & HP & HM & HL & HO & HD) E1 E2 E3 E4 E5 Eo Ea Ed. cbn [fst snd] in *.
  split; [|split; [|split; [|split; [|split]]]]; cbn [fst snd].
  - apply InvR_frame with (g := g); auto.
    destruct HR as (_ & _ & _ & R4). specialize (R4 t). destruct (fst (vs t)); auto; rewrite !E1; auto.
  - apply InvP_frame with (g := g); auto.
  - apply InvM_frame with (g := g); auto.
  - apply InvL_frame with (g := g); auto.
  - apply InvO_frame; auto.
  - apply InvD_frame with (g := g); auto.
Qed.

(** ** the spin lock of the node: successful exchange *)
Lemma step_xchg_ok g vs rf tr t n x s :
  Inv g (vs, rf) tr -> vs t = (LWait n x, s) -> lspin g x = false ->
  Inv (set_lspin g x true) (upd vs t (LGot n x, s), rf) (tr ++ Conc.tag t [EvAcc KXchg (obj_lspin x) true]).
Proof.
  intros (HR & HP & HM & HL & HO & HD) Hv Hs. cbn [fst snd] in *.
  assert (Hpl : plock g n = Some x).
  { destruct HP as (P1 & _). apply (P1 t). rewrite Hv. right. cbn. now rewrite !Nat.eqb_refl. }
  assert (Hal : ~ In x (pool g) /\ x < fresh g) by (destruct HL as (_ & L2 & _); eapply L2; eauto).
  assert (Hz : forall t0, hm (vs t0) x = 0).
  { intros t0. destruct HM as (M1 & _). destruct (Nat.eq_dec (hm (vs t0) x) 0) as [E|E]; [exact E|].
    rewrite (M1 t0 x) in Hs by lia. discriminate. }
  split; [|split; [|split; [|split; [|split]]]]; cbn [fst snd].
  - apply InvR_frame with (g := g); auto; rewrite ?Hv; intros; fin.
  - apply InvP_frame with (g := g); auto; rewrite ?Hv; intros; fin.
  - destruct HM as (M1 & M2 & M3 & M4).
    assert (E : forall t0 x0, hm (upd vs t (LGot n x, s) t0) x0 = hm (vs t0) x0 + b2n (Nat.eqb t0 t && Nat.eqb x x0)).
    { intros t0 x0. destruct (Nat.eqb_spec t0 t) as [EQ|N]; [subst t0|]; [rewrite upd_same, Hv|rewrite upd_other by exact N; cbn; lia].
      unfold hm. cbn [fst snd hmph]. destruct (Nat.eqb x x0); cbn; lia. }
    repeat split.
    + intros t0 x0. rewrite E. cbn [lspin set_lspin]. unfold updn. intros H.
      destruct (Nat.eqb_spec x0 x) as [EQ|Nx]; [subst x0|]; [reflexivity|]. apply (M1 t0).
      destruct (Nat.eqb_spec x x0); [congruence|]. rewrite andb_false_r in H. cbn in H. lia.
    + intros t1 t2 x0. rewrite !E. intros H1 H2. destruct (Nat.eqb_spec x x0) as [EQ|Nx]; [subst x0|].
      * rewrite !Hz in *. rewrite !andb_true_r in *. destruct (Nat.eqb_spec t1 t); destruct (Nat.eqb_spec t2 t); cbn in *; try lia; congruence.
      * rewrite !andb_false_r in *. cbn in *. apply (M2 t1 t2 x0); lia.
    + intros t0 x0. rewrite E. destruct (Nat.eqb_spec x x0) as [EQ|Nx]; [subst x0|].
      * rewrite Hz. destruct (Nat.eqb t0 t); cbn; lia.
      * rewrite andb_false_r. cbn. specialize (M3 t0 x0). lia.
    + intros x0. cbn [lspin set_lspin]. unfold updn. destruct (Nat.eqb_spec x0 x) as [EQ|Nx]; [subst x0|].
      * intros _. exists t. rewrite E, !Nat.eqb_refl. cbn. lia.
      * intros H. destruct (M4 x0 H) as [t0 H0]. exists t0. rewrite E. lia.
  - apply InvL_frame with (g := g); auto; rewrite ?Hv; intros; fin.
  - apply InvO_frame; [exact HO|intros; apply occ_acc|rewrite Hv; intros; fin].
  - apply InvD_frame with (g := g); auto. eapply disc_lacc; eauto; tauto.
Qed.

(** ** the spin lock of the node: unlock (store false) *)
Lemma step_st_l g vs rf tr t n x s :
  Inv g (vs, rf) tr -> vs t = (ULeft n x, s) ->
  Inv (set_lspin g x false) (upd vs t (URel n, s), rf) (tr ++ Conc.tag t [EvAcc KSt (obj_lspin x) true]).
Proof.
  intros (HR & HP & HM & HL & HO & HD) Hv. cbn [fst snd] in *.
  assert (Hpl : plock g n = Some x).
  { destruct HP as (P1 & _). apply (P1 t). rewrite Hv. right. cbn. now rewrite !Nat.eqb_refl. }
  assert (Hal : ~ In x (pool g) /\ x < fresh g) by (destruct HL as (_ & L2 & _); eapply L2; eauto).
  split; [|split; [|split; [|split; [|split]]]]; cbn [fst snd].
  - apply InvR_frame with (g := g); auto; rewrite ?Hv; intros; fin.
  - apply InvP_frame with (g := g); auto; rewrite ?Hv; intros; fin.
  - destruct HM as (M1 & M2 & M3 & M4).
    assert (Hme : hm (vs t) x = 1 /\ cntx s x = 0).
    { specialize (M3 t x). rewrite Hv in *. unfold hm in *. cbn [fst snd hmph] in *. rewrite Nat.eqb_refl in *. cbn in *. lia. }
    assert (E : forall t0 x0, hm (upd vs t (URel n, s) t0) x0 = hm (vs t0) x0 - b2n (Nat.eqb t0 t && Nat.eqb x x0)).
    { intros t0 x0. destruct (Nat.eqb_spec t0 t) as [EQ|N]; [subst t0|]; [rewrite upd_same, Hv|rewrite upd_other by exact N; cbn; lia].
      unfold hm. cbn [fst snd hmph]. destruct (Nat.eqb x x0); cbn; lia. }
    assert (Hoth : forall t0, t0 <> t -> hm (vs t0) x = 0).
    { intros t0 N. destruct (Nat.eq_dec (hm (vs t0) x) 0) as [Z0|Z0]; [exact Z0|]. exfalso. apply N. apply (M2 t0 t x); lia. }
    repeat split.
    + intros t0 x0. rewrite E. cbn [lspin set_lspin]. unfold updn. intros H.
      destruct (Nat.eqb_spec x0 x) as [EQ|Nx]; [subst x0|].
      * exfalso. rewrite Nat.eqb_refl, andb_true_r in H. destruct (Nat.eqb_spec t0 t) as [EQ|N]; [subst t0|]; cbn in H; [lia|].
        rewrite Hoth in H by exact N. lia.
      * apply (M1 t0). lia.
    + intros t1 t2 x0. rewrite !E. intros H1 H2. apply (M2 t1 t2 x0); lia.
    + intros t0 x0. rewrite E. specialize (M3 t0 x0). lia.
    + intros x0. cbn [lspin set_lspin]. unfold updn. destruct (Nat.eqb_spec x0 x) as [EQ|Nx]; [subst x0|]; [discriminate|].
      intros H. destruct (M4 x0 H) as [t0 H0]. exists t0. rewrite E.
      destruct (Nat.eqb_spec x x0); [congruence|]. rewrite andb_false_r. cbn. lia.
  - apply InvL_frame with (g := g); auto; rewrite ?Hv; intros; fin.
  - apply InvO_frame; [exact HO|intros; apply occ_acc|rewrite Hv; intros; fin].
  - apply InvD_frame with (g := g); auto. eapply disc_lacc; eauto; tauto.
Qed.

(** ** client events *)
Lemma occ_tag_cli n t name n' :
  occ n (Conc.tag t [EvCli name (zl n')]) =
  if Nat.eqb n' n then (if String.eqb name "enter" then 1 else if String.eqb name "leave" then -1 else 0)%Z else 0%Z.
Proof.
  cbn. destruct (Z.eqb_spec (Z.of_nat n') (Z.of_nat n)); destruct (Nat.eqb_spec n' n); try lia.
Qed.

Lemma step_enter g vs rf tr t n x s :
  Inv g (vs, rf) tr -> vs t = (LGot n x, s) ->
  Inv g (upd vs t (Idle, (n, x) :: s), rf) (tr ++ Conc.tag t [EvCli "enter" (zl n)]).
Proof.
  intros (HR & HP & HM & HL & HO & HD) Hv. cbn [fst snd] in *.
  split; [|split; [|split; [|split; [|split]]]]; cbn [fst snd].
  - apply InvR_frame with (g := g); auto; rewrite ?Hv; intros; fin.
  - apply InvP_frame with (g := g); auto; rewrite ?Hv; [|intros; fin].
    intros n0 x0 [H|H]; [|discriminate]. cbn [snd] in H. destruct H as [H|H]; [inversion H; subst; right; cbn; now rewrite !Nat.eqb_refl|now left].
  - apply InvM_frame with (g := g); auto; rewrite ?Hv; intros; fin.
  - apply InvL_frame with (g := g); auto; rewrite ?Hv; intros; fin.
  - (* nobody is inside n before *)
    assert (Hnone : forall t0, cntn (snd (vs t0)) n = 0).
    { intros t0. destruct (Nat.eq_dec (cntn (snd (vs t0)) n) 0) as [E|E]; [exact E|]. exfalso.
      destruct (cntn_In (snd (vs t0)) n) as [x0 Hx0]; [lia|].
      destruct HP as (P1 & _). destruct HM as (_ & M2 & M3 & _).
      assert (plock g n = Some x0) by (apply (P1 t0); now left).
      assert (plock g n = Some x) by (apply (P1 t); rewrite Hv; right; cbn; now rewrite !Nat.eqb_refl).
      assert (x0 = x) by congruence. subst x0.
      assert (Hh0 : hm (vs t0) x >= 1) by (apply In_cntx in Hx0; unfold hm; lia).
      assert (Hh1 : hm (vs t) x >= 1) by (rewrite Hv; unfold hm; cbn; rewrite Nat.eqb_refl; cbn; lia).
      assert (t0 = t) by (eapply M2; eauto). subst t0.
      specialize (M3 t x). rewrite Hv in *. apply In_cntx in Hx0. unfold hm in M3. cbn [fst snd hmph] in *.
      rewrite Nat.eqb_refl in M3. cbn in *. lia. }
    intros n0. rewrite occ_app, occ_tag_cli. cbn [String.eqb Ascii.eqb Bool.eqb].
    assert (E : forall t0, cntn (snd (upd vs t (Idle, (n, x) :: s) t0)) n0 = cntn (snd (vs t0)) n0 + b2n (Nat.eqb t0 t && Nat.eqb n n0)).
    { intros t0. destruct (Nat.eqb_spec t0 t) as [EQ|N]; [subst t0|]; [rewrite upd_same, Hv|rewrite upd_other by exact N; cbn; lia].
      cbn [snd]. rewrite cntn_cons. cbn. lia. }
    destruct (Nat.eqb_spec n n0) as [EQ|Nn]; [subst n0|].
    + destruct (HO n) as [[Hz _]|[_ [t0 [H0 _]]]]; [|rewrite Hnone in H0; discriminate].
      right. split; [lia|]. exists t. rewrite E, Hnone, !Nat.eqb_refl. split; [reflexivity|].
      intros t' N. rewrite E, Hnone. destruct (Nat.eqb_spec t' t); [congruence|reflexivity].
    + rewrite Z.add_0_r. destruct (HO n0) as [[Hz Hn]|[Hz [t0 [H0 Hn]]]].
      * left. split; auto. intros t0. rewrite E, andb_false_r. cbn. rewrite Hn. reflexivity.
      * right. split; auto. exists t0. rewrite E, andb_false_r. cbn. split; [lia|].
        intros t' N. rewrite E, andb_false_r. cbn. rewrite Hn by exact N. reflexivity.
  - apply InvD_frame with (g := g); auto; [intros; apply acnt_cli_other; reflexivity|]. apply disc_cli_other; reflexivity.
Qed.

Lemma step_leave g vs rf tr t n x s :
  Inv g (vs, rf) tr -> vs t = (Idle, (n, x) :: s) ->
  Inv g (upd vs t (ULeft n x, s), rf) (tr ++ Conc.tag t [EvCli "leave" (zl n)]).
Proof.
  intros (HR & HP & HM & HL & HO & HD) Hv. cbn [fst snd] in *.
  split; [|split; [|split; [|split; [|split]]]]; cbn [fst snd].
  - apply InvR_frame with (g := g); auto; rewrite ?Hv; intros; fin.
  - apply InvP_frame with (g := g); auto; rewrite ?Hv; [|intros; fin].
    intros n0 x0 [H|H]; [left; right; exact H|]. cbn in H. apply andb_true_iff in H. destruct H as [A B].
    apply Nat.eqb_eq in A, B. subst. left. now left.
  - apply InvM_frame with (g := g); auto; rewrite ?Hv; intros; fin.
  - apply InvL_frame with (g := g); auto; rewrite ?Hv; intros; fin.
  - intros n0. rewrite occ_app, occ_tag_cli. cbn [String.eqb Ascii.eqb Bool.eqb].
    assert (E : forall t0, cntn (snd (upd vs t (ULeft n x, s) t0)) n0 + b2n (Nat.eqb t0 t && Nat.eqb n n0) = cntn (snd (vs t0)) n0).
    { intros t0. destruct (Nat.eqb_spec t0 t) as [EQ|N]; [subst t0|]; [rewrite upd_same, Hv|rewrite upd_other by exact N; cbn; lia].
      cbn [snd]. rewrite cntn_cons. cbn. lia. }
    destruct (Nat.eqb_spec n n0) as [EQ|Nn]; [subst n0|].
    + assert (Hme : cntn (snd (vs t)) n >= 1) by (rewrite Hv; cbn [snd]; rewrite cntn_cons, Nat.eqb_refl; cbn; lia).
      destruct (HO n) as [[_ Hn]|[Hz [t0 [H0 Hn]]]]; [rewrite Hn in Hme; lia|].
      assert (t0 = t) by (destruct (Nat.eq_dec t0 t) as [X|X]; [exact X|]; rewrite (Hn t) in Hme by congruence; lia). subst t0.
      left. split; [lia|]. intros t0. specialize (E t0). destruct (Nat.eqb_spec t0 t) as [EQ|N]; [subst t0|]; cbn in E.
      * cbn in E. lia.
      * rewrite Nat.add_0_r in E. rewrite E. apply Hn. exact N.
    + rewrite Z.add_0_r. destruct (HO n0) as [[Hz Hn]|[Hz [t0 [H0 Hn]]]].
      * left. split; auto. intros t0. specialize (E t0). rewrite andb_false_r in E. cbn in E. rewrite Hn in E. lia.
      * right. split; auto. exists t0. pose proof (E t0) as E0. rewrite andb_false_r in E0. cbn in E0. split; [lia|].
        intros t' N. specialize (E t'). rewrite andb_false_r in E. cbn in E. rewrite Hn in E by exact N. lia.
  - apply InvD_frame with (g := g); auto; [intros; apply acnt_cli_other; reflexivity|]. apply disc_cli_other; reflexivity.
Qed.
