(** * SkipListNestE3: rules for the accesses that write a [next] cell without changing the ghost state
      (marking CASes, stores and own-link CAS on cells of the thread's own node). *)
From Coq Require Import ZArith List String Bool Lia PeanoNat.
From LV Require Import Base.Conc Base.Events Model.SkipList Proofs.SkipListProofs Proofs.SkipListSub Proofs.SkipListNest Proofs.SkipListNestE.
Import ListNotations.

Lemma stepc_cell_same g a t p l x lv' :
  snd (nxt g p l) = false -> (fst x = fst (nxt g p l) \/ owner_of p = t) -> stepc t g a (setnx g p l x) (setview a t lv').
Proof.
  intros Hm Hf. constructor; cbn [setview ealk eanl eadn]; auto.
  - intros q l' Hq. apply setnx_other. intros X. inversion X; subst. congruence.
  - intros q Hq. cbn [setnx unl hgt_of]. split; [lia|]. split; [reflexivity|]. intros X. split; [exact X|lia].
  - intros p' l'. destruct (Nat.eq_dec p' p) as [->|Np].
    + destruct (Nat.eq_dec l' l) as [->|Nl]; [rewrite setnx_same; destruct Hf; auto|left; rewrite setnx_other by congruence; reflexivity].
    + left. rewrite setnx_other by congruence. reflexivity.
Qed.

Lemma EINV_cell_same g a t p l x lv' :
  EINV g a -> Lev (setnx g p l x) (eLs a) ->
  (l < ealk a p -> eanl a p <= l -> snd x = true) -> (ealk a p = 0 -> snd x = false) ->
  snd (nxt g p l) = false -> (fst x = fst (nxt g p l) \/ owner_of p = t) ->
  evw_ok (setnx g p l x) (setview a t lv') t lv' -> wser (evw a t) <= wser lv' -> wowe lv' = wowe (evw a t) ->
  EINV (setnx g p l x) (setview a t lv').
Proof.
  intros Hi HL Hd H0 Hm Hf Hv Hs Hw. pose proof (stepc_cell_same g a t p l x lv' Hm Hf) as Hsc.
  destruct Hi as [I1 I2 I3 I4 I5 I6 I7 I8 I9 I10 I11 I12].
  constructor; unfold pend, rest in *; cbn [setview eLs ealk eanl eadn eapl evw setnx unl hgt_of] in *; auto.
  - intros q l' A1 A2. destruct (Nat.eq_dec q p) as [->|Np].
    + destruct (Nat.eq_dec l' l) as [->|Nl]; [rewrite setnx_same; auto|rewrite setnx_other by congruence; auto].
    + rewrite setnx_other by congruence. auto.
  - intros q l' A1. destruct (Nat.eq_dec q p) as [->|Np].
    + destruct (Nat.eq_dec l' l) as [->|Nl]; [rewrite setnx_same; auto|rewrite setnx_other by congruence; auto].
    + rewrite setnx_other by congruence. auto.
  - intros q Hq. destruct (I10 q Hq) as [A1 A2]. split; [exact A1|].
    destruct (Nat.eq_dec (owner_of q) t) as [X|X]; [rewrite X in *; rewrite setvw_same; lia|now rewrite setvw_other].
  - destruct I11 as [N1 N2]. split; [exact N1|]. intros u q. rewrite N2.
    destruct (Nat.eq_dec u t) as [->|X]; [rewrite setvw_same, Hw; tauto|rewrite setvw_other by exact X; tauto].
  - intros u. destruct (Nat.eq_dec u t) as [->|X]; [rewrite setvw_same; exact Hv|rewrite setvw_other by exact X].
    eapply evw_step; eauto.
Qed.

Lemma Lev_offlist g a p l x : EINV g a -> p <> head -> eanl a p <= l -> Lev (setnx g p l x) (eLs a).
Proof.
  intros Hi Hp Hn l' Hl'. apply walkl_setnx_other; [|apply (e_lev _ _ Hi); exact Hl'].
  destruct (Nat.eq_dec l' l) as [->|N]; [right|now left]. intros [X|X]; [congruence|].
  apply (e_n1 _ _ Hi l p Hl') in X. lia.
Qed.

Lemma Lev_sameptr g a p l x : EINV g a -> fst x = fst (nxt g p l) -> Lev (setnx g p l x) (eLs a).
Proof.
  intros Hi E l' Hl'. eapply walkl_ext; [|apply (e_lev _ _ Hi); exact Hl']. intros n.
  destruct (Nat.eq_dec n p) as [->|Np].
  - destruct (Nat.eq_dec l' l) as [->|Nl]; [now rewrite setnx_same|]. rewrite setnx_other by congruence. reflexivity.
  - rewrite setnx_other by congruence. reflexivity.
Qed.

(** a failed CAS: the state is unchanged and the current value is returned, as by a load *)
Lemma E_same g a t lv' : EINV g a -> evw_ok g a t lv' -> wser (evw a t) <= wser lv' -> wowe lv' = wowe (evw a t) -> EINV g (setview a t lv').
Proof. intros. apply (E_view g); auto. Qed.

(** the marking CASes of try_remove_at *)
Lemma EF_mark {R} t n K O W q l cur (k : V -> prog R) :
  snd cur = false -> ekn1 K q ->
  (forall K', incl K K' -> In (FZ q l (fst cur)) K' -> EF t n K' O W (k (VC true cur))) ->
  (forall c K', incl K K' -> (snd c = true -> In (FZ q l (fst c)) K') -> EF t n K' O W (k (VC false c))) ->
  EF t n K O W (Act (a_cas_next q l cur (fst cur, true)) k).
Proof.
  intros Hc Hq H1 H2 lv HK Hn HO HW. apply E_act. intros g a Hi Hv. subst lv. unfold a_cas_next.
  destruct (mp_eqb (nxt g q l) cur) eqn:E; cbn [fst snd].
  - apply mp_eqb_eq in E.
    set (lv' := addf (FZ q l (fst cur)) (evw a t)).
    assert (Ha : 1 <= ealk a q) by (eapply ekn1_alk; eauto).
    assert (Hm : snd (nxt g q l) = false) by (rewrite E; exact Hc).
    assert (Hsc : stepc t g a (setnx g q l (fst cur, true)) (setview a t lv')).
    { apply stepc_cell_same; [exact Hm|left; now rewrite E]. }
    exists (setview a t lv'). split; [intros; now apply setview_other|]. split.
    + change (EINV (setnx g q l (fst cur, true)) (setview a t lv')).
      apply EINV_cell_same; [exact Hi| | | |exact Hm|left; now rewrite E| |apply le_n|reflexivity].
      * apply Lev_sameptr; auto. now rewrite E.
      * intros _ _. reflexivity.
      * intros X. lia.
      * destruct (e_views _ _ Hi t) as [V1 V2]. split.
        -- intros f [<-|Hf]; [cbn [fact_ok]; now rewrite setnx_same|eapply fact_step; eauto].
        -- cbn [lv' addf wown wser]. pose proof (evw_step t g a _ _ (S t) (mkEV [] (wser (evw a t)) (wown (evw a t)) None) Hsc) as X.
           unfold eown_ok in *. destruct (wown (evw a t)) as [[[[nw k0] c] hb]|]; [|exact Logic.I].
           destruct V2 as (O1 & O2 & O3 & O4 & O5 & O6 & O7 & O8). cbn [setview ealk eadn setnx hgt_of unl]. repeat split; auto.
           intros y Hy. destruct (Nat.eq_dec nw q) as [->|Nq].
           ++ destruct (Nat.eq_dec k0 l) as [->|Nl]; [rewrite setnx_same; cbn [fst]; rewrite <- (O8 y Hy), E; reflexivity|].
              rewrite setnx_other by congruence. auto.
           ++ rewrite setnx_other by congruence. auto.
    + rewrite setview_same. rewrite E. apply (H1 (FZ q l (fst cur) :: K)); auto; [apply incl_tl, incl_refl|now left|].
      cbn [lv' addf wkn]. intros y [<-|Hy]; [now left|right; now apply HK].
  - destruct (snd (nxt g q l)) eqn:Em.
    + set (lv' := addf (FZ q l (fst (nxt g q l))) (evw a t)).
      exists (setview a t lv'). split; [intros; now apply setview_other|]. split.
      * apply E_same; auto. apply evw_ok_addf; [apply (e_views _ _ Hi)|]. cbn [fact_ok]. destruct (nxt g q l); cbn in *; congruence.
      * rewrite setview_same. apply (H2 _ (FZ q l (fst (nxt g q l)) :: K)); auto; [apply incl_tl, incl_refl|intros; now left|].
        cbn [lv' addf wkn]. intros y [<-|Hy]; [now left|right; now apply HK].
    + exists (setview a t (evw a t)). split; [intros; now apply setview_other|]. split.
      * apply E_same; auto. apply (e_views _ _ Hi).
      * rewrite setview_same. apply (H2 _ K); auto; [apply incl_refl|intros X; congruence].
Qed.

(** stores to the cells of my node before it is linked anywhere *)
Lemma EINV_own_write g a t lv nw k0 c hb l x :
  EINV g a -> evw a t = lv -> wown lv = Some (nw, k0, c, hb) -> k0 <= l -> snd x = false -> snd (nxt g nw l) = false ->
  let lv' := mkEV (wkn lv) (wser lv) (Some (nw, k0, (if Nat.eqb l k0 then Some (fst x) else c), hb)) (wowe lv) in
  EINV (setnx g nw l x) (setview a t lv').
Proof.
  intros Hi Hv HO Hl Hx Hm lv'. destruct (e_views _ _ Hi t) as [V1 V2]. rewrite Hv in V1, V2. rewrite HO in V2.
  destruct V2 as (O1 & O2 & O3 & O4 & O5 & O6 & O7 & O8).
  assert (Hsc : stepc t g a (setnx g nw l x) (setview a t lv')) by (apply stepc_cell_same; auto).
  apply EINV_cell_same; [exact Hi| | | |exact Hm|right; exact O2| | |].
  - apply Lev_offlist; auto; [unfold isnode, head in *; lia|]. pose proof (proj1 (e_n2 _ _ Hi nw)). lia.
  - intros X. lia.
  - intros _. exact Hx.
  - split; [intros f Hf; eapply fact_step; eauto|]. cbn [lv' wown wser eown_ok setview ealk eadn setnx hgt_of unl]. repeat split; auto.
    intros y Hy. destruct (Nat.eqb_spec l k0) as [->|Nl].
    + inversion Hy; subst y. now rewrite setnx_same.
    + rewrite setnx_other by congruence. auto.
  - rewrite Hv. cbn. lia.
  - rewrite Hv. reflexivity.
Qed.

Lemma EF_st_own {R} t n K nw c hb W l x (k : V -> prog R) :
  snd x = false ->
  (forall v, EF t n K (Some (nw, 0, (if Nat.eqb l 0 then Some (fst x) else c), hb)) W (k v)) ->
  EF t n K (Some (nw, 0, c, hb)) W (Act (a_st_next nw l x) k).
Proof.
  intros Hx H lv HK Hn HO HW. apply E_act. intros g a Hi Hv.
  destruct (e_views _ _ Hi t) as [V1 V2]. rewrite Hv in V1, V2. rewrite HO in V2. destruct V2 as (O1 & O2 & O3 & O4 & O5 & O6 & O7 & O8).
  exists (setview a t (mkEV (wkn lv) (wser lv) (Some (nw, 0, (if Nat.eqb l 0 then Some (fst x) else c), hb)) (wowe lv))).
  split; [intros; now apply setview_other|]. split.
  - cbn [a_st_next fst snd]. apply (EINV_own_write g a t lv nw 0 c hb l x); auto; [lia|]. apply (e_m0 _ _ Hi). exact O4.
  - rewrite setview_same. apply H; auto.
Qed.

Lemma EF_cas_own {R} t n K nw k0 c hb W e d (k : V -> prog R) :
  snd e = false -> snd d = false ->
  (forall cur, EF t n K (Some (nw, k0, Some (fst d), hb)) W (k (VC true cur))) ->
  (forall cur, EF t n K (Some (nw, k0, c, hb)) W (k (VC false cur))) ->
  EF t n K (Some (nw, k0, c, hb)) W (Act (a_cas_next nw k0 e d) k).
Proof.
  intros He Hd H1 H2 lv HK Hn HO HW. apply E_act. intros g a Hi Hv. unfold a_cas_next.
  destruct (mp_eqb (nxt g nw k0) e) eqn:E; cbn [fst snd].
  - apply mp_eqb_eq in E.
    exists (setview a t (mkEV (wkn lv) (wser lv) (Some (nw, k0, (if Nat.eqb k0 k0 then Some (fst d) else c), hb)) (wowe lv))).
    split; [intros; now apply setview_other|]. split.
    + apply (EINV_own_write g a t lv nw k0 c hb k0 d); auto. now rewrite E.
    + rewrite setview_same, Nat.eqb_refl. apply H1; auto.
  - exists (setview a t lv). split; [intros; now apply setview_other|]. split.
    + subst lv. apply E_same; auto. apply (e_views _ _ Hi).
    + rewrite setview_same. now apply H2.
Qed.
