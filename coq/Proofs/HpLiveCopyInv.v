(** * C01 for guards that move UPWARD: the second invariant of the HP model.

    [chain tr s r p]: from index [s] to the end of [tr], at every step SOME hazard slot of thread record [r] holds
    [p], and the index of that slot never decreases over time.  (A single slot holding [p] all the time -- [held] --
    is the special case of a constant index; a guard copied from slot i to a slot j > i of the same thread, the
    source being released only afterwards, is a chain that steps from i to j.)

    [Inv2] (auxiliary state: per thread, the progress of its scan and of its Guard::copy) states
    - [j_safe]: a classic scan never hands [p] to the disposer if a chain for [p] exists since the scan began.
      Reason: both scans read the slots of a record in ASCENDING index order, so a value that only moves upward
      cannot slip between two reads;
    - [j_copied]: when Guard::copy( dst, src ) returns, the thread has loaded slot src once, stored the value read
      into slot dst once, and touched no other slot in between.
    It is proved with the rule of [HpLiveCopyRule] on top of [HpInv.Inv] (from which it uses: the trace replay of
    the slots agrees with the memory, the slots of un-owned / unlisted records and the slots above H are null). *)
From Coq Require Import ZArith List String Bool Lia PeanoNat.
From LV Require Import Base.Conc Base.Events Model.Hp Proofs.HpTrace Proofs.HpInv Proofs.HpSteps Proofs.HpProofs.
Import ListNotations.
Local Open Scope string_scope.
Local Open Scope list_scope.

(** ** chains *)
Definition chain_w (tr : trace) (s r : nat) (p : Z) (f : nat -> nat) : Prop :=
  (forall i, s <= i <= List.length tr -> slot_at (firstn i tr) r (f i) = p) /\
  (forall i i', s <= i -> i <= i' -> i' <= List.length tr -> f i <= f i').
Definition chain (tr : trace) (s r : nat) (p : Z) : Prop := exists f, chain_w tr s r p f.

Lemma chain_w_prefix tr es s r p f : chain_w (tr ++ es) s r p f -> chain_w tr s r p f.
Proof.
  intros (H1 & H2). split.
  - intros i Hi. rewrite <- (firstn_app_le tr es i) by lia. apply H1. rewrite app_length. lia.
  - intros i i' Ha Hb Hc. apply H2; auto. rewrite app_length. lia.
Qed.
Lemma chain_w_weaken tr s s' r p f : s <= s' -> chain_w tr s r p f -> chain_w tr s' r p f.
Proof. intros Hs (H1 & H2). split; [intros i Hi; apply H1; lia|intros i i' Ha Hb Hc; apply H2; lia]. Qed.
Lemma chain_weaken tr s s' r p : s <= s' -> chain tr s r p -> chain tr s' r p.
Proof. intros Hs (f & H). exists f. eapply chain_w_weaken; eauto. Qed.
Lemma chain_w_now tr s r p f : chain_w tr s r p f -> s <= List.length tr -> slot_at tr r (f (List.length tr)) = p.
Proof. intros (H1 & _) Hs. specialize (H1 (List.length tr)). rewrite firstn_all in H1. apply H1. lia. Qed.
Lemma held_chain tr s r j p : held tr s r j p -> chain tr s r p.
Proof. intros H. exists (fun _ => j). split; [exact H|intros; lia]. Qed.

(** ** auxiliary state *)
Record scan2 := mkS2 { s_coll : list Z; s_todo : option (list nat); s_cur : option (nat * nat) }.
Inductive cpst :=
| CNone
| CStart (c0 j i : nat)
| CLoaded (c0 j i r ld : nat) (x : Z)
| CStored (c0 j i r ld : nat) (x : Z) (w : nat).
Record view2T := mkV2 { v2_scan : option scan2; v2_cp : cpst }.
Definition V0 : view2T := mkV2 None CNone.
Definition Aux2 := nat -> view2T.
Definition view2 (a : Aux2) (t : nat) : view2T := a t.
Definition upd2 (a : Aux2) (t : nat) (v : view2T) : Aux2 := fun x => if Nat.eqb x t then v else a x.
Lemma upd2_same a t v : upd2 a t v t = v.
Proof. unfold upd2. now rewrite Nat.eqb_refl. Qed.
Lemma upd2_other a t v t' : t' <> t -> upd2 a t v t' = a t'.
Proof. unfold upd2. intros H. destruct (Nat.eqb_spec t' t); congruence. Qed.
Lemma frame_upd2 a t v : Conc.frame view2 t a (upd2 a t v).
Proof. intros t' H. unfold view2. now apply upd2_other. Qed.
Lemma frame2_refl a t : Conc.frame view2 t a a.
Proof. intros ? ?; reflexivity. Qed.

(** the scan of thread [t]: every chain since its beginning is either already collected, or lives in a record still
    to be visited, or in the record being visited at a slot index not yet read *)
Definition scan_ok (tr : trace) (t : nat) (st : scan2) : Prop :=
  exists s, last_sb tr t = Some s /\
    forall r p f, p <> 0%Z -> chain_w tr s r p f ->
      In p (s_coll st) \/
      match s_todo st with
      | None => True
      | Some td => In r td \/ exists k, s_cur st = Some (r, k) /\ k <= f (List.length tr)
      end.

Definition cp_inert (e : ev) : bool := (pat_ok e && negb (is_opstart e))%bool.
Definition ev_copy (j i : nat) : ev := EvCli "copy" [zn j; zn i].

Definition cp_ok (tr : trace) (t : nat) (st : cpst) : Prop :=
  match st with
  | CNone => True
  | CStart c0 j i =>
      nth_error tr c0 = Some (t, ev_copy j i) /\ (forall m e, c0 < m -> nth_error tr m = Some (t, e) -> False)
  | CLoaded c0 j i r ld x =>
      nth_error tr c0 = Some (t, ev_copy j i) /\ c0 < ld /\
      nth_error tr ld = Some (t, EvAcc KLd (obj_slot r i) true) /\ x = slot_at (firstn ld tr) r i /\
      (forall m e, c0 < m -> nth_error tr m = Some (t, e) -> cp_inert e = true)
  | CStored c0 j i r ld x w =>
      nth_error tr c0 = Some (t, ev_copy j i) /\ c0 < ld /\ ld < w /\
      nth_error tr ld = Some (t, EvAcc KLd (obj_slot r i) true) /\ x = slot_at (firstn ld tr) r i /\
      nth_error tr w = Some (t, ev_slot r j x) /\
      (forall m e, c0 < m -> nth_error tr m = Some (t, e) -> m <> w -> cp_inert e = true)
  end.
(** what the trace before a "copied" event of thread [u] looks like *)
Definition copied_ok (pre : trace) (u : nat) : Prop := exists c0 j i r ld x w, cp_ok pre u (CStored c0 j i r ld x w).

Definition jsafe (tr : trace) : Prop :=
  forall d t p s, nth_error tr d = Some (t, ev_dispose p) -> last_sb (firstn d tr) t = Some s -> p <> 0%Z ->
    forall r, ~ chain (firstn (S d) tr) s r p.
Definition jcopied (tr : trace) : Prop :=
  forall v1 u, nth_error tr v1 = Some (u, EvCli "copied" []) -> copied_ok (firstn v1 tr) u.

Record Inv2 (c : cfgT) (g : G) (a : Aux2) (tr : trace) : Prop := mkInv2 {
  j_scan : forall t st, v2_scan (a t) = Some st -> scan_ok tr t st;
  j_cp : forall t, cp_ok tr t (v2_cp (a t));
  j_safe : jsafe tr;
  j_copied : jcopied tr
}.

(** ** extension lemmas *)
Lemma nth_error_app_tag_ge (tr : trace) t es m u e :
  List.length tr <= m -> nth_error (tr ++ Conc.tag t es) m = Some (u, e) ->
  u = t /\ nth_error es (m - List.length tr) = Some e.
Proof. intros Hm H. rewrite nth_error_app2 in H by exact Hm. now apply nth_error_tag in H. Qed.

Lemma nth_error_lt_length {A} (l : list A) i x : nth_error l i = Some x -> i < List.length l.
Proof. intros H. apply nth_error_Some. congruence. Qed.

Lemma scan_ok_mono tr t st es :
  last_sb (tr ++ es) t = last_sb tr t -> scan_ok tr t st -> scan_ok (tr ++ es) t st.
Proof.
  intros Hsb (s & Hs & Hc). exists s. split; [now rewrite Hsb|].
  intros r p f Hp Hch. pose proof (last_sb_lt _ _ _ Hs) as Hlt.
  destruct (Hc r p f Hp (chain_w_prefix _ _ _ _ _ _ Hch)) as [H|H]; [now left|right].
  destruct (s_todo st) as [td|]; [|exact I]. destruct H as [H|(k & Hk & Hle)]; [now left|right].
  exists k. split; [exact Hk|]. destruct Hch as (_ & Hm).
  specialize (Hm (List.length tr) (List.length (tr ++ es)) ltac:(lia)). rewrite app_length in *. specialize (Hm ltac:(lia) ltac:(lia)). lia.
Qed.

Lemma scan_ok_other tr t t' es st : t' <> t -> scan_ok tr t' st -> scan_ok (tr ++ Conc.tag t es) t' st.
Proof.
  intros Hne. apply scan_ok_mono. apply last_sb_app_other. intros te Hin. eapply is_sb_tag_other; [|exact Hin]. congruence.
Qed.

Lemma scan_ok_nosb tr t es st :
  (forall e, In e es -> is_cli_named "g_scan_begin" e = false) -> scan_ok tr t st -> scan_ok (tr ++ Conc.tag t es) t st.
Proof. intros H. apply scan_ok_mono. now apply last_sb_nosb. Qed.

Lemma cp_ok_other tr t t' es st : t' <> t -> cp_ok tr t' st -> cp_ok (tr ++ Conc.tag t es) t' st.
Proof.
  intros Hne. set (tr' := tr ++ Conc.tag t es).
  assert (Hold : forall m x, nth_error tr m = Some x -> nth_error tr' m = Some x).
  { intros m x H. unfold tr'. rewrite nth_error_app1 by (eapply nth_error_lt_length; eauto). exact H. }
  assert (Hnew : forall m e, nth_error tr' m = Some (t', e) -> nth_error tr m = Some (t', e)).
  { intros m e H. destruct (Nat.lt_ge_cases m (List.length tr)) as [Hl|Hl].
    - unfold tr' in H. now rewrite nth_error_app1 in H by exact Hl.
    - apply nth_error_app_tag_ge in H; [|exact Hl]. destruct H as (E & _). congruence. }
  assert (Hsl : forall ld r i x, nth_error tr ld = Some x -> slot_at (firstn ld tr') r i = slot_at (firstn ld tr) r i).
  { intros ld r i x H. unfold tr'. rewrite firstn_app_le; [reflexivity|]. apply nth_error_lt_length in H. lia. }
  destruct st as [|c0 j i|c0 j i r ld x|c0 j i r ld x w]; cbn [cp_ok].
  - auto.
  - intros (H1 & H2). split; [now apply Hold|]. intros m e Hm H. eapply H2; eauto.
  - intros (H1 & H2 & H3 & H4 & H5). split; [now apply Hold|]. split; [exact H2|]. split; [now apply Hold|].
    split; [now rewrite (Hsl _ _ _ _ H3)|]. intros m e Hm H. eapply H5; eauto.
  - intros (H1 & H2 & H3 & H4 & H5 & H6 & H7). split; [now apply Hold|]. split; [exact H2|]. split; [exact H3|].
    split; [now apply Hold|]. split; [now rewrite (Hsl _ _ _ _ H4)|]. split; [now apply Hold|].
    intros m e Hm H. eapply H7; eauto.
Qed.

Lemma jsafe_ext tr t es :
  jsafe tr ->
  (forall k p, nth_error es k = Some (ev_dispose p) ->
     forall s, last_sb (firstn (List.length tr + k) (tr ++ Conc.tag t es)) t = Some s -> p <> 0%Z ->
     forall r, ~ chain (firstn (S (List.length tr + k)) (tr ++ Conc.tag t es)) s r p) ->
  jsafe (tr ++ Conc.tag t es).
Proof.
  intros Hj Hnew d u p s Hd Hs Hp r. destruct (Nat.lt_ge_cases d (List.length tr)) as [Hl|Hl].
  - rewrite nth_error_app1 in Hd by exact Hl. rewrite firstn_app_le in Hs by lia. rewrite firstn_app_le by lia.
    eapply Hj; eauto.
  - apply nth_error_app_tag_ge in Hd; [|exact Hl]. destruct Hd as (-> & Hd).
    replace d with (List.length tr + (d - List.length tr)) in * by lia. eapply Hnew; eauto.
    replace (List.length tr + (d - List.length tr) - List.length tr) with (d - List.length tr) in Hd by lia. exact Hd.
Qed.

Lemma jcopied_ext tr t es :
  jcopied tr ->
  (forall k, nth_error es k = Some (EvCli "copied" []) -> copied_ok (firstn (List.length tr + k) (tr ++ Conc.tag t es)) t) ->
  jcopied (tr ++ Conc.tag t es).
Proof.
  intros Hj Hnew v1 u Hv. destruct (Nat.lt_ge_cases v1 (List.length tr)) as [Hl|Hl].
  - rewrite nth_error_app1 in Hv by exact Hl. rewrite firstn_app_le by lia. now apply Hj.
  - apply nth_error_app_tag_ge in Hv; [|exact Hl]. destruct Hv as (-> & Hv).
    replace v1 with (List.length tr + (v1 - List.length tr)) by lia. now apply Hnew.
Qed.

(** ** the general step: thread [t] appends [es] and takes the view [v'] *)
Lemma inv2_upd_gen c g g' a tr t es v' :
  Inv2 c g a tr ->
  (forall st, v2_scan v' = Some st -> scan_ok (tr ++ Conc.tag t es) t st) ->
  cp_ok (tr ++ Conc.tag t es) t (v2_cp v') ->
  (forall k p, nth_error es k = Some (ev_dispose p) ->
     forall s, last_sb (firstn (List.length tr + k) (tr ++ Conc.tag t es)) t = Some s -> p <> 0%Z ->
     forall r, ~ chain (firstn (S (List.length tr + k)) (tr ++ Conc.tag t es)) s r p) ->
  (forall k, nth_error es k = Some (EvCli "copied" []) -> copied_ok (firstn (List.length tr + k) (tr ++ Conc.tag t es)) t) ->
  Inv2 c g' (upd2 a t v') (tr ++ Conc.tag t es).
Proof.
  intros [J1 J2 J3 J4] Hs Hc Hd Hk. constructor.
  - intros u st. destruct (Nat.eq_dec u t) as [->|Hne].
    + rewrite upd2_same. apply Hs.
    + rewrite upd2_other by exact Hne. intros H. apply scan_ok_other; [exact Hne|now apply J1].
  - intros u. destruct (Nat.eq_dec u t) as [->|Hne].
    + rewrite upd2_same. exact Hc.
    + rewrite upd2_other by exact Hne. apply cp_ok_other; [exact Hne|apply J2].
  - apply jsafe_ext; assumption.
  - apply jcopied_ext; assumption.
Qed.

(** events that are neither a disposer call nor the return of a copy *)
Definition q2 (e : ev) : bool := negb (is_cli_named "dispose" e || is_cli_named "copied" e).
Lemma q2_no_dispose es k p : (forall e, In e es -> q2 e = true) -> nth_error es k = Some (ev_dispose p) -> False.
Proof. intros H Hn. apply nth_error_In in Hn. apply H in Hn. discriminate. Qed.
Lemma q2_no_copied es k : (forall e, In e es -> q2 e = true) -> nth_error es k = Some (EvCli "copied" []) -> False.
Proof. intros H Hn. apply nth_error_In in Hn. apply H in Hn. discriminate. Qed.

Lemma inv2_upd c g g' a tr t es v' :
  Inv2 c g a tr -> (forall e, In e es -> q2 e = true) ->
  (forall st, v2_scan v' = Some st -> scan_ok (tr ++ Conc.tag t es) t st) ->
  cp_ok (tr ++ Conc.tag t es) t (v2_cp v') ->
  Inv2 c g' (upd2 a t v') (tr ++ Conc.tag t es).
Proof.
  intros HI Hq Hs Hc. eapply inv2_upd_gen; eauto.
  - intros k p Hn. exfalso. eapply q2_no_dispose; eauto.
  - intros k Hn. exfalso. eapply q2_no_copied; eauto.
Qed.

Lemma upd2_id (a : Aux2) t : forall x, upd2 a t (a t) x = a x.
Proof. intros x. unfold upd2. destruct (Nat.eqb_spec x t); congruence. Qed.

(** a step that changes nothing the invariant looks at (no disposer call, no "copied", no scan begin; the thread is
    not inside a copy) *)
Definition q3 (e : ev) : bool := (q2 e && negb (is_cli_named "g_scan_begin" e))%bool.
Lemma q3_q2 e : q3 e = true -> q2 e = true.
Proof. unfold q3. intros H. now apply andb_true_iff in H. Qed.
Lemma q3_nosb e : q3 e = true -> is_cli_named "g_scan_begin" e = false.
Proof. unfold q3. intros H. apply andb_true_iff in H. destruct H as (_ & H). now apply negb_true_iff in H. Qed.

Lemma inv2_quiet c g g' a tr t es :
  Inv2 c g a tr -> (forall e, In e es -> q3 e = true) -> v2_cp (a t) = CNone ->
  Inv2 c g' a (tr ++ Conc.tag t es).
Proof.
  intros HI Hq Hcp. pose proof (inv2_upd c g g' a tr t es (a t) HI) as H.
  assert (H' : Inv2 c g' (upd2 a t (a t)) (tr ++ Conc.tag t es)).
  { apply H.
    - intros e He. apply q3_q2. now apply Hq.
    - intros st Hst. apply scan_ok_nosb; [intros e He; apply q3_nosb; now apply Hq|]. now apply (j_scan _ _ _ _ HI).
    - rewrite Hcp. exact I. }
  destruct H' as [J1 J2 J3 J4]. constructor; auto.
  - intros u st. rewrite <- (upd2_id a t u). apply J1.
  - intros u. rewrite <- (upd2_id a t u). apply J2.
Qed.

Lemma inv2_init c : Inv2 c (init c) (fun _ => V0) [].
Proof.
  constructor.
  - intros t st H. discriminate.
  - intros t. exact I.
  - intros d t p s H. destruct d; discriminate.
  - intros v u H. destruct v; discriminate.
Qed.
