(** * C01, second sentence, for guards obtained by ANY NUMBER of upward copies (classic scan).

    [guards tr t p j v]: at index v of the trace, thread t obtained a guard on p in its slot j -- either protect()
    returned p into slot j at v, or a copy from a slot i < j that was itself such a guard, not released before the
    copy returned, returned at v.  [hp_guards_live]: under the client discipline p is not given to its disposer
    after v before t releases slot j.  ([HpLiveCopy.hp_copied_ptr_live] is the case of one copy.) *)
From Coq Require Import ZArith List String Bool Lia PeanoNat.
From LV Require Import Base.Conc Base.Events Model.Hp Proofs.HpTrace Proofs.HpInv Proofs.HpSteps Proofs.HpProofs Proofs.HpLive
  Proofs.HpLiveCopyInv Proofs.HpLiveCopySafe Proofs.HpLiveCopy.
Import ListNotations.
Local Open Scope string_scope.
Local Open Scope list_scope.

Inductive guards (tr : trace) (t : nat) (p : Z) : nat -> nat -> Prop :=
| G_prot j v : nth_error tr v = Some (t, EvCli "protected" [zn j; p]) -> guards tr t p j v
| G_copy i j v0 c0 v1 : guards tr t p i v0 -> v0 < c0 -> c0 < v1 -> i < j ->
    nth_error tr c0 = Some (t, EvCli "copy" [zn j; zn i]) -> nth_error tr v1 = Some (t, EvCli "copied" []) ->
    (forall m e, c0 < m < v1 -> nth_error tr m = Some (t, e) -> is_opstart e = false) ->
    (forall m e, v0 < m < v1 -> nth_error tr m = Some (t, e) -> rel_b i e = false) ->
    guards tr t p j v1.

Definition guards_live_statement : Prop :=
  forall (c : cfgT) (ths : list (list op)) cf,
    cInplace c = false ->
    Conc.reach (Hp.init_cfg c ths) cf -> client_discipline (Conc.trace cf) ->
    forall v d t u j p, v < d -> p <> 0%Z ->
      guards (Conc.trace cf) t p j v ->
      nth_error (Conc.trace cf) d = Some (u, ev_dispose p) ->
      exists m e, v < m < d /\ nth_error (Conc.trace cf) m = Some (t, e) /\ releases j e.

(** what a guard that has not been released up to index n gives: a chain that has been sitting in slot j since v *)
Definition GS (tr : trace) (t : nat) (p : Z) (j v n : nat) : Prop :=
  exists g0 r k w0 j0 f,
    nth_error tr g0 = Some (t, ev_slot r j0 p) /\ nth_error tr w0 = Some (t, EvCli "g_ld" [zn k; p]) /\ g0 < w0 /\ g0 < v /\
    (forall m, g0 <= m <= n -> att_at (firstn m tr) t = Some r) /\
    chain_w (firstn (S n) tr) (S g0) r p f /\ (forall x, v < x <= S n -> f x = j).

Section Fix.
  Variables (tr : trace) (t : nat) (p : Z).
  Hypothesis Hok : TrOK tr.
  Hypothesis Hcop : jcopied tr.
  Hypothesis Hp : p <> 0%Z.

  Lemma is_resp_protected j : is_resp' (EvCli "protected" [zn j; p]) = true. Proof. reflexivity. Qed.

  Lemma att_stays r lo hi :
    lo <= hi -> hi < List.length tr -> att_at (firstn lo tr) t = Some r ->
    (forall m z, lo <= m < hi -> nth_error tr m = Some (t, EvCli "g_det" [z]) -> False) ->
    forall m, lo <= m <= hi -> att_at (firstn m tr) t = Some r.
  Proof.
    intros Hle Hhi H0 Hnd.
    assert (H : forall k, lo + k <= hi -> att_at (firstn (lo + k) tr) t = Some r);
      [|intros m Hm; replace m with (lo + (m - lo)) by lia; apply H; lia].
    induction k as [|k IH]; intros Hk; [now rewrite Nat.add_0_r|].
    rewrite Nat.add_succ_r. specialize (IH ltac:(lia)).
    destruct (nth_error tr (lo + k)) as [[u' e]|] eqn:En; [|apply nth_error_None in En; lia].
    rewrite (att_at_S tr (lo + k) _ t En). unfold att_step. cbn [fst snd].
    destruct (Nat.eqb_spec u' t) as [->|Hne]; [|exact IH].
    destruct (att_upd_cases e (att_at (firstn (lo + k) tr) t)) as [E|[(z & -> & E)|(z & -> & E)]]; [now rewrite E| |]; exfalso.
    - destruct (ev_ok_att_wf _ _ _ (Hok _ t _ En)) as (r' & ->).
      destruct (Hok _ t _ En) as (_ & _ & Hatt & _). destruct (Hatt r' eq_refl) as (Hnone & _). congruence.
    - eapply (Hnd (lo + k) z); [lia|exact En].
  Qed.

  Lemma store_in_op r g0 n : g0 <= n -> (forall m, g0 <= m <= n -> att_at (firstn m tr) t = Some r) ->
    forall m u' jj x, g0 <= m <= n -> nth_error tr m = Some (u', ev_slot r jj x) ->
      u' = t /\ exists e0, open_op (firstn m tr) t = Some e0 /\ rel_b jj e0 = true.
  Proof.
    intros Hle HA m u' jj x Hm Hn. destruct (Hok m u' _ Hn) as (Hsl & _). destruct (Hsl r jj x eq_refl) as (Hatt & e0 & Ho & Hrel).
    assert (Hlt : m < List.length tr) by (apply nth_error_Some; congruence).
    assert (u' = t) by (eapply (att_excl tr Hok m); [lia|exact Hatt|apply HA; lia]). subst u'. split; [reflexivity|eauto].
  Qed.

  Lemma guards_GS j v : guards tr t p j v ->
    forall n, v <= n -> n < List.length tr ->
      (forall m e, v < m <= n -> nth_error tr m = Some (t, e) -> rel_b j e = false) -> GS tr t p j v n.
  Proof.
    induction 1 as [j v Hv|i j v0 c0 v1 Hg IH Hv0c0 Hc0v1 Hij Hc0 Hv1 Hnoop Hnorel_i]; intros n Hvn Hn Hnorel.
    - (* protect *)
      destruct (Hok v t _ Hv) as (_ & _ & _ & _ & _ & _ & Hprot & _).
      destruct (Hprot j p eq_refl) as (r & k & g0 & Hg0 & Hall & w0 & Hgw & Hw).
      apply nth_error_firstn_some in Hg0. destruct Hg0 as (Hg0v & Hg0).
      apply nth_error_firstn_some in Hw. destruct Hw as (Hwv & Hw).
      assert (Hall' : forall m e, g0 < m < v -> nth_error tr m = Some (t, e) -> pat_ok e = true).
      { intros m e Hm Hx. apply (Hall m e); [lia|]. rewrite nth_error_firstn_lt by lia. exact Hx. }
      assert (Hopen : forall n' e0, v < n' <= S n -> open_op (firstn n' tr) t = Some e0 -> rel_b j e0 = true -> False).
      { apply (open_after_resp tr t v (S n) j _ Hv eq_refl eq_refl). intros m e Hm. apply Hnorel. lia. }
      destruct (Hok g0 t _ Hg0) as (Hslot & _). destruct (Hslot r j p eq_refl) as (Hatt0 & _).
      assert (HA : forall m, g0 <= m <= n -> att_at (firstn m tr) t = Some r).
      { apply att_stays; [lia|exact Hn|exact Hatt0|]. intros m z Hm En.
        destruct (Nat.eq_dec m g0) as [->|Hne]; [rewrite Hg0 in En; discriminate|].
        destruct (Nat.lt_ge_cases m v) as [H1|H1].
        - assert (Hp1 : pat_ok (EvCli "g_det" [z]) = true) by (apply (Hall' m); [lia|exact En]). discriminate.
        - destruct (Nat.eq_dec m v) as [->|E1]; [rewrite Hv in En; discriminate|].
          destruct (Hok _ t _ En) as (_ & Hdet & _). apply (Hopen m (EvCli "detach" [])); [lia|now apply (Hdet z)|reflexivity]. }
      assert (HB : forall m te, S g0 <= m < S n -> nth_error tr m = Some te -> slot_write r j (snd te) = false).
      { intros m [u' e] Hm Hx. cbn [snd]. destruct (slot_write r j e) eqn:Esw; [exfalso|reflexivity].
        destruct (slot_write_form _ _ _ Esw) as (x & ->).
        destruct (store_in_op r g0 n ltac:(lia) HA m u' j x ltac:(lia) Hx) as (-> & e0 & Ho & Hrel).
        destruct (Nat.lt_ge_cases m v) as [H1|H1].
        - assert (Hp1 : pat_ok (ev_slot r j x) = true) by (apply (Hall' m); [lia|exact Hx]). discriminate.
        - destruct (Nat.eq_dec m v) as [->|E1]; [rewrite Hv in Hx; discriminate|].
          apply (Hopen m e0); [lia|exact Ho|exact Hrel]. }
      assert (Hheld : held (firstn (S n) tr) (S g0) r j p).
      { apply (held_extend tr (S g0) r j p (S g0) (S n)); [|lia|lia|lia|exact HB].
        intros x Hx. rewrite firstn_length in Hx. assert (x = S g0) by lia. subst x.
        rewrite firstn_firstn, Nat.min_id. rewrite (slot_at_firstn_S tr g0 _ r j Hg0). cbn. now rewrite !Z.eqb_refl. }
      exists g0, r, k, w0, j, (fun _ => j). repeat split; auto; try lia.
    - (* copy *)
      assert (Hv1lt : v1 < List.length tr) by lia.
      destruct (IH v1 ltac:(lia) Hv1lt) as (g0 & r & k & w0 & j0 & f & Hg0 & Hw & Hgw & Hg0v & HA0 & Hch & Hfi).
      { intros m e Hm Hx. destruct (Nat.eq_dec m v1) as [->|Hne]; [rewrite Hv1 in Hx; inversion Hx; reflexivity|].
        apply (Hnorel_i m e); [lia|exact Hx]. }
      assert (Hopen : forall n' e0, v1 < n' <= S n -> open_op (firstn n' tr) t = Some e0 -> rel_b j e0 = true -> False).
      { apply (open_after_resp tr t v1 (S n) j _ Hv1 eq_refl eq_refl). intros m e Hm. apply Hnorel. lia. }
      assert (HA : forall m, g0 <= m <= n -> att_at (firstn m tr) t = Some r).
      { intros m Hm. destruct (Nat.le_gt_cases m v1) as [H1|H1]; [apply HA0; lia|].
        apply (att_stays r v1 n); [lia|exact Hn|apply HA0; lia| |lia]. intros m' z Hm' En.
        destruct (Nat.eq_dec m' v1) as [->|E1]; [rewrite Hv1 in En; discriminate|].
        destruct (Hok _ t _ En) as (_ & Hdet & _). apply (Hopen m' (EvCli "detach" [])); [lia|now apply (Hdet z)|reflexivity]. }
      (* what "copied" says *)
      destruct (Hcop v1 t Hv1) as (c0' & j' & i' & r' & ld & x & w & Hcp). cbn [cp_ok] in Hcp.
      destruct Hcp as (K1 & K2 & K3 & K4 & K5 & K6 & K7).
      apply nth_error_firstn_some in K1. destruct K1 as (K1v & K1).
      apply nth_error_firstn_some in K4. destruct K4 as (K4v & K4).
      apply nth_error_firstn_some in K6. destruct K6 as (K6v & K6).
      assert (K7' : forall m e, c0' < m < v1 -> nth_error tr m = Some (t, e) -> m <> w -> cp_inert e = true).
      { intros m e Hm Hx Hmw. apply (K7 m e); [lia| |exact Hmw]. rewrite nth_error_firstn_lt by lia. exact Hx. }
      assert (Ec0 : c0' = c0).
      { destruct (Nat.lt_trichotomy c0' c0) as [H|[H|H]]; [exfalso|exact H|exfalso].
        - destruct (Nat.eq_dec c0 w) as [E|E]; [subst w; rewrite Hc0 in K6; discriminate|].
          pose proof (K7' c0 _ ltac:(lia) Hc0 E) as E2. discriminate.
        - pose proof (Hnoop c0' _ ltac:(lia) K1) as E2. discriminate. }
      subst c0'. rewrite Hc0 in K1. inversion K1 as [[Ej Ei]]. apply zn_inj in Ej, Ei. subst j' i'.
      assert (Er : r' = r).
      { destruct (Hok w t _ K6) as (Hsl & _). destruct (Hsl r' j x eq_refl) as (Hatt & _).
        rewrite (HA w ltac:(lia)) in Hatt. now inversion Hatt. }
      subst r'. rewrite slot_at_firstn_firstn in K5 by lia.
      assert (Ex : x = p).
      { destruct Hch as (Hc1 & _). specialize (Hc1 ld). rewrite firstn_length in Hc1. rewrite slot_at_firstn_firstn in Hc1 by lia.
        rewrite (Hfi ld ltac:(lia)) in Hc1. rewrite K5. apply Hc1. lia. }
      subst x.
      assert (HB : forall m te, S w <= m < S n -> nth_error tr m = Some te -> slot_write r j (snd te) = false).
      { intros m [u' e] Hm Hx. cbn [snd]. destruct (slot_write r j e) eqn:Esw; [exfalso|reflexivity].
        destruct (slot_write_form _ _ _ Esw) as (x & ->).
        destruct (store_in_op r g0 n ltac:(lia) HA m u' j x ltac:(lia) Hx) as (-> & e0 & Ho & Hrel).
        destruct (Nat.lt_ge_cases m v1) as [H1|H1].
        - pose proof (K7' m _ ltac:(lia) Hx ltac:(lia)) as E2. discriminate.
        - destruct (Nat.eq_dec m v1) as [->|E1]; [rewrite Hv1 in Hx; discriminate|].
          apply (Hopen m e0); [lia|exact Ho|exact Hrel]. }
      assert (Hheld_j : held (firstn (S n) tr) (S w) r j p).
      { apply (held_extend tr (S w) r j p (S w) (S n)); [|lia|lia|lia|exact HB].
        intros y Hy. rewrite firstn_length in Hy. assert (y = S w) by lia. subst y.
        rewrite firstn_firstn, Nat.min_id. rewrite (slot_at_firstn_S tr w _ r j K6). cbn. now rewrite !Z.eqb_refl. }
      exists g0, r, k, w0, j0, (fun y => if Nat.leb y w then f y else j).
      split; [exact Hg0|]. split; [exact Hw|]. split; [exact Hgw|]. split; [lia|]. split; [exact HA|]. split.
      + destruct Hch as (Hc1 & Hc2). rewrite firstn_length in Hc1, Hc2. split.
        * intros y Hy. rewrite firstn_length in Hy. destruct (Nat.leb_spec y w) as [Hle|Hgt].
          -- rewrite slot_at_firstn_firstn by lia. specialize (Hc1 y ltac:(lia)). now rewrite slot_at_firstn_firstn in Hc1 by lia.
          -- apply Hheld_j. rewrite firstn_length. lia.
        * intros y y' Ha Hb Hc. rewrite firstn_length in Hc.
          destruct (Nat.leb_spec y w); destruct (Nat.leb_spec y' w); try lia.
          -- apply Hc2; lia.
          -- pose proof (Hc2 y (S v1) ltac:(lia) ltac:(lia) ltac:(lia)) as Hm. rewrite (Hfi (S v1) ltac:(lia)) in Hm. lia.
      + intros y Hy. destruct (Nat.leb_spec y w); [lia|reflexivity].
  Qed.
End Fix.

Theorem hp_guards_live : guards_live_statement.
Proof.
  intros c ths cf Hcl Hr (Hro & Hpub & Hret & _) v d t u j p Hvd Hp Hg Hd.
  destruct (reach_inv2 c Hcl ths cf Hr) as (a1 & a2 & HI & HI2). pose proof (i_tr _ _ _ _ HI) as Hok.
  set (tr := Conc.trace cf) in *.
  assert (Hdlt : d < List.length tr) by (apply nth_error_Some; congruence).
  set (chk := fun m => match nth_error tr m with Some (t', e) => (Nat.eqb t' t && rel_b j e)%bool | None => false end).
  destruct (existsb chk (seq (S v) (d - S v))) eqn:Ef.
  { apply existsb_exists in Ef. destruct Ef as (m & Hin & Hm). apply in_seq in Hin. unfold chk in Hm.
    destruct (nth_error tr m) as [[t' e]|] eqn:Em; [|discriminate]. apply andb_true_iff in Hm. destruct Hm as (E1 & E2).
    apply Nat.eqb_eq in E1. subst t'. exists m, e. split; [lia|]. split; [exact Em|now apply rel_b_releases]. }
  exfalso.
  assert (Hnorel : forall m e, v < m <= d -> nth_error tr m = Some (t, e) -> rel_b j e = false).
  { intros m e Hm Hn. destruct (Nat.eq_dec m d) as [->|Hne]; [rewrite Hd in Hn; inversion Hn; reflexivity|].
    destruct (rel_b j e) eqn:E; [|reflexivity]. exfalso. rewrite <- not_true_iff_false in Ef. apply Ef.
    apply existsb_exists. exists m. split; [apply in_seq; lia|]. unfold chk. rewrite Hn. now rewrite Nat.eqb_refl, E. }
  destruct (guards_GS tr t p Hok (j_copied _ _ _ _ HI2) j v Hg d ltac:(lia) Hdlt Hnorel)
    as (g0 & r & k & w0 & j0 & f & Hg0 & Hw & Hgw & Hg0v & _ & Hch & _).
  destruct (hp_dispose_after_retire c ths cf Hr d u p Hd) as (s & Hs & rho & u1 & Hrho & Hrt). fold tr in Hs, Hrt.
  destruct (Nat.le_gt_cases (S g0) s) as [Hle|Hgt].
  { apply (j_safe _ _ _ _ HI2 d u p s Hd Hs Hp r). exists f. eapply chain_w_weaken; [exact Hle|exact Hch]. }
  assert (Hrho' : rho < g0).
  { destruct (Nat.eq_dec rho g0) as [->|Hne]; [rewrite Hg0 in Hrt; discriminate|lia]. }
  exact (protect_store_not_after_retire tr Hok Hpub Hret t w0 g0 k p rho u1 Hp Hrho' Hgw Hrt Hw).
Qed.
