(** * The iterator programs of LV.Model.FeldmanIter preserve the structural invariant of the Feldman model
      (FeldmanStepInv.Inv), for every schedule.

    Ghost knowledge of an iterating thread (field [kstk] of its view): the prefix of every array node on its descent
    stack and of its current node - they are linked, and linked array nodes stay linked with the same prefix
    (clause [i_stk] of the invariant).  forward() / backward() / Guard::protect / operator* only read; descending through
    an array slot of a known node adds the child ([i_child]); going up returns to a node on the stack.  The CAS of
    do_erase_at and of the unlink fall-back changes a data slot of a known - hence linked - array node ([Inv_data_cas]). *)
From Coq Require Import ZArith NArith List Bool Arith PeanoNat Lia String.
From LV Require Import Base.Conc Base.Events Model.Feldman Model.FeldmanIter Proofs.FeldmanStepInv Proofs.FeldmanStepSafe.
Import ListNotations.

Set Implicit Arguments.

Section IterSafe.
  Variables (hbits abits W : nat) (hs : list N).
  Hypothesis Hh : 0 < hbits.
  Hypothesis Ha : 0 < abits.

  Notation hash := (Feldman.hash hs).
  Notation Inv := (@FeldmanStepInv.Inv hbits abits hs).
  Notation safe := (@Conc.safe G V ev Aux L view Inv).
  Notation prog := (Conc.prog G V ev).

  Definition knows (l : L) (n : nat) : Prop := exists x, In (n, x) (kstk l).
  Definition kincl (l l' : L) : Prop := (forall e, In e (kstk l) -> In e (kstk l')) /\ ph l' = ph l.
  Definition stk_known (l : L) (stk : list (nat * nat)) : Prop := forall e, In e stk -> knows l (fst e).

  Lemma kincl_refl l : kincl l l.
  Proof. split; auto. Qed.
  Lemma kincl_trans l1 l2 l3 : kincl l1 l2 -> kincl l2 l3 -> kincl l1 l3.
  Proof. intros [A1 A2] [B1 B2]. split; [auto|congruence]. Qed.
  Lemma kincl_knows l l' n : kincl l l' -> knows l n -> knows l' n.
  Proof. intros [A1 _] [x Hx]. exists x. auto. Qed.
  Lemma kincl_stk l l' stk : kincl l l' -> stk_known l stk -> stk_known l' stk.
  Proof. intros K H e He. eapply kincl_knows; eauto. Qed.
  Lemma kincl_push l n x : kincl l (push_stk l n x).
  Proof. split; [intros e He; right; exact He|reflexivity]. Qed.
  Lemma knows_push l n x : knows (push_stk l n x) n.
  Proof. exists x. left. reflexivity. Qed.

  (** ** programs that only read *)
  Fixpoint ro {R} (p : prog R) : Prop :=
    match p with
    | Ret _ => True
    | Emit _ k => ro k
    | Act f k => (forall g, fst (fst (f g)) = g) /\ forall v, ro (k v)
    end.

  Lemma safe_ro {R} t (p : prog R) : ro p -> forall l, safe t p l (fun _ l' => l' = l).
  Proof.
    induction p as [r|es k IH|f k IH]; intros Hr l; cbn [ro] in Hr.
    - reflexivity.
    - apply safe_emit. apply IH. exact Hr.
    - destruct Hr as [H1 H2]. apply safe_same; [exact H1|]. intros g A tr HI Hv. exists A. split; [exact HI|].
      split; [apply frame_refl|]. rewrite Hv. apply IH. apply H2.
  Qed.

  Lemma ro_protect_loop t s p : forall sf cur, ro (protect_loop sf t s p cur).
  Proof.
    induction sf as [|sf IH]; intros cur; cbn [protect_loop ro]; [exact I|].
    split; [reflexivity|]. intros _. split; [reflexivity|]. intros _. split; [reflexivity|]. intros v.
    destruct (slot_eqb (vslot v) (vslot cur)); [exact I|apply IH].
  Qed.
  Lemma ro_protect sf t s p : ro (protect sf t s p).
  Proof. unfold protect. cbn [ro]. split; [reflexivity|]. intros v. apply ro_protect_loop. Qed.

  (** what a load of a known array node adds *)
  Lemma load_child g A tr t l a i c :
    Inv g A tr -> view A t = l -> knows l a -> arr g a i = mkSlot c 2 ->
    exists x, pfx A c = Some x /\ Inv g (set_view A t (push_stk l c x)) tr.
  Proof.
    intros HI Hv [[o pre] Hx] Hs. unfold view in Hv. subst l.
    pose proof (i_stk HI _ _ _ Hx) as Hp.
    destruct (i_child HI _ _ Hp Hs) as (Hc & _).
    eexists. split; [exact Hc|]. apply Inv_push; assumption.
  Qed.

  (** ** forward() / backward() *)
  Definition Qit (l : L) : option itres -> L -> Prop :=
    fun r l' => kincl l l' /\ match r with Some (stk', a', _, ov) => knows l' a' /\ stk_known l' stk' /\ (forall v, ov = Some v -> sptr (vslot v) <> 0) | None => True end.

  Lemma Qit_weaken l1 l2 r l3 : kincl l1 l2 -> Qit l2 r l3 -> Qit l1 r l3.
  Proof. intros K [H1 H2]. split; [eapply kincl_trans; eauto|exact H2]. Qed.

  Lemma slot_bits s b : Nat.eqb (sbits s) b = true -> s = mkSlot (sptr s) b.
  Proof. intros H. apply Nat.eqb_eq in H. destruct s; cbn in *. congruence. Qed.

  Lemma safe_fwd t s sf : forall fuel stk a i l, knows l a -> stk_known l stk ->
    safe t (fwd hbits abits fuel sf t s stk a i) l (Qit l).
  Proof.
    induction fuel as [|fuel IH]; intros stk a i l Hk Hs; cbn [fwd].
    - apply safe_ret. split; [apply kincl_refl|exact I].
    - destruct (Nat.ltb i (nsize hbits abits a)).
      + apply safe_same; [reflexivity|]. intros g A tr HI Hv. cbn [a_ld fst snd vslot].
        destruct (Nat.eqb (sbits (arr g a i)) 2) eqn:E2.
        * destruct (@load_child g A tr t l a i (sptr (arr g a i)) HI Hv Hk (slot_bits _ _ E2)) as (x & _ & HI').
          exists (set_view A t (push_stk l (sptr (arr g a i)) x)). split; [exact HI'|]. split; [apply frame_set_view|].
          rewrite view_set_same. apply Conc.safe_weaken with (Q := Qit (push_stk l (sptr (arr g a i)) x)).
          { intros r l3 H. eapply Qit_weaken; [apply kincl_push|exact H]. }
          apply IH; [apply knows_push|].
          intros e [<-|He]; cbn [fst]; eapply kincl_knows; try apply kincl_push; auto.
        * exists A. split; [exact HI|]. split; [apply frame_refl|]. rewrite Hv.
          destruct (Nat.eqb (sbits (arr g a i)) 1); [apply IH; assumption|].
          destruct (negb (Nat.eqb (sptr (arr g a i)) 0)) eqn:En; [|apply IH; assumption].
          apply Conc.safe_bind. eapply Conc.safe_weaken; [|apply safe_ro; apply ro_protect].
          intros pr l' ->. destruct pr as [v'|]; [|apply safe_ret; split; [apply kincl_refl|exact I]].
          destruct (slot_eqb (vslot v') (arr g a i)) eqn:Es; [|apply IH; assumption].
          apply safe_ret. split; [apply kincl_refl|]. split; [assumption|]. split; [assumption|].
          intros v Ev. inversion Ev; subst v. apply slot_eqb_eq in Es. rewrite Es.
          apply negb_true_iff in En. apply Nat.eqb_neq in En. exact En.
      + destruct stk as [|[pa pi] r].
        * apply safe_ret. split; [apply kincl_refl|]. split; [assumption|]. split; [assumption|]. intros v Ev; discriminate.
        * apply IH; [apply (Hs (pa, pi)); left; reflexivity|]. intros e He. apply Hs. right. exact He.
  Qed.

  Lemma safe_bwd t s sf : forall fuel stk a j l, knows l a -> stk_known l stk ->
    safe t (bwd hbits abits fuel sf t s stk a j) l (Qit l).
  Proof.
    induction fuel as [|fuel IH]; intros stk a j l Hk Hs; cbn [bwd].
    - apply safe_ret. split; [apply kincl_refl|exact I].
    - destruct j as [|i].
      + destruct stk as [|[pa pi] r].
        * apply safe_ret. split; [apply kincl_refl|]. split; [assumption|]. split; [assumption|]. intros v Ev; discriminate.
        * apply IH; [apply (Hs (pa, pi)); left; reflexivity|]. intros e He. apply Hs. right. exact He.
      + apply safe_same; [reflexivity|]. intros g A tr HI Hv. cbn [a_ld fst snd vslot].
        destruct (Nat.eqb (sbits (arr g a i)) 2) eqn:E2.
        * destruct (@load_child g A tr t l a i (sptr (arr g a i)) HI Hv Hk (slot_bits _ _ E2)) as (x & _ & HI').
          exists (set_view A t (push_stk l (sptr (arr g a i)) x)). split; [exact HI'|]. split; [apply frame_set_view|].
          rewrite view_set_same. apply Conc.safe_weaken with (Q := Qit (push_stk l (sptr (arr g a i)) x)).
          { intros r l3 H. eapply Qit_weaken; [apply kincl_push|exact H]. }
          apply IH; [apply knows_push|].
          intros e [<-|He]; cbn [fst]; eapply kincl_knows; try apply kincl_push; auto.
        * exists A. split; [exact HI|]. split; [apply frame_refl|]. rewrite Hv.
          destruct (Nat.eqb (sbits (arr g a i)) 1); [apply IH; assumption|].
          destruct (negb (Nat.eqb (sptr (arr g a i)) 0)) eqn:En; [|apply IH; assumption].
          apply Conc.safe_bind. eapply Conc.safe_weaken; [|apply safe_ro; apply ro_protect].
          intros pr l' ->. destruct pr as [v'|]; [|apply safe_ret; split; [apply kincl_refl|exact I]].
          destruct (slot_eqb (vslot v') (arr g a i)) eqn:Es; [|apply IH; assumption].
          apply safe_ret. split; [apply kincl_refl|]. split; [assumption|]. split; [assumption|].
          intros v Ev. inversion Ev; subst v. apply slot_eqb_eq in Es. rewrite Es.
          apply negb_true_iff in En. apply Nat.eqb_neq in En. exact En.
  Qed.

  (** ** the erasing CAS on a slot of a known array node *)
  Lemma safe_cas_erase {R} t a i e (kont : V -> prog R) l (Q : R -> L -> Prop) :
    knows l a -> sptr e <> 0 -> sbits e <> 2 -> sbits e <> 1 ->
    (forall v, safe t (kont v) l Q) ->
    safe t (Act (a_cas a i e snull) kont) l Q.
  Proof.
    intros [[o pre] Hx] Hp0 Hb2 Hb1 Hk. cbn [Conc.safe]. intros g A tr HI Hv. unfold a_cas.
    destruct (slot_eqb (arr g a i) e) eqn:E; cbn [fst snd].
    - apply slot_eqb_eq in E. unfold view in Hv. subst l. pose proof (i_stk HI _ _ _ Hx) as Hp.
      destruct e as [p b]. cbn [sptr sbits] in *.
      destruct (i_data HI _ _ Hp E Hb2 Hp0) as (_ & _ & Hb). assert (b = 0) by lia. subst b.
      exists A. split; [eapply Inv_trace; apply (Inv_data_cas Hh Ha HI E Hp); left; reflexivity|].
      split; [apply frame_refl|]. apply Hk.
    - exists A. split; [eapply Inv_trace; exact HI|]. split; [apply frame_refl|]. rewrite Hv. apply Hk.
  Qed.

  (** ** traverse from a known array node *)
  Definition Qtr (l : L) : option (pos * V) -> L -> Prop :=
    fun r l' => kincl l l' /\ match r with Some (p', v) => knows l' (parr p') /\ sbits (vslot v) <> 2 /\ sbits (vslot v) <> 1 | None => True end.

  Lemma safe_traverse_k t h : forall fuel p l, knows l (parr p) -> safe t (traverse abits fuel h p) l (Qtr l).
  Proof.
    induction fuel as [|fuel IH]; intros p l Hk; cbn [traverse].
    - apply safe_ret. split; [apply kincl_refl|exact I].
    - apply safe_same; [reflexivity|]. intros g A tr HI Hv. cbn [a_ld fst snd vslot].
      destruct (Nat.eqb (sbits (arr g (parr p) (pidx p))) 2) eqn:E2.
      + destruct (@load_child g A tr t l (parr p) (pidx p) (sptr (arr g (parr p) (pidx p))) HI Hv Hk (slot_bits _ _ E2)) as (x & _ & HI').
        exists (set_view A t (push_stk l (sptr (arr g (parr p) (pidx p))) x)). split; [exact HI'|]. split; [apply frame_set_view|].
        rewrite view_set_same. apply Conc.safe_weaken with (Q := Qtr (push_stk l (sptr (arr g (parr p) (pidx p))) x)).
        { intros r l3 [H1 H2]. split; [eapply kincl_trans; [apply kincl_push|exact H1]|exact H2]. }
        apply IH. cbn [parr]. apply knows_push.
      + exists A. split; [exact HI|]. split; [apply frame_refl|]. rewrite Hv.
        destruct (Nat.eqb (sbits (arr g (parr p) (pidx p))) 1) eqn:E1; [apply IH; exact Hk|].
        apply safe_ret. split; [apply kincl_refl|]. cbn [vslot]. split; [exact Hk|].
        apply Nat.eqb_neq in E2, E1. split; assumption.
  Qed.

  Definition Qk (l : L) {R} : R -> L -> Prop := fun _ l' => kincl l l'.

  Lemma safe_unlink_loop t g0 h x sf : forall fuel p l, knows l (parr p) ->
    safe t (unlink_loop abits hs fuel sf t g0 h x p) l (Qk l).
  Proof.
    induction fuel as [|fuel IH]; intros p l Hk; cbn [unlink_loop].
    - apply safe_ret. apply kincl_refl.
    - apply Conc.safe_bind. eapply Conc.safe_weaken; [|apply safe_traverse_k; exact Hk].
      intros [[p' v]|] l1 [K1 K2]; [|apply safe_ret; exact K1]. destruct K2 as (Kp & Kb2 & Kb1).
      apply Conc.safe_weaken with (Q := Qk l1). { intros r l3 H. eapply kincl_trans; [exact K1|exact H]. }
      apply Conc.safe_bind. eapply Conc.safe_weaken; [|apply safe_ro; apply ro_protect].
      intros pr l' ->. destruct pr as [v'|]; [|apply safe_ret; apply kincl_refl].
      destruct (negb (slot_eqb (vslot v') (vslot v))); [apply IH; exact Kp|].
      destruct (negb (Nat.eqb (sptr (vslot v)) 0)) eqn:E0; [|apply safe_ret; apply kincl_refl].
      destruct (N.eqb (hash (vkey v')) h && Nat.eqb (sptr (vslot v)) x); [|apply safe_ret; apply kincl_refl].
      apply safe_cas_erase; auto.
      { apply negb_true_iff in E0. apply Nat.eqb_neq in E0. exact E0. }
      intros c. destruct (vok c); [|apply IH; exact Kp].
      apply safe_retire. apply safe_cnt. apply safe_ret. apply kincl_refl.
  Qed.

  Lemma safe_erase_at_loop t s a i x kx sf : x <> 0 -> forall fuel l, knows l a -> knows l 0 ->
    safe t (erase_at_loop hbits abits hs fuel sf t s a i x kx) l (Qk l).
  Proof.
    intros Hx. induction fuel as [|fuel IH]; intros l Hk Hk0; cbn [erase_at_loop].
    - apply safe_ret. apply kincl_refl.
    - apply safe_same; [reflexivity|]. intros g A tr HI Hv. cbn [a_ld fst snd vslot].
      exists A. split; [exact HI|]. split; [apply frame_refl|]. rewrite Hv.
      destruct (Nat.eqb (sbits (arr g a i)) 0) eqn:E0.
      + unfold a_gld. apply safe_nop. destruct (Nat.eqb (sptr (arr g a i)) x) eqn:Ex; [|apply safe_ret; apply kincl_refl].
        apply Nat.eqb_eq in E0, Ex. apply safe_cas_erase; auto; try lia.
        intros c. destruct (vok c); [|apply IH; assumption].
        apply safe_retire. apply safe_cnt. apply safe_ret. apply kincl_refl.
      + unfold a_gld. apply safe_nop. apply Conc.safe_bind.
        eapply Conc.safe_weaken; [|apply safe_unlink_loop; cbn [start parr]; exact Hk0].
        intros [[b y]|] l1 K1; [|apply safe_ret; exact K1].
        apply safe_nop. apply safe_ret. exact K1.
  Qed.

  (** ** the client loop *)
  Lemma safe_iter_loop t s kdel sf dir : forall fuel stk a i l, knows l a -> knows l 0 -> stk_known l stk ->
    safe t (iter_loop hbits abits hs fuel sf dir t s kdel stk a i) l (Qk l).
  Proof.
    induction fuel as [|fuel IH]; intros stk a i l Hk Hk0 Hs; cbn [iter_loop].
    - apply safe_ret. apply kincl_refl.
    - apply Conc.safe_bind.
      apply Conc.safe_weaken with (Q := Qit l); [|destruct dir; [apply safe_fwd|apply safe_bwd]; assumption].
      intros [[[[stk' a'] i'] [v|]]|] l1 [K1 K2]; try (apply safe_ret; exact K1).
      destruct K2 as (Ka & Kst & Kv).
      apply Conc.safe_weaken with (Q := Qk l1). { intros r l3 H. eapply kincl_trans; [exact K1|exact H]. }
      unfold a_gld. apply safe_nop. apply safe_emit.
      assert (Hk0' : knows l1 0) by (eapply kincl_knows; eauto).
      destruct (Nat.eqb (vkey v) kdel).
      + apply Conc.safe_bind. eapply Conc.safe_weaken; [|apply safe_erase_at_loop; [apply Kv; reflexivity|exact Ka|exact Hk0']].
        intros [b|] l2 K3; [|apply safe_ret; exact K3]. apply safe_emit.
        apply Conc.safe_weaken with (Q := Qk l2). { intros r l3 H. eapply kincl_trans; [exact K3|exact H]. }
        apply IH; [eapply kincl_knows; eauto|eapply kincl_knows; eauto|eapply kincl_stk; eauto].
      + apply IH; assumption.
  Qed.

  (** ** operations, threads, configurations *)
  Lemma safe_run_opI fuel t o gs l : ph l = PIdle -> safe t (run_opI hbits abits W hs fuel t o gs) l (@QI' ).
  Proof.
    intros HPh. unfold run_opI.
    destruct o as [|code [|kz [|x r]]]; try (apply safe_ret; exact HPh).
    destruct (Nat.eqb (Z.to_nat code) 20 || Nat.eqb (Z.to_nat code) 21); [|apply safe_run_op; assumption].
    cbn [Conc.safe]. intros g A tr HI Hv. unfold view in Hv.
    exists (set_view A t (push_stk (views A t) 0 (0, 0%N))). split.
    { eapply Inv_trace. apply Inv_push; [exact HI|apply (i_head HI)]. }
    split; [apply frame_set_view|]. rewrite view_set_same, Hv.
    apply Conc.safe_bind.
    eapply Conc.safe_weaken; [|apply safe_iter_loop; [apply knows_push|apply knows_push|intros e []]].
    intros [u|] l1 [K1 K2]; cbn [push_stk ph] in K2.
    - apply safe_nop. apply safe_nop. apply safe_emit. apply safe_ret. unfold QI'. congruence.
    - apply safe_give_up. congruence.
  Qed.

  Lemma safe_run_opsI fuel t : forall os gs l, ph l = PIdle ->
    safe t (run_opsI hbits abits W hs fuel t os gs) l (fun _ l' => ph l' = PIdle).
  Proof.
    induction os as [|o r IH]; intros gs l H; cbn [run_opsI]; [apply safe_ret; exact H|].
    apply Conc.safe_bind. eapply Conc.safe_weaken; [|apply safe_run_opI; exact H].
    intros [gs'|] l' H'; [apply IH; exact H'|apply safe_ret; exact H'].
  Qed.

  Lemma safe_threadI fuel t os l : ph l = PIdle ->
    safe t (thread_progI hbits abits W hs fuel t os) l (@Conc.QTrue L).
  Proof.
    intros H. unfold thread_progI. apply safe_same; [reflexivity|]. intros g A tr HI Hv.
    exists A. split; [exact HI|]. split; [apply frame_refl|]. rewrite Hv.
    eapply Conc.safe_weaken; [|apply safe_run_opsI; exact H]. intros; exact I.
  Qed.

  Lemma nth_thread_progsI fuel : forall ths t0 t p,
    nth_error (thread_progsI hbits abits W hs fuel t0 ths) t = Some p ->
    exists os, p = thread_progI hbits abits W hs fuel (t0 + t) os.
  Proof.
    induction ths as [|os r IH]; intros t0 t p H; cbn [thread_progsI] in H.
    - destruct t; discriminate.
    - destruct t as [|t]; cbn in H.
      + inversion H; subst. exists os. rewrite Nat.add_0_r. reflexivity.
      + destruct (IH (S t0) t p H) as (os' & ->). exists os'. f_equal. lia.
  Qed.

  Lemma init_okI fuel ths : Conc.cfg_ok view Inv (init_cfgI hbits abits W hs fuel ths).
  Proof.
    exists A0. split; [apply Inv_init; assumption|].
    intros t p Hp. cbn [init_cfgI Conc.threads] in Hp. destruct (nth_thread_progsI _ _ _ _ Hp) as (os & ->).
    cbn [Nat.add]. apply safe_threadI. reflexivity.
  Qed.

  (** the structural invariant of the Feldman model holds in every reachable configuration of the model WITH iterators *)
  Theorem feldman_iter_inv fuel ths c :
    Conc.reach (init_cfgI hbits abits W hs fuel ths) c -> exists A, Inv (Conc.shared c) A (Conc.trace c).
  Proof. intros Hr. eapply Conc.reach_Inv; [apply init_okI|exact Hr]. Qed.
End IterSafe.
