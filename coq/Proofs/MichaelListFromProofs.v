(** * MichaelListFromProofs: the MichaelList<HP> model with anchored searches (LV.Proofs.MichaelListFromModel):
      every operation is [Conc.safe] for [InvA]; sortedness / no duplicate key and FULL linearizability for every
      reachable configuration (every schedule, any number of threads, any anchor-key predicate [ak]).

    HOW LV.Model.SplitList (property C14) CAN USE THIS.  Its list level is this model: [SplitList.search .. hd ..]
    with [hd = LCell t site aux] first loads the local head cell (always [aux], unmarked), protects [aux]'s next
    field, re-validates the local cell (constant) and, because the dummy key of the bucket is below the searched key,
    continues with [pPrev = LNext aux]: after these thread-local steps it is [search_from (LNext aux)] in the state
    [Some (LNext aux, v)].  The invariant to carry is [InvA ak] with [ak k := Z.even k] (dkey b is even, okey h k is
    odd) on the projection (heap, nalloc, count) of SplitList.G, plus a table invariant
    "table g b = n <> 0 -> a_pub n /\ nkey (heap g n) = dkey b", which turns the load [a_ld_tab b] into the fact
    [FPub n (dkey b)] that [start_ok] asks for; [dkey b < okey h k] for the bucket of [h] is arithmetic (C27).
    insert_aux_node( pParent, pBucket ) is [insert_loop_from (LNext pParent)] with the key [dkey b] (an [ak] key:
    never passed to an erasing call, so [J] keeps the node unmarked for ever).  The proof rules needed are exactly
    those of LV.Proofs.MichaelListFromActs; the rules for the accesses SplitList adds (table, counters, free list) are
    neutral for [IS]/[IL2]/[J] (they do not touch heap or nalloc). *)
From Coq Require Import ZArith List String Bool Lia PeanoNat.
From LV Require Import Base.Conc Base.Events Base.Lin Spec.Specs Proofs.LinProofs.
From LV Require Import Model.MichaelList Proofs.MichaelListBase Proofs.MichaelListInv Proofs.MichaelListSteps
                       Proofs.MichaelListLin Proofs.MichaelListActs Proofs.MichaelListProofs
                       Proofs.MichaelListFullInv Proofs.MichaelListFullActs Proofs.MichaelListFullProofs
                       Proofs.MichaelListFromModel Proofs.MichaelListFromActs.
Import ListNotations.
Local Open Scope Z_scope.

Section FromProofs.
Variable ak : Z -> bool.

Notation safeA := (@Conc.safe G V ev aux2 lview2 view2 (InvA ak)).
Notation "x <- p ;; q" := (Conc.bind p (fun x => q)) (at level 61, p at next level, right associativity).

(** ** plumbing *)
Lemma safeA_assign_guard t s l (Q : unit -> lview2 -> Prop) : Q tt l -> safeA t (assign_guard t s) l Q.
Proof. destruct l as [lv c]. intros H. unfold assign_guard. apply safeA_neutral with (v := v0); [apply neutral_nop|]. apply safeA_neutral with (v := v0); [apply neutral_nop|]. exact H. Qed.
Lemma safeA_copy_guard t d s l (Q : unit -> lview2 -> Prop) : Q tt l -> safeA t (copy_guard t d s) l Q.
Proof. destruct l as [lv c]. intros H. unfold copy_guard. apply safeA_neutral with (v := v0); [apply neutral_nop|]. apply safeA_assign_guard. exact H. Qed.
Lemma safeA_clear_guard t s l (Q : unit -> lview2 -> Prop) : Q tt l -> safeA t (clear_guard t s) l Q.
Proof. destruct l as [lv c]. intros H. unfold clear_guard. apply safeA_neutral with (v := v0); [apply neutral_nop|]. exact H. Qed.
Lemma safeA_retire t l (Q : unit -> lview2 -> Prop) : Q tt l -> safeA t (retire t) l Q.
Proof. destruct l as [lv c]. intros H. unfold retire. apply safeA_neutral with (v := v0); [apply neutral_nop|]. apply safeA_neutral with (v := v0); [apply neutral_nop|]. exact H. Qed.
Lemma safeA_use_guarded t s l (Q : unit -> lview2 -> Prop) : Q tt l -> safeA t (use_guarded t s) l Q.
Proof. destruct l as [lv c]. intros H. unfold use_guarded. apply safeA_neutral with (v := v0); [apply neutral_nop|]. apply safeA_neutral with (v := v0); [apply neutral_nop|]. exact H. Qed.
Lemma safeA_cnt_inc ic l t (Q : unit -> lview2 -> Prop) : Q tt l -> safeA t (cnt_inc ic) l Q.
Proof. destruct l as [lv c]. intros H. unfold cnt_inc. destruct ic; [|exact H]. apply safeA_neutral with (v := v0); [apply neutral_cnt|]. exact H. Qed.
Lemma safeA_cnt_dec ic l t (Q : unit -> lview2 -> Prop) : Q tt l -> safeA t (cnt_dec ic) l Q.
Proof. destruct l as [lv c]. intros H. unfold cnt_dec. destruct ic; [|exact H]. apply safeA_neutral with (v := v0); [apply neutral_cnt|]. exact H. Qed.
Lemma safeA_free_guards t gs : forall fr l (Q : list nat -> lview2 -> Prop),
  (forall fr', Q fr' l) -> safeA t (free_guards t gs fr) l Q.
Proof.
  induction gs as [|s gs IH]; intros fr [lv c] Q H; cbn [free_guards]; [apply H|].
  apply safeA_neutral with (v := v0); [apply neutral_nop|]. apply IH. exact H.
Qed.

(** ** protect *)
Lemma cell_anchor_incl F F' l : incl F F' -> cell_anchor ak F l -> cell_anchor ak F' l.
Proof. intros H (kl & H1 & H2). exists kl; auto. Qed.

Lemma safeA_protect fuel : forall t s l ck o lv cd (Q : option V -> lview2 -> Prop),
  cell_key (lv_facts lv) l ck -> open_read (lv_st lv) o ->
  (forall F' s', incl (lv_facts lv) F' -> open_read s' o -> Q None (lvw lv F' s', cd)) ->
  (forall v F' s0, incl (lv_facts lv) F' -> incl (newfacts l v) F' -> open_read s0 o ->
       (l = 0%nat \/ cell_anchor ak (lv_facts lv) l -> vmark v = false) ->
       Q (Some v) (lvw lv F' (obs_st o (obs_rule ck None (op_key o) v) s0), cd)) ->
  safeA t (protect fuel t s l) (lv, cd) Q.
Proof.
  induction fuel as [|f IH]; intros t s l ck o lv cd Q Hck Hop HN HS; cbn [protect].
  - cbn [Conc.safe]. destruct lv as [F ow st]. apply (HN F st); [apply incl_refl|exact Hop].
  - eapply safeA_ld with (ck := ck) (kp := None) (o := o); [exact Hck|exact I|exact Hop|]. intros v Hv0.
    apply safeA_neutral with (v := v0); [apply neutral_nop|]. apply safeA_neutral with (v := v0); [apply neutral_nop|].
    set (F1 := newfacts l v ++ lv_facts lv).
    set (s1 := obs_st o (obs_rule ck None (op_key o) v) (lv_st lv)).
    assert (Hop1 : open_read s1 o) by (apply open_read_obs; exact Hop).
    assert (Hck1 : cell_key F1 l ck).
    { destruct Hck as [[-> ->]|(kl & Hkl & ->)]; [left; auto|right; exists kl; split; auto; apply in_or_app; right; exact Hkl]. }
    eapply safeA_ld with (ck := ck) (kp := None) (o := o); [exact Hck1|exact I|exact Hop1|]. intros v' Hv0'.
    cbn [lv_facts lv_own lv_st].
    set (F2 := newfacts l v' ++ F1).
    assert (I0 : incl (lv_facts lv) F2) by (unfold F2, F1; apply incl_appr; apply incl_app_r').
    destruct (veqb v v') eqn:Ev.
    + cbn [Conc.safe]. rewrite (obs_rule_veqb ck (op_key o) v v' Ev).
      apply (HS v F2 s1); auto. unfold F2, F1. apply incl_appr. apply incl_appl. apply incl_refl.
    + change (safeA t (protect f t s l) (lvw lv F2 (obs_st o (obs_rule ck None (op_key o) v') s1), cd) Q).
      apply IH with (ck := ck) (o := o).
      * destruct Hck as [[-> ->]|(kl & Hkl & ->)]; [left; auto|right; exists kl; split; auto; apply I0; exact Hkl].
      * apply open_read_obs; exact Hop1.
      * intros F' s' HF Hs'. apply (HN F' s'); auto. eapply incl_tran; eauto.
      * intros w F' s0 HF HF' Hs0 Hw0. apply (HS w F' s0); auto; [eapply incl_tran; eauto|].
        intros [Hz|Ha]; apply Hw0; [left; exact Hz|right]. cbn [lvw lv_facts]. eapply cell_anchor_incl; eauto.
Qed.

(** ** search *)
(** the start cell [h]: m_pHead, or the next field of a published anchor below the searched key *)
Definition start_ok (F : list fact) (h : loc) (k : Z) : Prop :=
  h = 0%nat \/ exists kh, In (FPub h kh) F /\ ak kh = true /\ kh < k.

Lemma start_ok_incl F F' h k : incl F F' -> start_ok F h k -> start_ok F' h k.
Proof. intros H [->|(kh & H1 & H2 & H3)]; [left; reflexivity|right; exists kh; auto]. Qed.

Definition search_invA (F : list fact) (h : loc) (k : Z) (o : set_op) (s : status SetSpec) (st : option (loc * V)) : Prop :=
  open_read s o /\ start_ok F h k /\
  match st with
  | None => True
  | Some (pPrev, pCur) =>
      ppub F pPrev /\ klt F pPrev k /\ (vptr pCur = 0%nat \/ In (FPub (vptr pCur) (vkey pCur)) F) /\
      (vptr pCur = 0%nat -> st_after o false s)
  end.

Lemma start_cell F h k : start_ok F h k -> exists ck, cell_key F h ck /\ ck_lt ck k /\ (h = 0%nat \/ cell_anchor ak F h).
Proof.
  intros [->|(kh & H1 & H2 & H3)].
  - exists None. split; [left; auto|]. split; [left; reflexivity|left; reflexivity].
  - exists (Some kh). split; [right; exists kh; auto|]. split; [right; exists kh; auto|right; exists kh; auto].
Qed.

Lemma start_ppub F h k : start_ok F h k -> ppub F h /\ klt F h k.
Proof.
  intros [->|(kh & H1 & H2 & H3)]; [split; left; reflexivity|]. split; right; exists kh; auto.
Qed.

Lemma safeA_search fuel : forall h t g0 g1 g2 o st lv cd (Q : option (bool * pos) -> lview2 -> Prop),
  search_invA (lv_facts lv) h (op_key o) o (lv_st lv) st ->
  (forall F' s', incl (lv_facts lv) F' -> open_read s' o -> Q None (lvw lv F' s', cd)) ->
  (forall F' s' found p, incl (lv_facts lv) F' -> pos_ok F' (op_key o) found p -> st_after o found s' ->
        Q (Some (found, p)) (lvw lv F' s', cd)) ->
  safeA t (search_from h fuel t g0 g1 g2 (op_key o) st) (lv, cd) Q.
Proof.
  induction fuel as [|f IH]; intros h t g0 g1 g2 o st lv cd Q Hinv HN HS; cbn [search_from].
  - cbn [Conc.safe]. destruct lv as [F ow s]. destruct Hinv as [Hop _]. apply (HN F s); [apply incl_refl|exact Hop].
  - set (k := op_key o) in *. destruct Hinv as (Hop & Hstart & Hinv). destruct st as [[pPrev pCur]|].
    + destruct Hinv as (Hpp & Hkl & Hcur & Hnull).
      destruct (Nat.eqb_spec (vptr pCur) 0) as [E0|E0].
      * cbn [Conc.safe]. destruct lv as [F own s0]. apply (HS F s0 false (mkPos pPrev 0 0)); [apply incl_refl| |apply Hnull; exact E0].
        repeat split; auto.
      * destruct Hcur as [Hcur|Hcur]; [contradiction|].
        set (pc := vptr pCur) in *. set (kc := vkey pCur) in *.
        apply Conc.safe_bind. eapply safeA_protect with (ck := Some kc) (o := o).
        -- right. exists kc. auto.
        -- exact Hop.
        -- intros F' s' HF Hs'. cbn [Conc.safe]. apply HN; auto.
        -- intros pNext F1 s0 HF1 HN1 Hs0 _. cbn beta iota.
           set (s1 := obs_st o (obs_rule (Some kc) None k pNext) s0).
           assert (Hop1 : open_read s1 o) by (apply open_read_obs; exact Hs0).
           destruct (klt_cell _ _ _ Hkl) as (ckp & Hckp & Hlt).
           eapply safeA_ld with (ck := ckp) (kp := Some (pc, kc)) (o := o);
             [eapply cell_key_incl; [exact HF1|exact Hckp]|cbn; apply HF1; exact Hcur|exact Hop1|].
           intros pv Hpv0. cbn [lv_facts lv_own lv_st lvw].
           set (F2 := newfacts pPrev pv ++ F1).
           set (s2 := obs_st o (obs_rule ckp (Some (pc, kc)) k pv) s1).
           assert (Hop2 : open_read s2 o) by (apply open_read_obs; exact Hop1).
           assert (I12 : incl F1 F2) by (unfold F2; apply incl_app_r').
           assert (I02 : incl (lv_facts lv) F2) by (eapply incl_tran; eauto).
           assert (Hstart2 : start_ok F2 h k) by (eapply start_ok_incl; [exact I02|exact Hstart]).
           destruct (Nat.eqb_spec (vptr pv) pc) as [Epv|Epv]; cbn [andb negb].
           2: { change (safeA t (search_from h f t g0 g1 g2 (op_key o) None) (lvw lv F2 s2, cd) Q). apply IH.
                - split; [exact Hop2|split; [exact Hstart2|exact I]].
                - intros F' s' HF Hs'. apply HN; auto. eapply incl_tran; eauto.
                - intros F' s' fd p HF Hp Hs'. apply HS; auto. eapply incl_tran; eauto. }
           destruct (vmark pv) eqn:Empv; cbn [negb].
           { change (safeA t (search_from h f t g0 g1 g2 (op_key o) None) (lvw lv F2 s2, cd) Q). apply IH.
             - split; [exact Hop2|split; [exact Hstart2|exact I]].
             - intros F' s' HF Hs'. apply HN; auto. eapply incl_tran; eauto.
             - intros F' s' fd p HF Hp Hs'. apply HS; auto. eapply incl_tran; eauto. }
           destruct (vmark pNext) eqn:Emk.
           ++ (* help to unlink the marked pCur *)
              eapply safeA_cas_help with (o := o).
              ** eapply ppub_incl; [exact I02|exact Hpp].
              ** eapply klt_incl; [exact I02|exact Hkl].
              ** apply I12. apply (newfacts_frozen _ _ _ HN1 Emk).
              ** exact Hop2.
              ** cbn beta iota. change (vmark (vok true)) with true. cbn iota. cbn [lv_facts lv_own lv_st lvw].
                 set (s3 := if Nat.eqb (vptr pNext) 0 then lin_read o false s2 else s2).
                 apply Conc.safe_bind. apply safeA_retire. apply Conc.safe_bind. apply safeA_copy_guard.
                 change (safeA t (search_from h f t g0 g1 g2 (op_key o) (Some (pPrev, pNext))) (lvw lv F2 s3, cd) Q). apply IH.
                 --- cbn [lvw lv_facts lv_st]. split.
                     { unfold s3. destruct (Nat.eqb (vptr pNext) 0); [apply open_read_lin|]; exact Hop2. }
                     split; [exact Hstart2|].
                     split; [eapply ppub_incl; [exact I02|exact Hpp]|].
                     split; [eapply klt_incl; [exact I02|exact Hkl]|].
                     split; [destruct (newfacts_pub _ _ _ HN1) as [Hz|Hz]; [left; exact Hz|right; apply I12; exact Hz]|].
                     intros Hz. unfold s3. rewrite Hz. cbn [Nat.eqb]. apply st_after_lin. exact Hop2.
                 --- intros F' s' HF Hs'. apply HN; auto. eapply incl_tran; eauto.
                 --- intros F' s' fd p HF Hp Hs'. apply HS; auto. eapply incl_tran; eauto.
              ** cbn beta iota. change (vmark (vok false)) with false. cbn iota.
                 change (safeA t (search_from h f t g0 g1 g2 (op_key o) None) (lvw lv F2 s2, cd) Q). apply IH.
                 --- split; [exact Hop2|split; [exact Hstart2|exact I]].
                 --- intros F' s' HF Hs'. apply HN; auto. eapply incl_tran; eauto.
                 --- intros F' s' fd p HF Hp Hs'. apply HS; auto. eapply incl_tran; eauto.
           ++ destruct (Z.leb_spec k kc) as [Hle|Hgt].
              ** (* stop here *)
                 cbn [Conc.safe]. apply (HS F2 s2 (Z.eqb kc k) (mkPos pPrev pc (vptr pNext))); [exact I02| |].
                 --- cbn [pos_ok pprev pcur]. split; [eapply ppub_incl; [exact I02|exact Hpp]|].
                     split; [eapply klt_incl; [exact I02|exact Hkl]|].
                     destruct (Z.eqb_spec kc k) as [Ek|Ek].
                     +++ rewrite <- Ek. apply I02. exact Hcur.
                     +++ right. exists kc. split; [apply I02; exact Hcur|lia].
                 --- destruct (Z.eqb_spec kc k) as [Ek|Ek].
                     +++ assert (E1 : s1 = lin_read o true s0).
                         { unfold s1. rewrite Ek. rewrite obs_rule_present by exact Emk. reflexivity. }
                         assert (E2 : s2 = s1).
                         { unfold s2. rewrite obs_rule_lt by auto. rewrite absent_known_ge; [reflexivity|rewrite Epv; exact E0|lia]. }
                         rewrite E2, E1. apply st_after_lin. exact Hs0.
                     +++ assert (E2 : s2 = lin_read o false s1).
                         { unfold s2. rewrite obs_rule_lt by auto. rewrite absent_known; [reflexivity|exact Epv|exact E0|lia]. }
                         rewrite E2. apply st_after_lin. exact Hop1.
              ** (* advance *)
                 apply Conc.safe_bind. apply safeA_copy_guard. apply Conc.safe_bind. apply safeA_copy_guard.
                 change (safeA t (search_from h f t g0 g1 g2 (op_key o) (Some (LNext pc, pNext))) (lvw lv F2 s2, cd) Q). apply IH.
                 --- cbn [lvw lv_facts lv_st]. unfold LNext. split; [exact Hop2|]. split; [exact Hstart2|].
                     split; [right; eexists; apply I02; exact Hcur|].
                     split; [right; exists kc; split; [apply I02; exact Hcur|lia]|].
                     split; [destruct (newfacts_pub _ _ _ HN1) as [Hz|Hz]; [left; exact Hz|right; apply I12; exact Hz]|].
                     intros Hz.
                     assert (E1 : s1 = lin_read o false s0).
                     { unfold s1. rewrite obs_rule_lt; [|exact Emk|right; exists kc; split; [reflexivity|lia]].
                       rewrite absent_null by exact Hz. reflexivity. }
                     assert (E2 : s2 = s1).
                     { unfold s2. rewrite obs_rule_lt by auto. rewrite absent_known_ge; [reflexivity|rewrite Epv; exact E0|lia]. }
                     rewrite E2, E1. apply st_after_lin. exact Hs0.
                 --- intros F' s' HF Hs'. apply HN; auto. eapply incl_tran; eauto.
                 --- intros F' s' fd p HF Hp Hs'. apply HS; auto. eapply incl_tran; eauto.
    + (* try_again: from the start cell; an anchor is never marked *)
      destruct (start_cell _ _ _ Hstart) as (ck & Hck & Hcklt & Hanch).
      destruct (start_ppub _ _ _ Hstart) as [Hpph Hklh].
      apply Conc.safe_bind. eapply safeA_protect with (ck := ck) (o := o).
      * exact Hck.
      * exact Hop.
      * intros F' s' HF Hs'. cbn [Conc.safe]. apply HN; auto.
      * intros v F1 s0 HF1 HN1 Hs0 Hv0. cbn beta iota.
        set (s1 := obs_st o (obs_rule ck None k v) s0).
        change (safeA t (search_from h f t g0 g1 g2 (op_key o) (Some (h, v))) (lvw lv F1 s1, cd) Q). apply IH.
        -- cbn [lvw lv_facts lv_st]. split; [apply open_read_obs; exact Hs0|].
           split; [eapply start_ok_incl; [exact HF1|exact Hstart]|].
           split; [eapply ppub_incl; [exact HF1|exact Hpph]|]. split; [eapply klt_incl; [exact HF1|exact Hklh]|].
           split; [exact (newfacts_pub _ _ _ HN1)|].
           intros Hz. unfold s1. rewrite obs_rule_lt; [|apply Hv0; exact Hanch|exact Hcklt].
           rewrite absent_null by exact Hz. apply st_after_lin. exact Hs0.
        -- intros F' s' HF Hs'. apply HN; auto. eapply incl_tran; eauto.
        -- intros F' s' fd p HF Hp Hs'. apply HS; auto. eapply incl_tran; eauto.
Qed.

(** ** link_node, unlink_node *)
Lemma safeA_link_node t own kk p lv cd o (Q : bool * nat -> lview2 -> Prop) :
  pos_ok (lv_facts lv) kk false p ->
  open_read (lv_st lv) o -> ins_op o kk ->
  (own = None \/ exists n nx, own = Some n /\ lv_own lv = Some (n, kk, nx)) ->
  (forall n, Q (true, n) (mkLV (FPub n kk :: lv_facts lv) None (@Linearized SetSpec o (ins_res o)), cd)) ->
  (forall n, Q (false, n) (mkLV (lv_facts lv) (Some (n, kk, 0%nat)) (lv_st lv), cd)) ->
  safeA t (link_node own kk p) (lv, cd) Q.
Proof.
  intros (Hpp & Hkl & Hcur) Hst Hop Hown HQ1 HQ0. unfold link_node.
  assert (Hcas : forall n lv1, lv_facts lv1 = lv_facts lv -> lv_own lv1 = Some (n, kk, pcur p) -> lv_st lv1 = lv_st lv ->
     safeA t (Act (a_cas (pprev p) (pcur p) n false)
               (fun r => if vmark r then Ret (true, n) else Act (a_st_next n 0) (fun _ => Ret (false, n)))) (lv1, cd) Q).
  { intros n lv1 E1 E2 E3. eapply safeA_cas_link with (kk := kk) (o := o); rewrite ?E1, ?E3; eauto.
    - cbn [vmark vok Conc.safe]. apply HQ1.
    - cbn [vmark vok]. eapply safeA_st_next; [exact E2|]. intros v Hv. cbn [Conc.safe lv_facts lv_st].
      rewrite E1, E3. apply HQ0. }
  destruct Hown as [->|(n & nx & -> & Hn)].
  - apply safeA_alloc_st. intros n. cbn [vptr]. apply Hcas; reflexivity.
  - eapply safeA_st_next; [exact Hn|]. intros v Hv. rewrite Hv. apply Hcas; reflexivity.
Qed.

Lemma safeA_unlink_node t p kk lv cd (Q : bool -> lview2 -> Prop) :
  pos_ok (lv_facts lv) kk true p -> ak kk = false -> open_read (lv_st lv) (SErase kk) ->
  Q true (mkLV (FFrozen (pcur p) (pnext p) :: lv_facts lv) (lv_own lv) (@Linearized SetSpec (SErase kk) (RBool true)), cd) ->
  Q false (lv, cd) ->
  safeA t (unlink_node t p) (lv, cd) Q.
Proof.
  intros (Hpp & Hkl & Hcur) Hak Hst HQ1 HQ0. unfold unlink_node, LNext.
  eapply safeA_cas_mark; [exact Hcur|exact Hak|exact Hst|..].
  - cbn [vmark vok]. apply safeA_cas_unlink.
    + cbn [lv_facts]. eapply ppub_incl; [|exact Hpp]. apply incl_tl. apply incl_refl.
    + cbn [lv_facts]. left. reflexivity.
    + cbn [vmark vok]. apply Conc.safe_bind. apply safeA_retire. exact HQ1.
    + cbn [vmark vok Conc.safe]. exact HQ1.
  - cbn [vmark vok Conc.safe]. exact HQ0.
Qed.

(** ** the operation loops *)
Lemma safeA_insert_loop fuel : forall h sf ic withf t g0 g1 g2 kk fr own lv cd
    (Q : out (bool * option nat) -> lview2 -> Prop),
  start_ok (lv_facts lv) h kk ->
  open_read (lv_st lv) (SInsert kk) ->
  (own = None \/ exists n nx, own = Some n /\ lv_own lv = Some (n, kk, nx)) ->
  (forall l', Q None l') ->
  (forall F' own', Q (Some (false, None)) (mkLV F' own' (@Linearized SetSpec (SInsert kk) (RBool false)), cd)) ->
  (forall F' n, Q (Some (true, Some n)) (mkLV F' None (@Linearized SetSpec (SInsert kk) (RBool true)), cd)) ->
  safeA t (insert_loop_from h fuel sf ic withf t g0 g1 g2 kk fr own) (lv, cd) Q.
Proof.
  induction fuel as [|f IH]; intros h sf ic withf t g0 g1 g2 kk fr own lv cd Q Hstart Hst Hown HN HF HT; cbn [insert_loop_from].
  - cbn [Conc.safe]. apply HN.
  - apply Conc.safe_bind. change kk with (op_key (SInsert kk)) at 1.
    apply safeA_search with (o := SInsert kk); [split; [exact Hst|split; [exact Hstart|exact I]]|..].
    + intros F' s' _ _. cbn [Conc.safe]. apply HN.
    + intros F' s' found p HF' Hp [Hs' Hres]. cbn [op_key] in Hp. destruct found.
      * cbn [Conc.safe]. unfold lvw. rewrite (Hres (RBool false) eq_refl). apply HF.
      * assert (Hown' : own = None \/ exists n nx, own = Some n /\ lv_own (lvw lv F' s') = Some (n, kk, nx)) by exact Hown.
        destruct withf.
        -- destruct (alloc1 fr) as [g fr']. apply Conc.safe_bind. apply safeA_assign_guard.
           apply Conc.safe_bind. eapply safeA_link_node with (o := SInsert kk); [exact Hp|exact Hs'|left; reflexivity|exact Hown'|..].
           ++ intros n. cbn [fst snd]. apply safeA_emit_other; [reflexivity|reflexivity|].
              apply Conc.safe_bind. apply safeA_cnt_inc. apply Conc.safe_bind. apply safeA_clear_guard.
              cbn [Conc.safe]. apply HT.
           ++ intros n. cbn [fst snd]. apply Conc.safe_bind. apply safeA_clear_guard.
              apply IH; auto; [cbn [lv_facts lvw]; eapply start_ok_incl; [exact HF'|exact Hstart]|right; exists n, 0%nat; split; reflexivity].
        -- apply Conc.safe_bind. eapply safeA_link_node with (o := SInsert kk); [exact Hp|exact Hs'|left; reflexivity|exact Hown'|..].
           ++ intros n. cbn [fst snd]. apply Conc.safe_bind. apply safeA_cnt_inc. cbn [Conc.safe]. apply HT.
           ++ intros n. cbn [fst snd]. apply IH; auto; [cbn [lv_facts lvw]; eapply start_ok_incl; [exact HF'|exact Hstart]|right; exists n, 0%nat; split; reflexivity].
Qed.

Lemma safeA_update_loop fuel : forall h sf ic allow t g0 g1 g2 kk fr own lv cd
    (Q : out (bool * bool * option nat) -> lview2 -> Prop),
  start_ok (lv_facts lv) h kk ->
  open_read (lv_st lv) (SUpdate kk allow) ->
  (own = None \/ exists n nx, own = Some n /\ lv_own lv = Some (n, kk, nx)) ->
  (forall l', Q None l') ->
  (forall F' own', Q (Some (true, false, None)) (mkLV F' own' (@Linearized SetSpec (SUpdate kk allow) (RPair true false)), cd)) ->
  (forall F' own', allow = false -> Q (Some (false, false, None)) (mkLV F' own' (@Linearized SetSpec (SUpdate kk allow) (RPair false false)), cd)) ->
  (forall F' n, Q (Some (true, true, Some n)) (mkLV F' None (@Linearized SetSpec (SUpdate kk allow) (RPair true true)), cd)) ->
  safeA t (update_loop_from h fuel sf ic allow t g0 g1 g2 kk fr own) (lv, cd) Q.
Proof.
  induction fuel as [|f IH]; intros h sf ic allow t g0 g1 g2 kk fr own lv cd Q Hstart Hst Hown HN HE HF HT; cbn [update_loop_from].
  - cbn [Conc.safe]. apply HN.
  - apply Conc.safe_bind. change kk with (op_key (SUpdate kk allow)) at 1.
    apply safeA_search with (o := SUpdate kk allow); [split; [exact Hst|split; [exact Hstart|exact I]]|..].
    + intros F' s' _ _. cbn [Conc.safe]. apply HN.
    + intros F' s' found p HF' Hp [Hs' Hres]. cbn [op_key] in Hp.
      assert (Hown' : own = None \/ exists n nx, own = Some n /\ lv_own (lvw lv F' s') = Some (n, kk, nx)) by exact Hown.
      destruct found.
      * destruct Hp as (Hpp & Hkl & Hcur). unfold LNext.
        eapply safeA_ld with (ck := Some kk) (kp := None) (o := SUpdate kk allow); [right; exists kk; auto|exact I|exact Hs'|].
        intros v _. cbn [op_key lvw lv_facts lv_own lv_st].
        destruct (vmark v) eqn:Em.
        -- apply IH; auto; [cbn [lv_facts lvw]; eapply start_ok_incl; [|exact Hstart]; apply incl_appr; exact HF'|cbn [lv_st]; apply open_read_obs; exact Hs'].
        -- rewrite obs_rule_present by exact Em. cbn [obs_st].
           replace (lin_read (SUpdate kk allow) true s') with (@Linearized SetSpec (SUpdate kk allow) (RPair true false))
             by (unfold lin_read; destruct allow; reflexivity).
           apply safeA_emit_other; [reflexivity|reflexivity|]. cbn [Conc.safe]. apply HE.
      * destruct allow; cbn [negb].
        -- destruct (alloc1 fr) as [g fr']. apply Conc.safe_bind. apply safeA_assign_guard.
           apply Conc.safe_bind. eapply safeA_link_node with (o := SUpdate kk true); [exact Hp|exact Hs'|right; reflexivity|exact Hown'|..].
           ++ intros n. cbn [fst snd]. apply Conc.safe_bind. apply safeA_cnt_inc.
              apply safeA_emit_other; [reflexivity|reflexivity|].
              apply Conc.safe_bind. apply safeA_clear_guard. cbn [Conc.safe]. apply HT.
           ++ intros n. cbn [fst snd]. apply Conc.safe_bind. apply safeA_clear_guard.
              apply IH; auto; [cbn [lv_facts lvw]; eapply start_ok_incl; [exact HF'|exact Hstart]|right; exists n, 0%nat; split; reflexivity].
        -- cbn [Conc.safe]. unfold lvw. rewrite (Hres (RPair false false) eq_refl). apply HF. reflexivity.
Qed.

Lemma safeA_erase_loop fuel : forall h sf ic code mine t g0 g1 g2 kk lv cd (Q : out bool -> lview2 -> Prop),
  start_ok (lv_facts lv) h kk -> ak kk = false ->
  open_read (lv_st lv) (SErase kk) ->
  (forall l', Q None l') ->
  (forall F' own' s', open_read s' (SErase kk) -> (Z.eqb code 6 = false -> s' = @Linearized SetSpec (SErase kk) (RBool false)) ->
        Q (Some false) (mkLV F' own' s', cd)) ->
  (forall F' own', Q (Some true) (mkLV F' own' (@Linearized SetSpec (SErase kk) (RBool true)), cd)) ->
  safeA t (erase_loop_from h fuel sf ic code mine t g0 g1 g2 kk) (lv, cd) Q.
Proof.
  induction fuel as [|f IH]; intros h sf ic code mine t g0 g1 g2 kk lv cd Q Hstart Hak Hst HN HF HT; cbn [erase_loop_from].
  - cbn [Conc.safe]. apply HN.
  - apply Conc.safe_bind. change kk with (op_key (SErase kk)) at 1.
    apply safeA_search with (o := SErase kk); [split; [exact Hst|split; [exact Hstart|exact I]]|..].
    + intros F' s' _ _. cbn [Conc.safe]. apply HN.
    + intros F' s' found p HF' Hp [Hs' Hres]. cbn [op_key] in Hp. destruct found.
      * destruct (Z.eqb code 6 && negb (Nat.eqb (pcur p) mine)) eqn:Ec.
        -- cbn [Conc.safe]. unfold lvw. apply HF; [exact Hs'|].
           intros E6. rewrite E6 in Ec. discriminate.
        -- apply Conc.safe_bind. eapply safeA_unlink_node; [exact Hp|exact Hak|exact Hs'|..].
           ++ destruct (Z.eqb code 5).
              ** apply safeA_emit_other; [reflexivity|reflexivity|]. apply Conc.safe_bind. apply safeA_cnt_dec. cbn [Conc.safe]. apply HT.
              ** apply Conc.safe_bind. apply safeA_cnt_dec. cbn [Conc.safe]. apply HT.
           ++ apply IH; auto. cbn [lv_facts lvw]; eapply start_ok_incl; [exact HF'|exact Hstart].
      * cbn [Conc.safe]. unfold lvw. apply HF; [exact Hs'|]. intros _. apply (Hres (RBool false) eq_refl).
Qed.


(** ** a search for another key while the operation is open (the lookup of the anchor): no result is read off it *)
Lemma ppub_cell F l : ppub F l -> exists ck, cell_key F l ck.
Proof. intros [->|(kl & H)]; [exists None; left; auto|exists (Some kl); right; exists kl; auto]. Qed.

Lemma safeA_search_plain fuel : forall t g0 g1 g2 s o st lv cd (Q : option (bool * pos) -> lview2 -> Prop),
  open_read (lv_st lv) o -> search_inv (lv_facts lv) s st ->
  (forall F' s', incl (lv_facts lv) F' -> open_read s' o -> Q None (lvw lv F' s', cd)) ->
  (forall F' s' found p, incl (lv_facts lv) F' -> pos_ok F' s found p -> open_read s' o ->
        Q (Some (found, p)) (lvw lv F' s', cd)) ->
  safeA t (search fuel t g0 g1 g2 s st) (lv, cd) Q.
Proof.
  induction fuel as [|f IH]; intros t g0 g1 g2 s o st lv cd Q Hop Hinv HN HS; cbn [search].
  - cbn [Conc.safe]. destruct lv as [F ow s0]. apply (HN F s0); [apply incl_refl|exact Hop].
  - destruct st as [[pPrev pCur]|].
    + destruct Hinv as (Hpp & Hkl & Hcur).
      destruct (Nat.eqb_spec (vptr pCur) 0) as [E0|E0].
      * cbn [Conc.safe]. destruct lv as [F own s0]. apply (HS F s0 false (mkPos pPrev 0 0)); [apply incl_refl| |exact Hop].
        repeat split; auto.
      * destruct Hcur as [Hcur|Hcur]; [contradiction|].
        apply Conc.safe_bind. eapply safeA_protect with (ck := Some (vkey pCur)) (o := o).
        -- right. exists (vkey pCur). auto.
        -- exact Hop.
        -- intros F' s' HF Hs'. cbn [Conc.safe]. apply HN; auto.
        -- intros pNext F1 s0 HF1 HN1 Hs0 _. cbn beta iota.
           set (s1 := obs_st o (obs_rule (Some (vkey pCur)) None (op_key o) pNext) s0).
           assert (Hop1 : open_read s1 o) by (apply open_read_obs; exact Hs0).
           destruct (ppub_cell _ _ Hpp) as (ckp & Hckp).
           eapply safeA_ld with (ck := ckp) (kp := None) (o := o);
             [eapply cell_key_incl; [exact HF1|exact Hckp]|exact I|exact Hop1|].
           intros pv _. cbn [lv_facts lv_own lv_st lvw].
           set (F2 := newfacts pPrev pv ++ F1).
           set (s2 := obs_st o (obs_rule ckp None (op_key o) pv) s1).
           assert (Hop2 : open_read s2 o) by (apply open_read_obs; exact Hop1).
           assert (I12 : incl F1 F2) by (unfold F2; apply incl_app_r').
           assert (I02 : incl (lv_facts lv) F2) by (eapply incl_tran; eauto).
           assert (Hrestart : safeA t (search f t g0 g1 g2 s None) (lvw lv F2 s2, cd) Q).
           { apply IH with (o := o); [exact Hop2|exact I|..].
             - intros F' s' HF Hs'. apply HN; auto. eapply incl_tran; eauto.
             - intros F' s' fd p HF Hp Hs'. apply HS; auto. eapply incl_tran; eauto. }
           destruct (negb (Nat.eqb (vptr pv) (vptr pCur) && negb (vmark pv))); [exact Hrestart|].
           destruct (vmark pNext) eqn:Emk.
           ++ apply safeA_cas_unlink.
              ** eapply ppub_incl; [exact I02|exact Hpp].
              ** apply I12. apply (newfacts_frozen _ _ _ HN1 Emk).
              ** cbn beta iota. change (vmark (vok true)) with true. cbn iota.
                 apply Conc.safe_bind. apply safeA_retire. apply Conc.safe_bind. apply safeA_copy_guard.
                 change (safeA t (search f t g0 g1 g2 s (Some (pPrev, pNext))) (lvw lv F2 s2, cd) Q). apply IH with (o := o).
                 --- exact Hop2.
                 --- cbn [search_inv lvw lv_facts]. split; [eapply ppub_incl; [exact I02|exact Hpp]|].
                     split; [eapply klt_incl; [exact I02|exact Hkl]|].
                     destruct (newfacts_pub _ _ _ HN1) as [Hz|Hz]; [left; exact Hz|right; apply I12; exact Hz].
                 --- intros F' s' HF Hs'. apply HN; auto. eapply incl_tran; eauto.
                 --- intros F' s' fd p HF Hp Hs'. apply HS; auto. eapply incl_tran; eauto.
              ** cbn beta iota. change (vmark (vok false)) with false. cbn iota. exact Hrestart.
           ++ destruct (Z.leb_spec s (vkey pCur)) as [Hle|Hgt].
              ** cbn [Conc.safe]. apply (HS F2 s2 (Z.eqb (vkey pCur) s) (mkPos pPrev (vptr pCur) (vptr pNext))); [exact I02| |exact Hop2].
                 cbn [pos_ok pprev pcur]. split; [eapply ppub_incl; [exact I02|exact Hpp]|].
                 split; [eapply klt_incl; [exact I02|exact Hkl]|].
                 destruct (Z.eqb_spec (vkey pCur) s) as [Ek|Ek].
                 --- rewrite <- Ek. apply I02. exact Hcur.
                 --- right. exists (vkey pCur). split; [apply I02; exact Hcur|lia].
              ** apply Conc.safe_bind. apply safeA_copy_guard. apply Conc.safe_bind. apply safeA_copy_guard.
                 change (safeA t (search f t g0 g1 g2 s (Some (LNext (vptr pCur), pNext))) (lvw lv F2 s2, cd) Q). apply IH with (o := o).
                 --- exact Hop2.
                 --- cbn [search_inv lvw lv_facts]. unfold LNext.
                     split; [right; eexists; apply I02; exact Hcur|].
                     split; [right; exists (vkey pCur); split; [apply I02; exact Hcur|lia]|].
                     destruct (newfacts_pub _ _ _ HN1) as [Hz|Hz]; [left; exact Hz|right; apply I12; exact Hz].
                 --- intros F' s' HF Hs'. apply HN; auto. eapply incl_tran; eauto.
                 --- intros F' s' fd p HF Hp Hs'. apply HS; auto. eapply incl_tran; eauto.
    + apply Conc.safe_bind. eapply safeA_protect with (ck := None) (o := o).
      * left. auto.
      * exact Hop.
      * intros F' s' HF Hs'. cbn [Conc.safe]. apply HN; auto.
      * intros v F1 s0 HF1 HN1 Hs0 _. cbn beta iota.
        set (s1 := obs_st o (obs_rule None None (op_key o) v) s0).
        change (safeA t (search f t g0 g1 g2 s (Some (LHead, v))) (lvw lv F1 s1, cd) Q). apply IH with (o := o).
        -- apply open_read_obs; exact Hs0.
        -- cbn [search_inv lvw lv_facts]. split; [left; reflexivity|]. split; [left; reflexivity|].
           exact (newfacts_pub _ _ _ HN1).
        -- intros F' s' HF Hs'. apply HN; auto. eapply incl_tran; eauto.
        -- intros F' s' fd p HF Hp Hs'. apply HS; auto. eapply incl_tran; eauto.
Qed.

(** ** one client operation *)
Lemma safeA_give_up t l (Q : out lstate -> lview2 -> Prop) :
  (forall l', Q None l') -> safeA t give_up l Q.
Proof. destruct l as [lv c]. intros H. unfold give_up. apply safeA_emit_other; [reflexivity|reflexivity|]. cbn [Conc.safe]. apply H. Qed.

Lemma safeA_op_body h fuel sf ic t code k x g0 g1 g2 fr1 own lv (Q : out lstate -> lview2 -> Prop) :
  erasing code && ak k = false ->
  start_ok (lv_facts lv) h k -> open_read (lv_st lv) (spec_op code k x) ->
  (forall l', Q None l') ->
  (forall ls' F' own' cd', Q (Some ls') (mkLV F' own' (@Idle SetSpec), cd')) ->
  safeA t (op_body h fuel sf ic t code k x g0 g1 g2 fr1 own) (lv, code) Q.
Proof.
  intros Her Hstart Hop HN HS. unfold op_body.
  destruct (Z.eqb code 1 || Z.eqb code 2) eqn:E12.
  { assert (Eop : spec_op code k x = SInsert k) by (unfold spec_op; rewrite E12; reflexivity).
    assert (E6 : Z.eqb code 6 = false) by (rewrite orb_true_iff, !Z.eqb_eq in E12; apply Z.eqb_neq; lia).
    rewrite Eop in Hop.
    apply Conc.safe_bind. apply safeA_insert_loop; [exact Hstart|exact Hop|left; reflexivity|..].
    - intros l'. apply safeA_give_up. exact HN.
    - intros F' own'. apply Conc.safe_bind. apply safeA_free_guards. intros fr2.
      eapply safeA_emit_ret; [reflexivity|reflexivity|rewrite E6; reflexivity|]. cbn [Conc.safe]. apply HS.
    - intros F' n. apply Conc.safe_bind. apply safeA_free_guards. intros fr2.
      eapply safeA_emit_ret; [reflexivity|reflexivity|rewrite E6; reflexivity|]. cbn [Conc.safe]. apply HS. }
  destruct (Z.eqb code 3) eqn:E3.
  { assert (Eop : spec_op code k x = SUpdate k (Z.odd x)) by (unfold spec_op; rewrite E12, E3; reflexivity).
    assert (E6 : Z.eqb code 6 = false) by (apply Z.eqb_eq in E3; apply Z.eqb_neq; lia).
    rewrite Eop in Hop.
    apply Conc.safe_bind. apply safeA_update_loop; [exact Hstart|exact Hop|left; reflexivity|..].
    - intros l'. apply safeA_give_up. exact HN.
    - intros F' own'. apply Conc.safe_bind. apply safeA_free_guards. intros fr2.
      eapply safeA_emit_ret; [reflexivity|reflexivity|rewrite E6; reflexivity|]. cbn [Conc.safe]. apply HS.
    - intros F' own' _. apply Conc.safe_bind. apply safeA_free_guards. intros fr2.
      eapply safeA_emit_ret; [reflexivity|reflexivity|rewrite E6; reflexivity|]. cbn [Conc.safe]. apply HS.
    - intros F' n. apply Conc.safe_bind. apply safeA_free_guards. intros fr2.
      eapply safeA_emit_ret; [reflexivity|reflexivity|rewrite E6; reflexivity|]. cbn [Conc.safe]. apply HS. }
  destruct (Z.eqb code 4 || Z.eqb code 5 || Z.eqb code 6) eqn:E456.
  { assert (Hrange : 4 <= code <= 7) by (rewrite !orb_true_iff, !Z.eqb_eq in E456; lia).
    assert (Eop : spec_op code k x = SErase k).
    { unfold spec_op. rewrite E12, E3. replace (Z.leb 4 code && Z.leb code 7) with true; [reflexivity|].
      symmetry. apply andb_true_iff. rewrite !Z.leb_le. lia. }
    assert (Hak : ak k = false).
    { unfold erasing in Her. replace (Z.leb 4 code && Z.leb code 7) with true in Her; [exact Her|].
      symmetry. apply andb_true_iff. rewrite !Z.leb_le. lia. }
    rewrite Eop in Hop.
    apply Conc.safe_bind. apply safeA_erase_loop; [exact Hstart|exact Hak|exact Hop|..].
    - intros l'. apply safeA_give_up. exact HN.
    - intros F' own' s' Hs' Hlin. apply Conc.safe_bind. apply safeA_free_guards. intros fr2.
      destruct (Z.eqb code 6) eqn:E6.
      + eapply safeA_emit_ret_drop; [exact Hs'|rewrite E6; reflexivity|]. cbn [Conc.safe]. apply HS.
      + eapply safeA_emit_ret; [cbn [lv_st]; apply Hlin; reflexivity|reflexivity|rewrite E6; reflexivity|]. cbn [Conc.safe]. apply HS.
    - intros F' own'. apply Conc.safe_bind. apply safeA_free_guards. intros fr2.
      eapply safeA_emit_ret; [reflexivity|reflexivity|apply andb_false_r|]. cbn [Conc.safe]. apply HS. }
  destruct (Z.eqb code 7) eqn:E7.
  { assert (Eop : spec_op code k x = SErase k).
    { unfold spec_op. rewrite E12, E3. apply Z.eqb_eq in E7. subst code. reflexivity. }
    assert (E6 : Z.eqb code 6 = false) by (apply Z.eqb_eq in E7; apply Z.eqb_neq; lia).
    assert (Hak : ak k = false).
    { apply Z.eqb_eq in E7. subst code. exact Her. }
    rewrite Eop in Hop.
    apply Conc.safe_bind. apply safeA_erase_loop; [exact Hstart|exact Hak|exact Hop|..].
    - intros l'. apply safeA_give_up. exact HN.
    - intros F' own' s' Hs' Hlin. apply Conc.safe_bind. apply safeA_free_guards. intros fr2.
      eapply safeA_emit_ret; [cbn [lv_st]; apply Hlin; reflexivity|reflexivity|rewrite E6; reflexivity|]. cbn [Conc.safe]. apply HS.
    - intros F' own'. apply Conc.safe_bind. apply safeA_free_guards. intros fr2.
      apply Conc.safe_bind. apply safeA_use_guarded. apply Conc.safe_bind. apply safeA_free_guards. intros fr3.
      eapply safeA_emit_ret; [reflexivity|reflexivity|rewrite E6; reflexivity|]. cbn [Conc.safe]. apply HS. }
  (* get, contains, find with functor *)
  assert (Eop : spec_op code k x = SContains k).
  { unfold spec_op. rewrite E12, E3. replace (Z.leb 4 code && Z.leb code 7) with false; [reflexivity|].
    symmetry. apply andb_false_iff.
    rewrite !orb_false_iff, !Z.eqb_neq in E456. rewrite Z.eqb_neq in E7.
    destruct (Z.leb_spec 4 code); [right|left; reflexivity]. apply Z.leb_gt. lia. }
  assert (E6 : Z.eqb code 6 = false) by (rewrite !orb_false_iff in E456; tauto).
  rewrite Eop in Hop.
  apply Conc.safe_bind. change k with (op_key (SContains k)) at 1.
  apply safeA_search with (o := SContains k); [split; [exact Hop|split; [exact Hstart|exact I]]|..].
  - intros F' s' _ _. apply safeA_give_up. exact HN.
  - intros F' s' found p _ _ [Hs' Hres].
    assert (Hst : lv_st (lvw lv F' s') = @Linearized SetSpec (SContains k) (RBool found))
      by (cbn; apply Hres; reflexivity).
    destruct (Z.eqb code 8 && found) eqn:E8.
    + apply andb_true_iff in E8. destruct E8 as [_ ->].
      apply Conc.safe_bind. apply safeA_free_guards. intros fr2.
      apply Conc.safe_bind. apply safeA_use_guarded. apply Conc.safe_bind. apply safeA_free_guards. intros fr3.
      eapply safeA_emit_ret; [exact Hst|reflexivity|rewrite E6; reflexivity|]. cbn [Conc.safe]. apply HS.
    + destruct (Z.eqb code 10 && found) eqn:E10.
      * apply andb_true_iff in E10. destruct E10 as [_ ->].
        apply safeA_emit_other; [reflexivity|reflexivity|].
        apply Conc.safe_bind. apply safeA_free_guards. intros fr2.
        eapply safeA_emit_ret; [exact Hst|reflexivity|rewrite E6; reflexivity|]. cbn [Conc.safe]. apply HS.
      * apply Conc.safe_bind. apply safeA_free_guards. intros fr2.
        eapply safeA_emit_ret; [exact Hst|destruct found; reflexivity|rewrite E6; reflexivity|]. cbn [Conc.safe]. apply HS.
Qed.

Lemma safeA_run_op fuel sf ic t o ls lv cd0 (Q : out lstate -> lview2 -> Prop) :
  lv_st lv = @Idle SetSpec ->
  (forall l', Q None l') ->
  (forall ls' F' own' cd', Q (Some ls') (mkLV F' own' (@Idle SetSpec), cd')) ->
  safeA t (run_op_from ak fuel sf ic t o ls) (lv, cd0) Q.
Proof.
  intros Hi HN HS. unfold run_op_from, ev_inv.
  set (code := nth 0 o 0). set (k := nth 1 o 0). set (x := nth 2 o 0). set (s := nth 3 o 0).
  clearbody code k x s. clear o.
  destruct ls as [fr own]. destruct (alloc3 fr) as [[[g0 g1] g2] fr1].
  destruct (Z.leb 1 code && Z.leb code 10 && negb (erasing code && ak k)) eqn:Hrange.
  2: { cbn [Conc.safe]. destruct lv as [F ow st]; cbn in Hi; subst st. apply HS. }
  apply andb_true_iff in Hrange. destruct Hrange as [_ Her]. apply negb_true_iff in Her.
  apply safeA_emit_inv; [exact Hi|].
  set (lv1 := mkLV (lv_facts lv) (lv_own lv) (@Pending SetSpec (spec_op code k x))).
  assert (Hhead : safeA t (op_body LHead fuel sf ic t code k x g0 g1 g2 fr1 own) (lv1, code) Q).
  { apply safeA_op_body; auto; [left; reflexivity|left; reflexivity]. }
  destruct (ak s && Z.ltb s k) eqn:Eanch; [|exact Hhead].
  apply andb_true_iff in Eanch. destruct Eanch as [Haks Hlt]. apply Z.ltb_lt in Hlt.
  apply Conc.safe_bind. apply safeA_search_plain with (o := spec_op code k x); [left; reflexivity|exact I|..].
  - intros F' s' _ _. apply safeA_give_up. exact HN.
  - intros F' s' found p HF Hp Hs'. destruct found.
    + destruct Hp as (_ & _ & Hcur). unfold LNext.
      apply safeA_op_body; auto. right. exists s. auto.
    + apply safeA_op_body; auto. left. reflexivity.
Qed.

Lemma safeA_run_ops fuel sf ic t os : forall ls lv cd,
  lv_st lv = @Idle SetSpec -> safeA t (run_ops_from ak fuel sf ic t os ls) (lv, cd) (fun _ _ => True).
Proof.
  induction os as [|o os IH]; intros ls lv cd Hi; cbn [run_ops_from]; [exact I|].
  apply Conc.safe_bind. apply safeA_run_op; [exact Hi|..].
  - intros l'. exact I.
  - intros ls' F' own' cd'. apply IH. reflexivity.
Qed.

Lemma safeA_thread fuel sf ic t os lv cd :
  lv_st lv = @Idle SetSpec -> safeA t (thread_prog_from ak fuel sf ic t os) (lv, cd) (@Conc.QTrue lview2).
Proof.
  intros Hi. unfold thread_prog_from. apply safeA_neutral with (v := v0); [apply neutral_begin|].
  eapply Conc.safe_weaken; [|apply safeA_run_ops; exact Hi]. intros; exact I.
Qed.

Lemma thread_progs_from_nth fuel sf ic : forall ths s t p,
  nth_error (thread_progs_from ak fuel sf ic s ths) t = Some p ->
  exists os, p = thread_prog_from ak fuel sf ic (s + t) os.
Proof.
  induction ths as [|os ths IH]; intros s t p H; cbn [thread_progs_from] in H.
  - destruct t; discriminate.
  - destruct t as [|t]; cbn [nth_error] in H.
    + inversion H; subst. exists os. f_equal. lia.
    + destruct (IH (S s) t p H) as [os' E]. exists os'. rewrite E. f_equal. lia.
Qed.

Lemma init_okA fuel sf ic ths : Conc.cfg_ok view2 (InvA ak) (init_cfg_from ak fuel sf ic ths).
Proof.
  exists aux20. split; [split; [exact Inv2_init|intros n Hn; cbn in Hn; lia]|].
  intros t p Hp. cbn [init_cfg_from Conc.threads] in Hp.
  destruct (thread_progs_from_nth _ _ _ _ _ _ _ Hp) as [os ->]. cbn [Nat.add].
  apply safeA_thread. reflexivity.
Qed.

(** ** the theorems: every number of threads, every client program, every schedule, every anchor predicate *)
Theorem mlistfrom_sorted_nodup fuel sf ic ths c :
  Conc.reach (init_cfg_from ak fuel sf ic ths) c ->
  exists L, list_nodes (Conc.shared c) L /\
            zsorted (keys_of (Conc.shared c) L) /\
            zsorted (keys_of (Conc.shared c) (unmarked (Conc.shared c) L)).
Proof.
  intros Hr. destruct (Conc.reach_Inv (init_okA fuel sf ic ths) Hr) as (a & (L & HS & _) & _).
  destruct (chain_keys_sorted _ _ (is_chain _ _ _ HS)) as [H1 H2].
  exists L. split; [split; [apply (is_chain _ _ _ HS)|exact H2]|]. split; [exact H1|]. apply zsorted_sub. exact H1.
Qed.

(** an anchor is never logically deleted: every allocated node with an anchor key is unmarked *)
Theorem mlistfrom_anchor_permanent fuel sf ic ths c :
  Conc.reach (init_cfg_from ak fuel sf ic ths) c -> J ak (Conc.shared c).
Proof. intros Hr. destruct (Conc.reach_Inv (init_okA fuel sf ic ths) Hr) as (a & _ & Hj). exact Hj. Qed.

Theorem mlistfrom_linearizable_lp fuel sf ic ths c :
  Conc.reach (init_cfg_from ak fuel sf ic ths) c ->
  exists atr, lp_valid SetSpec atr /\ erase atr = full_hist (Conc.trace c).
Proof.
  intros Hr. destruct (Conc.reach_Inv (init_okA fuel sf ic ths) Hr) as (a & (L & _ & [(S & st & H1 & _) (pend & H2 & _)]) & _).
  exists (a_atr (b_base a)). split; [exists (S, st); exact H1|]. unfold full_hist. rewrite H2. reflexivity.
Qed.

Theorem mlistfrom_linearizable fuel sf ic ths c :
  Conc.reach (init_cfg_from ak fuel sf ic ths) c -> linearizable SetSpec (full_hist (Conc.trace c)).
Proof.
  intros Hr. destruct (mlistfrom_linearizable_lp _ _ _ _ _ Hr) as (atr & Hv & <-).
  apply lp_valid_linearizable. exact Hv.
Qed.

End FromProofs.
