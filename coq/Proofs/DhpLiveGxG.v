(** * DhpLiveGxG: C02, second sentence for DHP -- the allocator discipline [cell_disc].  Part X-G: the fourth invariant
      [InvC3] (on top of [InvA] x [InvG] x [InvB3]): definitions, and the part about thread records.
      Ghost state per thread: the records it holds through thread_id_ ([xc_hold]), a record it created and has not yet
      pushed on the thread list ([xc_new]), a cursor into the thread list ([xc_cur]), the record whose free guard chain it
      initialised before "_att" ([xc_init]), the guard block whose cells it is chaining ([xc_pb]), the cell it popped from
      the free chain before "_own" ([xc_pop]), whether ~Guard() already pushed its cell ([xc_freed]).
      [JR]: a held record's thread_id_ names the holder; an unpublished record is named by no pointer field and no
      cursor, so nobody else can acquire it. *)
From Coq Require Import ZArith NArith List String Bool Lia PeanoNat.
From LV Require Import Base.Conc Base.Events Model.DhpLang Model.Dhp Proofs.DhpBase Proofs.DhpHist
  Proofs.DhpLangProofs Proofs.DhpInvA Proofs.DhpStepsA Proofs.DhpLiveA Proofs.DhpLiveB
  Proofs.DhpLiveGcRule Proofs.DhpLiveGcA Proofs.DhpLiveGcB Proofs.DhpLiveGcC Proofs.DhpLiveGxA Proofs.DhpLiveGxE Proofs.DhpLiveGxF.
Import ListNotations.
Local Open Scope string_scope.
Local Open Scope list_scope.

Record XC := mkXC {
  xc_hold : list nat; xc_new : option nat; xc_cur : option nat; xc_init : option nat;
  xc_pb : option (nat * nat * bool); xc_pop : option gref; xc_freed : bool }.
Definition xc0 : XC := mkXC [] None None None None None false.
Record AuxC := mkAC { ac_g : GS; ac_x : nat -> XC }.
Definition viewC3 (a : AuxC) (t : nat) : VG * XC := (viewG (ac_g a) t, ac_x a t).

(** ** thread records *)
Record JR (g : G) (x : nat -> XC) : Prop := {
  jr_new : forall w r, xc_new (x w) = Some r ->
             r < List.length (recs g) /\ tlist g <> Some r /\ (forall r', r_next (grec g r') <> Some r) /\
             (forall u, xc_cur (x u) <> Some r) /\ (forall u, u <> w -> ~ In r (xc_hold (x u))) /\
             (forall w', xc_new (x w') = Some r -> w' = w);
  jr_cur : forall u n, xc_cur (x u) = Some n -> n < List.length (recs g);
  jr_ptr : (forall n, tlist g = Some n -> n < List.length (recs g)) /\
           (forall r' n, r_next (grec g r') = Some n -> n < List.length (recs g));
  jr_hold : forall u r, In r (xc_hold (x u)) -> r < List.length (recs g) /\ r_tid (grec g r) = Datatypes.S u }.

(** what [JR] reads of the shared state *)
Definition piR (g g' : G) : Prop :=
  tlist g' = tlist g /\ List.length (recs g') = List.length (recs g) /\
  forall r, r_tid (grec g' r) = r_tid (grec g r) /\ r_next (grec g' r) = r_next (grec g r).

Lemma JR_piR g g' x : piR g g' -> JR g x -> JR g' x.
Proof.
  intros (P1 & P2 & P3) [J1 J2 J3 J4]. constructor.
  - intros w r Hw. destruct (J1 w r Hw) as (A1 & A2 & A3 & A4 & A5 & A6). rewrite P1, P2. split; [exact A1|]. split; [exact A2|].
    split; [intros r'; destruct (P3 r') as (_ & ->); apply A3|auto].
  - intros u n Hu. rewrite P2. eauto.
  - destruct J3 as (A1 & A2). rewrite P1, P2. split; [exact A1|]. intros r' n. destruct (P3 r') as (_ & ->). apply A2.
  - intros u r Hu. destruct (J4 u r Hu) as (A1 & A2). rewrite P2. destruct (P3 r) as (-> & _). auto.
Qed.

Lemma JR_same_x g x x' : (forall u, xc_hold (x' u) = xc_hold (x u) /\ xc_new (x' u) = xc_new (x u) /\ xc_cur (x' u) = xc_cur (x u)) ->
  JR g x -> JR g x'.
Proof.
  intros He [J1 J2 J3 J4]. constructor.
  - intros w r Hw. destruct (He w) as (_ & E2 & _). rewrite E2 in Hw. destruct (J1 w r Hw) as (A1 & A2 & A3 & A4 & A5 & A6).
    split; [exact A1|]. split; [exact A2|]. split; [exact A3|]. split; [intros u; destruct (He u) as (_ & _ & ->); apply A4|].
    split; [intros u N; destruct (He u) as (-> & _); now apply A5|]. intros w' Hw'. destruct (He w') as (_ & E2' & _). rewrite E2' in Hw'. now apply A6.
  - intros u n. destruct (He u) as (_ & _ & ->). apply J2.
  - exact J3.
  - intros u r. destruct (He u) as (-> & _). apply J4.
Qed.

Definition setR (xt : XC) (hd : list nat) (nw cu : option nat) : XC :=
  mkXC hd nw cu (xc_init xt) (xc_pb xt) (xc_pop xt) (xc_freed xt).

Lemma grec_app_old g v r : r < List.length (recs g) -> grec (set_recs g (recs g ++ [v])) r = grec g r.
Proof. intros L. unfold grec. cbn. now rewrite app_nth1. Qed.
Lemma grec_app_new g v : grec (set_recs g (recs g ++ [v])) (List.length (recs g)) = v.
Proof. unfold grec. cbn. rewrite app_nth2, Nat.sub_diag by lia. reflexivity. Qed.
Lemma grec_oob g r : List.length (recs g) <= r -> grec g r = dflt_rec.
Proof. intros L. unfold grec. now apply nth_overflow. Qed.

Definition sameR (xt xt' : XC) : Prop := xc_hold xt' = xc_hold xt /\ xc_new xt' = xc_new xt /\ xc_cur xt' = xc_cur xt.

Ltac byt u t Hx := destruct (Nat.eq_dec u t) as [->|?N]; [|rewrite ?(Hx u) in * by assumption].

(** a record is created *)
Lemma JR_new_rec g x x' t v : JR g x -> r_next v = None -> (forall u, u <> t -> x' u = x u) ->
  xc_hold (x' t) = xc_hold (x t) -> xc_new (x' t) = Some (List.length (recs g)) -> xc_cur (x' t) = xc_cur (x t) ->
  JR (set_recs g (recs g ++ [v])) x'.
Proof.
  intros [J1 J2 J3 J4] Hv Hx Eh En Ec. set (n := List.length (recs g)) in *. set (g' := set_recs g (recs g ++ [v])).
  assert (Hlen : List.length (recs g') = Datatypes.S n) by (unfold g'; cbn; rewrite app_length; cbn; lia).
  assert (Hnx : forall r' m, r_next (grec g' r') = Some m -> r_next (grec g r') = Some m).
  { intros r' m. destruct (Nat.lt_ge_cases r' n) as [L|L]; [unfold g'; now rewrite grec_app_old|].
    destruct (Nat.eq_dec r' n) as [->|N]; [unfold g', n; rewrite grec_app_new, Hv; discriminate|].
    rewrite (grec_oob g' r') by lia. discriminate. }
  assert (Htl : tlist g' = tlist g) by reflexivity.
  destruct J3 as (P1 & P2).
  assert (Hcur : forall u m, xc_cur (x' u) = Some m -> m < n).
  { intros u m E. destruct (Nat.eq_dec u t) as [->|N]; [rewrite Ec in E|rewrite (Hx u N) in E]; now apply J2 in E. }
  assert (Hhold : forall u r, In r (xc_hold (x' u)) -> In r (xc_hold (x u))).
  { intros u r E. destruct (Nat.eq_dec u t) as [->|N]; [now rewrite Eh in E|now rewrite (Hx u N) in E]. }
  assert (Hnew : forall w r, xc_new (x' w) = Some r -> (w = t /\ r = n) \/ (w <> t /\ xc_new (x w) = Some r)).
  { intros w r E. destruct (Nat.eq_dec w t) as [->|N]; [left; split; congruence|right; split; [exact N|now rewrite (Hx w N) in E]]. }
  constructor.
  - intros w r Hw. rewrite Hlen, Htl. destruct (Hnew w r Hw) as [(-> & ->)|(N & Hw0)].
    + split; [lia|]. split; [intros E; apply P1 in E; lia|]. split; [intros r' E; apply Hnx in E; apply P2 in E; lia|].
      split; [intros u E; apply Hcur in E; lia|]. split; [intros u _ Hin; apply Hhold in Hin; apply J4 in Hin; lia|].
      intros w' Hw'. destruct (Hnew w' n Hw') as [(E & _)|(_ & E)]; [exact E|]. apply J1 in E. lia.
    + destruct (J1 w r Hw0) as (A1 & A2 & A3 & A4 & A5 & A6). split; [lia|]. split; [exact A2|].
      split; [intros r' E; apply Hnx in E; now apply (A3 r')|].
      split; [intros u E; destruct (Nat.eq_dec u t) as [->|Nu]; [rewrite Ec in E|rewrite (Hx u Nu) in E]; now apply (A4 _ E)|].
      split; [intros u Nu Hin; apply Hhold in Hin; now apply (A5 u)|].
      intros w' Hw'. destruct (Hnew w' r Hw') as [(_ & E)|(_ & E)]; [lia|now apply A6].
  - intros u m Hu. rewrite Hlen. apply Hcur in Hu. lia.
  - rewrite Hlen, Htl. split; [intros m E; apply P1 in E; lia|intros r' m E; apply Hnx in E; apply P2 in E; lia].
  - intros u r Hu. apply Hhold in Hu. destruct (J4 u r Hu) as (A1 & A2). rewrite Hlen. split; [lia|]. unfold g'. now rewrite grec_app_old.
Qed.

Lemma tid_upd g r v r' : r_tid (grec (upd_rec g r (rs_tid v)) r') = if Nat.eqb r' r && Nat.ltb r (List.length (recs g)) then v else r_tid (grec g r').
Proof. rewrite grec_upd_rec_any. destruct (Nat.eqb r' r && Nat.ltb r (List.length (recs g))) eqn:E; [reflexivity|reflexivity]. Qed.
Lemma next_upd_tid g r v r' : r_next (grec (upd_rec g r (rs_tid v)) r') = r_next (grec g r').
Proof.
  rewrite grec_upd_rec_any. destruct (Nat.eqb r' r && Nat.ltb r (List.length (recs g))) eqn:E; [|reflexivity].
  apply andb_true_iff in E. destruct E as (E & _). apply Nat.eqb_eq in E. now subst.
Qed.
Lemma len_upd_rec g r f : List.length (recs (upd_rec g r f)) = List.length (recs g).
Proof. unfold upd_rec. cbn. apply upd_nth_length. Qed.

(** thread_id_ of record [r] is written by [t], which holds (or from now on holds / no longer holds) it *)
Lemma JR_tid g x x' t r v : JR g x -> (forall u, u <> t -> x' u = x u) ->
  xc_new (x' t) = xc_new (x t) -> xc_cur (x' t) = xc_cur (x t) ->
  (forall u, u <> t -> ~ In r (xc_hold (x u))) ->
  (forall r0, In r0 (xc_hold (x' t)) -> (r0 = r /\ v = Datatypes.S t /\ r < List.length (recs g)) \/ (r0 <> r /\ In r0 (xc_hold (x t)))) ->
  (forall w, xc_new (x w) = Some r -> In r (xc_hold (x' t)) -> w = t) ->
  JR (upd_rec g r (rs_tid v)) x'.
Proof.
  intros [J1 J2 J3 J4] Hx En Ec Hex Hh Hnw. set (g' := upd_rec g r (rs_tid v)).
  assert (Hlen : List.length (recs g') = List.length (recs g)) by apply len_upd_rec.
  assert (Hcur : forall u, xc_cur (x' u) = xc_cur (x u)).
  { intros u. destruct (Nat.eq_dec u t) as [->|N]; [exact Ec|now rewrite (Hx u N)]. }
  assert (Hnew : forall u, xc_new (x' u) = xc_new (x u)).
  { intros u. destruct (Nat.eq_dec u t) as [->|N]; [exact En|now rewrite (Hx u N)]. }
  constructor.
  - intros w r0 Hw. rewrite Hnew in Hw. destruct (J1 w r0 Hw) as (A1 & A2 & A3 & A4 & A5 & A6). rewrite Hlen. split; [exact A1|].
    split; [exact A2|]. split; [intros r'; unfold g'; rewrite next_upd_tid; apply A3|]. split; [intros u; rewrite Hcur; apply A4|].
    split.
    + intros u Nu Hin. destruct (Nat.eq_dec u t) as [->|N]; [|rewrite (Hx u N) in Hin; now apply (A5 u)].
      destruct (Hh r0 Hin) as [(-> & _ & _)|(_ & Hin')]; [|now apply (A5 t)].
      apply Nu. symmetry. now apply (Hnw w).
    + intros w' Hw'. rewrite Hnew in Hw'. now apply A6.
  - intros u n. rewrite Hcur, Hlen. apply J2.
  - destruct J3 as (P1 & P2). rewrite Hlen. split; [exact P1|]. intros r' n. unfold g'. rewrite next_upd_tid. apply P2.
  - intros u r0 Hu. rewrite Hlen. unfold g'. rewrite tid_upd. destruct (Nat.eq_dec u t) as [->|N].
    + destruct (Hh r0 Hu) as [(-> & -> & L)|(Nr & Hin)].
      * split; [exact L|]. rewrite Nat.eqb_refl. apply Nat.ltb_lt in L. now rewrite L.
      * destruct (J4 t r0 Hin) as (A1 & A2). split; [exact A1|]. destruct (Nat.eqb_spec r0 r); [contradiction|exact A2].
    + rewrite (Hx u N) in Hu. destruct (J4 u r0 Hu) as (A1 & A2). split; [exact A1|].
      destruct (Nat.eqb_spec r0 r) as [->|Nr]; [now destruct (Hex u N)|exact A2].
Qed.

(** the cursor of [t] is set to a value read from thread_list_ / a next_ field (or forgotten) *)
Lemma JR_cur g x x' t o : JR g x -> (forall u, u <> t -> x' u = x u) ->
  xc_hold (x' t) = xc_hold (x t) -> xc_new (x' t) = xc_new (x t) -> xc_cur (x' t) = o ->
  (forall n, o = Some n -> tlist g = Some n \/ exists r', r_next (grec g r') = Some n) -> JR g x'.
Proof.
  intros [J1 J2 J3 J4] Hx Eh En Ec Ho. destruct J3 as (P1 & P2).
  assert (Hhold : forall u, xc_hold (x' u) = xc_hold (x u)).
  { intros u. destruct (Nat.eq_dec u t) as [->|N]; [exact Eh|now rewrite (Hx u N)]. }
  assert (Hnew : forall u, xc_new (x' u) = xc_new (x u)).
  { intros u. destruct (Nat.eq_dec u t) as [->|N]; [exact En|now rewrite (Hx u N)]. }
  constructor.
  - intros w r Hw. rewrite Hnew in Hw. destruct (J1 w r Hw) as (A1 & A2 & A3 & A4 & A5 & A6). split; [exact A1|]. split; [exact A2|].
    split; [exact A3|]. split.
    + intros u E. destruct (Nat.eq_dec u t) as [->|N]; [|rewrite (Hx u N) in E; now apply (A4 u)].
      rewrite Ec in E. destruct (Ho r E) as [E'|(r' & E')]; [contradiction|now apply (A3 r')].
    + split; [intros u N; rewrite Hhold; now apply A5|]. intros w' Hw'. rewrite Hnew in Hw'. now apply A6.
  - intros u n E. destruct (Nat.eq_dec u t) as [->|N]; [|rewrite (Hx u N) in E; now apply (J2 u)].
    rewrite Ec in E. destruct (Ho n E) as [E'|(r' & E')]; [now apply P1|now apply (P2 r')].
  - split; assumption.
  - intros u r. rewrite Hhold. apply J4.
Qed.

(** push_rec: next_ of the unpublished record is written *)
Lemma JR_rs_next g x t r old : JR g x -> xc_new (x t) = Some r -> xc_cur (x t) = old -> JR (upd_rec g r (rs_next old)) x.
Proof.
  intros [J1 J2 J3 J4] Hn Hc. set (g' := upd_rec g r (rs_next old)). destruct J3 as (P1 & P2).
  assert (Hlen : List.length (recs g') = List.length (recs g)) by apply len_upd_rec.
  assert (Hnx : forall r' m, r_next (grec g' r') = Some m -> r_next (grec g r') = Some m \/ old = Some m).
  { intros r' m. unfold g'. rewrite grec_upd_rec_any. destruct (Nat.eqb r' r && Nat.ltb r (List.length (recs g))); cbn; auto. }
  assert (Htid : forall r', r_tid (grec g' r') = r_tid (grec g r')).
  { intros r'. unfold g'. rewrite grec_upd_rec_any. destruct (Nat.eqb r' r && Nat.ltb r (List.length (recs g))) eqn:E; [|reflexivity].
    apply andb_true_iff in E. destruct E as (E & _). apply Nat.eqb_eq in E. now subst. }
  constructor.
  - intros w r0 Hw. destruct (J1 w r0 Hw) as (A1 & A2 & A3 & A4 & A5 & A6). rewrite Hlen. split; [exact A1|]. split; [exact A2|].
    split; [|auto]. intros r' E. destruct (Hnx r' r0 E) as [E'|E']; [now apply (A3 r')|]. apply (A4 t). congruence.
  - intros u n. rewrite Hlen. apply J2.
  - rewrite Hlen. split; [exact P1|]. intros r' n E. destruct (Hnx r' n E) as [E'|E']; [now apply (P2 r')|]. apply (J2 t). congruence.
  - intros u r0 Hu. rewrite Hlen, Htid. now apply J4.
Qed.

(** push_rec: the CAS on thread_list_ publishes the record *)
Lemma JR_publish g x x' t r : JR g x -> xc_new (x t) = Some r -> (forall u, u <> t -> x' u = x u) ->
  xc_hold (x' t) = xc_hold (x t) -> xc_new (x' t) = None -> xc_cur (x' t) = xc_cur (x t) -> JR (set_tlist g (Some r)) x'.
Proof.
  intros [J1 J2 J3 J4] Hn Hx Eh En Ec. destruct J3 as (P1 & P2). destruct (J1 t r Hn) as (B1 & B2 & B3 & B4 & B5 & B6).
  assert (Hhold : forall u, xc_hold (x' u) = xc_hold (x u)).
  { intros u. destruct (Nat.eq_dec u t) as [->|N]; [exact Eh|now rewrite (Hx u N)]. }
  assert (Hcur : forall u, xc_cur (x' u) = xc_cur (x u)).
  { intros u. destruct (Nat.eq_dec u t) as [->|N]; [exact Ec|now rewrite (Hx u N)]. }
  assert (Hnew : forall w r0, xc_new (x' w) = Some r0 -> w <> t /\ xc_new (x w) = Some r0).
  { intros w r0 E. destruct (Nat.eq_dec w t) as [->|N]; [rewrite En in E; discriminate|split; [exact N|now rewrite (Hx w N) in E]]. }
  constructor.
  - intros w r0 Hw. destruct (Hnew w r0 Hw) as (N & Hw0). destruct (J1 w r0 Hw0) as (A1 & A2 & A3 & A4 & A5 & A6). split; [exact A1|].
    split; [cbn; intros E; inversion E; subst r0; apply N; symmetry; now apply A6|]. split; [exact A3|].
    split; [intros u; rewrite Hcur; apply A4|]. split; [intros u Nu; rewrite Hhold; now apply A5|].
    intros w' Hw'. destruct (Hnew w' r0 Hw') as (_ & Hw1). now apply A6.
  - intros u n. rewrite Hcur. apply J2.
  - split; [cbn; intros n E; inversion E; subst; exact B1|exact P2].
  - intros u r0. rewrite Hhold. apply J4.
Qed.
