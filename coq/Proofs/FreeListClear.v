(** * FreeList with empty(): the invariant of LV.Proofs.FreeListInv/Safe extended by a HISTORY clause about
      empty(), and the proof rule [Conc.safe] for the programs of LV.Model.FreeListClear.

    Every rule proved in LV.Proofs.FreeListSafe for put / get is re-used unchanged through the lifting
    lemma [lift] (a program that never emits "ret_empty 1" preserves the history clause).

    History clause [Hist]: for every event "ret_empty 1" of thread t in the trace, thread t's last event
    before it is its load of m_Head, and at the instant of that load (trace prefix ending with the load)
    [Good] held: the ownership monitor had not fired and every existing node that nobody held was in the
    hands of an in-flight put / get (some thread had an open get / put). *)
From Coq Require Import ZArith List String Bool Lia PeanoNat.
From LV Require Import Base.Conc Base.Events Model.FreeList Model.FreeListClear Proofs.FreeListBase Proofs.FreeListInv
  Proofs.FreeListSteps Proofs.FreeListSafe.
Import ListNotations.
Local Open Scope Z_scope.
Local Open Scope string_scope.

Definition ev_ret_empty1 : ev := EvCli "ret_empty" [1].
Definition ev_ld_head : ev := EvAcc KLd obj_head true.
Definition ben (e : ev) : Prop := e <> ev_ret_empty1.

(** ** two list lemmas *)
Lemma split_mid {A} (l1 l2 a b : list A) x :
  (l1 ++ l2 = a ++ x :: b)%list -> ~ In x l2 -> exists b', l1 = (a ++ x :: b')%list.
Proof.
  revert a. induction l1 as [|y l1 IH]; intros a E Hn.
  - cbn in E. subst l2. exfalso. apply Hn. apply in_or_app. right. left. reflexivity.
  - destruct a as [|z a]; cbn in E; injection E as E1 E2.
    + exists l1. subst. reflexivity.
    + destruct (IH a E2 Hn) as [b' ->]. exists b'. subst. reflexivity.
Qed.

Lemma split_snoc {A} (l a b : list A) x y :
  (l ++ [y] = a ++ x :: b)%list -> (a = l /\ x = y /\ b = []) \/ exists b', l = (a ++ x :: b')%list.
Proof.
  revert a. induction l as [|z l IH]; intros a E.
  - destruct a as [|z a]; cbn in E.
    + injection E as E1 E2. left. subst. auto.
    + injection E as E1 E2. destruct a; discriminate.
  - destruct a as [|z' a]; cbn in E; injection E as E1 E2.
    + right. exists l. subst. reflexivity.
    + destruct (IH a E2) as [(-> & -> & ->)|[b' ->]].
      * left. subst. auto.
      * right. exists b'. subst. reflexivity.
Qed.

(** ** programs that never emit "ret_empty 1" *)
Inductive benp {R} : prog R -> Prop :=
| benp_ret r : benp (Ret r)
| benp_emit es k : (forall e, In e es -> ben e) -> benp k -> benp (Emit es k)
| benp_act f k : (forall g e, In e (snd (f g)) -> ben e) -> (forall v, benp (k v)) -> benp (Act f k).

Lemma benp_bind {A B} (p : prog A) (q : A -> prog B) : benp p -> (forall r, benp (q r)) -> benp (Conc.bind p q).
Proof.
  intros Hp Hq. induction Hp as [r|es k Hes Hk IH|f k Hf Hk IH]; cbn [Conc.bind].
  - apply Hq.
  - apply benp_emit; auto.
  - apply benp_act; auto.
Qed.

Ltac ben_act :=
  intros ? ?; unfold a_ld_head, a_ld_refs, a_ld_next, a_st_next, a_st_refs, a_cas_refs, a_cas_head, a_faa_refs,
              a_fas_refs, a_begin;
  repeat match goal with |- context [if ?b then _ else _] => destruct b end;
  cbn; intros [<-|[]]; unfold ben, ev_ret_empty1; discriminate.

Lemma benp_add_loop fuel : forall n h, benp (add_loop fuel n h).
Proof.
  induction fuel as [|f IH]; intros n h; cbn [add_loop]; [constructor|].
  apply benp_act; [ben_act|intros v1]. apply benp_act; [ben_act|intros v2]. apply benp_act; [ben_act|intros v3].
  destruct (Nat.eqb _ _); [constructor|]. apply benp_act; [ben_act|intros v4].
  destruct (Z.eqb _ _); [apply IH|constructor].
Qed.

Lemma benp_add_knowing fuel n : benp (add_knowing fuel n).
Proof. unfold add_knowing. apply benp_act; [ben_act|intros v]. apply benp_add_loop. Qed.

Lemma benp_put fuel n : benp (put fuel n).
Proof.
  unfold put. apply benp_act; [ben_act|intros v]. destruct (Z.eqb _ _); [apply benp_add_knowing|constructor].
Qed.

Lemma benp_get_loop fuel : forall h, benp (get_loop fuel h).
Proof.
  induction fuel as [|f IH]; intros h; cbn [get_loop]; [constructor|].
  destruct (Nat.eqb h 0); [constructor|]. apply benp_act; [ben_act|intros v]. cbv zeta.
  destruct (Z.eqb _ 0).
  { apply benp_act; [ben_act|intros v']. apply IH. }
  apply benp_act; [ben_act|intros v2]. destruct (negb _).
  { apply benp_act; [ben_act|intros v']. apply IH. }
  apply benp_act; [ben_act|intros v3]. apply benp_act; [ben_act|intros v4].
  destruct (Nat.eqb _ _).
  { apply benp_act; [ben_act|intros v']. constructor. }
  apply benp_act; [ben_act|intros v5]. destruct (Z.eqb _ _); [|apply IH].
  apply benp_bind; [apply benp_add_knowing|]. intros [|]; [apply IH|constructor].
Qed.

Lemma benp_get fuel : benp (get fuel).
Proof. unfold get. apply benp_act; [ben_act|intros v]. apply benp_get_loop. Qed.

Section Clear.
  Variable N : nat.
  Hypothesis HN : Z.of_nat N + 1 < FLAG.
  Variable valid0 : nat -> bool.
  Hypothesis Hv0 : valid0 O = false.
  Variable own0 : omap.

  Notation Inv1 := (Inv N valid0 own0 N).
  Notation safe1 := (@Conc.safe G V ev Aux (list nat * phase) view Inv1).

  (** what holds of the trace at the instant of an empty() load that reads nullptr *)
  Definition Good (tr : list (nat * ev)) : Prop :=
    exists own, mon_run own0 tr = Some own /\
      forall n, valid0 n = true -> own n = None -> exists t', opens t' tr <> 0.

  (** [trA] = (a prefix ending with thread t's load of m_Head at which [Good] held) ++ events of other threads *)
  Definition at_load (t : nat) (trA : list (nat * ev)) : Prop :=
    exists tr0 tr', trA = (tr0 ++ (t, ev_ld_head) :: tr')%list /\ (forall e, ~ In (t, e) tr') /\
                    Good (tr0 ++ [(t, ev_ld_head)]).

  Definition Hist (tr : list (nat * ev)) : Prop :=
    forall trA t trB, tr = (trA ++ (t, ev_ret_empty1) :: trB)%list -> at_load t trA.

  Definition Aux2 : Type := (Aux * (nat -> bool))%type.
  Definition view2 (aw : Aux2) (t : nat) : list nat * phase * bool := (view (fst aw) t, snd aw t).

  Definition Inv2 (g : G) (aw : Aux2) (tr : list (nat * ev)) : Prop :=
    Inv1 g (fst aw) tr /\ Hist tr /\ forall t, snd aw t = true -> at_load t tr.

  Notation safe2 := (@Conc.safe G V ev Aux2 (list nat * phase * bool) view2 Inv2).

  Lemma in_tag t t' (e : ev) es : In (t, e) (Conc.tag t' es) -> t' = t /\ In e es.
  Proof. unfold Conc.tag. rewrite in_map_iff. intros (x & E & Hx). injection E as <- <-. auto. Qed.

  Lemma at_load_app_other t t' tr es : at_load t tr -> t' <> t -> at_load t (tr ++ Conc.tag t' es).
  Proof.
    intros (tr0 & tr' & E & Hn & Hg) Hne. exists tr0, (tr' ++ Conc.tag t' es)%list. split; [|split; [|exact Hg]].
    - rewrite E, <- app_assoc. reflexivity.
    - intros e Hin. apply in_app_or in Hin. destruct Hin as [Hin|Hin]; [eapply Hn; eauto|].
      apply in_tag in Hin. destruct Hin; congruence.
  Qed.

  Lemma Hist_app_ben tr t es : Hist tr -> (forall e, In e es -> ben e) -> Hist (tr ++ Conc.tag t es).
  Proof.
    intros Hh Hb trA t0 trB E. destruct (split_mid _ _ _ _ _ E) as [b' Hb'].
    - intros Hin. apply in_tag in Hin. destruct Hin as [_ Hin]. apply (Hb _ Hin). reflexivity.
    - eapply Hh; eauto.
  Qed.

  Lemma Hist_app_ret tr t : Hist tr -> at_load t tr -> Hist (tr ++ Conc.tag t [ev_ret_empty1]).
  Proof.
    intros Hh Ha trA t0 trB E. cbn [Conc.tag map] in E. destruct (split_snoc _ _ _ _ _ E) as [(-> & E2 & _)|[b' Hb']].
    - injection E2 as ->. exact Ha.
    - eapply Hh; eauto.
  Qed.

  (** ** lifting a rule proved for the put/get invariant *)
  Lemma lift R (p : prog R) : benp p -> forall t l Q,
    safe1 t p l Q -> safe2 t p (l, false) (fun r l2 => Q r (fst l2) /\ snd l2 = false).
  Proof.
    induction 1 as [r|es k Hes Hk IH|f k Hf Hk IH]; intros t l Q Hs; cbn [Conc.safe] in *.
    - split; [exact Hs|reflexivity].
    - intros g [a w] tr (Hi & Hh & Hw) Hv. unfold view2 in Hv. cbn [fst snd] in *. injection Hv as Hv Hwt.
      destruct (Hs g a tr Hi Hv) as (a' & H1 & H2 & H3).
      exists (a', w). split; [split; [exact H1|split]|split].
      + apply Hist_app_ben; auto.
      + intros t' Ht'. cbn [snd] in Ht'. apply at_load_app_other; [apply Hw; exact Ht'|intros ->; congruence].
      + intros t' Hne. unfold view2. cbn [fst snd]. rewrite (H2 t' Hne). reflexivity.
      + unfold view2. cbn [fst snd]. rewrite Hwt. apply IH. exact H3.
    - intros g [a w] tr (Hi & Hh & Hw) Hv. unfold view2 in Hv. cbn [fst snd] in *. injection Hv as Hv Hwt.
      destruct (Hs g a tr Hi Hv) as (a' & H1 & H2 & H3).
      exists (a', w). split; [split; [exact H1|split]|split].
      + apply Hist_app_ben; auto. apply Hf.
      + intros t' Ht'. cbn [snd] in Ht'. apply at_load_app_other; [apply Hw; exact Ht'|intros ->; congruence].
      + intros t' Hne. unfold view2. cbn [fst snd]. rewrite (H2 t' Hne). reflexivity.
      + unfold view2. cbn [fst snd]. rewrite Hwt. apply IH. exact H3.
  Qed.

  (** an emit rule of LV.Proofs.FreeListSafe, used through its instance for the continuation [Ret tt] *)
  Lemma emit2 t e l (P : list nat * phase -> Prop) R (k : prog R) Q :
    ben e ->
    safe1 t (Emit [e] (Ret tt)) l (fun _ l' => P l') ->
    (forall l', P l' -> safe2 t k (l', false) Q) ->
    safe2 t (Emit [e] k) (l, false) Q.
  Proof.
    intros Hb Hs Hk. cbn [Conc.safe] in *. intros g [a w] tr (Hi & Hh & Hw) Hv.
    unfold view2 in Hv. cbn [fst snd] in *. injection Hv as Hv Hwt.
    destruct (Hs g a tr Hi Hv) as (a' & H1 & H2 & H3).
    exists (a', w). split; [split; [exact H1|split]|split].
    - apply Hist_app_ben; auto. intros e' [<-|[]]. exact Hb.
    - intros t' Ht'. cbn [snd] in Ht'. apply at_load_app_other; [apply Hw; exact Ht'|intros ->; congruence].
    - intros t' Hne. unfold view2. cbn [fst snd]. rewrite (H2 t' Hne). reflexivity.
    - unfold view2. cbn [fst snd]. rewrite Hwt. apply Hk. exact H3.
  Qed.

  (** ** empty() *)
  Lemma nonidle_open' a tr t : InvT own0 N a tr -> ph a t <> Idle -> opens t tr <> 0.
  Proof. intros (_ & _ & T3) Hp. rewrite T3. destruct (ph a t); cbn; try lia. congruence. Qed.

  (** m_Head = nullptr: every existing node that nobody holds is in the hands of an in-flight put / get *)
  Lemma good_of_inv g a tr : Inv1 g a tr -> head g = O -> Good tr.
  Proof.
    intros [HS HT] Hh. pose proof HT as (T1 & T2 & T3). exists (own a). split; [exact T1|].
    assert (Hl : lst a = []).
    { pose proof (S_chain HS) as Hc. destruct (lst a) as [|m r]; [reflexivity|]. cbn in Hc. destruct Hc as (E & Hm & _). congruence. }
    intros n Hv Ho. pose proof (S_st HS n) as Hst. unfold st_ok in Hst.
    destruct (st a n) as [|t|t| | |t|t] eqn:Es.
    - apply (S_valid HS) in Es. congruence.
    - exists t. destruct Hst as [Hst|[Hst|Hst]].
      + assert (Hlt : (t < N)%nat).
        { destruct (Nat.lt_ge_cases t N) as [Hl'|Hl']; [exact Hl'|]. rewrite (proj2 (S_out HS t Hl')) in Hst. contradiction. }
        assert (E : own a n = Some t) by (apply T2; split; assumption). congruence.
      + eapply nonidle_open'; eauto. congruence.
      + eapply nonidle_open'; eauto. congruence.
    - exists t. eapply nonidle_open'; eauto. congruence.
    - apply (S_lin HS) in Es. rewrite Hl in Es. contradiction.
    - destruct (count_pos_ex _ _ Hst) as (t & Ht & Hf). exists t. eapply nonidle_open'; eauto.
      intros E. rewrite E in Hf. discriminate.
    - exists t. destruct Hst as [_ [Hst|[h Hst]]]; eapply nonidle_open'; eauto; congruence.
    - exists t. destruct Hst as [[h Hst]|Hst]; eapply nonidle_open'; eauto; congruence.
  Qed.

  Lemma spec_emit_idle t H e : (t < N)%nat -> (forall o, mon_ev o t e = Some o) -> ev_open e = 0 ->
    safe1 t (Emit [e] (Ret tt)) (H, Idle) (fun _ l' => l' = (H, Idle)).
  Proof.
    intros Ht Hm Ho. apply (rule_emit_plain N valid0 Hv0 own0 N (le_n N) t H Idle Idle);
      [exact Ht|reflexivity|reflexivity|exact Hm|cbn [is_idle]; rewrite Ho; reflexivity|cbn; reflexivity].
  Qed.

  Lemma rule_ret_empty_true t H R (k : prog R) Q : (t < N)%nat ->
    safe2 t k ((H, Idle), false) Q -> safe2 t (Emit [ev_ret_empty1] k) ((H, Idle), true) Q.
  Proof.
    intros Ht Hk. cbn [Conc.safe]. intros g [a w] tr (Hi & Hh & Hw) Hv.
    unfold view2 in Hv. cbn [fst snd] in *. injection Hv as Hv1 Hv2 Hwt.
    assert (Hv : view a t = (H, Idle)) by (unfold view; congruence).
    assert (Hs : safe1 t (Emit [ev_ret_empty1] (Ret tt)) (H, Idle) (fun _ l' => l' = (H, Idle))).
    { apply spec_emit_idle; auto. }
    cbn [Conc.safe] in Hs.
    destruct (Hs g a tr Hi Hv) as (a' & H1 & H2 & H3).
    exists (a', upd w t false). split; [split; [exact H1|split]|split].
    - apply Hist_app_ret; auto.
    - intros t' Ht'. cbn [snd] in Ht'. destruct (Nat.eq_dec t' t) as [->|Hne]; [rewrite upd_same in Ht'; discriminate|].
      rewrite upd_other in Ht' by exact Hne. apply at_load_app_other; [apply Hw; exact Ht'|congruence].
    - intros t' Hne. unfold view2. cbn [fst snd]. rewrite (H2 t' Hne), upd_other by exact Hne. reflexivity.
    - unfold view2. cbn [fst snd]. rewrite upd_same, H3. exact Hk.
  Qed.

  Lemma rule_empty t H R (k : prog R) Q : (t < N)%nat ->
    safe2 t k ((H, Idle), false) Q ->
    safe2 t (Emit [EvCli "inv_empty" []]
               (Act a_ld_head (fun v => Emit [EvCli "ret_empty" [b2z (Nat.eqb (vnode v) 0)]] k))) ((H, Idle), false) Q.
  Proof.
    intros Ht Hk. apply (emit2 t _ (H, Idle) (fun l' => l' = (H, Idle))).
    - unfold ben, ev_ret_empty1. discriminate.
    - apply spec_emit_idle; auto.
    - intros l' ->. cbn [Conc.safe]. intros g [a w] tr (Hi & Hh & Hw) Hv.
      unfold view2 in Hv. cbn [fst snd] in *. injection Hv as Hv1 Hv2 Hwt.
      assert (Hv : view a t = (H, Idle)) by (unfold view; congruence).
      unfold a_ld_head. cbn [fst snd vnode].
      assert (Hi' : Inv1 g a (tr ++ Conc.tag t [ev_ld_head])).
      { destruct Hi as [HS HT]. split; [exact HS|]. eapply InvT_acc; eauto. }
      assert (Hh' : Hist (tr ++ Conc.tag t [ev_ld_head])).
      { apply Hist_app_ben; auto. intros e [<-|[]]. unfold ben, ev_ret_empty1, ev_ld_head. discriminate. }
      destruct (Nat.eqb_spec (head g) 0) as [E|E]; cbn [b2z].
      + exists (a, upd w t true). split; [split; [exact Hi'|split; [exact Hh'|]]|split].
        * intros t' Ht'. cbn [snd] in Ht'. destruct (Nat.eq_dec t' t) as [->|Hne].
          -- exists tr, []. split; [reflexivity|split; [intros e []|]]. eapply good_of_inv; eauto.
          -- rewrite upd_other in Ht' by exact Hne. apply at_load_app_other; [apply Hw; exact Ht'|congruence].
        * intros t' Hne. unfold view2. cbn [fst snd]. rewrite upd_other by exact Hne. reflexivity.
        * unfold view2. cbn [fst snd]. rewrite upd_same, Hv. apply rule_ret_empty_true; assumption.
      + exists (a, w). split; [split; [exact Hi'|split; [exact Hh'|]]|split].
        * intros t' Ht'. cbn [snd] in Ht'. apply at_load_app_other; [apply Hw; exact Ht'|intros ->; congruence].
        * intros t' Hne. reflexivity.
        * unfold view2. cbn [fst snd]. rewrite Hwt, Hv.
          apply (emit2 t _ (H, Idle) (fun l' => l' = (H, Idle))).
          -- unfold ben, ev_ret_empty1. discriminate.
          -- apply spec_emit_idle; auto.
          -- intros l' ->. exact Hk.
  Qed.

  (** ** the client programs *)
  Lemma safe2_begin t l R (k : V -> prog R) Q :
    (forall v, safe2 t (k v) (l, false) Q) -> safe2 t (Act a_begin k) (l, false) Q.
  Proof.
    intros Hk. cbn [Conc.safe]. intros g [a w] tr (Hi & Hh & Hw) Hv.
    unfold view2 in Hv. cbn [fst snd] in *. injection Hv as Hv Hwt. unfold a_begin. cbn [fst snd].
    exists (a, w). split; [split; [|split]|split].
    - destruct Hi as [HS HT]. split; [exact HS|]. eapply InvT_acc; eauto.
    - apply Hist_app_ben; auto. intros e [<-|[]]. unfold ben, ev_ret_empty1. discriminate.
    - intros t' Ht'. cbn [snd] in Ht'. apply at_load_app_other; [apply Hw; exact Ht'|intros ->; congruence].
    - intros t' Hne. reflexivity.
    - unfold view2. cbn [fst snd]. rewrite Hwt, Hv. apply Hk.
  Qed.

  Ltac ben1 := unfold ben, ev_ret_empty1, zn; discriminate.

  Lemma safe2_run_ops2 fuel t : (t < N)%nat -> forall os H,
    safe2 t (run_ops2 fuel os H) ((H, Idle), false) (@Conc.QTrue _).
  Proof.
    intros Ht. induction os as [|o r IH]; intros H; cbn [run_ops2]; [exact I|].
    destruct o as [|i|].
    - apply (emit2 t _ (H, Idle) (fun l' => l' = (H, Busy))); [ben1| |].
      { apply (rule_emit_inv_get N valid0 Hv0 own0 N (le_n N)); [exact Ht|]. cbn. reflexivity. }
      intros l' ->. apply Conc.safe_bind.
      eapply Conc.safe_weaken; [|apply lift; [apply benp_get|apply (safe_get N HN valid0 Hv0 own0 N (le_n N))]].
      intros res [l w] [Hl Hwf]. cbn [fst snd] in Hl, Hwf. subst w. destruct res as [[|n]|]; cbn in Hl.
      + subst l. apply (emit2 t _ (H, Busy) (fun l' => l' = (H, Idle))); [ben1| |].
        { apply (rule_emit_ret_null N valid0 Hv0 own0 N (le_n N)); [exact Ht|]. cbn. reflexivity. }
        intros l' ->. apply IH.
      + subst l. apply (emit2 t _ (H, PRet (S n)) (fun l' => l' = ((H ++ [S n])%list, Idle))); [ben1| |].
        { apply (rule_emit_ret_get N valid0 own0 N (le_n N)); [exact Ht|]. cbn. reflexivity. }
        intros l' ->. apply IH.
      + apply (emit2 t _ l (fun _ => True)); [ben1| |].
        { apply (rule_emit_oof N valid0 own0 N (le_n N)). }
        intros l' _. exact I.
    - destruct (nth_error H i) as [n|] eqn:Hi.
      + apply (emit2 t _ (H, Idle) (fun l' => l' = (remove_nth i H, PPut n))); [ben1| |].
        { eapply (rule_emit_inv_put N valid0 own0 N (le_n N)); [exact Ht|exact Ht|exact Hi|]. cbn. reflexivity. }
        intros l' ->. apply Conc.safe_bind.
        eapply Conc.safe_weaken; [|apply lift; [apply benp_put|apply (safe_put N HN valid0 Hv0 own0 N (le_n N))]].
        intros ok [l w] [Hl Hwf]. cbn [fst snd] in Hl, Hwf. subst w. destruct ok.
        * rewrite (Hl eq_refl). apply (emit2 t _ (remove_nth i H, Busy) (fun l' => l' = (remove_nth i H, Idle))); [ben1| |].
          { apply (rule_emit_ret_put N valid0 Hv0 own0 N (le_n N)); [exact Ht|]. cbn. reflexivity. }
          intros l' ->. apply IH.
        * apply (emit2 t _ l (fun _ => True)); [ben1| |].
          { apply (rule_emit_oof N valid0 own0 N (le_n N)). }
          intros l' _. exact I.
      + apply (emit2 t _ (H, Idle) (fun l' => l' = (H, Idle))); [ben1| |].
        { apply (rule_emit_skip N valid0 Hv0 own0 N (le_n N)); [exact Ht|]. cbn. reflexivity. }
        intros l' ->. apply IH.
    - apply rule_empty; [exact Ht|]. apply IH.
  Qed.

  Lemma safe2_thread fuel t os H : (t < N)%nat ->
    safe2 t (thread_prog2 fuel os H) ((H, Idle), false) (@Conc.QTrue _).
  Proof. intros Ht. unfold thread_prog2. apply safe2_begin. intros _. apply safe2_run_ops2. exact Ht. Qed.
End Clear.
