(** * C26_Counter — the closed form of cds::bitop::bit_reverse_counter<size_t>.

    Everything here is about the definitions of [LV.Gen.Gen_brc], GENERATED from
    cds/details/bit_reverse_counter.h (inc, dec) and cds/algo/bitop.h + cds/details/bitop_generic.h
    (complement) by tools/cxx2v (unit list tools/cxx2v/units_C26.json).

    Closed form: the state after [n] net increments is [st n]:
      st 0 = {counter = 0; reversed = 0; high_bit = -1}
      st n = {counter = n; reversed = 2^h + rev h (n - 2^h); high_bit = h}   with h = floor(log2 n), n >= 1
    ([rev] is the reference bit reversal of C25_Bits), and
      inc (st n)     = (slot_of (n+1), st (n+1))     for 0 <= n < 2^64 - 1
      dec (st (n+1)) = (slot_of (n+1), st n)         for 0 <= n < 2^64 - 1
    for every fuel >= 64 (the loops run at most high_bit+1 <= 64 iterations).                          *)

Require Import ZArith Lia Bool List.
Require Import LV.Base.CInt LV.Proofs.C25_Bits.
Require Import LV.Gen.Gen_brc.
Import ListNotations.
Local Open Scope Z_scope.

(** ** Arithmetic on bits *)

Lemma pow2_succ k : 0 <= k -> 2 ^ (k + 1) = 2 * 2 ^ k.
Proof. intros. rewrite Z.pow_add_r by lia. lia. Qed.

Lemma pow2_le_mono a b : 0 <= a <= b -> 2 ^ a <= 2 ^ b.
Proof. intros. apply Z.pow_le_mono_r; lia. Qed.

Lemma pow2_lt_mono a b : 0 <= a < b -> 2 ^ a < 2 ^ b.
Proof. intros. apply Z.pow_lt_mono_r; lia. Qed.

(** Bits of [hi * 2^k + low] with [low < 2^k]. *)
Lemma testbit_split hi low k i :
  0 <= k -> 0 <= low < 2 ^ k -> 0 <= i ->
  Z.testbit (hi * 2 ^ k + low) i = if i <? k then Z.testbit low i else Z.testbit hi (i - k).
Proof.
  intros Hk Hl Hi. assert (0 < 2 ^ k) by (apply pow2_pos; lia).
  destruct (Z.ltb_spec i k).
  - rewrite <- (Z.mod_pow2_bits_low (hi * 2 ^ k + low) k i) by lia.
    f_equal. rewrite Z.add_comm, Z.mod_add by lia. apply Z.mod_small; lia.
  - replace i with ((i - k) + k) at 1 by lia.
    rewrite <- Z.div_pow2_bits by lia. f_equal.
    rewrite Z.div_add_l by lia. rewrite Z.div_small by lia. lia.
Qed.

Lemma testbit_pow2 k i : 0 <= k -> 0 <= i -> Z.testbit (2 ^ k) i = (i =? k).
Proof.
  intros. rewrite Z.pow2_bits_eqb by lia. apply Z.eqb_sym.
Qed.

Lemma land_pow2 v k : 0 <= k -> Z.land v (2 ^ k) = if Z.testbit v k then 2 ^ k else 0.
Proof.
  intros Hk. apply Z.bits_inj'. intros i Hi. rewrite Z.land_spec, testbit_pow2 by lia.
  destruct (Z.eqb_spec i k) as [->|Hne].
  - rewrite andb_true_r. destruct (Z.testbit v k) eqn:E.
    + rewrite testbit_pow2 by lia. symmetry. apply Z.eqb_refl.
    + now rewrite Z.bits_0.
  - rewrite andb_false_r. destruct (Z.testbit v k).
    + rewrite testbit_pow2 by lia. symmetry. apply Z.eqb_neq. exact Hne.
    + now rewrite Z.bits_0.
Qed.

Lemma lxor_pow2_clear v k : 0 <= k -> Z.testbit v k = false -> Z.lxor v (2 ^ k) = v + 2 ^ k.
Proof.
  intros Hk Hb. symmetry. apply Z.add_nocarry_lxor. rewrite land_pow2, Hb by lia. reflexivity.
Qed.

Lemma lxor_pow2_set v k : 0 <= k -> Z.testbit v k = true -> Z.lxor v (2 ^ k) = v - 2 ^ k.
Proof.
  intros Hk Hb.
  assert (Hc : Z.testbit (Z.lxor v (2 ^ k)) k = false).
  { rewrite Z.lxor_spec, Hb, testbit_pow2, Z.eqb_refl by lia. reflexivity. }
  pose proof (lxor_pow2_clear _ _ Hk Hc) as H.
  rewrite Z.lxor_assoc, Z.lxor_nilpotent, Z.lxor_0_r in H. lia.
Qed.

(** ** The generated [complement] chain: flips bit [k], returns whether it was set *)

Lemma complement_u64_spec r k :
  0 <= r < 2 ^ 64 -> 0 <= k < 64 ->
  complement_u64 r k = Some (Z.testbit r k, if Z.testbit r k then r - 2 ^ k else r + 2 ^ k).
Proof.
  intros Hr Hk.
  unfold complement_u64, BitOps8_complement, complement64.
  assert (Hcast : cast u32 k = k).
  { unfold cast, wrap; cbn [isigned u32 ibits]. apply Z.mod_small. change (2 ^ 32) with 4294967296. lia. }
  rewrite Hcast.
  assert (Hshl : c_shl u64 1 k = Some (2 ^ k)).
  { rewrite c_shl_u_ok; [|reflexivity|apply shift_ok_spec; cbn; lia].
    rewrite Z.shiftl_1_l. cbn [ibits u64]. f_equal. apply Z.mod_small.
    split; [apply Z.lt_le_incl, pow2_pos; lia | apply pow2_lt_mono; lia]. }
  rewrite Hshl. cbn [obind]. unfold c_and, c_xor, c_ne.
  rewrite land_pow2 by lia.
  assert (0 < 2 ^ k) by (apply pow2_pos; lia).
  destruct (Z.testbit r k) eqn:E.
  - rewrite lxor_pow2_set by (lia || assumption).
    replace (2 ^ k =? 0) with false by (symmetry; apply Z.eqb_neq; lia). reflexivity.
  - rewrite lxor_pow2_clear by (lia || assumption). reflexivity.
Qed.

(** ** Facts about the reference reversal *)

Lemma rev_0_l x : rev 0 x = 0.
Proof. pose proof (rev_range 0 x). change (2 ^ 0) with 1 in H. lia. Qed.

Lemma rev_0_r w : 0 <= w -> rev w 0 = 0.
Proof.
  intros Hw. symmetry. apply rev_unique; [lia| |].
  - split; [lia | apply pow2_pos; lia].
  - intros i Hi. now rewrite !Z.bits_0.
Qed.

Lemma ones_bits w i : 0 <= w -> 0 <= i -> Z.testbit (2 ^ w - 1) i = (i <? w).
Proof.
  intros Hw Hi. replace (2 ^ w - 1) with (Z.ones w) by (rewrite Z.ones_equiv; lia).
  destruct (Z.ltb_spec i w).
  - apply Z.ones_spec_low; lia.
  - apply Z.ones_spec_high; lia.
Qed.

Lemma rev_ones w : 0 <= w -> rev w (2 ^ w - 1) = 2 ^ w - 1.
Proof.
  intros Hw. symmetry. assert (0 < 2 ^ w) by (apply pow2_pos; lia).
  apply rev_unique; [lia|lia|].
  intros i Hi. rewrite !ones_bits by lia.
  destruct (Z.ltb_spec i w), (Z.ltb_spec (w - 1 - i) w); try lia; reflexivity.
Qed.

(** One step of the recursion defining [rev]: the low bit of [x] becomes the top bit. *)
Lemma rev_succ k x : 0 <= k -> 0 <= x -> rev (k + 1) x = (x mod 2) * 2 ^ k + rev k (x / 2).
Proof.
  intros Hk Hx. symmetry.
  pose proof (rev_range k (x / 2) Hk) as Hr.
  pose proof (Z.mod_pos_bound x 2 ltac:(lia)) as Hm.
  assert (0 < 2 ^ k) by (apply pow2_pos; lia).
  apply rev_unique; [lia| |].
  - rewrite pow2_succ by lia. nia.
  - intros i Hi. rewrite testbit_split by lia.
    destruct (Z.ltb_spec i k).
    + rewrite rev_spec by lia.
      replace (k + 1 - 1 - i) with ((k - 1 - i) + 1) by lia.
      rewrite <- (Z.div_pow2_bits x 1) by lia. reflexivity.
    + replace i with k by lia. rewrite Z.sub_diag.
      replace (k + 1 - 1 - k) with 0 by lia.
      change 2 with (2 ^ 1) at 1. apply Z.mod_pow2_bits_low. lia.
Qed.

(** Bit [k] of [B + rev (k+1) x], where [B] is a multiple of [2^(k+1)], is the low bit of [x]. *)
Lemma top_bit m k x :
  0 <= k -> 0 <= x ->
  Z.testbit (m * 2 ^ (k + 1) + rev (k + 1) x) k = Z.odd x.
Proof.
  intros Hk Hx. rewrite rev_succ by lia.
  pose proof (rev_range k (x / 2) Hk) as Hr.
  replace (m * 2 ^ (k + 1) + (x mod 2 * 2 ^ k + rev k (x / 2)))
    with ((2 * m + x mod 2) * 2 ^ k + rev k (x / 2)) by (rewrite pow2_succ by lia; ring).
  rewrite testbit_split by lia. rewrite Z.ltb_irrefl, Z.sub_diag, Z.bit0_odd.
  rewrite Z.add_comm, Z.odd_add_mul_2. rewrite Zmod_odd. destruct (Z.odd x); reflexivity.
Qed.

Lemma odd_mod2 x : x mod 2 = if Z.odd x then 1 else 0.
Proof. apply Zmod_odd. Qed.

Lemma odd_div2 x : x = 2 * (x / 2) + (if Z.odd x then 1 else 0).
Proof. rewrite <- odd_mod2. apply Z.div_mod. lia. Qed.

(** ** The loops *)

(** Small robustness layer: comparisons of the generated code ([c_ge], [c_gt], ...) are decided by [lia] wherever
    it can, and checked operations on literals ([-1] is [sneg i32 1] in the AST) are evaluated, so that harmless
    rewrites of the C++ ([nBit > -1] for [nBit >= 0]) stay within reach of the proofs. *)
Ltac cmp_lia :=
  unfold c_ge, c_gt, c_le, c_lt;
  repeat match goal with
  | |- context [?a <=? ?b] =>
      first [ replace (a <=? b) with true by (symmetry; apply Z.leb_le; lia)
            | replace (a <=? b) with false by (symmetry; apply Z.leb_gt; lia) ]
  | |- context [?a <? ?b] =>
      first [ replace (a <? b) with true by (symmetry; apply Z.ltb_lt; lia)
            | replace (a <? b) with false by (symmetry; apply Z.ltb_ge; lia) ]
  end.

Ltac closed_ops :=
  repeat match goal with
  | |- context [sneg ?t ?c] => is_Zlit c; let v := eval vm_compute in (sneg t c) in change (sneg t c) with v
  | |- context [ssub ?t ?a ?c] => is_Zlit a; is_Zlit c; let v := eval vm_compute in (ssub t a c) in change (ssub t a c) with v
  | |- context [sadd ?t ?a ?c] => is_Zlit a; is_Zlit c; let v := eval vm_compute in (sadd t a c) in change (sadd t a c) with v
  end;
  cbn [obind].

(** [inc]: reverse increment of the [j] bits below the base [B] (a multiple of [2^j]). *)
Lemma inc_loop_spec (j : nat) : forall (fuel : nat) m x,
  (j < fuel)%nat -> (j <= 64)%nat -> 0 <= m -> (m + 1) * 2 ^ Z.of_nat j <= 2 ^ 64 -> 0 <= x < 2 ^ Z.of_nat j ->
  exists nb, brc_inc_loop1 fuel (m * 2 ^ Z.of_nat j + rev (Z.of_nat j) x) (Z.of_nat j - 1)
             = Some (if x + 1 <? 2 ^ Z.of_nat j then m * 2 ^ Z.of_nat j + rev (Z.of_nat j) (x + 1) else m * 2 ^ Z.of_nat j, nb)
          /\ (if x + 1 <? 2 ^ Z.of_nat j then 0 <= nb else nb = -1).
Proof.
  induction j as [|k IH]; intros fuel m x Hf Hj Hm HB Hx.
  - destruct fuel as [|fuel]; [lia|]. cbn [Z.of_nat] in *. change (2 ^ 0) with 1 in *.
    assert (x = 0) as -> by lia. exists (-1). cbn [brc_inc_loop1]. closed_ops. cmp_lia.
    rewrite rev_0_l. split; [do 2 f_equal; lia | reflexivity].
  - destruct fuel as [|fuel]; [lia|].
    rewrite Nat2Z.inj_succ, <- Z.add_1_r in *. set (K := Z.of_nat k) in *.
    assert (HK : 0 <= K < 64) by lia.
    assert (Hp : 0 < 2 ^ K) by (apply pow2_pos; lia).
    pose proof (pow2_succ K ltac:(lia)) as Hs.
    pose proof (rev_range (K + 1) x ltac:(lia)) as Hr.
    replace (K + 1 - 1) with K by lia.
    cbn [brc_inc_loop1]. closed_ops. cmp_lia.
    assert (HR : 0 <= m * 2 ^ (K + 1) + rev (K + 1) x < 2 ^ 64).
    { assert (0 <= m * 2 ^ (K + 1)) by (apply Z.mul_nonneg_nonneg; lia).
      rewrite Z.mul_add_distr_r in HB. lia. }
    rewrite complement_u64_spec; [|exact HR|exact HK].
    cbn [obind]. rewrite top_bit by lia.
    pose proof (odd_div2 x) as Hx2.
    destruct (Z.odd x) eqn:Hodd; cbn [negb].
    + (* low bit of x set: bit K of reversed was 1, now 0; continue with x/2 on K bits *)
      assert (Hsub : ssub i32 K 1 = Some (K - 1)).
      { apply checked_some. unfold in_range, imin, imax; cbn. lia. }
      rewrite Hsub. cbn [obind].
      assert (Hre : m * 2 ^ (K + 1) + rev (K + 1) x - 2 ^ K = (2 * m) * 2 ^ K + rev K (x / 2)).
      { rewrite rev_succ, odd_mod2, Hodd by lia. rewrite Hs. ring. }
      rewrite Hre.
      assert (HB2 : (2 * m + 1) * 2 ^ K <= 2 ^ 64).
      { replace ((2 * m + 1) * 2 ^ K) with ((m + 1) * (2 * 2 ^ K) - 2 ^ K) by ring. rewrite <- Hs. lia. }
      assert (Hx22 : 0 <= x / 2 < 2 ^ K) by (destruct (Z.odd x); lia).
      destruct (IH fuel (2 * m) (x / 2)) as [nb [He Hnb]]; try lia.
      exists nb. rewrite He.
      destruct (Z.ltb_spec (x / 2 + 1) (2 ^ K)); destruct (Z.ltb_spec (x + 1) (2 ^ (K + 1))); try lia.
      * split; [|exact Hnb]. do 2 f_equal.
        rewrite (rev_succ K (x + 1)) by lia.
        replace ((x + 1) mod 2) with 0 by (rewrite odd_mod2, Z.odd_add, Hodd; reflexivity).
        replace ((x + 1) / 2) with (x / 2 + 1).
        { rewrite Hs. ring. }
        { apply Z.div_unique with 0; lia. }
      * split; [|exact Hnb]. do 2 f_equal. rewrite Hs. ring.
    + (* low bit of x clear: bit K of reversed was 0, now 1; stop *)
      exists K. destruct (Z.ltb_spec (x + 1) (2 ^ (K + 1))); [|lia].
      split; [|lia]. do 2 f_equal.
      rewrite (rev_succ K (x + 1)), (rev_succ K x) by lia.
      rewrite !odd_mod2, Z.odd_add, Hodd. cbn [xorb Z.odd].
      replace ((x + 1) / 2) with (x / 2) by (apply Z.div_unique with 1; lia).
      ring.
Qed.

(** [dec]: reverse decrement of the [j] bits below the base [B]. *)
Lemma dec_loop_spec (j : nat) : forall (fuel : nat) m x,
  (j < fuel)%nat -> (j <= 64)%nat -> 0 <= m -> (m + 1) * 2 ^ Z.of_nat j <= 2 ^ 64 -> 0 <= x < 2 ^ Z.of_nat j ->
  exists nb, brc_dec_loop1 fuel (m * 2 ^ Z.of_nat j + rev (Z.of_nat j) x) (Z.of_nat j - 1)
             = Some (if 0 <? x then m * 2 ^ Z.of_nat j + rev (Z.of_nat j) (x - 1) else (m + 1) * 2 ^ Z.of_nat j - 1, nb)
          /\ (if 0 <? x then 0 <= nb else nb = -1).
Proof.
  induction j as [|k IH]; intros fuel m x Hf Hj Hm HB Hx.
  - destruct fuel as [|fuel]; [lia|]. cbn [Z.of_nat] in *. change (2 ^ 0) with 1 in *.
    assert (x = 0) as -> by lia. exists (-1). cbn [brc_dec_loop1]. closed_ops. cmp_lia.
    rewrite rev_0_l. split; [do 2 f_equal; lia | reflexivity].
  - destruct fuel as [|fuel]; [lia|].
    rewrite Nat2Z.inj_succ, <- Z.add_1_r in *. set (K := Z.of_nat k) in *.
    assert (HK : 0 <= K < 64) by lia.
    assert (Hp : 0 < 2 ^ K) by (apply pow2_pos; lia).
    pose proof (pow2_succ K ltac:(lia)) as Hs.
    pose proof (rev_range (K + 1) x ltac:(lia)) as Hr.
    replace (K + 1 - 1) with K by lia.
    cbn [brc_dec_loop1]. closed_ops. cmp_lia.
    assert (HR : 0 <= m * 2 ^ (K + 1) + rev (K + 1) x < 2 ^ 64).
    { assert (0 <= m * 2 ^ (K + 1)) by (apply Z.mul_nonneg_nonneg; lia).
      rewrite Z.mul_add_distr_r in HB. lia. }
    rewrite complement_u64_spec; [|exact HR|exact HK].
    cbn [obind]. rewrite top_bit by lia.
    pose proof (odd_div2 x) as Hx2.
    destruct (Z.odd x) eqn:Hodd.
    + (* low bit of x set: bit K of reversed was 1, now 0; stop *)
      exists K. destruct (Z.ltb_spec 0 x); [|lia].
      split; [|lia]. do 2 f_equal.
      rewrite (rev_succ K (x - 1)), (rev_succ K x) by lia.
      rewrite !odd_mod2, Z.odd_sub, Hodd. cbn [xorb Z.odd].
      replace ((x - 1) / 2) with (x / 2) by (apply Z.div_unique with 0; lia).
      ring.
    + (* low bit of x clear: bit K was 0, now 1; continue with x/2 on K bits above base B + 2^K *)
      assert (Hsub : ssub i32 K 1 = Some (K - 1)).
      { apply checked_some. unfold in_range, imin, imax; cbn. lia. }
      rewrite Hsub. cbn [obind].
      assert (Hre : m * 2 ^ (K + 1) + rev (K + 1) x + 2 ^ K = (2 * m + 1) * 2 ^ K + rev K (x / 2)).
      { rewrite rev_succ, odd_mod2, Hodd by lia. rewrite Hs. ring. }
      rewrite Hre.
      assert (HB2 : (2 * m + 1 + 1) * 2 ^ K <= 2 ^ 64).
      { replace ((2 * m + 1 + 1) * 2 ^ K) with ((m + 1) * (2 * 2 ^ K)) by ring. rewrite <- Hs. lia. }
      assert (Hx22 : 0 <= x / 2 < 2 ^ K) by (destruct (Z.odd x); lia).
      destruct (IH fuel (2 * m + 1) (x / 2)) as [nb [He Hnb]]; try lia.
      exists nb. rewrite He.
      destruct (Z.ltb_spec 0 (x / 2)); destruct (Z.ltb_spec 0 x); try lia.
      * split; [|exact Hnb]. do 2 f_equal.
        rewrite (rev_succ K (x - 1)) by lia.
        replace ((x - 1) mod 2) with 1 by (rewrite odd_mod2, Z.odd_sub, Hodd; reflexivity).
        replace ((x - 1) / 2) with (x / 2 - 1).
        { rewrite Hs. ring. }
        { apply Z.div_unique with 1; lia. }
      * split; [|exact Hnb]. do 2 f_equal. rewrite Hs. ring.
Qed.

(** ** Closed form of the state *)

Definition brc_init : brc := mk_brc 0 0 (-1).

(** Slot produced by the [n]-th net increment ([n >= 1]). *)
Definition slot_of (n : Z) : Z := 2 ^ Z.log2 n + rev (Z.log2 n) (n - 2 ^ Z.log2 n).

Definition st (n : Z) : brc := if n =? 0 then brc_init else mk_brc n (slot_of n) (Z.log2 n).

(** The largest value of the 64-bit counter; [inc] is only meaningful below it ([++m_nCounter] would wrap). *)
Definition brc_max : Z := 2 ^ 64 - 1.

Lemma log2_bounds n : 1 <= n -> 0 <= Z.log2 n /\ 2 ^ Z.log2 n <= n < 2 * 2 ^ Z.log2 n.
Proof.
  intros Hn. pose proof (Z.log2_nonneg n). pose proof (Z.log2_spec n ltac:(lia)) as Hs.
  rewrite <- Z.add_1_r, pow2_succ in Hs by lia. lia.
Qed.

Lemma log2_lt64 n : 1 <= n < 2 ^ 64 -> Z.log2 n < 64.
Proof. intros Hn. apply Z.log2_lt_pow2; lia. Qed.

Lemma log2_unique' n h : 0 <= h -> 2 ^ h <= n < 2 * 2 ^ h -> Z.log2 n = h.
Proof.
  intros Hh Hn. apply Z.log2_unique; [lia|]. rewrite <- Z.add_1_r, pow2_succ by lia. lia.
Qed.

Lemma slot_of_1 : slot_of 1 = 1.
Proof. unfold slot_of. change (Z.log2 1) with 0. rewrite rev_0_l. reflexivity. Qed.

Lemma slot_of_level n : 1 <= n -> 2 ^ Z.log2 n <= slot_of n < 2 * 2 ^ Z.log2 n.
Proof.
  intros Hn. destruct (log2_bounds n Hn) as [Hh Hb].
  pose proof (rev_range (Z.log2 n) (n - 2 ^ Z.log2 n) Hh). unfold slot_of. lia.
Qed.

Lemma slot_of_log2 n : 1 <= n -> Z.log2 (slot_of n) = Z.log2 n.
Proof.
  intros Hn. apply log2_unique'; [apply Z.log2_nonneg | apply slot_of_level, Hn].
Qed.

Lemma slot_of_involutive n : 1 <= n -> slot_of (slot_of n) = n.
Proof.
  intros Hn. destruct (log2_bounds n Hn) as [Hh Hb].
  unfold slot_of at 1. rewrite slot_of_log2 by lia. unfold slot_of.
  replace (2 ^ Z.log2 n + rev (Z.log2 n) (n - 2 ^ Z.log2 n) - 2 ^ Z.log2 n) with (rev (Z.log2 n) (n - 2 ^ Z.log2 n)) by lia.
  rewrite rev_involutive by lia. lia.
Qed.

Lemma i32_small z : -2 <= z <= 65 -> in_range i32 z.
Proof. unfold in_range, imin, imax; cbn. lia. Qed.

Theorem inc_st (fuel : nat) n :
  (64 <= fuel)%nat -> 0 <= n < brc_max ->
  brc_inc fuel (st n) = Some (slot_of (n + 1), st (n + 1)).
Proof.
  unfold brc_max. intros Hf Hn. unfold st at 1.
  replace (n + 1 =? 0) with false by (symmetry; apply Z.eqb_neq; lia).
  destruct (Z.eqb_spec n 0) as [->|Hn0].
  - (* empty counter *)
    destruct fuel as [|fuel]; [lia|].
    transitivity (Some (1, mk_brc 1 1 0)); [reflexivity|]. change (0 + 1) with 1.
    unfold st. change (1 =? 0) with false. cbv iota. rewrite slot_of_1. reflexivity.
  - destruct (log2_bounds n ltac:(lia)) as [Hh Hb]. pose proof (log2_lt64 n ltac:(lia)) as Hh64.
    set (h := Z.log2 n) in *.
    assert (Hp : 0 < 2 ^ h) by (apply pow2_pos; lia).
    unfold brc_inc. cbn [brc_m_nCounter brc_m_nReversed brc_m_nHighBit].
    assert (Hc : uadd u64 n 1 = n + 1) by (unfold uadd; cbn [ibits u64]; apply Z.mod_small; lia).
    rewrite Hc.
    assert (Hs1 : ssub i32 h 1 = Some (h - 1)) by (apply checked_some, i32_small; lia).
    rewrite Hs1. cbn [obind].
    destruct (inc_loop_spec (Z.to_nat h) fuel 1 (n - 2 ^ h)) as [nb [He Hnb]]; try lia.
    { rewrite Z2Nat.id by lia. assert (2 ^ (h + 1) <= 2 ^ 64) by (apply pow2_le_mono; lia).
      rewrite pow2_succ in H by lia. lia. }
    { rewrite Z2Nat.id by lia. lia. }
    rewrite Z2Nat.id in He, Hnb by lia. rewrite Z.mul_1_l in He.
    unfold slot_of at 1. fold h. rewrite He. cbn [obind].
    destruct (Z.ltb_spec (n - 2 ^ h + 1) (2 ^ h)) as [Hlt|Hge].
    + (* same level *)
      cmp_lia. cbn [obind].
      assert (Hl : Z.log2 (n + 1) = h) by (apply log2_unique'; lia).
      unfold st. replace (n + 1 =? 0) with false by (symmetry; apply Z.eqb_neq; lia).
      unfold slot_of. rewrite Hl. replace (n + 1 - 2 ^ h) with (n - 2 ^ h + 1) by lia. reflexivity.
    + (* level complete: n + 1 = 2^(h+1) *)
      subst nb. cmp_lia. cbv iota.
      assert (Hs2 : sadd i32 h 1 = Some (h + 1)) by (apply checked_some, i32_small; lia).
      rewrite Hs2. cbn [obind].
      assert (Hn1 : n + 1 = 2 ^ (h + 1)) by (rewrite pow2_succ by lia; lia).
      assert (Hl : Z.log2 (n + 1) = h + 1) by (rewrite Hn1; apply Z.log2_pow2; lia).
      unfold st. replace (n + 1 =? 0) with false by (symmetry; apply Z.eqb_neq; lia).
      unfold slot_of. rewrite Hl. rewrite <- Hn1, Z.sub_diag, rev_0_r by lia.
      rewrite Z.add_0_r. reflexivity.
Qed.

Theorem dec_st (fuel : nat) n :
  (64 <= fuel)%nat -> 0 <= n < brc_max ->
  brc_dec fuel (st (n + 1)) = Some (slot_of (n + 1), st n).
Proof.
  unfold brc_max. intros Hf Hn. unfold st at 1.
  replace (n + 1 =? 0) with false by (symmetry; apply Z.eqb_neq; lia).
  destruct (log2_bounds (n + 1) ltac:(lia)) as [Hh Hb]. pose proof (log2_lt64 (n + 1) ltac:(lia)) as Hh64.
  set (h := Z.log2 (n + 1)) in *.
  assert (Hp : 0 < 2 ^ h) by (apply pow2_pos; lia).
  unfold brc_dec. cbn [brc_m_nCounter brc_m_nReversed brc_m_nHighBit].
  assert (Hc : usub u64 (n + 1) 1 = n).
  { unfold usub; cbn [ibits u64]. replace (n + 1 - 1) with n by lia. apply Z.mod_small; lia. }
  rewrite Hc.
  assert (Hs1 : ssub i32 h 1 = Some (h - 1)) by (apply checked_some, i32_small; lia).
  rewrite Hs1. cbn [obind].
  destruct (dec_loop_spec (Z.to_nat h) fuel 1 (n + 1 - 2 ^ h)) as [nb [He Hnb]]; try lia.
  { rewrite Z2Nat.id by lia. assert (2 ^ (h + 1) <= 2 ^ 64) by (apply pow2_le_mono; lia).
    rewrite pow2_succ in H by lia. lia. }
  { rewrite Z2Nat.id by lia. lia. }
  rewrite Z2Nat.id in He by lia. rewrite Z.mul_1_l in He.
  unfold slot_of at 1. fold h. rewrite He. cbn [obind].
  destruct (Z.ltb_spec 0 (n + 1 - 2 ^ h)) as [Hlt|Hge].
  - (* same level *)
    cmp_lia. cbn [obind].
    assert (Hl : Z.log2 n = h) by (apply log2_unique'; lia).
    unfold st. replace (n =? 0) with false by (symmetry; apply Z.eqb_neq; lia).
    unfold slot_of. fold h. rewrite Hl. replace (n + 1 - 2 ^ h - 1) with (n - 2 ^ h) by lia. reflexivity.
  - (* level emptied: n + 1 = 2^h *)
    subst nb. cmp_lia. cbv iota.
    cbn [obind].
    assert (Hn1 : n = 2 ^ h - 1) by lia.
    unfold slot_of; fold h.
    unfold st. destruct (Z.eqb_spec n 0) as [Hz|Hnz].
    + (* n = 0, h = 0 *)
      assert (h = 0) as Hh0.
      { destruct (Z.eq_dec h 0); [assumption|]. assert (2 ^ 1 <= 2 ^ h) by (apply pow2_le_mono; lia).
        change (2 ^ 1) with 2 in H. lia. }
      rewrite Hh0, Hz. reflexivity.
    + assert (1 <= h).
      { destruct (Z.eq_dec h 0) as [E|]; [|lia]. rewrite E in Hn1. change (2 ^ 0) with 1 in Hn1. lia. }
      assert (Hpp : 2 ^ h = 2 * 2 ^ (h - 1)).
      { replace h with ((h - 1) + 1) at 1 by lia. apply pow2_succ. lia. }
      assert (0 < 2 ^ (h - 1)) by (apply pow2_pos; lia).
      assert (Hl : Z.log2 n = h - 1) by (apply log2_unique'; lia).
      unfold slot_of. rewrite Hl.
      replace (n - 2 ^ (h - 1)) with (2 ^ (h - 1) - 1) by lia.
      rewrite rev_ones by lia.
      replace (2 ^ (h - 1) + (2 ^ (h - 1) - 1)) with n by lia. reflexivity.
Qed.
