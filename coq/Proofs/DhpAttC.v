(** * DhpAttC: help_scan releases the record it had acquired: thread_id_.store( null ). *)
From Coq Require Import ZArith NArith List String Bool Lia PeanoNat.
From LV Require Import Base.Conc Base.Events Model.DhpLang Model.Dhp Proofs.DhpBase Proofs.DhpHist
  Proofs.DhpLangProofs Proofs.DhpInvA Proofs.DhpStepsA Proofs.DhpQuietA Proofs.DhpSlotA Proofs.DhpScanA Proofs.DhpScanC
  Proofs.DhpPresA Proofs.DhpAllocA Proofs.DhpAllocB Proofs.DhpViewA Proofs.DhpDetB Proofs.DhpDetC Proofs.DhpAttA.
Import ListNotations.

Section AttC.
  Variable c : cfg.

  Lemma tid_lt g r t : r_tid (grec g r) = S t -> r < List.length (recs g).
  Proof.
    intros H. destruct (Nat.lt_ge_cases r (List.length (recs g))); auto. unfold grec in H. rewrite nth_overflow in H by lia. discriminate.
  Qed.

  Lemma JA_help_rel g a h t l r n1 :
    JA c g a h -> views a t = l -> va_help l = Some r -> va_unpub l = None -> hlen h <= n1 ->
    JA c (upd_rec g r (rs_tid 0)) (upd_aux a t (with_help l None) (bown a))
         (mkH n1 (slotv h) (lastw h) (att h) (linked h) (scan h) (freeh h) (flbad h)).
  Proof.
    intros J Hv Hh Hu Hn. pose proof J as [J1 J2 J3 J4 J5 J6 J7 J8 J9 J10 J11 J12 J15 J16 J17 J18 J13 J14].
    set (g' := upd_rec g r (rs_tid 0)). set (a' := upd_aux a t (with_help l None) (bown a)).
    rewrite <- Hv in Hh, Hu. destruct (J7 t r Hh) as (Rtid & Ratt & Rnh). pose proof (tid_lt g r t Rtid) as Rlt.
    assert (Rext : r_ext (grec g r) = None).
    { destruct (J8 r Rlt Ratt) as [X|(t' & X1 & _)]; auto. exfalso. destruct (J6 t' r X1) as (_&_&X&_). rewrite Rtid in X. inversion X; subst t'. contradiction. }
    destruct (recfield_facts c g r (rs_tid 0) Rlt (fun x => conj eq_refl eq_refl)) as (Eo & Es & Lr & Enx & Esl & Rc & Af & Gc).
    fold g' in Eo, Es, Lr, Enx, Esl, Rc, Af, Gc.
    assert (Et : tlist g' = tlist g) by reflexivity. assert (Lgb : gbs g' = gbs g) by reflexivity.
    assert (V : forall t', t' <> t -> views a' t' = views a t') by (intros t' N; unfold a'; now apply upd_aux_other).
    assert (Vs : views a' t = with_help (views a t) None) by (unfold a'; rewrite upd_aux_same, Hv; reflexivity).
    assert (B : bown a' = bown a) by reflexivity.
    assert (F : forall t', va_tls (views a' t') = va_tls (views a t') /\ va_unpub (views a' t') = va_unpub (views a t') /\
                           va_hold (views a' t') = va_hold (views a t') /\
                           va_node (views a' t') = va_node (views a t') /\ va_blk (views a' t') = va_blk (views a t') /\
                           va_e (views a' t') = va_e (views a t') /\ va_limbo (views a' t') = va_limbo (views a t') /\
                           va_scan (views a' t') = va_scan (views a t')).
    { intros t'. destruct (Nat.eq_dec t' t) as [->|N]; [rewrite Vs; cbn; repeat split; auto|rewrite (V t' N); repeat split; reflexivity]. }
    assert (Nr : forall r' t' k, att h r' = Some (t', k) -> r' <> r) by (intros r' t' k Ha ->; congruence).
    assert (Ex : forall r', r_ext (grec g' r') = r_ext (grec g r')).
    { intros r'. destruct (Nat.eq_dec r' r) as [->|N]; [rewrite Es; reflexivity|now rewrite Eo]. }
    constructor; cbn [hlen slotv lastw att linked scan freeh flbad]; rewrite ?B, ?Lr, ?Et, ?Lgb.
    - destruct J1 as (L & H1 & H2). exists L. split; auto. now apply Rc.
    - intros r' t' k Ha. destruct (J2 r' t' k Ha) as (X1&X2&X3&X4&X5&X6&X7&X8&X9). destruct (F t') as (E&_). rewrite E, (Eo r' (Nr _ _ _ Ha)).
      split; auto. split; auto. split; auto. split; auto. split; auto. split; [lia|]. split; [now apply Gc|]. split; auto.
      intros b kb K. destruct (X9 b kb K) as (W1&W2&W3). split; auto. lia.
    - intros t' r' Ht. destruct (F t') as (E&_). rewrite E in Ht. auto.
    - exact J4.
    - intros t' r' bt Ht. destruct (F t') as (_&E&_). rewrite E in Ht. destruct (J5 t' r' bt Ht) as (X1&X2&X3&X4&X5&X6).
      assert (r' <> r).
      { intros ->. unfold unpub_info in X5. assert (Hx : r_tid (grec g r) = (if fst bt then S t' else 0)) by (destruct (snd bt); tauto).
        rewrite Rtid in Hx. destruct (fst bt); [|discriminate]. inversion Hx; subst t'. congruence. }
      rewrite (Eo r' H). repeat split; auto.
      + intros L HL. apply X3. now apply Rc.
      + intros t'' bt' Ht''. destruct (F t'') as (_&E'&_). rewrite E' in Ht''. eauto.
    - intros t' r' Ht. destruct (F t') as (_&_&E3&_&_&_&E7&_). rewrite E3 in Ht. rewrite E7.
      destruct (J6 t' r' Ht) as (X1&X2&X3&X4&X5&X6).
      assert (r' <> r). { intros ->. rewrite Rtid in X3. inversion X3; subst t'. contradiction. }
      rewrite (Eo r' H). repeat split; auto.
    - intros t' r' Ht. destruct (Nat.eq_dec t' t) as [->|N]; [rewrite Vs in Ht; cbn in Ht; discriminate|]. rewrite (V t' N) in Ht |- *.
      destruct (J7 t' r' Ht) as (X1&X2&X3). assert (r' <> r). { intros ->. rewrite Rtid in X1. inversion X1. congruence. }
      rewrite (Eo r' H). repeat split; auto.
    - intros r' Hr Ha. rewrite Ex. destruct (Nat.eq_dec r' r) as [->|N]; [now left|].
      destruct (J8 r' Hr Ha) as [X|(t' & X1 & X2)]; [now left|right]. exists t'.
      destruct (F t') as (_&_&E3&_&_&_&E7&_). rewrite E3, E7. auto.
    - intros t' b' Ht. destruct (F t') as (_&_&_&_&E5&_&E7&_). rewrite E5 in Ht. rewrite E7. exact (J9 t' b' Ht).
    - intros t' o lb' Ht. destruct (F t') as (_&_&_&_&_&_&E7&_). rewrite E7 in Ht. destruct (J10 t' o lb' Ht) as (X1&X2&X3). split; [now apply Gc|auto].
    - exact J11.
    - exact J12.
    - intros r' Hr. rewrite Esl. auto.
    - exact J16.
    - intros t' e f Ht. destruct (F t') as (E1&_&_&_&E5&E6&_). rewrite E6 in Ht. rewrite E1, E5.
      destruct (J17 t' e f Ht) as (r' & X1 & X2 & X3). exists r'. rewrite Ex. auto.
    - intros t' n Ht. destruct (F t') as (_&_&_&E4&_). rewrite E4 in Ht. apply Af. eauto.
    - intros s. rewrite <- J13. destruct s as [r' i|x i]; cbn [slot_get]; [now rewrite Esl|reflexivity].
    - intros t'. destruct (F t') as (_&_&_&_&_&_&_&E8). rewrite E8. specialize (J14 t').
      destruct (va_scan (views a t')) as [ss|]; auto. destruct J14 as (X1 & X2). split; auto.
      apply scan_ok_recfield; auto.
  Qed.
End AttC.
