(** * DhpLiveGcE: C02, second sentence for DHP.  Part E: the corrected statement of "the cell of a Guard is exclusive"
      ([dhp_guard_cell_exclusive_statement] of DhpLiveF is false for [c_GB = 0], see DhpLiveGcRefute) and the step from
      it to the client level: [dhp_guarded_ptr_live_from_exclusive]. *)
From Coq Require Import ZArith NArith List String Bool Lia PeanoNat.
From LV Require Import Base.Conc Base.Events Model.DhpLang Model.Dhp Proofs.DhpBase Proofs.DhpHist
  Proofs.DhpProofsC02 Proofs.DhpLiveA Proofs.DhpLiveB Proofs.DhpLiveD Proofs.DhpLiveE Proofs.DhpLiveF.
Import ListNotations.
Local Open Scope string_scope.
Local Open Scope list_scope.

(** what [dhp_guard_cell_exclusive_statement] says of one trace *)
Definition guard_cell_exclusive (c : cfg) (tr : list (nat * ev)) : Prop :=
  forall v t j k p, p <> 0 -> nth_error tr v = Some (t, EvCli "ret" [zn p]) ->
    lop (sfold (firstn v tr)) t = [7%Z; zn j; zn k] ->
  exists g0 s kl, lsl (sfold (firstn v tr)) t = Some (g0, s, p) /\ kl < g0 /\
    forall d, v < d -> d <= List.length tr ->
      (forall i e, v < i < d -> nth_error tr i = Some (t, e) -> ~ releasesD j e) ->
      live c (hist (firstn d tr)) s kl /\
      forall i te, g0 < i < d -> nth_error tr i = Some te -> ~ is_slot_of s (snd te).

(** the corrected statement (proved: [DhpLiveGxP.dhp_guard_cell_exclusive_corrected]): extension blocks have at least one cell *)
Definition dhp_guard_cell_exclusive_corrected_statement : Prop := forall fuel c ths conf,
  Conc.reach (init_cfg fuel c ths) conf -> flbad (hist (Conc.trace conf)) = false -> 1 <= c_GB c ->
  guard_cell_exclusive c (Conc.trace conf).

Lemma releasesD_dec j e : {releasesD j e} + {~ releasesD j e}.
Proof.
  destruct e as [k o b|name args]; [right; intros []|]. destruct args as [|code args]; [right; intros []|]. cbn [releasesD].
  destruct (string_dec name "op") as [E|N]; [|right; intros (A & _); contradiction].
  destruct (Z.eq_dec code 2) as [E2|N2]; [left; auto|].
  destruct (Z.eq_dec (hd 0%Z args) (zn j)) as [Eh|Nh]; [|right; intros (_ & [A|(_ & A)]); contradiction].
  destruct (Z.eq_dec code 4); [left; tauto|]. destruct (Z.eq_dec code 5); [left; tauto|].
  destruct (Z.eq_dec code 6); [left; tauto|]. destruct (Z.eq_dec code 7); [left; tauto|].
  right. intros (_ & [A|([A|[A|[A|A]]] & _)]); contradiction.
Qed.

Lemma release_search (tr : list (nat * ev)) t j v : forall d,
  (exists i e, v < i < d /\ nth_error tr i = Some (t, e) /\ releasesD j e) \/
  (forall i e, v < i < d -> nth_error tr i = Some (t, e) -> ~ releasesD j e).
Proof.
  induction d as [|d IH]; [right; intros i e Hi; lia|].
  destruct IH as [(i & e & Hi & Hn & Hr)|IH]; [left; exists i, e; split; [lia|auto]|].
  destruct (Nat.lt_ge_cases v d) as [L|L]; [|right; intros i e Hi; lia].
  destruct (nth_error tr d) as [[u e]|] eqn:En.
  - destruct (Nat.eq_dec u t) as [->|N].
    + destruct (releasesD_dec j e) as [R|R]; [left; exists d, e; split; [lia|auto]|].
      right. intros i e' Hi Hn. destruct (Nat.eq_dec i d) as [->|Nd]; [rewrite En in Hn; inversion Hn; subst; exact R|].
      apply (IH i e'); [lia|exact Hn].
    + right. intros i e' Hi Hn. destruct (Nat.eq_dec i d) as [->|Nd]; [rewrite En in Hn; inversion Hn; congruence|].
      apply (IH i e'); [lia|exact Hn].
  - right. intros i e' Hi Hn. destruct (Nat.eq_dec i d) as [->|Nd]; [rewrite En in Hn; discriminate|].
    apply (IH i e'); [lia|exact Hn].
Qed.

(** the second sentence at the level of the client, from the exclusiveness of the Guard's cell and the cell-level theorem *)
Theorem dhp_guarded_ptr_live_from_exclusive : forall fuel c ths conf,
  Conc.reach (init_cfg fuel c ths) conf -> flbad (hist (Conc.trace conf)) = false ->
  scan_frees_older (Conc.trace conf) -> guard_cell_exclusive c (Conc.trace conf) ->
  forall p, p <> 0 -> publish_once (Conc.trace conf) p -> retire_after_unlink (Conc.trace conf) p ->
  forall v t j k, nth_error (Conc.trace conf) v = Some (t, EvCli "ret" [zn p]) ->
    lop (sfold (firstn v (Conc.trace conf))) t = [7%Z; zn j; zn k] ->
  forall d u, v < d -> nth_error (Conc.trace conf) d = Some (u, ev_dispose p) ->
  exists i e, v < i < d /\ nth_error (Conc.trace conf) i = Some (t, e) /\ releasesD j e.
Proof.
  intros fuel c ths conf Hr Hfl Hsfo Hex p Hp Hpub Hret v t j k Hv Hop d u Hvd Hd.
  destruct (release_search (Conc.trace conf) t j v d) as [H|H]; [exact H|]. exfalso.
  destruct (Hex v t j k p Hp Hv Hop) as (g0 & s & kl & Hl & Hk & Hall).
  assert (Hdl : d < List.length (Conc.trace conf)) by (apply nth_error_Some; congruence).
  destruct (Hall d Hvd ltac:(lia) H) as (Hlive & Hno).
  exact (dhp_guarded_ptr_live_cell fuel c ths conf Hr Hfl Hsfo p Hp Hpub Hret v t j k Hv Hop g0 s p Hl d u kl Hvd Hd Hlive Hk Hno).
Qed.
