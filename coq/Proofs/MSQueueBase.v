(** * Ingredients of the linearizability proofs of the MSQueue family (C06):
      - [hist]: the invoke/response history read off a concrete trace,
      - [linked]: the chain of [next] pointers,
      - [SpecInv]: LP bookkeeping with _tentative_ linearization points.

    Tentative linearization points.  MSQueue's empty dequeue is linearized at a load of [h->next] that
    returned null, but only if the later re-validation of [head] succeeds - which is not known at the load.
    Instead of inserting an [ALin] into the middle of an annotated trace in hindsight, the invariant
    [SpecInv q stf cf h] keeps, for EVERY set [S] of threads that currently hold a candidate
    ([cf t = true]: "t has seen next==null at an instant when the abstract queue was empty"), an annotated
    trace [atr_S] of the same history [h] that ends in the same abstract queue [q] and in which exactly the
    threads of [S] have already been linearized as "dequeue returned empty".  Every LP / invoke / response
    of a thread without candidate is appended to all of them ([spec_event]); taking a candidate appends
    [ALin t] to the traces of the sets containing [t] ([spec_set_cand]); confirming it (validation
    succeeded) selects those traces ([spec_confirm]); dropping it forgets them ([spec_discard]).
    The trace for [S = {}] is the annotated trace of the theorem. *)
From Coq Require Import ZArith List String Bool Lia PeanoNat.
From LV Require Import Base.Conc Base.Events Base.Lin Spec.Specs Proofs.LinProofs.
Import ListNotations.
Local Open Scope string_scope.
Local Open Scope list_scope.

(** ** the history of a concrete trace *)
Definition hev_of (t : nat) (e : ev) : history Fifo :=
  match e with
  | EvCli name args =>
      if String.eqb name "inv_enq" then
        match args with [v] => [@HInv Fifo t (Enq v)] | _ => [] end
      else if String.eqb name "ret_enq" then
        match args with [b] => [@HRes Fifo t (RBool (negb (Z.eqb b 0)))] | _ => [] end
      else if String.eqb name "inv_deq" then [@HInv Fifo t Deq]
      else if String.eqb name "ret_deq" then
        match args with
        | [b; v] => [@HRes Fifo t (RVal (if Z.eqb b 0 then None else Some v))]
        | _ => []
        end
      else []
  | _ => []
  end.

Fixpoint hist (tr : list (nat * ev)) : history Fifo :=
  match tr with
  | [] => []
  | (t, e) :: r => hev_of t e ++ hist r
  end.

Lemma hist_app tr1 tr2 : hist (tr1 ++ tr2) = hist tr1 ++ hist tr2.
Proof. induction tr1 as [|[t e] r IH]; cbn [hist app]; [reflexivity|]. now rewrite IH, app_assoc. Qed.

Lemma hist_acc t k o b : hist (Conc.tag t [EvAcc k o b]) = [].
Proof. reflexivity. Qed.

Lemma hist_snoc tr t e : hist (tr ++ Conc.tag t [e]) = hist tr ++ hev_of t e.
Proof. rewrite hist_app. cbn. now rewrite app_nil_r. Qed.

(** ** chains of next pointers *)
Fixpoint linked (nx : nat -> option nat) (l : list nat) : Prop :=
  match l with
  | [] => True
  | a :: r => nx a = hd_error r /\ linked nx r
  end.

Lemma linked_ext nx nx' l :
  (forall x, In x l -> nx' x = nx x) -> linked nx l -> linked nx' l.
Proof.
  induction l as [|a r IH]; cbn [linked]; [auto|]. intros H [H1 H2]. split.
  - rewrite (H a (or_introl eq_refl)). exact H1.
  - apply IH; [|exact H2]. intros x Hx. apply H. now right.
Qed.

(** the successor of a member is determined by the list *)
Lemma linked_mid nx l1 a l2 :
  linked nx (l1 ++ a :: l2) -> nx a = hd_error l2.
Proof.
  induction l1 as [|x l1 IH]; cbn [app linked].
  - intros [H _]. exact H.
  - intros [_ H]. auto.
Qed.

Lemma linked_last nx l x : linked nx l -> In x l -> nx x = None -> exists l', l = l' ++ [x].
Proof.
  intros Hl Hi Hn. apply in_split in Hi. destruct Hi as (l1 & l2 & ->).
  pose proof (linked_mid _ _ _ _ Hl) as H. rewrite Hn in H. destruct l2; [|discriminate].
  now exists l1.
Qed.

Lemma linked_succ nx l x y : linked nx l -> In x l -> nx x = Some y -> In y l.
Proof.
  intros Hl Hi Hn. apply in_split in Hi. destruct Hi as (l1 & l2 & ->).
  pose proof (linked_mid _ _ _ _ Hl) as H. rewrite Hn in H. destruct l2 as [|b l2]; [discriminate|].
  injection H as ->. apply in_or_app. right. right. now left.
Qed.

Lemma linked_snoc nx nx' l x n :
  linked nx (l ++ [x]) -> ~ In x l -> ~ In n l -> n <> x ->
  (forall y, y <> x -> nx' y = nx y) -> nx' x = Some n -> nx n = None ->
  linked nx' ((l ++ [x]) ++ [n]).
Proof.
  intros Hl Hx Hn Hne Hag Hx' Hnn. induction l as [|a l IH].
  - cbn. repeat split; auto. rewrite Hag; auto.
  - cbn [app linked] in *. destruct Hl as [H1 H2]. split.
    + assert (a <> x) by (intros ->; apply Hx; now left).
      rewrite Hag by assumption. destruct l; cbn in *; exact H1.
    + apply IH; auto; intros H; [apply Hx|apply Hn]; now right.
Qed.

(** ** LP bookkeeping with tentative linearization points *)
Definition stmap := nat -> status Fifo.
Definition empty_lin : status Fifo := @Linearized Fifo Deq (RVal None).

Definition SpecInv (q : list Z) (stf : stmap) (cf : nat -> bool) (h : history Fifo) : Prop :=
  forall S : nat -> bool, (forall t, S t = true -> cf t = true) ->
    exists (atr : list (aev Fifo)) (f : stmap),
      @lp_run Fifo (@lp_init Fifo) atr = Some (q, f) /\
      (forall t, f t = if S t then empty_lin else stf t) /\
      erase atr = h.

Lemma spec_ext q stf cf h stf' cf' :
  (forall t, stf' t = stf t) -> (forall t, cf' t = true -> cf t = true) ->
  SpecInv q stf cf h -> SpecInv q stf' cf' h.
Proof.
  intros H1 H2 H S HS. destruct (H S (fun t Ht => H2 t (HS t Ht))) as (atr & f & A & B & C).
  exists atr, f. repeat split; auto. intros t. rewrite B, H1. reflexivity.
Qed.

(** an event of a thread that holds no candidate is appended to every trace *)
Lemma spec_event q stf cf h t (e : aev Fifo) q' s' :
  SpecInv q stf cf h -> cf t = false ->
  (forall f : stmap, f t = stf t -> @lp_step Fifo (q, f) e = Some (q', Lin.upd f t s')) ->
  SpecInv q' (Lin.upd stf t s') cf (h ++ erase [e]).
Proof.
  intros H Hc Hstep S HS. destruct (H S HS) as (atr & f & A & B & C).
  assert (St : S t = false).
  { destruct (S t) eqn:E; [|reflexivity]. rewrite (HS t E) in Hc. discriminate. }
  exists (atr ++ [e]), (Lin.upd f t s'). repeat split.
  - rewrite lp_run_app, A. cbn [lp_run]. rewrite Hstep; [reflexivity|]. rewrite B, St. reflexivity.
  - intros x. unfold Lin.upd. destruct (Nat.eqb_spec x t) as [->|Hne].
    + now rewrite St.
    + apply B.
  - rewrite erase_app, C. reflexivity.
Qed.

Definition updb (cf : nat -> bool) (t : nat) (b : bool) : nat -> bool :=
  fun x => if Nat.eqb x t then b else cf x.

(** a pending dequeue that sees the abstract queue empty may take a candidate *)
Lemma spec_set_cand stf cf h t :
  SpecInv [] stf cf h -> stf t = @Pending Fifo Deq -> SpecInv [] stf (updb cf t true) h.
Proof.
  intros H Hp S HS.
  set (S0 := fun x => if Nat.eqb x t then false else S x).
  assert (HS0 : forall x, S0 x = true -> cf x = true).
  { intros x. unfold S0. destruct (Nat.eqb_spec x t) as [->|Hne]; [discriminate|].
    intros Hx. specialize (HS x Hx). unfold updb in HS. destruct (Nat.eqb_spec x t); congruence. }
  destruct (H S0 HS0) as (atr & f & A & B & C).
  destruct (S t) eqn:St.
  - exists (atr ++ [@ALin Fifo t]), (Lin.upd f t empty_lin). repeat split.
    + rewrite lp_run_app, A. cbn [lp_run lp_step].
      assert (f t = @Pending Fifo Deq) as ->.
      { rewrite B. unfold S0. now rewrite Nat.eqb_refl. }
      reflexivity.
    + intros x. unfold Lin.upd. destruct (Nat.eqb_spec x t) as [->|Hne].
      * now rewrite St.
      * rewrite B. unfold S0. destruct (Nat.eqb_spec x t); congruence.
    + rewrite erase_app, C. cbn. apply app_nil_r.
  - exists atr, f. repeat split; auto.
    intros x. rewrite B. unfold S0. destruct (Nat.eqb_spec x t) as [->|Hne]; [now rewrite St|reflexivity].
Qed.

(** the validation succeeded: the candidate becomes the linearization point *)
Lemma spec_confirm q stf cf h t :
  SpecInv q stf cf h -> cf t = true -> SpecInv q (Lin.upd stf t empty_lin) (updb cf t false) h.
Proof.
  intros H Hc S HS.
  assert (St : S t = false).
  { destruct (S t) eqn:E; [|reflexivity]. specialize (HS t E). unfold updb in HS.
    rewrite Nat.eqb_refl in HS. discriminate. }
  set (S1 := fun x => if Nat.eqb x t then true else S x).
  assert (HS1 : forall x, S1 x = true -> cf x = true).
  { intros x. unfold S1. destruct (Nat.eqb_spec x t) as [->|Hne]; [auto|].
    intros Hx. specialize (HS x Hx). unfold updb in HS. destruct (Nat.eqb_spec x t); congruence. }
  destruct (H S1 HS1) as (atr & f & A & B & C).
  exists atr, f. repeat split; auto.
  intros x. rewrite B. unfold S1, Lin.upd. destruct (Nat.eqb_spec x t) as [->|Hne].
  - now rewrite St.
  - reflexivity.
Qed.

Lemma spec_discard q stf cf h t :
  SpecInv q stf cf h -> SpecInv q stf (updb cf t false) h.
Proof.
  apply spec_ext; auto. intros x. unfold updb. destruct (Nat.eqb_spec x t); [discriminate|auto].
Qed.

Lemma spec_init : SpecInv [] (fun _ => @Idle Fifo) (fun _ => false) [].
Proof.
  intros S HS. exists [], (fun _ => @Idle Fifo). repeat split; auto.
  intros t. destruct (S t) eqn:E; [|reflexivity]. specialize (HS t E). discriminate.
Qed.

(** the trace for the empty set of candidates is the annotated trace of the theorem *)
Lemma spec_valid q stf cf h :
  SpecInv q stf cf h ->
  exists (atr : list (aev Fifo)) (f : stmap),
    @lp_run Fifo (@lp_init Fifo) atr = Some (q, f) /\ (forall t, f t = stf t) /\ erase atr = h.
Proof.
  intros H. destruct (H (fun _ => false)) as (atr & f & A & B & C); [discriminate|].
  exists atr, f. auto.
Qed.

(** *** the four kinds of events *)
Lemma step_inv (q : list Z) (f : stmap) t (o : qop) :
  f t = @Idle Fifo -> @lp_step Fifo (q, f) (@AInv Fifo t o) = Some (q, Lin.upd f t (@Pending Fifo o)).
Proof. intros H. cbn. now rewrite H. Qed.

Lemma step_lin_enq (q : list Z) (f : stmap) t v :
  f t = @Pending Fifo (Enq v) ->
  @lp_step Fifo (q, f) (@ALin Fifo t) = Some (q ++ [v], Lin.upd f t (@Linearized Fifo (Enq v) (RBool true))).
Proof. intros H. cbn. now rewrite H. Qed.

Lemma step_lin_deq (q : list Z) (f : stmap) t v :
  f t = @Pending Fifo Deq ->
  @lp_step Fifo (v :: q, f) (@ALin Fifo t) = Some (q, Lin.upd f t (@Linearized Fifo Deq (RVal (Some v)))).
Proof. intros H. cbn. now rewrite H. Qed.

Lemma step_res (q : list Z) (f : stmap) t (o : qop) (r : res) :
  f t = @Linearized Fifo o r -> @lp_step Fifo (q, f) (@ARes Fifo t r) = Some (q, Lin.upd f t (@Idle Fifo)).
Proof.
  intros H. cbn. rewrite H.
  assert (res_beq r r = true) as -> by (now apply res_beq_ok). reflexivity.
Qed.
