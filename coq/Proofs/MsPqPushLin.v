(** * Push-only phases of MSPriorityQueue are linearizable to the bounded priority queue, for every schedule.

    Linearization point of a push = the step that acquires m_Lock and either calls inc() (ghost event "g_inc") or
    finds value() >= capacity() (ghost event "g_full").  The trace with these points ([atrace]) is a valid
    LP-annotated trace of Specs.BPQueue ([Lin.lp_valid]) as long as no pop has been invoked: the abstract state has as
    many elements as the item counter says, so the specification answers "full" exactly when the code does.  Only the
    counter matters here (no lock, tag or heap-order reasoning); the heap ORDER of such phases is MsPqPush. *)
From Coq Require Import ZArith List String Bool Lia PeanoNat.
From LV Require Import Base.Conc Base.Events Base.Lin Spec.Specs Model.MsPq
  Proofs.LinProofs Proofs.MsPqBrc Proofs.MsPqInv Proofs.MsPqPhase Proofs.MsPqPush.
Import ListNotations.
Local Open Scope string_scope.
Local Open Scope list_scope.

Section PL.
  Variable cap : nat.
  Variable bsz : nat.
  Notation Sp := (BPQueue cap).

  (** ** the LP-annotated trace of a model trace *)
  Definition is_lp (n : string) : bool :=
    String.eqb n "g_inc" || String.eqb n "g_full" || String.eqb n "g_dec" || String.eqb n "g_emp".
  Definition aev_of (te : nat * ev) : list (aev Sp) :=
    match snd te with
    | EvCli n args =>
        if String.eqb n "inv_push" then match args with [p; _] => [@AInv Sp (fst te) (Push p)] | _ => [] end
        else if String.eqb n "ret_push" then match args with [b; _; _] => [@ARes Sp (fst te) (RBool (Z.eqb b 1))] | _ => [] end
        else if String.eqb n "inv_pop" then [@AInv Sp (fst te) Pop]
        else if String.eqb n "ret_pop" then
          match args with [b; p; _] => [@ARes Sp (fst te) (RVal (if Z.eqb b 1 then Some p else None))] | _ => [] end
        else if is_lp n then [@ALin Sp (fst te)] else []
    | _ => []
    end.
  Definition atrace (tr : list (nat * ev)) : list (aev Sp) := flat_map aev_of tr.

  Lemma atrace_app tr tr' : atrace (tr ++ tr') = atrace tr ++ atrace tr'.
  Proof. apply flat_map_app. Qed.

  Lemma erase_aev_of te : erase (aev_of te) = hev_of cap te.
  Proof.
    unfold aev_of, hev_of. destruct (snd te) as [| n args]; [reflexivity|].
    destruct (String.eqb n "inv_push"); [destruct args as [|p [|i [|]]]; reflexivity|].
    destruct (String.eqb n "ret_push"); [destruct args as [|b [|p [|i [|]]]]; reflexivity|].
    destruct (String.eqb n "inv_pop"); [reflexivity|].
    destruct (String.eqb n "ret_pop"); [destruct args as [|b [|p [|i [|]]]]; reflexivity|].
    destruct (is_lp n); reflexivity.
  Qed.
  Lemma erase_atrace tr : erase (atrace tr) = hist_of cap tr.
  Proof.
    induction tr as [|te tr IH]; [reflexivity|]. unfold atrace, hist_of in *. cbn [flat_map].
    rewrite erase_app, IH, erase_aev_of. reflexivity.
  Qed.

  (** events that are neither client events nor linearization points *)
  Definition quiet1 (e : ev) : bool :=
    match e with
    | EvAcc _ _ _ => true
    | EvCli n _ => negb (String.eqb n "inv_push" || String.eqb n "ret_push" || String.eqb n "inv_pop" || String.eqb n "ret_pop" || is_lp n)
    end.
  Lemma quiet_tag t es : forallb quiet1 es = true -> atrace (Conc.tag t es) = [] /\ pop_invoked (Conc.tag t es) = false.
  Proof.
    induction es as [|e es IH]; cbn [forallb]; [auto|]. rewrite andb_true_iff. intros [He Hes]. destruct (IH Hes) as [I1 I2].
    unfold atrace, Conc.tag in *. cbn [map flat_map]. rewrite I1, app_nil_r. unfold pop_invoked in *. cbn [existsb map]. rewrite I2, orb_false_r.
    destruct e as [| n args]; [auto|]. cbn in He. rewrite negb_true_iff, !orb_false_iff in He.
    destruct He as [[[[H1 H2] H3] H4] H5]. unfold aev_of, is_cli. cbn [snd]. rewrite H1, H2, H3, H4, H5.
    split; reflexivity.
  Qed.

  (** ** the invariant *)
  Record lv := mkL { lin : nat;      (* 0 idle, 1 invoked, 2 linearized "true", 3 linearized "false" *)
                     vp : bool }.    (* this thread has invoked a pop (from then on nothing is claimed) *)
  Definition LAux := nat -> lv.
  Definition lview (a : LAux) (t : nat) : lv := a t.
  Definition updl (a : LAux) (t : nat) (v : lv) : LAux := fun u => if Nat.eqb u t then v else a u.
  Lemma updl_same a t v : updl a t v t = v.
  Proof. unfold updl. rewrite Nat.eqb_refl. reflexivity. Qed.
  Lemma updl_other a t v u : u <> t -> updl a t v u = a u.
  Proof. unfold updl. intros H. destruct (Nat.eqb_spec u t); congruence. Qed.
  Lemma lframe a t v : Conc.frame lview t a (updl a t v).
  Proof. intros u Hu. unfold lview. apply updl_other. exact Hu. Qed.
  Lemma lframe_refl a t : Conc.frame lview t a a.
  Proof. intros u Hu. reflexivity. Qed.

  Definition stat_ok (st : status Sp) (l : nat) : Prop :=
    match l with
    | 0 => st = Lin.Idle
    | 1 => exists p, st = Pending (Push p : Op Sp)
    | 2 => exists o, st = Linearized o (RBool true : Res Sp)
    | _ => exists o, st = Linearized o (RBool false : Res Sp)
    end.

  Definition Live (g : G) (a : LAux) (tr : list (nat * ev)) : Prop :=
    (0 <= bc (ctr g))%Z /\
    exists (s : St Sp) (stt : nat -> status Sp),
      lp_run lp_init (atrace tr) = Some (s, stt) /\ List.length s = count g /\ forall t, stat_ok (stt t) (lin (a t)).
  Definition LInv (g : G) (a : LAux) (tr : list (nat * ev)) : Prop :=
    (forall t, vp (a t) = true -> pop_invoked tr = true) /\ (pop_invoked tr = false -> Live g a tr).
  Notation safe := (@Conc.safe G V ev LAux lv lview LInv).

  (** once this thread has invoked a pop, every program is safe *)
  Lemma lsafe_dead {R} (p : prog R) : forall t l (Q : R -> lv -> Prop), vp l = true -> (forall r, Q r l) -> safe t p l Q.
  Proof.
    induction p as [r|es k IH|f k IH]; intros t l Q Hv HQ; cbn [Conc.safe]; [apply HQ| |].
    - intros g a tr [L1 L2] Hvw. exists a. pose proof (L1 t ltac:(unfold lview in Hvw; rewrite Hvw; exact Hv)) as Hp.
      split; [split; [intros u Hu; apply pop_invoked_mono; apply (L1 u Hu)|intros Hf; rewrite (pop_invoked_mono _ _ Hp) in Hf; discriminate]|].
      split; [apply lframe_refl|]. rewrite Hvw. apply IH; assumption.
    - intros g a tr [L1 L2] Hvw. exists a. pose proof (L1 t ltac:(unfold lview in Hvw; rewrite Hvw; exact Hv)) as Hp.
      split; [split; [intros u Hu; apply pop_invoked_mono; apply (L1 u Hu)|intros Hf; rewrite (pop_invoked_mono _ _ Hp) in Hf; discriminate]|].
      split; [apply lframe_refl|]. rewrite Hvw. apply IH; assumption.
  Qed.

  (** a step that leaves the counter alone and emits only quiet events *)
  Lemma LInv_quiet g g' a tr t es :
    ctr g' = ctr g -> forallb quiet1 es = true -> LInv g a tr -> LInv g' a (tr ++ Conc.tag t es).
  Proof.
    intros Hc Hq [L1 L2]. destruct (quiet_tag t es Hq) as [Q1 Q2]. split.
    - intros u Hu. apply pop_invoked_mono. apply (L1 u Hu).
    - intros Hf. destruct (L2 (pop_invoked_mono_f _ _ Hf)) as (Hb & s & stt & Hrun & Hlen & Hst).
      split; [rewrite Hc; exact Hb|]. exists s, stt. rewrite atrace_app, Q1, app_nil_r. unfold count. rewrite Hc. auto.
  Qed.

  Definition QT {R} : R -> lv -> Prop := fun _ _ => True.
  Definition optL {R} (Q : R -> lv -> Prop) : option R -> lv -> Prop := fun r l => match r with Some x => Q x l | None => True end.

  Lemma lsafe_stop {R} t c l (Q : R -> lv -> Prop) : safe t (@stop_err R c) l (optL Q).
  Proof.
    unfold stop_err. destruct c as [|[|c]]; cbn [Conc.safe]; intros g a tr Hi Hv; exists a;
      (split; [apply (LInv_quiet g); [reflexivity|reflexivity|exact Hi]|split; [apply lframe_refl|exact I]]).
  Qed.
  Lemma lsafe_checked {R} t v (k : prog (option R)) l (Q : R -> lv -> Prop) :
    safe t k l (optL Q) -> safe t (checked v k) l (optL Q).
  Proof. intros H. unfold checked. destruct (verr v); [exact H|apply lsafe_stop]. Qed.

  (** the lock loop: the failing attempts are quiet; [Hs] handles the acquiring step *)
  Lemma lsafe_lock {R} lf t l bd (k : V -> prog (option R)) P (Q : R -> lv -> Prop) :
    (forall g a tr, LInv g a tr -> lview a t = P ->
       exists a', LInv (fst (fst (bd (set_lockbit g l true)))) a'
                       (tr ++ Conc.tag t (EvAcc KXchg (obj_lock l) true :: snd (bd (set_lockbit g l true)))) /\
                  Conc.frame lview t a a' /\
                  safe t (k (unbusy (snd (fst (bd (set_lockbit g l true)))))) (lview a' t) (optL Q)) ->
    safe t (lock_ lf l bd k) P (optL Q).
  Proof.
    intros H. unfold lock_, obind. apply Conc.safe_bind.
    set (Qmid := fun (r : option V) (l' : lv) =>
           safe t (match r with Some x => checked x (k x) | None => Ret None end) l' (optL Q)).
    change (safe t (lock_outer lf l bd) P Qmid).
    assert (Both : safe t (lock_outer lf l bd) P Qmid /\ safe t (lock_inner lf l bd) P Qmid).
    { induction lf as [|f [IHo IHi]]; [split; exact I|]. split.
      - cbn [lock_outer Conc.safe]. intros g a tr Hi Hv. unfold a_lock. destruct (lockbit g l).
        + exists a. cbn [fst snd]. split; [apply (LInv_quiet g); [reflexivity|reflexivity|exact Hi]|]. split; [apply lframe_refl|].
          cbn [vbusy vbusyV]. rewrite Hv. exact IHi.
        + destruct (H g a tr Hi Hv) as (a' & K1 & K2 & K3).
          destruct (bd (set_lockbit g l true)) as [[g' v] es]. cbn [fst snd] in *.
          exists a'. split; [exact K1|]. split; [exact K2|]. cbn [vbusy unbusy Conc.safe]. apply lsafe_checked. exact K3.
      - cbn [lock_inner Conc.safe]. intros g a tr Hi Hv. unfold a_load. cbn [fst snd]. exists a.
        split; [apply (LInv_quiet g); [reflexivity|reflexivity|exact Hi]|]. split; [apply lframe_refl|]. rewrite Hv.
        destruct (lockbit g l); cbn [vbusy vbusyV v0]; assumption. }
    apply Both.
  Qed.

  Definition neutral (bd : body) : Prop :=
    forall g, ctr (fst (fst (bd g))) = ctr g /\ forallb quiet1 (snd (bd g)) = true.

  Lemma ctr_lockbit g l b : ctr (set_lockbit g l b) = ctr g.
  Proof. apply ctr_set_lockbit. Qed.

  Lemma lsafe_lock_neutral {R} lf t l bd (k : V -> prog (option R)) P (Q : R -> lv -> Prop) :
    neutral bd -> (forall v, safe t (k v) P (optL Q)) -> safe t (lock_ lf l bd k) P (optL Q).
  Proof.
    intros Hn Hk. apply lsafe_lock. intros g a tr Hi Hv. destruct (Hn (set_lockbit g l true)) as [N1 N2].
    exists a. split; [apply (LInv_quiet g); [rewrite N1; apply ctr_lockbit|cbn [forallb quiet1]; exact N2|exact Hi]|].
    split; [apply lframe_refl|]. rewrite Hv. apply Hk.
  Qed.

  Lemma lsafe_unlock_neutral {R} t l bd (k : V -> prog (option R)) P (Q : R -> lv -> Prop) :
    neutral bd -> (forall v, safe t (k v) P (optL Q)) -> safe t (unlock_ l bd k) P (optL Q).
  Proof.
    intros Hn Hk. unfold unlock_, unlock. cbn [Conc.bind Conc.safe]. intros g a tr Hi Hv.
    destruct (Hn g) as [N1 N2]. unfold a_unlock. destruct (bd g) as [[g' v] es]. cbn [fst snd] in *.
    exists a. split; [apply (LInv_quiet g); [rewrite ctr_lockbit; exact N1|cbn [forallb quiet1]; exact N2|exact Hi]|].
    split; [apply lframe_refl|]. rewrite Hv. apply lsafe_checked. apply Hk.
  Qed.

  (** *** the neutral bodies *)
  Lemma n_none : neutral body_none.
  Proof. intros g. split; reflexivity. Qed.
  Lemma n_store t i x : neutral (body_push_store t i x).
  Proof. intros g. split; reflexivity. Qed.
  Lemma n_sift t i p : neutral (body_sift_up t i p).
  Proof.
    intros g. unfold body_sift_up. destruct (_ && _).
    - destruct (nval (heap g i)); [|split; reflexivity]. destruct (nval (heap g p)); [|split; reflexivity].
      destruct (Z.gtb _ _); split; reflexivity.
    - destruct (tag_eqb _ _); [split; reflexivity|]. destruct (negb _); split; reflexivity.
  Qed.
  Lemma n_top t : neutral (body_push_top t).
  Proof. intros g. unfold body_push_top. destruct (tag_eqb _ _); split; reflexivity. Qed.

  (** *** heapify_after_push and push *)
  Lemma lsafe_heapify_push lf t u P : forall hf i, safe t (heapify_push hf lf u i) P (optL (fun (_ : unit) l' => l' = P)).
  Proof.
    induction hf as [|hf IH]; intros i; [exact I|]. cbn [heapify_push]. destruct (Nat.ltb 1 i).
    - apply lsafe_lock_neutral; [apply n_none|]. intros _. apply lsafe_lock_neutral; [apply n_sift|]. intros v.
      apply lsafe_unlock_neutral; [apply n_none|]. intros _. apply lsafe_unlock_neutral; [apply n_none|]. intros _. apply IH.
    - destruct (Nat.eqb i 1); [|reflexivity]. apply lsafe_lock_neutral; [apply n_top|]. intros _.
      apply lsafe_unlock_neutral; [apply n_none|]. intros _. reflexivity.
  Qed.

  Lemma lp_snoc (c : Lin.config Sp) tr e c1 c2 :
    lp_run c tr = Some c1 -> lp_step c1 e = Some c2 -> lp_run c (tr ++ [e]) = Some c2.
  Proof. intros H1 H2. rewrite lp_run_app, H1. cbn [lp_run]. rewrite H2. reflexivity. Qed.

  Lemma stat_other (stt : nat -> status Sp) t x a a' :
    (forall u, stat_ok (stt u) (lin (a u))) -> (forall u, u <> t -> a' u = a u) -> stat_ok x (lin (a' t)) ->
    forall u, stat_ok (Lin.upd stt t x u) (lin (a' u)).
  Proof.
    intros H Ho Hx u. destruct (Nat.eq_dec u t) as [->|N]; [rewrite LinProofs.upd_same; exact Hx|].
    rewrite LinProofs.upd_other by exact N. rewrite Ho by exact N. apply H.
  Qed.

  (** the linearization point of push *)
  Lemma lsafe_push hf lf t u x :
    safe t (push cap bsz hf lf u x) (mkL 1 false) (optL (fun (b : bool) l' => l' = mkL (if b then 2 else 3) false)).
  Proof.
    unfold push. apply lsafe_lock. intros g a tr [L1 L2] Hv. set (g1 := set_lockbit g 0 true).
    unfold body_push_size. change (ctr g1) with (ctr g). destruct (Z.leb (Z.of_nat cap) (bc (ctr g))) eqn:Efull; cbn [fst snd].
    - (* full *)
      set (a' := updl a t (mkL 3 false)). exists a'. split; [|split; [apply lframe|]].
      + split.
        * intros w Hw. apply pop_invoked_mono. destruct (Nat.eq_dec w t) as [->|N]; [unfold a' in Hw; rewrite updl_same in Hw; discriminate|].
          unfold a' in Hw. rewrite updl_other in Hw by exact N. apply (L1 w Hw).
        * intros Hf. destruct (L2 (pop_invoked_mono_f _ _ Hf)) as (Hb & s & stt & Hrun & Hlen & Hst).
          split; [exact Hb|].
          pose proof (Hst t) as Ht. unfold lview in Hv. rewrite Hv in Ht. cbn in Ht. destruct Ht as [p Ht].
          apply Z.leb_le in Efull. assert (Hge : cap <= List.length s) by (rewrite Hlen; unfold count; lia).
          exists s, (Lin.upd stt t (Linearized (Push p : Op Sp) (RBool false : Res Sp))). split; [|split; [exact Hlen|]].
          -- unfold Conc.tag. cbn [map]. rewrite atrace_app. cbn [atrace flat_map aev_of snd fst]. cbn. rewrite ?app_nil_r.
             apply (lp_snoc _ _ _ _ _ Hrun). cbn [lp_step]. rewrite Ht. cbn [sstep BPQueue mkSpec bpq_step].
             assert (El : Nat.ltb (List.length s) cap = false) by (apply Nat.ltb_ge; exact Hge). rewrite El. reflexivity.
          -- apply (stat_other stt t _ a a'); [exact Hst|intros w Hw; apply updl_other; exact Hw|].
             unfold a'. rewrite updl_same. cbn. eauto.
      + unfold lview, a'. rewrite updl_same. cbn [unbusy vb].
        apply lsafe_unlock_neutral; [apply n_none|]. intros _. reflexivity.
    - (* inc *)
      destruct (brc_inc (ctr g)) as [sl c'] eqn:Einc. cbn [fst snd].
      assert (Ec' : bc c' = (bc (ctr g) + 1)%Z) by (pose proof (bc_inc (ctr g)) as K; rewrite Einc in K; exact K).
      set (a' := updl a t (mkL 2 false)). exists a'. split; [|split; [apply lframe|]].
      + split.
        * intros w Hw. apply pop_invoked_mono. destruct (Nat.eq_dec w t) as [->|N]; [unfold a' in Hw; rewrite updl_same in Hw; discriminate|].
          unfold a' in Hw. rewrite updl_other in Hw by exact N. apply (L1 w Hw).
        * intros Hf. destruct (L2 (pop_invoked_mono_f _ _ Hf)) as (Hb & s & stt & Hrun & Hlen & Hst).
          split; [cbn [ctr set_ctr]; lia|].
          pose proof (Hst t) as Ht. unfold lview in Hv. rewrite Hv in Ht. cbn in Ht. destruct Ht as [p Ht].
          apply Z.leb_gt in Efull. assert (Hlt : List.length s < cap) by (rewrite Hlen; unfold count; lia).
          exists (p :: s), (Lin.upd stt t (Linearized (Push p : Op Sp) (RBool true : Res Sp))). split; [|split].
          -- unfold Conc.tag. cbn [map]. rewrite atrace_app. cbn [atrace flat_map aev_of snd fst]. cbn. rewrite ?app_nil_r.
             apply (lp_snoc _ _ _ _ _ Hrun). cbn [lp_step]. rewrite Ht. cbn [sstep BPQueue mkSpec bpq_step].
             assert (El : Nat.ltb (List.length s) cap = true) by (apply Nat.ltb_lt; exact Hlt). rewrite El. reflexivity.
          -- cbn [List.length]. rewrite Hlen. unfold count. cbn [ctr set_ctr]. rewrite Ec'. lia.
          -- apply (stat_other stt t _ a a'); [exact Hst|intros w Hw; apply updl_other; exact Hw|].
             unfold a'. rewrite updl_same. cbn. eauto.
      + unfold lview, a'. rewrite updl_same. cbn [unbusy vb vn].
        apply lsafe_lock_neutral; [apply n_none|]. intros _. apply lsafe_unlock_neutral; [apply n_store|]. intros _.
        apply lsafe_unlock_neutral; [apply n_none|]. intros _. unfold obind. apply Conc.safe_bind.
        eapply Conc.safe_weaken; [|apply lsafe_heapify_push]. intros [[]|] l' Hl'; cbn in Hl' |- *; [exact Hl'|exact I].
  Qed.

  (** *** client operations *)
  Lemma lsafe_run_ops hf lf t u : forall os, safe t (run_ops cap bsz hf lf u os) (mkL 0 false) (@Conc.QTrue lv).
  Proof.
    induction os as [|o r IH]; cbn [run_ops]; [exact I|]. apply Conc.safe_bind. destruct o as [x|]; cbn [run_op Conc.safe].
    - intros g a tr [L1 L2] Hv. destruct x as [p id]. set (a' := updl a t (mkL 1 false)). exists a'. split; [|split; [apply lframe|]].
      + split.
        * intros w Hw. apply pop_invoked_mono. destruct (Nat.eq_dec w t) as [->|N]; [unfold a' in Hw; rewrite updl_same in Hw; discriminate|].
          unfold a' in Hw. rewrite updl_other in Hw by exact N. apply (L1 w Hw).
        * intros Hf. destruct (L2 (pop_invoked_mono_f _ _ Hf)) as (Hb & s & stt & Hrun & Hlen & Hst).
          split; [exact Hb|]. pose proof (Hst t) as Ht. unfold lview in Hv. rewrite Hv in Ht. cbn in Ht.
          exists s, (Lin.upd stt t (Pending (Push p : Op Sp))). split; [|split; [exact Hlen|]].
          -- unfold Conc.tag. cbn [map]. rewrite atrace_app. cbn [atrace flat_map aev_of snd fst zitem]. cbn. rewrite ?app_nil_r.
             apply (lp_snoc _ _ _ _ _ Hrun). cbn [lp_step]. rewrite Ht. reflexivity.
          -- apply (stat_other stt t _ a a'); [exact Hst|intros w Hw; apply updl_other; exact Hw|].
             unfold a'. rewrite updl_same. cbn. eauto.
      + unfold lview, a'. rewrite updl_same. apply Conc.safe_bind. eapply Conc.safe_weaken; [|apply lsafe_push].
        intros [b|] l' Hl'; cbn [optL] in Hl'; cbn [Conc.safe].
        * subst l'. intros g2 a2 tr2 [M1 M2] Hv2. set (a2' := updl a2 t (mkL 0 false)). exists a2'. split; [|split; [apply lframe|]].
          -- split.
             ++ intros w Hw. apply pop_invoked_mono. destruct (Nat.eq_dec w t) as [->|N]; [unfold a2' in Hw; rewrite updl_same in Hw; discriminate|].
                unfold a2' in Hw. rewrite updl_other in Hw by exact N. apply (M1 w Hw).
             ++ intros Hf. destruct (M2 (pop_invoked_mono_f _ _ Hf)) as (Hb & s & stt & Hrun & Hlen & Hst).
                split; [exact Hb|]. pose proof (Hst t) as Ht. unfold lview in Hv2. rewrite Hv2 in Ht.
                exists s, (Lin.upd stt t Lin.Idle). split; [|split; [exact Hlen|]].
                ** unfold Conc.tag. cbn [map]. rewrite atrace_app. cbn [atrace flat_map aev_of snd fst zitem]. cbn. rewrite ?app_nil_r.
                   apply (lp_snoc _ _ _ _ _ Hrun). cbn [lp_step]. destruct b; cbn in Ht; destruct Ht as [o Ht]; rewrite Ht; reflexivity.
                ** apply (stat_other stt t _ a2 a2'); [exact Hst|intros w Hw; apply updl_other; exact Hw|].
                   unfold a2'. rewrite updl_same. reflexivity.
          -- unfold lview, a2'. rewrite updl_same. cbn. exact IH.
        * intros g2 a2 tr2 Hi2 Hv2. exists a2. split; [apply (LInv_quiet g2); [reflexivity|reflexivity|exact Hi2]|].
          split; [apply lframe_refl|]. exact I.
    - (* a pop is invoked: from here on nothing is claimed *)
      intros g a tr [L1 L2] Hv. set (a' := updl a t (mkL 0 true)). exists a'.
      assert (Hp : pop_invoked (tr ++ Conc.tag t [EvCli "inv_pop" []]) = true) by (rewrite pop_invoked_app; cbn; apply orb_true_r).
      split; [split; [intros w Hw; exact Hp|intros Hf; congruence]|]. split; [apply lframe|].
      unfold lview, a'. rewrite updl_same. apply lsafe_dead; [reflexivity|]. intros ok.
      destruct ok; [apply lsafe_dead; [reflexivity|intros; exact I]|exact I].
  Qed.

  Lemma lsafe_threads hf lf ths : forall k t p,
    nth_error (thread_progs cap bsz hf lf k ths) t = Some p -> forall t0, safe t0 p (mkL 0 false) (@Conc.QTrue lv).
  Proof.
    induction ths as [|os r IH]; intros k t p H t0; [destruct t; discriminate|]. destruct t as [|t]; cbn in H.
    - inversion H. unfold thread_prog. cbn [Conc.safe]. intros g a tr Hi Hv. cbn [a_begin fst snd]. exists a.
      split; [apply (LInv_quiet g); [reflexivity|reflexivity|exact Hi]|]. split; [apply lframe_refl|]. rewrite Hv. apply lsafe_run_ops.
    - apply (IH (S k) t p H).
  Qed.

  Lemma linit_ok hf lf ths : Conc.cfg_ok lview LInv (init_cfg cap bsz hf lf ths).
  Proof.
    exists (fun _ => mkL 0 false). split.
    - split; [intros t H; discriminate|]. intros _. split; [cbn; lia|].
      exists (@nil Z), (fun _ => Lin.Idle). split; [reflexivity|]. split; [reflexivity|]. intros t. reflexivity.
    - intros t p Hp. cbn [init_cfg Conc.threads] in Hp. apply (lsafe_threads hf lf ths 0 t p Hp).
  Qed.

  (** ** the theorem: as long as no pop has been invoked, every history -- any schedule, any number of threads -- is
         linearizable to the bounded max-priority queue, with the linearization points at the size-lock acquisitions *)
  Theorem mspq_push_phase_lp_valid hf lf ths c :
    Conc.reach (init_cfg cap bsz hf lf ths) c -> pop_invoked (Conc.trace c) = false -> lp_valid Sp (atrace (Conc.trace c)).
  Proof.
    intros Hr Hnp. destruct (Conc.reach_Inv (linit_ok hf lf ths) Hr) as (a & _ & L2).
    destruct (L2 Hnp) as (_ & s & stt & Hrun & _). exists (s, stt). exact Hrun.
  Qed.

  Theorem mspq_push_phase_linearizable hf lf ths c :
    Conc.reach (init_cfg cap bsz hf lf ths) c -> pop_invoked (Conc.trace c) = false ->
    linearizable Sp (hist_of cap (Conc.trace c)).
  Proof.
    intros Hr Hnp. rewrite <- erase_atrace. apply lp_valid_linearizable. apply (mspq_push_phase_lp_valid hf lf ths c Hr Hnp).
  Qed.
End PL.
