(** * TaggedFreeList (model LV.Model.FreeListTagged): invariant and its preservation.

    Hypothesis "the tag does not wrap": the tag equals k + (number of successful head CASes in the trace);
    everything is proved under [nowrap tr] : k + that number < 2^64.

    Node states: TNil (not a node), THeld t (client t has it), TOn (reachable from head).
    A thread that has loaded the head {hp, ht} (and next = nx) knows: ht <= current tag, and if the tag is
    still ht then the head pointer is still hp (and hp's next is still nx) - which is exactly what makes
    the double-width CAS safe against ABA. *)
From Coq Require Import ZArith List String Bool Lia PeanoNat.
From LV Require Import Base.Conc Base.Events Model.FreeList Model.FreeListTagged Proofs.FreeListBase.
Import ListNotations.
Local Open Scope Z_scope.
Local Open Scope string_scope.

Inductive tstate := TNil | THeld (t : nat) | TOn.

Inductive tphase :=
| TIdle
| TBusy
| TPPut (n : nat)                 (* put(n): before the head load *)
| TPHead (n hp : nat) (ht : Z)    (* put(n): head {hp,ht} loaded (or re-read by a failed CAS) *)
| TPNxt (n hp : nat) (ht : Z)     (* put(n): next = hp stored *)
| TPRet (n : nat)                 (* get(): CAS succeeded, n is about to be returned *)
| TGHead (hp : nat) (ht : Z)      (* get(): head {hp,ht} loaded *)
| TGNext (hp : nat) (ht : Z) (nx : nat).  (* get(): and next = nx loaded *)

Record TAux := mkTA { tst : nat -> tstate; tlst : list nat; tph : nat -> tphase; thl : nat -> list nat; town : omap }.

Definition towner (s : tstate) : option nat := match s with THeld t => Some t | _ => None end.
Definition tclaim (p : tphase) : option nat :=
  match p with TPPut n | TPHead n _ _ | TPNxt n _ _ | TPRet n => Some n | _ => None end.
Definition tis_idle (p : tphase) : bool := match p with TIdle => true | _ => false end.

Definition tphase_ok (stf : nat -> tstate) (g : TG) (hlt : list nat) (t : nat) (p : tphase) : Prop :=
  match p with
  | TIdle | TBusy => True
  | TPPut n | TPRet n | TPHead n _ _ => stf n = THeld t /\ ~ In n hlt
  | TPNxt n hp _ => stf n = THeld t /\ ~ In n hlt /\ tnext g n = hp
  | TGHead hp ht => ht <= ttag g /\ (ttag g = ht -> thead g = hp)
  | TGNext hp ht nx => ht <= ttag g /\ (ttag g = ht -> thead g = hp /\ tnext g hp = nx)
  end.

Definition tst_ok (a : TAux) (n : nat) : Prop :=
  match tst a n with
  | THeld t => In n (thl a t) \/ tclaim (tph a t) = Some n
  | _ => True
  end.

Section TFL.
  Variable N : nat.
  Variable valid0 : nat -> bool.
  Hypothesis Hv0 : valid0 O = false.

  Record InvTS (g : TG) (a : TAux) : Prop := mkInvTS {
    TS_valid : forall n, tst a n = TNil <-> valid0 n = false;
    TS_st : forall n, tst_ok a n;
    TS_chain : chain (tnext g) (thead g) (tlst a);
    TS_lnd : NoDup (tlst a);
    TS_lin : forall n, In n (tlst a) <-> tst a n = TOn;
    TS_ph : forall t, tphase_ok (tst a) g (thl a t) t (tph a t);
    TS_held : forall t n, In n (thl a t) -> tst a n = THeld t;
    TS_hnd : forall t, NoDup (thl a t);
    TS_out : forall t, (N <= t)%nat -> tph a t = TIdle /\ thl a t = []
  }.
  Arguments TS_valid {g a}. Arguments TS_st {g a}. Arguments TS_chain {g a}. Arguments TS_lnd {g a}.
  Arguments TS_lin {g a}. Arguments TS_ph {g a}. Arguments TS_held {g a}. Arguments TS_hnd {g a}. Arguments TS_out {g a}.

  Lemma tst_zero g a : InvTS g a -> tst a O = TNil.
  Proof. intros Hi. apply (TS_valid Hi). exact Hv0. Qed.

  Lemma head_on g a : InvTS g a -> thead g <> O -> tst a (thead g) = TOn.
  Proof.
    intros Hi Hnz. apply (TS_lin Hi). pose proof (TS_chain Hi) as Hc.
    destruct (tlst a) as [|x r]; cbn in Hc; [congruence|]. destruct Hc as (E & _). left. symmetry; exact E.
  Qed.

  Definition tstep_aux (a : TAux) (n0 : nat) (s' : tstate) (l' : list nat) (t0 : nat) (p' : tphase) (H' : list nat) (o' : omap) : TAux :=
    mkTA (upd (tst a) n0 s') l' (upd (tph a) t0 p') (upd (thl a) t0 H') o'.

  Lemma TInv_step g a g' n0 s' l' t0 p' H' o' :
    InvTS g a -> (t0 < N)%nat ->
    (tclaim (tph a t0) = None \/ tclaim (tph a t0) = Some n0) ->
    (tclaim p' = None \/ tclaim p' = Some n0) ->
    (s' = tst a n0 \/ ((towner (tst a n0) = None \/ towner (tst a n0) = Some t0) /\ tst a n0 <> TNil /\ s' <> TNil)) ->
    (forall n, n <> n0 -> tnext g' n = tnext g n) ->
    (tnext g' n0 = tnext g n0 \/ tst a n0 = THeld t0) ->
    ((thead g' = thead g /\ ttag g' = ttag g) \/ ttag g < ttag g') ->
    (forall n, n <> n0 -> (In n H' <-> In n (thl a t0))) ->
    (forall n, n <> n0 -> (In n l' <-> In n (tlst a))) ->
    let a' := tstep_aux a n0 s' l' t0 p' H' o' in
    tst_ok a' n0 ->
    chain (tnext g') (thead g') l' ->
    NoDup l' ->
    (In n0 l' <-> s' = TOn) ->
    tphase_ok (tst a') g' H' t0 p' ->
    (In n0 H' -> s' = THeld t0) ->
    NoDup H' ->
    InvTS g' a'.
  Proof.
    intros Hi Ht0 Hp Hp' Hs Hnext Hnext0 Htag Hhl Hl a' Ust Uchain Ulnd Ulin Uph Uheld Uhnd.
    assert (Hst : forall n, n <> n0 -> tst a' n = tst a n) by (intros n Hn; cbn; now apply upd_other).
    assert (Hst0 : tst a' n0 = s') by (cbn; apply upd_same).
    assert (Hph : forall t, t <> t0 -> tph a' t = tph a t) by (intros t Hn; cbn; now apply upd_other).
    assert (Hph0 : tph a' t0 = p') by (cbn; apply upd_same).
    assert (Hhlo : forall t, t <> t0 -> thl a' t = thl a t) by (intros t Hn; cbn; now apply upd_other).
    assert (Hhl0 : thl a' t0 = H') by (cbn; apply upd_same).
    assert (Hkeep : forall t, t <> t0 -> towner (tst a n0) = Some t -> s' = tst a n0).
    { intros t Hne Ho. destruct Hs as [Hs|[[Hs|Hs] _]]; [exact Hs|congruence|congruence]. }
    constructor.
    - intros n. destruct (Nat.eq_dec n n0) as [->|Hn].
      + rewrite Hst0. destruct Hs as [->|(_ & H1 & H2)]; [apply (TS_valid Hi)|].
        split; [congruence|]. intros Hv. apply (TS_valid Hi) in Hv. congruence.
      + rewrite Hst by exact Hn. apply (TS_valid Hi).
    - intros n. destruct (Nat.eq_dec n n0) as [->|Hn]; [exact Ust|].
      pose proof (TS_st Hi n) as Ho. unfold tst_ok in *. rewrite Hst by exact Hn.
      destruct (tst a n) as [|t|] eqn:Es; auto.
      destruct (Nat.eq_dec t t0) as [->|Hne].
      + rewrite Hhl0, Hph0. destruct Ho as [Ho|Ho]; [left; apply Hhl; auto|]. destruct Hp; congruence.
      + rewrite Hhlo, Hph by exact Hne. exact Ho.
    - exact Uchain.
    - exact Ulnd.
    - intros n. change (tlst a') with l'. destruct (Nat.eq_dec n n0) as [->|Hn].
      + rewrite Hst0. exact Ulin.
      + rewrite Hst by exact Hn. rewrite Hl by exact Hn. apply (TS_lin Hi).
    - intros t. destruct (Nat.eq_dec t t0) as [->|Hne]; [rewrite Hhl0, Hph0; exact Uph|].
      rewrite Hhlo, Hph by exact Hne. pose proof (TS_ph Hi t) as Ho.
      assert (Hclaim : forall m, tst a m = THeld t -> tst a' m = THeld t).
      { intros m E1. destruct (Nat.eq_dec m n0) as [->|Hm].
        - rewrite Hst0. rewrite <- E1. apply (Hkeep t Hne). rewrite E1. reflexivity.
        - rewrite Hst by exact Hm. exact E1. }
      destruct (tph a t) as [| |n|n hp ht|n hp ht|n|hp ht|hp ht nx] eqn:Ep; cbn in *.
      + exact I.
      + exact I.
      + destruct Ho as [Ho1 Ho2]. split; [apply Hclaim; exact Ho1|exact Ho2].
      + destruct Ho as [Ho1 Ho2]. split; [apply Hclaim; exact Ho1|exact Ho2].
      + destruct Ho as (Ho1 & Ho2 & Ho3). split; [apply Hclaim; exact Ho1|]. split; [exact Ho2|].
        destruct (Nat.eq_dec n n0) as [->|Hm]; [|rewrite Hnext by exact Hm; exact Ho3].
        destruct Hnext0 as [E|E]; [rewrite E; exact Ho3|]. rewrite Ho1 in E. congruence.
      + destruct Ho as [Ho1 Ho2]. split; [apply Hclaim; exact Ho1|exact Ho2].
      + destruct Ho as [Ho1 Ho2]. destruct Htag as [[E1 E2]|E]; [rewrite E1, E2; tauto|]. split; [lia|]. intros; lia.
      + destruct Ho as [Ho1 Ho2]. destruct Htag as [[E1 E2]|E]; [|split; [lia|intros; lia]].
        rewrite E1, E2. split; [exact Ho1|]. intros Et. destruct (Ho2 Et) as [Hh Hn]. split; [exact Hh|].
        destruct (Nat.eq_dec hp n0) as [->|Hm]; [|rewrite Hnext by exact Hm; exact Hn].
        destruct Hnext0 as [E|E]; [rewrite E; exact Hn|]. exfalso.
        destruct (Nat.eq_dec n0 O) as [->|Hnz].
        * rewrite (tst_zero g a Hi) in E. discriminate.
        * rewrite <- Hh in E, Hnz. rewrite (head_on g a Hi Hnz) in E. discriminate.
    - intros t n Hin. destruct (Nat.eq_dec t t0) as [->|Hne].
      + rewrite Hhl0 in Hin. destruct (Nat.eq_dec n n0) as [->|Hn]; [rewrite Hst0; auto|].
        rewrite Hst by exact Hn. apply (TS_held Hi). apply Hhl; auto.
      + rewrite Hhlo in Hin by exact Hne. pose proof (TS_held Hi t n Hin) as E.
        destruct (Nat.eq_dec n n0) as [->|Hn].
        * rewrite Hst0. rewrite <- E. apply (Hkeep t Hne). rewrite E. reflexivity.
        * rewrite Hst by exact Hn. exact E.
    - intros t. destruct (Nat.eq_dec t t0) as [->|Hne]; [rewrite Hhl0; exact Uhnd|].
      rewrite Hhlo by exact Hne. apply (TS_hnd Hi).
    - intros t Ht. assert (t <> t0) by lia. rewrite Hph, Hhlo by assumption. apply (TS_out Hi); exact Ht.
  Qed.
End TFL.

Arguments TS_valid {N valid0 g a}. Arguments TS_st {N valid0 g a}. Arguments TS_chain {N valid0 g a}.
Arguments TS_lnd {N valid0 g a}. Arguments TS_lin {N valid0 g a}. Arguments TS_ph {N valid0 g a}.
Arguments TS_held {N valid0 g a}. Arguments TS_hnd {N valid0 g a}. Arguments TS_out {N valid0 g a}.
