(** * MichaelListLin: bookkeeping of the LP-annotated trace [a_atr] (invariant part [IL]). *)
From Coq Require Import ZArith List String Bool Lia PeanoNat.
From LV Require Import Base.Conc Base.Events Base.Lin Spec.Specs Proofs.LinProofs.
From LV Require Import Model.MichaelList Proofs.MichaelListBase Proofs.MichaelListInv.
Import ListNotations.
Local Open Scope Z_scope.

(** where the invocation of an open operation sits in a valid annotated trace *)
Lemma lp_open_split : forall (atr : list (aev SetSpec)) S st t o,
  lp_run lp_init atr = Some (S, st) -> open_op (st t) = Some o ->
  exists A B, atr = A ++ @AInv SetSpec t o :: B /\ no_inv_res t B /\
              (st t = @Pending SetSpec o -> forall e, In e B -> aev_tid e <> t).
Proof.
  induction atr as [|e atr IH] using rev_ind; intros S st t o Hr Ho.
  - cbn in Hr. inversion Hr; subst. discriminate.
  - rewrite lp_run_app in Hr. destruct (lp_run lp_init atr) as [[S0 st0]|] eqn:E0; [|discriminate].
    cbn [lp_run] in Hr. destruct (lp_step (S0, st0) e) as [c1|] eqn:E1; [|discriminate].
    inversion Hr; subst c1; clear Hr.
    destruct (Nat.eq_dec (aev_tid e) t) as [Et|Et].
    + destruct e as [u o'|u|u r]; cbn [aev_tid] in Et; subst u; cbn [lp_step] in E1.
      * destruct (st0 t); try discriminate. inversion E1; subst. rewrite upd_same in Ho. cbn in Ho. inversion Ho; subst.
        exists atr, []. repeat split; auto; intros e [].
      * destruct (st0 t) as [|o0|] eqn:Est; try discriminate. inversion E1; subst. rewrite upd_same in Ho. cbn in Ho. inversion Ho; subst.
        destruct (IH S0 st0 t o eq_refl) as (A & B & EA & HB & _); [rewrite Est; reflexivity|].
        exists A, (B ++ [ALin t]). subst atr. rewrite <- app_assoc. cbn [app]. repeat split; auto.
        -- intros e He. apply in_app_or in He. destruct He as [He|[<-|[]]]; [apply HB; exact He|exact I].
        -- rewrite upd_same. discriminate.
      * destruct (st0 t); try discriminate. destruct (res_eqb SetSpec r r0); try discriminate.
        inversion E1; subst. rewrite upd_same in Ho. discriminate.
    + assert (Hst : st t = st0 t).
      { destruct e as [u o'|u|u r]; cbn [aev_tid] in Et; cbn [lp_step] in E1.
        - destruct (st0 u); try discriminate. inversion E1; subst. apply upd_other; auto.
        - destruct (st0 u); try discriminate. inversion E1; subst. apply upd_other; auto.
        - destruct (st0 u); try discriminate. destruct (res_eqb SetSpec r r0); try discriminate.
          inversion E1; subst. apply upd_other; auto. }
      rewrite Hst in Ho. destruct (IH S0 st0 t o eq_refl Ho) as (A & B & EA & HB & HP).
      exists A, (B ++ [e]). subst atr. rewrite <- app_assoc. cbn [app]. repeat split; auto.
      * intros x Hx. apply in_app_or in Hx. destruct Hx as [Hx|[<-|[]]]; [apply HB; exact Hx|].
        destruct e; cbn [aev_tid] in Et; auto.
      * intros Hp x Hx. rewrite Hst in Hp. apply in_app_or in Hx. destruct Hx as [Hx|[<-|[]]]; auto.
Qed.

Lemma upd_hist_acc tr t k o ok : upd_hist (tr ++ Conc.tag t [EvAcc k o ok]) = upd_hist tr.
Proof. rewrite upd_hist_app. reflexivity. Qed.

Lemma st_views a t pub' lv' atr' (st : nat -> status SetSpec) :
  (forall u, st u = lv_st (view a u)) -> lv_st lv' = lv_st (view a t) ->
  forall u, st u = lv_st (view (mk_a a t pub' lv' atr') u).
Proof.
  intros H Hl u. destruct (Nat.eq_dec u t) as [->|Hu]; [rewrite view_mk_same; congruence|].
  rewrite view_mk_other by exact Hu. apply H.
Qed.

(** an access that is not a linearization point *)
Lemma IL_acc g g' a t pub' lv' L L' tr kd ob ok :
  IL g a tr L -> lv_st lv' = lv_st (view a t) ->
  (forall S, abs g L S -> abs g' L' S) ->
  IL g' (mk_a a t pub' lv' (a_atr a)) (tr ++ Conc.tag t [EvAcc kd ob ok]) L'.
Proof.
  intros [(S & st & H1 & H2 & H3) H4] Hl Habs. constructor; cbn [a_atr mk_a].
  - exists S, st. split; [exact H1|]. split; [apply st_views; auto|auto].
  - rewrite upd_hist_acc. exact H4.
Qed.

(** a linearization point: the access appends [ALin t] *)
Lemma IL_lp g g' a t pub' lv' L L' tr kd ob ok o :
  IL g a tr L -> lv_st (view a t) = @Pending SetSpec o ->
  (forall S, abs g L S -> abs g' L' (fst (set_step S o)) /\ lv_st lv' = @Linearized SetSpec o (snd (set_step S o))) ->
  IL g' (mk_a a t pub' lv' (a_atr a ++ [ALin t])) (tr ++ Conc.tag t [EvAcc kd ob ok]) L'.
Proof.
  intros [(S & st & H1 & H2 & H3) H4] Hp Habs. destruct (Habs S H3) as [Ha Hl]. constructor; cbn [a_atr mk_a].
  - exists (fst (set_step S o)), (upd st t (@Linearized SetSpec o (snd (set_step S o)))). split; [|split; [|exact Ha]].
    + rewrite (lp_run_snoc _ _ _ H1). cbn [lp_step]. rewrite H2, Hp. reflexivity.
    + intros u. destruct (Nat.eq_dec u t) as [->|Hu].
      * rewrite view_mk_same, upd_same. congruence.
      * rewrite view_mk_other by exact Hu. rewrite upd_other by exact Hu. apply H2.
  - rewrite upd_hist_acc, erase_app. cbn [erase]. rewrite app_nil_r. exact H4.
Qed.

(** client events that are neither invocation nor response *)
Lemma IL_cli_other g a t lv' L tr name args :
  IL g a tr L -> lv_st lv' = lv_st (view a t) ->
  String.eqb name "inv" = false -> String.eqb name "ret" = false ->
  IL g (mk_a a t (a_pub a) lv' (a_atr a)) (tr ++ Conc.tag t [EvCli name args]) L.
Proof.
  intros [(S & st & H1 & H2 & H3) H4] Hl N1 N2. constructor; cbn [a_atr mk_a].
  - exists S, st. split; [exact H1|]. split; [apply st_views; auto|auto].
  - rewrite upd_hist_app. cbn [Conc.tag map fold_left hstep]. rewrite N1, N2. exact H4.
Qed.

(** invocation *)
Lemma IL_inv g a t lv' L tr c k x v :
  IL g a tr L -> lv_st (view a t) = @Idle SetSpec -> lv_st lv' = @Pending SetSpec (spec_op c k x) ->
  IL g (mk_a a t (a_pub a) lv' (a_atr a ++ [@AInv SetSpec t (spec_op c k x)]))
       (tr ++ Conc.tag t [EvCli "inv" [c; k; x; v]]) L.
Proof.
  intros [(S & st & H1 & H2 & H3) H4] Hi Hl. constructor; cbn [a_atr mk_a].
  - exists S, (upd st t (@Pending SetSpec (spec_op c k x))). split; [|split; [|exact H3]].
    + rewrite (lp_run_snoc _ _ _ H1). cbn [lp_step]. rewrite H2, Hi. reflexivity.
    + intros u. destruct (Nat.eq_dec u t) as [->|Hu].
      * rewrite view_mk_same, upd_same. congruence.
      * rewrite view_mk_other by exact Hu. rewrite upd_other by exact Hu. apply H2.
  - rewrite upd_hist_app, erase_app. cbn [erase Conc.tag map fold_left hstep String.eqb Ascii.eqb Bool.eqb].
    rewrite H4. reflexivity.
Qed.

Lemma res_eqb_refl (r : res) : res_eqb SetSpec r r = true.
Proof. apply (res_eqb_spec SetSpec). reflexivity. Qed.

(** response of an operation that was linearized (it modified the set) *)
Lemma IL_ret_lin g a t lv' L tr o r a1 b1 :
  IL g a tr L -> lv_st (view a t) = @Linearized SetSpec o r -> lv_st lv' = @Idle SetSpec ->
  res_of o a1 b1 = r -> is_read o r = false ->
  IL g (mk_a a t (a_pub a) lv' (a_atr a ++ [@ARes SetSpec t r])) (tr ++ Conc.tag t [EvCli "ret" [a1; b1]]) L.
Proof.
  intros [(S & st & H1 & H2 & H3) H4] Hs Hl Hr Hrd. constructor; cbn [a_atr mk_a].
  - exists S, (upd st t (@Idle SetSpec)). split; [|split; [|exact H3]].
    + rewrite (lp_run_snoc _ _ _ H1). cbn [lp_step]. rewrite H2, Hs, res_eqb_refl. reflexivity.
    + intros u. destruct (Nat.eq_dec u t) as [->|Hu].
      * rewrite view_mk_same, upd_same. congruence.
      * rewrite view_mk_other by exact Hu. rewrite upd_other by exact Hu. apply H2.
  - destruct (lp_open_split _ _ _ t o H1) as (A & B & EA & HB & _); [rewrite H2, Hs; reflexivity|].
    destruct (erase_split_last t o A B HB) as [K1 _]. rewrite <- EA, H4 in K1.
    rewrite upd_hist_app, erase_app. cbn [erase Conc.tag map fold_left hstep String.eqb Ascii.eqb Bool.eqb].
    rewrite K1. cbv zeta. rewrite Hr, Hrd, H4. reflexivity.
Qed.

(** response of an operation that did not modify the set: its invocation is deleted *)
Lemma IL_ret_read g a t lv' L tr o a1 b1 :
  IL g a tr L -> lv_st (view a t) = @Pending SetSpec o -> lv_st lv' = @Idle SetSpec ->
  is_read o (res_of o a1 b1) = true ->
  exists atr', IL g (mk_a a t (a_pub a) lv' atr') (tr ++ Conc.tag t [EvCli "ret" [a1; b1]]) L.
Proof.
  intros [(S & st & H1 & H2 & H3) H4] Hs Hl Hrd.
  destruct (lp_open_split _ _ _ t o H1) as (A & B & EA & HB & HP); [rewrite H2, Hs; reflexivity|].
  assert (HB' : forall e, In e B -> aev_tid e <> t) by (apply HP; rewrite H2; exact Hs).
  rewrite EA in H1. destruct (lp_run_remove A B t o S st H1 HB') as (st' & K1 & K2 & K3).
  exists (A ++ B). constructor; cbn [a_atr mk_a].
  - exists S, st'. split; [exact K1|]. split; [|exact H3].
    intros u. destruct (Nat.eq_dec u t) as [->|Hu].
    + rewrite view_mk_same. congruence.
    + rewrite view_mk_other by exact Hu. rewrite K2 by exact Hu. apply H2.
  - destruct (erase_split_last t o A B HB) as [J1 J2]. rewrite <- EA, H4 in J1, J2.
    rewrite upd_hist_app. cbn [Conc.tag map fold_left hstep String.eqb Ascii.eqb Bool.eqb].
    rewrite J1. cbv zeta. rewrite Hrd. symmetry. exact J2.
Qed.
