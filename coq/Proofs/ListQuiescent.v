(** * ListQuiescent: what a traversal of the list sees when no thread is inside an operation (C18-style corollaries of the
      C13 invariants), for the step models LV.Model.MichaelList and LV.Model.LazyList; every schedule.

    "No thread is inside an operation" is a property of the invoke / response history of the trace: every invocation
    has its response ([quiescent_hist]).  The abstract set is the state [S] of the LP-annotated trace [atr] that the
    linearizability theorems construct ([lp_run lp_init atr = Some (S, st)], [erase atr] = the history of the trace);
    in a quiescent configuration every operation of [atr] has responded ([st t = Idle] for every thread), so [S] is
    the result of running the completed operations in their linearization order.

    MichaelList: the unmarked nodes of the chain from m_pHead carry exactly the keys of [S], strictly increasing (this
    part holds in EVERY reachable configuration, quiescent or not: logically deleted nodes may still be linked, also
    in a quiescent configuration, and are skipped).
    LazyList: see the second half of the file. *)
From Coq Require Import ZArith List String Bool Lia PeanoNat.
From LV Require Import Base.Conc Base.Events Base.Lin Spec.Specs Proofs.LinProofs.
From LV Require Import Model.MichaelList Proofs.MichaelListBase Proofs.MichaelListInv Proofs.MichaelListSteps
                       Proofs.MichaelListLin Proofs.MichaelListActs Proofs.MichaelListProofs
                       Proofs.MichaelListFullInv Proofs.MichaelListFullActs Proofs.MichaelListFullProofs.
Import ListNotations.
Local Open Scope Z_scope.

(** ** histories: a thread is inside an operation *)
Definition open_step (t : nat) (acc : bool) (e : hev SetSpec) : bool :=
  match e with
  | HInv u _ => if Nat.eqb u t then true else acc
  | HRes u _ => if Nat.eqb u t then false else acc
  end.
Definition open_inv (t : nat) (h : history SetSpec) : bool := fold_left (open_step t) h false.
Definition quiescent_hist (h : history SetSpec) : Prop := forall t, open_inv t h = false.

Lemma open_inv_snoc t h e : open_inv t (h ++ [e]) = open_step t (open_inv t h) e.
Proof. unfold open_inv. rewrite fold_left_app. reflexivity. Qed.

(** in a valid LP-annotated trace a thread is idle iff its last history event is not an invocation *)
Lemma lp_idle : forall (atr : list (aev SetSpec)) S st,
  lp_run lp_init atr = Some (S, st) -> forall t, st t = @Idle SetSpec <-> open_inv t (erase atr) = false.
Proof.
  induction atr as [|e atr IH] using rev_ind; intros S st Hr t.
  - cbn in Hr. inversion Hr; subst. cbn. tauto.
  - rewrite lp_run_app in Hr. destruct (lp_run lp_init atr) as [[S0 st0]|] eqn:E0; [|discriminate].
    specialize (IH S0 st0 eq_refl). cbn [lp_run] in Hr.
    destruct (lp_step (S0, st0) e) as [c1|] eqn:E1; [|discriminate]. inversion Hr; subst c1; clear Hr.
    rewrite erase_app.
    destruct e as [u o|u|u r]; cbn [lp_step] in E1; cbn [erase].
    + destruct (st0 u) eqn:Eu; try discriminate. inversion E1; subst S st; clear E1.
      rewrite open_inv_snoc. cbn [open_step]. unfold upd. rewrite (Nat.eqb_sym t u).
      destruct (Nat.eqb_spec u t) as [->|Hne]; [split; discriminate|apply IH].
    + destruct (st0 u) as [|o0|] eqn:Eu; try discriminate. inversion E1; subst S st; clear E1.
      rewrite app_nil_r. unfold upd. destruct (Nat.eqb_spec t u) as [->|Hne]; [|apply IH].
      split; [discriminate|]. intros H. apply IH in H. congruence.
    + destruct (st0 u) as [| |o0 r0] eqn:Eu; try discriminate. destruct (res_eqb SetSpec r r0); try discriminate.
      inversion E1; subst S st; clear E1.
      rewrite open_inv_snoc. cbn [open_step]. unfold upd. rewrite (Nat.eqb_sym t u).
      destruct (Nat.eqb_spec u t) as [->|Hne]; [tauto|apply IH].
Qed.

Lemma zsorted_nodup l : zsorted l -> NoDup l.
Proof.
  induction l as [|x l IH]; intros H; constructor.
  - intros Hin. pose proof (zsorted_lt_all _ _ H x Hin). lia.
  - apply IH. destruct H; assumption.
Qed.

(** ** MichaelList *)
Definition live_keys (g : G) (L : list nat) : list Z := keys_of g (unmarked g L).

Lemma abs_live g L S : abs g L S -> forall k, zmem k S = true <-> In k (live_keys g L).
Proof.
  intros Ha k. rewrite (Ha k). unfold live_keys, keys_of, unmarked. rewrite in_map_iff. split.
  - intros (n & H1 & H2 & H3). exists n. split; [exact H3|]. apply filter_In. rewrite H2. auto.
  - intros (n & H1 & H2). apply filter_In in H2. destruct H2 as [H2 H3]. exists n. apply negb_true_iff in H3. auto.
Qed.

Theorem mlist_quiescent fuel sf ic ths c :
  Conc.reach (init_cfg fuel sf ic ths) c ->
  exists atr S st L,
    lp_run lp_init atr = Some (S, st) /\ erase atr = full_hist (Conc.trace c) /\
    list_nodes (Conc.shared c) L /\
    zsorted (live_keys (Conc.shared c) L) /\ NoDup (live_keys (Conc.shared c) L) /\
    (forall k, zmem k S = true <-> In k (live_keys (Conc.shared c) L)) /\
    (quiescent_hist (full_hist (Conc.trace c)) -> forall t, st t = @Idle SetSpec).
Proof.
  intros Hr. destruct (Conc.reach_Inv (init_ok2 fuel sf ic ths) Hr) as (a & L & HS & [(S & st & H1 & _ & H3) (pend & H2 & _)]).
  destruct (chain_keys_sorted _ _ (is_chain _ _ _ HS)) as [K1 K2].
  assert (Hs : zsorted (live_keys (Conc.shared c) L)) by (apply zsorted_sub; exact K1).
  exists (a_atr (b_base a)), S, st, L. split; [exact H1|]. split; [unfold full_hist; rewrite H2; reflexivity|].
  split; [split; [apply (is_chain _ _ _ HS)|exact K2]|]. split; [exact Hs|]. split; [apply zsorted_nodup; exact Hs|].
  split; [apply abs_live; exact H3|].
  intros Hq t. apply (lp_idle _ _ _ H1). unfold full_hist in Hq. rewrite H2 in Hq. apply Hq.
Qed.

(** ** MichaelList with the item counter ( atomicity::item_counter, [ic = true] ): at quiescence m_ItemCounter is the
    cardinality of the abstract set = the number of unmarked nodes of the chain (LV.Proofs.MichaelListCount, MichaelListCountProofs) *)
From LV Require Import Proofs.MichaelListCount Proofs.MichaelListCountProofs.
From Coq Require Import Permutation.

Lemma zmem_In k S : zmem k S = true <-> In k S.
Proof.
  unfold zmem. rewrite existsb_exists. split.
  - intros (x & Hx & E). apply Z.eqb_eq in E. subst. exact Hx.
  - intros H. exists k. split; [exact H|apply Z.eqb_refl].
Qed.

Lemma znodup_NoDup S : znodup S -> NoDup S.
Proof.
  induction S as [|x S IH]; intros H; constructor; destruct H as [H1 H2]; [|apply IH; exact H2].
  intros Hin. apply zmem_In in Hin. congruence.
Qed.

Theorem mlist_quiescent_count fuel sf ths c :
  Conc.reach (init_cfg fuel sf true ths) c ->
  exists atr S st L,
    lp_run lp_init atr = Some (S, st) /\ erase atr = full_hist (Conc.trace c) /\
    list_nodes (Conc.shared c) L /\
    zsorted (live_keys (Conc.shared c) L) /\ NoDup (live_keys (Conc.shared c) L) /\
    (forall k, zmem k S = true <-> In k (live_keys (Conc.shared c) L)) /\
    (quiescent_hist (full_hist (Conc.trace c)) ->
       (forall t, st t = @Idle SetSpec) /\
       count (Conc.shared c) = Z.of_nat (List.length S) /\
       count (Conc.shared c) = Z.of_nat (List.length (live_keys (Conc.shared c) L))).
Proof.
  intros Hr. destruct (Conc.reach_Inv (init_okC fuel sf ths) Hr) as (a & (L & HS & [(S & st & H1 & H2 & H3) (pend & H4 & H5)]) & (Hnd & Hout & Hcnt & Hz)).
  destruct (chain_keys_sorted _ _ (is_chain _ _ _ HS)) as [K1 K2].
  assert (Hs : zsorted (live_keys (Conc.shared c) L)) by (apply zsorted_sub; exact K1).
  assert (Eh : erase (a_atr (b_base (e_base a))) = full_hist (Conc.trace c)) by (unfold full_hist; rewrite H4; reflexivity).
  assert (Hne : no_extract (a_atr (b_base (e_base a)))).
  { intros t o Hin. apply erase_inv_in in Hin. rewrite Eh in Hin. apply (full_hist_ok _ t o Hin). }
  destruct (lp_size _ _ _ H1 Hne) as (_ & HndS & Hsz).
  exists (a_atr (b_base (e_base a))), S, st, L. split; [exact H1|]. split; [exact Eh|].
  split; [split; [apply (is_chain _ _ _ HS)|exact K2]|]. split; [exact Hs|]. split; [apply zsorted_nodup; exact Hs|].
  split; [apply abs_live; exact H3|].
  intros Hq.
  assert (Hidle : forall t, st t = @Idle SetSpec) by (intros t; apply (lp_idle _ _ _ H1); rewrite Eh; apply Hq).
  assert (Hc : count (Conc.shared c) = Z.of_nat (List.length S)).
  { rewrite (Hsz [] (NoDup_nil _)); [|intros t Ht; exfalso; apply Ht; apply Hidle]. cbn [sumf].
    rewrite Hcnt, Eh. rewrite sumf_zero; [lia|]. intros t _. apply Hz. unfold view2. cbn [fst]. rewrite <- H2. apply Hidle. }
  split; [exact Hidle|]. split; [exact Hc|]. rewrite Hc. f_equal. apply Permutation_length.
  apply NoDup_Permutation; [apply znodup_NoDup; exact HndS|apply zsorted_nodup; exact Hs|].
  intros k. rewrite <- zmem_In. apply abs_live. exact H3.
Qed.

(** ** LazyList (LV.Proofs.LazyListQuiescent).
    The history is [upd_hist] (the LazyList linearizability theorem covers the modifying operations; an operation that
    did not modify the list is deleted from the history when it returns, while it is running its invocation is in the
    history, so that a quiescent history means: no thread is inside ANY operation).  In a quiescent configuration no
    thread is between the two stores of unlink_node, no node reachable from m_Head is marked, and the traversal
    [lazy_keys] (follow m_pNext from the node after m_Head to m_Tail) yields exactly the keys of the abstract set,
    strictly increasing (strictly increasing holds in every reachable configuration: [lazy_sorted_nodup]). *)
From LV Require Model.LazyList Proofs.LazyListDefs Proofs.LazyListQuiescent.

Theorem lazy_quiescent fuel sf ic ths (c : Conc.config LazyList.G LazyList.V ev) :
  Conc.reach (LazyList.init_cfg fuel sf ic ths) c ->
  exists atr Sabs st0,
    lp_run lp_init atr = Some (Sabs, st0) /\ erase atr = upd_hist (Conc.trace c) /\
    LazyListDefs.increasing (LazyListDefs.lazy_keys (Conc.shared c)) /\
    (LazyListQuiescent.quiescent_hist (upd_hist (Conc.trace c)) ->
       (forall t, st0 t = @Idle SetSpec) /\
       (forall k, zmem k Sabs = true <-> In k (LazyListDefs.lazy_keys (Conc.shared c)))).
Proof. exact (LazyListQuiescent.lazy_quiescent fuel sf ic ths c). Qed.

(** LazyList with the item counter ( [ic = true] ): at quiescence m_ItemCounter is the cardinality of the abstract set =
    the number of nodes between m_Head and m_Tail (LV.Proofs.LazyListCount, LazyListCountProofs) *)
From LV Require Proofs.LazyListCountProofs.

Theorem lazy_quiescent_count fuel sf ths (c : Conc.config LazyList.G LazyList.V ev) :
  Conc.reach (LazyList.init_cfg fuel sf true ths) c ->
  exists atr Sabs st0,
    lp_run lp_init atr = Some (Sabs, st0) /\ erase atr = upd_hist (Conc.trace c) /\
    LazyListDefs.increasing (LazyListDefs.lazy_keys (Conc.shared c)) /\
    (LazyListQuiescent.quiescent_hist (upd_hist (Conc.trace c)) ->
       (forall t, st0 t = @Idle SetSpec) /\
       (forall k, zmem k Sabs = true <-> In k (LazyListDefs.lazy_keys (Conc.shared c))) /\
       LazyList.count (Conc.shared c) = Z.of_nat (List.length Sabs) /\
       LazyList.count (Conc.shared c) = Z.of_nat (List.length (LazyListDefs.lazy_keys (Conc.shared c)))).
Proof. exact (LazyListCountProofs.lazy_quiescent_count fuel sf ths c). Qed.
