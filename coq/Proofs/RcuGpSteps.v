(** * RcuGp: every kind of atomic access / client event preserves the invariant. *)
From Coq Require Import ZArith List String Bool Lia PeanoNat.
From LV Require Import Base.Conc Base.Events Model.RcuGp Proofs.RcuBits Proofs.RcuGpInv.
Import ListNotations.
Local Open Scope string_scope.
Local Open Scope list_scope.
Local Open Scope Z_scope.

Ltac upd_cases x t := unfold updA; destruct (Nat.eqb_spec x t) as [->|].
Ltac inv_split := unfold Inv; split; [|split; [|split]].
Ltac same_fields t := let x := fresh "x" in intros x; upd_cases x t; reflexivity.

Lemma app_len1 (tr : trace) x : List.length (tr ++ [x]) = S (List.length tr).
Proof. rewrite app_length. cbn. lia. Qed.

(** ** the writers' group under changes of reader fields / of one writer's state *)
Lemma wclause_mono a a' s :
  (forall r i, widx s = Some i -> old a' i r ->
     old a i r /\ l_rec (a' r) = l_rec (a r) /\ l_ph (a' r) = l_ph (a r)) ->
  wclause a s -> wclause a' s.
Proof.
  intros F H. destruct s as [|i|i|i k gph pos|i]; cbn [wclause widx] in *; auto.
  - destruct k, pos as [|done todo ld]; auto.
    + intros r Ho. destruct (F r i eq_refl Ho) as (Ho' & _ & ->). apply H; exact Ho'.
    + intros r m Ho. destruct (F r i eq_refl Ho) as (Ho' & -> & ->). apply H; exact Ho'.
    + intros r m Ho. destruct (F r i eq_refl Ho) as (Ho' & -> & ->). apply H; exact Ho'.
  - intros r Ho. destruct (F r i eq_refl Ho) as (Ho' & _). exact (H r Ho').
Qed.

Lemma InvW_mono a a' n n' :
  (n <= n')%nat -> (forall t, l_w (a' t) = l_w (a t)) ->
  (forall r i, (i <= n)%nat -> old a' i r -> old a i r /\ l_rec (a' r) = l_rec (a r) /\ l_ph (a' r) = l_ph (a r)) ->
  InvW a n -> InvW a' n'.
Proof.
  intros Hn Ew F [B C]. constructor.
  - intros w i. rewrite Ew. intros Hw. specialize (B w i Hw). lia.
  - intros w. rewrite Ew. eapply wclause_mono; [|apply C]. intros r i Hi. apply F. eapply B; eauto.
Qed.

(** thread [w] moves to writer state [st]; reader fields are untouched *)
Lemma InvW_writer a w st n n' :
  (n <= n')%nat -> InvW a n -> wclause a st -> (forall i, widx st = Some i -> (i <= n')%nat) ->
  InvW (updA a w (set_w (a w) st)) n'.
Proof.
  intros Hn [B C] Hc Hb.
  assert (E : forall r, l_rec (updA a w (set_w (a w) st) r) = l_rec (a r) /\ l_ph (updA a w (set_w (a w) st) r) = l_ph (a r) /\
                        l_cs (updA a w (set_w (a w) st) r) = l_cs (a r)).
  { intros r. upd_cases r w; auto. }
  assert (M : forall s, wclause a s -> wclause (updA a w (set_w (a w) st)) s).
  { intros s. apply wclause_mono. intros r i _ Ho. destruct (E r) as (A1 & A2 & A3).
    split; [|auto]. destruct Ho as (s0 & Hs & Hl). exists s0. rewrite <- A3. auto. }
  constructor.
  - intros x i. upd_cases x w.
    + cbn. apply Hb.
    + intros Hx. specialize (B x i Hx). lia.
  - intros x. upd_cases x w.
    + cbn. apply M. exact Hc.
    + apply M. apply C.
Qed.

(** ** an access that changes nothing the invariant looks at *)
Lemma Inv_acc g g' a tr t k o ok :
  g_list g' = g_list g -> g_nrec g' = g_nrec g -> g_tid g' = g_tid g -> g_acc g' = g_acc g ->
  g_lock g' = g_lock g -> g_ctl g' = g_ctl g ->
  Inv g a tr -> Inv g' a (tr ++ [(t, EvAcc k o ok)]).
Proof.
  intros E1 E2 E3 E4 E5 E6 (I1 & I2 & I3 & I4). inv_split.
  - eapply InvRec_ext; eauto.
  - eapply InvLock_ext; eauto.
  - rewrite app_len1. eapply InvW_ext; [| |exact I3]; auto.
  - eapply InvT_neutral; [apply neutral_acc| |exact I4]. auto.
Qed.

(** a client event that is neutral for the trace group and changes no auxiliary state *)
Lemma Inv_cli_neutral g a tr t e : neutral e -> Inv g a tr -> Inv g a (tr ++ [(t, e)]).
Proof.
  intros N (I1 & I2 & I3 & I4). inv_split; auto.
  - rewrite app_len1. eapply InvW_ext; [| |exact I3]; auto.
  - eapply InvT_neutral; eauto.
Qed.

(** the auxiliary state of thread [t] changes in reader fields only, shared state as far as records go stays *)
Lemma Inv_trace_part a a' tr t k o ok :
  (forall x, tfields (a' x) = tfields (a x)) -> InvT a tr -> InvT a' (tr ++ [(t, EvAcc k o ok)]).
Proof. intros E. apply InvT_neutral; [apply neutral_acc|exact E]. Qed.

(** ** thread-record steps *)

(** head load in alloc(): remember the list *)
Lemma step_seen g a tr t :
  Inv g a tr -> Inv g (updA a t (set_seen (a t) (g_list g))) (tr ++ [(t, EvAcc KLd obj_head true)]).
Proof.
  intros (I1 & I2 & I3 & I4). inv_split.
  - destruct I1 as [RA0 RU0 RF0 RN0 RP0 RPU0 RS0 RD0]. constructor; auto.
    + intros r m. upd_cases r t; [cbn|]; apply RA0.
    + intros r r' m. upd_cases r t; upd_cases r' t; cbn; try apply RU0.
    + intros r m. upd_cases r t; [cbn|]; apply RP0.
    + intros r r' m. upd_cases r t; upd_cases r' t; cbn; try apply RPU0.
    + intros r m. upd_cases r t; [cbn; auto|apply RS0].
    + intros r. upd_cases r t; [cbn|]; apply RD0.
  - eapply InvLock_ext; [| | |exact I2]; auto. same_fields t.
  - rewrite app_len1. eapply InvW_ext; [| |exact I3]; [lia|]. same_fields t.
  - eapply Inv_trace_part; [|exact I4]. same_fields t.
Qed.

(** successful claim of a free record seen in the list *)
Lemma step_claim g a tr t m me b :
  Inv g a tr -> In m (l_seen (a t)) -> l_rec (a t) = None -> g_tid g m = 0 -> me <> 0 ->
  g_acc g m = mkw b 0 ->
  Inv (set_tid g m me) (updA a t (set_dp (set_rec (a t) (Some m)) O b)) (tr ++ [(t, EvAcc KCas (obj_tid m) true)]).
Proof.
  intros (I1 & I2 & I3 & I4) Hin Hnone Hfree Hme Hacc.
  pose proof (RD _ _ I1 t) as (Dle & Dcs & Dnone). specialize (Dnone Hnone).
  assert (Hev : l_ev (a t) = O) by lia. assert (Hcs : l_cs (a t) = None) by (apply Dcs; exact Hev).
  assert (Hfree' : forall r, l_rec (a r) <> Some m).
  { intros r Hr. destruct (RA _ _ I1 r m Hr) as (_ & X & _). congruence. }
  inv_split.
  - destruct I1 as [RA0 RU0 RF0 RN0 RP0 RPU0 RS0 RD0]. constructor; cbn [set_tid g_list g_nrec g_tid g_acc].
    + intros r m0. upd_cases r t; cbn.
      * intros E; inversion E; subst m0. split; [eapply RS0; eauto|]. split; [unfold upd; rewrite Nat.eqb_refl; exact Hme|].
        split; [exact Hacc|]. unfold two31; lia.
      * intros Hr. destruct (RA0 r m0 Hr) as (A1 & A2 & A3 & A4). repeat split; auto.
        unfold upd. destruct (Nat.eqb_spec m0 m) as [->|]; [exfalso; eapply Hfree'; eauto|exact A2].
    + intros r r' m0. upd_cases r t; upd_cases r' t; cbn; auto.
      * intros E Hr; inversion E; subst. exfalso; eapply Hfree'; eauto.
      * intros Hr E; inversion E; subst. exfalso; eapply Hfree'; eauto.
      * apply RU0.
    + intros m0. unfold upd. destruct (Nat.eqb_spec m0 m) as [->|]; [congruence|apply RF0].
    + exact RN0.
    + intros r m0. upd_cases r t; cbn; intros Hr; destruct (RP0 _ _ Hr) as (A1 & A2 & A3 & A4); repeat split; auto; try lia;
        unfold upd; destruct (Nat.eqb_spec m0 m) as [->|]; auto.
    + intros r r' m0. upd_cases r t; upd_cases r' t; cbn; try apply RPU0.
    + intros r m0. upd_cases r t; [cbn|]; apply RS0.
    + intros r. upd_cases r t; [cbn|apply RD0]. split; [lia|]. split; [exact Dcs|discriminate].
  - eapply InvLock_ext; [| | |exact I2]; auto. same_fields t.
  - rewrite app_len1. eapply InvW_mono; [| | |exact I3]; [lia|same_fields t|].
    intros r i Hi (s & Hs & Hl). revert Hs. upd_cases r t; cbn.
    + rewrite Hcs; discriminate.
    + intros Hs. split; [exists s; auto|auto].
  - eapply Inv_trace_part; [|exact I4]. same_fields t.
Qed.

(** New + head load: a fresh record *)
Lemma step_new g a tr t me :
  Inv g a tr -> l_att (a t) = None -> me <> 0 ->
  Inv (set_nrec (set_acc (set_tid g (S (g_nrec g)) me) (S (g_nrec g)) 0) (S (g_nrec g)))
      (updA a t (set_att (a t) (Some (S (g_nrec g))))) (tr ++ [(t, EvAcc KLd obj_head true)]).
Proof.
  intros (I1 & I2 & I3 & I4) Hatt Hme. set (m := S (g_nrec g)).
  assert (Hnl : ~ In m (g_list g)) by (intros X; apply (RN _ _ I1) in X; unfold m in X; lia).
  inv_split.
  - destruct I1 as [RA0 RU0 RF0 RN0 RP0 RPU0 RS0 RD0]. constructor; cbn [set_nrec set_acc set_tid g_list g_nrec g_tid g_acc].
    + intros r m0. upd_cases r t; cbn; intros Hr; destruct (RA0 _ _ Hr) as (A1 & A2 & A3 & A4);
        assert (m0 <> m) by (intros ->; contradiction); repeat split; auto; unfold upd; destruct (Nat.eqb_spec m0 m); try contradiction; auto.
    + intros r r' m0. upd_cases r t; upd_cases r' t; cbn; try apply RU0.
    + intros m0. unfold upd. destruct (Nat.eqb_spec m0 m) as [->|]; [congruence|apply RF0].
    + intros m0 Hm. specialize (RN0 m0 Hm). fold m. lia.
    + intros r m0. upd_cases r t; cbn.
      * intros E; inversion E; subst m0. fold m. split; [lia|]. split; [exact Hnl|].
        unfold upd. rewrite Nat.eqb_refl. auto.
      * intros Hr. destruct (RP0 _ _ Hr) as (A1 & A2 & A3 & A4). assert (m0 <> m) by (unfold m; lia).
        fold m. split; [lia|]. split; [exact A2|]. unfold upd. destruct (Nat.eqb_spec m0 m); try contradiction; auto.
    + intros r r' m0. upd_cases r t; upd_cases r' t; cbn; auto.
      * intros E Hr; inversion E; subst. destruct (RP0 _ _ Hr) as (A1 & _). unfold m in A1. lia.
      * intros Hr E; inversion E; subst. destruct (RP0 _ _ Hr) as (A1 & _). unfold m in A1. lia.
      * apply RPU0.
    + intros r m0. upd_cases r t; [cbn|]; apply RS0.
    + intros r. upd_cases r t; [cbn|]; apply RD0.
  - eapply InvLock_ext; [| | |exact I2]; auto. same_fields t.
  - rewrite app_len1. eapply InvW_ext; [| |exact I3]; [lia|]. same_fields t.
  - eapply Inv_trace_part; [|exact I4]. same_fields t.
Qed.

(** successful head CAS: the pending record becomes my record *)
Lemma step_push g a tr t m :
  Inv g a tr -> l_att (a t) = Some m -> l_rec (a t) = None ->
  Inv (set_list g (m :: g_list g)) (updA a t (set_dp (set_rec (set_att (a t) None) (Some m)) O false))
      (tr ++ [(t, EvAcc KCas obj_head true)]).
Proof.
  intros (I1 & I2 & I3 & I4) Hatt Hnone.
  pose proof (RD _ _ I1 t) as (Dle & Dcs & Dnone). specialize (Dnone Hnone).
  assert (Hev : l_ev (a t) = O) by lia. assert (Hcs : l_cs (a t) = None) by (apply Dcs; exact Hev).
  destruct (RP _ _ I1 t m Hatt) as (P1 & P2 & P3 & P4).
  inv_split.
  - destruct I1 as [RA0 RU0 RF0 RN0 RP0 RPU0 RS0 RD0]. constructor; cbn [set_list g_list g_nrec g_tid g_acc].
    + intros r m0. upd_cases r t; cbn.
      * intros E; inversion E; subst m0. split; [left; reflexivity|]. split; [exact P3|]. split; [rewrite P4; reflexivity|unfold two31; lia].
      * intros Hr. destruct (RA0 _ _ Hr) as (A1 & A2 & A3 & A4). repeat split; auto; try (right; exact A1).
    + intros r r' m0. upd_cases r t; upd_cases r' t; cbn; auto.
      * intros E Hr; inversion E; subst. destruct (RA0 _ _ Hr) as (A1 & _). contradiction.
      * intros Hr E; inversion E; subst. destruct (RA0 _ _ Hr) as (A1 & _). contradiction.
      * apply RU0.
    + exact RF0.
    + intros m0 [<-|Hm]; [exact P1|apply RN0; exact Hm].
    + intros r m0. upd_cases r t; cbn; [discriminate|].
      intros Hr. destruct (RP0 _ _ Hr) as (A1 & A2 & A3 & A4). split; [exact A1|]. split; [|auto].
      intros [<-|X]; [|contradiction]. apply n. eapply RPU0; eauto.
    + intros r r' m0. upd_cases r t; upd_cases r' t; cbn; try discriminate; try apply RPU0; try (intros _ X; discriminate).
    + intros r m0. upd_cases r t; [cbn|]; intros X; right; eapply RS0; eauto.
    + intros r. upd_cases r t; [cbn|apply RD0]. split; [lia|]. split; [exact Dcs|discriminate].
  - eapply InvLock_ext; [| | |exact I2]; auto. same_fields t.
  - rewrite app_len1. eapply InvW_mono; [| | |exact I3]; [lia|same_fields t|].
    intros r i Hi (s & Hs & Hl). revert Hs. upd_cases r t; cbn.
    + rewrite Hcs; discriminate.
    + intros Hs. split; [exists s; auto|auto].
  - eapply Inv_trace_part; [|exact I4]. same_fields t.
Qed.

(** detach: thread_id_.store( null ) *)
Lemma step_detach g a tr t m :
  Inv g a tr -> l_rec (a t) = Some m -> l_depth (a t) = O ->
  Inv (set_tid g m 0) (updA a t (set_rec (a t) None)) (tr ++ [(t, EvAcc KSt (obj_tid m) true)]).
Proof.
  intros (I1 & I2 & I3 & I4) Hrec Hd.
  pose proof (RD _ _ I1 t) as (Dle & Dcs & Dnone).
  assert (Hev : l_ev (a t) = O) by lia. assert (Hcs : l_cs (a t) = None) by (apply Dcs; exact Hev).
  destruct (RA _ _ I1 t m Hrec) as (A1 & A2 & A3 & A4).
  inv_split.
  - destruct I1 as [RA0 RU0 RF0 RN0 RP0 RPU0 RS0 RD0]. constructor; cbn [set_tid g_list g_nrec g_tid g_acc].
    + intros r m0. upd_cases r t; cbn; [discriminate|].
      intros Hr. destruct (RA0 _ _ Hr) as (B1 & B2 & B3 & B4). repeat split; auto.
      unfold upd. destruct (Nat.eqb_spec m0 m) as [->|]; [exfalso; apply n; eapply RU0; eauto|exact B2].
    + intros r r' m0. upd_cases r t; upd_cases r' t; cbn; try discriminate; try apply RU0; try (intros _ X; discriminate).
    + intros m0. unfold upd. destruct (Nat.eqb_spec m0 m) as [->|]; [|apply RF0].
      intros _. exists (l_ph (a t)). rewrite A3, Hd. reflexivity.
    + exact RN0.
    + intros r m0. upd_cases r t; cbn; intros Hr; destruct (RP0 _ _ Hr) as (B1 & B2 & B3 & B4); repeat split; auto; try lia;
        unfold upd; destruct (Nat.eqb_spec m0 m) as [->|]; auto; contradiction.
    + intros r r' m0. upd_cases r t; upd_cases r' t; cbn; try apply RPU0.
    + intros r m0. upd_cases r t; [cbn|]; apply RS0.
    + intros r. upd_cases r t; [cbn|apply RD0]. split; [lia|]. split; [exact Dcs|auto].
  - eapply InvLock_ext; [| | |exact I2]; auto. same_fields t.
  - rewrite app_len1. eapply InvW_mono; [| | |exact I3]; [lia|same_fields t|].
    intros r i Hi (s & Hs & Hl). revert Hs. upd_cases r t; cbn.
    + rewrite Hcs; discriminate.
    + intros Hs. split; [exists s; auto|auto].
  - eapply Inv_trace_part; [|exact I4]. same_fields t.
Qed.

(** m_nAccessControl.store of a well-formed word by the owner *)
Lemma step_acc_st g a tr t m ph d :
  Inv g a tr -> l_rec (a t) = Some m -> Z.of_nat d < two31 -> (l_ev (a t) <= d)%nat ->
  (l_cs (a t) = None \/ ph = l_ph (a t)) ->
  Inv (set_acc g m (mkw ph (Z.of_nat d))) (updA a t (set_dp (a t) d ph)) (tr ++ [(t, EvAcc KSt (obj_acc m) true)]).
Proof.
  intros (I1 & I2 & I3 & I4) Hrec Hd Hev Hph.
  pose proof (RD _ _ I1 t) as (Dle & Dcs & Dnone).
  destruct (RA _ _ I1 t m Hrec) as (A1 & A2 & A3 & A4).
  inv_split.
  - destruct I1 as [RA0 RU0 RF0 RN0 RP0 RPU0 RS0 RD0]. constructor; cbn [set_acc g_list g_nrec g_tid g_acc].
    + intros r m0. upd_cases r t; cbn.
      * rewrite Hrec. intros E; inversion E; subst m0. repeat split; auto. unfold upd. rewrite Nat.eqb_refl. reflexivity.
      * intros Hr. destruct (RA0 _ _ Hr) as (B1 & B2 & B3 & B4). repeat split; auto.
        unfold upd. destruct (Nat.eqb_spec m0 m) as [->|]; [exfalso; apply n; eapply RU0; eauto|exact B3].
    + intros r r' m0. upd_cases r t; upd_cases r' t; cbn; try apply RU0.
    + intros m0 Hm. unfold upd. destruct (Nat.eqb_spec m0 m) as [->|]; [congruence|apply RF0; exact Hm].
    + exact RN0.
    + intros r m0. upd_cases r t; cbn; intros Hr; destruct (RP0 _ _ Hr) as (B1 & B2 & B3 & B4); repeat split; auto; try lia;
        unfold upd; destruct (Nat.eqb_spec m0 m) as [->|]; auto; contradiction.
    + intros r r' m0. upd_cases r t; upd_cases r' t; cbn; try apply RPU0.
    + intros r m0. upd_cases r t; [cbn|]; apply RS0.
    + intros r. upd_cases r t; [cbn|apply RD0]. split; [exact Hev|]. split; [exact Dcs|]. rewrite Hrec; discriminate.
  - eapply InvLock_ext; [| | |exact I2]; auto. same_fields t.
  - rewrite app_len1. eapply InvW_mono; [| | |exact I3]; [lia|same_fields t|].
    intros r i Hi (s & Hs & Hl). revert Hs. upd_cases r t; cbn.
    + intros Hs. split; [exists s; auto|]. split; [reflexivity|]. destruct Hph as [X|X]; [congruence|exact X].
    + intros Hs. split; [exists s; auto|auto].
  - eapply Inv_trace_part; [|exact I4]. same_fields t.
Qed.

(** ** client events of the reader side *)

(** rlock / runlock event that does not open / close the outermost section *)
Lemma step_ev_nested g a tr t e (d : nat) :
  neutral e -> Inv g a tr -> (d <= l_depth (a t))%nat -> l_ev (a t) <> O -> d <> O ->
  Inv g (updA a t (set_evcs (a t) d (l_cs (a t)))) (tr ++ [(t, e)]).
Proof.
  intros N (I1 & I2 & I3 & I4) Hd Hev Hd0.
  pose proof (RD _ _ I1 t) as (Dle & Dcs & Dnone).
  inv_split.
  - destruct I1 as [RA0 RU0 RF0 RN0 RP0 RPU0 RS0 RD0]. constructor; auto.
    + intros r m. upd_cases r t; [cbn|]; apply RA0.
    + intros r r' m. upd_cases r t; upd_cases r' t; cbn; try apply RU0.
    + intros r m. upd_cases r t; [cbn|]; apply RP0.
    + intros r r' m. upd_cases r t; upd_cases r' t; cbn; try apply RPU0.
    + intros r m. upd_cases r t; [cbn|]; apply RS0.
    + intros r. upd_cases r t; [cbn|apply RD0]. split; [exact Hd|]. split; [|exact Dnone].
      split; [intros X; apply Dcs in X; contradiction|intros X; contradiction].
  - eapply InvLock_ext; [| | |exact I2]; auto. same_fields t.
  - rewrite app_len1. eapply InvW_ext; [| |exact I3]; [lia|]. same_fields t.
  - eapply InvT_neutral; [exact N| |exact I4]. same_fields t.
Qed.

(** the event that opens the outermost section *)
Lemma step_ev_rlock1 g a tr t e :
  is_rlock1 e = true -> Inv g a tr -> l_ev (a t) = O -> (1 <= l_depth (a t))%nat ->
  Inv g (updA a t (set_evcs (a t) 1%nat (Some (List.length tr)))) (tr ++ [(t, e)]).
Proof.
  intros He (I1 & I2 & I3 & I4) Hev Hd.
  pose proof (RD _ _ I1 t) as (Dle & Dcs & Dnone).
  assert (Hcs : l_cs (a t) = None) by (apply Dcs; exact Hev).
  assert (N2 : is_runlock0 e = false /\ is_sync_begin e = false /\ is_sync_end e = false /\ is_any_dispose e = false).
  { unfold is_rlock1, cli_is in He. destruct e as [|n [|x r]]; try discriminate. apply andb_prop in He. destruct He as (He & _).
    apply String.eqb_eq in He. subst n. repeat split. }
  destruct N2 as (N2 & N3 & N4 & N5).
  inv_split.
  - destruct I1 as [RA0 RU0 RF0 RN0 RP0 RPU0 RS0 RD0]. constructor; auto.
    + intros r m. upd_cases r t; [cbn|]; apply RA0.
    + intros r r' m. upd_cases r t; upd_cases r' t; cbn; try apply RU0.
    + intros r m. upd_cases r t; [cbn|]; apply RP0.
    + intros r r' m. upd_cases r t; upd_cases r' t; cbn; try apply RPU0.
    + intros r m. upd_cases r t; [cbn|]; apply RS0.
    + intros r. upd_cases r t; [cbn|apply RD0]. split; [exact Hd|]. split; [|exact Dnone]. split; discriminate.
  - eapply InvLock_ext; [| | |exact I2]; auto. same_fields t.
  - rewrite app_len1. eapply InvW_mono; [| | |exact I3]; [lia|same_fields t|].
    intros r i Hi (s & Hs & Hl). revert Hs. upd_cases r t; cbn.
    + intros E; inversion E; subst s. lia.
    + intros Hs. split; [exists s; auto|auto].
  - destruct I4 as [T3 T4 TM0 TR0 SW0 DS0]. constructor.
    + intros r s. upd_cases r t; cbn.
      * intros E; inversion E; subst s. split; [apply at_snoc_last; exact He|].
        intros b Hb Hat. apply at_lt in Hat. rewrite app_len1 in Hat. lia.
      * intros Hc. destruct (T3 r s Hc) as (A & B). split; [apply at_app_l; exact A|].
        intros b Hb Hat. destruct (at_snoc_inv _ _ _ _ _ _ Hat) as [Hat'|(_ & X & _)]; [eapply B; eauto|congruence].
    + intros r s Hat. destruct (at_snoc_inv _ _ _ _ _ _ Hat) as [Hat'|(-> & -> & _)].
      * destruct (T4 r s Hat') as [A|(b & Hb & Hrb & Hs)].
        -- upd_cases r t; cbn; [congruence|left; exact A].
        -- right. exists b. split; [exact Hb|]. split; [apply at_app_l; exact Hrb|].
           upd_cases r t; cbn; [|exact Hs]. intros s' E; inversion E; subst s'. eapply at_lt; eauto.
      * left. rewrite updA_same. reflexivity.
    + intros w i. upd_cases w t; cbn; intros Hc; destruct (TM0 _ i Hc) as (A & B); (split; [apply at_app_l; exact A|]);
        intros k Hk Hat; (destruct (at_snoc_inv _ _ _ _ _ _ Hat) as [Hat'|(_ & _ & X)]; [eapply B; eauto|congruence]).
    + intros w i p. upd_cases w t; cbn; intros Hc; apply at_app_l; eapply TR0; eauto.
    + apply sync_waits_snoc; assumption.
    + apply dispose_safe_snoc; assumption.
Qed.

(** the event that closes the outermost section *)
Lemma step_ev_runlock0 g a tr t e :
  is_runlock0 e = true -> Inv g a tr -> l_ev (a t) = 1%nat ->
  Inv g (updA a t (set_evcs (a t) O None)) (tr ++ [(t, e)]).
Proof.
  intros He (I1 & I2 & I3 & I4) Hev.
  pose proof (RD _ _ I1 t) as (Dle & Dcs & Dnone).
  assert (N2 : is_rlock1 e = false /\ is_sync_begin e = false /\ is_sync_end e = false /\ is_any_dispose e = false).
  { unfold is_runlock0, cli_is in He. destruct e as [|n [|x r]]; try discriminate. apply andb_prop in He. destruct He as (He & _).
    apply String.eqb_eq in He. subst n. repeat split. }
  destruct N2 as (N1 & N3 & N4 & N5).
  destruct (l_cs (a t)) as [s0|] eqn:Hcs; [|exfalso; assert (l_ev (a t) = O) by (apply Dcs; reflexivity); lia].
  inv_split.
  - destruct I1 as [RA0 RU0 RF0 RN0 RP0 RPU0 RS0 RD0]. constructor; auto.
    + intros r m. upd_cases r t; [cbn|]; apply RA0.
    + intros r r' m. upd_cases r t; upd_cases r' t; cbn; try apply RU0.
    + intros r m. upd_cases r t; [cbn|]; apply RP0.
    + intros r r' m. upd_cases r t; upd_cases r' t; cbn; try apply RPU0.
    + intros r m. upd_cases r t; [cbn|]; apply RS0.
    + intros r. upd_cases r t; [cbn|apply RD0]. split; [lia|]. split; [tauto|exact Dnone].
  - eapply InvLock_ext; [| | |exact I2]; auto. same_fields t.
  - rewrite app_len1. eapply InvW_mono; [| | |exact I3]; [lia|same_fields t|].
    intros r i Hi (s & Hs & Hl). revert Hs. upd_cases r t; cbn.
    + discriminate.
    + intros Hs. split; [exists s; auto|auto].
  - destruct I4 as [T3 T4 TM0 TR0 SW0 DS0]. constructor.
    + intros r s. upd_cases r t; cbn; [discriminate|].
      intros Hc. destruct (T3 r s Hc) as (A & B). split; [apply at_app_l; exact A|].
      intros b Hb Hat. destruct (at_snoc_inv _ _ _ _ _ _ Hat) as [Hat'|(_ & X & _)]; [eapply B; eauto|congruence].
    + intros r s Hat. destruct (at_snoc_inv _ _ _ _ _ _ Hat) as [Hat'|(_ & _ & X)]; [|congruence].
      destruct (T4 r s Hat') as [A|(b & Hb & Hrb & Hs)].
      * upd_cases r t; cbn; [|left; exact A].
        right. rewrite Hcs in A. inversion A; subst s0. exists (List.length tr).
        split; [eapply at_lt; eauto|]. split; [apply at_snoc_last; exact He|discriminate].
      * right. exists b. split; [exact Hb|]. split; [apply at_app_l; exact Hrb|].
        upd_cases r t; cbn; [discriminate|exact Hs].
    + intros w i. upd_cases w t; cbn; intros Hc; destruct (TM0 _ i Hc) as (A & B); (split; [apply at_app_l; exact A|]);
        intros k Hk Hat; (destruct (at_snoc_inv _ _ _ _ _ _ Hat) as [Hat'|(_ & _ & X)]; [eapply B; eauto|congruence]).
    + intros w i p. upd_cases w t; cbn; intros Hc; apply at_app_l; eapply TR0; eauto.
    + apply sync_waits_snoc; assumption.
    + apply dispose_safe_snoc; assumption.
Qed.
