(** * RcuPtr (C04): exempt_ptr dereference validity and the nesting clause, for every schedule.

    [ptr_xtouch_custody]  (strict client contract) when a thread dereferences its exempt_ptr outside any section
                          ("xtouch p"): it took p into custody before ("hold p"), it has not released p, nobody has
                          retired p yet;
    [ptr_xtouch_valid]    hence an "xtouch p" never follows the "dispose p";
    [ptr_touch_dispose_after_outermost]  (nesting) a node touched through find / raw_ptr inside a - possibly nested -
                          read-side section is disposed only after the toucher's OUTERMOST section has been closed
                          ("runlock 0"); inner lock / unlock pairs do not end the protection.

    Ingredients: the thread-local books of LV.Proofs.RcuPtrXHold ([xt_ok], any schedule), the custody theorems of
    LV.Proofs.RcuPtrThm (unique "hold", "retire" only by the holder after its "release") and the grace-period theorem. *)
From Coq Require Import ZArith List String Bool Lia PeanoNat.
From LV Require Import Base.Conc Base.Events Model.RcuGp Model.RcuPtr Proofs.RcuGpInv Proofs.RcuPtrInv Proofs.RcuPtrBase
  Proofs.RcuPtrThm Proofs.RcuPtrXHold Proofs.RcuPtrXDispThm.
Import ListNotations.
Local Open Scope string_scope.
Local Open Scope list_scope.
Local Open Scope Z_scope.

(** ** counting and positions *)
Lemma cnt_cons P t a l : cnt P t (a :: l) = ((if Nat.eqb (fst a) t && P (snd a) then 1 else 0) + cnt P t l)%nat.
Proof. unfold cnt. cbn [filter]. destruct (Nat.eqb (fst a) t && P (snd a)); reflexivity. Qed.

Lemma at_cons_S P t a l i : at_ (a :: l) (S i) t P <-> at_ l i t P.
Proof. unfold at_. cbn. tauto. Qed.

Lemma at_cons_0 P t (a : nat * ev) l : at_ (a :: l) 0 t P <-> (Nat.eqb (fst a) t && P (snd a) = true).
Proof.
  unfold at_. cbn. destruct a as [t' e]. cbn. split.
  - intros (e' & H & HP). inversion H; subst. rewrite Nat.eqb_refl. exact HP.
  - intros H. apply andb_prop in H. destruct H as (H1 & H2). apply Nat.eqb_eq in H1. subst. eauto.
Qed.

Lemma cnt_pos_at P t l : (0 < cnt P t l)%nat -> exists i, at_ l i t P.
Proof.
  induction l as [|a l IH]; [cbn; lia|]. rewrite cnt_cons. destruct (Nat.eqb (fst a) t && P (snd a)) eqn:E.
  - intros _. exists O. apply (proj2 (at_cons_0 P t a l)). exact E.
  - intros H. destruct (IH H) as (i & Hi). exists (S i). apply (proj2 (at_cons_S P t a l i)). exact Hi.
Qed.

Lemma at_cnt_pos P t l : forall i, at_ l i t P -> (0 < cnt P t l)%nat.
Proof.
  induction l as [|a l IH]; intros i H; [destruct H as (e & H & _); destruct i; discriminate|].
  rewrite cnt_cons. destruct i as [|i].
  - pose proof (proj1 (at_cons_0 P t a l) H) as H'. rewrite H'. lia.
  - pose proof (proj1 (at_cons_S P t a l i) H) as H'. specialize (IH i H'). lia.
Qed.

Lemma cnt_le1 P t l : (forall i j, at_ l i t P -> at_ l j t P -> i = j) -> (cnt P t l <= 1)%nat.
Proof.
  induction l as [|a l IH]; intros U; [cbn; lia|]. rewrite cnt_cons.
  destruct (Nat.eqb (fst a) t && P (snd a)) eqn:E.
  - assert (Z0 : cnt P t l = O).
    { destruct (cnt P t l) eqn:C; [reflexivity|]. exfalso. destruct (cnt_pos_at P t l ltac:(lia)) as (j & Hj).
      assert (X : O = S j) by (apply U; [apply (proj2 (at_cons_0 P t a l)); exact E|apply (proj2 (at_cons_S P t a l j)); exact Hj]). discriminate. }
    lia.
  - assert (X : (cnt P t l <= 1)%nat).
    { apply IH. intros i j Hi Hj. assert (Y : S i = S j) by (apply U; [apply (proj2 (at_cons_S P t a l i))|apply (proj2 (at_cons_S P t a l j))]; assumption). lia. }
    lia.
Qed.

Lemma nth_error_firstn_lt {A} (l : list A) : forall x i, nth_error (firstn x l) i = if (i <? x)%nat then nth_error l i else None.
Proof.
  induction l as [|a l IH]; intros x i.
  - rewrite firstn_nil. destruct i; destruct (_ <? _)%nat; reflexivity.
  - destruct x as [|x]; [cbn; destruct i; reflexivity|]. destruct i as [|i]; [reflexivity|]. cbn [firstn nth_error]. rewrite IH.
    change (S i <? S x)%nat with (i <? x)%nat. reflexivity.
Qed.

Lemma at_firstn tr x i t P : at_ (firstn x tr) i t P <-> (i < x)%nat /\ at_ tr i t P.
Proof.
  unfold at_. rewrite nth_error_firstn_lt. destruct (Nat.ltb_spec i x) as [L|L].
  - split; [intros H; split; [exact L|exact H]|intros (_ & H); exact H].
  - split; [intros (e & H & _); discriminate|intros (X & _); lia].
Qed.

Lemma xtouch_not_retire p q e : is_xtouch p e = true -> is_retire q e = true -> False.
Proof.
  unfold is_xtouch, is_retire, cli_is. destruct e as [|n [|x l]]; try discriminate. intros A B.
  apply andb_prop in A, B. destruct A as (A & _), B as (B & _). apply String.eqb_eq in A, B. congruence.
Qed.

(** ** exempt_ptr dereference validity *)
Theorem ptr_xtouch_custody fuel ths c :
  Conc.reach (pinit_cfg true fuel ths) c ->
  forall x t p, at_ (Conc.trace c) x t (is_xtouch p) ->
    (exists u, (u < x)%nat /\ at_ (Conc.trace c) u t (is_hold p)) /\
    (forall r, (r < x)%nat -> ~ at_ (Conc.trace c) r t (is_release p)) /\
    (forall k w, at_ (Conc.trace c) k w (is_retire p) -> (x < k)%nat).
Proof.
  intros Hr x t p Hx. set (tr := Conc.trace c) in *.
  pose proof (ptr_xtouch_paid_all _ _ _ _ Hr x t p Hx) as Hlt. fold tr in Hlt.
  assert (U : (cnt (is_hold p) t (firstn x tr) <= 1)%nat).
  { apply cnt_le1. intros i j Hi Hj. apply (proj1 (at_firstn _ _ _ _ _)) in Hi. apply (proj1 (at_firstn _ _ _ _ _)) in Hj. destruct Hi as (_ & Hi), Hj as (_ & Hj).
    destruct (ptr_hold_unique _ _ _ Hr p i t j t Hi Hj) as (E & _). exact E. }
  assert (Hh : exists u, (u < x)%nat /\ at_ tr u t (is_hold p)).
  { destruct (cnt_pos_at (is_hold p) t (firstn x tr) ltac:(lia)) as (u & Hu). apply (proj1 (at_firstn _ _ _ _ _)) in Hu. exists u. exact Hu. }
  assert (Hnr : forall r, (r < x)%nat -> ~ at_ tr r t (is_release p)).
  { intros r Lr Hrel. assert (X : at_ (firstn x tr) r t (is_release p)) by (apply (proj2 (at_firstn tr x r t (is_release p))); auto).
    apply at_cnt_pos in X. lia. }
  split; [exact Hh|]. split; [exact Hnr|].
  intros k w Hret. destruct (Nat.lt_trichotomy k x) as [L|[E|G]]; [|subst k|exact G]; exfalso.
  - destruct (ptr_retire_by_holder_after_release _ _ _ Hr k w p Hret) as (u' & r & Hur & H1 & H2 & _).
    destruct Hh as (u & Lu & Hu). destruct (ptr_hold_unique _ _ _ Hr p u t u' w Hu H1) as (_ & ->).
    apply (Hnr r); [lia|exact H2].
  - destruct Hx as (e & He & Pe), Hret as (e' & He' & Pe'). fold tr in He'. rewrite He in He'. inversion He'; subst.
    eapply xtouch_not_retire; eauto.
Qed.

Theorem ptr_xtouch_valid fuel ths c :
  Conc.reach (pinit_cfg true fuel ths) c ->
  forall p x t d w, at_ (Conc.trace c) x t (is_xtouch p) -> at_ (Conc.trace c) d w (is_dispose p) -> (x < d)%nat.
Proof.
  intros Hr p x t d w Hx Hd.
  destruct (ptr_dispose_safe_all _ _ _ _ Hr w p d Hd) as (k & w' & Hk & Hret & _).
  destruct (ptr_xtouch_custody _ _ _ Hr x t p Hx) as (_ & _ & H). specialize (H k w' Hret). lia.
Qed.

(** ** nesting: the disposal waits for the toucher's outermost section *)
Theorem ptr_touch_dispose_after_outermost fuel ths c :
  Conc.reach (pinit_cfg true fuel ths) c ->
  forall p x r d w, at_ (Conc.trace c) x r (is_touch p) -> at_ (Conc.trace c) d w (is_dispose p) ->
    exists s b, (s < x < b)%nat /\ (b < d)%nat /\ at_ (Conc.trace c) s r is_rlock1 /\
      (forall j, (s < j < x)%nat -> ~ at_ (Conc.trace c) j r is_runlock0) /\ at_ (Conc.trace c) b r is_runlock0.
Proof.
  intros Hr p x r d w Ht Hd. destruct (ptr_inv2 _ _ _ Hr) as (g & a & _ & IT). set (tr := Conc.trace c) in *.
  destruct (ptr_dispose_safe_all _ _ _ _ Hr w p d Hd) as (k & w' & Hk & Hret & Hall). fold tr in Hret, Hall.
  destruct (R3 _ _ IT x r p Ht) as (s & Hs & S1' & S2' & S3').
  pose proof (S3' k w' Hret) as Hsk.
  assert (Hb : exists b, (s < b < d)%nat /\ at_ tr b r is_runlock0).
  { destruct (search_between (fun b => at_ tr b r is_runlock0) (fun b => at_dec tr b r is_runlock0) s k) as [(b & Hb & Hat)|Hno].
    - exists b. split; [lia|exact Hat].
    - destruct (Hall r s) as (b & Hb & Hat); [split; [exact S1'|split; [exact Hsk|exact Hno]]|]. exists b. split; [lia|exact Hat]. }
  destruct Hb as (b & Hb & Hat). exists s, b.
  assert (Lx : (x < b)%nat).
  { destruct (Nat.lt_trichotomy b x) as [L|[E|G]]; [|subst b|exact G]; exfalso.
    - apply (S2' b); [lia|exact Hat].
    - destruct Ht as (e & He & Pe), Hat as (e' & He' & Pe'). rewrite He in He'. inversion He'; subst.
      eapply touch_not_runlock; eauto. }
  repeat split; auto; lia.
Qed.

(** ** computed runs *)

(** non-vacuity of the exempt_ptr theorems: extract, dereference outside any section, release, disposal *)
Definition xderef_run := run_case [1; 50] [[[1]; [5]; [11]; [12]; [13]]] [] 3000.

Lemma xderef_run_events :
  snd xderef_run = true /\
  map snd (filter (fun x => orb (is_hold 1 (snd x)) (orb (is_xtouch 1 (snd x)) (orb (is_release 1 (snd x))
             (orb (is_retire 1 (snd x)) (is_dispose 1 (snd x)))))) (clis xderef_run))
  = [EvCli "hold" [1]; EvCli "xtouch" [1]; EvCli "release" [1]; EvCli "retire" [1]; EvCli "dispose" [1]].
Proof. vm_compute. split; reflexivity. Qed.

(** nesting: thread 0 obtains the raw_ptr at depth 2 ("rlock 2"), closes the inner section ("runlock 1"); thread 1 erases
    the node, releases and retires it and waits; thread 0 dereferences the raw_ptr at depth 1 ("touch 1") and closes its
    outermost section ("runlock 0"); only then "dispose 1" *)
Definition nested_sched : list nat := repeat 0%nat 21 ++ repeat 1%nat 60 ++ repeat 0%nat 10 ++ repeat 1%nat 400.
Definition nested_run := run_case [1; 300] [[[1]; [5]; [3]; [3]; [7]; [4]; [8]; [4]]; [[1]; [10]]] nested_sched 6000.

Definition sect_or_node (e : ev) : bool :=
  is_cli "rlock" e || is_cli "runlock" e || is_touch 1 e || is_retire 1 e || is_dispose 1 e.

Lemma nested_run_events :
  snd nested_run = true /\
  skipn 2 (filter (fun x => sect_or_node (snd x)) (clis nested_run)) =
  [(0%nat, EvCli "rlock" [1; 1]); (0%nat, EvCli "rlock" [2; 2]); (0%nat, EvCli "runlock" [1]);
   (1%nat, EvCli "rlock" [1; 1]); (1%nat, EvCli "runlock" [0]); (1%nat, EvCli "retire" [1]);
   (0%nat, EvCli "touch" [1]); (0%nat, EvCli "runlock" [0]); (1%nat, EvCli "dispose" [1])].
Proof. vm_compute. split; reflexivity. Qed.

(** release inside a NESTED section ([strict = false], what the NDEBUG code executes): the exempt_ptr is released at depth 1
    after an inner lock / unlock pair: "release 1", "retire 1", then the grace period never ends *)
Definition nested_deadlock_run (sfuel : Z) := run_case [0; sfuel] [[[1]; [5]; [11]; [3]; [3]; [4]; [13]]] [] 6000.

Lemma nested_release_inside_deadlocks :
  forall sfuel, In sfuel [5; 40; 160] ->
    snd (nested_deadlock_run sfuel) = true /\
    skipn 4 (map snd (filter (fun x => sect_or_node (snd x) || is_release 1 (snd x) || is_cli "outoffuel" (snd x))
                        (clis (nested_deadlock_run sfuel)))) =
    [EvCli "rlock" [1; 1]; EvCli "rlock" [2; 2]; EvCli "runlock" [1]; EvCli "release" [1]; EvCli "retire" [1];
     EvCli "outoffuel" []].
Proof. intros sfuel [<-|[<-|[<-|[]]]]; vm_compute; split; reflexivity. Qed.
