(** * MichaelListFullActs: the proof rule [Conc.safe] for each atomic access, for the invariant [Inv2] of the
      full-linearizability development (observations re-linearize read operations). *)
From Coq Require Import ZArith List String Bool Lia PeanoNat.
From LV Require Import Base.Conc Base.Events Base.Lin Spec.Specs Proofs.LinProofs.
From LV Require Import Model.MichaelList Proofs.MichaelListBase Proofs.MichaelListInv Proofs.MichaelListSteps
                       Proofs.MichaelListLin Proofs.MichaelListActs Proofs.MichaelListProofs Proofs.MichaelListFullInv.
Import ListNotations.
Local Open Scope Z_scope.

Notation safe2 := (@Conc.safe G V ev aux2 lview2 view2 Inv2).

Lemma view2_split a t lv c : view2 a t = (lv, c) -> view (b_base a) t = lv /\ b_code a t = c.
Proof. unfold view2. intros E. inversion E. auto. Qed.

Lemma Inv2_acc g g' a t lv lv' c L tr kd ob ok :
  IS g (b_base a) L -> IL2 g a tr L -> view2 a t = (lv, c) ->
  (forall x, heap g' x = heap g x) -> nalloc g' = nalloc g ->
  Forall (fact_ok g (a_pub (b_base a))) (lv_facts lv') -> lv_own lv' = lv_own lv -> lv_st lv' = lv_st lv ->
  Inv2 g' (mk_a2 a t (a_pub (b_base a)) lv' (a_atr (b_base a)) c) (tr ++ Conc.tag t [EvAcc kd ob ok]).
Proof.
  intros HS HL Hv H1 H2 Hf Ho Hs. destruct (view2_split _ _ _ _ Hv) as [Hv1 Hv2]. exists L. split.
  - apply (IS_neutral g g' (b_base a) t lv' (a_atr (b_base a)) L HS H1 H2 Hf). congruence.
  - rewrite <- Hv2. apply (IL2_acc g g' a t (a_pub (b_base a)) lv' L L tr kd ob ok HL); [congruence|].
    intros S. apply abs_ext. exact H1.
Qed.

Lemma Inv2_acc_same g a t lv c L tr kd ob ok :
  IS g (b_base a) L -> IL2 g a tr L -> view2 a t = (lv, c) ->
  Inv2 g (mk_a2 a t (a_pub (b_base a)) lv (a_atr (b_base a)) c) (tr ++ Conc.tag t [EvAcc kd ob ok]).
Proof.
  intros HS HL Hv. destruct (view2_split _ _ _ _ Hv) as [Hv1 Hv2].
  eapply Inv2_acc; eauto. eapply facts_of_view; eauto.
Qed.

Lemma safe2_neutral {R} t f v (k : V -> prog R) lv c Q :
  neutral f v -> safe2 t (k v) (lv, c) Q -> safe2 t (Act f k) (lv, c) Q.
Proof.
  intros Hf Hk. cbn [Conc.safe]. intros g a tr (L & HS & HL) Hv.
  destruct (Hf g) as (g' & kd & ob & E & H1 & H2). rewrite E. cbn [fst snd].
  destruct (view2_split _ _ _ _ Hv) as [Hv1 Hv2].
  exists (mk_a2 a t (a_pub (b_base a)) lv (a_atr (b_base a)) c). split; [|split; [apply frame2_mk|rewrite view2_mk_same; exact Hk]].
  eapply Inv2_acc; eauto. eapply facts_of_view; eauto.
Qed.

(** ** loads, with the observation rule *)
Definition cell_key (F : list fact) (l : nat) (ck : option Z) : Prop :=
  (l = 0%nat /\ ck = None) \/ (exists kl, In (FPub l kl) F /\ ck = Some kl).
Definition known_ptr (F : list fact) (kp : option (nat * Z)) : Prop :=
  match kp with None => True | Some (pc, kc) => In (FPub pc kc) F end.

Definition absent_rule (kp : option (nat * Z)) (k : Z) (v : V) : option bool :=
  if Nat.eqb (vptr v) 0 then Some false
  else match kp with
       | Some (pc, kc) => if Nat.eqb (vptr v) pc && Z.ltb k kc then Some false else None
       | None => None
       end.
Definition obs_rule (ck : option Z) (kp : option (nat * Z)) (k : Z) (v : V) : option bool :=
  if vmark v then None
  else match ck with
       | Some kl => if Z.eqb kl k then Some true else if Z.ltb kl k then absent_rule kp k v else None
       | None => absent_rule kp k v
       end.
Definition obs_st (o : set_op) (ob : option bool) (s : status SetSpec) : status SetSpec :=
  match ob with Some b => lin_read o b s | None => s end.

Lemma open_read_obs o ob s : open_read s o -> open_read (obs_st o ob s) o.
Proof. destruct ob; cbn [obs_st]; auto. apply open_read_lin. Qed.

Lemma cell_key_ppub F l ck : cell_key F l ck -> ppub F l.
Proof. intros [[-> _]|(kl & H & _)]; [left; reflexivity|right; eauto]. Qed.

(** the abstract set does not contain k / contains k, from the chain *)
Lemma abs_absent g L S k : abs g L S -> (forall n, In n L -> nkey (heap g n) <> k) -> zmem k S = false.
Proof.
  intros Ha H. destruct (zmem k S) eqn:E; auto. apply Ha in E. destruct E as (n & H1 & _ & H3). exfalso. eapply H; eauto.
Qed.

Lemma safe2_ld {R} t l ck kp o (k : V -> prog R) lv c Q :
  cell_key (lv_facts lv) l ck -> known_ptr (lv_facts lv) kp -> open_read (lv_st lv) o ->
  (forall v, (l = 0%nat -> vmark v = false) ->
             safe2 t (k v) (mkLV (newfacts l v ++ lv_facts lv) (lv_own lv)
                                 (obs_st o (obs_rule ck kp (op_key o) v) (lv_st lv)), c) Q) ->
  safe2 t (Act (a_ld l) k) (lv, c) Q.
Proof.
  intros Hck Hkp Hop Hk. cbn [Conc.safe]. intros g a tr (L & HS & HL) Hv.
  destruct (view2_split _ _ _ _ Hv) as [Hv1 Hv2].
  unfold a_ld, rd. cbn [fst snd].
  set (v := mkV (nnext (heap g l)) (nmark (heap g l)) (nkey (heap g (nnext (heap g l))))).
  pose proof (ppub_pubz _ _ _ _ _ _ HS Hv1 (cell_key_ppub _ _ _ Hck)) as Hpz.
  set (lv' := mkLV (newfacts l v ++ lv_facts lv) (lv_own lv) (obs_st o (obs_rule ck kp (op_key o) v) (lv_st lv))).
  assert (HF : Forall (fact_ok g (a_pub (b_base a))) (lv_facts lv')).
  { cbn [lv' lv_facts]. apply Forall_app. split; [|eapply facts_of_view; eauto].
    unfold newfacts. apply Forall_app. split.
    - subst v; cbn [vptr vkey]. destruct (Nat.eqb_spec (nnext (heap g l)) 0); constructor; [|constructor].
      cbn [fact_ok]. repeat split; auto. destruct (pubz_next _ _ _ _ HS Hpz); [contradiction|assumption].
    - subst v; cbn [vmark vptr]. destruct (nmark (heap g l)) eqn:Em; constructor; [|constructor].
      cbn [fact_ok]. assert (l <> 0%nat).
      { intros ->. rewrite (is_head _ _ _ HS) in Em. discriminate. }
      repeat split; auto. destruct Hpz; [contradiction|assumption]. }
  (* does the rule fire with a result? *)
  assert (Hhead : l = 0%nat -> vmark v = false) by (intros ->; subst v; cbn [vmark]; apply (is_head _ _ _ HS)).
  pose proof (Hk v Hhead) as Hkv. fold lv' in Hkv.
  destruct (obs_rule ck kp (op_key o) v) as [b|] eqn:Er.
  2: { exists (mk_a2 a t (a_pub (b_base a)) lv' (a_atr (b_base a)) c).
       split; [|split; [apply frame2_mk|rewrite view2_mk_same; exact Hkv]].
       eapply Inv2_acc; eauto. }
  destruct (obs_res o b) as [r|] eqn:Eo.
  2: { exists (mk_a2 a t (a_pub (b_base a)) lv' (a_atr (b_base a)) c).
       split; [|split; [apply frame2_mk|rewrite view2_mk_same; exact Hkv]].
       eapply Inv2_acc; eauto. cbn [lv' lv_st obs_st]. unfold lin_read. rewrite Eo. reflexivity. }
  (* an observation: re-linearize *)
  assert (Hz : forall S, abs g L S -> zmem (op_key o) S = b).
  { intros S Ha. unfold obs_rule in Er. subst v; cbn [vmark vptr vkey] in Er.
    destruct (nmark (heap g l)) eqn:Em; [discriminate|].
    pose proof (pubz_unmarked_in _ _ _ _ HS Hpz Em) as HlL.
    assert (Habsent : absent_rule kp (op_key o) (mkV (nnext (heap g l)) false (nkey (heap g (nnext (heap g l))))) = Some b ->
                      olt (okey g l) (Some (op_key o)) -> zmem (op_key o) S = b).
    { unfold absent_rule; cbn [vptr]. intros Hr Hlt.
      assert (Hnx : nnext (heap g l) = 0%nat \/ op_key o < nkey (heap g (nnext (heap g l)))).
      { destruct (Nat.eqb_spec (nnext (heap g l)) 0) as [E0|E0]; [left; exact E0|right].
        destruct kp as [[pc kc]|]; [|discriminate].
        destruct (Nat.eqb_spec (nnext (heap g l)) pc) as [Ep|]; [|discriminate]. cbn [andb] in Hr.
        destruct (Z.ltb_spec (op_key o) kc); [|discriminate].
        pose proof (fact_in _ _ _ _ _ _ HS Hv1 Hkp) as (_ & _ & K). rewrite Ep, K. lia. }
      assert (b = false) as ->.
      { destruct (Nat.eqb (nnext (heap g l)) 0); [congruence|]. destruct kp as [[pc kc]|]; [|discriminate].
        destruct (Nat.eqb (nnext (heap g l)) pc && Z.ltb (op_key o) kc); congruence. }
      apply (abs_absent g L S _ Ha). eapply absent_between; eauto. apply (is_chain _ _ _ HS). }
    destruct Hck as [[-> ->]|(kl & Hkl & ->)].
    - apply Habsent; [exact Er|]. cbn. exact I.
    - pose proof (fact_in _ _ _ _ _ _ HS Hv1 Hkl) as (Hl0 & Hlp & Hlk).
      destruct (Z.eqb_spec kl (op_key o)) as [Ek|Ek].
      + inversion Er; subst b. apply Ha. exists l. destruct HlL as [E0|HlL]; [congruence|]. repeat split; auto. congruence.
      + destruct (Z.ltb_spec kl (op_key o)); [|discriminate]. apply Habsent; [exact Er|].
        unfold okey. destruct (Nat.eqb_spec l 0); [contradiction|]. cbn. lia. }
  assert (Hop' : open_read (lv_st (view (b_base a) t)) o) by (rewrite Hv1; exact Hop).
  destruct (IL2_lin g g a t (a_pub (b_base a)) lv' L L tr KLd (obj_loc l) true o HL Hop') as (atr' & HL').
  { intros S Ha. rewrite (obs_res_step o b r S Eo (Hz S Ha)). cbn [fst snd]. split; [exact Ha|].
    cbn [lv' lv_st obs_st]. unfold lin_read. rewrite Eo. reflexivity. }
  exists (mk_a2 a t (a_pub (b_base a)) lv' atr' c).
  split; [|split; [apply frame2_mk|rewrite view2_mk_same; exact Hkv]].
  exists L. split; [|rewrite <- Hv2; exact HL'].
  apply (IS_neutral g g (b_base a) t lv' atr' L HS (fun _ => eq_refl) eq_refl HF). cbn. congruence.
Qed.

(** the structural invariant does not look at the annotated trace *)
Lemma IS_atr g a t pub' lv' atr1 atr2 L : IS g (mk_a a t pub' lv' atr1) L -> IS g (mk_a a t pub' lv' atr2) L.
Proof. intros [H1 H2 H3 H4 H5 H6 H7]. constructor; auto. Qed.

(** ** the CASes *)
(** second CAS of [unlink_node] (the operation is already linearized by its mark CAS): no observation *)
Lemma safe2_cas_unlink {R} t m c nx (k : V -> prog R) lv cd Q :
  ppub (lv_facts lv) m -> In (FFrozen c nx) (lv_facts lv) ->
  safe2 t (k (vok true)) (lv, cd) Q -> safe2 t (k (vok false)) (lv, cd) Q ->
  safe2 t (Act (a_cas m c nx false) k) (lv, cd) Q.
Proof.
  intros Hm Hfz Hk1 Hk0. cbn [Conc.safe]. intros g a tr (L & HS & HL) Hv.
  destruct (view2_split _ _ _ _ Hv) as [Hv1 Hv2].
  pose proof (ppub_pubz _ _ _ _ _ _ HS Hv1 Hm) as Hpz.
  pose proof (fact_in _ _ _ _ _ _ HS Hv1 Hfz) as (Hc0 & Hcp & Hcm & Hcn).
  unfold a_cas, rd. destruct (Nat.eqb_spec (nnext (heap g m)) c) as [E1|E1]; cbn [andb].
  - destruct (nmark (heap g m)) eqn:E2; cbn [negb fst snd].
    + exists (mk_a2 a t (a_pub (b_base a)) lv (a_atr (b_base a)) cd). split; [|split; [apply frame2_mk|rewrite view2_mk_same; exact Hk0]].
      eapply Inv2_acc_same; eauto.
    + assert (HF : Forall (fact_ok (wr g m nx false) (a_pub (b_base a))) (lv_facts lv)).
      { eapply facts_stable; [|eapply facts_of_view; eauto]. intros n Hn. rewrite nkey_wr. repeat split; auto.
        - assert (n <> m) by congruence. rewrite heap_wr_other; auto.
        - assert (n <> m) by congruence. rewrite heap_wr_other; auto. }
      destruct (IS_unlink g (b_base a) t lv (a_atr (b_base a)) L m c nx HS Hpz E2 E1 Hc0 Hcp Hcm Hcn HF) as (L' & HS' & HcL & HL'); [congruence|].
      exists (mk_a2 a t (a_pub (b_base a)) lv (a_atr (b_base a)) cd). split; [|split; [apply frame2_mk|rewrite view2_mk_same; exact Hk1]].
      exists L'. split; [exact HS'|]. rewrite <- Hv2.
      apply (IL2_acc g _ a t (a_pub (b_base a)) lv L L' tr KCas (obj_loc m) true HL); [congruence|].
      intros S Ha k0. rewrite (Ha k0). split.
      * intros (n & H1 & H2 & H3). exists n. assert (n <> c) by congruence.
        split; [apply HL'; auto|]. rewrite nkey_wr. split; auto.
        destruct (Nat.eq_dec n m) as [->|Hn]; [rewrite heap_wr_same; reflexivity|now rewrite heap_wr_other].
      * intros (n & H1 & H2 & H3). exists n. apply HL' in H1. destruct H1 as [H1 Hnc]. rewrite nkey_wr in H3.
        split; auto. split; auto.
        destruct (Nat.eq_dec n m) as [->|Hn]; [exact E2|now rewrite heap_wr_other in H2].
  - cbn [fst snd].
    exists (mk_a2 a t (a_pub (b_base a)) lv (a_atr (b_base a)) cd). split; [|split; [apply frame2_mk|rewrite view2_mk_same; exact Hk0]].
    eapply Inv2_acc_same; eauto.
Qed.

(** the helping CAS of [search]: when it makes [m] (key below k) point to null, k is observed absent *)
Lemma safe2_cas_help {R} t m c nx o (k : V -> prog R) lv cd Q :
  ppub (lv_facts lv) m -> klt (lv_facts lv) m (op_key o) -> In (FFrozen c nx) (lv_facts lv) -> open_read (lv_st lv) o ->
  safe2 t (k (vok true)) (mkLV (lv_facts lv) (lv_own lv) (if Nat.eqb nx 0 then lin_read o false (lv_st lv) else lv_st lv), cd) Q ->
  safe2 t (k (vok false)) (lv, cd) Q ->
  safe2 t (Act (a_cas m c nx false) k) (lv, cd) Q.
Proof.
  intros Hm Hkl Hfz Hop Hk1 Hk0. cbn [Conc.safe]. intros g a tr (L & HS & HL) Hv.
  destruct (view2_split _ _ _ _ Hv) as [Hv1 Hv2].
  pose proof (ppub_pubz _ _ _ _ _ _ HS Hv1 Hm) as Hpz.
  pose proof (fact_in _ _ _ _ _ _ HS Hv1 Hfz) as (Hc0 & Hcp & Hcm & Hcn).
  unfold a_cas, rd. destruct (Nat.eqb_spec (nnext (heap g m)) c) as [E1|E1]; cbn [andb].
  - destruct (nmark (heap g m)) eqn:E2; cbn [negb fst snd].
    + exists (mk_a2 a t (a_pub (b_base a)) lv (a_atr (b_base a)) cd). split; [|split; [apply frame2_mk|rewrite view2_mk_same; exact Hk0]].
      eapply Inv2_acc_same; eauto.
    + set (lv' := mkLV (lv_facts lv) (lv_own lv) (if Nat.eqb nx 0 then lin_read o false (lv_st lv) else lv_st lv)).
      assert (HF : Forall (fact_ok (wr g m nx false) (a_pub (b_base a))) (lv_facts lv')).
      { cbn [lv' lv_facts]. eapply facts_stable; [|eapply facts_of_view; eauto]. intros n Hn. rewrite nkey_wr. repeat split; auto.
        - assert (n <> m) by congruence. rewrite heap_wr_other; auto.
        - assert (n <> m) by congruence. rewrite heap_wr_other; auto. }
      assert (Habs : forall L', (forall x, In x L' <-> In x L /\ x <> c) -> forall S, abs g L S -> abs (wr g m nx false) L' S).
      { intros L' HL' S Ha k0. rewrite (Ha k0). split.
        * intros (n & H1 & H2 & H3). exists n. assert (n <> c) by congruence.
          split; [apply HL'; auto|]. rewrite nkey_wr. split; auto.
          destruct (Nat.eq_dec n m) as [->|Hn]; [rewrite heap_wr_same; reflexivity|now rewrite heap_wr_other].
        * intros (n & H1 & H2 & H3). exists n. apply HL' in H1. destruct H1 as [H1 Hnc]. rewrite nkey_wr in H3.
          split; auto. split; auto.
          destruct (Nat.eq_dec n m) as [->|Hn]; [exact E2|now rewrite heap_wr_other in H2]. }
      assert (Hown' : lv_own lv' = lv_own (view (b_base a) t)) by (cbn; congruence).
      destruct (obs_res o false) as [r|] eqn:Eo; [destruct (Nat.eqb_spec nx 0) as [Enx|Enx]|].
      * (* observation: m now points to null *)
        destruct (IS_unlink g (b_base a) t lv' (a_atr (b_base a)) L m c nx HS Hpz E2 E1 Hc0 Hcp Hcm Hcn HF Hown') as (L' & HS' & HcL & HL').
        assert (Hop' : open_read (lv_st (view (b_base a) t)) o) by (rewrite Hv1; exact Hop).
        destruct (IL2_lin g (wr g m nx false) a t (a_pub (b_base a)) lv' L L' tr KCas (obj_loc m) true o HL Hop') as (atr' & HL2).
        { intros S Ha. pose proof (Habs L' HL' S Ha) as Ha'.
          assert (Hz : zmem (op_key o) S = false).
          { apply (abs_absent _ L' S _ Ha'). eapply absent_between with (m := m).
            - apply (is_chain _ _ _ HS').
            - pose proof (pubz_unmarked_in _ _ _ _ HS Hpz E2) as HmL. destruct HmL as [<-|HmL]; [left; reflexivity|].
              right. apply HL'. split; auto. congruence.
            - rewrite okey_wr. unfold okey. destruct Hkl as [->|(kl & Hkl & Hlt)]; [exact I|].
              pose proof (fact_in _ _ _ _ _ _ HS Hv1 Hkl) as (K0 & _ & K2). destruct (Nat.eqb_spec m 0); [contradiction|]. cbn. lia.
            - left. rewrite heap_wr_same. cbn. exact Enx. }
          rewrite (obs_res_step o false r S Eo Hz). cbn [fst snd]. split; [exact Ha'|].
          cbn [lv' lv_st]. destruct (Nat.eqb_spec nx 0); [|contradiction]. unfold lin_read. rewrite Eo. reflexivity. }
        exists (mk_a2 a t (a_pub (b_base a)) lv' atr' cd).
        split; [|split; [apply frame2_mk|rewrite view2_mk_same; exact Hk1]].
        exists L'. split; [|rewrite <- Hv2; exact HL2].
        eapply IS_atr; exact HS'.
      * (* no observation: nx <> 0 *)
        destruct (IS_unlink g (b_base a) t lv' (a_atr (b_base a)) L m c nx HS Hpz E2 E1 Hc0 Hcp Hcm Hcn HF Hown') as (L' & HS' & HcL & HL').
        exists (mk_a2 a t (a_pub (b_base a)) lv' (a_atr (b_base a)) cd). split; [|split; [apply frame2_mk|rewrite view2_mk_same; exact Hk1]].
        exists L'. split; [exact HS'|]. rewrite <- Hv2.
        apply (IL2_acc g _ a t (a_pub (b_base a)) lv' L L' tr KCas (obj_loc m) true HL); [|apply Habs; exact HL'].
        cbn [lv' lv_st]. destruct (Nat.eqb_spec nx 0); [contradiction|congruence].
      * (* the operation has no "absent" result: status unchanged *)
        destruct (IS_unlink g (b_base a) t lv' (a_atr (b_base a)) L m c nx HS Hpz E2 E1 Hc0 Hcp Hcm Hcn HF Hown') as (L' & HS' & HcL & HL').
        exists (mk_a2 a t (a_pub (b_base a)) lv' (a_atr (b_base a)) cd). split; [|split; [apply frame2_mk|rewrite view2_mk_same; exact Hk1]].
        exists L'. split; [exact HS'|]. rewrite <- Hv2.
        apply (IL2_acc g _ a t (a_pub (b_base a)) lv' L L' tr KCas (obj_loc m) true HL); [|apply Habs; exact HL'].
        cbn [lv' lv_st]. unfold lin_read. rewrite Eo. destruct (Nat.eqb nx 0); congruence.
  - cbn [fst snd].
    exists (mk_a2 a t (a_pub (b_base a)) lv (a_atr (b_base a)) cd). split; [|split; [apply frame2_mk|rewrite view2_mk_same; exact Hk0]].
    eapply Inv2_acc_same; eauto.
Qed.

(** logical deletion: the linearization point of erase / unlink / extract (possibly replacing an earlier "absent" observation) *)
Lemma safe2_cas_mark {R} t c kc nx (k : V -> prog R) lv cd Q :
  In (FPub c kc) (lv_facts lv) -> open_read (lv_st lv) (SErase kc) ->
  safe2 t (k (vok true)) (mkLV (FFrozen c nx :: lv_facts lv) (lv_own lv) (@Linearized SetSpec (SErase kc) (RBool true)), cd) Q ->
  safe2 t (k (vok false)) (lv, cd) Q ->
  safe2 t (Act (a_cas c nx nx true) k) (lv, cd) Q.
Proof.
  intros Hc Hst Hk1 Hk0. cbn [Conc.safe]. intros g a tr (L & HS & HL) Hv.
  destruct (view2_split _ _ _ _ Hv) as [Hv1 Hv2].
  pose proof (fact_in _ _ _ _ _ _ HS Hv1 Hc) as (Hc0 & Hcp & Hck).
  unfold a_cas, rd. destruct (Nat.eqb_spec (nnext (heap g c)) nx) as [E1|E1]; cbn [andb].
  - destruct (nmark (heap g c)) eqn:E2; cbn [negb fst snd].
    + exists (mk_a2 a t (a_pub (b_base a)) lv (a_atr (b_base a)) cd). split; [|split; [apply frame2_mk|rewrite view2_mk_same; exact Hk0]].
      eapply Inv2_acc_same; eauto.
    + set (lv' := mkLV (FFrozen c nx :: lv_facts lv) (lv_own lv) (@Linearized SetSpec (SErase kc) (RBool true))).
      assert (HF : Forall (fact_ok (wr g c nx true) (a_pub (b_base a))) (lv_facts lv')).
      { cbn [lv' lv_facts]. constructor.
        - cbn [fact_ok]. rewrite heap_wr_same. cbn. auto.
        - eapply facts_stable; [|eapply facts_of_view; eauto]. intros n Hn. rewrite nkey_wr. repeat split; auto.
          + assert (n <> c) by congruence. rewrite heap_wr_other; auto.
          + assert (n <> c) by congruence. rewrite heap_wr_other; auto. }
      assert (Hop' : open_read (lv_st (view (b_base a) t)) (SErase kc)) by (rewrite Hv1; exact Hst).
      destruct (IL2_lin g (wr g c nx true) a t (a_pub (b_base a)) lv' L L tr KCas (obj_loc c) true (SErase kc) HL Hop') as (atr' & HL').
      { intros S Ha.
        assert (HcL : In c L) by (apply (is_pub _ _ _ HS c Hcp); exact E2).
        assert (Hz : zmem kc S = true) by (apply Ha; exists c; auto).
        cbn [set_step]. rewrite Hz. cbn [fst snd]. split; [|reflexivity].
        intros k0. rewrite zmem_zdel, (Ha k0). split.
        * intros (Hne & n & H1 & H2 & H3). exists n. split; auto. rewrite nkey_wr. split; auto.
          assert (n <> c) by (intros ->; congruence). now rewrite heap_wr_other.
        * intros (n & H1 & H2 & H3). rewrite nkey_wr in H3.
          assert (Hnc : n <> c) by (intros ->; rewrite heap_wr_same in H2; discriminate).
          rewrite heap_wr_other in H2 by exact Hnc. split; [|exists n; auto].
          intros ->. apply Hnc. eapply keys_inj; eauto; [apply (is_chain _ _ _ HS)|congruence]. }
      exists (mk_a2 a t (a_pub (b_base a)) lv' atr' cd).
      split; [|split; [apply frame2_mk|rewrite view2_mk_same; exact Hk1]].
      exists L. split; [|rewrite <- Hv2; exact HL'].
      apply (IS_mark g (b_base a) t lv' atr' L c nx HS Hcp E2 E1 HF). cbn; congruence.
  - cbn [fst snd].
    exists (mk_a2 a t (a_pub (b_base a)) lv (a_atr (b_base a)) cd). split; [|split; [apply frame2_mk|rewrite view2_mk_same; exact Hk0]].
    eapply Inv2_acc_same; eauto.
Qed.

Lemma safe2_cas_link {R} t m pc n kk o (k : V -> prog R) lv cd Q :
  ppub (lv_facts lv) m -> klt (lv_facts lv) m kk ->
  (pc = 0%nat \/ exists kc, In (FPub pc kc) (lv_facts lv) /\ kk < kc) ->
  lv_own lv = Some (n, kk, pc) -> open_read (lv_st lv) o -> ins_op o kk ->
  safe2 t (k (vok true)) (mkLV (FPub n kk :: lv_facts lv) None (@Linearized SetSpec o (ins_res o)), cd) Q ->
  safe2 t (k (vok false)) (lv, cd) Q ->
  safe2 t (Act (a_cas m pc n false) k) (lv, cd) Q.
Proof.
  intros Hm Hkm Hkc Hown Hst Hop Hk1 Hk0. cbn [Conc.safe]. intros g a tr (L & HS & HL) Hv.
  destruct (view2_split _ _ _ _ Hv) as [Hv1 Hv2].
  pose proof (ppub_pubz _ _ _ _ _ _ HS Hv1 Hm) as Hpz.
  unfold a_cas, rd. destruct (Nat.eqb_spec (nnext (heap g m)) pc) as [E1|E1]; cbn [andb].
  - destruct (nmark (heap g m)) eqn:E2; cbn [negb fst snd].
    + exists (mk_a2 a t (a_pub (b_base a)) lv (a_atr (b_base a)) cd). split; [|split; [apply frame2_mk|rewrite view2_mk_same; exact Hk0]].
      eapply Inv2_acc_same; eauto.
    + set (lv' := mkLV (FPub n kk :: lv_facts lv) None (@Linearized SetSpec o (ins_res o))).
      pose proof (is_own _ _ _ HS t) as Kown. rewrite Hv1, Hown in Kown. cbn [own_ok] in Kown. destruct Kown as (Kn & Knp & Knh).
      assert (Hnm : n <> m).
      { intros ->. destruct Hpz as [->|Hp]; [lia|congruence]. }
      assert (HF : Forall (fact_ok (wr g m n false) (pub_add (a_pub (b_base a)) n)) (lv_facts lv')).
      { cbn [lv' lv_facts]. constructor.
        - cbn [fact_ok]. unfold pub_add. rewrite Nat.eqb_refl, nkey_wr, Knh. cbn. repeat split; auto. lia.
        - eapply facts_stable; [|eapply facts_of_view; eauto]. intros x Hx. rewrite nkey_wr.
          split; [unfold pub_add; destruct (Nat.eqb x n); auto|]. split; auto. intros Hmk.
          assert (x <> m) by congruence. rewrite heap_wr_other; auto. }
      assert (Hk1' : olt (okey g m) (Some kk)).
      { unfold okey. destruct Hkm as [->|(kl & Hkl & Hlt)]; [exact I|].
        pose proof (fact_in _ _ _ _ _ _ HS Hv1 Hkl) as (K0 & _ & K2). destruct (Nat.eqb_spec m 0); [contradiction|].
        cbn. lia. }
      assert (Hk2' : pc = 0%nat \/ kk < nkey (heap g pc)).
      { destruct Hkc as [->|(kc & Hkc & Hlt)]; [left; reflexivity|right].
        pose proof (fact_in _ _ _ _ _ _ HS Hv1 Hkc) as (_ & _ & K2). lia. }
      rewrite <- Hv1 in Hown.
      destruct (IS_link g (b_base a) t lv' (a_atr (b_base a)) L m n kk pc HS Hpz E2 E1 Hown Hk1' Hk2' HF eq_refl) as (L' & HS' & HnL & HL').
      assert (Hop' : open_read (lv_st (view (b_base a) t)) o) by (rewrite Hv1; exact Hst).
      destruct (IL2_lin g (wr g m n false) a t (pub_add (a_pub (b_base a)) n) lv' L L' tr KCas (obj_loc m) true o HL Hop') as (atr' & HL2).
      { intros S Ha.
        assert (Hkey : forall x, nkey (heap (wr g m n false) x) = nkey (heap g x)) by (intros; apply nkey_wr).
        assert (Hz : zmem kk S = false).
        { destruct (zmem kk S) eqn:Ez; auto. exfalso. apply Ha in Ez. destruct Ez as (x & H1 & H2 & H3).
          apply HnL. replace n with x; [exact H1|].
          eapply (keys_inj (wr g m n false) L'); [apply (is_chain _ _ _ HS')|apply HL'; auto|apply HL'; auto|].
          rewrite !Hkey, Knh. exact H3. }
        assert (Hmark : forall x, x <> n -> nmark (heap (wr g m n false) x) = nmark (heap g x)).
        { intros x Hx. destruct (Nat.eq_dec x m) as [->|Hxm]; [rewrite heap_wr_same; cbn; congruence|now rewrite heap_wr_other]. }
        assert (Habs : abs (wr g m n false) L' (kk :: S)).
        { intros k0. cbn [zmem existsb]. rewrite orb_true_iff. fold (zmem k0 S). rewrite (Ha k0). split.
          - intros [Ek|(x & H1 & H2 & H3)].
            + apply Z.eqb_eq in Ek. subst k0. exists n. split; [apply HL'; auto|].
              rewrite heap_wr_other by exact Hnm. rewrite Knh. auto.
            + exists x. assert (x <> n) by (intros ->; contradiction).
              split; [apply HL'; auto|]. rewrite Hkey, Hmark; auto.
          - intros (x & H1 & H2 & H3). apply HL' in H1. destruct H1 as [->|H1].
            + left. rewrite Hkey, Knh in H3. cbn in H3. subst k0. apply Z.eqb_refl.
            + right. exists x. assert (x <> n) by (intros ->; contradiction).
              rewrite Hkey in H3. rewrite Hmark in H2; auto. }
        destruct Hop as [->| ->]; cbn [set_step ins_res]; rewrite Hz; cbn [fst snd]; auto. }
      exists (mk_a2 a t (pub_add (a_pub (b_base a)) n) lv' atr' cd).
      split; [|split; [apply frame2_mk|rewrite view2_mk_same; exact Hk1]].
      exists L'. split; [eapply IS_atr; exact HS'|rewrite <- Hv2; exact HL2].
  - cbn [fst snd].
    exists (mk_a2 a t (a_pub (b_base a)) lv (a_atr (b_base a)) cd). split; [|split; [apply frame2_mk|rewrite view2_mk_same; exact Hk0]].
    eapply Inv2_acc_same; eauto.
Qed.

(** ** stores to the caller's own node *)
Lemma safe2_alloc_st {R} t kk p (k : V -> prog R) lv cd Q :
  (forall n, safe2 t (k (mkV n false kk)) (mkLV (lv_facts lv) (Some (n, kk, p)) (lv_st lv), cd) Q) ->
  safe2 t (Act (a_alloc_st kk p) k) (lv, cd) Q.
Proof.
  intros Hk. cbn [Conc.safe]. intros g a tr (L & HS & HL) Hv. unfold a_alloc_st. cbn [fst snd].
  destruct (view2_split _ _ _ _ Hv) as [Hv1 Hv2].
  change (mkG (upd_heap (heap g) (S (nalloc g)) (mkNode kk p false)) (S (nalloc g)) (count g)) with (alloc_g g kk p).
  set (lv' := mkLV (lv_facts lv) (Some (S (nalloc g), kk, p)) (lv_st lv)).
  exists (mk_a2 a t (a_pub (b_base a)) lv' (a_atr (b_base a)) cd). split; [|split; [apply frame2_mk|rewrite view2_mk_same; apply Hk]].
  exists L. split.
  - apply (IS_alloc g (b_base a) t lv' (a_atr (b_base a)) L kk p HS); [exact (facts_of_view _ _ _ _ _ HS Hv1)|reflexivity].
  - rewrite <- Hv2. apply (IL2_acc g _ a t (a_pub (b_base a)) lv' L L tr KSt (obj_loc (LNext (S (nalloc g)))) true HL); [cbn; congruence|].
    intros S Ha k0. rewrite (Ha k0).
    assert (Hold : forall x, In x L -> heap (alloc_g g kk p) x = heap g x).
    { intros x Hx. unfold alloc_g; cbn [heap]. apply upd_heap_other.
      apply (is_pubL _ _ _ HS) in Hx. apply (is_pub _ _ _ HS) in Hx. lia. }
    split; intros (x & H1 & H2 & H3); exists x; (split; [exact H1|]);
      [rewrite (Hold x H1)|rewrite (Hold x H1) in H2, H3]; auto.
Qed.

Lemma safe2_st_next {R} t n kk nx p (k : V -> prog R) lv cd Q :
  lv_own lv = Some (n, kk, nx) ->
  (forall v, vptr v = n -> safe2 t (k v) (mkLV (lv_facts lv) (Some (n, kk, p)) (lv_st lv), cd) Q) ->
  safe2 t (Act (a_st_next n p) k) (lv, cd) Q.
Proof.
  intros Hown Hk. cbn [Conc.safe]. intros g a tr (L & HS & HL) Hv. unfold a_st_next, LNext. cbn [fst snd].
  destruct (view2_split _ _ _ _ Hv) as [Hv1 Hv2].
  set (lv' := mkLV (lv_facts lv) (Some (n, kk, p)) (lv_st lv)).
  exists (mk_a2 a t (a_pub (b_base a)) lv' (a_atr (b_base a)) cd). split; [|split; [apply frame2_mk|rewrite view2_mk_same; apply Hk; reflexivity]].
  rewrite <- Hv1 in Hown.
  pose proof (is_own _ _ _ HS t) as Kown. rewrite Hown in Kown. cbn [own_ok] in Kown. destruct Kown as (Kn & Knp & Knh).
  exists L. split.
  - apply (IS_own_store g (b_base a) t lv' (a_atr (b_base a)) L n kk nx p HS Hown); [cbn [lv' lv_facts]; rewrite <- Hv1; apply (is_facts _ _ _ HS)|reflexivity].
  - rewrite <- Hv2. apply (IL2_acc g _ a t (a_pub (b_base a)) lv' L L tr KSt (obj_loc n) true HL); [cbn; congruence|].
    intros S Ha k0. rewrite (Ha k0).
    assert (Hold : forall x, In x L -> heap (wr g n p false) x = heap g x).
    { intros x Hx. apply heap_wr_other. apply (is_pubL _ _ _ HS) in Hx. congruence. }
    split; intros (x & H1 & H2 & H3); exists x; (split; [exact H1|]);
      [rewrite (Hold x H1)|rewrite (Hold x H1) in H2, H3]; auto.
Qed.

(** ** client events *)
Lemma safe2_emit_other {R} t name args (k : prog R) lv cd Q :
  String.eqb name "inv" = false -> String.eqb name "ret" = false ->
  safe2 t k (lv, cd) Q -> safe2 t (Emit [EvCli name args] k) (lv, cd) Q.
Proof.
  intros N1 N2 Hk. cbn [Conc.safe]. intros g a tr (L & HS & HL) Hv.
  destruct (view2_split _ _ _ _ Hv) as [Hv1 Hv2].
  exists (mk_a2 a t (a_pub (b_base a)) lv (a_atr (b_base a)) cd). split; [|split; [apply frame2_mk|rewrite view2_mk_same; exact Hk]].
  exists L. split; [apply (IS_neutral g g (b_base a) t _ _ L HS (fun _ => eq_refl) eq_refl); [exact (facts_of_view _ _ _ _ _ HS Hv1)|cbn; congruence]|].
  rewrite <- Hv2. apply IL2_cli_other; auto. congruence.
Qed.

Lemma safe2_emit_inv {R} t c kk x v (k : prog R) lv cd Q :
  lv_st lv = @Idle SetSpec ->
  safe2 t k (mkLV (lv_facts lv) (lv_own lv) (@Pending SetSpec (spec_op c kk x)), c) Q ->
  safe2 t (Emit [EvCli "inv" [c; kk; x; v]] k) (lv, cd) Q.
Proof.
  intros Hi Hk. cbn [Conc.safe]. intros g a tr (L & HS & HL) Hv.
  destruct (view2_split _ _ _ _ Hv) as [Hv1 Hv2].
  set (lv' := mkLV (lv_facts lv) (lv_own lv) (@Pending SetSpec (spec_op c kk x))).
  exists (mk_a2 a t (a_pub (b_base a)) lv' (a_atr (b_base a) ++ [@AInv SetSpec t (spec_op c kk x)]) c).
  split; [|split; [apply frame2_mk|rewrite view2_mk_same; exact Hk]].
  exists L. split; [apply (IS_neutral g g (b_base a) t _ _ L HS (fun _ => eq_refl) eq_refl); [exact (facts_of_view _ _ _ _ _ HS Hv1)|cbn; congruence]|].
  apply IL2_inv; auto. congruence.
Qed.

Lemma safe2_emit_ret {R} t o r a1 b1 (k : prog R) lv cd Q :
  lv_st lv = @Linearized SetSpec o r -> res_of o a1 b1 = r -> Z.eqb cd 6 && Z.eqb a1 0 = false ->
  safe2 t k (mkLV (lv_facts lv) (lv_own lv) (@Idle SetSpec), cd) Q ->
  safe2 t (Emit [EvCli "ret" [a1; b1]] k) (lv, cd) Q.
Proof.
  intros Hs Hr Hc Hk. cbn [Conc.safe]. intros g a tr (L & HS & HL) Hv.
  destruct (view2_split _ _ _ _ Hv) as [Hv1 Hv2].
  set (lv' := mkLV (lv_facts lv) (lv_own lv) (@Idle SetSpec)).
  exists (mk_a2 a t (a_pub (b_base a)) lv' (a_atr (b_base a) ++ [@ARes SetSpec t r]) cd).
  split; [|split; [apply frame2_mk|rewrite view2_mk_same; exact Hk]].
  exists L. split; [apply (IS_neutral g g (b_base a) t _ _ L HS (fun _ => eq_refl) eq_refl); [exact (facts_of_view _ _ _ _ _ HS Hv1)|cbn; congruence]|].
  rewrite <- Hv2. eapply IL2_ret; eauto; congruence.
Qed.

Lemma safe2_emit_ret_drop {R} t o a1 b1 (k : prog R) lv cd Q :
  open_read (lv_st lv) o -> Z.eqb cd 6 && Z.eqb a1 0 = true ->
  safe2 t k (mkLV (lv_facts lv) (lv_own lv) (@Idle SetSpec), cd) Q ->
  safe2 t (Emit [EvCli "ret" [a1; b1]] k) (lv, cd) Q.
Proof.
  intros Hs Hc Hk. cbn [Conc.safe]. intros g a tr (L & HS & HL) Hv.
  destruct (view2_split _ _ _ _ Hv) as [Hv1 Hv2].
  set (lv' := mkLV (lv_facts lv) (lv_own lv) (@Idle SetSpec)).
  destruct (IL2_ret_drop g a t lv' L tr o a1 b1 HL) as (atr' & HL'); auto; [congruence|congruence|].
  exists (mk_a2 a t (a_pub (b_base a)) lv' atr' cd).
  split; [|split; [apply frame2_mk|rewrite view2_mk_same; exact Hk]].
  exists L. split; [apply (IS_neutral g g (b_base a) t _ _ L HS (fun _ => eq_refl) eq_refl); [exact (facts_of_view _ _ _ _ _ HS Hv1)|cbn; congruence]|].
  rewrite <- Hv2. exact HL'.
Qed.
