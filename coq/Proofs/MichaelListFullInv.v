(** * MichaelListFullInv: invariant for FULL linearizability of the MichaelList model (reads included).

    Same structural invariant [IS] as the partial development.  The LP-annotated trace now contains every
    operation.  An operation whose result is a "read" of the key (failed insert / erase, update of an existing
    key, contains / find / get) is linearized at the moment of an OBSERVATION made by one of its own accesses:
      - present: a load of the next cell of a node with key k that returns an unmarked value
                 (the node is published and unmarked, hence in the chain, hence k is in the abstract set);
      - absent:  a load (or a successful helping CAS) of the cell of a node m with key < k (or m_pHead) that
                 yields an unmarked pointer to null or to a node with key > k (m is in the chain, its successor is
                 that node, the chain is strictly sorted, hence k is not in the abstract set).
    A later observation of the same operation MOVES its linearization point to the new instant (a read does not
    change the abstract state, so deleting the old [ALin] keeps the annotated trace valid).  The last observation
    before the response decides the result. *)
From Coq Require Import ZArith List String Bool Lia PeanoNat.
From LV Require Import Base.Conc Base.Events Base.Lin Spec.Specs Proofs.LinProofs.
From LV Require Import Model.MichaelList Proofs.MichaelListBase Proofs.MichaelListInv Proofs.MichaelListSteps
                       Proofs.MichaelListLin Proofs.MichaelListProofs.
Import ListNotations.
Local Open Scope Z_scope.

(** ** what a thread reads off an observation *)
Definition op_key (o : set_op) : Z :=
  match o with SInsert k | SErase k | SContains k | SUpdate k _ => k | _ => 0 end.

(** the read-type result of [o] when the key is observed present ([b = true]) / absent *)
Definition obs_res (o : set_op) (b : bool) : option res :=
  match o, b with
  | SInsert _, true => Some (RBool false)
  | SErase _, false => Some (RBool false)
  | SContains _, _ => Some (RBool b)
  | SUpdate _ _, true => Some (RPair true false)
  | SUpdate _ false, false => Some (RPair false false)
  | _, _ => None
  end.

Lemma obs_res_step o b r S :
  obs_res o b = Some r -> zmem (op_key o) S = b -> set_step S o = (S, r).
Proof.
  intros E Hz. destruct o as [k|k|k|k al| |]; cbn [op_key] in Hz; cbn [set_step]; cbn [obs_res] in E.
  - destruct b; [|discriminate]. inversion E; subst. rewrite Hz. reflexivity.
  - destruct b; [discriminate|]. inversion E; subst. rewrite Hz. reflexivity.
  - inversion E. rewrite Hz. reflexivity.
  - destruct al, b; try discriminate; inversion E; subst; rewrite Hz; reflexivity.
  - destruct b; discriminate.
  - destruct b; discriminate.
Qed.

Lemma obs_res_read o b r : obs_res o b = Some r -> is_read o r = true.
Proof.
  intros E. destruct o as [k|k|k|k al| |]; cbn [obs_res] in E.
  - destruct b; [|discriminate]. inversion E; reflexivity.
  - destruct b; [discriminate|]. inversion E; reflexivity.
  - inversion E; reflexivity.
  - destruct al, b; try discriminate; inversion E; reflexivity.
  - destruct b; discriminate.
  - destruct b; discriminate.
Qed.

Lemma is_read_preserves S o : is_read o (snd (set_step S o)) = true -> fst (set_step S o) = S.
Proof.
  destruct o as [k|k|k|k al| |]; cbn [set_step].
  - destruct (zmem k S); cbn; [reflexivity|discriminate].
  - destruct (zmem k S); cbn; [discriminate|reflexivity].
  - reflexivity.
  - destruct (zmem k S); cbn; [reflexivity|]. destruct al; cbn; [discriminate|reflexivity].
  - discriminate.
  - discriminate.
Qed.

(** the operation may still be (re-)linearized *)
Definition open_read (s : status SetSpec) (o : set_op) : Prop :=
  s = @Pending SetSpec o \/ exists r, s = @Linearized SetSpec o r /\ is_read o r = true.

Definition lin_read (o : set_op) (b : bool) (s : status SetSpec) : status SetSpec :=
  match obs_res o b with Some r => @Linearized SetSpec o r | None => s end.

Lemma open_read_lin o b s : open_read s o -> open_read (lin_read o b s) o.
Proof.
  intros H. unfold lin_read. destruct (obs_res o b) as [r|] eqn:E; [|exact H].
  right. exists r. split; [reflexivity|]. eapply obs_res_read; eauto.
Qed.

(** ** annotated traces: deleting the linearization point of a read *)
Lemma lin_split : forall (atr : list (aev SetSpec)) S st t o r,
  lp_run lp_init atr = Some (S, st) -> st t = @Linearized SetSpec o r ->
  exists A B S1 st1, atr = A ++ ALin t :: B /\ (forall e, In e B -> aev_tid e <> t) /\
     lp_run lp_init A = Some (S1, st1) /\ st1 t = @Pending SetSpec o /\ r = snd (set_step S1 o).
Proof.
  induction atr as [|e atr IH] using rev_ind; intros S st t o r Hr Hs.
  - cbn in Hr. inversion Hr; subst. discriminate.
  - rewrite lp_run_app in Hr. destruct (lp_run lp_init atr) as [[S0 st0]|] eqn:E0; [|discriminate].
    cbn [lp_run] in Hr. destruct (lp_step (S0, st0) e) as [c1|] eqn:E1; [|discriminate].
    inversion Hr; subst c1; clear Hr.
    destruct (Nat.eq_dec (aev_tid e) t) as [Et|Et].
    + destruct e as [u o'|u|u r']; cbn [aev_tid] in Et; subst u; cbn [lp_step] in E1.
      * destruct (st0 t) eqn:Est; try discriminate. injection E1 as E1a E1b. subst S st.
        rewrite upd_same in Hs. discriminate.
      * destruct (st0 t) as [|o0|] eqn:Est; try discriminate. injection E1 as E1a E1b. subst S st.
        rewrite upd_same in Hs. injection Hs as Ho Hr. subst o0 r.
        exists atr, [], S0, st0. repeat split; auto; try (intros e []).
      * destruct (st0 t) eqn:Est; try discriminate. destruct (res_eqb SetSpec r' r0); try discriminate.
        injection E1 as E1a E1b. subst S st. rewrite upd_same in Hs. discriminate.
    + assert (Hst : st t = st0 t /\ S = S0 \/ st t = st0 t).
      { right. destruct e as [u o'|u|u r']; cbn [aev_tid] in Et; cbn [lp_step] in E1.
        - destruct (st0 u); try discriminate. inversion E1; subst. apply upd_other; auto.
        - destruct (st0 u); try discriminate. inversion E1; subst. apply upd_other; auto.
        - destruct (st0 u); try discriminate. destruct (res_eqb SetSpec r' r0); try discriminate.
          inversion E1; subst. apply upd_other; auto. }
      assert (Hst' : st t = st0 t) by (destruct Hst as [[H _]|H]; exact H).
      rewrite Hst' in Hs. destruct (IH S0 st0 t o r eq_refl Hs) as (A & B & S1 & st1 & EA & HB & HA & HP & Hr).
      exists A, (B ++ [e]), S1, st1. subst atr. rewrite <- app_assoc. cbn [app]. repeat split; auto.
      intros x Hx. apply in_app_or in Hx. destruct Hx as [Hx|[<-|[]]]; auto.
Qed.

(** from an operation that may be re-linearized back to a pending one: same state, same history *)
Lemma to_pending (atr : list (aev SetSpec)) S st t o :
  lp_run lp_init atr = Some (S, st) -> open_read (st t) o ->
  exists atr0 st0, lp_run lp_init atr0 = Some (S, st0) /\ st0 t = @Pending SetSpec o /\
                   (forall u, u <> t -> st0 u = st u) /\ erase atr0 = erase atr.
Proof.
  intros Hr [Hp|(r & Hl & Hrd)].
  - exists atr, st. auto.
  - destruct (lin_split _ _ _ _ _ _ Hr Hl) as (A & B & S1 & st1 & EA & HB & HA & HP & Er).
    subst atr. rewrite lp_run_app, HA in Hr. cbn [lp_run lp_step] in Hr. rewrite HP in Hr.
    assert (Hsame : fst (sstep SetSpec S1 o) = S1) by (apply is_read_preserves; rewrite <- Er; exact Hrd).
    rewrite Hsame in Hr.
    destruct (lp_run_other B S1 (upd st1 t (@Linearized SetSpec o (snd (sstep SetSpec S1 o)))) st1 t S st HB) as (st0 & K1 & K2 & K3); auto.
    { intros u Hu. unfold upd. destruct (Nat.eqb_spec u t); congruence. }
    exists (A ++ B), st0. split; [rewrite lp_run_app, HA; exact K1|]. split; [congruence|]. split; [exact K2|].
    rewrite !erase_app. cbn [erase]. reflexivity.
Qed.

(** ** auxiliary state of the full development: the partial one plus the code of each thread's current operation *)
Record aux2 := mkAux2 { b_base : aux; b_code : nat -> Z }.
Definition lview2 := (lview * Z)%type.
Definition view2 (a : aux2) (t : nat) : lview2 := (view (b_base a) t, b_code a t).

Definition mk_a2 (a : aux2) (t : nat) (pub' : nat -> bool) (lv' : lview) (atr' : list (aev SetSpec)) (c' : Z) : aux2 :=
  mkAux2 (mk_a (b_base a) t pub' lv' atr') (fun u => if Nat.eqb u t then c' else b_code a u).

Lemma view2_mk_same a t pub' lv' atr' c' : view2 (mk_a2 a t pub' lv' atr' c') t = (lv', c').
Proof. unfold view2, mk_a2; cbn [b_base b_code]. rewrite view_mk_same, Nat.eqb_refl. reflexivity. Qed.
Lemma view2_mk_other a t pub' lv' atr' c' u : u <> t -> view2 (mk_a2 a t pub' lv' atr' c') u = view2 a u.
Proof.
  intros H. unfold view2, mk_a2; cbn [b_base b_code]. rewrite view_mk_other by exact H.
  destruct (Nat.eqb_spec u t); congruence.
Qed.
Lemma frame2_mk a t pub' lv' atr' c' : Conc.frame view2 t a (mk_a2 a t pub' lv' atr' c').
Proof. intros u H. now apply view2_mk_other. Qed.

Definition fstate := (hist * list (nat * Z))%type.

Record IL2 (g : G) (a : aux2) (tr : list (nat * ev)) (L : list nat) : Prop := {
  il2_run : exists S st, lp_run lp_init (a_atr (b_base a)) = Some (S, st) /\
                         (forall t, st t = lv_st (view (b_base a) t)) /\ abs g L S;
  il2_hist : exists pend, fold_left fstep tr (([], []) : fstate) = (erase (a_atr (b_base a)), pend) /\
                          forall t, lv_st (view (b_base a) t) <> @Idle SetSpec -> code_of t pend = b_code a t
}.

Definition Inv2 (g : G) (a : aux2) (tr : list (nat * ev)) : Prop :=
  exists L, IS g (b_base a) L /\ IL2 g a tr L.

Lemma fold_fstep_app tr tr' : fold_left fstep (tr ++ tr') (([], []) : fstate) = fold_left fstep tr' (fold_left fstep tr ([], [])).
Proof. apply fold_left_app. Qed.

Lemma st_views2 (a : aux2) t pub' lv' atr' (st : nat -> status SetSpec) :
  (forall u, st u = lv_st (view (b_base a) u)) -> lv_st lv' = lv_st (view (b_base a) t) ->
  forall u, st u = lv_st (view (mk_a (b_base a) t pub' lv' atr') u).
Proof. apply st_views. Qed.

(** an access without observation *)
Lemma IL2_acc g g' a t pub' lv' L L' tr kd ob ok :
  IL2 g a tr L -> lv_st lv' = lv_st (view (b_base a) t) ->
  (forall S, abs g L S -> abs g' L' S) ->
  IL2 g' (mk_a2 a t pub' lv' (a_atr (b_base a)) (b_code a t)) (tr ++ Conc.tag t [EvAcc kd ob ok]) L'.
Proof.
  intros [(S & st & H1 & H2 & H3) (pend & H4 & H5)] Hl Habs. constructor; cbn [b_base b_code mk_a2 a_atr mk_a].
  - exists S, st. split; [exact H1|]. split; [apply st_views; auto|auto].
  - exists pend. split.
    + rewrite fold_fstep_app, H4. reflexivity.
    + intros u Hu. destruct (Nat.eq_dec u t) as [->|Hn].
      * rewrite Nat.eqb_refl. apply H5. rewrite view_mk_same in Hu. congruence.
      * rewrite view_mk_other in Hu by exact Hn. destruct (Nat.eqb_spec u t); [contradiction|]. apply H5. exact Hu.
Qed.

(** an access that (re-)linearizes the operation of the thread: an observation (state unchanged) or a real LP *)
Lemma IL2_lin g g' a t pub' lv' L L' tr kd ob ok o :
  IL2 g a tr L -> open_read (lv_st (view (b_base a) t)) o ->
  (forall S, abs g L S -> abs g' L' (fst (set_step S o)) /\ lv_st lv' = @Linearized SetSpec o (snd (set_step S o))) ->
  exists atr', IL2 g' (mk_a2 a t pub' lv' atr' (b_code a t)) (tr ++ Conc.tag t [EvAcc kd ob ok]) L'.
Proof.
  intros [(S & st & H1 & H2 & H3) (pend & H4 & H5)] Hop Habs. destruct (Habs S H3) as [Ha Hl].
  rewrite <- H2 in Hop.
  destruct (to_pending _ _ _ _ _ H1 Hop) as (atr0 & st0 & K1 & K2 & K3 & K4).
  exists (atr0 ++ [ALin t]). constructor; cbn [b_base b_code mk_a2 a_atr mk_a].
  - exists (fst (set_step S o)), (upd st0 t (@Linearized SetSpec o (snd (set_step S o)))). split; [|split; [|exact Ha]].
    + rewrite (lp_run_snoc _ _ _ K1). cbn [lp_step]. rewrite K2. reflexivity.
    + intros u. destruct (Nat.eq_dec u t) as [->|Hu].
      * rewrite view_mk_same, upd_same. congruence.
      * rewrite view_mk_other by exact Hu. rewrite upd_other by exact Hu. rewrite K3 by exact Hu. apply H2.
  - exists pend. split.
    + rewrite fold_fstep_app, H4, erase_app. cbn [erase Conc.tag map fold_left fstep]. rewrite app_nil_r, K4. reflexivity.
    + intros u Hu. destruct (Nat.eq_dec u t) as [->|Hn].
      * rewrite Nat.eqb_refl. apply H5. rewrite <- H2. destruct Hop as [Hp|(r & Hp & _)]; rewrite Hp; discriminate.
      * rewrite view_mk_other in Hu by exact Hn. destruct (Nat.eqb_spec u t); [contradiction|]. apply H5. exact Hu.
Qed.

Lemma IL2_cli_other g a t lv' L tr name args :
  IL2 g a tr L -> lv_st lv' = lv_st (view (b_base a) t) ->
  String.eqb name "inv" = false -> String.eqb name "ret" = false ->
  IL2 g (mk_a2 a t (a_pub (b_base a)) lv' (a_atr (b_base a)) (b_code a t)) (tr ++ Conc.tag t [EvCli name args]) L.
Proof.
  intros [(S & st & H1 & H2 & H3) (pend & H4 & H5)] Hl N1 N2. constructor; cbn [b_base b_code mk_a2 a_atr mk_a].
  - exists S, st. split; [exact H1|]. split; [apply st_views; auto|auto].
  - exists pend. split.
    + rewrite fold_fstep_app, H4. cbn [Conc.tag map fold_left fstep]. rewrite N1, N2. reflexivity.
    + intros u Hu. destruct (Nat.eq_dec u t) as [->|Hn].
      * rewrite Nat.eqb_refl. apply H5. rewrite view_mk_same in Hu. congruence.
      * rewrite view_mk_other in Hu by exact Hn. destruct (Nat.eqb_spec u t); [contradiction|]. apply H5. exact Hu.
Qed.

Lemma code_of_other t u c pend : u <> t -> code_of u ((t, c) :: pend) = code_of u pend.
Proof. intros H. cbn [code_of]. destruct (Nat.eqb_spec t u); congruence. Qed.

Lemma IL2_inv g a t lv' L tr c k x v :
  IL2 g a tr L -> lv_st (view (b_base a) t) = @Idle SetSpec -> lv_st lv' = @Pending SetSpec (spec_op c k x) ->
  IL2 g (mk_a2 a t (a_pub (b_base a)) lv' (a_atr (b_base a) ++ [@AInv SetSpec t (spec_op c k x)]) c)
        (tr ++ Conc.tag t [EvCli "inv" [c; k; x; v]]) L.
Proof.
  intros [(S & st & H1 & H2 & H3) (pend & H4 & H5)] Hi Hl. constructor; cbn [b_base b_code mk_a2 a_atr mk_a].
  - exists S, (upd st t (@Pending SetSpec (spec_op c k x))). split; [|split; [|exact H3]].
    + rewrite (lp_run_snoc _ _ _ H1). cbn [lp_step]. rewrite H2, Hi. reflexivity.
    + intros u. destruct (Nat.eq_dec u t) as [->|Hu].
      * rewrite view_mk_same, upd_same. congruence.
      * rewrite view_mk_other by exact Hu. rewrite upd_other by exact Hu. apply H2.
  - exists ((t, c) :: pend). split.
    + rewrite fold_fstep_app, H4, erase_app. cbn [erase Conc.tag map fold_left fstep String.eqb Ascii.eqb Bool.eqb]. reflexivity.
    + intros u Hu. destruct (Nat.eq_dec u t) as [->|Hn].
      * rewrite Nat.eqb_refl. cbn [code_of]. rewrite Nat.eqb_refl. reflexivity.
      * rewrite view_mk_other in Hu by exact Hn. destruct (Nat.eqb_spec u t); [contradiction|].
        rewrite code_of_other by exact Hn. apply H5. exact Hu.
Qed.

(** response of a linearized operation (modifying or read) *)
Lemma IL2_ret g a t lv' L tr o r a1 b1 :
  IL2 g a tr L -> lv_st (view (b_base a) t) = @Linearized SetSpec o r -> lv_st lv' = @Idle SetSpec ->
  res_of o a1 b1 = r -> (Z.eqb (b_code a t) 6 && Z.eqb a1 0 = false) ->
  IL2 g (mk_a2 a t (a_pub (b_base a)) lv' (a_atr (b_base a) ++ [@ARes SetSpec t r]) (b_code a t))
        (tr ++ Conc.tag t [EvCli "ret" [a1; b1]]) L.
Proof.
  intros [(S & st & H1 & H2 & H3) (pend & H4 & H5)] Hs Hl Hr Hc. constructor; cbn [b_base b_code mk_a2 a_atr mk_a].
  - exists S, (upd st t (@Idle SetSpec)). split; [|split; [|exact H3]].
    + rewrite (lp_run_snoc _ _ _ H1). cbn [lp_step]. rewrite H2, Hs, res_eqb_refl. reflexivity.
    + intros u. destruct (Nat.eq_dec u t) as [->|Hu].
      * rewrite view_mk_same, upd_same. congruence.
      * rewrite view_mk_other by exact Hu. rewrite upd_other by exact Hu. apply H2.
  - destruct (lp_open_split _ _ _ t o H1) as (A & B & EA & HB & _); [rewrite H2, Hs; reflexivity|].
    destruct (erase_split_last t o A B HB) as [K1 _]. rewrite <- EA in K1.
    exists pend. split.
    + rewrite fold_fstep_app, H4, erase_app. cbn [erase Conc.tag map fold_left fstep String.eqb Ascii.eqb Bool.eqb].
      rewrite K1. rewrite (H5 t) by (rewrite Hs; discriminate). rewrite Hc, Hr. reflexivity.
    + intros u Hu. destruct (Nat.eq_dec u t) as [->|Hn].
      * rewrite view_mk_same in Hu. congruence.
      * rewrite view_mk_other in Hu by exact Hn. destruct (Nat.eqb_spec u t); [contradiction|]. apply H5. exact Hu.
Qed.

(** a failed unlink is not an operation of the sequential set: it is deleted *)
Lemma IL2_ret_drop g a t lv' L tr o a1 b1 :
  IL2 g a tr L -> open_read (lv_st (view (b_base a) t)) o -> lv_st lv' = @Idle SetSpec ->
  Z.eqb (b_code a t) 6 && Z.eqb a1 0 = true ->
  exists atr', IL2 g (mk_a2 a t (a_pub (b_base a)) lv' atr' (b_code a t)) (tr ++ Conc.tag t [EvCli "ret" [a1; b1]]) L.
Proof.
  intros [(S & st & H1 & H2 & H3) (pend & H4 & H5)] Hop Hl Hc.
  assert (Hne : lv_st (view (b_base a) t) <> @Idle SetSpec) by (destruct Hop as [Hp|(r & Hp & _)]; rewrite Hp; discriminate).
  rewrite <- H2 in Hop.
  destruct (to_pending _ _ _ _ _ H1 Hop) as (atr0 & st0 & K1 & K2 & K3 & K4).
  destruct (lp_open_split _ _ _ t o K1) as (A & B & EA & HB & HP); [rewrite K2; reflexivity|].
  assert (HB' : forall e, In e B -> aev_tid e <> t) by (apply HP; exact K2).
  rewrite EA in K1. destruct (lp_run_remove A B t o S st0 K1 HB') as (st' & J1 & J2 & J3).
  exists (A ++ B). constructor; cbn [b_base b_code mk_a2 a_atr mk_a].
  - exists S, st'. split; [exact J1|]. split; [|exact H3].
    intros u. destruct (Nat.eq_dec u t) as [->|Hu].
    + rewrite view_mk_same. congruence.
    + rewrite view_mk_other by exact Hu. rewrite J2 by exact Hu. rewrite K3 by exact Hu. apply H2.
  - destruct (erase_split_last t o A B HB) as [E1 E2]. rewrite <- EA, K4 in E1, E2.
    exists pend. split.
    + rewrite fold_fstep_app, H4. cbn [Conc.tag map fold_left fstep String.eqb Ascii.eqb Bool.eqb].
      rewrite E1. rewrite (H5 t Hne), Hc. rewrite E2. reflexivity.
    + intros u Hu. destruct (Nat.eq_dec u t) as [->|Hn].
      * rewrite view_mk_same in Hu. congruence.
      * rewrite view_mk_other in Hu by exact Hn. destruct (Nat.eqb_spec u t); [contradiction|]. apply H5. exact Hu.
Qed.

(** ** the chain is strictly sorted: nothing with key k between a node below k and its successor above k *)
Lemma absent_between g L m k :
  chain_ok g L -> In m (0%nat :: L) -> olt (okey g m) (Some k) ->
  (nnext (heap g m) = 0%nat \/ k < nkey (heap g (nnext (heap g m)))) ->
  forall n, In n L -> nkey (heap g n) <> k.
Proof.
  intros Hc Hm Hlt Hnx n Hn Ek.
  destruct (chain_split _ _ _ Hc Hm) as (L1 & L2 & E & H2 & N1 & N2 & _).
  destruct Hc as [Hl Hs]. pose proof (sorted_nonzero _ _ Hs) as Hnz.
  rewrite E, map_app in Hs. cbn [map] in Hs.
  destruct (osorted_mid _ _ _ Hs) as [Hbefore Hafter].
  assert (Hkn : okey g n = Some k).
  { unfold okey. destruct (Nat.eqb_spec n 0) as [E0|_]; [exfalso; exact (Hnz n Hn E0)|]. congruence. }
  assert (Hin : In n (L1 ++ m :: L2)) by (rewrite <- E; right; exact Hn).
  apply in_app_or in Hin. destruct Hin as [Hin|[Hin|Hin]].
  - (* before m *)
    assert (K : olt (okey g n) (okey g m)) by (apply Hbefore; apply in_map; exact Hin).
    rewrite Hkn in K. destruct (okey g m) as [km|]; cbn in K, Hlt; lia.
  - subst n. rewrite Hkn in Hlt. cbn in Hlt. lia.
  - (* after m *)
    destruct L2 as [|p L2']; [destruct Hin|].
    cbn [linked] in H2. destruct H2 as [Hp H2]. rewrite Hp in Hnx.
    assert (Hp0 : p <> 0%nat).
    { apply Hnz. destruct L1 as [|s L1']; cbn [app] in E; inversion E; subst; [left; reflexivity|].
      apply in_or_app. right. right. left. reflexivity. }
    destruct Hnx as [Hz|Hk]; [contradiction|].
    assert (Hkp : okey g p = Some (nkey (heap g p))).
    { unfold okey. destruct (Nat.eqb_spec p 0); [contradiction|reflexivity]. }
    destruct Hin as [->|Hin]; [lia|].
    (* n strictly after p *)
    assert (Hs2 : osorted (map (okey g) (p :: L2'))).
    { apply osorted_app_r in Hs. cbn [map] in Hs. eapply osorted_tail; eauto. }
    cbn [map] in Hs2. assert (K : olt (okey g p) (okey g n)) by (apply (osorted_lt_all _ _ Hs2); apply in_map; exact Hin).
    rewrite Hkp, Hkn in K. cbn in K. lia.
Qed.
