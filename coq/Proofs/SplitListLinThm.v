(** * SplitListLinThm: the theorems about the step-grain split-list model (LV.Model.SplitList), for EVERY schedule
      (Conc.reach), any number of threads, any client programs whose keys lie in 0..255 (the model packs the key into the
      low 8 bits of the position [okey]), any hash table, any bucket-table capacity up to 2^62:

      - [split_inv_reach]       the invariant [InvS] (anchored Michael-list invariant of the projected state + bucket table);
      - [split_sorted_reach]    the ONE underlying list (from bucket 0's dummy, node 1) is null-terminated and strictly
                                sorted by split-order key; no dummy node is ever marked; every published bucket-table
                                entry is an unmarked node of that list carrying the bucket's dummy key;
      - [split_linearizable_lp] / [split_linearizable]  the complete client history (insert / erase / contains with their
                                results; keys = split-order positions [okey (hash k) k]) is the history of an LP-annotated
                                trace valid for the sequential set, hence linearizable - during bucket initialisation
                                and table growth. *)
From Coq Require Import ZArith List String Bool Lia PeanoNat.
From LV Require Import Base.Conc Base.Events Base.Lin Spec.Specs Proofs.LinProofs.
From LV Require Import Model.MichaelList Proofs.MichaelListBase Proofs.MichaelListInv Proofs.MichaelListSteps
                       Proofs.MichaelListLin Proofs.MichaelListActs Proofs.MichaelListProofs
                       Proofs.MichaelListFullInv Proofs.MichaelListFullActs Proofs.MichaelListFullProofs
                       Proofs.MichaelListFromActs.
From LV Require Model.SplitList Proofs.SplitListInv.
From LV Require Import Proofs.SplitListOrdArith Proofs.SplitListLinProj Proofs.SplitListLinSim Proofs.SplitListLinActs
                       Proofs.SplitListLinProg Proofs.SplitListLinOps.
Import ListNotations.
Local Open Scope Z_scope.

(** ** the initial configuration *)
Definition g0 : G :=
  mkG (fun n => if Nat.eqb n 0 then mkNode 0 1 false else mkNode 0 0 false) 1 0.
Definition atr0 : list (aev SetSpec) := [@AInv SetSpec 1 (SInsert 0); @ALin SetSpec 1; @ARes SetSpec 1 (RBool true)].
Definition gtr0 : list (nat * ev) := [(1%nat, EvCli "inv" [1; 0; 0; 0]); (1%nat, EvCli "ret" [1; 0])].
Definition lv_idle : lview := mkLV [] None (@Idle SetSpec).
Definition a0 : aux2 :=
  mkAux2 (mkAux (fun n => Nat.eqb n 1)
                (fun v => if Nat.eqb v (vb 0) then mkLV [FPub 1 0] None (@Idle SetSpec) else lv_idle) atr0)
         (fun _ => 0).

Lemma IS_g0 : IS g0 (b_base a0) [1%nat].
Proof.
  constructor; cbn [b_base a0 a_pub].
  - split; [cbn; auto|]. cbn. auto.
  - intros n [<-|[]]. reflexivity.
  - intros n Hn. apply Nat.eqb_eq in Hn. subst n. cbn. repeat split; auto.
  - reflexivity.
  - intros t. unfold view. cbn [a_views]. destruct (Nat.eqb t (vb 0)); cbn [lv_facts lv_idle]; [|constructor].
    constructor; [|constructor]. cbn. repeat split; auto.
  - intros t. unfold view. cbn [a_views]. destruct (Nat.eqb t (vb 0)); exact I.
  - intros t t' n k nx n' k' nx' _ H. unfold view in H. cbn [a_views] in H. destruct (Nat.eqb t (vb 0)); discriminate.
Qed.

Lemma Inv2_g0 : Inv2 g0 a0 gtr0.
Proof.
  exists [1%nat]. split; [exact IS_g0|]. constructor.
  - exists [0], (upd (upd (upd (fun _ => @Idle SetSpec) 1 (@Pending SetSpec (SInsert 0))) 1
                                (@Linearized SetSpec (SInsert 0) (RBool true))) 1 (@Idle SetSpec)).
    split; [reflexivity|]. split.
    + intros t. unfold upd, view. cbn [b_base a0 a_views]. destruct (Nat.eqb t 1); destruct (Nat.eqb t (vb 0)); reflexivity.
    + intros k. cbn [zmem existsb]. rewrite orb_false_r. split.
      * intros E. apply Z.eqb_eq in E. subst k. exists 1%nat. cbn. auto.
      * intros (n & [<-|[]] & _ & E). cbn in E. subst k. reflexivity.
  - exists [(1%nat, 1)]. split; [reflexivity|].
    intros t H. exfalso. apply H. unfold view. cbn [b_base a0 a_views]. destruct (Nat.eqb t (vb 0)); reflexivity.
Qed.

Lemma J_g0 : J akS g0.
Proof. intros n Hn _. cbn in *. destruct (Nat.eqb n 0); reflexivity. Qed.

Section Thm.
Variables (cap : nat) (hs : list Z).
Hypothesis Hcap : Z.of_nat cap <= 2 ^ 62.

Notation InvS := (InvS hs akS).
Notation safeS := (@Conc.safe SL.G SL.V ev AuxS LS viewS InvS).

Definition L_idle : LS := mkLS (lv_idle, 0) (lv_idle, 0).
Definition A0 : AuxS := fun _ => L_idle.

Lemma proj_init_heap x : heap (proj SL.init) x = heap g0 x.
Proof.
  cbn [proj heap g0]. unfold hp. cbn [SL.init SL.heap].
  destruct (Nat.eqb_spec x 0) as [->|H0]; [reflexivity|].
  destruct (Nat.eqb_spec x 1) as [->|H1]; unfold cvn; cbn [SL.nkey SL.nnext SL.nmark]; [rewrite dkey_0|]; reflexivity.
Qed.

Lemma InvS_init : InvS SL.init A0 [].
Proof.
  split.
  - destruct (InvA_ext akS g0 (proj SL.init) a0 gtr0 (conj Inv2_g0 J_g0) proj_init_heap eq_refl) as (a & gtr & HI & Hv & Hh).
    exists a, gtr. split; [exact HI|]. split; [|split].
    + intros t d. rewrite Hv. unfold view2, view. cbn [b_base a0 a_views b_code].
      destruct (Nat.eqb_spec (vt t d) (vb 0)) as [E|_]; [exfalso; exact (vt_vb _ _ _ E)|]. destruct d; reflexivity.
    + intros b Hb. cbn [SL.init SL.table] in Hb |- *. destruct (Nat.eq_dec b 0) as [E|E].
      2:{ exfalso. apply Hb. destruct (Nat.eqb_spec b 0); [contradiction|reflexivity]. }
      subst b. cbn [Nat.eqb].
      rewrite Hv. unfold view2, view. cbn [b_base a0 a_views fst]. rewrite Nat.eqb_refl. rewrite dkey_0. split; [left; reflexivity|cbn; lia].
    + unfold HistOK. rewrite Hh. split; [reflexivity|]. unfold full_hist, gtr0. cbn [fold_left fstep String.eqb Ascii.eqb Bool.eqb fst].
      split; [|intros ? ? ? []].
      constructor; [|constructor; [exact I|constructor]].
      cbn [class_ok]. split; [intros X; discriminate|]. intros _. exists 0. split; reflexivity.
  - split; [cbn; lia|]. cbn. discriminate.
Qed.

Definition ops_ok (ths : list (list (list Z))) : Prop := Forall (Forall op_ok) ths.

Lemma init_okS f ths : ops_ok ths -> Conc.cfg_ok viewS InvS (SL.init_cfg cap hs f ths).
Proof.
  intros Hok. exists A0. split; [exact InvS_init|].
  intros t p Hp. cbn [SL.init_cfg Conc.threads] in Hp.
  assert (Hgen : forall ths0 t0 t1 p0, Forall (Forall op_ok) ths0 -> nth_error (SL.thread_progs cap hs f t0 ths0) t1 = Some p0 ->
            exists os, Forall op_ok os /\ p0 = SL.thread_prog cap hs f (t0 + t1) os).
  { induction ths0 as [|os r IH]; intros t0 t1 p0 Hf H; cbn [SL.thread_progs] in H.
    - destruct t1; discriminate.
    - inversion Hf; subst. destruct t1 as [|t1]; cbn in H.
      + inversion H; subst. exists os. rewrite Nat.add_0_r. auto.
      + destruct (IH (S t0) t1 p0 H3 H) as (os' & Ho & ->). exists os'. split; [exact Ho|]. f_equal. lia. }
  destruct (Hgen ths 0%nat t p Hok Hp) as (os & Ho & ->). cbn [Nat.add].
  apply safeS_thread with (ak := akS); auto.
  - exact akS_okey.
  - exact akS_dkey.
  - exact dkey_lt_okey.
  - exact parent_dkey_lt.
  - exact parent_le.
  - exact bucket_no_lt.
  - repeat split; reflexivity.
Qed.

Theorem split_inv_reach f ths c :
  ops_ok ths -> Conc.reach (SL.init_cfg cap hs f ths) c -> exists A, InvS (Conc.shared c) A (Conc.trace c).
Proof. intros Hok Hr. exact (Conc.reach_Inv (init_okS f ths Hok) Hr). Qed.

(** ** (3) linearizability *)
Theorem split_linearizable_lp f ths c :
  ops_ok ths -> Conc.reach (SL.init_cfg cap hs f ths) c ->
  exists atr, lp_valid SetSpec atr /\ erase atr = split_hist hs (Conc.trace c).
Proof.
  intros Hok Hr. destruct (split_inv_reach f ths c Hok Hr) as (A & (a & gtr & HI & _ & _ & (H1 & H2 & _)) & _).
  destruct HI as [(L & _ & [(S & st & R1 & _) (pend & R2 & _)]) _].
  assert (E : erase (a_atr (b_base a)) = full_hist gtr) by (unfold full_hist; rewrite R2; reflexivity).
  exists (cproj_a (a_atr (b_base a))). split.
  - apply cproj_valid with (ak := akS); [exists (S, st); exact R1|rewrite E; exact H2].
  - rewrite erase_cproj, E. symmetry. exact H1.
Qed.

Theorem split_linearizable f ths c :
  ops_ok ths -> Conc.reach (SL.init_cfg cap hs f ths) c -> linearizable SetSpec (split_hist hs (Conc.trace c)).
Proof.
  intros Hok Hr. destruct (split_linearizable_lp f ths c Hok Hr) as (atr & Hv & <-). apply lp_valid_linearizable. exact Hv.
Qed.

(** ** (1) the list *)
Fixpoint slinked (g : SL.G) (n : nat) (L : list nat) (q : nat) : Prop :=
  match L with
  | [] => SL.nnext (SL.heap g n) = q
  | x :: L' => SL.nnext (SL.heap g n) = x /\ slinked g x L' q
  end.
Definition skeys (g : SL.G) (L : list nat) : list Z := map (fun n => SL.nkey (SL.heap g n)) L.

Lemma linked_slinked g : forall L n, n <> 0%nat -> (forall x, In x L -> x <> 0%nat) ->
  linked (proj g) n L 0 -> slinked g n L 0.
Proof.
  induction L as [|x L IH]; intros n Hn HL; cbn [linked slinked proj heap]; rewrite (hp_nz g n Hn); cbn [cvn nnext]; [auto|].
  intros [E H]. split; [exact E|]. apply IH; [apply HL; left; reflexivity|intros y Hy; apply HL; right; exact Hy|exact H].
Qed.

Theorem split_sorted_reach f ths c :
  ops_ok ths -> Conc.reach (SL.init_cfg cap hs f ths) c ->
  let g := Conc.shared c in
  exists L, slinked g 1 L 0 /\ (forall n, In n (1%nat :: L) -> n <> 0%nat /\ (n <= SL.nalloc g)%nat) /\
            zsorted (skeys g (1%nat :: L)) /\
            (forall n, (1 <= n <= SL.nalloc g)%nat -> akS (SL.nkey (SL.heap g n)) = true -> SL.nmark (SL.heap g n) = false) /\
            (forall b, SL.table g b <> 0%nat ->
               In (SL.table g b) (1%nat :: L) /\ SL.nkey (SL.heap g (SL.table g b)) = SL.dkey b /\
               SL.nmark (SL.heap g (SL.table g b)) = false /\ Z.of_nat b < 2 ^ 63) /\
            SL.table g 0%nat <> 0%nat.
Proof.
  intros Hok Hr g. destruct (split_inv_reach f ths c Hok Hr) as (A & (a & gtr & HI & _ & HT & _) & [_ Hz]). fold g in HI, HT, Hz.
  destruct HI as [(L & HS & HL) Hj].
  destruct (chain_keys_sorted _ _ (is_chain _ _ _ HS)) as [Hsort Hnz].
  destruct (is_chain _ _ _ HS) as [Hlk _].
  destruct L as [|x L]; cbn [linked proj heap hp] in Hlk; [cbn in Hlk; discriminate|].
  destruct Hlk as [Ex Hlk]. cbn in Ex. subst x.
  assert (HJ : forall n, (1 <= n <= SL.nalloc g)%nat -> akS (SL.nkey (SL.heap g n)) = true -> SL.nmark (SL.heap g n) = false).
  { intros n Hn Hk. specialize (Hj n). cbn [proj nalloc heap] in Hj. rewrite hp_key in Hj. rewrite hp_nz in Hj by lia.
    apply Hj; assumption. }
  exists L. split; [|split; [|split; [|split; [|split]]]].
  - apply linked_slinked; [lia|intros y Hy; apply Hnz; right; exact Hy|exact Hlk].
  - intros n Hn. split; [apply Hnz; exact Hn|]. apply (is_pubL _ _ _ HS) in Hn. apply (is_pub _ _ _ HS) in Hn. cbn [proj nalloc] in Hn. lia.
  - unfold skeys. unfold keys_of in Hsort. erewrite map_ext; [exact Hsort|]. intros n. cbn [proj heap]. symmetry. apply hp_key.
  - exact HJ.
  - intros b Hb. destruct (HT b Hb) as [HTb Hb63]. clear HT. rename HTb into HT. destruct (view2 a (vb b)) as [lvb cb] eqn:Ev. cbn [fst] in HT.
    destruct (view2_split _ _ _ _ Ev) as [Ev1 _].
    pose proof (fact_in _ _ _ _ _ _ HS Ev1 HT) as (K0 & Kp & Kk). cbn [proj heap] in Kk. rewrite hp_key in Kk.
    pose proof (is_pub _ _ _ HS _ Kp) as (Kn & _ & Kin). cbn [proj nalloc heap] in Kn, Kin. rewrite hp_nz in Kin by exact K0.
    assert (Hm : SL.nmark (SL.heap g (SL.table g b)) = false) by (apply HJ; [exact Kn|rewrite Kk; apply akS_dkey]).
    split; [apply Kin; exact Hm|]. repeat split; assumption.
  - exact Hz.
Qed.

End Thm.
