(** * Pop-only phases of MSPriorityQueue: the hand-over-hand frontier invariant.

    Setting: a phase of concurrent pushes, quiescence, then a phase of concurrent pops ([twophase tr]: no pop is
    invoked while a push is pending, no push is invoked after the first pop).  During the pop phase, for EVERY
    schedule:
      - a node lock is held by at most one pop, and a cell is only modified by the holder of its lock;
      - the "dirty" cells are the pParent cells of the pops inside heapify_after_pop (each is locked by its pop);
      - every cell in use is not larger than ANY of its non-dirty ancestors;
      - no cell is tagged with a thread id.
    At quiescence there is no dirty cell: the heap is a max-heap again ([mspq_pop_phase_heap]).

    The invariant is a third auxiliary component on top of MsPqInv.Inv and MsPqPush.Ext ([TInv]); the pop program is
    walked for the triple, the push program lifts (nothing is claimed while a push is pending in the pop phase). *)
From Coq Require Import ZArith List String Bool Lia PeanoNat Permutation.
From LV Require Import Base.Conc Base.Events Model.MsPq
  Proofs.MsPqBrc Proofs.MsPqInv Proofs.MsPqSteps Proofs.MsPqProofs Proofs.MsPqHeap Proofs.MsPqPush.
Import ListNotations.
Local Open Scope string_scope.
Local Open Scope list_scope.

(** ** the two-phase discipline, read off the trace *)
Record scan := mkS { pp : list nat;      (* threads with a pending push *)
                     seen : bool;        (* a pop has been invoked *)
                     bad : bool }.       (* the discipline was broken *)
Definition scan_step (s : scan) (te : nat * ev) : scan :=
  match snd te with
  | EvCli n _ =>
      if String.eqb n "inv_push" then mkS (fst te :: pp s) (seen s) (bad s || seen s)
      else if String.eqb n "ret_push" then mkS (filter (fun u => negb (Nat.eqb u (fst te))) (pp s)) (seen s) (bad s)
      else if String.eqb n "inv_pop" then mkS (pp s) true (bad s || match pp s with [] => false | _ => true end)
      else s
  | _ => s
  end.
Definition scan_of (tr : list (nat * ev)) : scan := fold_left scan_step tr (mkS [] false false).
Lemma scan_app tr tr' : scan_of (tr ++ tr') = fold_left scan_step tr' (scan_of tr).
Proof. apply fold_left_app. Qed.

(** events that the scan ignores *)
Definition sn (e : ev) : bool :=
  match e with
  | EvAcc _ _ _ => true
  | EvCli n _ => negb (String.eqb n "inv_push" || String.eqb n "ret_push" || String.eqb n "inv_pop")
  end.
Lemma scan_neutral t es s : forallb sn es = true -> fold_left scan_step (Conc.tag t es) s = s.
Proof.
  revert s. induction es as [|e es IH]; intros s; cbn [forallb]; [reflexivity|]. rewrite andb_true_iff. intros [He Hes].
  unfold Conc.tag in *. cbn [map fold_left]. rewrite IH by exact Hes. unfold scan_step. cbn [snd].
  destruct e as [| n args]; [reflexivity|]. cbn in He. rewrite negb_true_iff, !orb_false_iff in He.
  destruct He as [[H1 H2] H3]. rewrite H1, H2, H3. reflexivity.
Qed.
Lemma scan_neutral_app tr t es : forallb sn es = true -> scan_of (tr ++ Conc.tag t es) = scan_of tr.
Proof. intros H. rewrite scan_app. apply scan_neutral. exact H. Qed.

Lemma bad_mono tr tr' : bad (scan_of tr) = true -> bad (scan_of (tr ++ tr')) = true.
Proof.
  intros H. rewrite scan_app. revert H. generalize (scan_of tr). induction tr' as [|te tr' IH]; intros s H; [exact H|].
  cbn [fold_left]. apply IH. unfold scan_step. destruct (snd te) as [| n args]; [exact H|].
  destruct (String.eqb n "inv_push"); [cbn; rewrite H; reflexivity|].
  destruct (String.eqb n "ret_push"); [exact H|]. destruct (String.eqb n "inv_pop"); [cbn; rewrite H; reflexivity|exact H].
Qed.
Lemma seen_mono tr tr' : seen (scan_of tr) = true -> seen (scan_of (tr ++ tr')) = true.
Proof.
  intros H. rewrite scan_app. revert H. generalize (scan_of tr). induction tr' as [|te tr' IH]; intros s H; [exact H|].
  cbn [fold_left]. apply IH. unfold scan_step. destruct (snd te) as [| n args]; [exact H|].
  destruct (String.eqb n "inv_push"); [exact H|].
  destruct (String.eqb n "ret_push"); [exact H|]. destruct (String.eqb n "inv_pop"); [reflexivity|exact H].
Qed.

Definition twophase (tr : list (nat * ev)) : bool := negb (bad (scan_of tr)).

(** ** the third auxiliary component *)
Record pv := mkP { pin : bool;               (* inside a pop *)
                   psh : bool;               (* inside a push *)
                   plk : list nat;           (* node locks held by this pop *)
                   pdirty : option nat;      (* its pParent cell in heapify_after_pop *)
                   pch : option nat }.       (* the child chosen at R2 (the larger one) *)
Definition Aux3 := nat -> pv.
Definition upd3 (a3 : Aux3) (t : nat) (v : pv) : Aux3 := fun u => if Nat.eqb u t then v else a3 u.
Lemma upd3_same a3 t v : upd3 a3 t v t = v.
Proof. unfold upd3. rewrite Nat.eqb_refl. reflexivity. Qed.
Lemma upd3_other a3 t v u : u <> t -> upd3 a3 t v u = a3 u.
Proof. unfold upd3. intros H. destruct (Nat.eqb_spec u t); congruence. Qed.
Definition idle3 : pv := mkP false false [] None None.

Definition isdirty (a3 : Aux3) (j : nat) : Prop := exists t, pdirty (a3 t) = Some j.

(** [ch] is a child of [p], in use, and no child of [p] is larger *)
Definition IsMaxG (g : G) (p ch : nat) : Prop :=
  (ch = 2 * p \/ ch = S (2 * p)) /\ cellv g ch <> None /\
  (forall k x m, 2 <= k -> Nat.div2 k = p -> cellv g k = Some x -> cellv g ch = Some m -> (prio x <= prio m)%Z).

Section Pop.
  Variable cap : nat.
  Hypothesis OK : slots_ok cap = true.
  Hypothesis SH : shape_ok cap = true.
  Variable bsz : nat.
  Hypothesis Hbsz : cap < bsz.
  Notation Inv := (MsPqInv.Inv cap).

  Record PopFacts (g : G) (a1 : Aux) (a3 : Aux3) : Prop := mkPF {
    k1 : forall t l, In l (plk (a3 t)) -> l <> 0 /\ nlock (heap g l) = true;
    k2 : forall t t' l, In l (plk (a3 t)) -> In l (plk (a3 t')) -> t = t';
    k3 : forall i u, cellt g i <> TOwner u;
    k4 : forall t d, pdirty (a3 t) = Some d -> In d (plk (a3 t)) /\ cellv g d <> None;
    k5 : forall k j x y, anc j k -> ~ isdirty a3 j -> cellv g k = Some x -> cellv g j = Some y -> (prio x <= prio y)%Z;
    k6 : forall t, pstore (tvs a1 t) = None;
    k7 : forall t p ch, pdirty (a3 t) = Some p -> pch (a3 t) = Some ch ->
           In (2 * p) (plk (a3 t)) /\ In (S (2 * p)) (plk (a3 t)) /\ IsMaxG g p ch;
    k8 : forall t, pin (a3 t) = true -> inop (tvs a1 t) = true;
    k9 : forall t, pin (a3 t) = false -> plk (a3 t) = [] /\ pdirty (a3 t) = None /\ pclear (tvs a1 t) = None }.

  Definition PExt (g : G) (a1 : Aux) (a3 : Aux3) (tr : list (nat * ev)) : Prop :=
    (forall t, psh (a3 t) = true -> In t (pp (scan_of tr))) /\
    (forall t, psh (a3 t) = true -> seen (scan_of tr) = false \/ bad (scan_of tr) = true) /\
    (forall t, pin (a3 t) = true -> seen (scan_of tr) = true) /\
    (bad (scan_of tr) = false -> seen (scan_of tr) = true -> PopFacts g a1 a3).

  Definition TAux := ((Aux * Aux2) * Aux3)%type.
  Definition tview (a : TAux) (t : nat) : (tv * tv2) * pv := (jview (fst a) t, snd a t).
  Definition TInv (g : G) (a : TAux) (tr : list (nat * ev)) : Prop :=
    JInv cap g (fst a) tr /\ PExt g (fst (fst a)) (snd a) tr.
  Notation jsafe := (@Conc.safe G V ev JAux (tv * tv2) jview (JInv cap)).
  Notation tsafe := (@Conc.safe G V ev TAux ((tv * tv2) * pv) tview TInv).

  (** *** while this thread is inside a push nothing is claimed by [PExt]: programs that emit only scan-neutral
          events lift from [jsafe] *)
  Fixpoint quietp {R} (p : prog R) : Prop :=
    match p with
    | Ret _ => True
    | Emit es k => forallb sn es = true /\ quietp k
    | Act f k => (forall g, forallb sn (snd (f g)) = true) /\ forall v, quietp (k v)
    end.

  Lemma PExt_push g g' a1 a1' a3 tr t es :
    psh (a3 t) = true -> forallb sn es = true -> PExt g a1 a3 tr -> PExt g' a1' a3 (tr ++ Conc.tag t es).
  Proof.
    intros Hp Hes (U1 & U2 & U3 & U4). unfold PExt. rewrite (scan_neutral_app tr t es Hes). split; [exact U1|]. split; [exact U2|]. split; [exact U3|].
    intros Hb Hs. destruct (U2 t Hp) as [K|K]; congruence.
  Qed.

  Lemma lift_psh {R} (p : prog R) : forall t l (Q : R -> tv * tv2 -> Prop) P3,
    psh P3 = true -> quietp p -> jsafe t p l Q -> tsafe t p (l, P3) (fun r l' => Q r (fst l') /\ snd l' = P3).
  Proof.
    induction p as [r|es k IH|f k IH]; intros t l Q P3 Hv Hq H; cbn [Conc.safe quietp] in *.
    - auto.
    - destruct Hq as [Hq1 Hq2]. intros g [a12 a3] tr [Hi He] Hvw. unfold tview in Hvw. cbn [fst snd] in *. inversion Hvw as [[V1 V2]].
      destruct (H g a12 tr Hi V1) as (a12' & K1 & K2 & K3). exists (a12', a3). split; [|split].
      + split; [exact K1|]. cbn [fst snd]. apply (PExt_push g g (fst a12) (fst a12') a3 tr t es); [rewrite V2; exact Hv|exact Hq1|exact He].
      + intros u Hu. unfold tview. cbn [fst snd]. f_equal. apply (K2 u Hu).
      + unfold tview. cbn [fst snd]. rewrite V2. apply IH; assumption.
    - destruct Hq as [Hq1 Hq2]. intros g [a12 a3] tr [Hi He] Hvw. unfold tview in Hvw. cbn [fst snd] in *. inversion Hvw as [[V1 V2]].
      destruct (H g a12 tr Hi V1) as (a12' & K1 & K2 & K3). exists (a12', a3). split; [|split].
      + split; [exact K1|]. cbn [fst snd]. apply (PExt_push g _ (fst a12) (fst a12') a3 tr t _); [rewrite V2; exact Hv|apply Hq1|exact He].
      + intros u Hu. unfold tview. cbn [fst snd]. f_equal. apply (K2 u Hu).
      + unfold tview. cbn [fst snd]. rewrite V2. apply IH; [exact Hv|apply Hq2|exact K3].
  Qed.
End Pop.
