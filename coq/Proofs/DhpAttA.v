(** * DhpAttA: "_att" (a held record becomes the attached record of its thread) and the thread_id_ CAS /
      release of alloc_thread_data and help_scan. *)
From Coq Require Import ZArith NArith List String Bool Lia PeanoNat.
From LV Require Import Base.Conc Base.Events Model.DhpLang Model.Dhp Proofs.DhpBase Proofs.DhpHist
  Proofs.DhpLangProofs Proofs.DhpInvA Proofs.DhpStepsA Proofs.DhpQuietA Proofs.DhpSlotA Proofs.DhpScanA Proofs.DhpScanC
  Proofs.DhpPresA Proofs.DhpAllocA Proofs.DhpAllocB Proofs.DhpViewA Proofs.DhpDetB Proofs.DhpDetC.
Import ListNotations.

Definition with_tls_hold (l : VA) (tl hd : option nat) : VA :=
  mkVA tl (va_unpub l) hd (va_help l) (va_node l) (va_blk l) (va_e l) (va_limbo l) (va_scan l).
Definition with_hold_node (l : VA) (hd nd : option nat) : VA :=
  mkVA (va_tls l) (va_unpub l) hd (va_help l) nd (va_blk l) (va_e l) (va_limbo l) (va_scan l).
Definition with_help (l : VA) (hp : option nat) : VA :=
  mkVA (va_tls l) (va_unpub l) (va_hold l) hp (va_node l) (va_blk l) (va_e l) (va_limbo l) (va_scan l).

Section AttA.
  Variable c : cfg.

  (** "_att r" *)
  Lemma JA_att g a h t l r :
    JA c g a h -> views a t = l -> va_hold l = Some r -> va_limbo l = None -> va_tls l = None -> va_e l = None ->
    JA c g (upd_aux a t (with_tls_hold l (Some r) None) (bown a))
         (mkH (S (hlen h)) (slotv h) (lastw h) (fupd Nat.eqb (att h) r (Some (t, hlen h))) (fupd Nat.eqb (linked h) r []) (scan h) (freeh h) (flbad h)).
  Proof.
    intros J Hv Hh Hlm Htl He. pose proof J as [J1 J2 J3 J4 J5 J6 J7 J8 J9 J10 J11 J12 J15 J16 J17 J18 J13 J14].
    set (a' := upd_aux a t (with_tls_hold l (Some r) None) (bown a)).
    rewrite <- Hv in Hh, Hlm, Htl, He. destruct (J6 t r Hh) as (Rlt & Ratt & Rtid & Raft & Rsl & Rext). specialize (Rext Hlm).
    pose proof (J4 r Ratt) as Rlk.
    assert (At : forall r', r' <> r -> fupd Nat.eqb (att h) r (Some (t, hlen h)) r' = att h r') by (intros r' N; unfold fupd; destruct (Nat.eqb_spec r' r); congruence).
    assert (Ats : fupd Nat.eqb (att h) r (Some (t, hlen h)) r = Some (t, hlen h)) by (unfold fupd; now rewrite Nat.eqb_refl).
    assert (Lk : forall r', fupd Nat.eqb (linked h) r [] r' = linked h r').
    { intros r'. unfold fupd. destruct (Nat.eqb_spec r' r) as [->|N]; auto. }
    assert (V : forall t', t' <> t -> views a' t' = views a t') by (intros t' N; unfold a'; now apply upd_aux_other).
    assert (Vs : views a' t = with_tls_hold (views a t) (Some r) None) by (unfold a'; rewrite upd_aux_same, Hv; reflexivity).
    assert (B : bown a' = bown a) by reflexivity.
    assert (F : forall t', va_unpub (views a' t') = va_unpub (views a t') /\ va_help (views a' t') = va_help (views a t') /\
                           va_node (views a' t') = va_node (views a t') /\ va_blk (views a' t') = va_blk (views a t') /\
                           va_e (views a' t') = va_e (views a t') /\ va_limbo (views a' t') = va_limbo (views a t') /\
                           va_scan (views a' t') = va_scan (views a t')).
    { intros t'. destruct (Nat.eq_dec t' t) as [->|N]; [rewrite Vs; cbn; repeat split; auto|rewrite (V t' N); repeat split; reflexivity]. }
    constructor; cbn [hlen slotv lastw att linked scan freeh flbad]; rewrite ?B.
    - exact J1.
    - intros r' t' k' Ha. rewrite Lk. destruct (Nat.eq_dec r' r) as [->|N].
      + rewrite Ats in Ha. inversion Ha; subst t' k'. rewrite Vs. cbn. rewrite Rlk, Rext. cbn.
        repeat split; auto; try lia; try constructor; try (intros b kb []).
      + rewrite (At r' N) in Ha. destruct (J2 r' t' k' Ha) as (X1&X2&X3&X4&X5&X6&X7&X8&X9).
        assert (t' <> t). { intros ->. congruence. } rewrite (V t' H).
        split; auto. split; auto. split; auto. split; auto. split; auto. split; [lia|]. split; auto. split; auto.
        try (intros b kb K; destruct (X9 b kb K) as (W1&W2&W3); split; auto; lia).
    - intros t' r' Ht. destruct (Nat.eq_dec t' t) as [->|N].
      + rewrite Vs in Ht. cbn in Ht. inversion Ht; subst r'. exists (hlen h). exact Ats.
      + rewrite (V t' N) in Ht. destruct (J3 t' r' Ht) as (k' & K). exists k'. rewrite At; auto. intros ->. congruence.
    - intros r' Ha. rewrite Lk. destruct (Nat.eq_dec r' r) as [->|N]; [exact Rlk|]. rewrite (At r' N) in Ha. auto.
    - intros t' r' bt Ht. destruct (F t') as (E&_). rewrite E in Ht. destruct (J5 t' r' bt Ht) as (X1&X2&X3&X4&X5&X6).
      assert (r' <> r). { intros ->. destruct J1 as (L & H1 & _). destruct Raft as (S & A1 & A2 & A3). apply (X3 L H1). apply (A3 L H1). exact A2. }
      rewrite (At r' H). repeat split; auto.
      intros t'' bt' Ht''. destruct (F t'') as (E'&_). rewrite E' in Ht''. eauto.
    - intros t' r' Ht. destruct (Nat.eq_dec t' t) as [->|N]; [rewrite Vs in Ht; cbn in Ht; discriminate|]. rewrite (V t' N) in Ht |- *.
      destruct (J6 t' r' Ht) as (X1&X2&X3&X4&X5&X6). assert (r' <> r). { intros ->. rewrite Rtid in X3. inversion X3. congruence. }
      rewrite (At r' H). repeat split; auto.
    - intros t' r' Ht. destruct (F t') as (_&E2&_). rewrite E2 in Ht. destruct (J7 t' r' Ht) as (X1&X2&X3).
      assert (r' <> r). { intros ->. rewrite Rtid in X1. inversion X1; subst t'. congruence. }
      rewrite (At r' H). split; auto. split; auto.
      destruct (Nat.eq_dec t' t) as [->|N]; [rewrite Vs; cbn; discriminate|now rewrite (V t' N)].
    - intros r' Hr Ha. destruct (Nat.eq_dec r' r) as [->|N]; [rewrite Ats in Ha; discriminate|]. rewrite (At r' N) in Ha.
      destruct (J8 r' Hr Ha) as [X|(t' & X1 & X2)]; [now left|right]. exists t'.
      assert (t' <> t). { intros ->. congruence. } now rewrite (V t' H).
    - intros t' b' Ht. destruct (F t') as (_&_&_&E4&_&E6&_). rewrite E4 in Ht. rewrite E6. exact (J9 t' b' Ht).
    - intros t' o lb' Ht. destruct (F t') as (_&_&_&_&_&E6&_). rewrite E6 in Ht. exact (J10 t' o lb' Ht).
    - exact J11.
    - exact J12.
    - exact J15.
    - exact J16.
    - intros t' e f Ht. destruct (F t') as (_&_&_&E4&E5&_). rewrite E5 in Ht. rewrite E4.
      destruct (Nat.eq_dec t' t) as [->|N]; [congruence|]. rewrite (V t' N). exact (J17 t' e f Ht).
    - intros t' n Ht. destruct (F t') as (_&_&E3&_). rewrite E3 in Ht. eauto.
    - exact J13.
    - intros t'. destruct (F t') as (_&_&_&_&_&_&E7). rewrite E7. specialize (J14 t').
      destruct (va_scan (views a t')) as [ss|]; auto. destruct J14 as (X1 & X2). split; auto. pose proof X2 as (Xs0 & _).
      apply (scan_ok_frame c g g h _ ss); cbn [hlen slotv lastw att linked]; [lia|intros s; left; auto|auto|left; reflexivity|reflexivity| |exact X2].
      intros s k0 Hl Hk.
      assert (Hl0 : live c h s k0).
      { destruct s as [r' i|x i]; cbn in Hl |- *.
        - destruct Hl as (t0 & A1 & A2). exists t0. split; auto. destruct (Nat.eq_dec r' r) as [->|N]; [rewrite Ats in A1; inversion A1; lia|now rewrite At in A1].
        - destruct Hl as (r' & t0 & k1 & A1 & A2 & A3). rewrite Lk in A2. exists r', t0, k1.
          destruct (Nat.eq_dec r' r) as [->|N]; [rewrite Rlk in A2; contradiction|]. rewrite At in A1 by exact N. auto. }
      split; auto. split.
      + intros r' Hs. destruct s as [r0 i|x i]; cbn in Hs |- *; auto. now rewrite Lk.
      + intros n0 o S b0 i Es0 Hin Hg Hi. split; auto. now rewrite Lk.
  Qed.
End AttA.
