(** * CuckooSet with the refinable policy: the combined invariant.

    [CoreR] (lock / ownership protocol, [CuckooConcRefInv.v]) on the policy part of the views, together with the
    probe-set part of [Core] of [CuckooConcInv.v]: a thread has authority over probe sets while it is validated by
    acquire() ([v_anc]) or is the exclusive owner; its snapshot of the bucket mask and of its probe sets is taken at
    the validation step / when it becomes exclusive / when it takes a further cell while validated. *)
From Coq Require Import ZArith List Bool Lia PeanoNat.
From Coq Require String.
From LV Require Import Base.Conc Base.Events Base.Lin Spec.Specs Proofs.LinProofs
     Model.CuckooConc Proofs.StripedConcSpec Proofs.CuckooConcInv Proofs.CuckooConcRefInv.
Import ListNotations.
Local Open Scope nat_scope.

Record fview := mkFV {
  v_op : status ISet;
  v_held : list lk;
  v_mic : micro;
  v_mask : nat;
  v_reg : nat -> nat -> list item;
  v_fly : list item;
  v_pend : list item;
  v_own : ostate;
  v_anc : option (nat * nat);
  v_chk : option (nat * nat);
  v_gs : nat * nat;
  v_acc : bool;
  v_wmask : nat
}.
Record FAux := mkFAux { a_view : nat -> fview; a_atr : list (aev ISet) }.
Definition fvw (a : FAux) (t : nat) : fview := a_view a t.
Definition wof (v : fview) : wview := mkW (v_held v) (v_mic v) (v_own v) (v_anc v) (v_chk v) (v_gs v) (v_acc v) (v_wmask v).
Definition wv (a : FAux) : RAux := fun t => wof (a_view a t).
Definition held (a : FAux) (t : nat) : list lk := v_held (a_view a t).
Definition mic (a : FAux) (t : nat) : micro := v_mic (a_view a t).
Definition fly (a : FAux) (t : nat) : list item := v_fly (a_view a t).
Definition pend (a : FAux) (t : nat) : list item := v_pend (a_view a t).

Definition setv (a : FAux) (t : nat) (v : fview) : FAux :=
  mkFAux (fun x => if Nat.eqb x t then v else a_view a x) (a_atr a).
Definition seta (a : FAux) (atr : list (aev ISet)) : FAux := mkFAux (a_view a) atr.

Lemma setv_same a t v : a_view (setv a t v) t = v.
Proof. cbn. now rewrite Nat.eqb_refl. Qed.
Lemma setv_other a t v t' : t' <> t -> a_view (setv a t v) t' = a_view a t'.
Proof. cbn. intros H. destruct (Nat.eqb_spec t' t); congruence. Qed.
Lemma frame_setv a t v : Conc.frame fvw t a (setv a t v).
Proof. intros t' H. unfold fvw. now apply setv_other. Qed.
Lemma frame_refl a t : Conc.frame fvw t a a.
Proof. intros t' H. reflexivity. Qed.
Lemma wv_setv a t v t0 : wv (setv a t v) t0 = rsetv (wv a) t (wof v) t0.
Proof. unfold wv, rsetv. cbn. destruct (Nat.eqb t0 t); reflexivity. Qed.
Lemma wv_seta a atr : wv (seta a atr) = wv a.
Proof. reflexivity. Qed.

Section FInv.
  Variable cf : conf.

  Definition h0 (x : item) : nat := fst (hashes cf (fst x)).
  Definition h1 (x : item) : nat := snd (hashes cf (fst x)).
  Definition hx (x : item) (tb : nat) : nat := hsel (hashes cf (fst x)) tb.

  Definition all0 (v : fview) : Prop := exclusive (v_own v).
  Definition has0 (v : fview) : Prop := v_anc v <> None \/ all0 v.
  (** the cell of the stripe of bucket / hash [b] in table [tb] of the lock arrays the thread last read *)
  Definition clk (v : fview) (tb b : nat) : lk := (fst (v_gs v), tb, b mod snd (v_gs v)).
  Definition auth (v : fview) (tb b : nat) : Prop := has0 v /\ (In (clk v tb b) (v_held v) \/ all0 v).

  Definition T (g : G) (tb b : nat) : list item := get_bkt (tabs g) tb b.
  Definition absent (g : G) (x : item) : Prop :=
    forall tb, tb < 2 -> khas (fst x) (T g tb (hx x tb mod S (mask g))) = false.

  Record CoreB (g : G) (a : FAux) : Prop := mkCoreB {
    b_gs : forall t, v_anc (a_view a t) <> None -> v_gs (a_view a t) = (cur g, pcap g);
    c_mask : forall t, has0 (a_view a t) -> mask g = v_mask (a_view a t);
    c_reg : forall t tb b, tb < 2 -> auth (a_view a t) tb b -> T g tb b = v_reg (a_view a t) tb b;
    c_len : length (tabs g) = 2 /\ (forall tb, tb < 2 -> length (nth tb (tabs g) []) = S (mask g));
    c_placed : forall tb b x, tb < 2 -> In x (T g tb b) -> hx x tb mod S (mask g) = b;
    c_nodup : forall tb b, NoDup (keys (T g tb b));
    c_cross : forall b b' x y, In x (T g 0 b) -> In y (T g 1 b') -> fst x <> fst y;
    c_fly : forall t x, In x (fly a t) ->
              has0 (a_view a t) /\
              (all0 (a_view a t) \/ (In (clk (a_view a t) 0 (h0 x)) (held a t) /\ In (clk (a_view a t) 1 (h1 x)) (held a t))) /\
              absent g x;
    c_fly1 : forall t, length (fly a t) <= 1;
    c_pend : forall t, pend a t <> [] -> all0 (a_view a t);
    c_pend2 : forall t, NoDup (keys (pend a t)) /\
                        forall x, In x (pend a t) -> absent g x /\ forall y, In y (fly a t) -> fst y <> fst x
  }.

  Definition allp (g : G) (a : FAux) (x : item) : Prop :=
    (exists tb b, tb < 2 /\ In x (T g tb b)) \/ (exists t, In x (fly a t)) \/ (exists t, In x (pend a t)).

  Definition Abs (g : G) (a : FAux) (tr : list (nat * ev)) : Prop :=
    dropped tr \/
    exists s st, lp_run lp_init (a_atr a) = Some (s, st) /\ erase (a_atr a) = hist_of tr /\
      (forall t, st t = v_op (a_view a t)) /\ NoDup (keys s) /\ forall x, In x s <-> allp g a x.

  Definition InvF (g : G) (a : FAux) (tr : list (nat * ev)) : Prop := CoreR g (wv a) /\ CoreB g a /\ Abs g a tr.

  Arguments b_gs {g a}. Arguments c_mask {g a}. Arguments c_reg {g a}. Arguments c_len {g a}.
  Arguments c_placed {g a}. Arguments c_nodup {g a}. Arguments c_cross {g a}. Arguments c_fly {g a}. Arguments c_fly1 {g a}.
  Arguments c_pend {g a}. Arguments c_pend2 {g a}.

  Lemma held_same a t v : held (setv a t v) t = v_held v.  Proof. unfold held. now rewrite setv_same. Qed.
  Lemma held_other a t v t' : t' <> t -> held (setv a t v) t' = held a t'.  Proof. unfold held. intros. now rewrite setv_other. Qed.
  Lemma fly_same a t v : fly (setv a t v) t = v_fly v.  Proof. unfold fly. now rewrite setv_same. Qed.
  Lemma fly_other a t v t' : t' <> t -> fly (setv a t v) t' = fly a t'.  Proof. unfold fly. intros. now rewrite setv_other. Qed.
  Lemma pend_same a t v : pend (setv a t v) t = v_pend v.  Proof. unfold pend. now rewrite setv_same. Qed.
  Lemma pend_other a t v t' : t' <> t -> pend (setv a t v) t' = pend a t'.  Proof. unfold pend. intros. now rewrite setv_other. Qed.

  (** CoreR for an updated view *)
  Lemma CoreR_setv g a t v' : CoreR g (rsetv (wv a) t (wof v')) -> CoreR g (wv (setv a t v')).
  Proof. apply CoreR_ext. intros t0. apply wv_setv. Qed.

  (** *** authority is exclusive *)
  Lemma anc_facts g a t : CoreR g (wv a) -> CoreB g a -> v_anc (a_view a t) <> None ->
    exists i, v_anc (a_view a t) = Some (cur g, i) /\ In (cur g, 0, i) (held a t) /\ v_gs (a_view a t) = (cur g, pcap g) /\
              forall R, R <> t -> ~ all0 (a_view a R).
  Proof.
    intros Hr Hb Ha. destruct (v_anc (a_view a t)) as [[gen i]|] eqn:E; [|congruence].
    destruct (r_anc Hr t gen i E) as (A1 & A2 & A3). subst gen. exists i. split; auto. split; [exact A1|]. split; [apply (b_gs Hb); congruence|].
    intros R HR. apply (A3 R HR).
  Qed.

  Lemma all0_unique g a t t' : CoreR g (wv a) -> all0 (a_view a t) -> all0 (a_view a t') -> t = t'.
  Proof. intros Hr H1 H2. eapply (excl_unique g (wv a)); eauto. Qed.

  Lemma has0_all0_other g a t t0 : CoreR g (wv a) -> CoreB g a -> has0 (a_view a t) -> all0 (a_view a t0) -> t0 = t.
  Proof.
    intros Hr Hb [Ha|Ha] H0; [|eapply all0_unique; eauto].
    destruct (Nat.eq_dec t0 t) as [|Hne]; auto. exfalso. destruct (anc_facts g a t Hr Hb Ha) as (i & _ & _ & _ & X). eapply X; eauto.
  Qed.

  Lemma auth_other_none g a t t0 tb b : CoreR g (wv a) -> CoreB g a -> auth (a_view a t) tb b -> t0 <> t -> ~ auth (a_view a t0) tb b.
  Proof.
    intros Hr Hb [H0 H1] Hne [K0 K1].
    destruct K1 as [K1|K1]; [|apply Hne; eapply has0_all0_other; eauto].
    destruct H1 as [H1|H1]; [|apply Hne; symmetry; eapply has0_all0_other; eauto].
    destruct H0 as [H0|H0]; [|apply Hne; symmetry; eapply has0_all0_other; eauto].
    destruct K0 as [K0|K0]; [|apply Hne; eapply (has0_all0_other g a t t0); eauto; now left].
    destruct (anc_facts g a t Hr Hb H0) as (_ & _ & _ & G1 & _). destruct (anc_facts g a t0 Hr Hb K0) as (_ & _ & _ & G2 & _).
    unfold clk in H1, K1. rewrite G1 in H1. rewrite G2 in K1. apply Hne. eapply (r_excl Hr t0 t); [exact K1|exact H1].
  Qed.

  (** stripes: a validated thread that is not the exclusive owner sees as many buckets as cells *)
  Lemma stripe_mod g a t hh : CoreR g (wv a) -> CoreB g a -> v_anc (a_view a t) <> None -> ~ all0 (a_view a t) ->
    (hh mod S (mask g)) mod snd (v_gs (a_view a t)) = hh mod snd (v_gs (a_view a t)).
  Proof.
    intros Hr Hb Ha Hn. destruct (anc_facts g a t Hr Hb Ha) as (i & _ & _ & G & X). rewrite G. cbn [snd].
    destruct (r_len Hr) as [E|(R & g0 & sz & E1 & E2)].
    - rewrite E. apply Nat.mod_mod. lia.
    - exfalso. assert (Hx : all0 (a_view a R)) by (unfold all0; change (v_own (a_view a R)) with (w_own (wv a R)); rewrite E1; exact I).
      destruct (Nat.eq_dec R t) as [->|Hne]; [contradiction|]. eapply X; eauto.
  Qed.

  Lemma fly_auth g a t x tb : CoreR g (wv a) -> CoreB g a -> In x (fly a t) -> tb < 2 -> auth (a_view a t) tb (hx x tb mod S (mask g)).
  Proof.
    intros Hr Hb Hin Htb. destruct (c_fly Hb t x Hin) as (A0 & A1 & _). split; auto.
    destruct A1 as [A1|[A1 A2]]; [now right|].
    destruct A0 as [A0|A0]; [|now right].
    assert (D : all0 (a_view a t) \/ ~ all0 (a_view a t)).
    { unfold all0. destruct (v_own (a_view a t)) as [| |g0 sz j|g0 sz n b]; cbn; auto. destruct (Nat.eq_dec j sz); auto. }
    destruct D as [D|D]; [now right|]. left. unfold clk. rewrite (stripe_mod g a t _ Hr Hb A0 D).
    destruct tb as [|[|tb]]; [exact A1|exact A2|lia].
  Qed.
  (** *** the view of thread [t] changes; the tables and the mask do not *)
  Lemma CoreB_view g g' a t v' :
    CoreB g a -> mask g' = mask g -> tabs g' = tabs g ->
    (forall t0, t0 <> t -> v_anc (a_view a t0) <> None -> cur g' = cur g /\ pcap g' = pcap g) ->
    v_fly v' = fly a t -> v_pend v' = pend a t ->
    (v_anc v' <> None -> v_gs v' = (cur g', pcap g')) ->
    (has0 v' -> v_mask v' = mask g) ->
    (forall tb b, tb < 2 -> auth v' tb b -> v_reg v' tb b = T g tb b) ->
    (forall x, In x (fly a t) -> has0 v' /\ (all0 v' \/ (In (clk v' 0 (h0 x)) (v_held v') /\ In (clk v' 1 (h1 x)) (v_held v')))) ->
    (pend a t <> [] -> all0 v') ->
    CoreB g' (setv a t v').
  Proof.
    intros Hb Cm Ct Hcp Hfly Hpend Lgs Lmask Lreg Lfl Lpe.
    pose proof Hb as [K0 K8 K9 K10 K11 K12 K13 K14 K15 K16 K17].
    assert (HT : forall tb b, T g' tb b = T g tb b) by (intros; unfold T; now rewrite Ct).
    assert (Habs : forall x, absent g' x <-> absent g x).
    { intros x. unfold absent. rewrite Cm. setoid_rewrite HT. tauto. }
    constructor.
    - intros t0 H. destruct (Nat.eq_dec t0 t) as [->|Hne].
      + rewrite setv_same in *. auto.
      + rewrite setv_other in * by exact Hne. destruct (Hcp t0 Hne H) as [E1 E2]. rewrite E1, E2. auto.
    - intros t0 H. rewrite Cm. destruct (Nat.eq_dec t0 t) as [->|Hne].
      + rewrite setv_same in *. symmetry. auto.
      + rewrite setv_other in * by exact Hne. auto.
    - intros t0 tb b Htb H. rewrite HT. destruct (Nat.eq_dec t0 t) as [->|Hne].
      + rewrite setv_same in *. symmetry. auto.
      + rewrite setv_other in * by exact Hne. auto.
    - rewrite Cm, Ct. exact K10.
    - intros tb b x Htb. rewrite HT, Cm. apply K11; auto.
    - intros tb b. rewrite HT. apply K12.
    - intros b b' x y. rewrite !HT. apply K13.
    - intros t0 x H. rewrite Habs. destruct (Nat.eq_dec t0 t) as [->|Hne].
      + rewrite fly_same, Hfly in H. rewrite setv_same, held_same. destruct (Lfl x H) as (A1 & A2).
        split; auto. split; auto. apply (K14 t x H).
      + rewrite fly_other in H by exact Hne. rewrite setv_other, held_other by exact Hne. apply K14; auto.
    - intros t0. destruct (Nat.eq_dec t0 t) as [->|Hne]; [rewrite fly_same, Hfly|rewrite fly_other by exact Hne]; apply K15.
    - intros t0 H. destruct (Nat.eq_dec t0 t) as [->|Hne].
      + rewrite pend_same, Hpend in H. rewrite setv_same. auto.
      + rewrite pend_other in H by exact Hne. rewrite setv_other by exact Hne. auto.
    - intros t0. destruct (Nat.eq_dec t0 t) as [->|Hne].
      + rewrite pend_same, fly_same, Hpend, Hfly. setoid_rewrite Habs. apply K17.
      + rewrite pend_other, fly_other by exact Hne. setoid_rewrite Habs. apply K17.
  Qed.

  Lemma CoreB_same g g' a : CoreB g a -> mask g' = mask g -> tabs g' = tabs g -> cur g' = cur g -> pcap g' = pcap g -> CoreB g' a.
  Proof.
    intros [K0 K8 K9 K10 K11 K12 K13 K14 K15 K16 K17] C3 C4 C5 C6.
    assert (HT : forall tb b, T g' tb b = T g tb b) by (intros; unfold T; now rewrite C4).
    assert (Hab : forall x, absent g' x <-> absent g x) by (intros x; unfold absent; rewrite C3; setoid_rewrite HT; tauto).
    constructor.
    - rewrite C5, C6. exact K0.
    - rewrite C3. exact K8.
    - intros t tb b. rewrite HT. apply K9.
    - rewrite C3, C4. exact K10.
    - intros tb b x. rewrite HT, C3. apply K11.
    - intros tb b. rewrite HT. apply K12.
    - intros b b' x y. rewrite !HT. apply K13.
    - intros t x H. rewrite Hab. apply K14; auto.
    - exact K15.
    - exact K16.
    - intros t. destruct (K17 t) as [A B]. split; auto. intros x H. rewrite Hab. auto.
  Qed.

  Lemma CoreB_seta g a atr : CoreB g a -> CoreB g (seta a atr).
  Proof. intros [K0 K8 K9 K10 K11 K12 K13 K14 K15 K16 K17]. constructor; assumption. Qed.

  (** views that differ only in fields the probe-set invariant does not read for authority *)
  Definition same_auth (v v' : fview) : Prop :=
    v_held v' = v_held v /\ (exclusive (v_own v') <-> exclusive (v_own v)) /\ v_anc v' = v_anc v /\ v_gs v' = v_gs v.
  Lemma same_auth_has0 v v' : same_auth v v' -> (has0 v' <-> has0 v).
  Proof. intros (A1 & A2 & A3 & A4). unfold has0, all0. now rewrite A2, A3. Qed.
  Lemma same_auth_all0 v v' : same_auth v v' -> (all0 v' <-> all0 v).
  Proof. intros (A1 & A2 & A3 & A4). unfold all0. exact A2. Qed.
  Lemma same_auth_auth v v' tb b : same_auth v v' -> (auth v' tb b <-> auth v tb b).
  Proof. intros H. pose proof H as (A1 & A2 & A3 & A4). unfold auth, clk. rewrite (same_auth_has0 v v' H), (same_auth_all0 v v' H), A1, A4. tauto. Qed.

  (** *** a step of thread [t] that replaces one probe set it has authority over *)
  Lemma CoreB_table g g' a t v' tb b new :
    CoreR g (wv a) -> CoreB g a ->
    mask g' = mask g -> tabs g' = set_bkt (tabs g) tb b new -> cur g' = cur g -> pcap g' = pcap g ->
    tb < 2 -> b < S (mask g) -> auth (a_view a t) tb b ->
    same_auth (a_view a t) v' -> v_mask v' = v_mask (a_view a t) ->
    (forall tb' b', v_reg v' tb' b' = if Nat.eqb tb' tb && Nat.eqb b' b then new else v_reg (a_view a t) tb' b') ->
    (forall x, In x new -> hx x tb mod S (mask g) = b) -> NoDup (keys new) ->
    (forall x y b', In x new -> In y (T g (other tb) b') -> fst x <> fst y) ->
    (forall x, In x (v_fly v') -> has0 (a_view a t) /\
        (all0 (a_view a t) \/ (In (clk (a_view a t) 0 (h0 x)) (held a t) /\ In (clk (a_view a t) 1 (h1 x)) (held a t))) /\
        (forall tb', tb' < 2 -> khas (fst x) (if Nat.eqb tb' tb && Nat.eqb (hx x tb' mod S (mask g)) b then new else T g tb' (hx x tb' mod S (mask g))) = false)) ->
    length (v_fly v') <= 1 ->
    (v_pend v' <> [] -> all0 (a_view a t)) -> NoDup (keys (v_pend v')) ->
    (forall x, In x (v_pend v') ->
       (forall tb', tb' < 2 -> khas (fst x) (if Nat.eqb tb' tb && Nat.eqb (hx x tb' mod S (mask g)) b then new else T g tb' (hx x tb' mod S (mask g))) = false) /\
       forall y, In y (v_fly v') -> fst y <> fst x) ->
    CoreB g' (setv a t v').
  Proof.
    intros Hr Hb Cm Ct Cc Cp Htb Hbb Hau Hsa Hma Hreg Hpl Hnd Hcr Hfl Hfl1 Hpe Hpn Hpa.
    pose proof Hb as [K0 K8 K9 K10 K11 K12 K13 K14 K15 K16 K17].
    destruct K10 as (Len2 & LenT).
    assert (Hblen : b < length (nth tb (tabs g) [])) by (rewrite LenT; auto).
    assert (Htlen : tb < length (tabs g)) by lia.
    assert (HTs : T g' tb b = new) by (unfold T; rewrite Ct; now apply get_set_bkt_same).
    assert (HTo : forall tb' b', (tb', b') <> (tb, b) -> T g' tb' b' = T g tb' b') by (intros; unfold T; rewrite Ct; now apply get_set_bkt_other).
    assert (HTif : forall tb' b', T g' tb' b' = if Nat.eqb tb' tb && Nat.eqb b' b then new else T g tb' b').
    { intros tb' b'. destruct (Nat.eqb_spec tb' tb) as [->|E1]; destruct (Nat.eqb_spec b' b) as [->|E2]; cbn; auto; apply HTo; congruence. }
    pose proof Hsa as (S1 & S2 & S3 & S4).
    assert (Hheld : forall t0, held (setv a t v') t0 = held a t0).
    { intros t0. destruct (Nat.eq_dec t0 t) as [->|Hne]; [rewrite held_same; exact S1|now rewrite held_other]. }
    assert (Hhas0 : forall t0, has0 (a_view (setv a t v') t0) <-> has0 (a_view a t0)).
    { intros t0. destruct (Nat.eq_dec t0 t) as [->|Hne]; [rewrite setv_same; now apply same_auth_has0|now rewrite setv_other]. }
    assert (Hall0 : forall t0, all0 (a_view (setv a t v') t0) <-> all0 (a_view a t0)).
    { intros t0. destruct (Nat.eq_dec t0 t) as [->|Hne]; [rewrite setv_same; now apply same_auth_all0|now rewrite setv_other]. }
    assert (Hauth : forall t0 tb' b', auth (a_view (setv a t v') t0) tb' b' <-> auth (a_view a t0) tb' b').
    { intros t0 tb' b'. destruct (Nat.eq_dec t0 t) as [->|Hne]; [rewrite setv_same; now apply same_auth_auth|now rewrite setv_other]. }
    assert (Hclk : forall t0 tb' h, clk (a_view (setv a t v') t0) tb' h = clk (a_view a t0) tb' h).
    { intros t0 tb' h. destruct (Nat.eq_dec t0 t) as [->|Hne]; [rewrite setv_same; unfold clk; now rewrite S4|now rewrite setv_other]. }
    assert (Habs_other : forall t0 x, t0 <> t -> (forall tb', tb' < 2 -> auth (a_view a t0) tb' (hx x tb' mod S (mask g))) -> absent g x -> absent g' x).
    { intros t0 x Hne Hax Hab tb' Htb'. rewrite Cm, HTif.
      destruct (Nat.eqb_spec tb' tb) as [->|E1]; destruct (Nat.eqb_spec (hx x tb mod S (mask g)) b) as [E2|E2]; cbn; try (apply Hab; auto).
      exfalso. eapply (auth_other_none g a t t0 tb b Hr Hb Hau Hne). rewrite <- E2. apply Hax. exact Htb. }
    constructor.
    - intros t0 H. rewrite Cc, Cp. destruct (Nat.eq_dec t0 t) as [->|Hne].
      + rewrite setv_same in *. rewrite S4. apply K0. now rewrite <- S3.
      + rewrite setv_other in * by exact Hne. auto.
    - intros t0. rewrite Hhas0, Cm. destruct (Nat.eq_dec t0 t) as [->|Hne].
      + rewrite setv_same, Hma. apply K8.
      + rewrite setv_other by exact Hne. apply K8.
    - intros t0 tb' b' Htb'. rewrite Hauth. intros Ha. destruct (Nat.eq_dec t0 t) as [->|Hne].
      + rewrite setv_same, Hreg, HTif. destruct (Nat.eqb tb' tb && Nat.eqb b' b); auto.
      + rewrite setv_other by exact Hne. rewrite HTo; [auto|]. intros E. inversion E; subst.
        eapply (auth_other_none g a t t0 tb b); eauto.
    - rewrite Cm, Ct. split; [unfold set_bkt; now rewrite set_nth_length|].
      intros tb' Htb'. unfold set_bkt. destruct (Nat.eq_dec tb' tb) as [->|E].
      + rewrite nth_set_nth_same by exact Htlen. rewrite set_nth_length. auto.
      + rewrite nth_set_nth_other by auto. auto.
    - intros tb' b' x Htb'. rewrite Cm, HTif.
      destruct (Nat.eqb_spec tb' tb) as [->|E1]; destruct (Nat.eqb_spec b' b) as [->|E2]; cbn [andb];
        first [apply Hpl | apply K11; exact Htb'].
    - intros tb' b'. rewrite HTif. destruct (Nat.eqb tb' tb && Nat.eqb b' b); [exact Hnd|apply K12].
    - intros b1 b2 x y. rewrite !HTif. destruct tb as [|[|tb]]; [| |lia]; cbn [Nat.eqb andb].
      + destruct (Nat.eqb_spec b1 b) as [->|E]; [|apply K13]. intros Hx Hy. eapply (Hcr x y b2); eauto.
      + destruct (Nat.eqb_spec b2 b) as [->|E]; [|apply K13]. intros Hx Hy. intros E'. eapply (Hcr y x b1); eauto.
    - intros t0 x. rewrite Hheld, Hhas0, Hall0, !Hclk. destruct (Nat.eq_dec t0 t) as [->|Hne].
      + rewrite fly_same. intros H. destruct (Hfl x H) as (A0 & A1 & A3). split; auto. split; auto.
        intros tb' Htb'. rewrite Cm, HTif. apply A3; auto.
      + rewrite fly_other by exact Hne. intros H. destruct (K14 t0 x H) as (A0 & A1 & A3). split; auto. split; auto.
        eapply Habs_other; eauto. intros tb' Htb'. eapply fly_auth; eauto.
    - intros t0. destruct (Nat.eq_dec t0 t) as [->|Hne]; [now rewrite fly_same|rewrite fly_other by exact Hne; apply K15].
    - intros t0. rewrite Hall0. destruct (Nat.eq_dec t0 t) as [->|Hne]; [rewrite pend_same; auto|rewrite pend_other by exact Hne; apply K16].
    - intros t0. destruct (Nat.eq_dec t0 t) as [->|Hne].
      + rewrite pend_same, fly_same. split; auto. intros x H. destruct (Hpa x H) as [A B]. split; auto.
        intros tb' Htb'. rewrite Cm, HTif. apply A; auto.
      + rewrite pend_other, fly_other by exact Hne. destruct (K17 t0) as [A B]. split; auto.
        intros x H. destruct (B x H) as [B1 B2]. split; auto.
        exfalso. assert (Hp : pend a t0 <> []) by (intros E; rewrite E in H; destruct H).
        pose proof (K16 t0 Hp) as Ha0. destruct Hau as [H0 _]. apply Hne. eapply has0_all0_other; eauto.
  Qed.

  (** *** all the items of the tables *)
  Lemma all_items_in g a x : CoreB g a -> (In x (all_items g) <-> exists tb b, tb < 2 /\ In x (T g tb b)).
  Proof.
    intros Hc. destruct (c_len Hc) as (L2 & _). unfold all_items, T, get_bkt.
    destruct (tabs g) as [|t0 [|t1 [|t2 r]]]; cbn in L2; try discriminate. cbn [List.concat]. rewrite app_nil_r, concat_app, in_app_iff, !in_concat_nth.
    split.
    - intros [(b & H)|(b & H)]; [exists 0, b|exists 1, b]; split; auto.
    - intros (tb & b & Htb & H). destruct tb as [|[|tb]]; [left|right|lia]; exists b; exact H.
  Qed.

  Lemma all_items_nodup g a : CoreB g a -> NoDup (keys (all_items g)).
  Proof.
    intros Hc. destruct (c_len Hc) as (L2 & _). unfold all_items.
    pose proof (c_nodup Hc) as Hn. pose proof (c_placed Hc) as Hp. pose proof (c_cross Hc) as Hx. unfold T, get_bkt in *.
    destruct (tabs g) as [|t0 [|t1 [|t2 r]]]; cbn in L2; try discriminate. cbn [List.concat]. rewrite app_nil_r, concat_app, keys_app.
    apply NoDup_app_intro.
    - apply nodup_keys_concat; [apply (Hn 0)|]. intros b b' x y H1 H2 E.
      rewrite <- (Hp 0 b x), <- (Hp 0 b' y) by (auto; lia). unfold hx. now rewrite E.
    - apply nodup_keys_concat; [apply (Hn 1)|]. intros b b' x y H1 H2 E.
      rewrite <- (Hp 1 b x), <- (Hp 1 b' y) by (auto; lia). unfold hx. now rewrite E.
    - intros k Hk Hk'. unfold keys in Hk, Hk'. apply in_map_iff in Hk. apply in_map_iff in Hk'.
      destruct Hk as (x & <- & H1). destruct Hk' as (y & E & H2). apply in_concat_nth in H1, H2.
      destruct H1 as (b & H1). destruct H2 as (b' & H2). eapply (Hx b b' x y); eauto.
  Qed.

  (** *** allocation of the new tables by the exclusive owner *)
  Lemma CoreB_alloc g a t n v' :
    CoreR g (wv a) -> CoreB g a -> all0 (a_view a t) -> fly a t = [] -> pend a t = [] -> 0 < n ->
    same_auth (a_view a t) v' -> v_mask v' = n - 1 -> (forall tb b, v_reg v' tb b = []) ->
    v_fly v' = [] -> v_pend v' = all_items g ->
    CoreB (set_tabs (set_mask g (n - 1)) [repeat [] n; repeat [] n]) (setv a t v').
  Proof.
    intros Hr Hc Hall Hf Hp Hn0 Hsa Hma Hreg Hfl Hpe.
    pose proof Hc as [K0 K8 K9 K10 K11 K12 K13 K14 K15 K16 K17].
    assert (Other : forall t0, t0 <> t -> ~ has0 (a_view a t0)).
    { intros t0 Hne H0. apply Hne. symmetry. eapply has0_all0_other; eauto. }
    pose proof Hsa as (S1 & S2 & S3 & S4).
    assert (Hhas0 : forall t0, has0 (a_view (setv a t v') t0) <-> has0 (a_view a t0)).
    { intros t0. destruct (Nat.eq_dec t0 t) as [->|Hne]; [rewrite setv_same; now apply same_auth_has0|now rewrite setv_other]. }
    assert (Hall0 : forall t0, all0 (a_view (setv a t v') t0) <-> all0 (a_view a t0)).
    { intros t0. destruct (Nat.eq_dec t0 t) as [->|Hne]; [rewrite setv_same; now apply same_auth_all0|now rewrite setv_other]. }
    set (g' := set_tabs (set_mask g (n - 1)) [repeat [] n; repeat [] n]).
    assert (HT : forall tb b, T g' tb b = []) by (intros; unfold T, g'; cbn [tabs set_tabs]; apply get_bkt_empty).
    assert (Hab : forall x, absent g' x) by (intros x tb Htb; rewrite HT; reflexivity).
    constructor.
    - intros t0 H. cbn [cur pcap g' set_tabs set_mask]. destruct (Nat.eq_dec t0 t) as [->|Hne].
      + rewrite setv_same in *. rewrite S4. apply K0. now rewrite <- S3.
      + rewrite setv_other in * by exact Hne. auto.
    - intros t0. rewrite Hhas0. cbn [mask g' set_tabs set_mask]. destruct (Nat.eq_dec t0 t) as [->|Hne].
      + rewrite setv_same. auto.
      + intros H. exfalso. eapply Other; eauto.
    - intros t0 tb b Htb [H0 _]. rewrite HT. destruct (Nat.eq_dec t0 t) as [->|Hne].
      + rewrite setv_same. now rewrite Hreg.
      + apply Hhas0 in H0. exfalso. eapply Other; eauto.
    - cbn [tabs mask g' set_tabs set_mask]. split; [reflexivity|].
      intros tb Htb. destruct tb as [|[|tb]]; cbn [nth]; try lia; rewrite repeat_length; lia.
    - intros tb b x Htb. rewrite HT. intros [].
    - intros tb b. rewrite HT. constructor.
    - intros b b' x y. rewrite HT. intros [].
    - intros t0 x. destruct (Nat.eq_dec t0 t) as [->|Hne].
      + rewrite fly_same, Hfl. intros [].
      + rewrite fly_other by exact Hne. intros H. destruct (K14 t0 x H) as (A0 & _). exfalso. eapply Other; eauto.
    - intros t0. destruct (Nat.eq_dec t0 t) as [->|Hne]; [rewrite fly_same, Hfl; cbn; lia|rewrite fly_other by exact Hne; apply K15].
    - intros t0. rewrite Hall0. destruct (Nat.eq_dec t0 t) as [->|Hne]; [auto|rewrite pend_other by exact Hne; apply K16].
    - intros t0. destruct (Nat.eq_dec t0 t) as [->|Hne].
      + rewrite pend_same, fly_same, Hpe, Hfl. split; [eapply all_items_nodup; eauto|]. intros x _. split; [apply Hab|intros y []].
      + rewrite pend_other, fly_other by exact Hne. destruct (K17 t0) as [A B]. split; auto.
        intros x H. split; auto. apply (B x H).
  Qed.

  (** *** the abstract set *)
  Lemma allp_ext g g' a a' :
    (forall tb b, T g' tb b = T g tb b) -> (forall t, fly a' t = fly a t) -> (forall t, pend a' t = pend a t) ->
    forall x, allp g' a' x <-> allp g a x.
  Proof. intros HT Hf Hp x. unfold allp. setoid_rewrite HT. setoid_rewrite Hf. setoid_rewrite Hp. tauto. Qed.

  Lemma Abs_keep g g' a a' tr tr' :
    Abs g a tr -> tabs g' = tabs g -> a_atr a' = a_atr a ->
    (forall t, v_op (a_view a' t) = v_op (a_view a t) /\ fly a' t = fly a t /\ pend a' t = pend a t) ->
    hist_of tr' = hist_of tr -> (dropped tr -> dropped tr') -> Abs g' a' tr'.
  Proof.
    intros [Hd|(s & st & H1 & H2 & H3 & H4 & H5)] Ct Ha Hv Hh Hdr; [left; auto|right].
    exists s, st. rewrite Ha, Hh. split; auto. split; auto. split; [intros t; rewrite H3; symmetry; apply Hv|]. split; auto.
    intros x. rewrite H5. symmetry. apply allp_ext.
    - intros. unfold T. now rewrite Ct.
    - intros t. apply Hv.
    - intros t. apply Hv.
  Qed.

  Lemma allp_table g g' a t v' tb b new :
    CoreB g a -> tabs g' = set_bkt (tabs g) tb b new -> tb < 2 -> b < S (mask g) ->
    forall x, allp g' (setv a t v') x <->
      In x new \/ (exists tb' b', tb' < 2 /\ (tb', b') <> (tb, b) /\ In x (T g tb' b')) \/
      In x (v_fly v') \/ (exists t0, t0 <> t /\ In x (fly a t0)) \/
      In x (v_pend v') \/ (exists t0, t0 <> t /\ In x (pend a t0)).
  Proof.
    intros Hc Ct Htb Hb x. destruct (c_len Hc) as (Len2 & LenT).
    assert (HTs : T g' tb b = new) by (unfold T; rewrite Ct; apply get_set_bkt_same; [lia|rewrite LenT; auto]).
    assert (HTo : forall tb' b', (tb', b') <> (tb, b) -> T g' tb' b' = T g tb' b') by (intros; unfold T; rewrite Ct; now apply get_set_bkt_other).
    unfold allp. split.
    - intros [(tb' & b' & H1 & H2)|[(t0 & H)|(t0 & H)]].
      + destruct (Nat.eq_dec tb' tb) as [->|E1]; [destruct (Nat.eq_dec b' b) as [->|E2]|].
        * left. now rewrite HTs in H2.
        * right. left. exists tb, b'. rewrite HTo in H2 by congruence. split; auto. split; [congruence|auto].
        * right. left. exists tb', b'. rewrite HTo in H2 by congruence. split; auto. split; [congruence|auto].
      + destruct (Nat.eq_dec t0 t) as [->|Hne]; [rewrite fly_same in H; tauto|rewrite fly_other in H by exact Hne]. right; right; right; left; eauto.
      + destruct (Nat.eq_dec t0 t) as [->|Hne]; [rewrite pend_same in H; tauto|rewrite pend_other in H by exact Hne]. right; right; right; right; right; eauto.
    - intros [H|[(tb' & b' & H1 & H2 & H3)|[H|[(t0 & Hne & H)|[H|(t0 & Hne & H)]]]]].
      + left. exists tb, b. rewrite HTs. auto.
      + left. exists tb', b'. rewrite HTo by exact H2. auto.
      + right. left. exists t. now rewrite fly_same.
      + right. left. exists t0. now rewrite fly_other.
      + right. right. exists t. now rewrite pend_same.
      + right. right. exists t0. now rewrite pend_other.
  Qed.

  Lemma allp_split g a t tb b : tb < 2 ->
    forall x, allp g a x <->
      In x (T g tb b) \/ (exists tb' b', tb' < 2 /\ (tb', b') <> (tb, b) /\ In x (T g tb' b')) \/
      In x (fly a t) \/ (exists t0, t0 <> t /\ In x (fly a t0)) \/
      In x (pend a t) \/ (exists t0, t0 <> t /\ In x (pend a t0)).
  Proof.
    intros Htb x. unfold allp. split.
    - intros [(tb' & b' & H1 & H2)|[(t0 & H)|(t0 & H)]].
      + destruct (Nat.eq_dec tb' tb) as [->|E1]; [destruct (Nat.eq_dec b' b) as [->|E2]|].
        * now left.
        * right. left. exists tb, b'. split; auto. split; [congruence|auto].
        * right. left. exists tb', b'. split; auto. split; [congruence|auto].
      + destruct (Nat.eq_dec t0 t) as [->|Hne]; [tauto|]. right; right; right; left; eauto.
      + destruct (Nat.eq_dec t0 t) as [->|Hne]; [tauto|]. right; right; right; right; right; eauto.
    - intros [H|[(tb' & b' & H1 & H2 & H3)|[H|[(t0 & Hne & H)|[H|(t0 & Hne & H)]]]]]; eauto 6.
  Qed.

  Lemma allp_move g g' a t v' tb b new :
    CoreB g a -> tabs g' = set_bkt (tabs g) tb b new -> tb < 2 -> b < S (mask g) ->
    (forall x, In x new \/ In x (v_fly v') \/ In x (v_pend v') <-> In x (T g tb b) \/ In x (fly a t) \/ In x (pend a t)) ->
    forall x, allp g' (setv a t v') x <-> allp g a x.
  Proof.
    intros Hc Ct Htb Hb Hmv x. rewrite (allp_table g g' a t v' tb b new Hc Ct Htb Hb x), (allp_split g a t tb b Htb x).
    specialize (Hmv x). tauto.
  Qed.

  (** the thread forgets some of its in-flight / pending items, or changes the status of its operation *)
  Lemma CoreB_fp g a t v' :
    CoreB g a -> same_auth (a_view a t) v' -> v_mask v' = v_mask (a_view a t) ->
    (forall tb b, v_reg v' tb b = v_reg (a_view a t) tb b) ->
    (forall y, In y (v_fly v') -> In y (fly a t)) -> length (v_fly v') <= 1 ->
    (forall y, In y (v_pend v') -> In y (pend a t)) -> NoDup (keys (v_pend v')) ->
    CoreB g (setv a t v').
  Proof.
    intros Hc Hsa V3 V4 Hf Hf1 Hp Hpn.
    pose proof Hc as [K0 K8 K9 K10 K11 K12 K13 K14 K15 K16 K17].
    pose proof Hsa as (S1 & S2 & S3 & S4).
    assert (Hheld : forall t0, held (setv a t v') t0 = held a t0).
    { intros t0. destruct (Nat.eq_dec t0 t) as [->|Hne]; [rewrite held_same; exact S1|now rewrite held_other]. }
    assert (Hhas0 : forall t0, has0 (a_view (setv a t v') t0) <-> has0 (a_view a t0)).
    { intros t0. destruct (Nat.eq_dec t0 t) as [->|Hne]; [rewrite setv_same; now apply same_auth_has0|now rewrite setv_other]. }
    assert (Hall0 : forall t0, all0 (a_view (setv a t v') t0) <-> all0 (a_view a t0)).
    { intros t0. destruct (Nat.eq_dec t0 t) as [->|Hne]; [rewrite setv_same; now apply same_auth_all0|now rewrite setv_other]. }
    assert (Hauth : forall t0 tb' b', auth (a_view (setv a t v') t0) tb' b' <-> auth (a_view a t0) tb' b').
    { intros t0 tb' b'. destruct (Nat.eq_dec t0 t) as [->|Hne]; [rewrite setv_same; now apply same_auth_auth|now rewrite setv_other]. }
    assert (Hclk : forall t0 tb' h, clk (a_view (setv a t v') t0) tb' h = clk (a_view a t0) tb' h).
    { intros t0 tb' h. destruct (Nat.eq_dec t0 t) as [->|Hne]; [rewrite setv_same; unfold clk; now rewrite S4|now rewrite setv_other]. }
    constructor.
    - intros t0 H. destruct (Nat.eq_dec t0 t) as [->|Hne].
      + rewrite setv_same in *. rewrite S4. apply K0. now rewrite <- S3.
      + rewrite setv_other in * by exact Hne. auto.
    - intros t0. rewrite Hhas0. destruct (Nat.eq_dec t0 t) as [->|Hne]; [rewrite setv_same, V3|rewrite setv_other by exact Hne]; apply K8.
    - intros t0 tb b Htb. rewrite Hauth. destruct (Nat.eq_dec t0 t) as [->|Hne]; [rewrite setv_same, V4|rewrite setv_other by exact Hne]; apply K9; auto.
    - exact K10.
    - exact K11.
    - exact K12.
    - exact K13.
    - intros t0 x. rewrite Hheld, Hhas0, Hall0, !Hclk. destruct (Nat.eq_dec t0 t) as [->|Hne].
      + rewrite fly_same. intros H. apply K14. auto.
      + rewrite fly_other by exact Hne. apply K14.
    - intros t0. destruct (Nat.eq_dec t0 t) as [->|Hne]; [now rewrite fly_same|rewrite fly_other by exact Hne; apply K15].
    - intros t0. rewrite Hall0. destruct (Nat.eq_dec t0 t) as [->|Hne].
      + rewrite pend_same. intros H. apply K16. intros E. destruct (v_pend v') as [|y r]; [congruence|].
        specialize (Hp y ltac:(now left)). rewrite E in Hp. destruct Hp.
      + rewrite pend_other by exact Hne. apply K16.
    - intros t0. destruct (Nat.eq_dec t0 t) as [->|Hne].
      + rewrite pend_same, fly_same. split; auto. intros x H. destruct (K17 t) as [_ B]. destruct (B x (Hp x H)) as [B1 B2]. split; auto.
      + rewrite pend_other, fly_other by exact Hne. apply K17.
  Qed.

End FInv.

Arguments b_gs {cf g a}. Arguments c_mask {cf g a}. Arguments c_reg {cf g a}. Arguments c_len {cf g a}.
Arguments c_placed {cf g a}. Arguments c_nodup {cf g a}. Arguments c_cross {cf g a}. Arguments c_fly {cf g a}. Arguments c_fly1 {cf g a}.
Arguments c_pend {cf g a}. Arguments c_pend2 {cf g a}.
