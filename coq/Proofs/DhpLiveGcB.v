(** * DhpLiveGcB: C02, second sentence for DHP, from the hazard cell to the client's Guard object.  Part B: what the
      event properties [PhiG] (proved) and [PhiD] (the allocator discipline, assumed) give for the summaries of a
      trace: the record a thread believes it is attached to is the one the history says ([k_at], [k_ta]); the cell of
      every Guard is a cell of the thread's attached record ([k_cd]); no cell is held by two Guards ([k_inj]). *)
From Coq Require Import ZArith NArith List String Bool Lia PeanoNat.
From LV Require Import Base.Conc Base.Events Model.DhpLang Model.Dhp Proofs.DhpBase Proofs.DhpHist
  Proofs.DhpLiveA Proofs.DhpLiveB Proofs.DhpLiveGcA.
Import ListNotations.
Local Open Scope string_scope.
Local Open Scope list_scope.

Record K (c : cfg) (st : GS) (h : H) : Prop := {
  k_at : forall u r, gtl st u = Some r -> exists k, att h r = Some (u, k);
  k_ta : forall u r k, att h r = Some (u, k) -> gtl st u = Some r;
  k_cd : forall u j s, gfind (gmp st u) j = Some s -> ownc c h u s;
  k_inj : forall u j u' j' s, gfind (gmp st u) j = Some s -> gfind (gmp st u') j' = Some s -> u = u' /\ j = j' }.

Lemma K_mono c st st' h h' :
  (forall r, att h' r = att h r) -> (forall r x, In x (linked h r) -> In x (linked h' r)) ->
  gtl st' = gtl st -> (forall u j s, gfind (gmp st' u) j = Some s -> gfind (gmp st u) j = Some s) ->
  K c st h -> K c st' h'.
Proof.
  intros Ha Hl Ht Hm [K1 K2 K3 K4]. constructor.
  - intros u r. rewrite Ht, Ha. apply K1.
  - intros u r k. rewrite Ht, Ha. apply K2.
  - intros u j s Hf. specialize (K3 u j s (Hm _ _ _ Hf)). destruct s as [r i|b i]; cbn in *.
    + destruct K3 as ((k & A) & B). split; [exists k; now rewrite Ha|exact B].
    + destruct K3 as ((r & k & kb & A & A2) & B). split; [exists r, k, kb; rewrite Ha; auto|exact B].
  - intros u j u' j' s H1 H2. eapply K4; eauto.
Qed.

Lemma att_quiet h u e r : (forall r', classify e <> HAtt r') -> (forall r', classify e <> HDet r') ->
  att (hstep h (u, e)) r = att h r.
Proof. intros A B. rewrite att_hstep. cbn [snd]. destruct (classify e); try reflexivity; [now destruct (A r0)|now destruct (B r0)]. Qed.
Lemma linked_quiet h u e r : (forall r', classify e <> HAtt r') -> (forall r', classify e <> HDet r') ->
  (forall r' b, classify e <> HLink r' b) -> linked (hstep h (u, e)) r = linked h r.
Proof.
  intros A B C. rewrite linked_hstep. cbn [snd].
  destruct (classify e); try reflexivity; [now destruct (A r0)|now destruct (B r0)|now destruct (C r0 b)].
Qed.

Lemma gfind_cons j0 s0 m j : gfind ((j0, s0) :: m) j = if Nat.eqb j0 j then Some s0 else gfind m j.
Proof. reflexivity. Qed.

Lemma gfind_drop_of args m j s : gfind (drop_of args m) j = Some s -> gfind m j = Some s.
Proof.
  unfold drop_of. destruct args as [|z [|z2 [|z3 l]]]; auto;
    (destruct z as [|p|p]; auto; destruct p as [p|p|]; auto; destruct p as [p|p|]; auto; destruct p; auto).
  intros H. now apply gfind_gdrop_some in H.
Qed.

Lemma K_step c st h u e : K c st h -> PhiG st u e -> PhiD c st h u e -> K c (gstep st (u, e)) (hstep h (u, e)).
Proof.
  intros HK (P1 & P2 & P3 & P4 & P5 & P6) (D1 & D2). pose proof (gcls_classify e) as GC.
  assert (Q : (forall r, classify e <> HAtt r) /\ (forall r, classify e <> HDet r) /\ (forall r b, classify e <> HLink r b) /\
              (forall s x, classify e <> HSlot s x) ->
              gtl (gstep st (u, e)) = gtl st ->
              (forall u' j s, gfind (gmp (gstep st (u, e)) u') j = Some s -> gfind (gmp st u') j = Some s) ->
              K c (gstep st (u, e)) (hstep h (u, e))).
  { intros (A & B & C & _) Ht Hm. eapply K_mono; [| | | |exact HK]; auto.
    - intros r. now apply att_quiet.
    - intros r x. now rewrite linked_quiet. }
  unfold gstep in *. cbn [fst snd] in *.
  destruct (gcls e) as [args|args| |s x|r0|r0| |s0|b| |] eqn:Eg; cbn [gtl gmp] in *.
  - (* op *) apply Q; auto.
  - (* ret *) apply Q; auto. intros u' j s. unfold fnu. destruct (Nat.eqb_spec u' u) as [->|N]; [|auto].
    apply gfind_drop_of.
  - (* slot access *) apply Q; auto.
  - (* slot store *) eapply K_mono; [| | | |exact HK]; auto.
    + intros r. rewrite att_hstep. cbn [snd]. now rewrite GC.
    + intros r y. rewrite linked_hstep. cbn [snd]. now rewrite GC.
  - (* att *)
    destruct (P3 r0 eq_refl) as (T0 & Tn). destruct HK as [K1 K2 K3 K4].
    assert (Ha : forall r, att (hstep h (u, e)) r = if Nat.eqb r r0 then Some (u, hlen h) else att h r).
    { intros r. rewrite att_hstep. cbn [snd fst]. now rewrite GC. }
    assert (Hl : forall r, r <> r0 -> linked (hstep h (u, e)) r = linked h r).
    { intros r N. rewrite linked_hstep. cbn [snd]. rewrite GC. destruct (Nat.eqb_spec r r0); [contradiction|reflexivity]. }
    constructor; cbn [gtl gmp].
    + intros u' r. unfold fnu. rewrite Ha. destruct (Nat.eqb_spec u' u) as [->|N].
      * intros E; injection E as <-. rewrite Nat.eqb_refl. eauto.
      * intros E. destruct (Nat.eqb_spec r r0) as [->|N2]; [now destruct (Tn u')|now apply K1].
    + intros u' r k. rewrite Ha. unfold fnu. destruct (Nat.eqb_spec r r0) as [->|N].
      * intros E; injection E as <- _. now rewrite Nat.eqb_refl.
      * intros E. pose proof (K2 _ _ _ E) as E2. destruct (Nat.eqb_spec u' u) as [->|N2]; [congruence|exact E2].
    + intros u' j s Hf. specialize (K3 u' j s Hf). destruct s as [r i|b i]; cbn in *.
      * destruct K3 as ((k & A) & B). split; [|exact B]. exists k. rewrite Ha.
        destruct (Nat.eqb_spec r r0) as [->|N]; [|exact A]. exfalso. apply (Tn u'). eapply K2; eauto.
      * destruct K3 as ((r & k & kb & A & A2) & B). split; [|exact B]. exists r, k, kb.
        assert (N : r <> r0) by (intros ->; apply (Tn u'); eapply K2; eauto).
        rewrite Ha, Hl by exact N. destruct (Nat.eqb_spec r r0); [contradiction|auto].
    + exact K4.
  - (* det *)
    destruct (P2 r0 eq_refl) as (T0 & _ & Tm). destruct HK as [K1 K2 K3 K4].
    assert (Ha : forall r, att (hstep h (u, e)) r = if Nat.eqb r r0 then None else att h r).
    { intros r. rewrite att_hstep. cbn [snd fst]. now rewrite GC. }
    assert (Hl : forall r, r <> r0 -> linked (hstep h (u, e)) r = linked h r).
    { intros r N. rewrite linked_hstep. cbn [snd]. rewrite GC. destruct (Nat.eqb_spec r r0); [contradiction|reflexivity]. }
    destruct (K1 _ _ T0) as (k0 & A0).
    constructor; cbn [gtl gmp].
    + intros u' r. unfold fnu. rewrite Ha. destruct (Nat.eqb_spec u' u) as [->|N]; [discriminate|].
      intros E. destruct (K1 _ _ E) as (k & A). destruct (Nat.eqb_spec r r0) as [->|N2]; [congruence|eauto].
    + intros u' r k. rewrite Ha. unfold fnu. destruct (Nat.eqb_spec r r0) as [->|N]; [discriminate|].
      intros E. pose proof (K2 _ _ _ E) as E2. destruct (Nat.eqb_spec u' u) as [->|N2]; [congruence|exact E2].
    + intros u' j s Hf. assert (Nu : u' <> u) by (intros ->; rewrite Tm in Hf; discriminate).
      specialize (K3 u' j s Hf). destruct s as [r i|b i]; cbn in *.
      * destruct K3 as ((k & A) & B). split; [|exact B]. exists k. rewrite Ha.
        destruct (Nat.eqb_spec r r0) as [->|N]; [congruence|exact A].
      * destruct K3 as ((r & k & kb & A & A2) & B). split; [|exact B]. exists r, k, kb.
        assert (N : r <> r0) by (intros ->; congruence).
        rewrite Ha, Hl by exact N. destruct (Nat.eqb_spec r r0); [contradiction|auto].
    + exact K4.
  - (* relall *) apply Q; auto. intros u' j s. unfold fnu. destruct (Nat.eqb_spec u' u) as [->|N]; [discriminate|auto].
  - (* own *)
    destruct (P4 s0 eq_refl) as (j0 & Eo & Ef). destruct (D1 s0 eq_refl) as (Oc & Fr).
    destruct GC as (A & B & C & _). destruct HK as [K1 K2 K3 K4].
    assert (Hown : own_of (gop st u) s0 (gmp st u) = (j0, s0) :: gmp st u).
    { rewrite Eo. cbn. unfold zn. now rewrite Nat2Z.id. }
    assert (Ho : forall u' s, ownc c h u' s -> ownc c (hstep h (u, e)) u' s).
    { intros u' [r i|b i]; cbn [ownc].
      - intros ((k & X) & Y). split; [exists k; now rewrite att_quiet|exact Y].
      - intros ((r & k & kb & X & X2) & Y). split; [exists r, k, kb; rewrite att_quiet, linked_quiet; auto|exact Y]. }
    constructor; cbn [gtl gmp].
    + intros u' r E. destruct (K1 _ _ E) as (k & X). exists k. now rewrite att_quiet.
    + intros u' r k. rewrite att_quiet by auto. apply K2.
    + intros u' j s. unfold fnu. destruct (Nat.eqb_spec u' u) as [->|N]; [|intros Hf; apply Ho; eauto].
      rewrite Hown, gfind_cons. destruct (Nat.eqb_spec j0 j) as [->|N2]; [intros E; inversion E; subst; now apply Ho|].
      intros Hf; apply Ho; eauto.
    + intros u1 j1 u2 j2 s. unfold fnu.
      destruct (Nat.eqb_spec u1 u) as [->|N1]; destruct (Nat.eqb_spec u2 u) as [->|N2]; rewrite ?Hown, ?gfind_cons.
      * destruct (Nat.eqb_spec j0 j1) as [Q1|M1]; destruct (Nat.eqb_spec j0 j2) as [Q2|M2].
        -- intros _ _. split; [reflexivity|congruence].
        -- intros E1 E2. inversion E1; subst s. now destruct (Fr u j2).
        -- intros E1 E2. inversion E2; subst s. now destruct (Fr u j1).
        -- intros E1 E2. eapply K4; eauto.
      * destruct (Nat.eqb_spec j0 j1) as [Q1|M1].
        -- intros E1 E2. inversion E1; subst s. now destruct (Fr u2 j2).
        -- intros E1 E2. eapply K4; eauto.
      * destruct (Nat.eqb_spec j0 j2) as [Q1|M1].
        -- intros E1 E2. inversion E2; subst s. now destruct (Fr u1 j1).
        -- intros E1 E2. eapply K4; eauto.
      * intros E1 E2. eapply K4; eauto.
  - (* block taken *) apply Q; auto.
  - (* link *)
    destruct GC as (r1 & b1 & Ec). eapply K_mono; [| | | |exact HK]; auto.
    + intros r. rewrite att_hstep. cbn [snd]. now rewrite Ec.
    + intros r y Hy. rewrite linked_hstep. cbn [snd]. rewrite Ec. destruct (Nat.eqb r r1); [now right|exact Hy].
  - apply Q; auto.
Qed.

Lemma K_init c : K c gs0 h0.
Proof. constructor; cbn; intros; discriminate. Qed.

Lemma K_good c tr : TPropG tr -> cell_disc c tr -> K c (gfold tr) (hist tr).
Proof.
  induction tr as [|[u e] tr IH] using rev_ind; intros HT HD; [apply K_init|].
  rewrite gfold_snoc, hist_snoc. apply K_step.
  - apply IH; [eapply TPropG_prefix; eauto|eapply cell_disc_prefix; eauto].
  - now apply TPropG_last.
  - now apply cell_disc_last.
Qed.

(** indices recorded in the history summary lie inside the trace *)
Lemma att_lt tr r u k : att (hist tr) r = Some (u, k) -> k < List.length tr.
Proof.
  induction tr as [|[u0 e] tr IH] using rev_ind; [discriminate|]. rewrite hist_snoc, att_hstep, app_length. cbn [snd fst List.length].
  destruct (classify e); try (intros H; specialize (IH H); lia).
  - destruct (Nat.eqb r r0); [intros H; inversion H; rewrite hlen_hist; lia|intros H; specialize (IH H); lia].
  - destruct (Nat.eqb r r0); [discriminate|intros H; specialize (IH H); lia].
Qed.
Lemma linked_lt tr r b k : In (b, k) (linked (hist tr) r) -> k < List.length tr.
Proof.
  induction tr as [|[u0 e] tr IH] using rev_ind; [intros []|]. rewrite hist_snoc, linked_hstep, app_length. cbn [snd fst List.length].
  destruct (classify e); try (intros H; specialize (IH H); lia).
  - destruct (Nat.eqb r r0); [intros []|intros H; specialize (IH H); lia].
  - destruct (Nat.eqb r r0); [intros []|intros H; specialize (IH H); lia].
  - destruct (Nat.eqb r r0); [intros [H|H]; [inversion H; rewrite hlen_hist; lia|specialize (IH H); lia]|intros H; specialize (IH H); lia].
Qed.
