(** * DhpLiveGcA: C02, second sentence for DHP, from the hazard cell to the client's Guard object.  Part A: a third
      summary of the trace ([gfold]): per thread its current operation [gop] (empty between operations), the record it
      is attached to according to its own "_att"/"_det" events [gtl], the table Guard index -> hazard cell according to
      its "_own" events and its completed ~Guard() operations [gmp], the guard block it took from the allocator and
      has not linked yet [gpv], and its last store to a hazard cell within the current operation [gsl] ([gac]: whether it made such a store at all).
      [PhiG]: what every event of a trace of the model satisfies, given the summary of the trace before it (proved for
      all programs in DhpLiveGcC).  [PhiD] / [cell_disc]: the discipline of thread_hp_storage and hp_allocator, a
      property of the trace (proved for every reachable trace in DhpLiveGxE .. GxP: [dhp_cell_disc]). *)
From Coq Require Import ZArith NArith List String Bool Lia PeanoNat.
From LV Require Import Base.Conc Base.Events Model.DhpLang Model.Dhp Proofs.DhpBase Proofs.DhpHist
  Proofs.DhpLiveA Proofs.DhpLiveB.
Import ListNotations.
Local Open Scope string_scope.
Local Open Scope list_scope.

Inductive gev :=
| GOp (args : list Z) | GRet (args : list Z) | GSlotAcc | GSlot (s : gref) (x : nat)
| GAtt (r : nat) | GDet (r : nat) | GRelall | GOwn (s : gref) | GPv (b : nat) | GLink | GNone.

Definition gcls (e : ev) : gev :=
  match e with
  | EvAcc KSt (1%Z :: _) _ => GSlotAcc
  | EvAcc KSt (2%Z :: _) _ => GSlotAcc
  | EvAcc _ _ _ => GNone
  | EvCli name args =>
      if String.eqb name "op" then GOp args
      else if String.eqb name "ret" then GRet args
      else if String.eqb name "_relall" then GRelall
      else if String.eqb name "_own" then match args with [k; a; i] => GOwn (zgref k a i) | _ => GNone end
      else match classify e with
           | HSlot s x => GSlot s x | HAtt r => GAtt r | HDet r => GDet r | HLink _ _ => GLink
           | HAlloc FHp b => GPv b | HNew FHp b => GPv b
           | _ => GNone
           end
  end.

Record GS := mkGS {
  glen : nat;
  gop : nat -> list Z;
  gtl : nat -> option nat;
  gmp : nat -> list (nat * gref);
  gpv : nat -> option nat;
  gsl : nat -> option (nat * gref);
  gac : nat -> bool }.

Definition gs0 : GS := mkGS 0 (fun _ => []) (fun _ => None) (fun _ => []) (fun _ => None) (fun _ => None) (fun _ => false).

Definition drop_of (args : list Z) (m : list (nat * gref)) : list (nat * gref) :=
  match args with [4%Z; j] => gdrop m (Z.to_nat j) | _ => m end.
Definition own_of (args : list Z) (s : gref) (m : list (nat * gref)) : list (nat * gref) :=
  match args with [3%Z; j] => (Z.to_nat j, s) :: m | _ => m end.

Definition gstep (st : GS) (te : nat * ev) : GS :=
  let t := fst te in
  let n := glen st in
  match gcls (snd te) with
  | GOp args => mkGS (Datatypes.S n) (fnu (gop st) t args) (gtl st) (gmp st) (gpv st) (fnu (gsl st) t None) (fnu (gac st) t false)
  | GRet _ => mkGS (Datatypes.S n) (fnu (gop st) t []) (gtl st) (fnu (gmp st) t (drop_of (gop st t) (gmp st t))) (gpv st) (gsl st) (gac st)
  | GSlotAcc => mkGS (Datatypes.S n) (gop st) (gtl st) (gmp st) (gpv st) (fnu (gsl st) t None) (fnu (gac st) t true)
  | GSlot s x => mkGS (Datatypes.S n) (gop st) (gtl st) (gmp st) (gpv st) (fnu (gsl st) t (Some (n, s))) (gac st)
  | GAtt r => mkGS (Datatypes.S n) (gop st) (fnu (gtl st) t (Some r)) (gmp st) (gpv st) (gsl st) (gac st)
  | GDet r => mkGS (Datatypes.S n) (gop st) (fnu (gtl st) t None) (gmp st) (gpv st) (gsl st) (gac st)
  | GRelall => mkGS (Datatypes.S n) (gop st) (gtl st) (fnu (gmp st) t []) (gpv st) (gsl st) (gac st)
  | GOwn s => mkGS (Datatypes.S n) (gop st) (gtl st) (fnu (gmp st) t (own_of (gop st t) s (gmp st t))) (gpv st) (gsl st) (gac st)
  | GPv b => mkGS (Datatypes.S n) (gop st) (gtl st) (gmp st) (fnu (gpv st) t (Some b)) (gsl st) (gac st)
  | GLink => mkGS (Datatypes.S n) (gop st) (gtl st) (gmp st) (fnu (gpv st) t None) (gsl st) (gac st)
  | GNone => mkGS (Datatypes.S n) (gop st) (gtl st) (gmp st) (gpv st) (gsl st) (gac st)
  end.

Definition gfold (tr : list (nat * ev)) : GS := fold_left gstep tr gs0.

Lemma gfold_app tr tr' : gfold (tr ++ tr') = fold_left gstep tr' (gfold tr).
Proof. unfold gfold. apply fold_left_app. Qed.
Lemma gfold_snoc tr e : gfold (tr ++ [e]) = gstep (gfold tr) e.
Proof. now rewrite gfold_app. Qed.
Lemma glen_gstep st e : glen (gstep st e) = Datatypes.S (glen st).
Proof. unfold gstep. destruct (gcls (snd e)); reflexivity. Qed.
Lemma glen_gfold tr : glen (gfold tr) = List.length tr.
Proof.
  induction tr as [|e tr IH] using rev_ind; [reflexivity|]. rewrite gfold_snoc, glen_gstep, IH, app_length. cbn. lia.
Qed.
Lemma gfold_firstn_S tr i te : nth_error tr i = Some te -> gfold (firstn (Datatypes.S i) tr) = gstep (gfold (firstn i tr)) te.
Proof. intros H. rewrite (firstn_S_snoc tr i te H). apply gfold_snoc. Qed.
Lemma glen_firstn tr i : i <= List.length tr -> glen (gfold (firstn i tr)) = i.
Proof. intros H. rewrite glen_gfold, firstn_length. lia. Qed.

(** ** the per-thread part *)
Record VG := mkVG { w_op : list Z; w_tl : option nat; w_mp : list (nat * gref); w_pv : option nat; w_sl : option (nat * gref); w_ac : bool }.
Definition viewG (a : GS) (t : nat) : VG := mkVG (gop a t) (gtl a t) (gmp a t) (gpv a t) (gsl a t) (gac a t).

Lemma viewG_gstep_other st t e t' : t' <> t -> viewG (gstep st (t, e)) t' = viewG st t'.
Proof.
  intros N. unfold gstep, viewG. cbn [fst snd]. destruct (gcls e); cbn; rewrite ?fnu_other by exact N; reflexivity.
Qed.
Lemma viewG_fold_other t es t' : t' <> t -> forall st, viewG (fold_left gstep (Conc.tag t es) st) t' = viewG st t'.
Proof.
  intros N. induction es as [|e es IH]; intros st; [reflexivity|].
  change (Conc.tag t (e :: es)) with ((t, e) :: Conc.tag t es). cbn [fold_left]. rewrite IH. now apply viewG_gstep_other.
Qed.
Lemma frameG_fold t es a : Conc.frame viewG t a (fold_left gstep (Conc.tag t es) a).
Proof. intros t' N. now apply viewG_fold_other. Qed.

(** [gtl] of the other threads *)
Lemma gtl_gstep_other st t e t' : t' <> t -> gtl (gstep st (t, e)) t' = gtl st t'.
Proof. intros N. change (w_tl (viewG (gstep st (t, e)) t') = w_tl (viewG st t')). now rewrite viewG_gstep_other. Qed.

(** ** how the two classifications agree *)
Lemma gcls_acc_cases k o b : gcls (EvAcc k o b) = GSlotAcc \/ gcls (EvAcc k o b) = GNone.
Proof.
  unfold gcls. destruct k; auto. destruct o as [|z o]; auto. destruct z as [|p|p]; auto.
  destruct p as [q|q|]; auto; destruct q; auto.
Qed.

Lemma gcls_classify e :
  match gcls e with
  | GSlot s x => classify e = HSlot s x
  | GAtt r => classify e = HAtt r
  | GDet r => classify e = HDet r
  | GLink => exists r b, classify e = HLink r b
  | _ => (forall r, classify e <> HAtt r) /\ (forall r, classify e <> HDet r) /\ (forall r b, classify e <> HLink r b) /\
         (forall s x, classify e <> HSlot s x)
  end.
Proof.
  destruct e as [k o b|name args].
  - cbn [classify]. destruct (gcls_acc_cases k o b) as [-> | ->]; repeat split; intros; congruence.
  - unfold gcls. destruct (String.eqb_spec name "op") as [->|N1]; [cbn; repeat split; intros; congruence|].
    destruct (String.eqb_spec name "ret") as [->|N2]; [cbn; repeat split; intros; congruence|].
    destruct (String.eqb_spec name "_relall") as [->|N3]; [cbn; repeat split; intros; congruence|].
    destruct (String.eqb_spec name "_own") as [->|N4].
    { destruct args as [|k [|a [|i [|? ?]]]]; cbn; repeat split; intros; congruence. }
    destruct (classify (EvCli name args)) as [| | |r b|f b|f b| | | | |]; eauto; try (repeat split; intros; congruence);
      destruct f; repeat split; intros; congruence.
Qed.

Lemma gcls_slot s v : gcls (ev_slot s v) = GSlot s v.
Proof.
  unfold gcls. change (ev_slot s v) with (EvCli "_slot" (gref_z s ++ [zn v])) at 1.
  cbn [String.eqb Ascii.eqb Bool.eqb]. now rewrite classify_slot.
Qed.
Lemma gcls_acc_slot s : gcls (EvAcc KSt (obj_slot s) true) = GSlotAcc.
Proof. destruct s; reflexivity. Qed.
Lemma gcls_att r : gcls (ev_att r) = GAtt r.
Proof. unfold gcls. change (ev_att r) with (EvCli "_att" [zn r]) at 1. cbn [String.eqb Ascii.eqb Bool.eqb]. now rewrite classify_att. Qed.
Lemma gcls_det r : gcls (ev_det r) = GDet r.
Proof. unfold gcls. change (ev_det r) with (EvCli "_det" [zn r]) at 1. cbn [String.eqb Ascii.eqb Bool.eqb]. now rewrite classify_det. Qed.
Lemma gcls_link r b : gcls (ev_link r b) = GLink.
Proof. unfold gcls. change (ev_link r b) with (EvCli "_link" [zn r; zn b]) at 1. cbn [String.eqb Ascii.eqb Bool.eqb]. now rewrite classify_link. Qed.
Lemma gcls_own s : gcls (ev_own s) = GOwn s.
Proof. destruct s; cbn; unfold zgref, zn; cbn; now rewrite !Nat2Z.id. Qed.
Lemma gcls_relall : gcls ev_relall = GRelall.
Proof. reflexivity. Qed.
Lemma gcls_alloc_hp b : gcls (ev_alloc FHp b) = GPv b.
Proof. cbn. unfold zn. now rewrite Nat2Z.id. Qed.
Lemma gcls_new_hp b : gcls (ev_new FHp b) = GPv b.
Proof. cbn. unfold zn. now rewrite Nat2Z.id. Qed.
Lemma gcls_op args : gcls (EvCli "op" args) = GOp args. Proof. reflexivity. Qed.
Lemma gcls_ret args : gcls (EvCli "ret" args) = GRet args. Proof. reflexivity. Qed.

(** ** what every event satisfies, given the summary of the trace before it *)
(** a store to hazard cell [s] by thread [u] is made: in an operation on a Guard whose cell is [s]; or by detach into the
    initial array of the thread's own record; or, inside Guard(), into the block just taken from the allocator *)
Definition guard_code (code : Z) : Prop := code = 4%Z \/ code = 5%Z \/ code = 6%Z \/ code = 7%Z.
Definition J (st : GS) (u : nat) (s : gref) : Prop :=
  (exists code j rest, gop st u = code :: zn j :: rest /\ guard_code code /\ gfind (gmp st u) j = Some s) \/
  (gop st u = [2%Z] /\ exists r i, s = GI r i /\ gtl st u = Some r) \/
  (exists b i j, s = GE b i /\ gpv st u = Some b /\ gop st u = [3%Z; zn j]).

Definition PhiG (st : GS) (u : nat) (e : ev) : Prop :=
  (forall s x, gcls e = GSlot s x -> J st u s) /\
  (forall r, gcls e = GDet r -> gtl st u = Some r /\ gop st u = [2%Z] /\ gmp st u = []) /\
  (forall r, gcls e = GAtt r -> gtl st u = None /\ forall t', gtl st t' <> Some r) /\
  (forall s, gcls e = GOwn s -> exists j, gop st u = [3%Z; zn j] /\ gfind (gmp st u) j = None) /\
  (gcls e = GRelall -> gop st u = [2%Z]) /\
  (forall args, gcls e = GRet args -> gop st u <> [] /\
     forall j k, gop st u = [7%Z; zn j; zn k] -> exists s n, gfind (gmp st u) j = Some s /\ gsl st u = Some (n, s)) /\
  (forall args, gcls e = GOp args -> Forall (fun z => (0 <= z)%Z) args).

Definition TPropG (tr : list (nat * ev)) : Prop :=
  forall m u e, nth_error tr m = Some (u, e) -> PhiG (gfold (firstn m tr)) u e.

(** ** the discipline of thread_hp_storage / hp_allocator (proved in DhpLiveGxP, [dhp_cell_disc]): a Guard is given a cell of the thread's own
       attached record that no Guard of any thread holds; the cells of a block that is being initialised after it was
       taken from the allocator do not belong to an attached record *)
Definition ownc (c : cfg) (h : H) (u : nat) (s : gref) : Prop :=
  match s with
  | GI r i => (exists k, att h r = Some (u, k)) /\ i < eff_H c
  | GE b i => (exists r k kb, att h r = Some (u, k) /\ In (b, kb) (linked h r)) /\ i < c_GB c
  end.

Definition PhiD (c : cfg) (st : GS) (h : H) (u : nat) (e : ev) : Prop :=
  (forall s, gcls e = GOwn s -> ownc c h u s /\ forall u' j', gfind (gmp st u') j' <> Some s) /\
  (forall b i x, gcls e = GSlot (GE b i) x -> gpv st u = Some b ->
     forall r t' k kb, att h r = Some (t', k) -> ~ In (b, kb) (linked h r)).

Definition cell_disc (c : cfg) (tr : list (nat * ev)) : Prop :=
  forall m u e, nth_error tr m = Some (u, e) -> PhiD c (gfold (firstn m tr)) (hist (firstn m tr)) u e.

Lemma TPropG_prefix tr es : TPropG (tr ++ es) -> TPropG tr.
Proof.
  intros H m u e Hn. assert (Hm : m < List.length tr) by (apply nth_error_Some; congruence).
  specialize (H m u e). rewrite nth_error_app1, firstn_app_le in H by lia. auto.
Qed.
Lemma cell_disc_prefix c tr es : cell_disc c (tr ++ es) -> cell_disc c tr.
Proof.
  intros H m u e Hn. assert (Hm : m < List.length tr) by (apply nth_error_Some; congruence).
  specialize (H m u e). rewrite nth_error_app1, firstn_app_le in H by lia. auto.
Qed.
Lemma TPropG_last tr u e : TPropG (tr ++ [(u, e)]) -> PhiG (gfold tr) u e.
Proof.
  intros H. specialize (H (List.length tr) u e). rewrite nth_error_app2, Nat.sub_diag, firstn_app_le, firstn_all in H by lia.
  now apply H.
Qed.
Lemma cell_disc_last c tr u e : cell_disc c (tr ++ [(u, e)]) -> PhiD c (gfold tr) (hist tr) u e.
Proof.
  intros H. specialize (H (List.length tr) u e). rewrite nth_error_app2, Nat.sub_diag, firstn_app_le, firstn_all in H by lia.
  now apply H.
Qed.

Lemma TPropG_app tr es : TPropG tr ->
  (forall i t e, nth_error es i = Some (t, e) -> PhiG (gfold (tr ++ firstn i es)) t e) -> TPropG (tr ++ es).
Proof.
  intros H1 H2 v t e Hn. destruct (Nat.lt_ge_cases v (List.length tr)) as [L|L].
  - rewrite nth_error_app1 in Hn by exact L. rewrite firstn_app_le by lia. now apply H1.
  - rewrite nth_error_app2 in Hn by exact L. rewrite firstn_app_ge by exact L. now apply H2.
Qed.

(** ** plain facts about [gfind] / [gdrop] *)
Lemma gfind_gdrop_some m j' j s : gfind (gdrop m j') j = Some s -> gfind m j = Some s /\ j <> j'.
Proof.
  induction m as [|[i x] m IH]; cbn; [discriminate|].
  destruct (Nat.eqb_spec i j') as [->|N].
  - intros H. destruct (IH H) as (A & B). split; [|exact B]. destruct (Nat.eqb_spec j' j); [congruence|exact A].
  - cbn. destruct (Nat.eqb_spec i j) as [->|N2]; [intros H; split; [exact H|exact N]|exact IH].
Qed.
Lemma gfind_gdrop_other m j' j : j <> j' -> gfind (gdrop m j') j = gfind m j.
Proof.
  intros N. induction m as [|[i x] m IH]; cbn; [reflexivity|].
  destruct (Nat.eqb_spec i j') as [->|N1].
  - rewrite IH. destruct (Nat.eqb_spec j' j); [congruence|reflexivity].
  - cbn. destruct (Nat.eqb_spec i j); [reflexivity|exact IH].
Qed.
