(** DhpFlBMainC: copy of LV.Proofs.DhpMainC over the pointer-free invariant of LV.Proofs.DhpFlBInv ([JW] trivial, [retired_tr] empty:
    the "retired once" hypothesis of [InvB] is gone); the text differs from the original only where the JW part of a goal was proved. *)
(** * DhpMainC: every client operation except detach preserves the C03 invariant; threads; the initial configuration. *)
From Coq Require Import ZArith NArith List String Bool Lia PeanoNat.
From LV Require Import Base.Conc Base.Events Model.DhpLang Model.Dhp Proofs.DhpBase Proofs.DhpSeq Proofs.DhpSeqThm Proofs.DhpHist
  Proofs.DhpLangProofs Proofs.DhpAllocA Proofs.DhpInvB Proofs.DhpFlBInv Proofs.DhpFlBQuietB Proofs.DhpFlBQuietB2 Proofs.DhpFlBRulesB Proofs.DhpFlBStepsB1 Proofs.DhpFlBStepsB2
  Proofs.DhpFlBStepsB3 Proofs.DhpFlBStepsB4 Proofs.DhpFlBStepsB5 Proofs.DhpFlBStepsB6 Proofs.DhpFlBStepsB7 Proofs.DhpFlBProgB1 Proofs.DhpFlBProgB2
  Proofs.DhpFlBProgB3 Proofs.DhpFlBProgB4.
Import ListNotations.

Definition nodetach (o : op) : Prop := o <> ODetach.

Section MainC.
  Variable c : cfg.
  Notation RB := (c_RB c).
  Hypothesis HRB : 4 <= RB.
  Hypothesis Hold : c_old c = false.

  Definition Rel (L : Dhp.L) (l : VB) : Prop := idle l /\ forall r, l_tls L = Some r -> In r (vb_own l).
  Definition Qop : option Dhp.L -> VB -> Prop := fun o l' => match o with Some L' => Rel L' l' | None => True end.

  Lemma qev_inv code args : code <> 9 -> Forall qevB [EvCli "op" (zl (code :: args))].
  Proof.
    intros H. constructor; [|constructor]. split; [|now rewrite classify_op].
    unfold zl. cbn [map]. destruct args as [|x [|y args]]; cbn [map retired_ev]; try reflexivity.
    cbn. destruct (Z.eqb_spec (zn code) 9) as [E|E]; [|reflexivity]. unfold zn in E. exfalso. apply H. lia.
  Qed.
  Lemma qev_rsp v : Forall qevB [EvCli "ret" [zn v]]. Proof. constructor; [apply qevB_ret|constructor]. Qed.

  Lemma dsafeB_inv {Y} t code args (q : P Y) l Q : code <> 9 -> dsafeB c t q l Q -> dsafeB c t (inv code args ;;; q) l Q.
  Proof. intros H Hq. unfold inv. apply dsafeB_xemit_q; [apply qev_inv; exact H|exact Hq]. Qed.
  Lemma dsafeB_rsp_ret t v L l : Rel L l -> dsafeB c t (rsp v ;;; ret L) l Qop.
  Proof. intros H. unfold rsp. apply dsafeB_xemit_q; [apply qev_rsp|]. exact H. Qed.
  Lemma dsafeB_skip_ret t L l : Rel L l -> dsafeB c t (skip ;;; ret L) l Qop.
  Proof. intros H. unfold skip. apply dsafeB_xemit_q; [constructor; [apply qevB_skip|constructor]|]. exact H. Qed.

  Lemma Rel_tls L L' l : Rel L l -> l_tls L' = l_tls L -> Rel L' l.
  Proof. intros (H1 & H2) E. split; auto. intros r. rewrite E. apply H2. Qed.

  Definition okop (o : op) : Prop := nodetach o \/ c_oldtail c = false.

  Lemma spec_run_op t L l o : okop o -> Rel L l -> dsafeB c t (run_op c t L o) l Qop.
  Proof.
    intros Hnd HR. pose proof HR as (Hi & Ht). pose proof Hi as (I1 & I2 & I3 & I4 & I5 & I6 & I7 & I8 & I9).
    destruct o; cbn [run_op].
    - (* attach *)
      apply dsafeB_inv; [lia|]. destruct (l_tls L) as [r|] eqn:E; [apply dsafeB_skip_ret; exact HR|].
      apply dsafeB_xbind. apply alloc_thread_data_spec; auto; [|intros; exact I].
      intros r l' (X1 & X2) Hr. cbn beta iota. apply dsafeB_xemit_q; [constructor; [apply qevB_att|constructor]|].
      apply dsafeB_rsp_ret. split; auto. cbn. intros r' E'. inversion E'; subst. exact Hr.
    - (* detach *)
      destruct Hnd as [Hnd|Htail]; [exfalso; apply Hnd; reflexivity|].
      apply dsafeB_inv; [lia|]. destruct (l_tls L) as [r|] eqn:E; [|apply dsafeB_skip_ret; exact HR].
      apply dsafeB_xbind. apply free_thread_data_spec; auto.
      + constructor; [apply qevB_relall|constructor; [apply qevB_det|constructor]].
      + intros l' Hi'. cbn beta iota. apply dsafeB_rsp_ret. split; auto. cbn. discriminate.
      + intros; exact I.
    - (* Guard ctor *)
      apply dsafeB_inv; [lia|]. destruct (l_tls L) as [r|] eqn:E; [|apply dsafeB_skip_ret; exact HR].
      destruct (gfind (l_guards L) j); [apply dsafeB_skip_ret; exact HR|].
      apply dsafeB_quiet_seq; [apply qB_hp_galloc|exact I|]. intros [s|].
      + apply dsafeB_xemit_q; [constructor; [apply qevB_own|constructor]|]. apply dsafeB_rsp_ret. eapply Rel_tls; eauto.
      + apply dsafeB_xemit_q; [constructor; [apply qevB_err|constructor]|]. exact HR.
    - (* Guard dtor *)
      apply dsafeB_inv; [lia|]. destruct (l_tls L) as [r|] eqn:E; [|apply dsafeB_skip_ret; exact HR].
      destruct (gfind (l_guards L) j) as [s|]; [|apply dsafeB_skip_ret; exact HR].
      apply dsafeB_xemit_q; [constructor; [apply qevB_rel|constructor]|].
      apply dsafeB_quiet_seq; [apply qB_hp_gfree|exact I|]. intros _. apply dsafeB_rsp_ret. eapply Rel_tls; eauto.
    - (* assign *)
      apply dsafeB_inv; [lia|]. destruct (l_tls L) as [r|] eqn:E; [|apply dsafeB_skip_ret; exact HR].
      destruct (gfind (l_guards L) j) as [s|]; [|apply dsafeB_skip_ret; exact HR].
      apply dsafeB_xact_q; [apply qB_st_slot|]. intros _. apply dsafeB_xact_q; [apply qB_faa_sync|]. intros _. apply dsafeB_rsp_ret. exact HR.
    - (* clear *)
      apply dsafeB_inv; [lia|]. destruct (l_tls L) as [r|] eqn:E; [|apply dsafeB_skip_ret; exact HR].
      destruct (gfind (l_guards L) j) as [s|]; [|apply dsafeB_skip_ret; exact HR].
      apply dsafeB_xact_q; [apply qB_st_slot|]. intros _. apply dsafeB_rsp_ret. exact HR.
    - (* protect *)
      apply dsafeB_inv; [lia|]. destruct (l_tls L) as [r|] eqn:E; [|apply dsafeB_skip_ret; exact HR].
      destruct (gfind (l_guards L) j) as [s|]; [|apply dsafeB_skip_ret; exact HR].
      apply dsafeB_xact_q; [apply qB_ld_src|]. intros p0. apply dsafeB_quiet_seq; [apply qB_protect_loop|exact I|]. intros v.
      apply dsafeB_rsp_ret. exact HR.
    - (* publish *)
      apply dsafeB_inv; [lia|]. apply dsafeB_xact_q; [apply qB_st_src|]. intros _. apply dsafeB_rsp_ret. exact HR.
    - (* retire *)
      unfold inv. destruct (l_tls L) as [r|] eqn:E.
      + specialize (Ht r eq_refl).
        apply dsafeB_xemit. intros g a tr Hv. unfold viewB in Hv. exists (aux_pend a t p). split; [eapply frame_bvs; reflexivity|]. split.
        { intros _ Hnd' J. apply (S_retire_ev c g a tr t p Hnd' J). }
        unfold viewB. cbn [bvs aux_pend]. rewrite fn_same, Hv. clear g a tr Hv.
        apply dsafeB_xloc. intros g a tr Hv. unfold viewB in Hv.
        exists (aux_push a t r p (snd (rt_push c r p g))). split; [eapply frame_bvs; reflexivity|]. split.
        { intros J. apply S_push; auto; rewrite Hv; cbn; auto; congruence. }
        unfold viewB. cbn [bvs aux_push aux_arr]. rewrite fn_same, Hv. generalize (snd (rt_push c r p g)) as ok. clear g a tr Hv. intros ok.
        apply dsafeB_xbind. destruct ok.
        * apply dsafeB_ret. cbn beta iota. apply dsafeB_rsp_ret. split; [unfold idle; cbn; tauto|]. intros r' E'. rewrite E in E'. inversion E'; subst. exact Ht.
        * apply scan_spec; auto; cbn [vb_own vb_dead vb_move vb_full vb_freed vb_blk set_full set_pend]; auto; try congruence.
          all: try solve [intros; exact I].
          apply dsafeB_rsp_ret. split; [unfold idle; cbn; tauto|]. intros r' E'. rewrite E in E'. inversion E'; subst. exact Ht.
      + apply dsafeB_xemit. intros g a tr Hv. exists a. split; [apply frame_refl|]. split.
        { intros _ _ J. apply JB_ev_other; auto. }
        rewrite Hv. apply dsafeB_skip_ret. exact HR.
    - (* scan *)
      apply dsafeB_inv; [lia|]. destruct (l_tls L) as [r|] eqn:E; [|apply dsafeB_skip_ret; exact HR].
      specialize (Ht r eq_refl). apply dsafeB_xbind. apply scan_spec; auto; try congruence.
      all: try solve [intros; exact I].
      apply dsafeB_rsp_ret. split; [unfold idle; cbn; tauto|]. intros r' E'. rewrite E in E'. inversion E'; subst. exact Ht.
    - (* wait *)
      apply dsafeB_inv; [lia|]. apply dsafeB_quiet_seq; [apply qB_wait_loop|exact I|]. intros _. apply dsafeB_rsp_ret. exact HR.
  Qed.

  Lemma spec_run_ops t : forall os L l, Forall okop os -> Rel L l -> dsafeB c t (run_ops c t L os) l (fun _ _ => True).
  Proof.
    induction os as [|o os IH]; intros L l Hnd HR; cbn [run_ops]; [exact I|]. inversion Hnd; subst.
    apply dsafeB_xbind. eapply dsafe_weaken; [|apply spec_run_op; eauto]. intros [L'|] l' H; cbn; auto.
  Qed.

  Lemma spec_thread t os : Forall okop os -> dsafeB c t (thread_src c t os) vb0 (fun _ _ => True).
  Proof.
    intros Hnd. unfold thread_src. apply dsafeB_act_quiet; [apply qB_begin|]. intros _. unfold to_unit. apply dsafe_bind.
    eapply dsafe_weaken; [|apply spec_run_ops; auto]; [intros; exact I|].
    split; [unfold idle; cbn; tauto|]. cbn. discriminate.
  Qed.
End MainC.
