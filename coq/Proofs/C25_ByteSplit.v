(** * C25_ByteSplit — byte_splitter and split_bitstring over a byte array (part (d)). *)
Require Import ZArith Lia Bool List.
Require Import LV.Base.CInt LV.Proofs.C25_Bits LV.Proofs.C25_Popcount LV.Proofs.C25_Fields LV.Gen.Gen_split.
Import ListNotations.
Local Open Scope Z_scope.

(** The byte array as one little-endian number, and its bit fields. *)
Definition bytes_ok (mem : list Z) : Prop := Forall (fun b => 0 <= b < 256) mem.
Definition mval (mem : list Z) : Z := fromd 8 mem.
Definition zlen (mem : list Z) : Z := Z.of_nat (length mem).
Definition bitsof (M s c : Z) : Z := M / 2 ^ s mod 2 ^ c.

Lemma bitsof_range M s c : 0 <= c -> 0 <= bitsof M s c < 2 ^ c.
Proof. intros. unfold bitsof. apply Z.mod_pos_bound, pow2_pos; lia. Qed.

Lemma bitsof_0 M s : bitsof M s 0 = 0.
Proof. unfold bitsof. apply Z.mod_1_r. Qed.

Lemma bitsof_join M s c1 c2 : 0 <= s -> 0 <= c1 -> 0 <= c2 ->
  bitsof M s c1 + 2 ^ c1 * bitsof M (s + c1) c2 = bitsof M s (c1 + c2).
Proof.
  intros Hs H1 H2. unfold bitsof.
  assert (0 < 2 ^ s) by (apply pow2_pos; lia). assert (0 < 2 ^ c1) by (apply pow2_pos; lia).
  assert (0 < 2 ^ c2) by (apply pow2_pos; lia).
  rewrite (Z.pow_add_r 2 s c1), <- Z.div_div by lia.
  rewrite (Z.pow_add_r 2 c1 c2) by lia. rewrite Z.rem_mul_r by lia. reflexivity.
Qed.

Lemma mval_nonneg mem : bytes_ok mem -> 0 <= mval mem.
Proof. intros H. unfold mval. induction H; cbn [fromd]; change (2 ^ 8) with 256; lia. Qed.

Lemma mval_range mem : bytes_ok mem -> 0 <= mval mem < 2 ^ (8 * zlen mem).
Proof.
  intros H. unfold zlen, mval. induction H as [|d r Hd Hr IH]; cbn [fromd length]; [cbn; lia|].
  rewrite Nat2Z.inj_succ. replace (8 * Z.succ (Z.of_nat (length r))) with (8 + 8 * Z.of_nat (length r)) by lia.
  rewrite Z.pow_add_r by lia. change (2 ^ 8) with 256. nia.
Qed.

Lemma byte_at mem : bytes_ok mem -> forall p b, 0 <= p -> nth_error mem (Z.to_nat p) = Some b ->
  bitsof (mval mem) (8 * p) 8 = b.
Proof.
  intros H. induction H as [|d r Hd Hr IH]; intros p b Hp E.
  - destruct (Z.to_nat p); discriminate.
  - destruct (Z.eq_dec p 0) as [->|Hnz].
    + cbn in E. injection E as <-. unfold bitsof. cbn [mval fromd]. change (2 ^ (8 * 0)) with 1. rewrite Z.div_1_r.
      change (2 ^ 8) with 256. rewrite (Z.mul_comm 256), Z.mod_add by lia. apply Z.mod_small. lia.
    + replace (Z.to_nat p) with (S (Z.to_nat (p - 1))) in E by lia. cbn [nth_error] in E.
      rewrite <- (IH (p - 1) b ltac:(lia) E). unfold bitsof, mval. cbn [fromd].
      replace (8 * p) with (8 + 8 * (p - 1)) by lia. rewrite Z.pow_add_r by lia. rewrite <- Z.div_div by (try apply pow2_pos; lia).
      change (2 ^ 8) with 256. rewrite (Z.mul_comm 256), Z.div_add by lia. rewrite (Z.div_small d 256) by lia.
      rewrite Z.add_0_l. reflexivity.
Qed.

Lemma load_byte mem p : bytes_ok mem -> 0 <= p < zlen mem ->
  load mem p = Some (bitsof (mval mem) (8 * p) 8).
Proof.
  intros H Hp. unfold load. destruct (c_index_some mem p Hp) as [v E]. rewrite E. f_equal. symmetry.
  unfold c_index in E. replace (p <? 0) with false in E by (symmetry; apply Z.ltb_ge; lia).
  apply byte_at; auto; lia.
Qed.

Lemma ptr_add_ok mem p n : 0 <= p + n <= zlen mem -> ptr_add mem p n = Some (p + n).
Proof.
  intros H. unfold ptr_add, zlen in *. cbv zeta.
  replace ((0 <=? p + n) && (p + n <=? Z.of_nat (length mem))) with true; [reflexivity|].
  symmetry. apply andb_true_iff. split; apply Z.leb_le; lia.
Qed.

Lemma lor_disjoint a b k : 0 <= k -> 0 <= a < 2 ^ k -> 0 <= b -> Z.lor a (b * 2 ^ k) = a + b * 2 ^ k.
Proof.
  intros Hk Ha Hb. apply Z.bits_inj'. intros i Hi. rewrite Z.lor_spec.
  rewrite (Z.mul_comm b (2 ^ k)) at 2. rewrite testbit_digit by lia.
  rewrite <- Z.shiftl_mul_pow2 by lia.
  destruct (Z.ltb_spec i k).
  - rewrite Z.shiftl_spec_low by lia. apply orb_false_r.
  - rewrite (testbit_high a k i) by lia. rewrite Z.shiftl_spec by lia. reflexivity.
Qed.

Lemma shl_i32_one' c : 0 <= c < 31 -> c_shl i32 1 c = Some (2 ^ c).
Proof.
  intros Hc. rewrite c_shl_s_ok; rewrite ?Z.shiftl_1_l; try reflexivity; try lia.
  - apply shift_ok_spec. cbn [ibits i32]. lia.
  - cbn [ibits i32]. apply Z.pow_lt_mono_r; lia.
Qed.

Lemma ssub_mask' c : 0 <= c < 31 -> ssub i32 (2 ^ c) 1 = Some (2 ^ c - 1).
Proof.
  intros H. assert (1 <= 2 ^ c < 2 ^ 31).
  { split; [assert (0 < 2 ^ c) by (apply pow2_pos; lia); lia|apply Z.pow_lt_mono_r; lia]. }
  assert (2 ^ 31 = 2147483648) by reflexivity. apply ssub_i32. lia.
Qed.

Lemma land_mask' a c : 0 <= c -> Z.land a (2 ^ c - 1) = a mod 2 ^ c.
Proof. intros. replace (2 ^ c - 1) with (Z.ones c) by (rewrite Z.ones_equiv; lia). apply Z.land_ones. lia. Qed.

(** ** byte_splitter<_, _, u64> *)

Section BS_64.
  Variable mem : list Z.
  Hypothesis Hmem : bytes_ok mem.
  Let M := mval mem.
  Let L := zlen mem.

  Lemma bs_u64_loop_spec count cur0 k : 0 <= cur0 -> 0 <= k -> count = 8 * k -> count <= 64 -> cur0 + k <= zlen mem ->
    forall fuel j, 0 <= j <= k -> (Z.to_nat (k - j) < fuel)%nat ->
    bs_u64_cut_loop1 fuel mem count (cur0 + j) (bitsof M (8 * cur0) (8 * j)) (8 * j)
    = Some (cur0 + k, bitsof M (8 * cur0) (8 * k), 8 * k).
  Proof.
    intros Hc0 Hk Hcount H64 Hlen. induction fuel as [|fuel IH]; intros j Hj Hf; [lia|].
    cbn [bs_u64_cut_loop1]. unfold c_lt.
    destruct (Z.ltb_spec (8 * j) count).
    - rewrite load_byte by (auto; lia). cbn [obind]. fold M.
      pose proof (bitsof_range M (8 * (cur0 + j)) 8 ltac:(lia)) as Hb. change (2 ^ 8) with 256 in Hb.
      set (b := bitsof M (8 * (cur0 + j)) 8) in *.
      assert (Hpow : 2 ^ (8 * j) * 256 <= 2 ^ 64).
      { replace 256 with (2 ^ 8) by reflexivity. rewrite <- Z.pow_add_r by lia. apply Z.pow_le_mono_r; lia. }
      assert (0 < 2 ^ (8 * j)) by (apply pow2_pos; lia).
      rewrite c_shl_u_ok by (try reflexivity; apply shift_ok_spec; cbn [ibits u64]; lia). cbn [obind ibits u64].
      rewrite Z.shiftl_mul_pow2 by lia.
      assert (0 <= b * 2 ^ (8 * j) < 2 ^ 64).
      { split; [apply Z.mul_nonneg_nonneg; lia|].
        apply Z.lt_le_trans with (256 * 2 ^ (8 * j)); [apply Z.mul_lt_mono_pos_r; lia|lia]. }
      rewrite Z.mod_small by assumption.
      rewrite ptr_add_ok by lia. cbn [obind].
      unfold c_or. rewrite lor_disjoint by (try lia; apply bitsof_range; lia).
      assert (E : bitsof M (8 * cur0) (8 * j) + b * 2 ^ (8 * j) = bitsof M (8 * cur0) (8 * (j + 1))).
      { replace (8 * (j + 1)) with (8 * j + 8) by lia. rewrite <- bitsof_join by lia.
        unfold b. replace (8 * (cur0 + j)) with (8 * cur0 + 8 * j) by lia. lia. }
      rewrite E. unfold uadd. cbn [ibits u32]. assert (64 < 2 ^ 32) by reflexivity.
      rewrite Z.mod_small by lia. replace (8 * j + 8) with (8 * (j + 1)) by lia.
      replace (cur0 + j + 1) with (cur0 + (j + 1)) by lia. apply IH; lia.
    - assert (j = k) by lia. subst j. reflexivity.
  Qed.

  (** cut: [count = 8k] (is_correct), at most the width of the result type, inside the array *)
  Lemma bs_u64_cut_spec fuel cur k : 0 <= cur -> 0 <= k <= 8 -> cur + k <= L -> (Z.to_nat k < fuel)%nat ->
    bs_u64_cut fuel mem (mk_bs_u64 cur 0 L) (8 * k)
    = Some (bitsof M (8 * cur) (8 * k), mk_bs_u64 (cur + k) 0 L).
  Proof.
    intros Hc Hk Hl Hf. unfold bs_u64_cut. cbn [bs_u64_cur_ bs_u64_first_ bs_u64_last_]. cbv zeta.
    pose proof (bs_u64_loop_spec (8 * k) cur k Hc ltac:(lia) eq_refl ltac:(lia) Hl fuel 0 ltac:(lia) ltac:(lia)) as E.
    rewrite Z.add_0_r, Z.mul_0_r, bitsof_0 in E. rewrite E. reflexivity.
  Qed.

  (** safe_cut: clipped to the bytes that are left; never reads outside the array (the result is [Some]) *)
  Lemma bs_u64_safe_cut_spec fuel cur k : 0 <= cur <= L -> 0 <= k <= 8 -> 8 * L < 2 ^ 31 -> (8 < fuel)%nat ->
    bs_u64_safe_cut fuel mem (mk_bs_u64 cur 0 L) (8 * k)
    = Some (bitsof M (8 * cur) (8 * Z.min k (L - cur)), mk_bs_u64 (cur + Z.min k (L - cur)) 0 L).
  Proof.
    intros Hc Hk HL Hf. unfold bs_u64_safe_cut, bs_u64_eos. cbn [bs_u64_cur_ bs_u64_first_ bs_u64_last_ obind]. unfold c_ge.
    assert (P31 : 2 ^ 31 = 2147483648) by reflexivity. assert (P32 : 2 ^ 32 = 4294967296) by reflexivity.
    destruct (Z.leb_spec L cur).
    - replace (Z.min k (L - cur)) with 0 by lia. rewrite Z.mul_0_r, bitsof_0, Z.add_0_r. reflexivity.
    - rewrite ssub_i64 by lia. cbn [obind]. rewrite cast_u32, Z.mod_small by lia.
      unfold umul. cbn [ibits u32]. rewrite Z.mod_small by lia. unfold c_lt.
      destruct (Z.ltb_spec ((L - cur) * 8) (8 * k)); cbn [obind].
      + replace (Z.min k (L - cur)) with (L - cur) by lia.
        replace (to_bool ((L - cur) * 8)) with true by (symmetry; apply to_bool_spec; lia).
        replace ((L - cur) * 8) with (8 * (L - cur)) by lia.
        rewrite bs_u64_cut_spec by lia. reflexivity.
      + replace (Z.min k (L - cur)) with k by lia.
        destruct (Z.eq_dec k 0) as [->|Hk0].
        * cbn [to_bool Z.mul Z.eqb negb]. rewrite bitsof_0, Z.add_0_r. reflexivity.
        * replace (to_bool (8 * k)) with true by (symmetry; apply to_bool_spec; lia).
          rewrite bs_u64_cut_spec by lia. reflexivity.
  Qed.
End BS_64.

(** ** byte_splitter<_, _, u32> *)

Section BS_32.
  Variable mem : list Z.
  Hypothesis Hmem : bytes_ok mem.
  Let M := mval mem.
  Let L := zlen mem.

  Lemma bs_u32_loop_spec count cur0 k : 0 <= cur0 -> 0 <= k -> count = 8 * k -> count <= 32 -> cur0 + k <= zlen mem ->
    forall fuel j, 0 <= j <= k -> (Z.to_nat (k - j) < fuel)%nat ->
    bs_u32_cut_loop1 fuel mem count (cur0 + j) (bitsof M (8 * cur0) (8 * j)) (8 * j)
    = Some (cur0 + k, bitsof M (8 * cur0) (8 * k), 8 * k).
  Proof.
    intros Hc0 Hk Hcount H64 Hlen. induction fuel as [|fuel IH]; intros j Hj Hf; [lia|].
    cbn [bs_u32_cut_loop1]. unfold c_lt.
    destruct (Z.ltb_spec (8 * j) count).
    - rewrite load_byte by (auto; lia). cbn [obind]. fold M.
      pose proof (bitsof_range M (8 * (cur0 + j)) 8 ltac:(lia)) as Hb. change (2 ^ 8) with 256 in Hb.
      set (b := bitsof M (8 * (cur0 + j)) 8) in *.
      assert (Hpow : 2 ^ (8 * j) * 256 <= 2 ^ 32).
      { replace 256 with (2 ^ 8) by reflexivity. rewrite <- Z.pow_add_r by lia. apply Z.pow_le_mono_r; lia. }
      assert (0 < 2 ^ (8 * j)) by (apply pow2_pos; lia).
      rewrite c_shl_u_ok by (try reflexivity; apply shift_ok_spec; cbn [ibits u32]; lia). cbn [obind ibits u32].
      rewrite Z.shiftl_mul_pow2 by lia.
      assert (0 <= b * 2 ^ (8 * j) < 2 ^ 32).
      { split; [apply Z.mul_nonneg_nonneg; lia|].
        apply Z.lt_le_trans with (256 * 2 ^ (8 * j)); [apply Z.mul_lt_mono_pos_r; lia|lia]. }
      rewrite Z.mod_small by assumption.
      rewrite ptr_add_ok by lia. cbn [obind].
      unfold c_or. rewrite lor_disjoint by (try lia; apply bitsof_range; lia).
      assert (E : bitsof M (8 * cur0) (8 * j) + b * 2 ^ (8 * j) = bitsof M (8 * cur0) (8 * (j + 1))).
      { replace (8 * (j + 1)) with (8 * j + 8) by lia. rewrite <- bitsof_join by lia.
        unfold b. replace (8 * (cur0 + j)) with (8 * cur0 + 8 * j) by lia. lia. }
      rewrite E. unfold uadd. cbn [ibits u32]. assert (64 < 2 ^ 32) by reflexivity.
      rewrite Z.mod_small by lia. replace (8 * j + 8) with (8 * (j + 1)) by lia.
      replace (cur0 + j + 1) with (cur0 + (j + 1)) by lia. apply IH; lia.
    - assert (j = k) by lia. subst j. reflexivity.
  Qed.

  (** cut: [count = 8k] (is_correct), at most the width of the result type, inside the array *)
  Lemma bs_u32_cut_spec fuel cur k : 0 <= cur -> 0 <= k <= 4 -> cur + k <= L -> (Z.to_nat k < fuel)%nat ->
    bs_u32_cut fuel mem (mk_bs_u32 cur 0 L) (8 * k)
    = Some (bitsof M (8 * cur) (8 * k), mk_bs_u32 (cur + k) 0 L).
  Proof.
    intros Hc Hk Hl Hf. unfold bs_u32_cut. cbn [bs_u32_cur_ bs_u32_first_ bs_u32_last_]. cbv zeta.
    pose proof (bs_u32_loop_spec (8 * k) cur k Hc ltac:(lia) eq_refl ltac:(lia) Hl fuel 0 ltac:(lia) ltac:(lia)) as E.
    rewrite Z.add_0_r, Z.mul_0_r, bitsof_0 in E. rewrite E. reflexivity.
  Qed.

  (** safe_cut: clipped to the bytes that are left; never reads outside the array (the result is [Some]) *)
  Lemma bs_u32_safe_cut_spec fuel cur k : 0 <= cur <= L -> 0 <= k <= 4 -> 8 * L < 2 ^ 31 -> (4 < fuel)%nat ->
    bs_u32_safe_cut fuel mem (mk_bs_u32 cur 0 L) (8 * k)
    = Some (bitsof M (8 * cur) (8 * Z.min k (L - cur)), mk_bs_u32 (cur + Z.min k (L - cur)) 0 L).
  Proof.
    intros Hc Hk HL Hf. unfold bs_u32_safe_cut, bs_u32_eos. cbn [bs_u32_cur_ bs_u32_first_ bs_u32_last_ obind]. unfold c_ge.
    assert (P31 : 2 ^ 31 = 2147483648) by reflexivity. assert (P32 : 2 ^ 32 = 4294967296) by reflexivity.
    destruct (Z.leb_spec L cur).
    - replace (Z.min k (L - cur)) with 0 by lia. rewrite Z.mul_0_r, bitsof_0, Z.add_0_r. reflexivity.
    - rewrite ssub_i64 by lia. cbn [obind]. rewrite cast_u32, Z.mod_small by lia.
      unfold umul. cbn [ibits u32]. rewrite Z.mod_small by lia. unfold c_lt.
      destruct (Z.ltb_spec ((L - cur) * 8) (8 * k)); cbn [obind].
      + replace (Z.min k (L - cur)) with (L - cur) by lia.
        replace (to_bool ((L - cur) * 8)) with true by (symmetry; apply to_bool_spec; lia).
        replace ((L - cur) * 8) with (8 * (L - cur)) by lia.
        rewrite bs_u32_cut_spec by lia. reflexivity.
      + replace (Z.min k (L - cur)) with k by lia.
        destruct (Z.eq_dec k 0) as [->|Hk0].
        * cbn [to_bool Z.mul Z.eqb negb]. rewrite bitsof_0, Z.add_0_r. reflexivity.
        * replace (to_bool (8 * k)) with true by (symmetry; apply to_bool_spec; lia).
          rewrite bs_u32_cut_spec by lia. reflexivity.
  Qed.
End BS_32.

(** ** split_bitstring<_, _, u64> *)

Lemma bitsof_byte_field M cur off bits : 0 <= cur -> 0 <= off -> 0 <= bits -> off + bits <= 8 ->
  (bitsof M (8 * cur) 8 / 2 ^ off) mod 2 ^ bits = bitsof M (8 * cur + off) bits.
Proof.
  intros Hc Ho Hb Hob. unfold bitsof. apply Z.bits_inj'. intros i Hi.
  destruct (Z_lt_le_dec i bits).
  - rewrite !Z.mod_pow2_bits_low by lia. rewrite <- !Z.shiftr_div_pow2 by lia. rewrite !Z.shiftr_spec by lia.
    rewrite Z.mod_pow2_bits_low by lia. rewrite Z.shiftr_spec by lia. f_equal. lia.
  - rewrite !Z.mod_pow2_bits_high by lia. reflexivity.
Qed.

Section SB_64.
  Variable mem : list Z.
  Hypothesis Hmem : bytes_ok mem.
  Let M := mval mem.
  Let L := zlen mem.

  Lemma sb_u64_loop_spec pos0 count : 0 <= pos0 -> 0 <= count <= 64 -> pos0 + count <= 8 * L ->
    forall fuel d, 0 <= d <= count -> (Z.to_nat (count - d) < fuel)%nat ->
    sb_u64_cut_loop1 fuel mem count ((pos0 + d) / 8) ((pos0 + d) mod 8) (bitsof M pos0 d) d
    = Some ((pos0 + count) / 8, (pos0 + count) mod 8, bitsof M pos0 count, count).
  Proof.
    intros Hp Hc Hl. induction fuel as [|fuel IH]; intros d Hd Hf; [lia|].
    cbn [sb_u64_cut_loop1]. unfold c_lt.
    assert (P32 : 2 ^ 32 = 4294967296) by reflexivity.
    destruct (Z.ltb_spec d count); [|assert (d = count) by lia; subst d; reflexivity].
    set (cur := (pos0 + d) / 8). set (off := (pos0 + d) mod 8).
    assert (Hpos : pos0 + d = 8 * cur + off /\ 0 <= off < 8) by (unfold cur, off; Z.div_mod_to_equations; lia).
    destruct Hpos as [Hpos Hoff].
    assert (Hcur : 0 <= cur < L) by (unfold L in *; lia).
    unfold usub, c_gt. cbn [ibits u32]. rewrite !Z.mod_small by lia.
    set (bits := Z.min (count - d) (8 - off)).
    assert (Hbits : 1 <= bits <= 8 /\ off + bits <= 8 /\ d + bits <= count) by (unfold bits; lia).
    replace (if 8 - off <? count - d then Some (8 - off) else Some (count - d)) with (Some bits)
      by (unfold bits; destruct (Z.ltb_spec (8 - off) (count - d)); f_equal; lia).
    cbn [obind].
    rewrite load_byte by (auto; unfold L in *; lia). cbn [obind]. fold M.
    rewrite c_shr_ok by (apply shift_ok_spec; cbn [ibits i32]; lia). cbn [obind].
    rewrite shl_i32_one' by lia. cbn [obind]. rewrite ssub_mask' by lia. cbn [obind].
    unfold c_and. rewrite land_mask' by lia. rewrite Z.shiftr_div_pow2 by lia.
    rewrite bitsof_byte_field by lia. rewrite <- Hpos.
    pose proof (bitsof_range M (pos0 + d) bits ltac:(lia)) as Hpc.
    set (piece := bitsof M (pos0 + d) bits) in *.
    assert (Hpw : 2 ^ bits * 2 ^ d <= 2 ^ 64).
    { rewrite <- Z.pow_add_r by lia. apply Z.pow_le_mono_r; lia. }
    assert (0 < 2 ^ d) by (apply pow2_pos; lia).
    assert (Hsh : 0 <= piece * 2 ^ d < 2 ^ 64).
    { split; [apply Z.mul_nonneg_nonneg; lia|].
      apply Z.lt_le_trans with (2 ^ bits * 2 ^ d); [apply Z.mul_lt_mono_pos_r; lia|lia]. }
    assert (Hpc64 : 0 <= piece < 2 ^ 64) by nia.
    rewrite cast_u64, Z.mod_small by assumption.
    rewrite c_shl_u_ok by (try reflexivity; apply shift_ok_spec; cbn [ibits u64]; lia). cbn [obind ibits u64].
    rewrite Z.shiftl_mul_pow2 by lia. rewrite Z.mod_small by assumption.
    unfold c_or. rewrite lor_disjoint by (try lia; apply bitsof_range; lia).
    assert (E : bitsof M pos0 d + piece * 2 ^ d = bitsof M pos0 (d + bits)).
    { rewrite <- bitsof_join by lia. unfold piece. lia. }
    rewrite E. unfold uadd, c_eq. cbn [ibits u32]. rewrite !Z.mod_small by lia.
    assert (Hnext : (pos0 + (d + bits)) / 8 = (if off + bits =? 8 then cur + 1 else cur) /\
                    (pos0 + (d + bits)) mod 8 = (if off + bits =? 8 then 0 else off + bits)).
    { destruct (Z.eqb_spec (off + bits) 8); Z.div_mod_to_equations; lia. }
    destruct Hnext as [Hn1 Hn2].
    destruct (Z.eqb_spec (off + bits) 8).
    - rewrite ptr_add_ok by (unfold L in *; lia). cbn [obind].
      rewrite <- Hn1, <- Hn2. apply IH; lia.
    - cbn [obind]. rewrite <- Hn1, <- Hn2. apply IH; lia.
  Qed.

  (** cut: at most the width of the result type, inside the array *)
  Lemma sb_u64_cut_spec fuel pos count : 0 <= pos -> 0 <= count <= 64 -> pos + count <= 8 * L -> (Z.to_nat count < fuel)%nat ->
    sb_u64_cut fuel mem (mk_sb_u64 (pos / 8) (pos mod 8) 0 L) count
    = Some (bitsof M pos count, mk_sb_u64 ((pos + count) / 8) ((pos + count) mod 8) 0 L).
  Proof.
    intros Hp Hc Hl Hf. unfold sb_u64_cut. cbn [sb_u64_cur_ sb_u64_offset_ sb_u64_first_ sb_u64_last_]. cbv zeta.
    pose proof (sb_u64_loop_spec pos count Hp Hc Hl fuel 0 ltac:(lia) ltac:(lia)) as E.
    rewrite Z.add_0_r, bitsof_0 in E. rewrite E. reflexivity.
  Qed.

  (** safe_cut: clipped to the bits that are left; never reads outside the array (the result is [Some]) *)
  Lemma sb_u64_safe_cut_spec fuel pos count : 0 <= pos <= 8 * L -> 0 <= count <= 64 -> 8 * L < 2 ^ 31 -> (64 < fuel)%nat ->
    sb_u64_safe_cut fuel mem (mk_sb_u64 (pos / 8) (pos mod 8) 0 L) count
    = Some (bitsof M pos (Z.min count (8 * L - pos)),
            mk_sb_u64 ((pos + Z.min count (8 * L - pos)) / 8) ((pos + Z.min count (8 * L - pos)) mod 8) 0 L).
  Proof.
    intros Hp Hc HL Hf. unfold sb_u64_safe_cut, sb_u64_eos.
    cbn [sb_u64_cur_ sb_u64_offset_ sb_u64_first_ sb_u64_last_ obind]. unfold c_ge.
    assert (P31 : 2 ^ 31 = 2147483648) by reflexivity. assert (P32 : 2 ^ 32 = 4294967296) by reflexivity.
    set (cur := pos / 8). set (off := pos mod 8).
    assert (Hpos : pos = 8 * cur + off /\ 0 <= off < 8) by (unfold cur, off; Z.div_mod_to_equations; lia).
    destruct Hpos as [Hpos Hoff].
    destruct (Z.leb_spec L cur).
    - assert (pos = 8 * L) by lia. replace (Z.min count (8 * L - pos)) with 0 by lia.
      rewrite bitsof_0, Z.add_0_r. reflexivity.
    - rewrite ssub_i64 by lia. cbn [obind]. rewrite ssub_i64 by lia. cbn [obind].
      rewrite cast_u32, Z.mod_small by lia.
      unfold umul, usub, uadd, c_lt. cbn [ibits u32]. rewrite (Z.mod_small (8 - off)) by lia.
      rewrite (Z.mod_small ((L - cur - 1) * 8)) by lia. rewrite Z.mod_small by lia.
      replace ((L - cur - 1) * 8 + (8 - off)) with (8 * L - pos) by lia.
      destruct (Z.ltb_spec (8 * L - pos) count); cbn [obind].
      + replace (Z.min count (8 * L - pos)) with (8 * L - pos) by lia.
        replace (to_bool (8 * L - pos)) with true by (symmetry; apply to_bool_spec; lia).
        fold cur off. unfold cur, off. rewrite sb_u64_cut_spec by lia. reflexivity.
      + replace (Z.min count (8 * L - pos)) with count by lia.
        destruct (Z.eq_dec count 0) as [->|Hc0].
        * cbn [to_bool Z.eqb negb]. rewrite bitsof_0, Z.add_0_r. reflexivity.
        * replace (to_bool count) with true by (symmetry; apply to_bool_spec; lia).
          unfold cur, off. rewrite sb_u64_cut_spec by lia. reflexivity.
  Qed.
End SB_64.

Section SB_32.
  Variable mem : list Z.
  Hypothesis Hmem : bytes_ok mem.
  Let M := mval mem.
  Let L := zlen mem.

  Lemma sb_u32_loop_spec pos0 count : 0 <= pos0 -> 0 <= count <= 32 -> pos0 + count <= 8 * L ->
    forall fuel d, 0 <= d <= count -> (Z.to_nat (count - d) < fuel)%nat ->
    sb_u32_cut_loop1 fuel mem count ((pos0 + d) / 8) ((pos0 + d) mod 8) (bitsof M pos0 d) d
    = Some ((pos0 + count) / 8, (pos0 + count) mod 8, bitsof M pos0 count, count).
  Proof.
    intros Hp Hc Hl. induction fuel as [|fuel IH]; intros d Hd Hf; [lia|].
    cbn [sb_u32_cut_loop1]. unfold c_lt.
    assert (P32 : 2 ^ 32 = 4294967296) by reflexivity.
    destruct (Z.ltb_spec d count); [|assert (d = count) by lia; subst d; reflexivity].
    set (cur := (pos0 + d) / 8). set (off := (pos0 + d) mod 8).
    assert (Hpos : pos0 + d = 8 * cur + off /\ 0 <= off < 8) by (unfold cur, off; Z.div_mod_to_equations; lia).
    destruct Hpos as [Hpos Hoff].
    assert (Hcur : 0 <= cur < L) by (unfold L in *; lia).
    unfold usub, c_gt. cbn [ibits u32]. rewrite !Z.mod_small by lia.
    set (bits := Z.min (count - d) (8 - off)).
    assert (Hbits : 1 <= bits <= 8 /\ off + bits <= 8 /\ d + bits <= count) by (unfold bits; lia).
    replace (if 8 - off <? count - d then Some (8 - off) else Some (count - d)) with (Some bits)
      by (unfold bits; destruct (Z.ltb_spec (8 - off) (count - d)); f_equal; lia).
    cbn [obind].
    rewrite load_byte by (auto; unfold L in *; lia). cbn [obind]. fold M.
    rewrite c_shr_ok by (apply shift_ok_spec; cbn [ibits i32]; lia). cbn [obind].
    rewrite shl_i32_one' by lia. cbn [obind]. rewrite ssub_mask' by lia. cbn [obind].
    unfold c_and. rewrite land_mask' by lia. rewrite Z.shiftr_div_pow2 by lia.
    rewrite bitsof_byte_field by lia. rewrite <- Hpos.
    pose proof (bitsof_range M (pos0 + d) bits ltac:(lia)) as Hpc.
    set (piece := bitsof M (pos0 + d) bits) in *.
    assert (Hpw : 2 ^ bits * 2 ^ d <= 2 ^ 32).
    { rewrite <- Z.pow_add_r by lia. apply Z.pow_le_mono_r; lia. }
    assert (0 < 2 ^ d) by (apply pow2_pos; lia).
    assert (Hsh : 0 <= piece * 2 ^ d < 2 ^ 32).
    { split; [apply Z.mul_nonneg_nonneg; lia|].
      apply Z.lt_le_trans with (2 ^ bits * 2 ^ d); [apply Z.mul_lt_mono_pos_r; lia|lia]. }
    assert (Hpc64 : 0 <= piece < 2 ^ 32) by nia.
    rewrite cast_u32, Z.mod_small by assumption.
    rewrite c_shl_u_ok by (try reflexivity; apply shift_ok_spec; cbn [ibits u32]; lia). cbn [obind ibits u32].
    rewrite Z.shiftl_mul_pow2 by lia. rewrite Z.mod_small by assumption.
    unfold c_or. rewrite lor_disjoint by (try lia; apply bitsof_range; lia).
    assert (E : bitsof M pos0 d + piece * 2 ^ d = bitsof M pos0 (d + bits)).
    { rewrite <- bitsof_join by lia. unfold piece. lia. }
    rewrite E. unfold uadd, c_eq. cbn [ibits u32]. rewrite !Z.mod_small by lia.
    assert (Hnext : (pos0 + (d + bits)) / 8 = (if off + bits =? 8 then cur + 1 else cur) /\
                    (pos0 + (d + bits)) mod 8 = (if off + bits =? 8 then 0 else off + bits)).
    { destruct (Z.eqb_spec (off + bits) 8); Z.div_mod_to_equations; lia. }
    destruct Hnext as [Hn1 Hn2].
    destruct (Z.eqb_spec (off + bits) 8).
    - rewrite ptr_add_ok by (unfold L in *; lia). cbn [obind].
      rewrite <- Hn1, <- Hn2. apply IH; lia.
    - cbn [obind]. rewrite <- Hn1, <- Hn2. apply IH; lia.
  Qed.

  (** cut: at most the width of the result type, inside the array *)
  Lemma sb_u32_cut_spec fuel pos count : 0 <= pos -> 0 <= count <= 32 -> pos + count <= 8 * L -> (Z.to_nat count < fuel)%nat ->
    sb_u32_cut fuel mem (mk_sb_u32 (pos / 8) (pos mod 8) 0 L) count
    = Some (bitsof M pos count, mk_sb_u32 ((pos + count) / 8) ((pos + count) mod 8) 0 L).
  Proof.
    intros Hp Hc Hl Hf. unfold sb_u32_cut. cbn [sb_u32_cur_ sb_u32_offset_ sb_u32_first_ sb_u32_last_]. cbv zeta.
    pose proof (sb_u32_loop_spec pos count Hp Hc Hl fuel 0 ltac:(lia) ltac:(lia)) as E.
    rewrite Z.add_0_r, bitsof_0 in E. rewrite E. reflexivity.
  Qed.

  (** safe_cut: clipped to the bits that are left; never reads outside the array (the result is [Some]) *)
  Lemma sb_u32_safe_cut_spec fuel pos count : 0 <= pos <= 8 * L -> 0 <= count <= 32 -> 8 * L < 2 ^ 31 -> (32 < fuel)%nat ->
    sb_u32_safe_cut fuel mem (mk_sb_u32 (pos / 8) (pos mod 8) 0 L) count
    = Some (bitsof M pos (Z.min count (8 * L - pos)),
            mk_sb_u32 ((pos + Z.min count (8 * L - pos)) / 8) ((pos + Z.min count (8 * L - pos)) mod 8) 0 L).
  Proof.
    intros Hp Hc HL Hf. unfold sb_u32_safe_cut, sb_u32_eos.
    cbn [sb_u32_cur_ sb_u32_offset_ sb_u32_first_ sb_u32_last_ obind]. unfold c_ge.
    assert (P31 : 2 ^ 31 = 2147483648) by reflexivity. assert (P32 : 2 ^ 32 = 4294967296) by reflexivity.
    set (cur := pos / 8). set (off := pos mod 8).
    assert (Hpos : pos = 8 * cur + off /\ 0 <= off < 8) by (unfold cur, off; Z.div_mod_to_equations; lia).
    destruct Hpos as [Hpos Hoff].
    destruct (Z.leb_spec L cur).
    - assert (pos = 8 * L) by lia. replace (Z.min count (8 * L - pos)) with 0 by lia.
      rewrite bitsof_0, Z.add_0_r. reflexivity.
    - rewrite ssub_i64 by lia. cbn [obind]. rewrite ssub_i64 by lia. cbn [obind].
      rewrite cast_u32, Z.mod_small by lia.
      unfold umul, usub, uadd, c_lt. cbn [ibits u32]. rewrite (Z.mod_small (8 - off)) by lia.
      rewrite (Z.mod_small ((L - cur - 1) * 8)) by lia. rewrite Z.mod_small by lia.
      replace ((L - cur - 1) * 8 + (8 - off)) with (8 * L - pos) by lia.
      destruct (Z.ltb_spec (8 * L - pos) count); cbn [obind].
      + replace (Z.min count (8 * L - pos)) with (8 * L - pos) by lia.
        replace (to_bool (8 * L - pos)) with true by (symmetry; apply to_bool_spec; lia).
        fold cur off. unfold cur, off. rewrite sb_u32_cut_spec by lia. reflexivity.
      + replace (Z.min count (8 * L - pos)) with count by lia.
        destruct (Z.eq_dec count 0) as [->|Hc0].
        * cbn [to_bool Z.eqb negb]. rewrite bitsof_0, Z.add_0_r. reflexivity.
        * replace (to_bool count) with true by (symmetry; apply to_bool_spec; lia).
          unfold cur, off. rewrite sb_u32_cut_spec by lia. reflexivity.
  Qed.
End SB_32.

Definition anypos (s : Z) : Prop := True.

(** ** Sequence theorems for split_bitstring<_, _, u64> (any array size; any start; widths 1..64) *)

Definition sb_legal_64 (c : Z) : Prop := 1 <= c <= 64.

Section SBSeq_64.
  Variable mem : list Z.
  Variable fuel : nat.
  Hypothesis Hmem : bytes_ok mem.
  Hypothesis Hlen : 0 < zlen mem.
  Hypothesis Hfuel : (64 < fuel)%nat.
  Let M := mval mem.
  Let L := zlen mem.
  Let mk (n s : Z) := mk_sb_u64 (s / 8) (s mod 8) 0 L.
  Let okn (n : Z) := n = M.

  Lemma field_mval s c : field (8 * L) M s c = bitsof M s c.
  Proof. unfold field, bitsof. rewrite (Z.mod_small M) by (apply mval_range; assumption). reflexivity. Qed.

  Lemma sb_u64_Hcut n s c : okn n -> anypos s -> 0 <= s -> sb_legal_64 c -> s + c <= 8 * L ->
    sb_u64_cut fuel mem (mk n s) c = Some (field (8 * L) n s c, mk n (s + c)).
  Proof.
    unfold okn, sb_legal_64, mk. intros -> _ Hs Hc Hsc. rewrite field_mval.
    apply sb_u64_cut_spec; auto; lia.
  Qed.

  Lemma sb_u64_Hsafe n s c : 8 * L < 2 ^ 31 -> okn n -> anypos s -> 0 <= s <= 8 * L -> sb_legal_64 c ->
    sb_u64_safe_cut fuel mem (mk n s) c = Some (field (8 * L) n s (Z.min c (8 * L - s)), mk n (s + Z.min c (8 * L - s))).
  Proof.
    unfold okn, sb_legal_64, mk. intros HL -> _ Hs Hc. rewrite field_mval.
    apply sb_u64_safe_cut_spec; auto; lia.
  Qed.

  Lemma mk_start : mk M 0 = mk_sb_u64 0 0 0 L.
  Proof. reflexivity. Qed.
  Lemma mk_end : mk M (8 * L) = mk_sb_u64 L 0 0 L.
  Proof. unfold mk. rewrite Z.mul_comm, Z.div_mul, Z.mod_mul by lia. reflexivity. Qed.
  Lemma mval_mod : M mod 2 ^ (8 * L) = M.
  Proof. apply Z.mod_small, mval_range. assumption. Qed.

  Theorem sb_u64_cut_sequence cs : Forall sb_legal_64 cs -> zsum cs = 8 * L ->
    exists vs, run sb_u64 (sb_u64_cut fuel mem) (mk_sb_u64 0 0 0 L) cs = Some (vs, mk_sb_u64 L 0 0 L) /\
               length vs = length cs /\ joinf (combine vs cs) = mval mem.
  Proof.
    intros Hl Hs.
    destruct (cut_sequence_reconstructs_gen sb_u64 (8 * L) mk okn sb_legal_64 anypos (sb_u64_cut fuel mem)) with (n := M) (cs := cs) as [vs [E [Len J]]];
      auto; try exact I; unfold sb_legal_64, okn; try lia; try reflexivity.
    - intros; apply sb_u64_Hcut; auto.
    - exists vs. rewrite mk_start, mk_end in E. rewrite mval_mod in J. auto.
  Qed.

  Theorem sb_u64_safe_cut_sequence cs : 8 * L < 2 ^ 31 -> Forall sb_legal_64 cs -> 8 * L <= zsum cs ->
    exists vs, run sb_u64 (sb_u64_safe_cut fuel mem) (mk_sb_u64 0 0 0 L) cs = Some (vs, mk_sb_u64 L 0 0 L) /\
               length vs = length cs /\ joinf (combine vs (clip (8 * L) 0 cs)) = mval mem.
  Proof.
    intros HL Hl Hs.
    destruct (safe_cut_sequence_reconstructs_gen sb_u64 (8 * L) mk okn anypos (sb_u64_safe_cut fuel mem) ltac:(lia) sb_legal_64 (fun n => n))
      with (n := M) (cs := cs) as [vs [E [Len J]]];
      auto; try exact I; unfold okn, anypos, sb_legal_64 in *; try lia; try reflexivity.
    - intros; apply sb_u64_Hsafe; auto.
    - intros n0 c Hn0 Ho0 Hc0 Hw0. rewrite sb_u64_Hsafe by (auto; lia).
      replace (Z.min c (8 * L - 0)) with (8 * L) by lia. rewrite Z.add_0_l. f_equal. f_equal.
      unfold okn in Hn0. subst n0. rewrite field_whole by lia. apply mval_mod.
    - exists vs. rewrite mk_start, mk_end in E. split; [exact E|]. split; [exact Len|].
      destruct J as [J|J]; rewrite J; [apply mval_mod|reflexivity].
  Qed.


  (** safe_cut never reads a byte index >= size: in the model an out-of-bounds read is [None], and every
      sequence of safe cuts from the start evaluates to [Some]. *)
  Theorem sb_u64_safe_cut_in_bounds cs : 8 * L < 2 ^ 31 -> Forall sb_legal_64 cs ->
    exists vs st, run sb_u64 (sb_u64_safe_cut fuel mem) (mk_sb_u64 0 0 0 L) cs = Some (vs, st).
  Proof.
    intros HL Hl. rewrite <- mk_start.
    destruct (run_safe_from_start sb_u64 (8 * L) mk okn anypos (sb_u64_safe_cut fuel mem) ltac:(lia) sb_legal_64 (fun n => n))
      with (n := M) (cs := cs) as [vs [E _]];
      auto; try exact I; unfold okn, anypos, sb_legal_64 in *; try lia; try reflexivity.
    - intros; apply sb_u64_Hsafe; auto.
    - intros n0 c Hn0 Ho0 Hc0 Hw0. rewrite sb_u64_Hsafe by (auto; lia).
      replace (Z.min c (8 * L - 0)) with (8 * L) by lia. rewrite Z.add_0_l. f_equal. f_equal.
      unfold okn in Hn0. subst n0. rewrite field_whole by lia. apply mval_mod.
    - eauto.
  Qed.

End SBSeq_64.

(** ** Sequence theorems for split_bitstring<_, _, u32> (any array size; any start; widths 1..32) *)

Definition sb_legal_32 (c : Z) : Prop := 1 <= c <= 32.

Section SBSeq_32.
  Variable mem : list Z.
  Variable fuel : nat.
  Hypothesis Hmem : bytes_ok mem.
  Hypothesis Hlen : 0 < zlen mem.
  Hypothesis Hfuel : (32 < fuel)%nat.
  Let M := mval mem.
  Let L := zlen mem.
  Let mk (n s : Z) := mk_sb_u32 (s / 8) (s mod 8) 0 L.
  Let okn (n : Z) := n = M.

  Lemma field_mval32 s c : field (8 * L) M s c = bitsof M s c.
  Proof. unfold field, bitsof. rewrite (Z.mod_small M) by (apply mval_range; assumption). reflexivity. Qed.

  Lemma sb_u32_Hcut n s c : okn n -> anypos s -> 0 <= s -> sb_legal_32 c -> s + c <= 8 * L ->
    sb_u32_cut fuel mem (mk n s) c = Some (field (8 * L) n s c, mk n (s + c)).
  Proof.
    unfold okn, sb_legal_32, mk. intros -> _ Hs Hc Hsc. rewrite field_mval32.
    apply sb_u32_cut_spec; auto; lia.
  Qed.

  Lemma sb_u32_Hsafe n s c : 8 * L < 2 ^ 31 -> okn n -> anypos s -> 0 <= s <= 8 * L -> sb_legal_32 c ->
    sb_u32_safe_cut fuel mem (mk n s) c = Some (field (8 * L) n s (Z.min c (8 * L - s)), mk n (s + Z.min c (8 * L - s))).
  Proof.
    unfold okn, sb_legal_32, mk. intros HL -> _ Hs Hc. rewrite field_mval32.
    apply sb_u32_safe_cut_spec; auto; lia.
  Qed.

  Lemma mk_start32 : mk M 0 = mk_sb_u32 0 0 0 L.
  Proof. reflexivity. Qed.
  Lemma mk_end32 : mk M (8 * L) = mk_sb_u32 L 0 0 L.
  Proof. unfold mk. rewrite Z.mul_comm, Z.div_mul, Z.mod_mul by lia. reflexivity. Qed.
  Lemma mval_mod32 : M mod 2 ^ (8 * L) = M.
  Proof. apply Z.mod_small, mval_range. assumption. Qed.

  Theorem sb_u32_cut_sequence cs : Forall sb_legal_32 cs -> zsum cs = 8 * L ->
    exists vs, run sb_u32 (sb_u32_cut fuel mem) (mk_sb_u32 0 0 0 L) cs = Some (vs, mk_sb_u32 L 0 0 L) /\
               length vs = length cs /\ joinf (combine vs cs) = mval mem.
  Proof.
    intros Hl Hs.
    destruct (cut_sequence_reconstructs_gen sb_u32 (8 * L) mk okn sb_legal_32 anypos (sb_u32_cut fuel mem)) with (n := M) (cs := cs) as [vs [E [Len J]]];
      auto; try exact I; unfold sb_legal_32, okn; try lia; try reflexivity.
    - intros; apply sb_u32_Hcut; auto.
    - exists vs. rewrite mk_start32, mk_end32 in E. rewrite mval_mod32 in J. auto.
  Qed.

  Theorem sb_u32_safe_cut_sequence cs : 8 * L < 2 ^ 31 -> Forall sb_legal_32 cs -> 8 * L <= zsum cs ->
    exists vs, run sb_u32 (sb_u32_safe_cut fuel mem) (mk_sb_u32 0 0 0 L) cs = Some (vs, mk_sb_u32 L 0 0 L) /\
               length vs = length cs /\ joinf (combine vs (clip (8 * L) 0 cs)) = mval mem.
  Proof.
    intros HL Hl Hs.
    destruct (safe_cut_sequence_reconstructs_gen sb_u32 (8 * L) mk okn anypos (sb_u32_safe_cut fuel mem) ltac:(lia) sb_legal_32 (fun n => n))
      with (n := M) (cs := cs) as [vs [E [Len J]]];
      auto; try exact I; unfold okn, anypos, sb_legal_32 in *; try lia; try reflexivity.
    - intros; apply sb_u32_Hsafe; auto.
    - intros n0 c Hn0 Ho0 Hc0 Hw0. rewrite sb_u32_Hsafe by (auto; lia).
      replace (Z.min c (8 * L - 0)) with (8 * L) by lia. rewrite Z.add_0_l. f_equal. f_equal.
      unfold okn in Hn0. subst n0. rewrite field_whole by lia. apply mval_mod32.
    - exists vs. rewrite mk_start32, mk_end32 in E. split; [exact E|]. split; [exact Len|].
      destruct J as [J|J]; rewrite J; [apply mval_mod32|reflexivity].
  Qed.


  (** safe_cut never reads a byte index >= size: in the model an out-of-bounds read is [None], and every
      sequence of safe cuts from the start evaluates to [Some]. *)
  Theorem sb_u32_safe_cut_in_bounds cs : 8 * L < 2 ^ 31 -> Forall sb_legal_32 cs ->
    exists vs st, run sb_u32 (sb_u32_safe_cut fuel mem) (mk_sb_u32 0 0 0 L) cs = Some (vs, st).
  Proof.
    intros HL Hl. rewrite <- mk_start32.
    destruct (run_safe_from_start sb_u32 (8 * L) mk okn anypos (sb_u32_safe_cut fuel mem) ltac:(lia) sb_legal_32 (fun n => n))
      with (n := M) (cs := cs) as [vs [E _]];
      auto; try exact I; unfold okn, anypos, sb_legal_32 in *; try lia; try reflexivity.
    - intros; apply sb_u32_Hsafe; auto.
    - intros n0 c Hn0 Ho0 Hc0 Hw0. rewrite sb_u32_Hsafe by (auto; lia).
      replace (Z.min c (8 * L - 0)) with (8 * L) by lia. rewrite Z.add_0_l. f_equal. f_equal.
      unfold okn in Hn0. subst n0. rewrite field_whole by lia. apply mval_mod32.
    - eauto.
  Qed.

End SBSeq_32.

(** ** Sequence theorems for byte_splitter<_, _, u64> (widths: multiples of 8 up to 64) *)

Definition bs_legal_64 (c : Z) : Prop := exists k, c = 8 * k /\ 1 <= k <= 8.
Definition bytepos (s : Z) : Prop := s mod 8 = 0.

Section BSSeq_64.
  Variable mem : list Z.
  Variable fuel : nat.
  Hypothesis Hmem : bytes_ok mem.
  Hypothesis Hlen : 0 < zlen mem.
  Hypothesis Hfuel : (8 < fuel)%nat.
  Let M := mval mem.
  Let L := zlen mem.
  Let mk (n s : Z) := mk_bs_u64 (s / 8) 0 L.
  Let okn (n : Z) := n = M.

  Lemma bs_u64_field_mval s c : field (8 * L) M s c = bitsof M s c.
  Proof. unfold field, bitsof. rewrite (Z.mod_small M) by (apply mval_range; assumption). reflexivity. Qed.

  Lemma bs_u64_Hcut n s c : okn n -> bytepos s -> 0 <= s -> bs_legal_64 c -> s + c <= 8 * L ->
    bs_u64_cut fuel mem (mk n s) c = Some (field (8 * L) n s c, mk n (s + c)).
  Proof.
    unfold okn, bs_legal_64, bytepos, mk. intros -> Hb Hs [k [-> Hk]] Hsc. rewrite bs_u64_field_mval.
    assert (E : s = 8 * (s / 8)) by (Z.div_mod_to_equations; lia).
    replace ((s + 8 * k) / 8) with (s / 8 + k) by (Z.div_mod_to_equations; lia).
    rewrite E at 2. apply bs_u64_cut_spec; auto; try lia; fold L; try (Z.div_mod_to_equations; lia).
  Qed.

  Lemma bs_u64_Hsafe n s c : 8 * L < 2 ^ 31 -> okn n -> bytepos s -> 0 <= s <= 8 * L -> bs_legal_64 c ->
    bs_u64_safe_cut fuel mem (mk n s) c = Some (field (8 * L) n s (Z.min c (8 * L - s)), mk n (s + Z.min c (8 * L - s))).
  Proof.
    unfold okn, bs_legal_64, bytepos, mk. intros HL -> Hb Hs [k [-> Hk]]. rewrite bs_u64_field_mval.
    assert (E : s = 8 * (s / 8)) by (Z.div_mod_to_equations; lia).
    replace (Z.min (8 * k) (8 * L - s)) with (8 * Z.min k (L - s / 8)) by (Z.div_mod_to_equations; lia).
    replace ((s + 8 * Z.min k (L - s / 8)) / 8) with (s / 8 + Z.min k (L - s / 8)) by (Z.div_mod_to_equations; lia).
    rewrite E at 2. apply bs_u64_safe_cut_spec; auto; try lia; fold L; try (Z.div_mod_to_equations; lia).
  Qed.

  Lemma bs_u64_mk_start : mk M 0 = mk_bs_u64 0 0 L.
  Proof. reflexivity. Qed.
  Lemma bs_u64_mk_end : mk M (8 * L) = mk_bs_u64 L 0 L.
  Proof. unfold mk. rewrite Z.mul_comm, Z.div_mul by lia. reflexivity. Qed.
  Lemma bs_u64_mval_mod : M mod 2 ^ (8 * L) = M.
  Proof. apply Z.mod_small, mval_range. assumption. Qed.

  Lemma bs_u64_side1 c : bs_legal_64 c -> 1 <= c.
  Proof. intros [k [-> Hk]]. lia. Qed.
  Lemma bs_u64_side2 s c : bytepos s -> bs_legal_64 c -> bytepos (s + c).
  Proof. unfold bytepos. intros Hs [k [-> Hk]]. Z.div_mod_to_equations; lia. Qed.
  Lemma bs_u64_side3 s c : bytepos s -> bs_legal_64 c -> 0 <= s <= 8 * L -> bytepos (s + Z.min c (8 * L - s)).
  Proof. unfold bytepos. intros Hs [k [-> Hk]] Hr. Z.div_mod_to_equations; lia. Qed.

  Theorem bs_u64_cut_sequence cs : Forall bs_legal_64 cs -> zsum cs = 8 * L ->
    exists vs, run bs_u64 (bs_u64_cut fuel mem) (mk_bs_u64 0 0 L) cs = Some (vs, mk_bs_u64 L 0 L) /\
               length vs = length cs /\ joinf (combine vs cs) = mval mem.
  Proof.
    intros Hl Hs.
    destruct (cut_sequence_reconstructs_gen bs_u64 (8 * L) mk okn bs_legal_64 bytepos (bs_u64_cut fuel mem)) with (n := M) (cs := cs) as [vs [E [Len J]]];
      auto using bs_u64_side1, bs_u64_side2, bs_u64_side3; unfold okn, bytepos; try lia; try reflexivity.
    - intros; apply bs_u64_Hcut; auto.
    - exists vs. rewrite bs_u64_mk_start, bs_u64_mk_end in E. rewrite bs_u64_mval_mod in J. auto.
  Qed.

  Theorem bs_u64_safe_cut_sequence cs : 8 * L < 2 ^ 31 -> Forall bs_legal_64 cs -> 8 * L <= zsum cs ->
    exists vs, run bs_u64 (bs_u64_safe_cut fuel mem) (mk_bs_u64 0 0 L) cs = Some (vs, mk_bs_u64 L 0 L) /\
               length vs = length cs /\ joinf (combine vs (clip (8 * L) 0 cs)) = mval mem.
  Proof.
    intros HL Hl Hs.
    destruct (safe_cut_sequence_reconstructs_gen bs_u64 (8 * L) mk okn bytepos (bs_u64_safe_cut fuel mem) ltac:(lia) bs_legal_64 (fun n => n))
      with (n := M) (cs := cs) as [vs [E [Len J]]];
      auto using bs_u64_side1, bs_u64_side2, bs_u64_side3; try exact I; unfold okn, bytepos; try lia; try reflexivity.
    - intros; apply bs_u64_Hsafe; auto.
    - intros n0 c Hn0 Ho0 Hc0 Hw0. rewrite bs_u64_Hsafe by (auto; lia).
      replace (Z.min c (8 * L - 0)) with (8 * L) by lia. rewrite Z.add_0_l. f_equal. f_equal.
      unfold okn in Hn0. subst n0. rewrite field_whole by lia. apply bs_u64_mval_mod.
    - exists vs. rewrite bs_u64_mk_start, bs_u64_mk_end in E. split; [exact E|]. split; [exact Len|].
      destruct J as [J|J]; rewrite J; [apply bs_u64_mval_mod|reflexivity].
  Qed.


  Theorem bs_u64_safe_cut_in_bounds cs : 8 * L < 2 ^ 31 -> Forall bs_legal_64 cs ->
    exists vs st, run bs_u64 (bs_u64_safe_cut fuel mem) (mk_bs_u64 0 0 L) cs = Some (vs, st).
  Proof.
    intros HL Hl. rewrite <- bs_u64_mk_start.
    destruct (run_safe_from_start bs_u64 (8 * L) mk okn bytepos (bs_u64_safe_cut fuel mem) ltac:(lia) bs_legal_64 (fun n => n))
      with (n := M) (cs := cs) as [vs [E _]];
      auto using bs_u64_side1, bs_u64_side2, bs_u64_side3; try exact I; unfold okn, bytepos; try lia; try reflexivity.
    - intros; apply bs_u64_Hsafe; auto.
    - intros n0 c Hn0 Ho0 Hc0 Hw0. rewrite bs_u64_Hsafe by (auto; lia).
      replace (Z.min c (8 * L - 0)) with (8 * L) by lia. rewrite Z.add_0_l. f_equal. f_equal.
      unfold okn in Hn0. subst n0. rewrite field_whole by lia. apply bs_u64_mval_mod.
    - eauto.
  Qed.

End BSSeq_64.

(** ** ... and for byte_splitter<_, _, u32> *)
Definition bs_legal_32 (c : Z) : Prop := exists k, c = 8 * k /\ 1 <= k <= 4.

Section BSSeq_32.
  Variable mem : list Z.
  Variable fuel : nat.
  Hypothesis Hmem : bytes_ok mem.
  Hypothesis Hlen : 0 < zlen mem.
  Hypothesis Hfuel : (4 < fuel)%nat.
  Let M := mval mem.
  Let L := zlen mem.
  Let mk (n s : Z) := mk_bs_u32 (s / 8) 0 L.
  Let okn (n : Z) := n = M.

  Lemma bs_u32_field_mval s c : field (8 * L) M s c = bitsof M s c.
  Proof. unfold field, bitsof. rewrite (Z.mod_small M) by (apply mval_range; assumption). reflexivity. Qed.

  Lemma bs_u32_Hcut n s c : okn n -> bytepos s -> 0 <= s -> bs_legal_32 c -> s + c <= 8 * L ->
    bs_u32_cut fuel mem (mk n s) c = Some (field (8 * L) n s c, mk n (s + c)).
  Proof.
    unfold okn, bs_legal_32, bytepos, mk. intros -> Hb Hs [k [-> Hk]] Hsc. rewrite bs_u32_field_mval.
    assert (E : s = 8 * (s / 8)) by (Z.div_mod_to_equations; lia).
    replace ((s + 8 * k) / 8) with (s / 8 + k) by (Z.div_mod_to_equations; lia).
    rewrite E at 2. apply bs_u32_cut_spec; auto; try lia; fold L; try (Z.div_mod_to_equations; lia).
  Qed.

  Lemma bs_u32_Hsafe n s c : 8 * L < 2 ^ 31 -> okn n -> bytepos s -> 0 <= s <= 8 * L -> bs_legal_32 c ->
    bs_u32_safe_cut fuel mem (mk n s) c = Some (field (8 * L) n s (Z.min c (8 * L - s)), mk n (s + Z.min c (8 * L - s))).
  Proof.
    unfold okn, bs_legal_32, bytepos, mk. intros HL -> Hb Hs [k [-> Hk]]. rewrite bs_u32_field_mval.
    assert (E : s = 8 * (s / 8)) by (Z.div_mod_to_equations; lia).
    replace (Z.min (8 * k) (8 * L - s)) with (8 * Z.min k (L - s / 8)) by (Z.div_mod_to_equations; lia).
    replace ((s + 8 * Z.min k (L - s / 8)) / 8) with (s / 8 + Z.min k (L - s / 8)) by (Z.div_mod_to_equations; lia).
    rewrite E at 2. apply bs_u32_safe_cut_spec; auto; try lia; fold L; try (Z.div_mod_to_equations; lia).
  Qed.

  Lemma bs_u32_mk_start : mk M 0 = mk_bs_u32 0 0 L.
  Proof. reflexivity. Qed.
  Lemma bs_u32_mk_end : mk M (8 * L) = mk_bs_u32 L 0 L.
  Proof. unfold mk. rewrite Z.mul_comm, Z.div_mul by lia. reflexivity. Qed.
  Lemma bs_u32_mval_mod : M mod 2 ^ (8 * L) = M.
  Proof. apply Z.mod_small, mval_range. assumption. Qed.

  Lemma bs_u32_side1 c : bs_legal_32 c -> 1 <= c.
  Proof. intros [k [-> Hk]]. lia. Qed.
  Lemma bs_u32_side2 s c : bytepos s -> bs_legal_32 c -> bytepos (s + c).
  Proof. unfold bytepos. intros Hs [k [-> Hk]]. Z.div_mod_to_equations; lia. Qed.
  Lemma bs_u32_side3 s c : bytepos s -> bs_legal_32 c -> 0 <= s <= 8 * L -> bytepos (s + Z.min c (8 * L - s)).
  Proof. unfold bytepos. intros Hs [k [-> Hk]] Hr. Z.div_mod_to_equations; lia. Qed.

  Theorem bs_u32_cut_sequence cs : Forall bs_legal_32 cs -> zsum cs = 8 * L ->
    exists vs, run bs_u32 (bs_u32_cut fuel mem) (mk_bs_u32 0 0 L) cs = Some (vs, mk_bs_u32 L 0 L) /\
               length vs = length cs /\ joinf (combine vs cs) = mval mem.
  Proof.
    intros Hl Hs.
    destruct (cut_sequence_reconstructs_gen bs_u32 (8 * L) mk okn bs_legal_32 bytepos (bs_u32_cut fuel mem)) with (n := M) (cs := cs) as [vs [E [Len J]]];
      auto using bs_u32_side1, bs_u32_side2, bs_u32_side3; unfold okn, bytepos; try lia; try reflexivity.
    - intros; apply bs_u32_Hcut; auto.
    - exists vs. rewrite bs_u32_mk_start, bs_u32_mk_end in E. rewrite bs_u32_mval_mod in J. auto.
  Qed.

  Theorem bs_u32_safe_cut_sequence cs : 8 * L < 2 ^ 31 -> Forall bs_legal_32 cs -> 8 * L <= zsum cs ->
    exists vs, run bs_u32 (bs_u32_safe_cut fuel mem) (mk_bs_u32 0 0 L) cs = Some (vs, mk_bs_u32 L 0 L) /\
               length vs = length cs /\ joinf (combine vs (clip (8 * L) 0 cs)) = mval mem.
  Proof.
    intros HL Hl Hs.
    destruct (safe_cut_sequence_reconstructs_gen bs_u32 (8 * L) mk okn bytepos (bs_u32_safe_cut fuel mem) ltac:(lia) bs_legal_32 (fun n => n))
      with (n := M) (cs := cs) as [vs [E [Len J]]];
      auto using bs_u32_side1, bs_u32_side2, bs_u32_side3; try exact I; unfold okn, bytepos; try lia; try reflexivity.
    - intros; apply bs_u32_Hsafe; auto.
    - intros n0 c Hn0 Ho0 Hc0 Hw0. rewrite bs_u32_Hsafe by (auto; lia).
      replace (Z.min c (8 * L - 0)) with (8 * L) by lia. rewrite Z.add_0_l. f_equal. f_equal.
      unfold okn in Hn0. subst n0. rewrite field_whole by lia. apply bs_u32_mval_mod.
    - exists vs. rewrite bs_u32_mk_start, bs_u32_mk_end in E. split; [exact E|]. split; [exact Len|].
      destruct J as [J|J]; rewrite J; [apply bs_u32_mval_mod|reflexivity].
  Qed.


  Theorem bs_u32_safe_cut_in_bounds cs : 8 * L < 2 ^ 31 -> Forall bs_legal_32 cs ->
    exists vs st, run bs_u32 (bs_u32_safe_cut fuel mem) (mk_bs_u32 0 0 L) cs = Some (vs, st).
  Proof.
    intros HL Hl. rewrite <- bs_u32_mk_start.
    destruct (run_safe_from_start bs_u32 (8 * L) mk okn bytepos (bs_u32_safe_cut fuel mem) ltac:(lia) bs_legal_32 (fun n => n))
      with (n := M) (cs := cs) as [vs [E _]];
      auto using bs_u32_side1, bs_u32_side2, bs_u32_side3; try exact I; unfold okn, bytepos; try lia; try reflexivity.
    - intros; apply bs_u32_Hsafe; auto.
    - intros n0 c Hn0 Ho0 Hc0 Hw0. rewrite bs_u32_Hsafe by (auto; lia).
      replace (Z.min c (8 * L - 0)) with (8 * L) by lia. rewrite Z.add_0_l. f_equal. f_equal.
      unfold okn in Hn0. subst n0. rewrite field_whole by lia. apply bs_u32_mval_mod.
    - eauto.
  Qed.

End BSSeq_32.
